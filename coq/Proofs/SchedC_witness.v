(* Concrete witnesses on the instance Model/SchedC.v: the pinned scheduler violates C02, C03
   and C12; the repaired one still admits the lagging re-poll of known finding K1. *)
From Coq Require Import List NArith ZArith Bool Lia.
From Viv Require Import Model.Sched Model.SchedC Proofs.Sched_defs.
Import ListNotations.
Open Scope Z_scope.

Definition run1 (vr : variant) (ee : option Z) (specs : list (pid * pspec)) (ps : list pid)
           (calls : list (Z * bool)) :=
  run_calls cst cupd cw (cpoll specs) (ccond specs) cnext ccommit vr ee 400 calls (start_state 0 ps).

Definition always (ts : Z) : pspec := {| p_ts := TsConst ts; p_cond := CTrue |}.

(* C02 on the pinned tree: timestep 3 s, update(10 s): the last interval [9, 10] is handed 3 s *)
Theorem ts_refuted_pinned :
  exists s', run1 vpinned None [(0%N, always 48)] [0%N] [(160, true)] = (Some s', true) /\
             In (EInvoke cst 0%N 144 160 48 48 144 {| shared := 3; priv := [(0%N, 144)] |}) (log _ _ _ s').
Proof. eexists. split; [vm_compute; reflexivity|]. vm_compute. tauto. Qed.

(* the repaired scheduler hands 1 s for the same interval *)
Example ts_fixed :
  exists s', run1 vfixed None [(0%N, always 48)] [0%N] [(160, true)] = (Some s', true) /\
             In (EInvoke cst 0%N 144 160 16 48 144 {| shared := 3; priv := [(0%N, 144)] |}) (log _ _ _ s').
Proof. eexists. split; [vm_compute; reflexivity|]. vm_compute. tauto. Qed.

(* C12 on the pinned tree: emit_step 2 s, one process ticking every 5 s: rows at 5, 5, 10, 10, 10 *)
Theorem dup_refuted_pinned :
  exists s', run1 vpinned (Some 32) [(0%N, always 80)] [0%N] [(160, true)] = (Some s', true) /\
             emit_times (log _ _ _ s') = [160; 160; 160; 80; 80; 0].
Proof. eexists. split; vm_compute; reflexivity. Qed.

Example dup_fixed :
  exists s', run1 vfixed (Some 32) [(0%N, always 80)] [0%N] [(160, true)] = (Some s', true) /\
             emit_times (log _ _ _ s') = [160; 80; 0].
Proof. eexists. split; vm_compute; reflexivity. Qed.

(* known finding K1 (repaired code): timesteps 1.25 s then 0.5 s consumed per poll, run_for(1 s) twice:
   the second call invokes the process for the interval [0, 0.5] while the clock shows 1.0; the ok flag is false *)
Theorem mono_refuted :
  exists s', run1 vfixed None [(0%N, {| p_ts := TsScript [20; 8]; p_cond := CTrue |})] [0%N]
                  [(16, false); (16, false)] = (Some s', false) /\
             In (EInvoke cst 0%N 0 8 8 8 16 {| shared := 0; priv := [(0%N, 0)] |}) (log _ _ _ s') /\
             In (EApply cst 0%N 8 8) (log _ _ _ s').
Proof. eexists. split; [vm_compute; reflexivity|]. vm_compute. tauto. Qed.

(* C03 on the pinned tree: one process whose condition is always false; update(2 s) never returns.
   Every pass leaves the clock, the fronts and the store where they were. *)
Definition quiet : pspec := {| p_ts := TsConst 16; p_cond := CFalse |}.

Lemma zlook_zset_eq {A} (w : list (pid * A)) p x : zlook (zset w p x) p = Some x.
Proof.
  induction w as [|[q a] r IH]; cbn.
  - now rewrite N.eqb_refl.
  - destruct (N.eqb q p) eqn:E; cbn; rewrite E; auto.
Qed.

Lemma hang_iter et w l b :
  exists w' l',
    iter cst cupd cw (cpoll [(0%N, quiet)]) (ccond [(0%N, quiet)]) cnext ccommit vpinned None 32 true et
         {| gt := 0; procs := [0%N]; frt := [(0%N, {| ft := 0; fu := None; fq := b |})];
            sto := cst0 [0%N]; wld := w; log := l |}
    = ({| gt := 0; procs := [0%N]; frt := [(0%N, {| ft := 0; fu := None; fq := true |})];
          sto := cst0 [0%N]; wld := w'; log := l' |}, true, et, true).
Proof.
  unfold iter. cbn [procs frt gt sto wld log keep_live filter fst mem existsb N.eqb Pos.eqb orb fold_left].
  unfold poll_one. cbn [pf flook N.eqb ft Z.leb Z.compare pw].
  unfold cpoll, ccond, counts, spec_of. cbn [zlook N.eqb p_ts p_cond quiet].
  destruct (zlook w 0%N) as [[np nc]|]; cbn; rewrite zlook_zset_eq; cbn; eexists; eexists; reflexivity.
Qed.

Theorem hang_refuted_pinned : forall fuel et w l b,
  run cst cupd cw (cpoll [(0%N, quiet)]) (ccond [(0%N, quiet)]) cnext ccommit vpinned None fuel 32 true et
      {| gt := 0; procs := [0%N]; frt := [(0%N, {| ft := 0; fu := None; fq := b |})];
         sto := cst0 [0%N]; wld := w; log := l |} = (None, true).
Proof.
  induction fuel as [|n IH]; intros et w l b.
  - reflexivity.
  - cbn [run gt Z.ltb Z.compare orb].
    destruct (hang_iter et w l b) as [w' [l' H]]. rewrite H. rewrite IH. reflexivity.
Qed.

(* the same composite terminates on the repaired scheduler *)
Example quiet_fixed :
  exists s', run1 vfixed None [(0%N, quiet)] [0%N] [(32, true)] = (Some s', true) /\ gt _ _ _ s' = 32
             /\ complete _ _ _ s' = true.
Proof. eexists. split; [vm_compute; reflexivity|]. split; vm_compute; reflexivity. Qed.

Print Assumptions ts_refuted_pinned.
Print Assumptions dup_refuted_pinned.
Print Assumptions mono_refuted.
Print Assumptions hang_refuted_pinned.
