(* Proofs about Model/Timeline.v (C19). *)
From Coq Require Import List NArith ZArith Bool Lia Sorting.Sorted Sorting.Permutation.
From Viv Require Import Base.Assoc Model.Timeline.
Import ListNotations.
Open Scope Z_scope.

Definition times (l : list event) : list Z := map fst l.
Definition tsorted (l : list event) : Prop := StronglySorted Z.lt (times l).

(* the change_dicts of all listed events with time t, in listing order *)
Definition at_time (t : Z) (evs : list event) : list asg :=
  map snd (filter (fun e => fst e =? t) evs).

(* first event with time t *)
Fixpoint tlookup (t : Z) (l : list event) : option asg :=
  match l with
  | [] => None
  | (t', d) :: r => if t' =? t then Some d else tlookup t r
  end.

(* value a timeline gives variable k at time t *)
Definition tvalue (l : list event) (t : Z) (k : var) : option Z :=
  match tlookup t l with Some d => alookup k d | None => None end.

(* no two same-time events give one variable different values *)
Definition compatible (evs : list event) : Prop :=
  forall e1 e2 k v1 v2, In e1 evs -> In e2 evs -> fst e1 = fst e2 ->
    alookup k (snd e1) = Some v1 -> alookup k (snd e2) = Some v2 -> v1 = v2.

Local Arguments dict_update : simpl never.

(* ==================================================================================== *)
(* generic helpers *)

Lemma filter_none {A} (p : A -> bool) (l : list A) :
  (forall x, In x l -> p x = false) -> filter p l = [].
Proof.
  induction l as [|x r IH]; intros H; cbn; [reflexivity|].
  rewrite (H x (or_introl eq_refl)). apply IH. intros y Hy. apply H. right. exact Hy.
Qed.

Lemma filter_all {A} (p : A -> bool) (l : list A) :
  (forall x, In x l -> p x = true) -> filter p l = l.
Proof.
  induction l as [|x r IH]; intros H; cbn; [reflexivity|].
  rewrite (H x (or_introl eq_refl)). f_equal. apply IH. intros y Hy. apply H. right. exact Hy.
Qed.

Lemma filter_cons_app {A} (p : A -> bool) (x : A) (l : list A) :
  filter p (x :: l) = filter p [x] ++ filter p l.
Proof. cbn. destruct (p x); reflexivity. Qed.

Lemma option_ext (o1 o2 : option Z) : (forall v, o1 = Some v <-> o2 = Some v) -> o1 = o2.
Proof.
  intros H. destruct o1 as [a|], o2 as [b|]; auto.
  - symmetry. apply H. reflexivity.
  - symmetry. apply H. reflexivity.
  - apply H. reflexivity.
Qed.

Lemma at_time_cons t e r :
  at_time t (e :: r) = if fst e =? t then snd e :: at_time t r else at_time t r.
Proof. unfold at_time. cbn. destruct (fst e =? t); reflexivity. Qed.

Lemma at_time_nil_gt t l : Forall (Z.lt t) (times l) -> at_time t l = [].
Proof.
  intros H. unfold at_time. rewrite filter_none; [reflexivity|].
  intros x Hx. rewrite Forall_forall in H.
  specialize (H (fst x) (in_map fst _ _ Hx)). apply Z.eqb_neq. lia.
Qed.

Lemma at_time_in t evs d :
  In d (at_time t evs) <-> exists e, In e evs /\ fst e = t /\ snd e = d.
Proof.
  unfold at_time. rewrite in_map_iff. split.
  - intros (e & Hd & Hin). apply filter_In in Hin as [Hin Ht].
    apply Z.eqb_eq in Ht. exists e. auto.
  - intros (e & Hin & Ht & Hd). exists e. split; [exact Hd|].
    apply filter_In. split; [exact Hin|]. apply Z.eqb_eq. exact Ht.
Qed.

(* ==================================================================================== *)
(* ssort: stable insertion sort *)

Definition lsorted (l : list event) : Prop := StronglySorted Z.le (times l).

Lemma ins_perm e l : Permutation (ins e l) (e :: l).
Proof.
  induction l as [|x r IH]; cbn.
  - apply Permutation_refl.
  - destruct (fst e <? fst x).
    + apply Permutation_refl.
    + eapply Permutation_trans; [apply perm_skip; exact IH|apply perm_swap].
Qed.

Lemma ins_times_in e l y : In y (times (ins e l)) <-> y = fst e \/ In y (times l).
Proof.
  induction l as [|x r IH]; cbn.
  - split; [intros [H|[]]; left; congruence|intros [H|[]]; left; congruence].
  - destruct (fst e <? fst x); cbn.
    + split; [intros [H|H]; [left; congruence|right; exact H]
             |intros [H|H]; [left; congruence|right; exact H]].
    + unfold times in IH. rewrite IH. tauto.
Qed.

Lemma ins_sorted e l : lsorted l -> lsorted (ins e l).
Proof.
  unfold lsorted. induction l as [|x r IH]; intros Hs.
  - cbn. constructor; constructor.
  - cbn in Hs. inversion Hs as [|? ? Hs' Hall]; subst.
    cbn [ins]. destruct (fst e <? fst x) eqn:E.
    + apply Z.ltb_lt in E. cbn. constructor; [exact Hs|].
      constructor; [lia|]. rewrite Forall_forall in *. intros y Hy.
      specialize (Hall y Hy). lia.
    + apply Z.ltb_ge in E. cbn. constructor; [apply IH; exact Hs'|].
      rewrite Forall_forall in *. intros y Hy.
      apply ins_times_in in Hy as [->|Hy]; [lia|apply Hall; exact Hy].
Qed.

Lemma ins_filter t e l : lsorted l ->
  filter (fun x : event => fst x =? t) (ins e l) =
  filter (fun x : event => fst x =? t) l ++ filter (fun x : event => fst x =? t) [e].
Proof.
  unfold lsorted. induction l as [|x r IH]; intros Hs.
  - reflexivity.
  - cbn in Hs. inversion Hs as [|? ? Hs' Hall]; subst.
    cbn [ins]. destruct (fst e <? fst x) eqn:E.
    + apply Z.ltb_lt in E.
      rewrite (filter_cons_app (fun x0 : event => fst x0 =? t) e (x :: r)).
      cbn [filter]. destruct (fst e =? t) eqn:Et.
      * apply Z.eqb_eq in Et.
        assert (Hn : filter (fun x0 : event => fst x0 =? t) (x :: r) = []).
        { apply filter_none.
          intros y [<-|Hy]; apply Z.eqb_neq; [lia|].
          rewrite Forall_forall in Hall. specialize (Hall (fst y) (in_map fst _ _ Hy)). lia. }
        cbn [filter] in Hn. rewrite Hn. reflexivity.
      * cbn. rewrite app_nil_r. reflexivity.
    + cbn [filter]. rewrite (IH Hs'). destruct (fst x =? t); reflexivity.
Qed.

Lemma ssort_gen_sorted l : forall acc, lsorted acc ->
  lsorted (fold_left (fun a e => ins e a) l acc).
Proof.
  induction l as [|e r IH]; intros acc Hs; cbn; [exact Hs|].
  apply IH. apply ins_sorted. exact Hs.
Qed.

Lemma ssort_gen_perm l : forall acc,
  Permutation (fold_left (fun a e => ins e a) l acc) (acc ++ l).
Proof.
  induction l as [|e r IH]; intros acc; cbn.
  - rewrite app_nil_r. apply Permutation_refl.
  - eapply Permutation_trans; [apply IH|].
    eapply Permutation_trans; [apply Permutation_app_tail; apply ins_perm|].
    apply (Permutation_middle acc r e).
Qed.

Lemma ssort_gen_filter t l : forall acc, lsorted acc ->
  filter (fun x : event => fst x =? t) (fold_left (fun a e => ins e a) l acc) =
  filter (fun x : event => fst x =? t) acc ++ filter (fun x : event => fst x =? t) l.
Proof.
  induction l as [|e r IH]; intros acc Hs.
  - cbn. rewrite app_nil_r. reflexivity.
  - cbn [fold_left]. rewrite (IH _ (ins_sorted e acc Hs)). rewrite (ins_filter t e acc Hs).
    rewrite <- app_assoc. f_equal. cbn. destruct (fst e =? t); reflexivity.
Qed.

Lemma ssort_sorted l : lsorted (ssort l).
Proof. apply ssort_gen_sorted. constructor. Qed.

Lemma ssort_perm l : Permutation (ssort l) l.
Proof. apply (ssort_gen_perm l []). Qed.

(* stability *)
Lemma ssort_stable t l :
  filter (fun x : event => fst x =? t) (ssort l) = filter (fun x : event => fst x =? t) l.
Proof. unfold ssort. rewrite ssort_gen_filter; [reflexivity|constructor]. Qed.

Lemma ssort_at_time t l : at_time t (ssort l) = at_time t l.
Proof. unfold at_time. rewrite ssort_stable. reflexivity. Qed.

(* ==================================================================================== *)
(* merge_sorted: forward characterisation *)

Fixpoint mergef (t : Z) (d : asg) (l : list event) : list event :=
  match l with
  | [] => [(t, d)]
  | e :: r => if t =? fst e then mergef t (dict_update d (snd e)) r
              else (t, d) :: mergef (fst e) (dict_update [] (snd e)) r
  end.

Lemma merge_fold_mergef l : forall t d acc,
  rev (fold_left merge_step l ((t, d) :: acc)) = rev acc ++ mergef t d l.
Proof.
  induction l as [|e r IH]; intros t d acc.
  - reflexivity.
  - cbn [fold_left merge_step mergef]. destruct (t =? fst e).
    + apply IH.
    + rewrite IH. cbn [rev]. rewrite <- app_assoc. reflexivity.
Qed.

Lemma merge_sorted_cons e l :
  merge_sorted (e :: l) = mergef (fst e) (dict_update [] (snd e)) l.
Proof. exact (merge_fold_mergef l (fst e) (dict_update [] (snd e)) []). Qed.

Lemma mergef_times_in l : forall t d y,
  In y (times (mergef t d l)) -> y = t \/ In y (times l).
Proof.
  induction l as [|e r IH]; intros t d y; cbn [mergef].
  - cbn. intros [H|[]]. left. congruence.
  - destruct (t =? fst e) eqn:E.
    + intros H. apply IH in H. apply Z.eqb_eq in E. cbn. destruct H as [H|H]; [left; exact H|right; right; exact H].
    + cbn. intros [H|H]; [left; congruence|].
      apply IH in H. destruct H as [H|H]; [right; left; congruence|right; right; exact H].
Qed.

Lemma mergef_sorted l : forall t d, lsorted l -> Forall (Z.le t) (times l) ->
  tsorted (mergef t d l).
Proof.
  unfold lsorted, tsorted. induction l as [|e r IH]; intros t d Hs Hall; cbn [mergef].
  - cbn. constructor; constructor.
  - cbn in Hs, Hall. inversion Hs as [|? ? Hs' Hle]; subst.
    inversion Hall as [|? ? Hte Hall']; subst.
    destruct (t =? fst e) eqn:E.
    + apply IH; assumption.
    + apply Z.eqb_neq in E. cbn. constructor.
      * apply IH; assumption.
      * rewrite Forall_forall in *. intros y Hy.
        apply mergef_times_in in Hy as [->|Hy]; [lia|].
        specialize (Hle y Hy). lia.
Qed.

Lemma mergef_lookup t' l : forall t d, lsorted l -> Forall (Z.le t) (times l) ->
  tlookup t' (mergef t d l) =
  if t =? t' then Some (fold_left dict_update (at_time t' l) d)
  else match at_time t' l with
       | [] => None
       | ds => Some (fold_left dict_update ds [])
       end.
Proof.
  unfold lsorted. induction l as [|e r IH]; intros t d Hs Hall.
  - cbn. destruct (t =? t'); reflexivity.
  - cbn in Hs, Hall. inversion Hs as [|? ? Hs' Hle]; subst.
    inversion Hall as [|? ? Hte Hall']; subst.
    cbn [mergef]. rewrite at_time_cons.
    destruct (t =? fst e) eqn:E.
    + rewrite (IH _ _ Hs' Hall').
      apply Z.eqb_eq in E. subst t.
      destruct (fst e =? t') eqn:E'; reflexivity.
    + cbn [tlookup]. destruct (t =? t') eqn:E'.
      * apply Z.eqb_eq in E'. subst t'. apply Z.eqb_neq in E.
        assert (E2 : (fst e =? t) = false) by (apply Z.eqb_neq; lia).
        rewrite E2. rewrite at_time_nil_gt; [reflexivity|].
        rewrite Forall_forall in *. intros y Hy. specialize (Hle y Hy). lia.
      * rewrite (IH _ _ Hs' Hle). destruct (fst e =? t'); reflexivity.
Qed.

Lemma merge_content t l : lsorted l ->
  tlookup t (merge_sorted l) =
  match at_time t l with
  | [] => None
  | ds => Some (fold_left dict_update ds [])
  end.
Proof.
  destruct l as [|e r]; intros Hs; [reflexivity|].
  rewrite merge_sorted_cons. unfold lsorted in Hs. cbn in Hs.
  inversion Hs as [|? ? Hs' Hle]; subst.
  rewrite (mergef_lookup t r _ _ Hs' Hle). rewrite at_time_cons.
  destruct (fst e =? t); reflexivity.
Qed.

Theorem init_sorted evs : tsorted (init_timeline evs).
Proof.
  unfold init_timeline. pose proof (ssort_sorted evs) as Hs.
  destruct (ssort evs) as [|e r].
  - constructor.
  - rewrite merge_sorted_cons. unfold lsorted in Hs. cbn in Hs.
    inversion Hs as [|? ? Hs' Hle]; subst. apply mergef_sorted; assumption.
Qed.

Theorem init_content evs t :
  tlookup t (init_timeline evs) =
  match at_time t evs with
  | [] => None
  | ds => Some (fold_left dict_update ds [])
  end.
Proof.
  unfold init_timeline. rewrite (merge_content t _ (ssort_sorted evs)).
  rewrite ssort_at_time. reflexivity.
Qed.

(* ==================================================================================== *)
(* dict_update: which bindings survive *)

Lemma du_nil d : dict_update d [] = d.
Proof. reflexivity. Qed.

Lemma du_cons d k v u : dict_update d ((k, v) :: u) = dict_update (aset k v d) u.
Proof. reflexivity. Qed.

Lemma du_lookup_in k v u : forall d,
  alookup k (dict_update d u) = Some v -> alookup k d = Some v \/ In (k, v) u.
Proof.
  induction u as [|[k' v'] u IH]; intros d H.
  - left. exact H.
  - rewrite du_cons in H. apply IH in H as [H|H]; [|right; right; exact H].
    destruct (N.eq_dec k' k) as [->|Hne].
    + rewrite alookup_aset_eq in H. injection H as ->. right. left. reflexivity.
    + rewrite (alookup_aset_neq _ _ _ _ Hne) in H. left. exact H.
Qed.

Lemma du_keys k u : forall d,
  In k (akeys (dict_update d u)) <-> In k (akeys d) \/ In k (akeys u).
Proof.
  induction u as [|[k' v'] u IH]; intros d.
  - rewrite du_nil. cbn. tauto.
  - rewrite du_cons, IH, akeys_aset_incl. cbn.
    assert (Hs : k = k' <-> k' = k) by (split; congruence). tauto.
Qed.

Lemma fold_du_lookup_in k v ds : forall acc,
  alookup k (fold_left dict_update ds acc) = Some v ->
  alookup k acc = Some v \/ exists d, In d ds /\ In (k, v) d.
Proof.
  induction ds as [|d0 ds IH]; intros acc H.
  - left. exact H.
  - cbn [fold_left] in H. apply IH in H as [H|(d & Hd & Hin)].
    + apply du_lookup_in in H as [H|H]; [left; exact H|].
      right. exists d0. split; [left; reflexivity|exact H].
    + right. exists d. split; [right; exact Hd|exact Hin].
Qed.

Lemma fold_du_keys k ds : forall acc,
  In k (akeys (fold_left dict_update ds acc)) <->
  In k (akeys acc) \/ exists d, In d ds /\ In k (akeys d).
Proof.
  induction ds as [|d0 ds IH]; intros acc.
  - cbn. split; [auto|]. intros [H|(d & [] & _)]. exact H.
  - cbn [fold_left]. rewrite IH, du_keys. split.
    + intros [[H|H]|(d & Hd & Hin)].
      * left. exact H.
      * right. exists d0. split; [left; reflexivity|exact H].
      * right. exists d. split; [right; exact Hd|exact Hin].
    + intros [H|(d & [<-|Hd] & Hin)].
      * left. left. exact H.
      * left. right. exact Hin.
      * right. exists d. split; assumption.
Qed.

(* same-key bindings anywhere in the listed dicts agree *)
Definition ds_compat (ds : list asg) : Prop :=
  forall d1 d2 k v1 v2, In d1 ds -> In d2 ds -> In (k, v1) d1 -> In (k, v2) d2 -> v1 = v2.

Lemma fold_du_char ds k v : ds_compat ds ->
  (alookup k (fold_left dict_update ds []) = Some v <-> exists d, In d ds /\ In (k, v) d).
Proof.
  intros HC. split.
  - intros H. apply fold_du_lookup_in in H as [H|H]; [discriminate H|exact H].
  - intros (d & Hd & Hin).
    destruct (alookup k (fold_left dict_update ds [])) as [v'|] eqn:E.
    + apply fold_du_lookup_in in E as [E|(d' & Hd' & Hin')]; [discriminate E|].
      f_equal. exact (HC d' d k v' v Hd' Hd Hin' Hin).
    + exfalso. apply alookup_None_notin in E. apply E.
      apply fold_du_keys. right. exists d. split; [exact Hd|].
      unfold akeys. change k with (fst (k, v)). apply in_map. exact Hin.
Qed.

Lemma tvalue_init evs t k :
  tvalue (init_timeline evs) t k = alookup k (fold_left dict_update (at_time t evs) []).
Proof. unfold tvalue. rewrite init_content. destruct (at_time t evs); reflexivity. Qed.

(* compatibility phrased on bindings rather than on first-binding lookup *)
Definition compatible_in (evs : list event) : Prop :=
  forall e1 e2 k v1 v2, In e1 evs -> In e2 evs -> fst e1 = fst e2 ->
    In (k, v1) (snd e1) -> In (k, v2) (snd e2) -> v1 = v2.

Lemma compatible_in_at_time evs t : compatible_in evs -> ds_compat (at_time t evs).
Proof.
  intros HC d1 d2 k v1 v2 H1 H2 Hin1 Hin2.
  apply at_time_in in H1 as (e1 & He1 & Ht1 & <-).
  apply at_time_in in H2 as (e2 & He2 & Ht2 & <-).
  apply (HC e1 e2 k v1 v2 He1 He2); [congruence|exact Hin1|exact Hin2].
Qed.

Lemma compatible_in_perm evs evs' : Permutation evs evs' -> compatible_in evs -> compatible_in evs'.
Proof.
  intros HP HC e1 e2 k v1 v2 H1 H2. apply Permutation_sym in HP.
  apply HC; [exact (Permutation_in _ HP H1)|exact (Permutation_in _ HP H2)].
Qed.

Theorem init_perm_in evs evs' : Permutation evs evs' -> compatible_in evs ->
  forall t k, tvalue (init_timeline evs) t k = tvalue (init_timeline evs') t k.
Proof.
  intros HP HC t k. rewrite !tvalue_init.
  pose proof (compatible_in_at_time evs t HC) as C1.
  pose proof (compatible_in_at_time evs' t (compatible_in_perm _ _ HP HC)) as C2.
  assert (Hiff : forall d, In d (at_time t evs) <-> In d (at_time t evs')).
  { intros d. rewrite !at_time_in. split; intros (e & He & Ht & Hd); exists e.
    - split; [exact (Permutation_in _ HP He)|split; assumption].
    - split; [exact (Permutation_in _ (Permutation_sym HP) He)|split; assumption]. }
  apply option_ext. intros v. rewrite (fold_du_char _ k v C1), (fold_du_char _ k v C2).
  split; intros (d & Hd & Hin); exists d; (split; [apply Hiff; exact Hd|exact Hin]).
Qed.

(* The statement as given,

     Theorem init_perm evs evs' : Permutation evs evs' -> compatible evs ->
       forall t k, tvalue (init_timeline evs) t k = tvalue (init_timeline evs') t k.

   is FALSE: `compatible` only constrains the FIRST binding of a variable in each
   change_dict (alookup), whereas dict_update lets the LAST binding win, and an `asg`
   (association list) may bind a variable twice.  Counterexample below.  A Python dict
   never has duplicate keys, so the closest true variant adds that well-formedness
   hypothesis (init_perm_partial); init_perm_in above is the variant that instead
   strengthens compatibility to all bindings. *)
Theorem init_perm_counterexample :
  ~ (forall evs evs', Permutation evs evs' -> compatible evs ->
       forall t k, tvalue (init_timeline evs) t k = tvalue (init_timeline evs') t k).
Proof.
  intros H.
  specialize (H [(0, [(1%N, 1); (1%N, 2)]); (0, [(1%N, 1)])]
                [(0, [(1%N, 1)]); (0, [(1%N, 1); (1%N, 2)])]
                (perm_swap _ _ _)).
  assert (HC : compatible [(0, [(1%N, 1); (1%N, 2)]); (0, [(1%N, 1)])]).
  { intros e1 e2 k v1 v2 H1 H2 _ L1 L2.
    assert (A1 : alookup k (snd e1) = Some v1 -> v1 = 1).
    { destruct H1 as [<-|[<-|[]]]; cbn [alookup snd]; destruct (1 =? k)%N; congruence. }
    assert (A2 : alookup k (snd e2) = Some v2 -> v2 = 1).
    { destruct H2 as [<-|[<-|[]]]; cbn [alookup snd]; destruct (1 =? k)%N; congruence. }
    rewrite (A1 L1), (A2 L2). reflexivity. }
  specialize (H HC 0 1%N). vm_compute in H. discriminate H.
Qed.

Theorem init_perm_partial evs evs' : Permutation evs evs' -> compatible evs ->
  (forall e, In e evs -> NoDup (akeys (snd e))) ->
  forall t k, tvalue (init_timeline evs) t k = tvalue (init_timeline evs') t k.
Proof.
  intros HP HC HN. apply init_perm_in; [exact HP|].
  intros e1 e2 k v1 v2 H1 H2 Ht L1 L2.
  apply (HC e1 e2 k v1 v2 H1 H2 Ht); apply In_alookup; auto.
Qed.

(* ==================================================================================== *)
(* due / fire / tick *)

Theorem due_partition c tl f rest : due c tl = (f, rest) -> f ++ rest = tl.
Proof.
  revert f rest. induction tl as [|[t d] r IH]; intros f rest H; cbn in H.
  - injection H as <- <-. reflexivity.
  - destruct (t <=? c).
    + destruct (due c r) as [f' rest'] eqn:E. injection H as <- <-.
      cbn. f_equal. apply IH. reflexivity.
    + injection H as <- <-. reflexivity.
Qed.

Lemma tsorted_filter p l : tsorted l -> tsorted (filter p l).
Proof.
  unfold tsorted, times. induction l as [|x r IH]; intros Hs.
  - constructor.
  - cbn in Hs. inversion Hs as [|? ? Hs' Hall]; subst. cbn [filter].
    destruct (p x); [|apply IH; exact Hs'].
    cbn. constructor; [apply IH; exact Hs'|].
    rewrite Forall_forall in *. intros y Hy. apply Hall.
    apply in_map_iff in Hy as (z & <- & Hz). apply filter_In in Hz as [Hz _].
    apply in_map. exact Hz.
Qed.

Theorem due_spec c tl : tsorted tl ->
  due c tl = (filter (fun e => fst e <=? c) tl, filter (fun e => c <? fst e) tl).
Proof.
  unfold tsorted, times. induction tl as [|[t d] r IH]; intros Hs.
  - reflexivity.
  - cbn in Hs. inversion Hs as [|? ? Hs' Hall]; subst.
    cbn [due filter fst]. destruct (t <=? c) eqn:E.
    + rewrite (IH Hs'). apply Z.leb_le in E.
      assert (E2 : (c <? t) = false) by (apply Z.ltb_ge; lia).
      rewrite E2. reflexivity.
    + apply Z.leb_gt in E.
      assert (E2 : (c <? t) = true) by (apply Z.ltb_lt; lia).
      rewrite E2. rewrite Forall_forall in Hall. f_equal.
      * symmetry. apply filter_none. intros x Hx. apply Z.leb_gt.
        specialize (Hall (fst x) (in_map fst _ _ Hx)). lia.
      * f_equal. symmetry. apply filter_all. intros x Hx. apply Z.ltb_lt.
        specialize (Hall (fst x) (in_map fst _ _ Hx)). lia.
Qed.

Lemma fire_is_due c tl : forall acc,
  fire c acc tl = (fold_left dict_update (map snd (fst (due c tl))) acc, snd (due c tl)).
Proof.
  induction tl as [|[t d] r IH]; intros acc.
  - reflexivity.
  - cbn [fire due]. destruct (t <=? c).
    + rewrite IH. destruct (due c r) as [f rest]. reflexivity.
    + reflexivity.
Qed.

Theorem tick_is_due c tl : tick c tl =
  (fold_left dict_update (map snd (fst (due c tl))) [], snd (due c tl)).
Proof. apply fire_is_due. Qed.

Theorem run_due_partition cs tl fs rest : run_due cs tl = (fs, rest) -> concat fs ++ rest = tl.
Proof.
  revert tl fs rest. induction cs as [|c cs IH]; intros tl fs rest H; cbn in H.
  - injection H as <- <-. reflexivity.
  - destruct (due c tl) as [f tl'] eqn:E1. destruct (run_due cs tl') as [fs' tl''] eqn:E2.
    injection H as <- <-. cbn. rewrite <- app_assoc. rewrite (IH _ _ _ E2).
    apply (due_partition c). exact E1.
Qed.

Theorem run_ticks_is_run_due cs tl :
  run_ticks cs tl = (map (fun f => fold_left dict_update (map snd f) []) (fst (run_due cs tl)), snd (run_due cs tl)).
Proof.
  revert tl. induction cs as [|c cs IH]; intros tl.
  - reflexivity.
  - cbn [run_ticks run_due]. rewrite tick_is_due.
    destruct (due c tl) as [f tl']. cbn [fst snd]. rewrite IH.
    destruct (run_due cs tl') as [fs tl'']. reflexivity.
Qed.

Theorem run_due_length cs tl : length (fst (run_due cs tl)) = length cs.
Proof.
  revert tl. induction cs as [|c cs IH]; intros tl.
  - reflexivity.
  - cbn [run_due]. destruct (due c tl) as [f tl'].
    specialize (IH tl'). destruct (run_due cs tl') as [fs tl'']. cbn in *. f_equal. exact IH.
Qed.

Lemma in_nth_concat {A} (x : A) fs : forall k, In x (nth k fs []) -> In x (concat fs).
Proof.
  induction fs as [|f fs IH]; intros k H.
  - destruct k; destruct H.
  - cbn. apply in_or_app. destruct k as [|k]; [left; exact H|right; apply (IH k); exact H].
Qed.

Lemma forall_lt_S (c : Z) cs n x :
  (forall j, (j < S n)%nat -> nth j (c :: cs) 0 < x) <->
  (c < x /\ forall j, (j < n)%nat -> nth j cs 0 < x).
Proof.
  split.
  - intros H. split.
    + apply (H 0%nat). lia.
    + intros j Hj. apply (H (S j)). lia.
  - intros [Hc H] [|j] Hj; [exact Hc|]. cbn. apply H. lia.
Qed.

Lemma run_due_cons c cs tl fs rest : tsorted tl -> run_due (c :: cs) tl = (fs, rest) ->
  exists fs', fs = filter (fun e : event => fst e <=? c) tl :: fs' /\
              run_due cs (filter (fun e : event => c <? fst e) tl) = (fs', rest).
Proof.
  intros Hs H. cbn [run_due] in H. rewrite (due_spec c tl Hs) in H. cbv beta iota in H.
  match type of H with context [run_due cs ?X] =>
    destruct (run_due cs X) as [fs' tl''] eqn:E2 end.
  injection H as <- <-. exists fs'. split; [reflexivity|exact E2].
Qed.

Theorem exactly_once_on_time cs tl fs rest : tsorted tl -> StronglySorted Z.lt cs ->
  run_due cs tl = (fs, rest) ->
  forall e k, In e tl -> (k < length cs)%nat ->
    (In e (nth k fs []) <-> (fst e <= nth k cs 0 /\ forall j, (j < k)%nat -> nth j cs 0 < fst e)).
Proof.
  intros Hs _. revert tl fs rest Hs.
  induction cs as [|c cs IH]; intros tl fs rest Hs H e k Hin Hk; [cbn in Hk; lia|].
  apply (run_due_cons _ _ _ _ _ Hs) in H as (fs' & -> & E2).
  destruct k as [|k].
  - cbn [nth]. rewrite filter_In. split.
    + intros [_ Hle]. apply Z.leb_le in Hle. split; [exact Hle|]. intros j Hj. lia.
    + intros [Hle _]. split; [exact Hin|]. apply Z.leb_le. exact Hle.
  - rewrite forall_lt_S. cbn [nth]. cbn in Hk.
    destruct (c <? fst e) eqn:Ec.
    + assert (HinR : In e (filter (fun e0 : event => c <? fst e0) tl))
        by (apply filter_In; split; assumption).
      rewrite (IH _ _ _ (tsorted_filter _ _ Hs) E2 e k HinR ltac:(lia)).
      apply Z.ltb_lt in Ec. tauto.
    + apply Z.ltb_ge in Ec. split.
      * intros Hf. exfalso. apply in_nth_concat in Hf.
        pose proof (run_due_partition _ _ _ _ E2) as HP.
        assert (HinR : In e (filter (fun e0 : event => c <? fst e0) tl))
          by (rewrite <- HP; apply in_or_app; left; exact Hf).
        apply filter_In in HinR as [_ Hlt]. apply Z.ltb_lt in Hlt. lia.
      * intros [_ [Hlt _]]. lia.
Qed.

Theorem never_fired_is_future cs tl fs rest : tsorted tl -> StronglySorted Z.lt cs ->
  run_due cs tl = (fs, rest) ->
  forall e, In e tl -> (In e rest <-> forall j, (j < length cs)%nat -> nth j cs 0 < fst e).
Proof.
  intros Hs _. revert tl fs rest Hs.
  induction cs as [|c cs IH]; intros tl fs rest Hs H e Hin.
  - cbn in H. injection H as <- <-. split; [|intros _; exact Hin].
    intros _ j Hj. cbn in Hj. lia.
  - apply (run_due_cons _ _ _ _ _ Hs) in H as (fs' & -> & E2). cbn [length]. rewrite forall_lt_S.
    destruct (c <? fst e) eqn:Ec.
    + assert (HinR : In e (filter (fun e0 : event => c <? fst e0) tl))
        by (apply filter_In; split; assumption).
      rewrite (IH _ _ _ (tsorted_filter _ _ Hs) E2 e HinR).
      apply Z.ltb_lt in Ec. tauto.
    + apply Z.ltb_ge in Ec. split.
      * intros Hf. exfalso.
        pose proof (run_due_partition _ _ _ _ E2) as HP.
        assert (HinR : In e (filter (fun e0 : event => c <? fst e0) tl))
          by (rewrite <- HP; apply in_or_app; right; exact Hf).
        apply filter_In in HinR as [_ Hlt]. apply Z.ltb_lt in Hlt. lia.
      * intros [Hlt _]. lia.
Qed.

(* ==================================================================================== *)
(* witnesses against the pinned (pre-repair) code *)

Theorem sort_refuted_pinned : exists evs t, In t (times evs) /\ ~ In t (times (init_pinned evs)).
Proof.
  exists [(0, [(1%N, 1)]); (10, [(2%N, 2)]); (5, [(3%N, 3)])], 10. split.
  - cbn. auto.
  - vm_compute. intros [H|[H|[]]]; discriminate H.
Qed.

Theorem pop_refuted_pinned : exists c tl, tsorted tl /\ (forall e, In e tl -> fst e <= c) /\
  fst (tick_pinned c tl) <> fst (tick c tl) /\ snd (tick_pinned c tl) <> [].
Proof.
  exists 5, [(1, [(1%N, 1)]); (2, [(2%N, 2)]); (3, [(3%N, 3)])].
  split; [|split; [|split]].
  - unfold tsorted. cbn. repeat constructor.
  - intros e [<-|[<-|[<-|[]]]]; cbn; lia.
  - vm_compute. intros H. discriminate H.
  - vm_compute. intros H. discriminate H.
Qed.

(* ==================================================================================== *)
Print Assumptions init_sorted.
Print Assumptions init_content.
Print Assumptions init_perm_in.
Print Assumptions init_perm_counterexample.
Print Assumptions init_perm_partial.
Print Assumptions due_partition.
Print Assumptions due_spec.
Print Assumptions tick_is_due.
Print Assumptions run_due_partition.
Print Assumptions run_ticks_is_run_due.
Print Assumptions exactly_once_on_time.
Print Assumptions never_fired_is_future.
Print Assumptions run_due_length.
Print Assumptions sort_refuted_pinned.
Print Assumptions pop_refuted_pinned.
