(* Proofs about Model/Wire.v `generate` for PLAIN composites: every declared variable is built where its port is
   wired, with the explicit initial value or else a declared default, and nothing else becomes a variable (C15,
   composite level). *)
From Coq Require Import List NArith ZArith Bool Lia.
From Viv Require Import Base.Assoc Base.Tree Model.Paths Model.Wire Proofs.Paths_proofs Proofs.Wire_proofs
  Proofs.Wire15_proofs.
Import ListNotations.

(* ================= the statements' vocabulary ================= *)

(* a port schema that only declares variables (without `_value`), each under its own name *)
Definition plain_vars (vs : list (pkey * schema)) : Prop :=
  NoDup (map fst vs) /\
  Forall (fun kv => exists k d, kv = (PK k, SVar d) /\ dv d = None) vs.

(* a process: ports under distinct names, every port a plain port wired by a non-empty downward tuple path *)
Definition plain_proc (p : proc) : Prop :=
  exists ports, pr_schema p = SNode false ports /\ NoDup (map fst ports) /\
    Forall (fun kv => exists k vs path, kv = (PK k, SNode false vs) /\ plain_vars vs /\
                                       path <> [] /\ plook (PK k) (pr_topo p) = Some (TPath (dn path))) ports.

(* "process p declares variable v with declaration d at the absolute address a" *)
Definition declares (p : proc) (a : list key) (d : vdecl) : Prop :=
  exists ports k vs path v, pr_schema p = SNode false ports /\ In (PK k, SNode false vs) ports /\
    plook (PK k) (pr_topo p) = Some (TPath (dn path)) /\ In (PK v, SVar d) vs /\
    a = pr_parent p ++ path ++ [v].

(* no declared variable sits above another declared variable (the code would silently turn the upper one, still
   unset, into a branch) *)
Definition prefix_free (ps : list proc) : Prop :=
  forall p1 a1 d1 p2 a2 d2 k r, In p1 ps -> In p2 ps -> declares p1 a1 d1 -> declares p2 a2 d2 -> a2 <> a1 ++ k :: r.

(* ================= lists of keys ================= *)

Lemma dn_inj p : forall q, dn p = dn q -> p = q.
Proof.
  induction p as [|x p IH]; intros [|y q] H; cbn in H; try discriminate; auto.
  injection H as -> H. f_equal. auto.
Qed.

Lemma list_tri (b : list key) : forall q,
  (exists r, q = b ++ r) \/ (exists k r, b = q ++ k :: r) \/ diverge b q.
Proof.
  induction b as [|x b IH]; intros q.
  - left. exists q. reflexivity.
  - destruct q as [|y q].
    + right; left. exists x, b. reflexivity.
    + destruct (N.eq_dec x y) as [->|Hne].
      * destruct (IH q) as [[r ->]|[[k [r ->]]|(c & x1 & y1 & p' & q' & -> & -> & Hxy)]].
        -- left. exists r. reflexivity.
        -- right; left. exists k, r. reflexivity.
        -- right; right. exists (y :: c), x1, y1, p', q'. auto.
      * right; right. exists [], x, y, b, q. auto.
Qed.

Lemma prefix_dec (b : list key) : forall q, (exists r, q = b ++ r) \/ (forall r, q <> b ++ r).
Proof.
  induction b as [|x b IH]; intros q.
  - left. exists q. reflexivity.
  - destruct q as [|y q].
    + right. intros r. discriminate.
    + destruct (N.eq_dec x y) as [->|Hne].
      * destruct (IH q) as [[r ->]|Hq].
        -- left. exists r. reflexivity.
        -- right. intros r [= H]. exact (Hq r H).
      * right. intros r [= H _]. congruence.
Qed.

(* ================= leaves ================= *)

Lemma leaf_at_get (t : store) q :
  leaf_at t q = match get_in t q with Ok (Some (Lf l)) => Some l | _ => None end.
Proof. unfold leaf_at, sub_at, node_at. destruct (get_in t q) as [[[l|c]|]|e]; reflexivity. Qed.

Lemma leaf_at_app (t : store) b s r : node_at t b = Some s -> leaf_at t (b ++ r) = leaf_at s r.
Proof. intros H. apply node_at_Some in H. rewrite !leaf_at_get, get_in_app, H. reflexivity. Qed.

Lemma leaf_at_prefix_None (t : store) q k r : node_at t (q ++ k :: r) <> None -> leaf_at t q = None.
Proof.
  unfold node_at. rewrite leaf_at_get, get_in_app.
  destruct (get_in t q) as [[[l|c]|]|e]; auto. cbn. congruence.
Qed.

Lemma leaf_at_Nd_nil r : leaf_at (Nd [] : store) r = None.
Proof. destruct r; [reflexivity|]. rewrite leaf_at_Nd_cons. reflexivity. Qed.

Lemma leaf_at_adefault h (c : list (key * store)) r :
  leaf_at (adefault h c) r = match alookup h c with Some s => leaf_at s r | None => None end.
Proof. unfold adefault. destruct (alookup h c); auto. apply leaf_at_Nd_nil. Qed.

Lemma leaf_at_children (s : store) k r : leaf_at (Nd (children s)) (k :: r) = leaf_at s (k :: r).
Proof. destruct s as [l|cc]; [|reflexivity]. cbn [children]. rewrite leaf_at_Nd_nil. reflexivity. Qed.

(* ================= establish along a downward path ================= *)

(* inserting an empty dict at a missing path neither creates nor removes a leaf *)
Lemma assoc_missing_leaves (p : list key) : forall (t t1 : store) q,
  p <> [] -> assoc_path t p (Nd []) = Ok t1 -> get_in t p = Ok None -> leaf_at t1 q = leaf_at t q.
Proof.
  induction p as [|h r IH]; intros t t1 q Hne Ha Hm; [congruence|].
  destruct t as [a|c]; [rewrite assoc_path_Lf in Ha by exact Hne; discriminate|].
  destruct r as [|h2 r].
  - rewrite assoc_path_single in Ha. injection Ha as <-.
    cbn in Hm. destruct (alookup h c) as [sh|] eqn:Eh; [discriminate|].
    destruct q as [|k q']; [reflexivity|]. rewrite !leaf_at_Nd_cons.
    destruct (N.eq_dec h k) as [->|Hhk].
    + rewrite alookup_aset_eq, Eh. apply leaf_at_Nd_nil.
    + rewrite alookup_aset_neq by exact Hhk. reflexivity.
  - rewrite assoc_path_cons in Ha by discriminate.
    destruct (assoc_path (adefault h c) (h2 :: r) (Nd [])) as [s'|e] eqn:E; [|discriminate].
    injection Ha as <-.
    rewrite get_in_adefault in Hm by discriminate.
    destruct q as [|k q']; [reflexivity|]. rewrite !leaf_at_Nd_cons.
    destruct (N.eq_dec h k) as [->|Hhk].
    + rewrite alookup_aset_eq. rewrite (IH _ _ q' ltac:(discriminate) E Hm). apply leaf_at_adefault.
    + rewrite alookup_aset_neq by exact Hhk. reflexivity.
Qed.

Lemma establish_dn (p : list key) : forall (t t1 : store) a b,
  establish t a (dn p) = Ok (t1, b) -> b = a ++ p /\ forall q, leaf_at t1 q = leaf_at t q.
Proof.
  induction p as [|k p IH]; intros t t1 a b He; cbn in He.
  - injection He as <- <-. rewrite app_nil_r. auto.
  - destruct (node_at t (a ++ [k])) as [s|] eqn:E.
    + apply IH in He as [-> Hq]. rewrite <- app_assoc. auto.
    + destruct (assoc_path t (a ++ [k]) (Nd [])) as [t2|e] eqn:Ea; [|discriminate].
      apply IH in He as [-> Hq]. rewrite <- app_assoc. split; auto.
      intros q. rewrite Hq. eapply assoc_missing_leaves; eauto using snoc_not_nil, establish_step_missing.
Qed.

Lemma establish_dn_node (p : list key) (t t1 : store) a b :
  p <> [] -> establish t a (dn p) = Ok (t1, b) -> node_at t1 b <> None.
Proof.
  destruct p as [|k p]; [congruence|]. intros _ He. cbn in He.
  destruct (node_at t (a ++ [k])) as [s|] eqn:E.
  - eapply establish_reaches in He as [H _]; auto. rewrite E; discriminate.
  - destruct (assoc_path t (a ++ [k]) (Nd [])) as [t2|e] eqn:Ea; [|discriminate].
    eapply establish_reaches in He as [H _]; auto.
    unfold node_at. rewrite (get_assoc _ _ _ _ (snoc_not_nil a k) Ea). discriminate.
Qed.

(* ================= set_at at an existing node ================= *)

Lemma set_at_leaves (t1 t' s s' : store) b : b <> [] -> set_at t1 b s' = Ok t' -> node_at t1 b = Some s ->
  (forall r, leaf_at t' (b ++ r) = leaf_at s' r) /\
  (forall q, (forall r, q <> b ++ r) -> leaf_at t' q = leaf_at t1 q).
Proof.
  intros Hb Hs Hn.
  assert (Ha : assoc_path t1 b s' = Ok t') by (destruct b; [congruence|exact Hs]).
  pose proof (get_assoc _ _ _ _ Hb Ha) as Hg.
  split.
  - intros r. apply leaf_at_app. apply node_at_Some. exact Hg.
  - intros q Hq. destruct (list_tri b q) as [[r ->]|[[k [r Hr]]|Hd]].
    + exfalso. eapply Hq; eauto.
    + subst b. rewrite (leaf_at_prefix_None t' q k r), (leaf_at_prefix_None t1 q k r); auto.
      * rewrite Hn; discriminate.
      * unfold node_at. rewrite Hg. discriminate.
    + rewrite !leaf_at_get. rewrite (assoc_frame _ _ _ _ _ Ha Hd). reflexivity.
Qed.

(* ================= port keys ================= *)

Lemma pkey_eqb_eq a b : pkey_eqb a b = true <-> a = b.
Proof. destruct a, b; cbn; try (split; congruence). rewrite N.eqb_eq. split; congruence. Qed.

Lemma pkey_eqb_refl a : pkey_eqb a a = true.
Proof. now apply pkey_eqb_eq. Qed.

Lemma plook_In {X} pk (c : list (pkey * X)) x : plook pk c = Some x -> In (pk, x) c.
Proof.
  induction c as [|[pk' x'] r IH]; cbn; [discriminate|]. destruct (pkey_eqb pk' pk) eqn:E.
  - apply pkey_eqb_eq in E. subst. intros [= ->]. now left.
  - intros H. right; auto.
Qed.

Lemma plook_None_notin {X} pk (c : list (pkey * X)) : plook pk c = None <-> ~ In pk (map fst c).
Proof.
  induction c as [|[pk' x'] r IH]; cbn; [tauto|]. destruct (pkey_eqb pk' pk) eqn:E.
  - apply pkey_eqb_eq in E. subst. split; [discriminate|]. intros H; exfalso; apply H; now left.
  - rewrite IH. split; intros H; [|tauto]. intros [->|Hin]; auto.
    rewrite pkey_eqb_refl in E. discriminate.
Qed.

Lemma In_plook {X} pk (c : list (pkey * X)) x : NoDup (map fst c) -> In (pk, x) c -> plook pk c = Some x.
Proof.
  induction c as [|[pk' x'] r IH]; cbn; [tauto|]. intros Hnd. inversion Hnd as [|? ? Hnin Hnd']; subst.
  intros [[= -> ->]|Hin].
  - now rewrite pkey_eqb_refl.
  - destruct (pkey_eqb pk' pk) eqn:E; auto. apply pkey_eqb_eq in E. subst. exfalso. apply Hnin.
    change pk with (fst (pk, x)). now apply in_map.
Qed.

Lemma plain_vars_keys_ok vs : plain_vars vs -> keys_ok vs = true.
Proof.
  intros [Hnd Hall]. induction vs as [|[pk s] r IH]; [reflexivity|].
  cbn in Hnd. inversion Hnd as [|? ? Hnin Hnd']; subst. inversion Hall as [|? ? H0 Hall']; subst.
  destruct H0 as (k & d & [= -> ->] & _). cbn [keys_ok]. rewrite IH by auto. rewrite andb_true_r.
  apply negb_true_iff. apply existsb_plook. apply plook_None_notin. exact Hnin.
Qed.

Lemma plain_vars_plook vs k sub : plain_vars vs -> plook (PK k) vs = Some sub ->
  exists d, sub = SVar d /\ In (PK k, SVar d) vs /\ dv d = None.
Proof.
  intros [_ Hall] Hp. apply plook_In in Hp. rewrite Forall_forall in Hall.
  destruct (Hall _ Hp) as (k' & d & [= -> ->] & Hd). eauto.
Qed.

Lemma plain_vars_In vs v d : plain_vars vs -> In (PK v, SVar d) vs ->
  plook (PK v) vs = Some (SVar d) /\ dv d = None.
Proof.
  intros [Hnd Hall] Hin. split; [now apply In_plook|].
  rewrite Forall_forall in Hall. destruct (Hall _ Hin) as (k' & d' & [= -> ->] & Hd). exact Hd.
Qed.

(* ================= applying a port of variables to the node it is wired to ================= *)

Definition fresh (d : vdecl) : lf := {| l_val := dv d; l_def := dd d; l_units := du d; l_ser := ds d |}.

Lemma apply_config_var_leaf cur d x : apply_config cur (SVar d) = Ok x ->
  exists l', x = Lf l' /\
    match cur with
    | Some (Lf l) => merge_leaf l d = Ok l'
    | Some (Nd (_ :: _)) => False
    | _ => l' = fresh d
    end.
Proof.
  intros H. destruct cur as [[l|[|c0 cc]]|]; cbn [apply_config] in H.
  - destruct (merge_leaf l d) as [l'|e]; [|discriminate]. cbn in H. injection H as <-. eauto.
  - rewrite merge_leaf_empty in H. cbn in H. injection H as <-. eauto.
  - discriminate.
  - rewrite merge_leaf_empty in H. cbn in H. injection H as <-. eauto.
Qed.

Lemma acgo_vars vs cc s' : plain_vars vs -> acgo vs cc = Ok s' ->
  (forall v d, In (PK v, SVar d) vs -> exists l', leaf_at s' [v] = Some l' /\
       match leaf_at (Nd cc) [v] with Some l => merge_leaf l d = Ok l' | None => l' = fresh d end) /\
  (forall q, (forall v d, In (PK v, SVar d) vs -> q <> [v]) -> leaf_at s' q = leaf_at (Nd cc) q).
Proof.
  intros Hpv Ha. destruct (acgo_spec _ _ _ (plain_vars_keys_ok _ Hpv) Ha) as [cc' [-> Hcc']]. split.
  - intros v d Hin. destruct (plain_vars_In _ _ _ Hpv Hin) as [Hp _]. specialize (Hcc' v). rewrite Hp in Hcc'.
    destruct Hcc' as [x [Hx Hl]]. apply apply_config_var_leaf in Hx as [l' [-> Hm]].
    exists l'. rewrite !leaf_at_Nd_cons, Hl. split; [reflexivity|].
    destruct (alookup v cc) as [[l|[|c0 c1]]|]; cbn; auto. contradiction.
  - intros q Hq. destruct q as [|k r]; [reflexivity|]. rewrite !leaf_at_Nd_cons. specialize (Hcc' k).
    destruct (plook (PK k) vs) as [sub|] eqn:Ep.
    + destruct (plain_vars_plook _ _ _ Hpv Ep) as (d & -> & Hin & _).
      destruct Hcc' as [x [Hx ->]]. apply apply_config_var_leaf in Hx as [l' [-> Hm]].
      destruct r as [|k2 r2]; [exfalso; eapply Hq; eauto|].
      rewrite leaf_at_Lf_cons. destruct (alookup k cc) as [[l|[|c0 c1]]|]; auto;
        try contradiction; try (rewrite leaf_at_Nd_nil; reflexivity).
    + rewrite Hcc'. reflexivity.
Qed.

Lemma apply_config_vars_cases (s : store) o vs s' : apply_config (Some s) (SNode o vs) = Ok s' ->
  (vs = [] /\ s' = s) \/ (vs <> [] /\ acgo vs (children s) = Ok s').
Proof.
  destruct s as [l|cc].
  - destruct vs as [|x c].
    + rewrite apply_config_node_Lf_nil. intros [= <-]. auto.
    + rewrite apply_config_node_Lf_cons. destruct (l_val l); [discriminate|]. intros H.
      right. split; [discriminate|exact H].
  - rewrite apply_config_node_Nd. destruct vs as [|x c]; intros H.
    + cbn in H. injection H as <-. auto.
    + right. split; [discriminate|exact H].
Qed.

(* one named port wired by a downward path: which leaves the step creates, merges and keeps *)
Lemma port_step_spec t pa path vs t' b : path <> [] -> plain_vars vs ->
  establish_cfg t pa (dn path) (SNode false vs) = Ok (t', b) ->
  b = pa ++ path /\
  (forall v d, In (PK v, SVar d) vs -> exists l', leaf_at t' (b ++ [v]) = Some l' /\
       match leaf_at t (b ++ [v]) with Some l => merge_leaf l d = Ok l' | None => l' = fresh d end) /\
  (forall q, (forall v d, In (PK v, SVar d) vs -> q <> b ++ [v]) ->
       leaf_at t' q = leaf_at t q \/ (vs <> [] /\ q = b /\ leaf_at t q <> None)).
Proof.
  intros Hpath Hpv H. unfold establish_cfg in H.
  destruct (establish t pa (dn path)) as [[t1 b1]|e] eqn:He; [|discriminate]. cbn [rbind] in H.
  destruct (apply_config (sub_at t1 b1) (SNode false vs)) as [s'|e] eqn:Hc; [|discriminate]. cbn [rbind] in H.
  destruct (set_at t1 b1 s') as [t2|e] eqn:Hs; [|discriminate]. cbn [rbind] in H. injection H as <- <-.
  pose proof (establish_dn_node _ _ _ _ _ Hpath He) as Hn.
  apply establish_dn in He as [Hb HE].
  assert (Hbne : b1 <> []).
  { subst b1. destruct pa; cbn; [exact Hpath|discriminate]. }
  unfold sub_at in Hc. destruct (node_at t1 b1) as [s|] eqn:En; [|congruence].
  destruct (set_at_leaves _ _ _ _ _ Hbne Hs En) as [X1 X2].
  assert (Hts : forall r, leaf_at t (b1 ++ r) = leaf_at s r).
  { intros r. rewrite <- HE. apply leaf_at_app. exact En. }
  split; [exact Hb|].
  destruct (apply_config_vars_cases _ _ _ _ Hc) as [[-> ->]|[Hne Ha]].
  - split; [intros v d []|]. intros q _. left. destruct (prefix_dec b1 q) as [[r ->]|Hq].
    + now rewrite X1, Hts.
    + now rewrite X2, HE.
  - destruct (acgo_vars _ _ _ Hpv Ha) as [A1 A2]. split.
    + intros v d Hin. destruct (A1 v d Hin) as [l' [Hl' Hm]]. exists l'. rewrite X1. split; auto.
      rewrite Hts. rewrite leaf_at_children in Hm. exact Hm.
    + intros q Hq. destruct (prefix_dec b1 q) as [[r ->]|Hq'].
      * rewrite X1, A2 by (intros v d Hin ->; eapply Hq; eauto).
        destruct r as [|k r].
        -- rewrite Hts. destruct s as [l|cc].
           ++ right. split; [exact Hne|]. split; [apply app_nil_r|]. rewrite leaf_at_nil. discriminate.
           ++ left. reflexivity.
        -- left. rewrite leaf_at_children, Hts. reflexivity.
      * left. now rewrite X2, HE.
Qed.

(* ================= the invariant of the build ================= *)

(* D: the declarations (address, declaration) processed so far *)
Definition dset := list key -> vdecl -> Prop.

Definition pfree (D : dset) : Prop :=
  forall a1 d1 a2 d2 k r, D a1 d1 -> D a2 d2 -> a2 <> a1 ++ k :: r.

Definition por (D1 D2 : dset) : dset := fun a d => D1 a d \/ D2 a d.

Definition Inv (t : store) (D : dset) : Prop :=
  (forall a d, D a d -> exists l, leaf_at t a = Some l /\ l_val l = None /\
      (forall x, l_def l = Some x -> exists d', D a d' /\ dd d' = Some x) /\
      (forall x, (forall d', D a d' -> dd d' = Some x) -> l_def l = Some x)) /\
  (forall a l, leaf_at t a = Some l -> exists d, D a d).

Lemma pfree_mono (D D' : dset) : pfree D' -> (forall a d, D a d -> D' a d) -> pfree D.
Proof. intros H Hs a1 d1 a2 d2 k r H1 H2. eapply H; eauto. Qed.

Lemma Inv_ext t (D D' : dset) : Inv t D -> (forall a d, D a d <-> D' a d) -> Inv t D'.
Proof.
  intros [I1 I2] He. split.
  - intros a d Hd. apply He in Hd. destruct (I1 _ _ Hd) as (l & Hl & Hv & C1 & C2).
    exists l. split; auto. split; auto. split.
    + intros x Hx. destruct (C1 x Hx) as (d' & Hd' & Hdd). exists d'. split; auto. now apply He.
    + intros x Hx. apply C2. intros d' Hd'. apply Hx. now apply He.
  - intros a l Hl. destruct (I2 _ _ Hl) as [d Hd]. exists d. now apply He.
Qed.

Lemma Inv_leaves t t0 (D : dset) : (forall q, leaf_at t0 q = leaf_at t q) -> Inv t D -> Inv t0 D.
Proof.
  intros HE [I1 I2]. split.
  - intros a d Hd. rewrite HE. eauto.
  - intros a l Hl. rewrite HE in Hl. eauto.
Qed.

(* the declarations of one port wired to the node b *)
Definition newd (b : list key) (vs : list (pkey * schema)) : dset :=
  fun a d => exists v, In (PK v, SVar d) vs /\ a = b ++ [v].

Lemma newd_dec b vs a :
  (exists v d, In (PK v, SVar d) vs /\ a = b ++ [v]) \/ (forall v d, In (PK v, SVar d) vs -> a <> b ++ [v]).
Proof.
  induction vs as [|[pk s] r IH].
  - right. intros v d [].
  - destruct IH as [(v & d & Hin & ->)|Hn].
    + left. exists v, d. split; [now right|reflexivity].
    + destruct pk as [k|], s as [d0| |o c];
        try (right; intros v d [Hin|Hin]; [discriminate|eauto]).
      destruct (list_eq_dec N.eq_dec a (b ++ [k])) as [->|Hne].
      * left. exists k, d0. split; [now left|reflexivity].
      * right. intros v d [[= <- <-]|Hin]; eauto.
Qed.

Lemma nodup_fst_inj {X Y} (l : list (X * Y)) k x y : NoDup (map fst l) -> In (k, x) l -> In (k, y) l -> x = y.
Proof.
  induction l as [|[k0 z] r IH]; cbn; [tauto|]. intros Hnd. inversion Hnd as [|? ? Hnin Hnd']; subst.
  intros [[= -> ->]|H1] [[= ->]|H2]; auto.
  - exfalso. apply Hnin. change k with (fst (k, y)). now apply in_map.
  - subst. exfalso. apply Hnin. change k with (fst (k, x)). now apply in_map.
Qed.

Lemma snoc_inj (b : list key) v v' : b ++ [v] = b ++ [v'] -> v = v'.
Proof. intros H. apply app_inv_head in H. now injection H. Qed.

(* a port step keeps the invariant *)
Lemma port_inv t (D : dset) pa path vs t' b : Inv t D -> path <> [] -> plain_vars vs ->
  establish_cfg t pa (dn path) (SNode false vs) = Ok (t', b) ->
  pfree (por D (newd (pa ++ path) vs)) ->
  Inv t' (por D (newd (pa ++ path) vs)).
Proof.
  intros [I1 I2] Hpath Hpv He Hpf.
  destruct (port_step_spec _ _ _ _ _ _ Hpath Hpv He) as (-> & S2 & S3).
  set (b := pa ++ path) in *. set (D' := por D (newd b vs)) in *.
  (* the special case of S3 contradicts prefix-freeness when b itself is declared *)
  assert (Hsp : forall d, D' b d -> vs <> [] -> False).
  { intros d Hd Hne. destruct vs as [|kv r]; [congruence|].
    destruct Hpv as [_ Hall]. inversion Hall as [|? ? H0 _]; subst.
    destruct H0 as (v & d0 & -> & _).
    apply (Hpf b d (b ++ [v]) d0 v []); auto.
    right. exists v. split; [now left|reflexivity]. }
  split.
  - intros a d Hd. destruct (newd_dec b vs a) as [(v & d0 & Hin & ->)|Hn].
    + (* a declared by this port *)
      assert (Hu : forall d', newd b vs (b ++ [v]) d' -> d' = d0).
      { intros d' (v' & Hin' & Hv'). apply snoc_inj in Hv'. subst v'.
        destruct Hpv as [Hnd _]. eapply nodup_fst_inj in Hnd; [|exact Hin|exact Hin']. congruence. }
      destruct (plain_vars_In _ _ _ Hpv Hin) as [_ Hdv].
      destruct (S2 v d0 Hin) as (l' & Hl' & Hm).
      exists l'. split; auto.
      destruct (leaf_at t (b ++ [v])) as [l|] eqn:El.
      * destruct (I2 _ _ El) as [d1 Hd1]. destruct (I1 _ _ Hd1) as (l0 & Hl0 & Hv0 & C1 & C2).
        rewrite El in Hl0. injection Hl0 as <-.
        destruct (merge_leaf_ok _ _ _ Hm) as (Hdef & Hval & _). rewrite Hdv, Hv0 in Hval.
        split; auto. split.
        -- intros x Hx. rewrite Hdef in Hx. destruct (dd d0) as [x0|] eqn:Ed0.
           ++ exists d0. split; [right; exists v; auto|congruence].
           ++ destruct (C1 x Hx) as (d' & Hd' & Hdd). exists d'. split; [now left|exact Hdd].
        -- intros x Hx. rewrite Hdef. rewrite (Hx d0); [reflexivity|]. right. exists v. auto.
      * subst l'. cbn. split; auto. split.
        -- intros x Hx. exists d0. split; [right; exists v; auto|exact Hx].
        -- intros x Hx. apply Hx. right. exists v. auto.
    + (* a not declared by this port *)
      assert (HD : D a d).
      { destruct Hd as [Hd|(v & Hin & ->)]; auto. exfalso. eapply Hn; eauto. }
      destruct (I1 _ _ HD) as (l & Hl & Hv & C1 & C2).
      destruct (S3 a Hn) as [Heq|(Hne & -> & _)].
      * exists l. rewrite Heq. split; auto. split; auto. split.
        -- intros x Hx. destruct (C1 x Hx) as (d' & Hd' & Hdd). exists d'. split; [now left|exact Hdd].
        -- intros x Hx. apply C2. intros d' Hd'. apply Hx. now left.
      * exfalso. apply (Hsp d); auto.
  - intros a l Hl. destruct (newd_dec b vs a) as [(v & d0 & Hin & ->)|Hn].
    + exists d0. right. exists v. auto.
    + destruct (S3 a Hn) as [Heq|(Hne & -> & Hx)].
      * rewrite Heq in Hl. destruct (I2 _ _ Hl) as [d Hd]. exists d. now left.
      * destruct (leaf_at t b) as [l0|] eqn:El; [|congruence].
        destruct (I2 _ _ El) as [d Hd]. exists d. now left.
Qed.

(* ================= the loop of ports_build over the ports of a plain process ================= *)

Definition pbstep (t : store) (a : list key) (tp : list (pkey * topo)) (pk : pkey) (sub : schema) : res store :=
  match pk, plook pk tp with
  | PStar, Some (TDict p' c') =>
      rbind (establish t a (match p' with Some q => q | None => [] end)) (fun tb => Ok (fst tb))
  | PStar, Some (TPath p) => rbind (establish t a p) (fun tb => Ok (fst tb))
  | PStar, None => rbind (establish t a [Dn 0%N]) (fun tb => Ok (fst tb))
  | PK k, Some (TDict p' c') =>
      rbind (establish t a (match p' with Some q => q | None => [] end)) (fun tb =>
        ports_build (fst tb) (snd tb) sub c')
  | PK k, Some (TPath p) => rbind (establish_cfg t a p sub) (fun tb => Ok (fst tb))
  | PK k, None => rbind (establish_cfg t a [Dn k] sub) (fun tb => Ok (fst tb))
  end.

Definition pbgo (a : list key) (tp : list (pkey * topo)) :=
  fix go (c : list (pkey * schema)) (t : store) : res store :=
    match c with
    | [] => Ok t
    | (pk, sub) :: r => match pbstep t a tp pk sub with Ok t' => go r t' | Err e => Err e end
    end.

Lemma ports_build_node t a o c tp : ports_build t a (SNode o c) tp = pbgo a tp c t.
Proof. reflexivity. Qed.

Lemma pbgo_cons_path a tp k sub r t p : plook (PK k) tp = Some (TPath p) ->
  pbgo a tp ((PK k, sub) :: r) t =
  match establish_cfg t a p sub with Ok tb => pbgo a tp r (fst tb) | Err e => Err e end.
Proof.
  intros H.
  change (pbgo a tp ((PK k, sub) :: r) t)
    with (match pbstep t a tp (PK k) sub with Ok t' => pbgo a tp r t' | Err e => Err e end).
  unfold pbstep. rewrite H. destruct (establish_cfg t a p sub) as [[t1 b]|e]; reflexivity.
Qed.

Definition port_ok (tp : list (pkey * topo)) (kv : pkey * schema) : Prop :=
  exists k vs path, kv = (PK k, SNode false vs) /\ plain_vars vs /\
                    path <> [] /\ plook (PK k) tp = Some (TPath (dn path)).

(* the declarations of a list of ports of a process at pa with topology tp *)
Definition pdecl (pa : list key) (tp : list (pkey * topo)) (c : list (pkey * schema)) : dset :=
  fun a d => exists k vs path v, In (PK k, SNode false vs) c /\ plook (PK k) tp = Some (TPath (dn path)) /\
                                 In (PK v, SVar d) vs /\ a = pa ++ path ++ [v].

Lemma pdecl_cons pa tp k vs path r a d : plook (PK k) tp = Some (TPath (dn path)) ->
  (pdecl pa tp ((PK k, SNode false vs) :: r) a d <-> newd (pa ++ path) vs a d \/ pdecl pa tp r a d).
Proof.
  intros Hpl. split.
  - intros (k' & vs' & path' & v & [Heq|Hin] & Hpl' & Hv & ->).
    + injection Heq as <- <-. rewrite Hpl in Hpl'. injection Hpl' as Hpp. apply dn_inj in Hpp. subst path'.
      left. exists v. split; auto. now rewrite app_assoc.
    + right. exists k', vs', path', v. auto.
  - intros [(v & Hv & ->)|(k' & vs' & path' & v & Hin & Hpl' & Hv & ->)].
    + exists k, vs, path, v. split; [now left|]. split; auto. split; auto. now rewrite app_assoc.
    + exists k', vs', path', v. split; [now right|]. auto.
Qed.

Lemma ports_fold pa tp c : forall t (D : dset) t', Inv t D -> Forall (port_ok tp) c ->
  pfree (por D (pdecl pa tp c)) -> pbgo pa tp c t = Ok t' -> Inv t' (por D (pdecl pa tp c)).
Proof.
  induction c as [|kv r IH]; intros t D t' HI Hall Hpf H.
  - cbn in H. injection H as <-. eapply Inv_ext; [exact HI|].
    intros a d. unfold por, pdecl. split; [auto|]. intros [Hd|(k & vs & path & v & [] & _)]. exact Hd.
  - inversion Hall as [|? ? H0 Hall']; subst.
    destruct H0 as (k & vs & path & -> & Hpv & Hpath & Hpl).
    rewrite (pbgo_cons_path _ _ _ _ _ _ _ Hpl) in H.
    destruct (establish_cfg t pa (dn path) (SNode false vs)) as [[t1 b]|e] eqn:He; [|discriminate].
    cbn [fst] in H.
    assert (HI1 : Inv t1 (por D (newd (pa ++ path) vs))).
    { eapply port_inv; eauto. eapply pfree_mono; [exact Hpf|].
      intros a d [Hd|Hd]; [now left|right]. apply (pdecl_cons _ _ _ _ _ _ _ _ Hpl). now left. }
    eapply Inv_ext.
    + eapply IH; [exact HI1|exact Hall'| |exact H].
      eapply pfree_mono; [exact Hpf|].
      intros a d [[Hd|Hd]|Hd]; [now left|right|right]; apply (pdecl_cons _ _ _ _ _ _ _ _ Hpl); auto.
    + intros a d. unfold por. rewrite (pdecl_cons _ _ _ _ _ r a d Hpl). tauto.
Qed.

(* ================= a plain process declares no glob ================= *)

Definition gdhere (t : store) (a : list key) (tp : list (pkey * topo)) (pk : pkey) (sub : schema)
  : res (list (list key * (schema * list (pkey * topo)))) :=
  match pk, plook pk tp with
  | PStar, Some (TDict p' c') =>
      rbind (walk t a (match p' with Some q => q | None => [] end)) (fun b => Ok [(b, (sub, c'))])
  | PStar, Some (TPath p) => rbind (walk t a p) (fun b => Ok [(b, (sub, []))])
  | PStar, None => Ok [(a, (sub, []))]
  | PK k, Some (TDict p' c') =>
      rbind (walk t a (match p' with Some q => q | None => [] end)) (fun b => glob_decls t b sub c')
  | PK k, Some (TPath p) => rbind (walk t a p) (fun b => glob_decls t b sub [])
  | PK k, None => rbind (walk t a [Dn k]) (fun b => glob_decls t b sub [])
  end.

Definition gdgo (t : store) (a : list key) (tp : list (pkey * topo)) :=
  fix go (c : list (pkey * schema)) : res (list (list key * (schema * list (pkey * topo)))) :=
    match c with
    | [] => Ok []
    | (pk, sub) :: r => rbind (gdhere t a tp pk sub) (fun l1 => rbind (go r) (fun l2 => Ok (l1 ++ l2)))
    end.

Lemma glob_decls_node t a o c tp : glob_decls t a (SNode o c) tp = gdgo t a tp c.
Proof. reflexivity. Qed.

Lemma gdgo_cons t a tp pk sub r :
  gdgo t a tp ((pk, sub) :: r) =
  rbind (gdhere t a tp pk sub) (fun l1 => rbind (gdgo t a tp r) (fun l2 => Ok (l1 ++ l2))).
Proof. reflexivity. Qed.

Lemma gdgo_vars t b vs : forall l,
  Forall (fun kv : pkey * schema => exists k d, kv = (PK k, SVar d) /\ dv d = None) vs ->
  gdgo t b [] vs = Ok l -> l = [].
Proof.
  induction vs as [|kv r IH]; intros l Hall H.
  - cbn in H. now injection H as <-.
  - inversion Hall as [|? ? H0 Hall']; subst. destruct H0 as (k & d & -> & _).
    rewrite gdgo_cons in H. unfold gdhere in H. cbn [plook] in H.
    destruct (walk t b [Dn k]) as [b'|e]; [|discriminate]. cbn [rbind glob_decls] in H.
    destruct (gdgo t b [] r) as [l2|e] eqn:E; [|discriminate]. cbn [rbind app] in H.
    injection H as <-. now apply IH.
Qed.

Lemma gdgo_ports t a tp c : forall l, Forall (port_ok tp) c -> gdgo t a tp c = Ok l -> l = [].
Proof.
  induction c as [|kv r IH]; intros l Hall H.
  - cbn in H. now injection H as <-.
  - inversion Hall as [|? ? H0 Hall']; subst. destruct H0 as (k & vs & path & -> & [_ Hpv] & _ & Hpl).
    rewrite gdgo_cons in H. unfold gdhere in H. rewrite Hpl in H.
    destruct (walk t a (dn path)) as [b'|e]; [|discriminate]. cbn [rbind] in H.
    rewrite glob_decls_node in H.
    destruct (gdgo t b' [] vs) as [l1|e] eqn:E1; [|discriminate]. cbn [rbind] in H.
    apply gdgo_vars in E1; auto. subst l1.
    destruct (gdgo t a tp r) as [l2|e] eqn:E; [|discriminate]. cbn [rbind app] in H.
    injection H as <-. now apply IH.
Qed.

(* ================= the loop of generate over the processes ================= *)

Definition gstep (acc : res (store * globs)) (p : proc) : res (store * globs) :=
  rbind acc (fun tg =>
    let '(t, g) := tg in
    rbind (establish t [] (dn (pr_parent p))) (fun tb =>
    rbind (ports_build (fst tb) (pr_parent p) (pr_schema p) (pr_topo p)) (fun t' =>
    rbind (glob_decls t' (pr_parent p) (pr_schema p) (pr_topo p)) (fun gd =>
      let g' := fold_left (fun gg d => gset gg (fst d) (fst (snd d)) (snd (snd d))) gd g in
      rbind (fold_left (fun acc' d => rbind acc' (fun t'' =>
                          match glook g' (fst d) with
                          | Some x => apply_subschema t'' (fst d, x)
                          | None => Ok t''
                          end)) gd (Ok t')) (fun t'' => Ok (t'', g')))))).

Lemma generate_unfold ps init :
  generate ps init =
  rbind (fold_left gstep ps (Ok (Nd [], [])))
        (fun tg =>
           let '(t, g) := tg in
           rbind (fold_left (fun acc gl => rbind acc (fun t' => apply_subschema t' gl)) g (Ok t)) (fun t1 =>
           rbind (set_value (S (tsize init)) g [] (Some t1) init) (fun r =>
             match r with
             | Some t2 => Ok (apply_defaults t2, g)
             | None => Err EOther
             end))).
Proof. reflexivity. Qed.

Lemma gfold_err ps e : fold_left gstep ps (Err e) = Err e.
Proof. induction ps as [|p r IH]; cbn; auto. Qed.

Lemma gstep_plain t p t' g' : plain_proc p -> gstep (Ok (t, [])) p = Ok (t', g') ->
  g' = [] /\ exists ports t0, pr_schema p = SNode false ports /\ Forall (port_ok (pr_topo p)) ports /\
    (forall q, leaf_at t0 q = leaf_at t q) /\ pbgo (pr_parent p) (pr_topo p) ports t0 = Ok t'.
Proof.
  intros (ports & Hsch & _ & Hall) H. unfold gstep in H. cbn [rbind] in H.
  destruct (establish t [] (dn (pr_parent p))) as [[t0 b0]|e] eqn:He; [|discriminate]. cbn [rbind fst snd] in H.
  rewrite Hsch, ports_build_node in H.
  destruct (pbgo (pr_parent p) (pr_topo p) ports t0) as [t1|e] eqn:Hp; [|discriminate]. cbn [rbind] in H.
  rewrite glob_decls_node in H.
  destruct (gdgo t1 (pr_parent p) (pr_topo p) ports) as [gd|e] eqn:Hg; [|discriminate]. cbn [rbind] in H.
  apply gdgo_ports in Hg; [|exact Hall]. subst gd. cbn in H. injection H as <- <-.
  split; auto. exists ports, t0. split; auto. split; [exact Hall|]. split; auto.
  apply establish_dn in He as [_ HE]. exact HE.
Qed.

Definition decl_of (ps : list proc) : dset := fun a d => exists p, In p ps /\ declares p a d.

Lemma declares_pdecl p ports a d : pr_schema p = SNode false ports ->
  (declares p a d <-> pdecl (pr_parent p) (pr_topo p) ports a d).
Proof.
  intros Hsch. split.
  - intros (ports' & k & vs & path & v & Hs & Hin & Hpl & Hv & ->).
    rewrite Hsch in Hs. injection Hs as <-. exists k, vs, path, v. auto.
  - intros (k & vs & path & v & Hin & Hpl & Hv & ->). exists ports, k, vs, path, v. auto.
Qed.

Lemma procs_fold ps : forall t (D : dset) t' g', Inv t D -> Forall plain_proc ps ->
  pfree (por D (decl_of ps)) -> fold_left gstep ps (Ok (t, [])) = Ok (t', g') ->
  g' = [] /\ Inv t' (por D (decl_of ps)).
Proof.
  induction ps as [|p r IH]; intros t D t' g' HI Hall Hpf H.
  - cbn in H. injection H as <- <-. split; auto. eapply Inv_ext; [exact HI|].
    intros a d. unfold por, decl_of. split; [auto|]. intros [Hd|(p & [] & _)]. exact Hd.
  - inversion Hall as [|? ? Hp Hall']; subst. cbn [fold_left] in H.
    destruct (gstep (Ok (t, [])) p) as [[t1 g1]|e] eqn:Hg; [|rewrite gfold_err in H; discriminate].
    destruct (gstep_plain _ _ _ _ Hp Hg) as (-> & ports & t0 & Hsch & Hports & HE & Hpb).
    assert (Hdp : forall a d, declares p a d <-> pdecl (pr_parent p) (pr_topo p) ports a d)
      by (intros a d; now apply declares_pdecl).
    assert (HI1 : Inv t1 (por D (pdecl (pr_parent p) (pr_topo p) ports))).
    { eapply ports_fold; [eapply Inv_leaves; eauto|exact Hports| |exact Hpb].
      eapply pfree_mono; [exact Hpf|]. intros a d [Hd|Hd]; [now left|right].
      exists p. split; [now left|]. now apply Hdp. }
    assert (Hpf2 : pfree (por (por D (pdecl (pr_parent p) (pr_topo p) ports)) (decl_of r))).
    { eapply pfree_mono; [exact Hpf|]. intros a d [[Hd|Hd]|(p' & Hin & Hd)]; [now left|right|right].
      - exists p. split; [now left|]. now apply Hdp.
      - exists p'. split; [now right|exact Hd]. }
    destruct (IH _ _ _ _ HI1 Hall' Hpf2 H) as [-> HI2].
    split; auto. eapply Inv_ext; [exact HI2|].
    intros a d. unfold por, decl_of. split.
    + intros [[Hd|Hd]|(p' & Hin & Hd)]; auto.
      * right. exists p. split; [now left|]. now apply Hdp.
      * right. exists p'. split; [now right|exact Hd].
    + intros [Hd|(p' & [<-|Hin] & Hd)]; auto.
      * left. right. now apply Hdp.
      * right. exists p'. auto.
Qed.

(* ================= the last phase: set_value and apply_defaults keep the set of leaves ================= *)

(* two readings of one address agree on whether there is a variable, and on its default *)
Definition same_leaf (x y : option lf) : Prop :=
  match x, y with
  | Some l, Some l' => l_def l' = l_def l
  | None, None => True
  | _, _ => False
  end.

Lemma same_leaf_refl x : same_leaf x x.
Proof. destruct x; cbn; auto. Qed.

Lemma set_value_leaves fuel : forall g a cur v cur', (forall b, glook g b = None) -> wf v ->
  set_value fuel g a (Some cur) v = Ok (Some cur') ->
  forall q, same_leaf (leaf_at cur q) (leaf_at cur' q).
Proof.
  induction fuel as [|f IH]; intros g a cur v cur' Hg Hwf Hs q; [discriminate|].
  destruct cur as [l|cc].
  - destruct v as [z|vc]; [|discriminate]. rewrite set_value_leaf in Hs. injection Hs as <-.
    destruct q as [|k r]; cbn; auto.
  - destruct v as [z|vc].
    + cbn in Hs. destruct cc; [|discriminate]. rewrite Hg in Hs. injection Hs as <-. apply same_leaf_refl.
    + rewrite set_value_Nd_Nd, Hg in Hs. destruct cc as [|c0 cc0].
      { injection Hs as <-. apply same_leaf_refl. }
      destruct (fold_left (svstep f g a None) vc (Ok (c0 :: cc0))) as [cc'|e] eqn:Ef; [|discriminate].
      cbn [rbind] in Hs. injection Hs as <-.
      destruct q as [|k r]; [cbn; auto|].
      destruct (wf_Nd_inv _ Hwf) as [Hnd Hsub].
      pose proof (svfold_spec f g a vc _ cc' Hnd Ef k) as Hk.
      rewrite !leaf_at_Nd_cons.
      destruct (alookup k vc) as [sv|] eqn:Ev.
      * destruct (alookup k (c0 :: cc0)) as [sc|] eqn:Ec.
        -- destruct Hk as [s' [Hs' ->]]. exact (IH g (a ++ [k]) sc sv s' Hg (Hsub _ _ Ev) Hs' r).
        -- rewrite Hk. exact I.
      * rewrite Hk. apply same_leaf_refl.
Qed.

Lemma leaf_at_apply_defaults (t : store) a :
  leaf_at (apply_defaults t) a =
  match leaf_at t a with
  | Some l => Some {| l_val := match l_val l with Some v => Some v | None => l_def l end;
                      l_def := l_def l; l_units := l_units l; l_ser := l_ser l |}
  | None => None
  end.
Proof.
  rewrite !leaf_at_get, get_in_apply_defaults.
  destruct (get_in t a) as [[[l|c]|]|e]; reflexivity.
Qed.

(* ================= generate ================= *)

Lemma Inv_empty : Inv (Nd []) (fun _ _ => False).
Proof.
  split; [intros a d []|]. intros a l Hl. rewrite leaf_at_Nd_nil in Hl. discriminate.
Qed.

Lemma generate_inv ps init t g : Forall plain_proc ps -> prefix_free ps ->
  generate ps init = Ok (t, g) ->
  exists t0 t2, Inv t0 (decl_of ps) /\
    set_value (S (tsize init)) [] [] (Some t0) init = Ok (Some t2) /\ t = apply_defaults t2 /\ g = [].
Proof.
  intros Hall Hpf H. rewrite generate_unfold in H.
  destruct (fold_left gstep ps (Ok (Nd [], []))) as [[t0 g0]|e] eqn:Hf; [|discriminate].
  assert (Hpf0 : pfree (por (fun _ _ => False) (decl_of ps))).
  { intros a1 d1 a2 d2 k r [[]|(p1 & Hin1 & Hd1)] [[]|(p2 & Hin2 & Hd2)].
    exact (Hpf p1 a1 d1 p2 a2 d2 k r Hin1 Hin2 Hd1 Hd2). }
  destruct (procs_fold ps _ _ _ _ Inv_empty Hall Hpf0 Hf) as [-> HI].
  cbn [rbind fold_left] in H.
  destruct (set_value (S (tsize init)) [] [] (Some t0) init) as [r|e] eqn:Hs; [|discriminate].
  cbn [rbind] in H. destruct r as [t2|]; [|discriminate]. injection H as <- <-.
  exists t0, t2. split; auto.
  eapply Inv_ext; [exact HI|]. intros a d. unfold por. tauto.
Qed.

(* HEADLINE (C15, first sentence): after the store is built, every variable declared by any process exists at the
   node its port is wired to and holds the value given for that node in the initial state if there is one, and a
   declared default otherwise *)
Theorem generate_declares ps init t g p a d :
  Forall plain_proc ps -> prefix_free ps -> wf init ->
  generate ps init = Ok (t, g) ->
  In p ps -> declares p a d ->
  exists l, leaf_at t a = Some l /\
    (forall z, get_in init a = Ok (Some (Lf z)) -> l_val l = Some z) /\
    (get_in init a = Ok None -> l_val l = l_def l) /\
    (* the default is one that some process declared for this very node ... *)
    (forall x, l_def l = Some x -> exists p' d', In p' ps /\ declares p' a d' /\ dd d' = Some x) /\
    (* ... and it is THE declared default when all declarations of the node agree on it *)
    (forall x, (forall p' d', In p' ps -> declares p' a d' -> dd d' = Some x) -> l_def l = Some x).
Proof.
  intros Hall Hpf Hwf Hgen Hin Hd.
  destruct (generate_inv _ _ _ _ Hall Hpf Hgen) as (t0 & t2 & [I1 _] & Hs & -> & ->).
  assert (Hg : forall b, glook [] b = None) by reflexivity.
  destruct (I1 a d) as (l0 & Hl0 & Hv0 & C1 & C2); [exists p; auto|].
  pose proof (set_value_leaves _ _ _ _ _ _ Hg Hwf Hs a) as Hsl. rewrite Hl0 in Hsl.
  destruct (leaf_at t2 a) as [l2|] eqn:Hl2; [|contradiction]. cbn in Hsl.
  rewrite leaf_at_apply_defaults, Hl2. eexists. split; [reflexivity|]. cbn [l_val l_def].
  split; [|split; [|split]].
  - intros z Hz.
    destruct (set_value_writes_partial _ _ _ _ _ _ _ _ _ Hg Hwf Hs Hl0 Hz) as (l' & Hl' & Hv' & _).
    rewrite Hl2 in Hl'. injection Hl' as <-. now rewrite Hv'.
  - intros Hn. pose proof (set_value_frame_partial _ _ _ _ _ _ _ _ Hg Hwf Hs Hl0 Hn) as Hl'.
    rewrite Hl2 in Hl'. injection Hl' as ->. now rewrite Hv0.
  - intros x Hx. rewrite Hsl in Hx. destruct (C1 x Hx) as (d' & (p' & Hin' & Hd') & Hdd). eauto.
  - intros x Hx. rewrite Hsl. apply C2. intros d' (p' & Hin' & Hd'). eauto.
Qed.

(* nothing else becomes a variable: every leaf of the built store is a declared variable *)
Theorem generate_only_declared ps init t g a l :
  Forall plain_proc ps -> prefix_free ps -> wf init ->
  generate ps init = Ok (t, g) -> leaf_at t a = Some l ->
  exists p d, In p ps /\ declares p a d.
Proof.
  intros Hall Hpf Hwf Hgen Hl.
  destruct (generate_inv _ _ _ _ Hall Hpf Hgen) as (t0 & t2 & [_ I2] & Hs & -> & ->).
  assert (Hg : forall b, glook [] b = None) by reflexivity.
  rewrite leaf_at_apply_defaults in Hl.
  pose proof (set_value_leaves _ _ _ _ _ _ Hg Hwf Hs a) as Hsl.
  destruct (leaf_at t2 a) as [l2|]; [|discriminate].
  destruct (leaf_at t0 a) as [l0|] eqn:Hl0; [|contradiction].
  destruct (I2 _ _ Hl0) as (d & p & Hin & Hd). eauto.
Qed.

(* the premise is satisfiable and the conclusion is not vacuous: a two-process composite sharing one store *)
Definition vd (x : Z) : vdecl := {| dd := Some x; dv := None; du := None; ds := None |}.
Definition ex_p1 : proc := {| pr_parent := [1%N]; pr_schema := SNode false [(PK 5%N, SNode false [(PK 7%N, SVar (vd 3)); (PK 8%N, SVar (vd 4))])];
                              pr_topo := [(PK 5%N, TPath (dn [9%N]))] |}.
Definition ex_p2 : proc := {| pr_parent := [1%N]; pr_schema := SNode false [(PK 6%N, SNode false [(PK 7%N, SVar (vd 3))])];
                              pr_topo := [(PK 6%N, TPath (dn [9%N]))] |}.
Example generate_example :
  exists t g, generate [ex_p1; ex_p2] (Nd [(1%N, Nd [(9%N, Nd [(8%N, Lf 40%Z)])])]) = Ok (t, g) /\
    (exists l, leaf_at t [1%N; 9%N; 7%N] = Some l /\ l_val l = Some 3%Z) /\
    (exists l, leaf_at t [1%N; 9%N; 8%N] = Some l /\ l_val l = Some 40%Z).
Proof.
  eexists. eexists. split; [vm_compute; reflexivity|].
  split; eexists; (split; [vm_compute; reflexivity|reflexivity]).
Qed.

(* the example composite satisfies the premises of the two theorems *)
Lemma example_plain : Forall plain_proc [ex_p1; ex_p2].
Proof.
  assert (Hv : forall k x, exists k' d, (PK k, SVar (vd x)) = (PK k', SVar d) /\ dv d = None) by (intros; eauto).
  constructor; [|constructor; [|constructor]].
  - eexists. split; [reflexivity|]. split; [repeat constructor; cbn; tauto|].
    constructor; [|constructor]. exists 5%N, [(PK 7%N, SVar (vd 3)); (PK 8%N, SVar (vd 4))], [9%N].
    split; [reflexivity|]. split; [|split; [discriminate|reflexivity]].
    split; [repeat constructor; cbn; intuition discriminate|]. repeat constructor; apply Hv.
  - eexists. split; [reflexivity|]. split; [repeat constructor; cbn; tauto|].
    constructor; [|constructor]. exists 6%N, [(PK 7%N, SVar (vd 3))], [9%N].
    split; [reflexivity|]. split; [|split; [discriminate|reflexivity]].
    split; [repeat constructor; cbn; tauto|]. repeat constructor; apply Hv.
Qed.

Lemma example_prefix_free : prefix_free [ex_p1; ex_p2].
Proof.
  assert (Hlen : forall p a d, In p [ex_p1; ex_p2] -> declares p a d -> length a = 3%nat).
  { intros p a d Hin (ports & k & vs & path & v & Hs & Hp & Hpl & Hv & ->).
    destruct Hin as [<-|[<-|[]]]; cbn [pr_schema pr_topo pr_parent ex_p1 ex_p2] in *;
      injection Hs as <-; destruct Hp as [Hp|[]]; injection Hp as <- <-;
      cbn in Hpl; injection Hpl as Hpl; change [Dn 9%N] with (dn [9%N]) in Hpl;
      apply dn_inj in Hpl; subst path; reflexivity. }
  intros p1 a1 d1 p2 a2 d2 k r H1 H2 Hd1 Hd2 ->.
  apply Hlen in Hd1, Hd2; auto. rewrite app_length in Hd2. cbn in Hd2. lia.
Qed.

Print Assumptions generate_declares.
Print Assumptions generate_only_declared.
Print Assumptions generate_example.
