(* Proofs about Model/Wire.v: declared variables are built with their explicit or default value (C15). *)
From Coq Require Import List NArith ZArith Bool Lia.
From Viv Require Import Base.Assoc Base.Tree Model.Paths Model.Wire Proofs.Paths_proofs Proofs.Wire_proofs.
Import ListNotations.

(* the declaration of the variable at vp in a schema *)
Fixpoint decl_at (s : schema) (vp : list key) : option vdecl :=
  match s, vp with
  | SVar d, [] => Some d
  | SNode _ c, k :: r => match plook (PK k) c with Some sub => decl_at sub r | None => None end
  | _, _ => None
  end.
Definition leaf_at (t : store) (a : list key) : option lf := match sub_at t a with Some (Lf l) => Some l | _ => None end.

(* the sub-schema a schema carries at a path (through declared keys only) *)
Fixpoint sch_at (s : schema) (q : list key) : option schema :=
  match q with
  | [] => Some s
  | k :: r => match s with
              | SNode _ c => match plook (PK k) c with Some sub => sch_at sub r | None => None end
              | _ => None
              end
  end.

(* ================= small facts ================= *)

Lemma leaf_at_nil (t : store) : leaf_at t [] = match t with Lf l => Some l | Nd _ => None end.
Proof. destruct t; reflexivity. Qed.

Lemma leaf_at_Lf_cons l k r : leaf_at (Lf l) (k :: r) = None.
Proof. reflexivity. Qed.

Lemma leaf_at_Nd_cons c k r :
  leaf_at (Nd c) (k :: r) = match alookup k c with Some s => leaf_at s r | None => None end.
Proof. unfold leaf_at, sub_at, node_at. cbn. destruct (alookup k c); reflexivity. Qed.

Lemma decl_at_sch_at s : forall q d, decl_at s q = Some d <-> sch_at s q = Some (SVar d).
Proof.
  intros q. revert s. induction q as [|k r IH]; intros s d.
  - destruct s as [d0| |o c]; cbn; split; intros H; try discriminate; congruence.
  - destruct s as [d0| |o c]; cbn; try (split; discriminate).
    destruct (plook (PK k) c) as [sub|]; [apply IH|split; discriminate].
Qed.

(* ================= merging declarations of several processes for one variable ================= *)

Lemma merge_opt_strict_ok {A} (eqb : A -> A -> bool) cur new r :
  merge_opt_strict eqb cur new = Ok r -> r = match new with Some x => Some x | None => cur end.
Proof. destruct cur as [a|], new as [b|]; cbn; try destruct (eqb a b); intros H; congruence. Qed.

Lemma merge_opt_strict_total {A} (eqb : A -> A -> bool) cur new :
  (forall a b, cur = Some a -> new = Some b -> eqb a b = true) ->
  exists r, merge_opt_strict eqb cur new = Ok r.
Proof.
  intros H. destruct cur as [a|], new as [b|]; cbn; eauto.
  rewrite (H a b eq_refl eq_refl). eauto.
Qed.

Theorem merge_leaf_value_conflict cur d a b : l_val cur = Some a -> dv d = Some b -> a <> b ->
  (forall l', merge_leaf cur d <> Ok l').
Proof.
  intros Hv Hd Hne l'. unfold merge_leaf. rewrite Hv, Hd.
  destruct (merge_opt_strict N.eqb (l_units cur) (du d)) as [u|e]; [|discriminate]. cbn [rbind].
  destruct (merge_opt_strict N.eqb (l_ser cur) (ds d)) as [s|e]; [|discriminate]. cbn [rbind].
  cbn [merge_opt_strict]. apply Z.eqb_neq in Hne. rewrite Hne. discriminate.
Qed.

Theorem merge_leaf_units_conflict cur d a b : l_units cur = Some a -> du d = Some b -> a <> b ->
  (forall l', merge_leaf cur d <> Ok l').
Proof.
  intros Hv Hd Hne l'. unfold merge_leaf. rewrite Hv, Hd.
  cbn [merge_opt_strict]. apply N.eqb_neq in Hne. rewrite Hne. discriminate.
Qed.

Theorem merge_leaf_serializer_conflict cur d a b : l_ser cur = Some a -> ds d = Some b -> a <> b ->
  (forall l', merge_leaf cur d <> Ok l').
Proof.
  intros Hv Hd Hne l'. unfold merge_leaf. rewrite Hv, Hd.
  destruct (merge_opt_strict N.eqb (l_units cur) (du d)) as [u|e]; [|discriminate]. cbn [rbind].
  cbn [merge_opt_strict]. apply N.eqb_neq in Hne. rewrite Hne. discriminate.
Qed.

(* compatible declarations merge: the later default wins, set fields are kept *)
Theorem merge_leaf_ok cur d l' : merge_leaf cur d = Ok l' ->
  l_def l' = (match dd d with Some x => Some x | None => l_def cur end) /\
  l_val l' = (match dv d with Some x => Some x | None => l_val cur end) /\
  l_units l' = (match du d with Some x => Some x | None => l_units cur end) /\
  l_ser l' = (match ds d with Some x => Some x | None => l_ser cur end).
Proof.
  unfold merge_leaf. intros H.
  destruct (merge_opt_strict N.eqb (l_units cur) (du d)) as [u|e] eqn:Eu; [|discriminate]. cbn [rbind] in H.
  destruct (merge_opt_strict N.eqb (l_ser cur) (ds d)) as [s|e] eqn:Es; [|discriminate]. cbn [rbind] in H.
  destruct (merge_opt_strict Z.eqb (l_val cur) (dv d)) as [v|e] eqn:Ev; [|discriminate]. cbn [rbind] in H.
  injection H as <-. cbn.
  apply merge_opt_strict_ok in Eu, Es, Ev. subst. auto.
Qed.

Theorem merge_leaf_compatible cur d :
  (forall a b, l_val cur = Some a -> dv d = Some b -> a = b) ->
  (forall a b, l_units cur = Some a -> du d = Some b -> a = b) ->
  (forall a b, l_ser cur = Some a -> ds d = Some b -> a = b) ->
  exists l', merge_leaf cur d = Ok l'.
Proof.
  intros Hv Hu Hs. unfold merge_leaf.
  destruct (merge_opt_strict_total N.eqb (l_units cur) (du d)) as [u ->].
  { intros a b Ha Hb. apply N.eqb_eq. eauto. }
  destruct (merge_opt_strict_total N.eqb (l_ser cur) (ds d)) as [s ->].
  { intros a b Ha Hb. apply N.eqb_eq. eauto. }
  destruct (merge_opt_strict_total Z.eqb (l_val cur) (dv d)) as [v ->].
  { intros a b Ha Hb. apply Z.eqb_eq. eauto. }
  cbn. eauto.
Qed.

Lemma merge_leaf_empty d :
  merge_leaf empty_leaf d = Ok {| l_val := dv d; l_def := dd d; l_units := du d; l_ser := ds d |}.
Proof. unfold merge_leaf, empty_leaf; cbn. destruct (du d), (ds d), (dv d), (dd d); reflexivity. Qed.

(* ================= apply_config ================= *)

(* the loop of the branch section, threading the children of the node *)
Definition acgo :=
  fix go (c : list (pkey * schema)) (cc : list (key * store)) : res store :=
    match c with
    | [] => Ok (Nd cc)
    | (PStar, _) :: r => go r cc
    | (PK k, sub) :: r =>
      match apply_config (alookup k cc) sub with
      | Ok s' => go r (aset k s' cc)
      | Err e => Err e
      end
    end.

Lemma apply_config_node_None o c : apply_config None (SNode o c) = acgo c [].
Proof. reflexivity. Qed.

Lemma apply_config_node_Nd o c cc : apply_config (Some (Nd cc)) (SNode o c) = acgo c cc.
Proof. reflexivity. Qed.

Lemma apply_config_node_Lf_nil o l : apply_config (Some (Lf l)) (SNode o []) = Ok (Lf l).
Proof. reflexivity. Qed.

Lemma apply_config_node_Lf_cons o l x c :
  apply_config (Some (Lf l)) (SNode o (x :: c)) =
  match l_val l with Some _ => Err EOther | None => acgo (x :: c) [] end.
Proof. cbn [apply_config]. destruct (l_val l); reflexivity. Qed.

Lemma apply_config_var_None d :
  apply_config None (SVar d) = Ok (Lf {| l_val := dv d; l_def := dd d; l_units := du d; l_ser := ds d |}).
Proof. cbn [apply_config]. rewrite merge_leaf_empty. reflexivity. Qed.

Lemma acgo_PK k sub r cc :
  acgo ((PK k, sub) :: r) cc =
  match apply_config (alookup k cc) sub with Ok s' => acgo r (aset k s' cc) | Err e => Err e end.
Proof. reflexivity. Qed.

(* the invariant of the loop: a declared key gets its sub-schema applied to what was there, every other
   child is left alone *)
Lemma acgo_spec c : forall cc s', keys_ok c = true -> acgo c cc = Ok s' ->
  exists cc', s' = Nd cc' /\
    forall k, match plook (PK k) c with
              | Some sub => exists x, apply_config (alookup k cc) sub = Ok x /\ alookup k cc' = Some x
              | None => alookup k cc' = alookup k cc
              end.
Proof.
  induction c as [|[pk sub0] r IH]; intros cc s' Hk Hs.
  - cbn in Hs. injection Hs as <-. exists cc. split; auto. intros k. reflexivity.
  - destruct pk as [k0|]; [|discriminate]. cbn [keys_ok] in Hk.
    apply andb_true_iff in Hk as [Hk1 Hk2]. apply negb_true_iff in Hk1. apply existsb_plook in Hk1.
    rewrite acgo_PK in Hs.
    destruct (apply_config (alookup k0 cc) sub0) as [x0|e] eqn:Ea; [|discriminate].
    destruct (IH _ _ Hk2 Hs) as [cc' [-> Hcc']]. exists cc'. split; auto.
    intros k. cbn [plook]. rewrite pkey_eqb_PK. destruct (N.eqb k0 k) eqn:E.
    + apply N.eqb_eq in E. subst k. specialize (Hcc' k0). rewrite Hk1 in Hcc'.
      exists x0. split; auto. rewrite Hcc'. apply alookup_aset_eq.
    + apply N.eqb_neq in E. specialize (Hcc' k). rewrite (alookup_aset_neq _ _ _ _ E) in Hcc'. exact Hcc'.
Qed.

(* ---- applying a plain sub-schema to a fresh node ---- *)
Theorem apply_config_fresh_declares s s' : plain_schema s = true -> apply_config None s = Ok s' ->
  forall vp d, decl_at s vp = Some d ->
    exists l, leaf_at s' vp = Some l /\ l_def l = dd d /\ l_val l = dv d /\ l_units l = du d /\ l_ser l = ds d.
Proof.
  intros Hp Ha vp. revert s s' Hp Ha.
  induction vp as [|k r IH]; intros s s' Hp Ha d Hd.
  - destruct s as [d0| |o c]; try discriminate. cbn in Hd. injection Hd as ->.
    rewrite apply_config_var_None in Ha. injection Ha as <-.
    eexists. split; [reflexivity|]. cbn. auto.
  - destruct s as [d0| |o c]; try discriminate. cbn [decl_at] in Hd.
    destruct (plook (PK k) c) as [sub|] eqn:Ep; [|discriminate].
    apply plain_node_inv in Hp as [Hk Hsub].
    rewrite apply_config_node_None in Ha.
    destruct (acgo_spec _ _ _ Hk Ha) as [cc' [-> Hcc']]. specialize (Hcc' k). rewrite Ep in Hcc'.
    destruct Hcc' as [x [Hx Hl]]. cbn [alookup] in Hx.
    destruct (IH _ _ (Hsub _ _ Ep) Hx _ Hd) as [l Hl'].
    exists l. rewrite leaf_at_Nd_cons, Hl. exact Hl'.
Qed.

(* an induction principle for schemas that reaches the children *)
Section SchemaInd.
  Variable P : schema -> Prop.
  Hypothesis HVar : forall d, P (SVar d).
  Hypothesis HAll : P SAll.
  Hypothesis HNode : forall o c, Forall (fun kv => P (snd kv)) c -> P (SNode o c).
  Fixpoint schema_ind' (s : schema) : P s :=
    match s with
    | SVar d => HVar d
    | SAll => HAll
    | SNode o c => HNode o c ((fix go (l : list (pkey * schema)) : Forall (fun kv => P (snd kv)) l :=
                                 match l with
                                 | [] => Forall_nil _
                                 | kv :: r => Forall_cons kv (schema_ind' (snd kv)) (go r)
                                 end) c)
    end.
End SchemaInd.

Definition plain_list :=
  fix go (c : list (pkey * schema)) : bool :=
    match c with
    | [] => true
    | (PK k, sub) :: r => plain_schema sub && negb (existsb (fun kv => pkey_eqb (fst kv) (PK k)) r) && go r
    | (PStar, _) :: _ => false
    end.

Lemma plain_schema_node o c : plain_schema (SNode o c) = plain_list c.
Proof. reflexivity. Qed.

Lemma acgo_total c :
  Forall (fun kv => plain_schema (snd kv) = true -> exists s', apply_config None (snd kv) = Ok s') c ->
  plain_list c = true ->
  forall cc, (forall k sub, plook (PK k) c = Some sub -> alookup k cc = None) ->
  exists s', acgo c cc = Ok s'.
Proof.
  induction c as [|[pk sub0] r IH]; intros Hall Hp cc Hcc.
  - cbn. eauto.
  - destruct pk as [k0|]; [|discriminate]. cbn [plain_list] in Hp.
    apply andb_true_iff in Hp as [Hp Hp3]. apply andb_true_iff in Hp as [Hp1 Hp2].
    apply negb_true_iff in Hp2. apply existsb_plook in Hp2.
    inversion Hall as [|? ? H0 Hall']; subst. cbn [snd] in H0.
    rewrite acgo_PK.
    rewrite (Hcc k0 sub0) by (cbn; now rewrite N.eqb_refl).
    destruct (H0 Hp1) as [x0 ->].
    apply IH; auto.
    intros k sub Hks.
    assert (Hne : k0 <> k) by (intros ->; congruence).
    rewrite (alookup_aset_neq _ _ _ _ Hne). apply (Hcc k sub).
    cbn [plook]. rewrite pkey_eqb_PK. apply N.eqb_neq in Hne. now rewrite Hne.
Qed.

Theorem apply_config_fresh_total s : plain_schema s = true -> exists s', apply_config None s = Ok s'.
Proof.
  induction s as [d| |o c IHc] using schema_ind'; intros Hp.
  - rewrite apply_config_var_None. eauto.
  - discriminate.
  - rewrite apply_config_node_None. rewrite plain_schema_node in Hp.
    apply acgo_total; auto.
Qed.

(* ---- applying a plain schema to an existing node ---- *)

(* The statement as given is false: a schema node that declares only empty sub-nodes still turns an
   unset leaf into a branch (Store._apply_config creates the inner nodes), although no variable is
   declared below it; see apply_config_keeps_as_given_is_false.  Original statement:
   Theorem apply_config_keeps s cur s' q l : plain_schema s = true -> apply_config (Some cur) s = Ok s' ->
     leaf_at cur q = Some l -> decl_at s q = None -> (forall vp d, decl_at s vp = Some d -> forall r, q <> vp ++ r) ->
     (forall r k, q = r ++ [k] -> True) ->
     leaf_at s' q = Some l \/ exists vp, (exists d, decl_at s vp = Some d) /\ exists r, r <> [] /\ vp = q ++ r.   *)
Definition keeps_cx_schema : schema := SNode false [(PK 1%N, SNode false [])].

Lemma keeps_cx_no_decl vp : decl_at keeps_cx_schema vp = None.
Proof.
  destruct vp as [|k r]; [reflexivity|]. unfold keeps_cx_schema. cbn [decl_at plook].
  destruct (pkey_eqb (PK 1%N) (PK k)); [|reflexivity]. destruct r; reflexivity.
Qed.

Theorem apply_config_keeps_as_given_is_false :
  ~ (forall s cur s' q l, plain_schema s = true -> apply_config (Some cur) s = Ok s' ->
       leaf_at cur q = Some l -> decl_at s q = None ->
       (forall vp d, decl_at s vp = Some d -> forall r, q <> vp ++ r) ->
       (forall r k, q = r ++ [k] -> True) ->
       leaf_at s' q = Some l \/
       exists vp, (exists d, decl_at s vp = Some d) /\ exists r, r <> [] /\ vp = q ++ r).
Proof.
  intros H.
  destruct (H keeps_cx_schema (Lf empty_leaf) (Nd [(1%N, Nd [])]) [] empty_leaf) as [Hl|[vp [[d Hd] _]]].
  - reflexivity.
  - vm_compute. reflexivity.
  - reflexivity.
  - reflexivity.
  - intros vp d Hd. rewrite keeps_cx_no_decl in Hd. discriminate.
  - auto.
  - vm_compute in Hl. discriminate.
  - rewrite keeps_cx_no_decl in Hd. discriminate.
Qed.

(* The frame property: a leaf where the schema says nothing (it has no entry at q, or only an empty
   dict) is exactly as it was.  A leaf below a declared variable needs no separate exclusion: applying
   the schema to such a node raises (leaf values assigned to a branch), which the `= Ok` hypothesis
   rules out. *)
Theorem apply_config_frame s cur s' q l : plain_schema s = true -> apply_config (Some cur) s = Ok s' ->
  leaf_at cur q = Some l ->
  (sch_at s q = None \/ exists o, sch_at s q = Some (SNode o [])) ->
  leaf_at s' q = Some l.
Proof.
  revert s cur s'. induction q as [|k r IH]; intros s cur s' Hp Ha Hl Hq.
  - rewrite leaf_at_nil in Hl. destruct cur as [l0|cc]; [|discriminate]. injection Hl as ->.
    cbn [sch_at] in Hq. destruct Hq as [Hq|[o Hq]]; [discriminate|]. injection Hq as ->.
    rewrite apply_config_node_Lf_nil in Ha. injection Ha as <-. reflexivity.
  - destruct cur as [l0|cc]; [discriminate|]. rewrite leaf_at_Nd_cons in Hl.
    destruct (alookup k cc) as [sc|] eqn:Ek; [|discriminate].
    destruct s as [d| |o c]; [| discriminate |].
    + destruct cc; [discriminate Ek|]. cbn in Ha. discriminate.
    + apply plain_node_inv in Hp as [Hk Hsub]. rewrite apply_config_node_Nd in Ha.
      destruct (acgo_spec _ _ _ Hk Ha) as [cc' [-> Hcc']]. specialize (Hcc' k).
      rewrite leaf_at_Nd_cons. cbn [sch_at] in Hq.
      destruct (plook (PK k) c) as [sub|] eqn:Ep.
      * destruct Hcc' as [x [Hx ->]]. rewrite Ek in Hx. eapply IH; eauto.
      * rewrite Hcc', Ek. exact Hl.
Qed.

(* the same in the vocabulary of declarations: a leaf the schema does not declare is kept, unless the
   schema has a non-empty dict there (then the unset leaf becomes a branch) *)
Corollary apply_config_frame_decl s cur s' q l : plain_schema s = true -> apply_config (Some cur) s = Ok s' ->
  leaf_at cur q = Some l -> decl_at s q = None ->
  leaf_at s' q = Some l \/ exists o x c, sch_at s q = Some (SNode o (x :: c)).
Proof.
  intros Hp Ha Hl Hd.
  destruct (sch_at s q) as [[d| |o [|x c]]|] eqn:Es.
  - apply decl_at_sch_at in Es. congruence.
  - exfalso. clear Hd. revert s cur s' Hp Ha Hl Es. induction q as [|k r IH]; intros s cur s' Hp Ha Hl Es.
    + cbn in Es. injection Es as ->. discriminate.
    + destruct s as [d| |o c]; try discriminate. cbn [sch_at] in Es.
      destruct (plook (PK k) c) as [sub|] eqn:Ep; [|discriminate].
      destruct cur as [l0|cc]; [discriminate|]. rewrite leaf_at_Nd_cons in Hl.
      destruct (alookup k cc) as [sc|] eqn:Ek; [|discriminate].
      apply plain_node_inv in Hp as [Hk Hsub]. rewrite apply_config_node_Nd in Ha.
      destruct (acgo_spec _ _ _ Hk Ha) as [cc' [-> Hcc']]. specialize (Hcc' k). rewrite Ep in Hcc'.
      destruct Hcc' as [x [Hx _]]. rewrite Ek in Hx. eapply IH; eauto.
  - left. eapply apply_config_frame; eauto.
  - right. eauto.
  - left. eapply apply_config_frame; eauto.
Qed.

(* a redeclared variable is merged with the new declaration *)
Theorem apply_config_redeclared s cur s' q l d : plain_schema s = true -> apply_config (Some cur) s = Ok s' ->
  leaf_at cur q = Some l -> decl_at s q = Some d ->
  exists l', merge_leaf l d = Ok l' /\ leaf_at s' q = Some l'.
Proof.
  revert s cur s'. induction q as [|k r IH]; intros s cur s' Hp Ha Hl Hd.
  - rewrite leaf_at_nil in Hl. destruct cur as [l0|cc]; [|discriminate]. injection Hl as ->.
    destruct s as [d0| |o c]; try discriminate. cbn in Hd. injection Hd as ->.
    cbn [apply_config] in Ha. destruct (merge_leaf l d) as [l'|e]; [|discriminate].
    cbn in Ha. injection Ha as <-. eauto.
  - destruct cur as [l0|cc]; [discriminate|]. rewrite leaf_at_Nd_cons in Hl.
    destruct (alookup k cc) as [sc|] eqn:Ek; [|discriminate].
    destruct s as [d0| |o c]; try discriminate. cbn [decl_at] in Hd.
    destruct (plook (PK k) c) as [sub|] eqn:Ep; [|discriminate].
    apply plain_node_inv in Hp as [Hk Hsub]. rewrite apply_config_node_Nd in Ha.
    destruct (acgo_spec _ _ _ Hk Ha) as [cc' [-> Hcc']]. specialize (Hcc' k). rewrite Ep in Hcc'.
    destruct Hcc' as [x [Hx Hlk]]. rewrite Ek in Hx.
    destruct (IH _ _ _ (Hsub _ _ Ep) Hx Hl Hd) as [l' [Hm Hl']].
    exists l'. split; auto. rewrite leaf_at_Nd_cons, Hlk. exact Hl'.
Qed.

(* ================= defaults ================= *)

Definition adgo :=
  fix go (c : list (key * store)) : list (key * store) :=
    match c with [] => [] | (k, x) :: r => (k, apply_defaults x) :: go r end.

Lemma apply_defaults_Nd c : apply_defaults (Nd c) = Nd (adgo c).
Proof. reflexivity. Qed.

Lemma alookup_adgo k c :
  alookup k (adgo c) = match alookup k c with Some s => Some (apply_defaults s) | None => None end.
Proof.
  induction c as [|[k0 x] r IH]; cbn; auto. destruct (N.eqb k0 k); auto.
Qed.

Lemma get_in_apply_defaults a : forall t : store,
  get_in (apply_defaults t) a = match get_in t a with
                                | Ok (Some s) => Ok (Some (apply_defaults s))
                                | Ok None => Ok None
                                | Err e => Err e
                                end.
Proof.
  induction a as [|h r IH]; intros t.
  - reflexivity.
  - destruct t as [l|c]; [reflexivity|].
    rewrite apply_defaults_Nd. cbn [get_in]. rewrite alookup_adgo.
    destruct (alookup h c) as [s|]; auto.
Qed.

(* apply_defaults: a set value is kept, an unset one becomes the default; structure unchanged *)
Theorem apply_defaults_leaf t a l : leaf_at t a = Some l ->
  exists l', leaf_at (apply_defaults t) a = Some l' /\
             l_val l' = (match l_val l with Some v => Some v | None => l_def l end) /\
             l_def l' = l_def l /\ l_units l' = l_units l /\ l_ser l' = l_ser l.
Proof.
  unfold leaf_at, sub_at, node_at. rewrite get_in_apply_defaults.
  destruct (get_in t a) as [[[l0|c]|]|e]; try discriminate.
  intros [= ->]. eexists. split; [reflexivity|]. cbn. auto.
Qed.

Theorem apply_defaults_idem t : apply_defaults (apply_defaults t) = apply_defaults t.
Proof.
  induction t as [l|c IHc] using tree_ind'.
  - cbn. destruct (l_val l); [reflexivity|]. destruct (l_def l); reflexivity.
  - rewrite !apply_defaults_Nd. f_equal.
    induction IHc as [|[k x] r Hx _ IHr]; [reflexivity|].
    cbn in *. now rewrite Hx, IHr.
Qed.

(* ================= explicit initial values ================= *)

(* set_value on a leaf: the explicit initial value replaces the value *)
Theorem set_value_leaf fuel g a l z : set_value (S fuel) g a (Some (Lf l)) (Lf z) =
  Ok (Some (Lf {| l_val := Some z; l_def := l_def l; l_units := l_units l; l_ser := l_ser l |})).
Proof. reflexivity. Qed.

(* one step of the loop over the items of the initial state *)
Definition svstep (f : nat) (g : globs) (a : list key) (gl : option (schema * list (pkey * topo)))
  (acc : res (list (key * store))) (kv : key * tree Z) : res (list (key * store)) :=
  rbind acc (fun cc' =>
    let '(k, sub) := kv in
    let existing : res (option store) :=
      match alookup k cc', gl with
      | Some s, _ => Ok (Some s)
      | None, Some (ssch, _) => rbind (apply_config None ssch) (fun s => Ok (Some s))
      | None, None => Ok None
      end in
    rbind existing (fun ex =>
      rbind (set_value f g (a ++ [k]) ex sub) (fun r =>
        match r with Some s' => Ok (aset k s' cc') | None => Ok cc' end))).

Lemma set_value_Nd_Nd f g a cc vc :
  set_value (S f) g a (Some (Nd cc)) (Nd vc) =
  match cc, glook g a with
  | [], None => Ok (Some (Nd cc))
  | _, gl => rbind (fold_left (svstep f g a gl) vc (Ok cc)) (fun cc' => Ok (Some (Nd cc')))
  end.
Proof. reflexivity. Qed.

Lemma set_value_Nd_Nd_noglob f g a cc vc : glook g a = None -> cc <> [] ->
  set_value (S f) g a (Some (Nd cc)) (Nd vc) =
  rbind (fold_left (svstep f g a None) vc (Ok cc)) (fun cc' => Ok (Some (Nd cc'))).
Proof.
  intros Hg Hcc. rewrite set_value_Nd_Nd, Hg. destruct cc; [congruence|reflexivity].
Qed.

Lemma svstep_None f g a cc k sub :
  svstep f g a None (Ok cc) (k, sub) =
  rbind (set_value f g (a ++ [k]) (alookup k cc) sub) (fun r =>
    match r with Some s' => Ok (aset k s' cc) | None => Ok cc end).
Proof. unfold svstep. cbn [rbind]. destruct (alookup k cc); reflexivity. Qed.

Lemma svfold_err f g a gl vc e : fold_left (svstep f g a gl) vc (Err e) = Err e.
Proof. induction vc as [|kv r IH]; cbn; auto. Qed.

Lemma set_value_None_res f g a v r : set_value f g a None v = Ok r -> r = None.
Proof. destruct f; cbn; congruence. Qed.

Lemma set_value_Some_res f g a c v r : set_value f g a (Some c) v = Ok r -> exists c', r = Some c'.
Proof.
  destruct f as [|f]; [discriminate|].
  destruct c as [l|cc], v as [z|vc].
  - cbn. intros [= <-]. eauto.
  - discriminate.
  - cbn. destruct cc; [|discriminate]. destruct (glook g a); [discriminate|]. intros [= <-]. eauto.
  - rewrite set_value_Nd_Nd.
    destruct cc as [|c0 cc0], (glook g a) as [gl|];
      try (destruct (fold_left _ vc _); cbn; [intros [= <-]; eauto|discriminate]).
    intros [= <-]. eauto.
Qed.

(* the invariant of the loop (no glob here): a key of the initial state that exists in the node is set
   recursively, every other child is left alone *)
Lemma svfold_spec f g a : forall vc cc cc', NoDup (akeys vc) ->
  fold_left (svstep f g a None) vc (Ok cc) = Ok cc' ->
  forall k, match alookup k vc, alookup k cc with
            | Some sv, Some sc =>
                exists s', set_value f g (a ++ [k]) (Some sc) sv = Ok (Some s') /\ alookup k cc' = Some s'
            | _, _ => alookup k cc' = alookup k cc
            end.
Proof.
  induction vc as [|[k0 sv0] r IH]; intros cc cc' Hnd Hf k.
  - cbn in Hf. injection Hf as <-. cbn. destruct (alookup k cc); reflexivity.
  - cbn [akeys map fst] in Hnd. inversion Hnd as [|? ? Hnin Hnd']; subst.
    apply alookup_None_notin in Hnin.
    cbn [fold_left] in Hf. rewrite svstep_None in Hf.
    destruct (set_value f g (a ++ [k0]) (alookup k0 cc) sv0) as [r0|e] eqn:Es;
      [|cbn [rbind] in Hf; rewrite svfold_err in Hf; discriminate].
    cbn [rbind] in Hf. cbn [alookup].
    destruct (N.eqb k0 k) eqn:E.
    + apply N.eqb_eq in E. subst k.
      destruct (alookup k0 cc) as [sc|] eqn:Ec.
      * destruct (set_value_Some_res _ _ _ _ _ _ Es) as [s' ->].
        specialize (IH _ _ Hnd' Hf k0). rewrite Hnin in IH.
        exists s'. split; auto. rewrite IH. apply alookup_aset_eq.
      * apply set_value_None_res in Es. subst r0.
        specialize (IH _ _ Hnd' Hf k0). rewrite Hnin in IH. rewrite IH. exact Ec.
    + apply N.eqb_neq in E.
      destruct r0 as [s0|]; specialize (IH _ _ Hnd' Hf k).
      * rewrite (alookup_aset_neq _ _ _ _ E) in IH. exact IH.
      * exact IH.
Qed.

Lemma wf_Nd_inv {A} (vc : list (key * tree A)) : wf (Nd vc) ->
  NoDup (akeys vc) /\ forall k sv, alookup k vc = Some sv -> wf sv.
Proof.
  intros H. inversion H as [|? Hnd Hall]; subst. split; auto.
  intros k sv Hk. apply alookup_In in Hk. rewrite Forall_forall in Hall. exact (Hall _ Hk).
Qed.

(* The three statements below are false as given: the initial state `v : tree Z` is a Python dict, but
   nothing in the statement keeps the association list from carrying a key twice.  get_in reads the first
   entry of a key, the loop of set_value obeys every entry, so a later duplicate writes where get_in says
   nothing is mentioned (frame), or overwrites the value get_in reports (writes).  The missing hypothesis
   is `wf v` (Base/Tree.v: keys unique at every level).  Original statements:

   Theorem set_value_frame fuel : forall g a cur v cur' q l, (forall b, glook g b = None) ->
     set_value fuel g a (Some cur) v = Ok (Some cur') -> leaf_at cur q = Some l ->
     get_in v q = Ok None -> leaf_at cur' q = Some l.
   Theorem set_value_writes fuel : forall g a cur v cur' q l z, (forall b, glook g b = None) ->
     set_value fuel g a (Some cur) v = Ok (Some cur') -> leaf_at cur q = Some l ->
     get_in v q = Ok (Some (Lf z)) -> exists l', leaf_at cur' q = Some l' /\ l_val l' = Some z /\ l_def l' = l_def l.
   Theorem explicit_else_default fuel g a cur v cur' q l : (forall b, glook g b = None) ->
     set_value fuel g a (Some cur) v = Ok (Some cur') -> leaf_at cur q = Some l -> l_val l = None ->
     (forall z, get_in v q = Ok (Some (Lf z)) ->
        exists l', leaf_at (apply_defaults cur') q = Some l' /\ l_val l' = Some z) /\
     (get_in v q = Ok None ->
        exists l', leaf_at (apply_defaults cur') q = Some l' /\ l_val l' = l_def l).                    *)

Definition cx_leaf (v : option Z) : lf := {| l_val := v; l_def := Some 7%Z; l_units := None; l_ser := None |}.
(* frame: {1: {}, 1: {2: 5}} *)
Definition frame_cx_cur : store := Nd [(1%N, Nd [(2%N, Lf (cx_leaf None))])].
Definition frame_cx_v : tree Z := Nd [(1%N, Nd []); (1%N, Nd [(2%N, Lf 5%Z)])].
Definition frame_cx_cur' : store := Nd [(1%N, Nd [(2%N, Lf (cx_leaf (Some 5%Z)))])].
(* writes: {1: 3, 1: 4} *)
Definition writes_cx_cur : store := Nd [(1%N, Lf (cx_leaf None))].
Definition writes_cx_v : tree Z := Nd [(1%N, Lf 3%Z); (1%N, Lf 4%Z)].
Definition writes_cx_cur' : store := Nd [(1%N, Lf (cx_leaf (Some 4%Z)))].

Theorem set_value_frame_as_given_is_false :
  ~ (forall fuel g a cur v cur' q l, (forall b, glook g b = None) ->
       set_value fuel g a (Some cur) v = Ok (Some cur') -> leaf_at cur q = Some l ->
       get_in v q = Ok None -> leaf_at cur' q = Some l).
Proof.
  intros H.
  specialize (H 3%nat [] [] frame_cx_cur frame_cx_v frame_cx_cur' [1%N; 2%N] (cx_leaf None)
                (fun _ => eq_refl) eq_refl eq_refl eq_refl).
  vm_compute in H. discriminate.
Qed.

Theorem set_value_writes_as_given_is_false :
  ~ (forall fuel g a cur v cur' q l z, (forall b, glook g b = None) ->
       set_value fuel g a (Some cur) v = Ok (Some cur') -> leaf_at cur q = Some l ->
       get_in v q = Ok (Some (Lf z)) ->
       exists l', leaf_at cur' q = Some l' /\ l_val l' = Some z /\ l_def l' = l_def l).
Proof.
  intros H.
  destruct (H 2%nat [] [] writes_cx_cur writes_cx_v writes_cx_cur' [1%N] (cx_leaf None) 3%Z
              (fun _ => eq_refl) eq_refl eq_refl eq_refl) as [l' [Hl [Hv _]]].
  vm_compute in Hl. injection Hl as <-. discriminate.
Qed.

Theorem explicit_else_default_as_given_is_false :
  ~ (forall fuel g a cur v cur' q l, (forall b, glook g b = None) ->
       set_value fuel g a (Some cur) v = Ok (Some cur') -> leaf_at cur q = Some l -> l_val l = None ->
       (forall z, get_in v q = Ok (Some (Lf z)) ->
          exists l', leaf_at (apply_defaults cur') q = Some l' /\ l_val l' = Some z) /\
       (get_in v q = Ok None ->
          exists l', leaf_at (apply_defaults cur') q = Some l' /\ l_val l' = l_def l)).
Proof.
  intros H.
  destruct (H 3%nat [] [] frame_cx_cur frame_cx_v frame_cx_cur' [1%N; 2%N] (cx_leaf None)
              (fun _ => eq_refl) eq_refl eq_refl eq_refl) as [_ H2].
  destruct (H2 eq_refl) as [l' [Hl Hv]].
  vm_compute in Hl. injection Hl as <-. discriminate.
Qed.

(* set_value never touches a variable the initial state does not mention (no glob on the way) *)
Theorem set_value_frame_partial fuel : forall g a cur v cur' q l, (forall b, glook g b = None) -> wf v ->
  set_value fuel g a (Some cur) v = Ok (Some cur') -> leaf_at cur q = Some l ->
  get_in v q = Ok None -> leaf_at cur' q = Some l.
Proof.
  induction fuel as [|f IH]; intros g a cur v cur' q l Hg Hwf Hs Hl Hv; [discriminate|].
  destruct cur as [l0|cc].
  - destruct q as [|k r]; [discriminate|]. rewrite leaf_at_Lf_cons in Hl. discriminate.
  - destruct q as [|k r]; [discriminate|].
    destruct v as [z|vc]; [discriminate|].
    rewrite leaf_at_Nd_cons in Hl. destruct (alookup k cc) as [sc|] eqn:Ek; [|discriminate].
    assert (Hcc : cc <> []) by (intros ->; discriminate).
    rewrite (set_value_Nd_Nd_noglob _ _ _ _ _ (Hg a) Hcc) in Hs.
    destruct (fold_left (svstep f g a None) vc (Ok cc)) as [cc'|e] eqn:Ef; [|discriminate].
    cbn [rbind] in Hs. injection Hs as <-.
    destruct (wf_Nd_inv _ Hwf) as [Hnd Hsub].
    pose proof (svfold_spec f g a vc cc cc' Hnd Ef k) as Hk. rewrite Ek in Hk.
    rewrite leaf_at_Nd_cons. cbn [get_in] in Hv.
    destruct (alookup k vc) as [sv|] eqn:Ev.
    + destruct Hk as [s' [Hs' ->]].
      exact (IH g (a ++ [k]) sc sv s' r l Hg (Hsub _ _ Ev) Hs' Hl Hv).
    + rewrite Hk. exact Hl.
Qed.

(* and writes exactly the given value where it mentions one *)
Theorem set_value_writes_partial fuel : forall g a cur v cur' q l z, (forall b, glook g b = None) -> wf v ->
  set_value fuel g a (Some cur) v = Ok (Some cur') -> leaf_at cur q = Some l ->
  get_in v q = Ok (Some (Lf z)) ->
  exists l', leaf_at cur' q = Some l' /\ l_val l' = Some z /\ l_def l' = l_def l.
Proof.
  induction fuel as [|f IH]; intros g a cur v cur' q l z Hg Hwf Hs Hl Hv; [discriminate|].
  destruct cur as [l0|cc].
  - destruct q as [|k r]; [|rewrite leaf_at_Lf_cons in Hl; discriminate].
    cbn in Hv. injection Hv as ->. rewrite leaf_at_nil in Hl. injection Hl as ->.
    rewrite set_value_leaf in Hs. injection Hs as <-.
    eexists. split; [reflexivity|]. cbn. auto.
  - destruct q as [|k r]; [discriminate|].
    destruct v as [z0|vc]; [discriminate|].
    rewrite leaf_at_Nd_cons in Hl. destruct (alookup k cc) as [sc|] eqn:Ek; [|discriminate].
    assert (Hcc : cc <> []) by (intros ->; discriminate).
    rewrite (set_value_Nd_Nd_noglob _ _ _ _ _ (Hg a) Hcc) in Hs.
    destruct (fold_left (svstep f g a None) vc (Ok cc)) as [cc'|e] eqn:Ef; [|discriminate].
    cbn [rbind] in Hs. injection Hs as <-.
    destruct (wf_Nd_inv _ Hwf) as [Hnd Hsub].
    pose proof (svfold_spec f g a vc cc cc' Hnd Ef k) as Hk. rewrite Ek in Hk.
    rewrite leaf_at_Nd_cons. cbn [get_in] in Hv.
    destruct (alookup k vc) as [sv|] eqn:Ev; [|discriminate].
    destruct Hk as [s' [Hs' ->]].
    exact (IH g (a ++ [k]) sc sv s' r l z Hg (Hsub _ _ Ev) Hs' Hl Hv).
Qed.

(* together: after set_value and apply_defaults a declared variable holds the explicit initial value if
   there is one, its declared default otherwise *)
Theorem explicit_else_default_partial fuel g a cur v cur' q l : (forall b, glook g b = None) -> wf v ->
  set_value fuel g a (Some cur) v = Ok (Some cur') -> leaf_at cur q = Some l -> l_val l = None ->
  (forall z, get_in v q = Ok (Some (Lf z)) ->
     exists l', leaf_at (apply_defaults cur') q = Some l' /\ l_val l' = Some z) /\
  (get_in v q = Ok None ->
     exists l', leaf_at (apply_defaults cur') q = Some l' /\ l_val l' = l_def l).
Proof.
  intros Hg Hwf Hs Hl Hnone. split.
  - intros z Hv.
    destruct (set_value_writes_partial fuel g a cur v cur' q l z Hg Hwf Hs Hl Hv) as [l1 [Hl1 [Hv1 _]]].
    destruct (apply_defaults_leaf _ _ _ Hl1) as [l' [Hl' [Hv' _]]].
    exists l'. split; auto. now rewrite Hv', Hv1.
  - intros Hv.
    pose proof (set_value_frame_partial fuel g a cur v cur' q l Hg Hwf Hs Hl Hv) as Hl1.
    destruct (apply_defaults_leaf _ _ _ Hl1) as [l' [Hl' [Hv' _]]].
    exists l'. split; auto. now rewrite Hv', Hnone.
Qed.

Print Assumptions merge_leaf_value_conflict.
Print Assumptions merge_leaf_units_conflict.
Print Assumptions merge_leaf_serializer_conflict.
Print Assumptions merge_leaf_ok.
Print Assumptions merge_leaf_compatible.
Print Assumptions apply_config_fresh_declares.
Print Assumptions apply_config_fresh_total.
Print Assumptions apply_config_keeps_as_given_is_false.
Print Assumptions apply_config_frame.
Print Assumptions apply_config_frame_decl.
Print Assumptions apply_config_redeclared.
Print Assumptions apply_defaults_leaf.
Print Assumptions apply_defaults_idem.
Print Assumptions set_value_leaf.
Print Assumptions set_value_frame_as_given_is_false.
Print Assumptions set_value_writes_as_given_is_false.
Print Assumptions explicit_else_default_as_given_is_false.
Print Assumptions set_value_frame_partial.
Print Assumptions set_value_writes_partial.
Print Assumptions explicit_else_default_partial.
