(* The view-cache rule of Model/Views.v (proved in Proofs/Views_proofs.v for an abstract store under the hypothesis
   `app_reports`) instantiated with the structural model Model/Struct.v: the hypothesis is DISCHARGED for
   `apply_ops` (every structural operation reports view_expire; an update whose operations are all plain value
   updates leaves the node structure alone). *)
From Coq Require Import List NArith ZArith Bool Lia.
From Viv Require Import Base.Assoc Base.Tree Model.Paths Model.Steps Model.Struct Model.Views
  Proofs.Struct_proofs Proofs.Upd_proofs Proofs.Views_proofs.
Import ListNotations.

(* what cached views refer to: which node (identity) sits at which place; values, dividers, process info erased *)
Fixpoint skel (n : cnode) : list (list key * N) :=
  match n with
  | CVar u _ _ => [([], u)]
  | CProc u _ => [([], u)]
  | CDir u _ c =>
    ([], u) :: (fix go (c : list (key * cnode)) : list (list key * N) :=
                  match c with
                  | [] => []
                  | (k, x) :: r => map (fun pu => (k :: fst pu, snd pu)) (skel x) ++ go r
                  end) c
  end.

(* ---------- auxiliary: the children part of skel, standalone ---------- *)
Fixpoint skel_children (c : list (key * cnode)) : list (list key * N) :=
  match c with
  | [] => []
  | (k, x) :: r => map (fun pu => (k :: fst pu, snd pu)) (skel x) ++ skel_children r
  end.

Lemma skel_dir u g c : skel (CDir u g c) = ([], u) :: skel_children c.
Proof.
  (* the inner fix of skel and skel_children are the same fixpoint *)
  reflexivity.
Qed.

(* replacing the child at an existing key by one with the same skeleton: in place, same skeleton *)
Lemma skel_children_aset k x x' c :
  alookup k c = Some x -> skel x' = skel x -> skel_children (aset k x' c) = skel_children c.
Proof.
  intros Hl Hs. induction c as [|[k0 v0] r IH]; [discriminate Hl|].
  cbn [alookup] in Hl. cbn [aset]. destruct (N.eqb k0 k) eqn:E.
  - inversion Hl; subst v0. cbn [skel_children]. rewrite Hs. reflexivity.
  - cbn [skel_children]. rewrite (IH Hl). reflexivity.
Qed.

Ltac dress H a E :=
  match type of H with
  | rbind ?X _ = _ => destruct X as [a|?] eqn:E; cbn [rbind] in H; [|discriminate H]
  end.

(* the fold inside cadd: keys stay in place, every child keeps its skeleton *)
Lemma cadd_fold_skel (F : cnode -> tree Z -> res cnode) :
  (forall n v n', F n v = Ok n' -> skel n' = skel n) ->
  forall vc c c',
  fold_left (fun acc kv =>
               rbind acc (fun c' =>
                 match alookup (fst kv) c' with
                 | Some ch => rbind (F ch (snd kv)) (fun ch' => Ok (aset (fst kv) ch' c'))
                 | None => Ok c'
                 end)) vc (Ok c) = Ok c' ->
  skel_children c' = skel_children c.
Proof.
  intros HF. induction vc as [|[k x] r IH]; intros c c' H.
  - cbn in H. inversion H; subst. reflexivity.
  - cbn [fold_left rbind fst snd] in H.
    destruct (alookup k c) as [ch|] eqn:El.
    + destruct (F ch x) as [ch'|e] eqn:Ea; cbn [rbind] in H;
        [|rewrite fold_err in H by reflexivity; discriminate H].
      rewrite (IH _ _ H). apply (skel_children_aset k ch ch' c El). apply (HF _ _ _ Ea).
    + apply (IH _ _ H).
Qed.

(* writing, at an existing path, a node with the skeleton of the node found there *)
Lemma cset_skel p : forall t x x' t',
  cget t p = Some x -> skel x' = skel x -> cset t p x' = Ok t' -> skel t' = skel t.
Proof.
  induction p as [|k r IH]; intros t x x' t' Hg Hs Hc.
  - cbn in Hg, Hc. inversion Hg; subst. inversion Hc; subst. exact Hs.
  - destruct t as [u z d|u pi|u g c]; cbn [cget] in Hg; try discriminate Hg.
    destruct (alookup k c) as [ch|] eqn:El; [|discriminate Hg].
    cbn [cset] in Hc. destruct r as [|k2 r2].
    + cbn [cget] in Hg. inversion Hg; subst ch. inversion Hc; subst t'.
      rewrite !skel_dir. f_equal. apply (skel_children_aset k x x' c El Hs).
    + rewrite El in Hc. dress Hc ch' Ec. inversion Hc; subst t'.
      rewrite !skel_dir. f_equal. apply (skel_children_aset k ch ch' c El).
      apply (IH ch x x' ch' Hg Hs Ec).
Qed.

Section StructViews.
(* the kit, as in Model/Struct.v (Section WithKit) *)
Variable mk_child : N -> cnode * N.
Variable D : Type.
Variable build : D -> N -> cnode * N.
Variable copy_procs : cnode -> N -> cnode * N.
Variable vr : variant.

(* engine state as far as structure goes: the hierarchy and the uid counter; an update: the directory node it
   addresses and its operations *)
Definition sstate := (cnode * N)%type.
Definition supd := (list key * list (sop D))%type.

(* Engine.apply_update: the new state and the view_expire flag; an update that raises applies nothing *)
Definition sapp (s : sstate) (u : supd) : sstate * bool :=
  match apply_ops mk_child D build copy_procs vr (fst s) (fst u) (snd u) (snd s) with
  | Ok (t', rp, uid') => ((t', uid'), r_expire rp)
  | Err _ => (s, false)
  end.
Definition srefs (s : sstate) : list (list key * N) := skel (fst s).

(* a plain value update changes values only *)
Theorem cadd_skel fuel : forall n v n', cadd fuel n v = Ok n' -> skel n' = skel n.
Proof.
  induction fuel as [|f IH]; intros n v n' H; [discriminate H|].
  destruct n as [u z d|u pi|u g c]; destruct v as [dz|vc]; cbn [cadd] in H; try discriminate H.
  - inversion H; subst n'. reflexivity.
  - inversion H; subst n'. reflexivity.
  - inversion H; subst n'. reflexivity.
  - dress H c' E. inversion H; subst n'. rewrite !skel_dir. f_equal.
    apply (cadd_fold_skel (cadd f) IH vc c c' E).
Qed.

(* one operation: if it does not report view_expire, the node structure is what it was *)
Theorem apply_op_no_expire_skel t here o uid t' rp uid' :
  apply_op mk_child D build copy_procs vr t here o uid = Ok (t', rp, uid') ->
  r_expire rp = false -> skel t' = skel t.
Proof.
  intros H Hx. unfold apply_op, dir_at in H.
  destruct (cget t here) as [[u z d|u pi|u g c]|] eqn:Hd; try discriminate H. cbn [rbind] in H.
  destruct o as [k state|source target|source target|k d init|mother daughters choices|k|p|k v].
  - (* OpAdd *)
    exfalso. destruct (alookup k c) as [x|]; [discriminate H|].
    destruct (if g then mk_child uid else (CDir uid false [], N.succ uid)) as [ch uid1].
    dress H r Es. dress H t1 Ec. inversion H; subst. discriminate Hx.
  - (* OpMove *)
    exfalso. destruct (alookup source c) as [node|]; [|discriminate H].
    destruct (cget t (target ++ [source])); [discriminate H|].
    dress H t1 E1. dress H t2 E2. inversion H; subst. discriminate Hx.
  - (* OpMoveP *)
    exfalso. destruct source as [|s0 sr]; [discriminate H|].
    destruct (cget t (here ++ s0 :: sr)) as [node|]; [|discriminate H].
    destruct (cget t target); [|discriminate H].
    destruct (cget t (target ++ s0 :: sr)); [discriminate H|].
    dress H tu E0. dress H t1 E1. dress H t2 E2. inversion H; subst. discriminate Hx.
  - (* OpGenerate *)
    exfalso. destruct (build d uid) as [sub uid1].
    dress H r Es. dress H t1 Ec. inversion H; subst. discriminate Hx.
  - (* OpDivide *)
    exfalso. destruct (alookup mother c) as [m|]; [|discriminate H].
    dress H tru E0. destruct tru as [[t1 rp1] u1]. dress H t2 E2. inversion H; subst.
    cbn [rapp r_expire] in Hx. rewrite orb_true_r in Hx. discriminate Hx.
  - (* OpDelete *)
    exfalso. dress H t1 E1. inversion H; subst. discriminate Hx.
  - (* OpDeletePath *)
    exfalso. destruct (v_fix_delete_path vr).
    + dress H t1 E1. inversion H; subst. discriminate Hx.
    + inversion H; subst. discriminate Hx.
  - (* OpUpd *)
    destruct (alookup k c) as [ch|] eqn:El.
    + dress H ch' Ea. dress H t1 Ec. inversion H; subst.
      apply (cset_skel (here ++ [k]) t ch ch' t'); [|apply (cadd_skel _ _ _ _ Ea)|exact Ec].
      rewrite (child_lookup t here k u g c Hd). exact El.
    + inversion H; subst. reflexivity.
Qed.

(* the fold of apply_ops with a generalised accumulator: a final report without expire means the accumulator
   was a success without expire, and the structure is the accumulator's *)
Lemma ops_fold_no_expire_skel here l : forall acc t' rp uid',
  fold_left (fun acc o =>
               rbind acc (fun tru =>
                 let '(t', rp, uid') := tru in
                 rbind (apply_op mk_child D build copy_procs vr t' here o uid') (fun tru' =>
                   let '(t'', rp', uid'') := tru' in Ok (t'', rapp rp rp', uid''))))
            l acc = Ok (t', rp, uid') ->
  r_expire rp = false ->
  exists t0 rp0 uid0, acc = Ok (t0, rp0, uid0) /\ r_expire rp0 = false /\ skel t' = skel t0.
Proof.
  induction l as [|o r IH]; intros acc t' rp uid' H Hx.
  - cbn [fold_left] in H. subst acc. exists t', rp, uid'. auto.
  - cbn [fold_left] in H. destruct (IH _ _ _ _ H Hx) as (t1 & rp1 & u1 & Hacc & Hx1 & Hs1).
    destruct acc as [[[t0 rp0] u0]|e]; cbn [rbind] in Hacc; [|discriminate Hacc].
    destruct (apply_op mk_child D build copy_procs vr t0 here o u0) as [[[t2 rp2] u2]|e] eqn:Eo;
      cbn [rbind] in Hacc; [|discriminate Hacc].
    inversion Hacc; subst. cbn [rapp r_expire] in Hx1. apply orb_false_iff in Hx1. destruct Hx1 as [Ha Hb].
    exists t0, rp0, u0. split; [reflexivity|]. split; [exact Ha|].
    rewrite Hs1. apply (apply_op_no_expire_skel _ _ _ _ _ _ _ Eo Hb).
Qed.

(* a whole update (operations in the order the store carries them out) *)
Theorem apply_ops_no_expire_skel t here ops uid t' rp uid' :
  apply_ops mk_child D build copy_procs vr t here ops uid = Ok (t', rp, uid') ->
  r_expire rp = false -> skel t' = skel t.
Proof.
  intros H Hx. unfold apply_ops in H.
  destruct (ops_fold_no_expire_skel here _ _ _ _ _ H Hx) as (t0 & rp0 & u0 & Hacc & _ & Hs).
  inversion Hacc; subst. exact Hs.
Qed.

(* the hypothesis of Proofs/Views_proofs.v, discharged *)
Theorem sapp_reports s u : snd (sapp s u) = false -> srefs (fst (sapp s u)) = srefs s.
Proof.
  unfold sapp, srefs.
  destruct (apply_ops mk_child D build copy_procs vr (fst s) (fst u) (snd u) (snd s)) as [[[t' rp] uid']|e] eqn:E;
    cbn [fst snd]; [|reflexivity].
  intros Hx. apply (apply_ops_no_expire_skel _ _ _ _ _ _ _ E Hx).
Qed.

(* HEADLINE: throughout any run in which processes and steps issue structural updates and value updates against the
   hierarchy of Model/Struct.v, every invocation reads views built from the node structure as it is at that moment *)
Theorem struct_views_always_current passes st st' ev :
  Inv sstate (list (list key * N)) srefs st ->
  run_passes sstate supd (list (list key * N)) srefs sapp vcur passes st = (st', ev) ->
  Inv sstate (list (list key * N)) srefs st' /\ Forall (ev_ok (list (list key * N))) ev.
Proof.
  apply (views_always_current sstate supd (list (list key * N)) srefs sapp sapp_reports).
Qed.

End StructViews.

Print Assumptions struct_views_always_current.
Print Assumptions sapp_reports.
Print Assumptions apply_ops_no_expire_skel.
