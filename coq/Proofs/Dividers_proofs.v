(* Proofs about Model/Dividers.v and the value part of Store.divide (C11). *)
From Coq Require Import List NArith ZArith Bool Lia ZifyBool Sorting.Permutation.
From Viv Require Import Base.Assoc Base.Tree Model.Paths Model.Struct Model.Dividers.
Import ListNotations.
Open Scope Z_scope.
Ltac Zify.zify_post_hook ::= Z.to_euclidean_division_equations.

(* split: the daughters' values sum to the mother's and differ by at most one, for EVERY integer *)
Theorem split_conserves z b : fst (divide_split z b) + snd (divide_split z b) = z.
Proof. unfold divide_split, split_z. destruct b; cbn [fst snd]; lia. Qed.

Theorem split_halves z b : Z.abs (fst (divide_split z b) - snd (divide_split z b)) <= 1.
Proof. unfold divide_split, split_z. destruct b; cbn [fst snd]; lia. Qed.

Theorem split_remainder_side z : fst (divide_split z true) >= snd (divide_split z true)
                                 /\ fst (divide_split z false) <= snd (divide_split z false).
Proof. unfold divide_split, split_z. cbn [fst snd]. lia. Qed.

(* the pinned int(state / 2) is not conservative for negative odd integers *)
Theorem split_refuted_pinned : exists z b, fst (divide_split_pinned z b) + snd (divide_split_pinned z b) <> z.
Proof. exists (-3), true. vm_compute. discriminate. Qed.

(* binomial: the total is conserved whatever the draw *)
Theorem binomial_conserves n c : fst (divide_binomial n c) + snd (divide_binomial n c) = n.
Proof. unfold divide_binomial. cbn [fst snd]. lia. Qed.

Theorem binomial_in_range n c : 0 <= c <= n ->
  0 <= fst (divide_binomial n c) <= n /\ 0 <= snd (divide_binomial n c) <= n.
Proof. unfold divide_binomial. cbn [fst snd]. lia. Qed.

Theorem set_copies v : divide_set v = (v, v).
Proof. reflexivity. Qed.

Theorem zero_zeros v : divide_zero v = (DInt 0, DInt 0).
Proof. reflexivity. Qed.

Theorem set_value_config c v : divide_set_value c v = (c, c).
Proof. reflexivity. Qed.

(* split_dict: a partition of the entries; sizes differ by at most one *)
Theorem split_dict_partitions d :
  Permutation (fst (divide_split_dict d) ++ snd (divide_split_dict d)) d.
Proof.
  unfold divide_split_dict. cbn [fst snd].
  eapply Permutation_trans; [apply Permutation_app_comm|].
  rewrite firstn_skipn. apply Permutation_refl.
Qed.

Theorem split_dict_sizes d :
  (length (fst (divide_split_dict d)) - length (snd (divide_split_dict d)) <= 1)%nat /\
  (length (snd (divide_split_dict d)) <= length (fst (divide_split_dict d)))%nat.
Proof.
  unfold divide_split_dict. cbn [fst snd].
  rewrite skipn_length, firstn_length.
  pose proof (Nat.div_mod (length d) 2 ltac:(discriminate)) as H.
  pose proof (Nat.mod_upper_bound (length d) 2 ltac:(discriminate)) as H2.
  lia.
Qed.

Lemma nodup_app_disjoint {A} (l1 l2 : list A) : NoDup (l1 ++ l2) -> forall x, In x l1 -> ~ In x l2.
Proof.
  induction l1 as [|a l1 IH]; cbn; intros Hnd x Hx; [contradiction|].
  inversion Hnd as [|? ? Hnin Hnd1]; subst. destruct Hx as [->|Hx].
  - intros Hin. apply Hnin. apply in_or_app. now right.
  - now apply IH.
Qed.

Theorem split_dict_disjoint d : NoDup (akeys d) ->
  forall k, In k (akeys (fst (divide_split_dict d))) -> ~ In k (akeys (snd (divide_split_dict d))).
Proof.
  unfold divide_split_dict, akeys. cbn [fst snd]. intros Hnd k H1 H2.
  rewrite <- (firstn_skipn (Nat.div (length d) 2) d) in Hnd.
  rewrite map_app in Hnd.
  exact (nodup_app_disjoint _ _ Hnd k H2 H1).
Qed.

(* ---- the recursion over a compartment: Store.divide_value ---- *)
(* a variable with the split divider is halved, with the set divider copied, with zero zeroed; process nodes
   are skipped *)
Theorem divide_value_split u v ch : divide_value (CVar u v DSplit) ch =
  (Some (Lf (fst (split_z v (match ch with x :: _ => x | [] => true end))),
         Lf (snd (split_z v (match ch with x :: _ => x | [] => true end)))), tl ch).
Proof. cbn. destruct (split_z v _). reflexivity. Qed.

Theorem divide_value_set u v ch : divide_value (CVar u v DSet) ch = (Some (Lf v, Lf v), ch).
Proof. reflexivity. Qed.

Theorem divide_value_zero u v ch : divide_value (CVar u v DZero) ch = (Some (Lf 0, Lf 0), ch).
Proof. reflexivity. Qed.

Theorem divide_value_process u pi ch : divide_value (CProc u pi) ch = (None, ch).
Proof. reflexivity. Qed.

(* an explicit daughter initial state overrides the divided share: top-level key of the explicit state *)
Theorem daughter_explicit_wins (c e : list (key * tree Z)) k z :
  alookup k e = Some (Lf z) -> NoDup (akeys e) ->
  get_in (deep_merge (Nd c) (Nd e)) [k] = Ok (Some (Lf z)).
Proof.
  intros Hk Hnd. cbn [deep_merge get_in].
  set (go := fix go (mc dc : list (key * tree Z)) : list (key * tree Z) :=
               match mc with
               | [] => dc
               | (k0, v) :: r =>
                 go r (match alookup k0 dc, v with
                       | Some (Nd dk), Nd _ => aset k0 (deep_merge (Nd dk) v) dc
                       | _, _ => aset k0 v dc
                       end)
               end).
  assert (H : forall e dc, NoDup (akeys e) ->
                (alookup k e = Some (Lf z) -> alookup k (go e dc) = Some (Lf z)) /\
                (alookup k e = None -> alookup k (go e dc) = alookup k dc)).
  { clear. induction e as [|[k0 v] r IH]; intros dc Hnd; cbn.
    - split; [discriminate|reflexivity].
    - inversion Hnd as [|? ? Hnin Hnd']; subst.
      destruct (N.eqb k0 k) eqn:E.
      + apply N.eqb_eq in E. subst k0. split; [|discriminate]. intros [= ->].
        destruct (IH (match alookup k dc with
                      | Some (Nd dk) => aset k (Lf z) dc | _ => aset k (Lf z) dc end) Hnd') as [_ H2].
        assert (Hr : alookup k r = None) by (now apply alookup_None_notin).
        destruct (alookup k dc) as [[a|dk]|]; rewrite (H2 Hr); apply alookup_aset_eq.
      + apply N.eqb_neq in E. destruct (IH (match alookup k0 dc, v with
                                            | Some (Nd dk), Nd _ => aset k0 (deep_merge (Nd dk) v) dc
                                            | _, _ => aset k0 v dc end) Hnd') as [H1 H2].
        assert (Hs : alookup k (match alookup k0 dc, v with
                                | Some (Nd dk), Nd _ => aset k0 (deep_merge (Nd dk) v) dc
                                | _, _ => aset k0 v dc end) = alookup k dc).
        { destruct (alookup k0 dc) as [[a|dk]|]; destruct v; apply alookup_aset_neq; exact E. }
        split; intros Hx; [now apply H1|]. rewrite (H2 Hx). exact Hs. }
  destruct (H e c Hnd) as [H1 _]. fold go. rewrite (H1 Hk). reflexivity.
Qed.

Print Assumptions split_conserves.
Print Assumptions split_halves.
Print Assumptions split_remainder_side.
Print Assumptions split_refuted_pinned.
Print Assumptions binomial_conserves.
Print Assumptions binomial_in_range.
Print Assumptions split_dict_partitions.
Print Assumptions split_dict_sizes.
Print Assumptions split_dict_disjoint.
Print Assumptions divide_value_split.
Print Assumptions daughter_explicit_wins.
