(* Proofs about Model/Paths.v (C17 path algebra; also used by the wiring family). *)
From Coq Require Import List NArith ZArith Bool Lia.
From Viv Require Import Base.Assoc Base.Tree Model.Paths.
Import ListNotations.

(* q and p "diverge": they differ at some index (neither is a prefix of the other) *)
Definition diverge (p q : list key) : Prop :=
  exists c x y p' q', p = c ++ x :: p' /\ q = c ++ y :: q' /\ x <> y.

(* no empty inner dict anywhere (paths_to_dict cannot rebuild those) *)
Inductive no_empty {A} : tree A -> Prop :=
| ne_Lf a : no_empty (Lf a)
| ne_Nd c : c <> [] -> Forall (fun kv => no_empty (snd kv)) c -> no_empty (Nd c).

Inductive uwf : utree -> Prop :=
| uwf_nd u c : NoDup (akeys c) -> NoDup (map (fun kv => uuid (snd kv)) c) ->
               Forall (fun kv => uwf (snd kv)) c -> uwf (UNd u c).

(* STATEMENTS TO PROVE (see bottom of file) *)

(* ================= Part 1: lexical normalisation ================= *)

Lemma norm_go_app s p q : norm_go s (p ++ q) = norm_go (norm_go s p) q.
Proof.
  revert s. induction p as [|x p IH]; intros s; cbn; auto.
  destruct x as [|k]; [destruct s as [|y s']|]; apply IH.
Qed.

Lemma norm_go_dn s p : norm_go s (dn p) = rev (dn p) ++ s.
Proof.
  revert s. induction p as [|k p IH]; intros s; cbn; auto.
  rewrite IH. now rewrite <- app_assoc.
Qed.

Theorem normalize_dn p : normalize (dn p) = dn p.
Proof.
  unfold normalize. rewrite norm_go_dn, app_nil_r. apply rev_involutive.
Qed.

(* shape of a normalisation stack: Dn's on top of at most one Up *)
Fixpoint sgood (s : list seg) : bool :=
  match s with
  | [] => true
  | Dn _ :: s' => sgood s'
  | Up :: s' => match s' with [] => true | _ => false end
  end.

Lemma norm_go_sgood p : forall s, sgood s = true -> sgood (norm_go s p) = true.
Proof.
  induction p as [|x p IH]; intros s Hs; cbn; auto.
  destruct x as [|k].
  - destruct s as [|y s']; apply IH; auto.
    destruct y as [|k']; cbn in Hs; auto. destruct s'; [reflexivity|discriminate].
  - apply IH. exact Hs.
Qed.

Lemma sgood_replay s : sgood s = true -> norm_go [] (rev s) = s.
Proof.
  induction s as [|x s IH]; intros Hs; cbn; auto.
  rewrite norm_go_app. destruct x as [|k]; cbn in Hs.
  - destruct s; [reflexivity|discriminate].
  - rewrite IH by exact Hs. reflexivity.
Qed.

Theorem normalize_idem p : normalize (normalize p) = normalize p.
Proof.
  unfold normalize. rewrite sgood_replay; auto.
  apply norm_go_sgood. reflexivity.
Qed.

Lemma normalize_dn_app a r : normalize (dn a ++ r) = rev (norm_go (rev (dn a)) r).
Proof.
  unfold normalize. rewrite norm_go_app, norm_go_dn, app_nil_r. reflexivity.
Qed.

Lemma dn_app a b : dn (a ++ b) = dn a ++ dn b.
Proof. apply map_app. Qed.

Lemma rev_dn_snoc a k : rev (dn (a ++ [k])) = Dn k :: rev (dn a).
Proof. rewrite dn_app, rev_app_distr. reflexivity. Qed.

Lemma removelast_snoc {X} (a : list X) : a <> [] -> exists x, a = removelast a ++ [x].
Proof.
  intros Hne. destruct a as [|x0 a0]; [congruence|].
  exists (last (x0 :: a0) x0). apply app_removelast_last. discriminate.
Qed.

(* ================= Part 2: get_in / node_at basics ================= *)

Section Nav.
Context {A : Type}.
Notation tree := (tree A).

Definition adefault (h : key) (c : list (key * tree)) : tree :=
  match alookup h c with Some s => s | None => Nd [] end.

Lemma get_in_app (t : tree) p q :
  get_in t (p ++ q) = match get_in t p with
                      | Ok (Some s) => get_in s q
                      | Ok None => match q with [] => Ok None | _ => Ok None end
                      | Err e => Err e
                      end.
Proof.
  revert t. induction p as [|h p IH]; intros t; cbn.
  - reflexivity.
  - destruct t as [a|c]; auto. destruct (alookup h c) as [s|]; auto.
    destruct q; reflexivity.
Qed.

Lemma node_at_prefix (t : tree) p q : node_at t (p ++ q) <> None -> node_at t p <> None.
Proof.
  unfold node_at. rewrite get_in_app.
  destruct (get_in t p) as [[s|]|e]; auto; try discriminate.
  destruct q; auto.
Qed.

Lemma node_at_removelast (t : tree) a : node_at t a <> None -> node_at t (removelast a) <> None.
Proof.
  intros H. destruct a as [|x a'].
  - exact H.
  - destruct (@removelast_snoc _ (x :: a')) as [y Hy]; [discriminate|].
    rewrite Hy in H. eapply node_at_prefix; eauto.
Qed.

Lemma walk_norm (t : tree) r : forall a b, walk t a r = Ok b -> norm_go (rev (dn a)) r = rev (dn b).
Proof.
  induction r as [|x r IH]; intros a b Hw; cbn in Hw.
  - injection Hw as ->. reflexivity.
  - destruct x as [|k].
    + destruct a as [|x0 a0]; [discriminate|].
      destruct (@removelast_snoc _ (x0 :: a0)) as [y Hy]; [discriminate|].
      apply IH in Hw. rewrite Hy at 1. rewrite rev_dn_snoc. cbn. exact Hw.
    + destruct (node_at t (a ++ [k])) as [s|]; [|discriminate].
      apply IH in Hw. cbn. rewrite <- rev_dn_snoc. exact Hw.
Qed.

Theorem walk_is_lexical (t : tree) a r b : walk t a r = Ok b -> normalize (dn a ++ r) = dn b.
Proof.
  intros Hw. rewrite normalize_dn_app, (walk_norm _ _ _ _ Hw). apply rev_involutive.
Qed.

Theorem walk_above_root (t : tree) r : walk t [] (Up :: r) = Err EInvalidPath.
Proof. reflexivity. Qed.

Theorem walk_reaches_node (t : tree) a r b :
  node_at t a <> None -> walk t a r = Ok b -> node_at t b <> None.
Proof.
  revert a. induction r as [|x r IH]; intros a Ha Hw; cbn in Hw.
  - injection Hw as <-. exact Ha.
  - destruct x as [|k].
    + destruct a as [|x0 a0]; [discriminate|].
      eapply IH; [|exact Hw]. apply node_at_removelast. exact Ha.
    + destruct (node_at t (a ++ [k])) as [s|] eqn:E; [|discriminate].
      eapply IH; [|exact Hw]. rewrite E. discriminate.
Qed.

Lemma ups_snoc (n : list key) (x : key) :
  map (fun _ : key => Up) (n ++ [x]) = Up :: map (fun _ : key => Up) n.
Proof. induction n as [|y n IHn]; cbn; auto. now rewrite IHn. Qed.

Lemma walk_ups (t : tree) ra : forall c r, walk t (c ++ ra) (map (fun _ => Up) ra ++ r) = walk t c r.
Proof.
  induction ra as [|x ra IH] using rev_ind; intros c r.
  - cbn. now rewrite app_nil_r.
  - rewrite ups_snoc. rewrite app_assoc. cbn [app walk].
    destruct ((c ++ ra) ++ [x]) as [|z l] eqn:E.
    + destruct (c ++ ra); discriminate.
    + rewrite <- E, removelast_last. apply IH.
Qed.

Lemma walk_dns (t : tree) rb : forall c, node_at t (c ++ rb) <> None -> walk t c (dn rb) = Ok (c ++ rb).
Proof.
  induction rb as [|k rb IH]; intros c Hn; cbn.
  - now rewrite app_nil_r.
  - assert (Hk : node_at t (c ++ [k]) <> None).
    { apply node_at_prefix with (q := rb). rewrite <- app_assoc. exact Hn. }
    destruct (node_at t (c ++ [k])) as [s|]; [|congruence].
    rewrite IH; rewrite <- app_assoc; auto.
Qed.

Lemma strip_common_spec (a : list key) : forall b,
  exists c, a = c ++ fst (strip_common a b) /\ b = c ++ snd (strip_common a b).
Proof.
  induction a as [|x a IH]; intros b; cbn.
  - exists []. auto.
  - destruct b as [|y b]; [exists []; auto|].
    destruct (N.eqb x y) eqn:E.
    + apply N.eqb_eq in E. subst y. destruct (IH b) as [c [H1 H2]].
      exists (x :: c). cbn. split; congruence.
    + exists []. auto.
Qed.

Theorem path_to_reaches (t : tree) a b :
  node_at t a <> None -> node_at t b <> None -> walk t a (path_to a b) = Ok b.
Proof.
  intros Ha Hb. unfold path_to. destruct (strip_common_spec a b) as [c [H1 H2]].
  destruct (strip_common a b) as [ra rb]. cbn in H1, H2.
  subst a b. rewrite walk_ups. apply walk_dns. exact Hb.
Qed.

End Nav.

(* ================= Part 3: path_for ================= *)

Lemma key_for_value_In c : forall h s,
  NoDup (map (fun kv : key * utree => uuid (snd kv)) c) -> In (h, s) c -> key_for_value c (uuid s) = Some h.
Proof.
  induction c as [|[k v] r IH]; intros h s Hnd Hin; cbn in *; [contradiction|].
  inversion Hnd as [|? ? Hnin Hnd']; subst.
  destruct Hin as [Heq|Hin].
  - injection Heq as -> ->. now rewrite N.eqb_refl.
  - destruct (N.eqb (uuid v) (uuid s)) eqn:E.
    + apply N.eqb_eq in E. exfalso. apply Hnin. rewrite E.
      change (uuid s) with ((fun kv : key * utree => uuid (snd kv)) (h, s)). now apply in_map.
    + apply IH; auto.
Qed.

Theorem path_for_reaches t p n : uwf t -> unode_at t p = Some n -> path_for t p = Some p.
Proof.
  revert t. induction p as [|h r IH]; intros t Hwf Hn; cbn in *; auto.
  destruct Hwf as [u c Hk Hu Hall]. cbn in *.
  destruct (alookup h c) as [s|] eqn:E; [|discriminate].
  apply alookup_In in E.
  rewrite (key_for_value_In c h s Hu E).
  rewrite IH; auto.
  rewrite Forall_forall in Hall. apply (Hall (h, s) E).
Qed.
