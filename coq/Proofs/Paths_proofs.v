(* Proofs about Model/Paths.v (C17 path algebra; also used by the wiring family). *)
From Coq Require Import List NArith ZArith Bool Lia.
From Viv Require Import Base.Assoc Base.Tree Model.Paths.
Import ListNotations.

(* q and p "diverge": they differ at some index (neither is a prefix of the other) *)
Definition diverge (p q : list key) : Prop :=
  exists c x y p' q', p = c ++ x :: p' /\ q = c ++ y :: q' /\ x <> y.

(* no empty inner dict anywhere (paths_to_dict cannot rebuild those) *)
Inductive no_empty {A} : tree A -> Prop :=
| ne_Lf a : no_empty (Lf a)
| ne_Nd c : c <> [] -> Forall (fun kv => no_empty (snd kv)) c -> no_empty (Nd c).

Inductive uwf : utree -> Prop :=
| uwf_nd u c : NoDup (akeys c) -> NoDup (map (fun kv => uuid (snd kv)) c) ->
               Forall (fun kv => uwf (snd kv)) c -> uwf (UNd u c).

(* STATEMENTS TO PROVE (see bottom of file) *)

(* ================= Part 1: lexical normalisation ================= *)

Lemma norm_go_app s p q : norm_go s (p ++ q) = norm_go (norm_go s p) q.
Proof.
  revert s. induction p as [|x p IH]; intros s; cbn; auto.
  destruct x as [|k]; [destruct s as [|[|k'] s']|]; apply IH.
Qed.

Lemma norm_go_dn s p : norm_go s (dn p) = rev (dn p) ++ s.
Proof.
  revert s. induction p as [|k p IH]; intros s; cbn; auto.
  rewrite IH. now rewrite <- app_assoc.
Qed.

Theorem normalize_dn p : normalize (dn p) = dn p.
Proof.
  unfold normalize. rewrite norm_go_dn, app_nil_r. apply rev_involutive.
Qed.

(* shape of a normalisation stack: Dn's on top of any number of Ups *)
Fixpoint allup (s : list seg) : bool :=
  match s with
  | [] => true
  | Up :: s' => allup s'
  | Dn _ :: _ => false
  end.

Fixpoint sgood (s : list seg) : bool :=
  match s with
  | [] => true
  | Dn _ :: s' => sgood s'
  | Up :: s' => allup s'
  end.

Lemma allup_sgood s : allup s = true -> sgood s = true.
Proof. destruct s as [|[|k] s']; cbn; auto; discriminate. Qed.

Lemma norm_go_sgood p : forall s, sgood s = true -> sgood (norm_go s p) = true.
Proof.
  induction p as [|x p IH]; intros s Hs; cbn; auto.
  destruct x as [|k].
  - destruct s as [|[|k'] s']; apply IH; auto.
  - apply IH. exact Hs.
Qed.

Lemma sgood_replay s : sgood s = true -> norm_go [] (rev s) = s.
Proof.
  induction s as [|x s IH]; intros Hs; cbn; auto.
  rewrite norm_go_app. destruct x as [|k]; cbn in Hs.
  - rewrite IH by (apply allup_sgood; exact Hs).
    destruct s as [|[|k'] s']; [reflexivity|reflexivity|discriminate].
  - rewrite IH by exact Hs. reflexivity.
Qed.

Theorem normalize_idem p : normalize (normalize p) = normalize p.
Proof.
  unfold normalize. rewrite sgood_replay; auto.
  apply norm_go_sgood. reflexivity.
Qed.

Lemma normalize_dn_app a r : normalize (dn a ++ r) = rev (norm_go (rev (dn a)) r).
Proof.
  unfold normalize. rewrite norm_go_app, norm_go_dn, app_nil_r. reflexivity.
Qed.

Lemma dn_app a b : dn (a ++ b) = dn a ++ dn b.
Proof. apply map_app. Qed.

Lemma rev_dn_snoc a k : rev (dn (a ++ [k])) = Dn k :: rev (dn a).
Proof. rewrite dn_app, rev_app_distr. reflexivity. Qed.

Lemma removelast_snoc {X} (a : list X) : a <> [] -> exists x, a = removelast a ++ [x].
Proof.
  intros Hne. destruct a as [|x0 a0]; [congruence|].
  exists (last (x0 :: a0) x0). apply app_removelast_last. discriminate.
Qed.

(* ================= Part 2: get_in / node_at basics ================= *)

Section Nav.
Context {A : Type}.
Notation tree := (tree A).

Definition adefault (h : key) (c : list (key * tree)) : tree :=
  match alookup h c with Some s => s | None => Nd [] end.

Lemma get_in_app (t : tree) p q :
  get_in t (p ++ q) = match get_in t p with
                      | Ok (Some s) => get_in s q
                      | Ok None => match q with [] => Ok None | _ => Ok None end
                      | Err e => Err e
                      end.
Proof.
  revert t. induction p as [|h p IH]; intros t; cbn.
  - reflexivity.
  - destruct t as [a|c]; auto. destruct (alookup h c) as [s|]; auto.
    destruct q; reflexivity.
Qed.

Lemma node_at_prefix (t : tree) p q : node_at t (p ++ q) <> None -> node_at t p <> None.
Proof.
  unfold node_at. rewrite get_in_app.
  destruct (get_in t p) as [[s|]|e]; auto; try discriminate.
  destruct q; auto.
Qed.

Lemma node_at_removelast (t : tree) a : node_at t a <> None -> node_at t (removelast a) <> None.
Proof.
  intros H. destruct a as [|x a'].
  - exact H.
  - destruct (@removelast_snoc _ (x :: a')) as [y Hy]; [discriminate|].
    rewrite Hy in H. eapply node_at_prefix; eauto.
Qed.

Lemma walk_norm (t : tree) r : forall a b, walk t a r = Ok b -> norm_go (rev (dn a)) r = rev (dn b).
Proof.
  induction r as [|x r IH]; intros a b Hw; cbn in Hw.
  - injection Hw as ->. reflexivity.
  - destruct x as [|k].
    + destruct a as [|x0 a0]; [discriminate|].
      destruct (@removelast_snoc _ (x0 :: a0)) as [y Hy]; [discriminate|].
      apply IH in Hw. rewrite Hy at 1. rewrite rev_dn_snoc. cbn. exact Hw.
    + destruct (node_at t (a ++ [k])) as [s|]; [|discriminate].
      apply IH in Hw. cbn. rewrite <- rev_dn_snoc. exact Hw.
Qed.

Theorem walk_is_lexical (t : tree) a r b : walk t a r = Ok b -> normalize (dn a ++ r) = dn b.
Proof.
  intros Hw. rewrite normalize_dn_app, (walk_norm _ _ _ _ Hw). apply rev_involutive.
Qed.

Theorem walk_above_root (t : tree) r : walk t [] (Up :: r) = Err EInvalidPath.
Proof. reflexivity. Qed.

Theorem walk_reaches_node (t : tree) a r b :
  node_at t a <> None -> walk t a r = Ok b -> node_at t b <> None.
Proof.
  revert a. induction r as [|x r IH]; intros a Ha Hw; cbn in Hw.
  - injection Hw as <-. exact Ha.
  - destruct x as [|k].
    + destruct a as [|x0 a0]; [discriminate|].
      eapply IH; [|exact Hw]. apply node_at_removelast. exact Ha.
    + destruct (node_at t (a ++ [k])) as [s|] eqn:E; [|discriminate].
      eapply IH; [|exact Hw]. rewrite E. discriminate.
Qed.

Lemma ups_snoc (n : list key) (x : key) :
  map (fun _ : key => Up) (n ++ [x]) = Up :: map (fun _ : key => Up) n.
Proof. induction n as [|y n IHn]; cbn; auto. now rewrite IHn. Qed.

Lemma walk_ups (t : tree) ra : forall c r, walk t (c ++ ra) (map (fun _ => Up) ra ++ r) = walk t c r.
Proof.
  induction ra as [|x ra IH] using rev_ind; intros c r.
  - cbn. now rewrite app_nil_r.
  - rewrite ups_snoc. rewrite app_assoc. cbn [app walk].
    destruct ((c ++ ra) ++ [x]) as [|z l] eqn:E.
    + destruct (c ++ ra); discriminate.
    + rewrite <- E, removelast_last. apply IH.
Qed.

Lemma walk_dns (t : tree) rb : forall c, node_at t (c ++ rb) <> None -> walk t c (dn rb) = Ok (c ++ rb).
Proof.
  induction rb as [|k rb IH]; intros c Hn; cbn.
  - now rewrite app_nil_r.
  - assert (Hk : node_at t (c ++ [k]) <> None).
    { apply node_at_prefix with (q := rb). rewrite <- app_assoc. exact Hn. }
    destruct (node_at t (c ++ [k])) as [s|]; [|congruence].
    rewrite IH; rewrite <- app_assoc; auto.
Qed.

Lemma strip_common_spec (a : list key) : forall b,
  exists c, a = c ++ fst (strip_common a b) /\ b = c ++ snd (strip_common a b).
Proof.
  induction a as [|x a IH]; intros b; cbn.
  - exists []. auto.
  - destruct b as [|y b]; [exists []; auto|].
    destruct (N.eqb x y) eqn:E.
    + apply N.eqb_eq in E. subst y. destruct (IH b) as [c [H1 H2]].
      exists (x :: c). cbn. split; congruence.
    + exists []. auto.
Qed.

Theorem path_to_reaches (t : tree) a b :
  node_at t a <> None -> node_at t b <> None -> walk t a (path_to a b) = Ok b.
Proof.
  intros Ha Hb. unfold path_to. destruct (strip_common_spec a b) as [c [H1 H2]].
  destruct (strip_common a b) as [ra rb]. cbn in H1, H2.
  subst a b. rewrite walk_ups. apply walk_dns. exact Hb.
Qed.

End Nav.

(* ================= Part 3: path_for ================= *)

Lemma key_for_value_In c : forall h s,
  NoDup (map (fun kv : key * utree => uuid (snd kv)) c) -> In (h, s) c -> key_for_value c (uuid s) = Some h.
Proof.
  induction c as [|[k v] r IH]; intros h s Hnd Hin; cbn in *; [contradiction|].
  inversion Hnd as [|? ? Hnin Hnd']; subst.
  destruct Hin as [Heq|Hin].
  - injection Heq as -> ->. now rewrite N.eqb_refl.
  - destruct (N.eqb (uuid v) (uuid s)) eqn:E.
    + apply N.eqb_eq in E. exfalso. apply Hnin. rewrite E.
      change (uuid s) with ((fun kv : key * utree => uuid (snd kv)) (h, s)). now apply in_map.
    + apply IH; auto.
Qed.

Theorem path_for_reaches t p n : uwf t -> unode_at t p = Some n -> path_for t p = Some p.
Proof.
  revert t. induction p as [|h r IH]; intros t Hwf Hn; cbn in *; auto.
  destruct Hwf as [u c Hk Hu Hall]. cbn in *.
  destruct (alookup h c) as [s|] eqn:E; [|discriminate].
  apply alookup_In in E.
  rewrite (key_for_value_In c h s Hu E).
  rewrite IH; auto.
  rewrite Forall_forall in Hall. apply (Hall (h, s) E).
Qed.

(* ================= Part 4: assoc_path / delete_in / update_in / assoc_in ================= *)

Section Ops.
Context {A : Type}.
Notation tree := (tree A).

Lemma assoc_path_single (c : list (key * tree)) h v : assoc_path (Nd c) [h] v = Ok (Nd (aset h v c)).
Proof. reflexivity. Qed.

Lemma assoc_path_cons (c : list (key * tree)) h r v : r <> [] ->
  assoc_path (Nd c) (h :: r) v = rbind (assoc_path (adefault h c) r v) (fun s' => Ok (Nd (aset h s' c))).
Proof. destruct r; [congruence|reflexivity]. Qed.

Lemma assoc_path_Lf (a : A) p v : p <> [] -> assoc_path (Lf a) p v = Err ETypeThroughLeaf.
Proof. destruct p as [|h [|h' r]]; [congruence|reflexivity|reflexivity]. Qed.

Lemma delete_in_cons (c : list (key * tree)) h r : r <> [] ->
  delete_in (Nd c) (h :: r) =
  match alookup h c with
  | Some s => rbind (delete_in s r) (fun s' => Ok (Nd (aset h s' c)))
  | None => Ok (Nd c)
  end.
Proof. destruct r; [congruence|reflexivity]. Qed.

Lemma delete_in_Lf (a : A) p : p <> [] -> delete_in (Lf a) p = Err ETypeThroughLeaf.
Proof. destruct p as [|h [|h' r]]; [congruence|reflexivity|reflexivity]. Qed.

Lemma get_in_nil_dict (p : list key) : p <> [] -> get_in (@Nd A []) p = Ok None.
Proof. destruct p; [congruence|reflexivity]. Qed.

Lemma get_in_adefault (c : list (key * tree)) h r : r <> [] ->
  get_in (Nd c) (h :: r) = get_in (adefault h c) r.
Proof.
  intros Hr. cbn. unfold adefault. destruct (alookup h c) as [s|]; auto.
  now rewrite get_in_nil_dict.
Qed.

Lemma app_cons_not_nil' {X} (c : list X) x p : c ++ x :: p <> [].
Proof. destruct c; discriminate. Qed.

Lemma aset_same (c : list (key * tree)) h s : alookup h c = Some s -> aset h s c = c.
Proof.
  induction c as [|[k v] r IH]; cbn; [discriminate|].
  destruct (N.eqb k h) eqn:E.
  - intros [= ->]. reflexivity.
  - intros H. f_equal. auto.
Qed.

Theorem get_assoc (d d' : tree) p v : p <> [] -> assoc_path d p v = Ok d' -> get_in d' p = Ok (Some v).
Proof.
  revert d d'. induction p as [|h r IH]; intros d d' Hne Ha; [congruence|].
  destruct d as [a|c]; [rewrite assoc_path_Lf in Ha by exact Hne; discriminate|].
  destruct r as [|h2 r].
  - rewrite assoc_path_single in Ha. injection Ha as <-. cbn. now rewrite alookup_aset_eq.
  - rewrite assoc_path_cons in Ha by discriminate.
    destruct (assoc_path (adefault h c) (h2 :: r) v) as [s'|e] eqn:E; [|discriminate].
    cbn [rbind] in Ha. injection Ha as <-.
    change (get_in (Nd (aset h s' c)) (h :: h2 :: r))
      with (match alookup h (aset h s' c) with Some s => get_in s (h2 :: r) | None => Ok None end).
    rewrite alookup_aset_eq. eapply IH; [discriminate|exact E].
Qed.

(* generic frame step: replacing the value under h leaves y <> h alone *)
Lemma get_in_aset_neq (c : list (key * tree)) h s y q : h <> y ->
  get_in (Nd (aset h s c)) (y :: q) = get_in (Nd c) (y :: q).
Proof. intros Hne. cbn. now rewrite alookup_aset_neq. Qed.

Lemma get_in_aset_eq (c : list (key * tree)) h s q :
  get_in (Nd (aset h s c)) (h :: q) = get_in s q.
Proof. cbn. now rewrite alookup_aset_eq. Qed.

Theorem assoc_frame (d d' : tree) p q v :
  assoc_path d p v = Ok d' -> diverge p q -> get_in d' q = get_in d q.
Proof.
  intros Ha (c & x & y & p' & q' & -> & -> & Hxy).
  revert d d' Ha. induction c as [|h c IH]; intros d d' Ha.
  - cbn [app] in *. destruct d as [a|c0]; [rewrite assoc_path_Lf in Ha by discriminate; discriminate|].
    destruct p' as [|h2 r].
    + rewrite assoc_path_single in Ha. injection Ha as <-. now apply get_in_aset_neq.
    + rewrite assoc_path_cons in Ha by discriminate.
      destruct (assoc_path (adefault x c0) (h2 :: r) v) as [s'|e]; [|discriminate].
      injection Ha as <-. now apply get_in_aset_neq.
  - cbn [app] in *. destruct d as [a|c0]; [rewrite assoc_path_Lf in Ha by discriminate; discriminate|].
    rewrite assoc_path_cons in Ha by apply app_cons_not_nil'.
    destruct (assoc_path (adefault h c0) (c ++ x :: p') v) as [s'|e] eqn:E; [|discriminate].
    injection Ha as <-. rewrite get_in_aset_eq, get_in_adefault by apply app_cons_not_nil'.
    eapply IH. exact E.
Qed.

Theorem delete_removes (d d' : tree) p : wf d -> p <> [] -> delete_in d p = Ok d' -> get_in d' p = Ok None.
Proof.
  revert d d'. induction p as [|h r IH]; intros d d' Hwf Hne Hd; [congruence|].
  destruct d as [a|c]; [rewrite delete_in_Lf in Hd by exact Hne; discriminate|].
  inversion Hwf as [|c' Hnd Hall]; subst.
  destruct r as [|h2 r].
  - cbn in Hd. injection Hd as <-. cbn. now rewrite alookup_aremove_eq.
  - rewrite delete_in_cons in Hd by discriminate.
    destruct (alookup h c) as [s|] eqn:El.
    + destruct (delete_in s (h2 :: r)) as [s'|e] eqn:E; [|discriminate].
      injection Hd as <-. rewrite get_in_aset_eq. eapply IH; [|discriminate|exact E].
      rewrite Forall_forall in Hall. apply (Hall (h, s)). now apply alookup_In.
    + injection Hd as <-.
      change (get_in (Nd c) (h :: h2 :: r))
        with (match alookup h c with Some s => get_in s (h2 :: r) | None => Ok None end).
      now rewrite El.
Qed.

Lemma get_in_aremove_neq (c : list (key * tree)) h y q : h <> y ->
  get_in (Nd (aremove h c)) (y :: q) = get_in (Nd c) (y :: q).
Proof. intros Hne. cbn. now rewrite alookup_aremove_neq. Qed.

Theorem delete_frame (d d' : tree) p q :
  delete_in d p = Ok d' -> diverge p q -> get_in d' q = get_in d q.
Proof.
  intros Hd (c & x & y & p' & q' & -> & -> & Hxy).
  revert d d' Hd. induction c as [|h c IH]; intros d d' Hd.
  - cbn [app] in *. destruct d as [a|c0]; [rewrite delete_in_Lf in Hd by discriminate; discriminate|].
    destruct p' as [|h2 r].
    + cbn in Hd. injection Hd as <-. now apply get_in_aremove_neq.
    + rewrite delete_in_cons in Hd by discriminate.
      destruct (alookup x c0) as [s|]; [|now injection Hd as <-].
      destruct (delete_in s (h2 :: r)) as [s'|e]; [|discriminate].
      injection Hd as <-. now apply get_in_aset_neq.
  - cbn [app] in *. destruct d as [a|c0]; [rewrite delete_in_Lf in Hd by discriminate; discriminate|].
    rewrite delete_in_cons in Hd by apply app_cons_not_nil'.
    destruct (alookup h c0) as [s|] eqn:El; [|now injection Hd as <-].
    destruct (delete_in s (c ++ x :: p')) as [s'|e] eqn:E; [|discriminate].
    injection Hd as <-. rewrite get_in_aset_eq. cbn [get_in]. rewrite El.
    eapply IH. exact E.
Qed.

Theorem delete_missing_noop (d : tree) p : get_in d p = Ok None -> delete_in d p = Ok d.
Proof.
  revert d. induction p as [|h r IH]; intros d Hg; [discriminate|].
  destruct d as [a|c]; [discriminate|]. cbn in Hg.
  destruct r as [|h2 r].
  - cbn. destruct (alookup h c) as [s|] eqn:El; [discriminate|]. now rewrite aremove_notin.
  - rewrite delete_in_cons by discriminate.
    destruct (alookup h c) as [s|] eqn:El; auto.
    rewrite (IH s Hg). cbn. now rewrite aset_same.
Qed.

Lemma update_in_cons (c : list (key * tree)) h r f :
  update_in (Nd c) (h :: r) f = rbind (update_in (adefault h c) r f) (fun s' => Ok (Nd (aset h s' c))).
Proof. reflexivity. Qed.

Lemma assoc_in_cons (c : list (key * tree)) h r v :
  assoc_in (Nd c) (h :: r) v = rbind (assoc_in (adefault h c) r v) (fun s' => Ok (Nd (aset h s' c))).
Proof. reflexivity. Qed.

Definition got (r : res (option tree)) : tree :=
  match r with Ok (Some s) => s | _ => Nd [] end.

Lemma got_adefault (c : list (key * tree)) h r :
  got (get_in (Nd c) (h :: r)) = got (get_in (adefault h c) r).
Proof.
  cbn. unfold adefault. destruct (alookup h c) as [s|]; auto.
  destruct r; reflexivity.
Qed.

Theorem update_in_get (d d' : tree) p f : update_in d p f = Ok d' ->
  get_in d' p = Ok (Some (f (match get_in d p with Ok (Some s) => s | _ => Nd [] end))).
Proof.
  change (update_in d p f = Ok d' -> get_in d' p = Ok (Some (f (got (get_in d p))))).
  revert d d'. induction p as [|h r IH]; intros d d' Hu.
  - cbn in *. now injection Hu as <-.
  - destruct d as [a|c]; [discriminate|]. rewrite update_in_cons in Hu.
    destruct (update_in (adefault h c) r f) as [s'|e] eqn:E; [|discriminate].
    injection Hu as <-. rewrite get_in_aset_eq, got_adefault. now apply IH.
Qed.

Lemma get_in_adefault' (c : list (key * tree)) h r : r <> [] ->
  get_in (adefault h c) r = get_in (Nd c) (h :: r).
Proof. intros Hr. symmetry. now apply get_in_adefault. Qed.

Theorem update_in_frame (d d' : tree) p q f :
  update_in d p f = Ok d' -> diverge p q -> get_in d' q = get_in d q.
Proof.
  intros Hu (c & x & y & p' & q' & -> & -> & Hxy).
  revert d d' Hu. induction c as [|h c IH]; intros d d' Hu; cbn [app] in *;
    (destruct d as [a|c0]; [discriminate|]); rewrite update_in_cons in Hu.
  - destruct (update_in (adefault x c0) p' f) as [s'|e]; [|discriminate].
    injection Hu as <-. now apply get_in_aset_neq.
  - destruct (update_in (adefault h c0) (c ++ x :: p') f) as [s'|e] eqn:E; [|discriminate].
    injection Hu as <-. rewrite get_in_aset_eq, get_in_adefault by apply app_cons_not_nil'.
    eapply IH. exact E.
Qed.

Theorem assoc_in_get (d d' : tree) p v : assoc_in d p v = Ok d' -> get_in d' p = Ok (Some v).
Proof.
  revert d d'. induction p as [|h r IH]; intros d d' Ha.
  - cbn in *. now injection Ha as <-.
  - destruct d as [a|c]; [discriminate|]. rewrite assoc_in_cons in Ha.
    destruct (assoc_in (adefault h c) r v) as [s'|e] eqn:E; [|discriminate].
    injection Ha as <-. rewrite get_in_aset_eq. eapply IH. exact E.
Qed.

Theorem assoc_in_frame (d d' : tree) p q v :
  assoc_in d p v = Ok d' -> diverge p q -> get_in d' q = get_in d q.
Proof.
  intros Ha (c & x & y & p' & q' & -> & -> & Hxy).
  revert d d' Ha. induction c as [|h c IH]; intros d d' Ha; cbn [app] in *;
    (destruct d as [a|c0]; [discriminate|]); rewrite assoc_in_cons in Ha.
  - destruct (assoc_in (adefault x c0) p' v) as [s'|e]; [|discriminate].
    injection Ha as <-. now apply get_in_aset_neq.
  - destruct (assoc_in (adefault h c0) (c ++ x :: p') v) as [s'|e] eqn:E; [|discriminate].
    injection Ha as <-. rewrite get_in_aset_eq, get_in_adefault by apply app_cons_not_nil'.
    eapply IH. exact E.
Qed.

End Ops.

(* ================= Part 5: dict_to_paths / establish ================= *)

Section Paths.
Context {A : Type}.
Notation tree := (tree A).

Lemma dtp_Nd_nil (root : list key) : dict_to_paths root (@Nd A []) = [].
Proof. reflexivity. Qed.

Lemma dtp_Nd_cons (root : list key) k (v : tree) r :
  dict_to_paths root (Nd ((k, v) :: r)) = dict_to_paths (root ++ [k]) v ++ dict_to_paths root (Nd r).
Proof. reflexivity. Qed.

Lemma In_dtp_Nd (root : list key) (c : list (key * tree)) pa :
  In pa (dict_to_paths root (Nd c)) <->
  exists k v, In (k, v) c /\ In pa (dict_to_paths (root ++ [k]) v).
Proof.
  induction c as [|[k v] r IH].
  - rewrite dtp_Nd_nil. split; [intros []|intros (k & v & [] & _)].
  - rewrite dtp_Nd_cons, in_app_iff, IH. split.
    + intros [H|(k' & v' & Hin & H)].
      * exists k, v. split; [now left|exact H].
      * exists k', v'. split; [now right|exact H].
    + intros (k' & v' & [Heq|Hin] & H).
      * injection Heq as <- <-. now left.
      * right. exists k', v'. auto.
Qed.

Lemma dtp_prefix (d : tree) : forall root pa, In pa (dict_to_paths root d) -> exists p, fst pa = root ++ p.
Proof.
  induction d as [b|c IHc] using tree_ind'; intros root pa Hin.
  - cbn in Hin. destruct Hin as [<-|[]]. exists []. cbn. now rewrite app_nil_r.
  - apply In_dtp_Nd in Hin as (k & v & Hkv & Hin).
    rewrite Forall_forall in IHc. destruct (IHc (k, v) Hkv _ _ Hin) as [p' Hp'].
    exists (k :: p'). rewrite Hp', <- app_assoc. reflexivity.
Qed.

Lemma dict_to_paths_get_aux (d : tree) : wf d -> forall root p a,
  In (root ++ p, a) (dict_to_paths root d) <-> get_in d p = Ok (Some (Lf a)).
Proof.
  induction d as [b|c IHc] using tree_ind'; intros Hwf root p a.
  - cbn [dict_to_paths In]. split.
    + intros [Heq|[]]. injection Heq as Hr ->.
      rewrite <- (app_nil_r root) in Hr at 1. apply app_inv_head in Hr. subst p. reflexivity.
    + destruct p as [|h r]; cbn; [|discriminate]. intros [= ->]. left. now rewrite app_nil_r.
  - inversion Hwf as [|c' Hnd Hall]; subst. rewrite Forall_forall in IHc, Hall.
    rewrite In_dtp_Nd. split.
    + intros (k & v & Hkv & Hin).
      destruct (dtp_prefix _ _ _ Hin) as [p' Hp']. cbn [fst] in Hp'.
      rewrite <- app_assoc in Hp'. apply app_inv_head in Hp'. subst p.
      cbn [app get_in]. rewrite (In_alookup k v c Hnd Hkv).
      apply (IHc (k, v) Hkv (Hall (k, v) Hkv) (root ++ [k])).
      rewrite <- app_assoc. exact Hin.
    + destruct p as [|k p']; [discriminate|]. cbn [get_in].
      destruct (alookup k c) as [v|] eqn:El; [|discriminate].
      apply alookup_In in El. intros Hg. exists k, v. split; auto.
      apply (IHc (k, v) El (Hall (k, v) El) (root ++ [k])) in Hg.
      rewrite <- app_assoc in Hg. exact Hg.
Qed.

Theorem dict_to_paths_get (d : tree) root p a : wf d ->
  (In (root ++ p, a) (dict_to_paths root d) <-> get_in d p = Ok (Some (Lf a))).
Proof. intros Hwf. now apply dict_to_paths_get_aux. Qed.

(* ---------- establish ---------- *)

Lemma assoc_path_ok_get (p : list key) : forall (t t1 v : tree),
  p <> [] -> assoc_path t p v = Ok t1 -> exists o, get_in t p = Ok o.
Proof.
  induction p as [|h r IH]; intros t t1 v Hne Ha; [congruence|].
  destruct t as [a|c]; [rewrite assoc_path_Lf in Ha by exact Hne; discriminate|].
  destruct r as [|h2 r].
  - cbn. destruct (alookup h c); eauto.
  - rewrite assoc_path_cons in Ha by discriminate.
    destruct (assoc_path (adefault h c) (h2 :: r) v) as [s'|e] eqn:E; [|discriminate].
    rewrite get_in_adefault by discriminate. eapply IH; [discriminate|exact E].
Qed.

(* inserting an empty dict at a missing path keeps every existing node, and every leaf as is *)
Lemma assoc_missing_keeps (p : list key) : forall (t t1 : tree) q s,
  p <> [] -> assoc_path t p (Nd []) = Ok t1 -> get_in t p = Ok None ->
  get_in t q = Ok (Some s) ->
  exists s1, get_in t1 q = Ok (Some s1) /\ (forall x, s = Lf x -> s1 = Lf x).
Proof.
  induction p as [|h r IH]; intros t t1 q s Hne Ha Hm Hq; [congruence|].
  destruct t as [a|c]; [rewrite assoc_path_Lf in Ha by exact Hne; discriminate|].
  destruct q as [|k q'].
  { cbn in Hq. injection Hq as <-. exists t1. split; [reflexivity|discriminate]. }
  cbn [get_in] in Hq. destruct (alookup k c) as [sk|] eqn:Ek; [|discriminate].
  destruct r as [|h2 r].
  - rewrite assoc_path_single in Ha. injection Ha as <-.
    cbn in Hm. destruct (alookup h c) as [sh|] eqn:Eh; [discriminate|].
    assert (Hhk : h <> k) by (intros ->; congruence).
    exists s. split; [|auto]. rewrite get_in_aset_neq by exact Hhk. cbn [get_in]. now rewrite Ek.
  - rewrite assoc_path_cons in Ha by discriminate.
    destruct (assoc_path (adefault h c) (h2 :: r) (Nd [])) as [s'|e] eqn:E; [|discriminate].
    injection Ha as <-.
    destruct (N.eq_dec h k) as [->|Hhk].
    + rewrite get_in_aset_eq.
      rewrite get_in_adefault in Hm by discriminate.
      unfold adefault in E, Hm. rewrite Ek in E, Hm.
      eapply IH; [discriminate|exact E|exact Hm|exact Hq].
    + exists s. split; [|auto]. rewrite get_in_aset_neq by exact Hhk. cbn [get_in]. now rewrite Ek.
Qed.

Lemma establish_step_missing (t t1 : tree) p :
  p <> [] -> node_at t p = None -> assoc_path t p (Nd []) = Ok t1 -> get_in t p = Ok None.
Proof.
  intros Hne Hn Ha. destruct (assoc_path_ok_get p t t1 _ Hne Ha) as [o Ho].
  unfold node_at in Hn. rewrite Ho in Hn. destruct o; [discriminate|exact Ho].
Qed.

Lemma snoc_not_nil (a : list key) k : a ++ [k] <> [].
Proof. destruct a; discriminate. Qed.

Theorem establish_reaches (t t' : tree) a r b : node_at t a <> None -> establish t a r = Ok (t', b) ->
  node_at t' b <> None /\ normalize (dn a ++ r) = dn b.
Proof.
  intros Ha He.
  assert (H : node_at t' b <> None /\ norm_go (rev (dn a)) r = rev (dn b)).
  { revert t a Ha He. induction r as [|x r IH]; intros t a Ha He; cbn in He.
    - injection He as <- <-. auto.
    - destruct x as [|k].
      + destruct a as [|x0 a0]; [discriminate|].
        destruct (@removelast_snoc _ (x0 :: a0)) as [y Hy]; [discriminate|].
        apply IH in He; [|now apply node_at_removelast].
        destruct He as [H1 H2]. split; auto.
        rewrite Hy at 1. rewrite rev_dn_snoc. cbn. exact H2.
      + cbn [norm_go]. rewrite <- rev_dn_snoc.
        destruct (node_at t (a ++ [k])) as [s|] eqn:E.
        * apply IH in He; auto. rewrite E. discriminate.
        * destruct (assoc_path t (a ++ [k]) (Nd [])) as [t1|e] eqn:Ea; [|discriminate].
          apply IH in He; auto.
          unfold node_at. rewrite (get_assoc _ _ _ _ (snoc_not_nil a k) Ea). discriminate. }
  destruct H as [H1 H2]. split; auto.
  rewrite normalize_dn_app, H2. apply rev_involutive.
Qed.

Lemma node_at_Some (t : tree) q s : node_at t q = Some s <-> get_in t q = Ok (Some s).
Proof.
  unfold node_at. destruct (get_in t q) as [[s0|]|e]; split; intros H; try discriminate; congruence.
Qed.

Theorem establish_keeps_leaves (t t' : tree) a r b q x : establish t a r = Ok (t', b) ->
  node_at t q = Some (Lf x) -> node_at t' q = Some (Lf x).
Proof.
  revert t a. induction r as [|y r IH]; intros t a He Hq; cbn in He.
  - injection He as <- <-. exact Hq.
  - destruct y as [|k].
    + destruct a as [|x0 a0]; [discriminate|]. eapply IH; eauto.
    + destruct (node_at t (a ++ [k])) as [s|] eqn:E.
      * eapply IH; eauto.
      * destruct (assoc_path t (a ++ [k]) (Nd [])) as [t1|e] eqn:Ea; [|discriminate].
        eapply IH; [exact He|].
        apply node_at_Some in Hq.
        destruct (assoc_missing_keeps _ _ _ _ _ (snoc_not_nil a k) Ea
                    (establish_step_missing _ _ _ (snoc_not_nil a k) E Ea) Hq) as (s1 & Hs1 & Hlf).
        apply node_at_Some. rewrite Hs1, (Hlf x eq_refl). reflexivity.
Qed.

Theorem establish_keeps_nodes (t t' : tree) a r b q s : establish t a r = Ok (t', b) ->
  node_at t q = Some s -> node_at t' q <> None.
Proof.
  intros He Hq. assert (Hq' : node_at t q <> None) by (rewrite Hq; discriminate).
  clear Hq. revert t a He Hq'. induction r as [|y r IH]; intros t a He Hq; cbn in He.
  - injection He as <- <-. exact Hq.
  - destruct y as [|k].
    + destruct a as [|x0 a0]; [discriminate|]. eapply IH; eauto.
    + destruct (node_at t (a ++ [k])) as [s0|] eqn:E.
      * eapply IH; eauto.
      * destruct (assoc_path t (a ++ [k]) (Nd [])) as [t1|e] eqn:Ea; [|discriminate].
        eapply IH; [exact He|].
        destruct (node_at t q) as [sq|] eqn:Eq; [|congruence].
        apply node_at_Some in Eq.
        destruct (assoc_missing_keeps _ _ _ _ _ (snoc_not_nil a k) Ea
                    (establish_step_missing _ _ _ (snoc_not_nil a k) E Ea) Eq) as (s1 & Hs1 & _).
        unfold node_at. rewrite Hs1. discriminate.
Qed.

End Paths.

(* ================= Part 6: paths_to_dict (dict_to_paths d) = d, ordered ================= *)

Section Inverse.
Context {A : Type}.
Notation tree := (tree A).

Definition pfold (acc : res tree) (pl : list (list key * tree)) : res tree :=
  fold_left (fun acc pv => rbind acc (fun d => assoc_path d (fst pv) (snd pv))) pl acc.

Definition lpaths (root : list key) (v : tree) : list (list key * tree) :=
  map (fun pa => (fst pa, Lf (snd pa))) (dict_to_paths root v).

Lemma pfold_cons acc pv pl :
  pfold acc (pv :: pl) = pfold (rbind acc (fun d => assoc_path d (fst pv) (snd pv))) pl.
Proof. reflexivity. Qed.

Lemma pfold_app acc l1 l2 : pfold acc (l1 ++ l2) = pfold (pfold acc l1) l2.
Proof. apply fold_left_app. Qed.

Lemma pfold_err e pl : pfold (Err e) pl = Err e.
Proof. induction pl as [|pv pl IH]; [reflexivity|]. rewrite pfold_cons. exact IH. Qed.

Lemma aset_absent {V} k (v : V) l : alookup k l = None -> aset k v l = l ++ [(k, v)].
Proof.
  induction l as [|[k0 v0] r IH]; cbn; auto.
  destruct (N.eqb k0 k); [discriminate|]. intros H. f_equal. auto.
Qed.

Lemma aset_aset {V} k (s s' : V) l : aset k s (aset k s' l) = aset k s l.
Proof.
  induction l as [|[k0 v0] r IH]; cbn.
  - now rewrite N.eqb_refl.
  - destruct (N.eqb k0 k) eqn:E; cbn; rewrite E; [reflexivity|]. f_equal. exact IH.
Qed.

Lemma alookup_app_none {V} k (l m : alist V) : alookup k l = None -> alookup k (l ++ m) = alookup k m.
Proof.
  induction l as [|[k0 v0] r IH]; cbn; auto.
  destruct (N.eqb k0 k); [discriminate|]. exact IH.
Qed.

Lemma dtp_cons (d : tree) : forall k root,
  dict_to_paths (k :: root) d = map (fun pa => (k :: fst pa, snd pa)) (dict_to_paths root d).
Proof.
  induction d as [b|c IHc] using tree_ind'; intros k root.
  - reflexivity.
  - induction c as [|[k0 v0] r IHr].
    + reflexivity.
    + inversion IHc as [|kv l Hv Hr]; subst. cbn [snd] in Hv.
      rewrite !dtp_Nd_cons, map_app, <- IHr by exact Hr.
      f_equal. apply (Hv k (root ++ [k0])).
Qed.

Lemma lpaths_cons k root (v : tree) :
  lpaths (k :: root) v = map (fun pv => (k :: fst pv, snd pv)) (lpaths root v).
Proof. unfold lpaths. rewrite dtp_cons, !map_map. reflexivity. Qed.

Lemma dtp_nonempty (d : tree) : no_empty d -> forall root, dict_to_paths root d <> [].
Proof.
  induction d as [b|c IHc] using tree_ind'; intros Hne root.
  - discriminate.
  - inversion Hne as [|c' Hc Hall]; subst.
    destruct c as [|[k v] r]; [congruence|].
    inversion IHc as [|kv l Hv Hr]; subst. inversion Hall as [|kv' l' Hnv Hnr]; subst.
    cbn [snd] in Hv, Hnv. rewrite dtp_Nd_cons. intros Happ.
    apply app_eq_nil in Happ as [H1 _]. exact (Hv Hnv _ H1).
Qed.

Lemma dtp_top_nonempty_paths (c : list (key * tree)) :
  Forall (fun pv => fst pv <> []) (lpaths [] (Nd c)).
Proof.
  unfold lpaths. rewrite Forall_forall. intros pv Hin.
  apply in_map_iff in Hin as (pa & <- & Hin). cbn [fst].
  apply In_dtp_Nd in Hin as (k & v & _ & Hin).
  destruct (dtp_prefix _ _ _ Hin) as [p Hp]. rewrite Hp. discriminate.
Qed.

Lemma pfold_cons_prefix pl : forall ac k,
  pl <> [] -> Forall (fun pv : list key * tree => fst pv <> []) pl ->
  pfold (Ok (Nd ac)) (map (fun pv => (k :: fst pv, snd pv)) pl) =
  rbind (pfold (Ok (adefault k ac)) pl) (fun s => Ok (Nd (aset k s ac))).
Proof.
  induction pl as [|[p x] rest IH]; intros ac k Hne Hall; [congruence|].
  inversion Hall as [|pv l Hp Hrest]; subst. cbn [fst] in Hp.
  cbn [map]. rewrite !pfold_cons. cbn [fst snd rbind].
  rewrite assoc_path_cons by exact Hp.
  destruct (assoc_path (adefault k ac) p x) as [s'|e]; cbn [rbind].
  - destruct rest as [|pv2 rest].
    + reflexivity.
    + rewrite IH by (auto; discriminate).
      assert (Hd : adefault k (aset k s' ac) = s').
      { unfold adefault. now rewrite alookup_aset_eq. }
      rewrite Hd. destruct (pfold (Ok s') (pv2 :: rest)) as [s|e]; cbn [rbind]; auto.
      now rewrite aset_aset.
  - now rewrite !pfold_err.
Qed.

Definition rebuilds (v : tree) : Prop :=
  wf v -> no_empty v -> forall k ac, alookup k ac = None ->
  pfold (Ok (Nd ac)) (lpaths [k] v) = Ok (Nd (ac ++ [(k, v)])).

Lemma rebuild_children (cv : list (key * tree)) :
  Forall (fun kv => rebuilds (snd kv)) cv ->
  NoDup (akeys cv) -> Forall (fun kv => wf (snd kv)) cv -> Forall (fun kv => no_empty (snd kv)) cv ->
  forall ac, (forall k', In k' (akeys cv) -> alookup k' ac = None) ->
  pfold (Ok (Nd ac)) (lpaths [] (Nd cv)) = Ok (Nd (ac ++ cv)).
Proof.
  induction cv as [|[k v] r IH]; intros HP Hnd Hwf Hne ac Hfresh.
  - cbn. now rewrite app_nil_r.
  - inversion HP as [|kv1 l1 HPv HPr]; subst. inversion Hnd as [|k1 l2 Hnin Hndr]; subst.
    inversion Hwf as [|kv3 l3 Hwv Hwr]; subst. inversion Hne as [|kv4 l4 Hnv Hnr]; subst.
    cbn [snd] in *.
    unfold lpaths. rewrite dtp_Nd_cons, map_app. cbn [app].
    rewrite pfold_app. fold (lpaths [k] v). fold (lpaths [] (Nd r)).
    rewrite (HPv Hwv Hnv k ac) by (apply Hfresh; now left).
    rewrite IH; auto.
    + now rewrite <- app_assoc.
    + intros k' Hin. rewrite alookup_app_none by (apply Hfresh; now right).
      cbn. destruct (N.eqb k k') eqn:E; auto.
      apply N.eqb_eq in E. subst k'. contradiction.
Qed.

Lemma rebuilds_all (v : tree) : rebuilds v.
Proof.
  induction v as [b|cv IHc] using tree_ind'; intros Hwf Hne k ac Hk.
  - cbn. now rewrite aset_absent.
  - inversion Hwf as [|c1 Hnd Hwc]; subst. inversion Hne as [|c2 Hcv Hnc]; subst.
    rewrite lpaths_cons, pfold_cons_prefix.
    + unfold adefault. rewrite Hk.
      rewrite (rebuild_children cv IHc Hnd Hwc Hnc []) by reflexivity.
      cbn [rbind app]. now rewrite aset_absent.
    + unfold lpaths. intros Hnil. apply map_eq_nil in Hnil.
      exact (dtp_nonempty (Nd cv) Hne [] Hnil).
    + apply dtp_top_nonempty_paths.
Qed.

Theorem paths_dict_inverse (c : list (key * tree)) : wf (Nd c) -> Forall (fun kv => no_empty (snd kv)) c ->
  paths_to_dict (map (fun pa => (fst pa, Lf (snd pa))) (dict_to_paths [] (Nd c))) = Ok (Nd c).
Proof.
  intros Hwf Hne. inversion Hwf as [|c1 Hnd Hwc]; subst.
  change (pfold (Ok (Nd [])) (lpaths [] (Nd c)) = Ok (Nd ([] ++ c))).
  apply rebuild_children; auto.
  rewrite Forall_forall. intros kv _. apply rebuilds_all.
Qed.

End Inverse.

(* ================= Part 7: the repaired normalisation is compositional ================= *)

Lemma norm_go_replay_step s t x : norm_go s (rev t ++ [x]) = norm_go s (rev (norm_go t [x])).
Proof.
  destruct x as [|k]; [|reflexivity].
  destruct t as [|[|k'] t']; try reflexivity.
  cbn [norm_go rev]. rewrite <- app_assoc, norm_go_app. reflexivity.
Qed.

Lemma norm_go_replay p : forall s t, norm_go s (rev t ++ p) = norm_go s (rev (norm_go t p)).
Proof.
  induction p as [|x p IH]; intros s t.
  - cbn. now rewrite app_nil_r.
  - change (x :: p) with ([x] ++ p). rewrite app_assoc, norm_go_app, norm_go_replay_step.
    rewrite <- norm_go_app, IH. rewrite (norm_go_app t [x] p). reflexivity.
Qed.

(* normalisation is compositional: normalising a suffix first changes nothing (what the pinned code violated) *)
Theorem normalize_app_normalize a p : normalize (a ++ normalize p) = normalize (a ++ p).
Proof.
  unfold normalize. f_equal. rewrite !norm_go_app.
  symmetry. apply (norm_go_replay p (norm_go [] a) []).
Qed.

Lemma norm_go_ups n : forall m, norm_go (repeat Up m) (repeat Up n) = repeat Up (n + m).
Proof.
  induction n as [|n IH]; intros m; [reflexivity|].
  destruct m as [|m]; cbn [repeat norm_go].
  - change [Up] with (repeat Up 1). rewrite (IH 1).
    change (Up :: repeat Up (n + 0)) with (repeat Up (S (n + 0))). f_equal. lia.
  - change (Up :: Up :: repeat Up m) with (repeat Up (S (S m))). rewrite (IH (S (S m))).
    change (Up :: repeat Up (n + S m)) with (repeat Up (S (n + S m))). f_equal. lia.
Qed.

Lemma rev_repeat_seg (x : seg) n : rev (repeat x n) = repeat x n.
Proof.
  induction n as [|n IH]; [reflexivity|]. cbn [repeat rev]. rewrite IH.
  change (x :: repeat x n) with (repeat x (S n)). clear IH.
  induction n as [|n IH]; [reflexivity|]. cbn [repeat app] in *. now rewrite IH.
Qed.

(* leading '..' segments are kept, all of them *)
Theorem normalize_ups n p : normalize (repeat Up n ++ dn p) = repeat Up n ++ dn p.
Proof.
  unfold normalize. rewrite norm_go_app. change (@nil seg) with (repeat Up 0) at 1.
  rewrite (norm_go_ups n 0), norm_go_dn, Nat.add_0_r.
  rewrite rev_app_distr, rev_involutive, rev_repeat_seg. reflexivity.
Qed.

(* the pinned code: two leading '..' cancelled each other, so the result depended on the parity of their number and
   normalisation was not compositional *)
Theorem normalize_pinned_refuted :
  normalize_pinned [Up; Up; Dn 1%N] = [Dn 1%N] /\
  normalize_pinned ([Dn 5%N; Dn 6%N] ++ [Up; Up; Dn 1%N]) <> normalize_pinned ([Dn 5%N; Dn 6%N] ++ normalize_pinned [Up; Up; Dn 1%N]).
Proof. split; [reflexivity|vm_compute; discriminate]. Qed.

Print Assumptions norm_go_app.
Print Assumptions normalize_dn.
Print Assumptions normalize_idem.
Print Assumptions walk_is_lexical.
Print Assumptions walk_above_root.
Print Assumptions walk_reaches_node.
Print Assumptions path_to_reaches.
Print Assumptions path_for_reaches.
Print Assumptions get_assoc.
Print Assumptions assoc_frame.
Print Assumptions delete_removes.
Print Assumptions delete_frame.
Print Assumptions delete_missing_noop.
Print Assumptions update_in_get.
Print Assumptions update_in_frame.
Print Assumptions assoc_in_get.
Print Assumptions assoc_in_frame.
Print Assumptions dict_to_paths_get.
Print Assumptions paths_dict_inverse.
Print Assumptions establish_reaches.
Print Assumptions establish_keeps_leaves.
Print Assumptions establish_keeps_nodes.
Print Assumptions normalize_app_normalize.
Print Assumptions normalize_ups.
Print Assumptions normalize_pinned_refuted.
