(* Proofs about Model/Override.v (schema overrides: _override_schemas, merge_overrides, get_schema). *)
From Coq Require Import List NArith ZArith Bool Lia.
From Viv Require Import Base.Assoc Base.Tree Model.Paths Model.Override Proofs.Composite_proofs.
Import ListNotations.

(* an override names a process when some non-empty path leads to the process in the processes dict and to a
   subtree in the overrides *)
Definition names (ov : stree) (procs : ptree) (pid : N) : Prop :=
  exists p o, p <> [] /\ leaf_at procs p = Some pid /\ sub_at ov p = Some o.

(* ---------- the nested fix of override_schemas as a standalone list-level function ---------- *)

Definition ov_list (procs : ptree) : list (key * stree) -> res (list (N * stree)) :=
  fix go (oc : list (key * stree)) : res (list (N * stree)) :=
    match oc with
    | [] => Ok []
    | (k, o) :: r =>
      match alookup k (children procs) with
      | None => Err EKeyError
      | Some (Lf pid) => rbind (go r) (fun l => Ok ((pid, o) :: l))
      | Some (Nd sub) =>
        rbind (override_schemas o (Nd sub)) (fun l1 => rbind (go r) (fun l2 => Ok (l1 ++ l2)))
      end
    end.

Lemma override_schemas_Nd oc procs : override_schemas (Nd oc) procs = ov_list procs oc.
Proof. reflexivity. Qed.

Lemma override_schemas_Lf z procs : override_schemas (Lf z) procs = Err ETypeThroughLeaf.
Proof. reflexivity. Qed.

Lemma ov_list_nil procs : ov_list procs [] = Ok [].
Proof. reflexivity. Qed.

Lemma ov_list_cons procs k o r :
  ov_list procs ((k, o) :: r) =
  match alookup k (children procs) with
  | None => Err EKeyError
  | Some (Lf pid) => rbind (ov_list procs r) (fun l => Ok ((pid, o) :: l))
  | Some (Nd sub) =>
    rbind (override_schemas o (Nd sub)) (fun l1 => rbind (ov_list procs r) (fun l2 => Ok (l1 ++ l2)))
  end.
Proof. reflexivity. Qed.

Lemma ov_list_cons_inv procs k o r l : ov_list procs ((k, o) :: r) = Ok l ->
  exists l2, ov_list procs r = Ok l2 /\
    ((exists pid, alookup k (children procs) = Some (Lf pid) /\ l = (pid, o) :: l2) \/
     (exists sub l1, alookup k (children procs) = Some (Nd sub) /\
                     override_schemas o (Nd sub) = Ok l1 /\ l = l1 ++ l2)).
Proof.
  rewrite ov_list_cons. intros H.
  destruct (alookup k (children procs)) as [[pid|sub]|]; [| |discriminate].
  - destruct (ov_list procs r) as [l2|e]; [|discriminate]. cbn [rbind] in H. injection H as <-.
    exists l2. split; [reflexivity|]. left. exists pid. split; reflexivity.
  - destruct (override_schemas o (Nd sub)) as [l1|e] eqn:E1; [|discriminate]. cbn [rbind] in H.
    destruct (ov_list procs r) as [l2|e]; [|discriminate]. cbn [rbind] in H. injection H as <-.
    exists l2. split; [reflexivity|]. right. exists sub, l1. repeat split; auto.
Qed.

(* where a pair of the result comes from *)
Lemma ov_list_In procs pid o : forall oc l, ov_list procs oc = Ok l -> In (pid, o) l ->
  exists k so, In (k, so) oc /\
    ((alookup k (children procs) = Some (Lf pid) /\ so = o) \/
     (exists sub l1, alookup k (children procs) = Some (Nd sub) /\
                     override_schemas so (Nd sub) = Ok l1 /\ In (pid, o) l1)).
Proof.
  induction oc as [|[k so] r IH]; intros l Hl Hin.
  - rewrite ov_list_nil in Hl. injection Hl as <-. destruct Hin.
  - apply ov_list_cons_inv in Hl as (l2 & Hl2 & [(pid' & Ea & ->)|(sub & l1 & Ea & Hl1 & ->)]).
    + destruct Hin as [E|Hin].
      * injection E as -> ->. exists k, o. split; [now left|]. left. auto.
      * destruct (IH _ Hl2 Hin) as (k0 & so0 & Hin0 & H0). exists k0, so0. split; [now right|exact H0].
    + apply in_app_or in Hin as [Hin|Hin].
      * exists k, so. split; [now left|]. right. exists sub, l1. repeat split; auto.
      * destruct (IH _ Hl2 Hin) as (k0 & so0 & Hin0 & H0). exists k0, so0. split; [now right|exact H0].
Qed.

(* ---------- path lemmas ---------- *)

Lemma leaf_at_cons (t : ptree) k r :
  leaf_at t (k :: r) = match t with
                       | Nd c => match alookup k c with Some s => leaf_at s r | None => None end
                       | Lf _ => None
                       end.
Proof. destruct t; reflexivity. Qed.

Lemma leaf_at_nil (t : ptree) : leaf_at t [] = match t with Lf pid => Some pid | Nd _ => None end.
Proof. destruct t; reflexivity. Qed.

Lemma sub_at_cons (t : stree) k r :
  sub_at t (k :: r) = match t with
                      | Nd c => match alookup k c with Some s => sub_at s r | None => None end
                      | Lf _ => None
                      end.
Proof. reflexivity. Qed.

Lemma sub_at_wf : forall p (t o : stree), wf t -> sub_at t p = Some o -> wf o.
Proof.
  induction p as [|k r IH]; intros t o Hwf H.
  - cbn in H. now injection H as <-.
  - rewrite sub_at_cons in H. destruct t as [z|c]; [discriminate|].
    destruct (alookup k c) as [s|] eqn:E; [|discriminate].
    inversion Hwf as [|? Hnd Hall]; subst.
    eapply IH; [|exact H]. eapply wf_child; eauto.
Qed.

(* ---------- 1 ---------- *)

Lemma ov_list_reaches procs k so : forall oc l, ov_list procs oc = Ok l -> In (k, so) oc ->
  (forall pid, alookup k (children procs) = Some (Lf pid) -> In (pid, so) l) /\
  (forall sub, alookup k (children procs) = Some (Nd sub) ->
     exists l1, override_schemas so (Nd sub) = Ok l1 /\ incl l1 l).
Proof.
  induction oc as [|[k' so'] r IH]; intros l Hl Hin; [destruct Hin|].
  apply ov_list_cons_inv in Hl as (l2 & Hl2 & Hcase).
  destruct Hin as [E|Hin].
  - injection E as -> ->.
    destruct Hcase as [(pid' & Ea & ->)|(sub' & l1 & Ea & Hl1 & ->)]; split.
    + intros pid E. rewrite Ea in E. injection E as ->. now left.
    + intros sub E. rewrite Ea in E. discriminate.
    + intros pid E. rewrite Ea in E. discriminate.
    + intros sub E. rewrite Ea in E. injection E as <-. exists l1. split; [exact Hl1|].
      apply incl_appl, incl_refl.
  - destruct (IH _ Hl2 Hin) as [H1 H2].
    destruct Hcase as [(pid' & Ea & ->)|(sub' & l1 & Ea & Hl1 & ->)]; split.
    + intros pid E. right. auto.
    + intros sub E. destruct (H2 _ E) as (l1 & Hl1 & Hi). exists l1. split; [exact Hl1|].
      now apply incl_tl.
    + intros pid E. apply in_or_app. right. auto.
    + intros sub E. destruct (H2 _ E) as (l1' & Hl1' & Hi). exists l1'. split; [exact Hl1'|].
      now apply incl_appr.
Qed.

Lemma override_reaches_gen pid o : forall p ov procs l,
  override_schemas ov procs = Ok l -> p <> [] ->
  leaf_at procs p = Some pid -> sub_at ov p = Some o -> In (pid, o) l.
Proof.
  induction p as [|k r IH]; intros ov procs l Hov Hne Hleaf Hsub; [congruence|].
  destruct ov as [z|oc]; [discriminate|].
  destruct procs as [n|c]; [discriminate|].
  rewrite leaf_at_cons in Hleaf. rewrite sub_at_cons in Hsub.
  destruct (alookup k c) as [s|] eqn:Ec; [|discriminate].
  destruct (alookup k oc) as [so|] eqn:Eo; [|discriminate].
  rewrite override_schemas_Nd in Hov.
  apply alookup_In in Eo.
  destruct (ov_list_reaches _ _ _ _ _ Hov Eo) as [H1 H2]. cbn [children] in H1, H2.
  destruct s as [pid'|sub].
  - destruct r as [|k2 r2]; [|discriminate].
    cbn in Hleaf, Hsub. injection Hleaf as ->. injection Hsub as ->. now apply H1.
  - destruct (H2 _ Ec) as (l1 & Hl1 & Hi). apply Hi.
    apply (IH so (Nd sub) l1 Hl1); auto.
    intros ->. discriminate.
Qed.

Theorem override_reaches_named ov procs l p pid o :
  wf ov -> override_schemas ov procs = Ok l -> p <> [] ->
  leaf_at procs p = Some pid -> sub_at ov p = Some o -> In (pid, o) l.
Proof. intros _. apply override_reaches_gen. Qed.

(* ---------- 2 ---------- *)

Theorem override_only_named ov procs l pid o :
  wf ov -> override_schemas ov procs = Ok l -> In (pid, o) l ->
  exists p, p <> [] /\ leaf_at procs p = Some pid /\ sub_at ov p = Some o.
Proof.
  revert procs l. induction ov as [z|oc HIH] using tree_ind'; intros procs l Hwf Hov Hin; [discriminate|].
  inversion Hwf as [|? Hnd Hall]; subst.
  rewrite override_schemas_Nd in Hov.
  destruct (ov_list_In _ _ _ _ _ Hov Hin) as (k & so & Hinoc & Hcase).
  pose proof (In_alookup _ _ _ Hnd Hinoc) as Eo.
  destruct procs as [n|c]; [destruct Hcase as [[E _]|(? & ? & E & _)]; discriminate|].
  cbn [children] in Hcase.
  destruct Hcase as [[Ea ->]|(sub & l1 & Ea & Hl1 & Hin1)].
  - exists [k]. split; [discriminate|]. split.
    + rewrite leaf_at_cons, Ea. reflexivity.
    + rewrite sub_at_cons, Eo. reflexivity.
  - rewrite Forall_forall in HIH, Hall.
    destruct (HIH _ Hinoc (Nd sub) l1 (Hall _ Hinoc) Hl1 Hin1) as (p & Hne & Hleaf & Hsub).
    exists (k :: p). split; [discriminate|]. split.
    + rewrite leaf_at_cons, Ea. exact Hleaf.
    + rewrite sub_at_cons, Eo. exact Hsub.
Qed.

(* ---------- the pairs of one process ---------- *)

Definition pidf (pid : N) (po : N * stree) : bool := N.eqb (fst po) pid.

Lemma override_of_filter l pid :
  override_of l pid =
  fold_left (fun acc po => deep_merge acc (snd po)) (filter (pidf pid) l) (Nd []).
Proof.
  unfold override_of. generalize (@Nd Z []). induction l as [|po l IH]; intros acc; [reflexivity|].
  cbn [fold_left filter]. unfold pidf at 1. destruct (N.eqb (fst po) pid); cbn [fold_left]; apply IH.
Qed.

Lemma filter_nil_iff {X} (f : X -> bool) l : (forall x, In x l -> f x = false) -> filter f l = [].
Proof.
  induction l as [|x l IH]; intros H; [reflexivity|].
  cbn. rewrite (H x) by now left. apply IH. intros y Hy. apply H. now right.
Qed.

Lemma unnamed_filter ov procs l pid :
  wf ov -> override_schemas ov procs = Ok l -> ~ names ov procs pid -> filter (pidf pid) l = [].
Proof.
  intros Hwf Hov Hn. apply filter_nil_iff. intros [pid' o] Hin. unfold pidf. cbn [fst].
  destruct (N.eqb pid' pid) eqn:E; [|reflexivity].
  apply N.eqb_eq in E. subst pid'. exfalso. apply Hn.
  destruct (override_only_named _ _ _ _ _ Hwf Hov Hin) as (p & H1 & H2 & H3).
  exists p, o. auto.
Qed.

Lemma deep_merge_nil_r {A} (d : tree A) : is_nd d = true -> deep_merge d (Nd []) = d.
Proof. destruct d as [a|dc]; [discriminate|]. reflexivity. Qed.

(* ---------- 3 ---------- *)

Theorem unnamed_untouched ports ov procs l pid :
  wf ov -> override_schemas ov procs = Ok l -> ~ names ov procs pid -> is_nd (ports pid) = true ->
  get_schema ports l pid = ports pid.
Proof.
  intros Hwf Hov Hn Hp. unfold get_schema. rewrite override_of_filter.
  rewrite (unnamed_filter _ _ _ _ Hwf Hov Hn). cbn [fold_left]. now apply deep_merge_nil_r.
Qed.

(* ---------- 4 ---------- *)

Lemma filter_app_eq {X} (f : X -> bool) l1 l2 : filter f (l1 ++ l2) = filter f l1 ++ filter f l2.
Proof. induction l1 as [|x l1 IH]; cbn; [reflexivity|]. destruct (f x); cbn; now rewrite IH. Qed.

(* the entries after (or before) the one with key k contribute nothing for pid *)
Lemma rest_filter_nil pid c k r rest l2 :
  NoDup (akeys rest) -> Forall (fun kv => wf (snd kv)) rest -> alookup k rest = None ->
  ov_list (Nd c) rest = Ok l2 ->
  (forall q, leaf_at (Nd c) q = Some pid -> q = k :: r) ->
  filter (pidf pid) l2 = [].
Proof.
  intros Hnd Hall Hk Hl2 Huniq.
  apply (unnamed_filter (Nd rest) (Nd c)).
  - now constructor.
  - exact Hl2.
  - intros (q & o' & Hne & Hleaf & Hsub). apply Huniq in Hleaf. subst q.
    rewrite sub_at_cons, Hk in Hsub. discriminate.
Qed.

Lemma named_filter pid o : forall p ov procs l,
  wf ov -> override_schemas ov procs = Ok l -> p <> [] ->
  leaf_at procs p = Some pid -> sub_at ov p = Some o ->
  (forall q, leaf_at procs q = Some pid -> q = p) ->
  filter (pidf pid) l = [(pid, o)].
Proof.
  induction p as [|k r IH]; intros ov procs l Hwf Hov Hne Hleaf Hsub Huniq; [congruence|].
  destruct ov as [z|oc]; [discriminate|].
  destruct procs as [n|c]; [discriminate|].
  rewrite leaf_at_cons in Hleaf. rewrite sub_at_cons in Hsub.
  destruct (alookup k c) as [s|] eqn:Ec; [|discriminate].
  destruct (alookup k oc) as [so|] eqn:Eo; [|discriminate].
  inversion Hwf as [|? Hnd Hall]; subst.
  rewrite override_schemas_Nd in Hov.
  clear Hwf Hne.
  revert l Hov Hnd Hall Eo.
  induction oc as [|[k' o'] rest IHoc]; intros l Hov Hnd Hall Eo; [discriminate|].
  inversion Hnd as [|? ? Hnin Hnd']; subst. inversion Hall as [|? ? Hwo' Hall']; subst.
  cbn [snd] in Hwo'.
  apply ov_list_cons_inv in Hov as (l2 & Hl2 & Hcase). cbn [children] in Hcase.
  cbn [alookup] in Eo. destruct (N.eqb k' k) eqn:Ek.
  - apply N.eqb_eq in Ek. subst k'. injection Eo as ->.
    apply alookup_None_notin in Hnin.
    pose proof (rest_filter_nil pid c k r rest l2 Hnd' Hall' Hnin Hl2 Huniq) as Hf2.
    destruct Hcase as [(pid' & Ea & ->)|(sub & l1 & Ea & Hl1 & ->)].
    + rewrite Ec in Ea. injection Ea as ->.
      destruct r as [|k2 r2]; [|discriminate].
      cbn in Hleaf, Hsub. injection Hleaf as ->. injection Hsub as ->.
      cbn [filter]. unfold pidf at 1. cbn [fst]. rewrite N.eqb_refl. now rewrite Hf2.
    + rewrite Ec in Ea. injection Ea as ->.
      rewrite filter_app_eq, Hf2, app_nil_r.
      apply (IH so (Nd sub) l1); auto.
      * intros ->. discriminate.
      * intros q Hq. assert (Hq' : leaf_at (Nd c) (k :: q) = Some pid).
        { rewrite leaf_at_cons, Ec. exact Hq. }
        apply Huniq in Hq'. now injection Hq'.
  - apply N.eqb_neq in Ek.
    specialize (IHoc l2 Hl2 Hnd' Hall' Eo).
    destruct Hcase as [(pid' & Ea & ->)|(sub & l1 & Ea & Hl1 & ->)].
    + cbn [filter]. unfold pidf at 1. cbn [fst].
      destruct (N.eqb pid' pid) eqn:Ep; [|exact IHoc].
      apply N.eqb_eq in Ep. subst pid'. exfalso.
      assert (Hq' : leaf_at (Nd c) [k'] = Some pid).
      { rewrite leaf_at_cons, Ea. reflexivity. }
      apply Huniq in Hq'. injection Hq' as ? ?. contradiction.
    + rewrite filter_app_eq.
      rewrite (unnamed_filter o' (Nd sub) l1 pid Hwo' Hl1); [exact IHoc|].
      intros (q & o'' & Hne & Hq & _).
      assert (Hq' : leaf_at (Nd c) (k' :: q) = Some pid).
      { rewrite leaf_at_cons, Ea. exact Hq. }
      apply Huniq in Hq'. injection Hq' as ? ?. contradiction.
Qed.

Theorem named_schema ports ov procs l pid p o :
  wf ov -> override_schemas ov procs = Ok l -> p <> [] ->
  leaf_at procs p = Some pid -> sub_at ov p = Some o ->
  (forall q, leaf_at procs q = Some pid -> q = p) ->
  get_schema ports l pid = deep_merge (ports pid) (deep_merge (Nd []) o).
Proof.
  intros Hwf Hov Hne Hleaf Hsub Huniq. unfold get_schema. rewrite override_of_filter.
  rewrite (named_filter pid o p ov procs l Hwf Hov Hne Hleaf Hsub Huniq). reflexivity.
Qed.

(* ---------- 5 ---------- *)

Theorem override_value_wins ports ov procs l pid p o q a :
  wf ov -> override_schemas ov procs = Ok l -> p <> [] ->
  leaf_at procs p = Some pid -> sub_at ov p = Some o ->
  (forall q, leaf_at procs q = Some pid -> q = p) ->
  is_nd (ports pid) = true -> is_nd o = true ->
  get_in o q = Ok (Some (Lf a)) -> get_in (get_schema ports l pid) q = Ok (Some (Lf a)).
Proof.
  intros Hwf Hov Hne Hleaf Hsub Huniq Hp Ho Hg.
  rewrite (named_schema ports ov procs l pid p o Hwf Hov Hne Hleaf Hsub Huniq).
  pose proof (sub_at_wf _ _ _ Hwf Hsub) as Hwo.
  assert (Hwe : wf (@Nd Z [])) by (constructor; constructor).
  apply deep_merge_later_wins.
  - apply deep_merge_wf; auto.
  - exact Hp.
  - apply deep_merge_is_nd_b; auto.
  - apply deep_merge_later_wins; auto.
Qed.

Theorem unmentioned_attribute_kept ports ov procs l pid p o q r :
  wf ov -> override_schemas ov procs = Ok l -> p <> [] ->
  leaf_at procs p = Some pid -> sub_at ov p = Some o ->
  (forall q, leaf_at procs q = Some pid -> q = p) ->
  is_nd (ports pid) = true -> is_nd o = true ->
  get_in o q = Ok None -> get_in (ports pid) q = Ok r -> get_in (get_schema ports l pid) q = Ok r.
Proof.
  intros Hwf Hov Hne Hleaf Hsub Huniq Hp Ho Hg Hgp.
  rewrite (named_schema ports ov procs l pid p o Hwf Hov Hne Hleaf Hsub Huniq).
  pose proof (sub_at_wf _ _ _ Hwf Hsub) as Hwo.
  assert (Hwe : wf (@Nd Z [])) by (constructor; constructor).
  apply deep_merge_keeps.
  - apply deep_merge_wf; auto.
  - exact Hp.
  - apply deep_merge_is_nd_b; auto.
  - apply deep_merge_keeps; auto.
    destruct q as [|h t]; [discriminate|]. reflexivity.
  - exact Hgp.
Qed.

(* ---------- 6 ---------- *)

Theorem unknown_key_refused oc procs k o :
  In (k, o) oc -> alookup k (children procs) = None -> NoDup (akeys oc) ->
  exists e, override_schemas (Nd oc) procs = Err e.
Proof.
  intros Hin Hk _. rewrite override_schemas_Nd.
  induction oc as [|[k' o'] r IH]; [destruct Hin|].
  rewrite ov_list_cons. destruct Hin as [E|Hin].
  - injection E as -> ->. rewrite Hk. eexists. reflexivity.
  - destruct (IH Hin) as [e He]. rewrite He.
    destruct (alookup k' (children procs)) as [[pid|sub]|].
    + eexists. reflexivity.
    + destruct (override_schemas o' (Nd sub)); eexists; reflexivity.
    + eexists. reflexivity.
Qed.

(* ---------- 7 ---------- *)

Definition ov_ex : stree := Nd [(1%N, Nd [(7%N, Nd [(8%N, Lf 99%Z)])])].
Definition procs_ex : ptree := Nd [(1%N, Lf 10%N); (2%N, Lf 20%N)].
Definition ports_ex : stree := Nd [(7%N, Nd [(8%N, Lf 0%Z); (9%N, Lf 1%Z)])].
Theorem shared_schema_refuted :
  exists l, override_schemas ov_ex procs_ex = Ok l /\
            get_schema (fun _ => ports_ex) l 20%N = ports_ex /\
            get_schema_shared ports_ex l 20%N <> ports_ex /\
            get_in (get_schema (fun _ => ports_ex) l 10%N) [7%N; 8%N] = Ok (Some (Lf 99%Z)).
Proof.
  eexists. split; [vm_compute; reflexivity|]. split; [vm_compute; reflexivity|].
  split; [vm_compute; discriminate|vm_compute; reflexivity].
Qed.

Print Assumptions override_reaches_named.
Print Assumptions override_only_named.
Print Assumptions unnamed_untouched.
Print Assumptions named_schema.
Print Assumptions override_value_wins.
Print Assumptions unmentioned_attribute_kept.
Print Assumptions unknown_key_refused.
Print Assumptions shared_schema_refuted.
