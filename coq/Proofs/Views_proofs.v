(* Proofs about Model/Views.v: at every invocation the cached view is the view of the current hierarchy
   (C07 second sentence, C04 first sentence), and what breaks when the flag handling is weakened. *)
From Coq Require Import List Bool Arith Lia.
From Viv Require Import Model.Views.
Import ListNotations.

Section Proofs.
Variables (S U R : Type).
Variable refs : S -> R.
Variable app : S -> U -> S * bool.

(* Store.apply_update reports view_expire whenever the node structure changes: an application that returns
   False leaves the structure the caches depend on alone (for the structural operations of Model/Struct.v
   the flag is r_expire := true in every branch of apply_op) *)
Hypothesis app_reports : forall s u, snd (app s u) = false -> refs (fst (app s u)) = refs s.

Notation vst := (vst S R).
Notation apply_all := (apply_all S U R app vcur).
Notation apply_batch := (apply_batch S U R refs app vcur).
Notation run_layer := (run_layer S U R refs app vcur).
Notation run_layers := (run_layers S U R refs app vcur).
Notation run_steps := (run_steps S U R refs app vcur).
Notation send_updates := (send_updates S U R refs app vcur).
Notation run_passes := (run_passes S U R refs app vcur).

Definition Inv (st : vst) : Prop := vcache S R st = refs (vs S R st).

(* an invocation is fine when the cache it reads is the structure of the store at that moment *)
Definition ev_ok (e : vev R) : Prop := match e with VInvoke c n => c = n | _ => True end.

Lemma Forall_app_iff {A} (P : A -> Prop) a b : Forall P (a ++ b) <-> Forall P a /\ Forall P b.
Proof. apply Forall_app. Qed.

(* the flag loop: a false result means nothing said expire, hence nothing changed *)
Lemma apply_all_spec us : forall s flag s' f' ev,
  apply_all us s flag = (s', f', ev) ->
  Forall ev_ok ev /\ (f' = false -> flag = false /\ refs s' = refs s).
Proof.
  induction us as [|u r IH]; intros s flag s' f' ev H; cbn [Views.apply_all] in H.
  - inversion H; subst. split; [constructor|]. intros ->. split; reflexivity.
  - destruct (app s u) as [s1 e] eqn:Ea.
    destruct (Views.apply_all S U R app vcur r s1 (if v_or_flags vcur then flag || e else e)) as [[s2 f2] ev2] eqn:Er.
    inversion H; subst. cbn [v_or_flags vcur] in Er.
    destruct (IH _ _ _ _ _ Er) as [Hev Hf]. split.
    + constructor; [exact I|exact Hev].
    + intros Hf'. destruct (Hf Hf') as [Hor Hrefs].
      apply orb_false_iff in Hor. destruct Hor as [-> ->]. split; [reflexivity|].
      rewrite Hrefs. pose proof (app_reports s u) as Hr. rewrite Ea in Hr. cbn [fst snd] in Hr. exact (Hr eq_refl).
Qed.

Lemma rebuild_if_inv flag s s0 cache c' ev :
  (flag = false -> refs s = refs s0) -> cache = refs s0 ->
  rebuild_if S R refs flag s cache = (c', ev) -> c' = refs s /\ Forall ev_ok ev.
Proof.
  intros Hf Hc H. unfold rebuild_if in H. destruct flag; inversion H; subst.
  - split; [reflexivity|repeat constructor].
  - split; [symmetry; apply Hf; reflexivity|constructor].
Qed.

Theorem apply_batch_inv us st st' ev :
  Inv st -> apply_batch us st = (st', ev) -> Inv st' /\ Forall ev_ok ev.
Proof.
  intros Hi H. unfold Views.apply_batch in H.
  destruct (apply_all us (vs S R st) false) as [[s' flag] ev1] eqn:Ea.
  destruct (rebuild_if S R refs flag s' (vcache S R st)) as [c' ev2] eqn:Eb.
  inversion H; subst. destruct (apply_all_spec _ _ _ _ _ _ Ea) as [Hev Hf].
  destruct (rebuild_if_inv flag s' (vs S R st) _ _ _ (fun h => proj2 (Hf h)) Hi Eb) as [Hc Hev2].
  split; [exact Hc|]. apply Forall_app_iff. split; assumption.
Qed.

Lemma Forall_map_const {A} (P : vev R -> Prop) (l : list A) e : P e -> Forall P (map (fun _ => e) l).
Proof. intros He. induction l; cbn; constructor; auto. Qed.

Theorem run_layer_inv steps st st' f ev :
  Inv st -> run_layer steps st = (st', f, ev) -> Inv st' /\ f = false /\ Forall ev_ok ev.
Proof.
  intros Hi H. unfold Views.run_layer in H.
  destruct (apply_all (map (fun g => g (vcache S R st) (vs S R st)) steps) (vs S R st) false)
    as [[s' flag] ev1] eqn:Ea.
  cbn [v_per_layer vcur] in H.
  destruct (rebuild_if S R refs flag s' (vcache S R st)) as [c' ev2] eqn:Eb.
  inversion H; subst. destruct (apply_all_spec _ _ _ _ _ _ Ea) as [Hev Hf].
  destruct (rebuild_if_inv flag s' (vs S R st) _ _ _ (fun h => proj2 (Hf h)) Hi Eb) as [Hc Hev2].
  split; [exact Hc|]. split; [reflexivity|].
  apply Forall_app_iff. split; [apply Forall_map_const; exact Hi|].
  apply Forall_app_iff. split; assumption.
Qed.

Theorem run_layers_inv layers : forall st p st' f ev,
  Inv st -> run_layers layers st p = (st', f, ev) -> Inv st' /\ f = p /\ Forall ev_ok ev.
Proof.
  induction layers as [|l r IH]; intros st p st' f ev Hi H; cbn [Views.run_layers] in H.
  - inversion H; subst. repeat split; [exact Hi|constructor].
  - destruct (run_layer l st) as [[st1 f1] ev1] eqn:E1.
    destruct (run_layers r st1 (p || f1)) as [[st2 f2] ev2] eqn:E2.
    inversion H; subst. destruct (run_layer_inv _ _ _ _ _ Hi E1) as [Hi1 [-> Hev1]].
    destruct (IH _ _ _ _ _ Hi1 E2) as [Hi2 [Hf Hev2]].
    split; [exact Hi2|]. split; [rewrite Hf; apply orb_false_r|].
    apply Forall_app_iff. split; assumption.
Qed.

Theorem run_steps_inv layers st st' ev :
  Inv st -> run_steps layers st = (st', ev) -> Inv st' /\ Forall ev_ok ev.
Proof.
  intros Hi H. unfold Views.run_steps in H.
  destruct (run_layers layers st false) as [[st1 p] ev1] eqn:E. cbn [v_per_layer vcur] in H.
  inversion H; subst. destruct (run_layers_inv _ _ _ _ _ _ Hi E) as [Hi1 [_ Hev]]. split; assumption.
Qed.

Theorem send_updates_inv us layers st st' ev :
  Inv st -> send_updates us layers st = (st', ev) -> Inv st' /\ Forall ev_ok ev.
Proof.
  intros Hi H. unfold Views.send_updates in H.
  destruct (apply_batch us st) as [st1 ev1] eqn:E1. destruct (run_steps layers st1) as [st2 ev2] eqn:E2.
  inversion H; subst. destruct (apply_batch_inv _ _ _ _ Hi E1) as [Hi1 Hev1].
  destruct (run_steps_inv _ _ _ _ Hi1 E2) as [Hi2 Hev2]. split; [exact Hi2|].
  apply Forall_app_iff. split; assumption.
Qed.

(* HEADLINE: throughout any run - passes of polling, each followed by the application of the due updates
   (structural or not) and the step phase with its layers - every process and every step is handed the view
   of the hierarchy as it is at that moment *)
Theorem views_always_current passes : forall st st' ev,
  Inv st -> run_passes passes st = (st', ev) -> Inv st' /\ Forall ev_ok ev.
Proof.
  induction passes as [|[procs layers] r IH]; intros st st' ev Hi H; cbn [Views.run_passes] in H.
  - inversion H; subst. split; [exact Hi|constructor].
  - unfold poll_pass in H.
    destruct (send_updates (map (fun g => g (vcache S R st) (vs S R st)) procs) layers st) as [st1 ev1] eqn:E1.
    destruct (run_passes r st1) as [st2 ev2] eqn:E2. inversion H; subst.
    destruct (send_updates_inv _ _ _ _ _ Hi E1) as [Hi1 Hev1]. destruct (IH _ _ _ Hi1 E2) as [Hi2 Hev2].
    split; [exact Hi2|]. apply Forall_app_iff. split; [apply Forall_map_const; exact Hi|].
    apply Forall_app_iff. split; assumption.
Qed.

End Proofs.

(* ---------- what goes wrong when the flag handling is weakened (instances, evaluated) ---------- *)
(* store: a counter of structural changes; update: whether it is structural *)
Definition capp (s : nat) (u : bool) : nat * bool := if u then (Datatypes.S s, true) else (s, false).
Lemma capp_reports s u : snd (capp s u) = false -> (fun x : nat => x) (fst (capp s u)) = (fun x : nat => x) s.
Proof. destruct u; cbn; [discriminate|reflexivity]. Qed.

Definition stale (e : vev nat) : bool := match e with VInvoke c n => negb (Nat.eqb c n) | _ => false end.
Definition plain : nat -> nat -> bool := fun _ _ => false.
Definition structural : nat -> nat -> bool := fun _ _ => true.

(* the last update of a batch decides (view_expire = apply_update(...) instead of or-ing): a structural update
   followed by a plain one leaves every view stale *)
Theorem last_flag_only_refuted :
  existsb stale (snd (run_passes nat bool nat (fun x => x) capp {| v_or_flags := false; v_per_layer := true |}
                                 [([structural; plain], []); ([plain], [])] {| vs := 0; vcache := 0 |})) = true.
Proof. vm_compute. reflexivity. Qed.

(* one rebuild after all layers: a step in a later layer is invoked with the view from before an earlier layer's
   structural update *)
Theorem rebuild_after_all_layers_refuted :
  existsb stale (snd (run_passes nat bool nat (fun x => x) capp {| v_or_flags := true; v_per_layer := false |}
                                 [([], [[structural]; [plain]])] {| vs := 0; vcache := 0 |})) = true.
Proof. vm_compute. reflexivity. Qed.

(* the current code on the same two schedules: nothing stale *)
Example current_code_ok :
  existsb stale (snd (run_passes nat bool nat (fun x => x) capp vcur
                                 [([structural; plain], []); ([plain], [[structural]; [plain]])]
                                 {| vs := 0; vcache := 0 |})) = false.
Proof. vm_compute. reflexivity. Qed.

Print Assumptions views_always_current.
Print Assumptions send_updates_inv.
Print Assumptions last_flag_only_refuted.
Print Assumptions rebuild_after_all_layers_refuted.
