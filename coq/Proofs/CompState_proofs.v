(* Proofs about Model/CompState.v: Composite.initial_state() places each process's own initial values at the
   nodes its ports are wired to (C15, last clause). *)
From Coq Require Import List NArith ZArith Bool Lia.
From Viv Require Import Base.Assoc Base.Tree Model.Paths Model.Wire Model.CompState
  Proofs.Paths_proofs Proofs.Wire_proofs Proofs.WireStar_proofs.
Import ListNotations.

(* ================= lookups in absolute updates ================= *)

(* the sub-update at path p (None: the path leaves the dicts) *)
Fixpoint ugetu (u : utree) (p : list key) : option utree :=
  match p with
  | [] => Some u
  | k :: r => match u with
              | UD c => match alookup k c with Some x => ugetu x r | None => None end
              | _ => None
              end
  end.

Definition uget (d : list (key * utree)) (p : list key) : option utree := ugetu (UD d) p.

(* u says nothing at, above or below p: walking u along p meets a dict without the next key *)
Fixpoint udisj (u : utree) (p : list key) : bool :=
  match p with
  | [] => false
  | k :: r => match u with
              | UD c => match alookup k c with Some x => udisj x r | None => true end
              | _ => false
              end
  end.

Definition uget_disjoint (p : list key) (d : list (key * utree)) : bool := udisj (UD d) p.

(* an update as a Python dict: keys unique at every dict level (multi-update lists are opaque values) *)
Definition uwf_go (uwf : utree -> bool) :=
  fix go (c : list (key * utree)) : bool :=
    match c with
    | [] => true
    | (k, x) :: r => negb (amem k r) && uwf x && go r
    end.

Fixpoint uwf (u : utree) : bool :=
  match u with
  | UD c => (fix go (c : list (key * utree)) : bool :=
               match c with
               | [] => true
               | (k, x) :: r => negb (amem k r) && uwf x && go r
               end) c
  | _ => true
  end.

Lemma uwf_UD c : uwf (UD c) = uwf_go uwf c.
Proof. reflexivity. Qed.

Lemma uwf_go_cons k x r : uwf_go uwf ((k, x) :: r) = negb (amem k r) && uwf x && uwf_go uwf r.
Proof. reflexivity. Qed.

Lemma uwf_go_inv c : uwf_go uwf c = true ->
  NoDup (akeys c) /\ forall k x, In (k, x) c -> uwf x = true.
Proof.
  induction c as [|[k0 x0] r IH]; intros H.
  - split; [constructor|intros k x []].
  - rewrite uwf_go_cons in H. apply andb_true_iff in H as [H H3]. apply andb_true_iff in H as [H1 H2].
    destruct (IH H3) as [Hnd Hs]. split.
    + cbn. constructor; auto. apply alookup_None_notin. unfold amem in H1.
      destruct (alookup k0 r); [discriminate|reflexivity].
    + intros k x [[= <- <-]|Hin]; eauto.
Qed.

Lemma uwf_UD_inv c : uwf (UD c) = true ->
  NoDup (akeys c) /\ forall k x, In (k, x) c -> uwf x = true.
Proof. rewrite uwf_UD. apply uwf_go_inv. Qed.

Lemma uwf_go_intro c : NoDup (akeys c) -> (forall k x, In (k, x) c -> uwf x = true) -> uwf_go uwf c = true.
Proof.
  induction c as [|[k0 x0] r IH]; intros Hnd Hs; [reflexivity|].
  cbn in Hnd. inversion Hnd as [|? ? Hnin Hnd']; subst.
  rewrite uwf_go_cons, (Hs k0 x0) by now left. rewrite IH; auto.
  - apply alookup_None_notin in Hnin. unfold amem. now rewrite Hnin.
  - intros k x Hin. apply (Hs k x). now right.
Qed.

Lemma uwf_lookup c k x : uwf (UD c) = true -> alookup k c = Some x -> uwf x = true.
Proof. intros H Hl. apply uwf_UD_inv in H as [_ Hs]. apply (Hs k). now apply alookup_In. Qed.

Lemma uwf_usingle p u : uwf u = true -> uwf (usingle p u) = true.
Proof. intros Hu. induction p as [|k p IH]; auto. cbn [usingle]. rewrite uwf_UD. cbn. now rewrite IH. Qed.

Lemma uwf_usingle_top p u : uwf u = true -> uwf (UD (usingle_top p u)) = true.
Proof.
  intros Hu. destruct p as [|k p]; [|rewrite <- usingle_cons_UD; now apply uwf_usingle].
  unfold usingle_top. cbn [usingle]. destruct u; auto.
Qed.

(* ---- sizes ---- *)
Definition usize_go :=
  fix go (c : list (key * utree)) : nat := match c with [] => 0 | (_, x) :: r => usize x + go r end%nat.

Lemma usize_UD c : usize (UD c) = S (usize_go c).
Proof. reflexivity. Qed.

Lemma usize_go_in c k x : In (k, x) c -> (usize x <= usize_go c)%nat.
Proof.
  induction c as [|[k0 x0] r IH]; [intros []|]. cbn [usize_go]. fold usize_go.
  intros [[= <- <-]|Hin]; [lia|]. specialize (IH Hin). lia.
Qed.

Lemma usize_in c k x : In (k, x) c -> (usize x < usize (UD c))%nat.
Proof. intros Hin. rewrite usize_UD. apply usize_go_in in Hin. lia. Qed.

(* ---- paths ---- *)
Lemma ugetu_app u p q : ugetu u (p ++ q) = match ugetu u p with Some x => ugetu x q | None => None end.
Proof.
  revert u. induction p as [|k p IH]; intros u; [reflexivity|]. cbn [app ugetu].
  destruct u as [z|l|c]; auto. destruct (alookup k c); auto.
Qed.

Lemma ugetu_usingle p u : ugetu (usingle p u) p = Some u.
Proof. induction p as [|k p IH]; [reflexivity|]. cbn. now rewrite N.eqb_refl. Qed.

Lemma uget_usingle_top p u : p <> [] -> uget (usingle_top p u) p = Some u.
Proof. intros Hp. unfold uget. rewrite <- (usingle_ne_UD p u Hp). apply ugetu_usingle. Qed.

Lemma udisj_ugetu u p : udisj u p = true -> ugetu u p = None.
Proof.
  revert u. induction p as [|k p IH]; intros u H; [discriminate|]. cbn in *.
  destruct u as [z|l|c]; auto. destruct (alookup k c); auto.
Qed.

(* ================= deep_merge ================= *)

Lemma fold_left_ext_in {A B} (F G : A -> B -> A) l : (forall x, In x l -> forall a, F a x = G a x) ->
  forall a, fold_left F l a = fold_left G l a.
Proof.
  induction l as [|x l IH]; intros H a; [reflexivity|]. cbn [fold_left].
  rewrite (H x (or_introl eq_refl)). apply IH. intros y Hy. apply H. now right.
Qed.

(* one key of deep_merge: nested dicts are merged, anything else is replaced by the later value *)
Definition dm1 (f : nat) (cur : option utree) (v : utree) : utree :=
  match cur, v with
  | Some (UD dc), UD mc => UD (dmmu false f dc mc)
  | _, _ => v
  end.

Definition dmstep (f : nat) (acc : list (key * utree)) (kv : key * utree) : list (key * utree) :=
  aset (fst kv) (dm1 f (alookup (fst kv) acc) (snd kv)) acc.

Lemma dmmu_false_S f d m : dmmu false (S f) d m = fold_left (dmstep f) m d.
Proof.
  cbn [dmmu]. apply fold_left_ext_in. intros [k v] _ acc. unfold dmstep, dm1. cbn [fst snd].
  destruct (alookup k acc) as [[z|l|dc]|]; destruct v; reflexivity.
Qed.

Lemma dmfold_lookup f k : forall m acc, NoDup (akeys m) ->
  alookup k (fold_left (dmstep f) m acc) =
  match alookup k m with
  | Some v => Some (dm1 f (alookup k acc) v)
  | None => alookup k acc
  end.
Proof.
  induction m as [|[k0 v0] m IH]; intros acc Hnd; [reflexivity|].
  cbn in Hnd. inversion Hnd as [|? ? Hnin Hnd']; subst.
  cbn [fold_left]. rewrite (IH _ Hnd'). cbn [alookup].
  destruct (N.eqb k0 k) eqn:E.
  - apply N.eqb_eq in E. subst k0. apply alookup_None_notin in Hnin. rewrite Hnin.
    unfold dmstep. cbn [fst snd]. apply alookup_aset_eq.
  - apply N.eqb_neq in E.
    assert (Hl : alookup k (dmstep f acc (k0, v0)) = alookup k acc).
    { unfold dmstep. cbn [fst snd]. now apply alookup_aset_neq. }
    rewrite Hl. reflexivity.
Qed.

Lemma dmmu_lookup f k a b : NoDup (akeys b) ->
  alookup k (dmmu false (S f) a b) =
  match alookup k b with
  | Some v => Some (dm1 f (alookup k a) v)
  | None => alookup k a
  end.
Proof. intros Hnd. rewrite dmmu_false_S. now apply dmfold_lookup. Qed.

(* the later dict wins wherever it holds a value *)
Lemma dmmu_later_wins : forall p n a b z, (usize (UD b) <= n)%nat -> uwf (UD b) = true ->
  ugetu (UD b) p = Some (UV z) -> ugetu (UD (dmmu false n a b)) p = Some (UV z).
Proof.
  induction p as [|k r IH]; intros n a b z Hn Hwf Hg; [discriminate|].
  destruct n as [|f]; [rewrite usize_UD in Hn; lia|].
  destruct (uwf_UD_inv _ Hwf) as [Hnd Hs].
  cbn [ugetu] in *. rewrite (dmmu_lookup _ _ _ _ Hnd).
  destruct (alookup k b) as [x|] eqn:Eb; [|discriminate].
  pose proof (alookup_In _ _ _ Eb) as Hin.
  unfold dm1. destruct (alookup k a) as [[z0|l0|dc]|]; auto.
  destruct x as [z1|l1|mc]; auto.
  destruct r as [|k2 r2]; [discriminate|].
  apply IH; auto.
  - apply usize_in in Hin. lia.
  - apply (Hs k). exact Hin.
Qed.

(* ... and leaves alone what it does not mention *)
Lemma dmmu_keeps : forall p n a b, (usize (UD b) <= n)%nat -> uwf (UD b) = true ->
  udisj (UD b) p = true -> ugetu (UD (dmmu false n a b)) p = ugetu (UD a) p.
Proof.
  induction p as [|k r IH]; intros n a b Hn Hwf Hd; [discriminate|].
  destruct n as [|f]; [rewrite usize_UD in Hn; lia|].
  destruct (uwf_UD_inv _ Hwf) as [Hnd Hs].
  cbn [ugetu udisj] in *. rewrite (dmmu_lookup _ _ _ _ Hnd).
  destruct (alookup k b) as [x|] eqn:Eb; [|reflexivity].
  pose proof (alookup_In _ _ _ Eb) as Hin.
  destruct r as [|k2 r2]; [discriminate|].
  destruct x as [z1|l1|mc]; try discriminate.
  unfold dm1. destruct (alookup k a) as [[z0|l0|dc]|].
  - rewrite (udisj_ugetu _ _ Hd). reflexivity.
  - rewrite (udisj_ugetu _ _ Hd). reflexivity.
  - apply IH; auto.
    + apply usize_in in Hin. lia.
    + apply (Hs k). exact Hin.
  - apply (udisj_ugetu _ _ Hd).
Qed.

Theorem deep_merge_u_later_wins a b p z :
  uwf (UD b) = true -> uget b p = Some (UV z) -> uget (deep_merge_u a b) p = Some (UV z).
Proof. intros Hwf Hg. unfold uget, deep_merge_u. apply dmmu_later_wins; auto. lia. Qed.

Theorem deep_merge_u_keeps a b p :
  uwf (UD b) = true -> uget_disjoint p b = true -> uget (deep_merge_u a b) p = uget a p.
Proof. intros Hwf Hd. unfold uget, deep_merge_u. apply dmmu_keeps; auto. lia. Qed.

(* ================= the fold of composite_state ================= *)

Definition cs_step (acc : res (list (key * utree))) (p : cproc) : res (list (key * utree)) :=
  rbind acc (fun st =>
    rbind (invert_nm (cp_parent p) (cp_own p) (cp_topo p)) (fun sub => Ok (deep_merge_u st sub))).

Definition cp_sub (p : cproc) (s : list (key * utree)) : Prop :=
  invert_nm (cp_parent p) (cp_own p) (cp_topo p) = Ok s.

Lemma cs_fold_err ps e : fold_left cs_step ps (Err e) = Err e.
Proof. induction ps as [|p ps IH]; auto. Qed.

Lemma cs_fold_subs : forall ps acc st, fold_left cs_step ps (Ok acc) = Ok st ->
  exists subs, Forall2 cp_sub ps subs /\ st = fold_left deep_merge_u subs acc.
Proof.
  induction ps as [|p ps IH]; intros acc st H.
  - cbn in H. injection H as <-. exists []. split; [constructor|reflexivity].
  - cbn [fold_left] in H. unfold cs_step at 2 in H. cbn [rbind] in H.
    destruct (invert_nm (cp_parent p) (cp_own p) (cp_topo p)) as [sub|e] eqn:Es; cbn [rbind] in H.
    + destruct (IH _ _ H) as [subs [HF ->]]. exists (sub :: subs). split; [constructor; auto|reflexivity].
    + rewrite cs_fold_err in H. discriminate.
Qed.

(* composite_state = the explicit state merged over the merge of the processes' inverted own states *)
Lemma composite_state_subs ps state res : composite_state ps state = Ok res ->
  exists subs, Forall2 cp_sub ps subs /\ res = deep_merge_u (fold_left deep_merge_u subs []) state.
Proof.
  unfold composite_state. fold cs_step.
  destruct (fold_left cs_step ps (Ok [])) as [st|e] eqn:E; [|discriminate]. cbn [rbind].
  intros [= <-]. destruct (cs_fold_subs _ _ _ E) as [subs [HF ->]]. exists subs. auto.
Qed.

Lemma Forall2_nth_l {A B} (R : A -> B -> Prop) l1 l2 : Forall2 R l1 l2 ->
  forall i x, nth_error l1 i = Some x -> exists y, nth_error l2 i = Some y /\ R x y.
Proof.
  induction 1 as [|a b l1 l2 Hab HF IH]; intros i x Hn; [destruct i; discriminate|].
  destruct i as [|i]; cbn in *.
  - injection Hn as <-. eauto.
  - eauto.
Qed.

Lemma Forall2_nth_r {A B} (R : A -> B -> Prop) l1 l2 : Forall2 R l1 l2 ->
  forall i y, nth_error l2 i = Some y -> exists x, nth_error l1 i = Some x /\ R x y.
Proof.
  induction 1 as [|a b l1 l2 Hab HF IH]; intros i y Hn; [destruct i; discriminate|].
  destruct i as [|i]; cbn in *.
  - injection Hn as <-. eauto.
  - eauto.
Qed.

Lemma merge_fold_keeps r : forall post acc,
  (forall s, In s post -> uwf (UD s) = true /\ uget_disjoint r s = true) ->
  uget (fold_left deep_merge_u post acc) r = uget acc r.
Proof.
  induction post as [|s post IH]; intros acc H; [reflexivity|]. cbn [fold_left].
  rewrite IH by (intros s' Hs'; apply H; now right).
  destruct (H s (or_introl eq_refl)) as [Hw Hd]. now apply deep_merge_u_keeps.
Qed.

(* the merge of a list of absolute updates: the value of entry i survives if the later entries are disjoint *)
Lemma merge_fold_places subs i sub r z :
  nth_error subs i = Some sub -> uwf (UD sub) = true -> uget sub r = Some (UV z) ->
  (forall j s, (i < j)%nat -> nth_error subs j = Some s -> uwf (UD s) = true /\ uget_disjoint r s = true) ->
  forall acc, uget (fold_left deep_merge_u subs acc) r = Some (UV z).
Proof.
  intros Hn Hw Hg Hlater acc.
  destruct (nth_error_split _ _ Hn) as [pre [post [-> Hlen]]].
  rewrite fold_left_app. cbn [fold_left]. rewrite merge_fold_keeps.
  - now apply deep_merge_u_later_wins.
  - intros s Hin. destruct (In_nth_error _ _ Hin) as [k Hk].
    apply (Hlater (S (length pre + k))); [lia|].
    rewrite nth_error_app2 by lia.
    replace (S (length pre + k) - length pre)%nat with (S k) by lia. exact Hk.
Qed.

(* statement 4, in terms of the inverted own states:
   - process i supplies z at node r (in absolute terms: `sub`),
   - no later process says anything at, above or below r,
   - nor does the explicit state;
   then initial_state() holds z at r. *)
Theorem initial_state_places_gen ps state res i p sub r z :
  composite_state ps state = Ok res ->
  nth_error ps i = Some p -> cp_sub p sub -> uwf (UD sub) = true -> uget sub r = Some (UV z) ->
  (forall j q s, (i < j)%nat -> nth_error ps j = Some q -> cp_sub q s ->
                 uwf (UD s) = true /\ uget_disjoint r s = true) ->
  uwf (UD state) = true -> uget_disjoint r state = true ->
  uget res r = Some (UV z).
Proof.
  intros Hc Hi Hs Hw Hg Hlater Hws Hds.
  destruct (composite_state_subs _ _ _ Hc) as [subs [HF ->]].
  rewrite deep_merge_u_keeps by auto.
  destruct (Forall2_nth_l _ _ _ HF _ _ Hi) as [sub' [Hn Hs']].
  assert (sub' = sub) by (unfold cp_sub in *; congruence). subst sub'.
  apply (merge_fold_places subs i sub); auto.
  intros j s Hij Hj. destruct (Forall2_nth_r _ _ _ HF _ _ Hj) as [q [Hq Hqs]]. eauto.
Qed.

(* the explicit state is merged last: what it holds wins, whatever the processes supply *)
Theorem explicit_state_wins ps state res r z :
  composite_state ps state = Ok res ->
  uwf (UD state) = true -> uget state r = Some (UV z) -> uget res r = Some (UV z).
Proof.
  intros Hc Hw Hg. destruct (composite_state_subs _ _ _ Hc) as [subs [_ ->]].
  now apply deep_merge_u_later_wins.
Qed.

(* ================= inverse_topology(multi_updates=False) as a list of placements ================= *)

(* an induction principle for topologies that reaches the entries *)
Fixpoint topo_ind_star (P : topo -> Prop)
    (HP : forall p, P (TPath p))
    (HD : forall p' c, Forall (fun kv => P (snd kv)) c -> P (TDict p' c)) (x : topo) : P x :=
  match x with
  | TPath p => HP p
  | TDict p' c => HD p' c ((fix go (l : list (pkey * topo)) : Forall (fun kv => P (snd kv)) l :=
                              match l with
                              | [] => Forall_nil _
                              | kv :: r => Forall_cons kv (topo_ind_star P HP HD (snd kv)) (go r)
                              end) c)
  end.

(* a placement: target node, value placed there (deep_merge for dicts, overwrite for scalars) *)
Definition pl := (list key * utree)%type.

Definition rapp {Y} (a b : res (list Y)) : res (list Y) :=
  rbind a (fun l1 => rbind b (fun l2 => Ok (l1 ++ l2))).

Fixpoint rcat {X Y} (f : X -> res (list Y)) (l : list X) : res (list Y) :=
  match l with
  | [] => Ok []
  | x :: r => rapp (f x) (rcat f r)
  end.

Definition place1 (tgt : res (list key)) (v : utree) : res (list pl) := rbind tgt (fun t => Ok [(t, v)]).

(* the walk of inv_topo_nm without the inverse: the placements it performs, in order *)
Fixpoint plc (skip_path : bool) (outer : list seg) (value : utree) (path : topo) {struct path} : res (list pl) :=
  match path with
  | TPath p => place1 (abs_keys (normalize (outer ++ p))) value
  | TDict p' c' =>
    match value with
    | UD cu =>
      let p'' := if skip_path then None else p' in
      let inner := match p'' with Some q => normalize (outer ++ q) | None => outer end in
      let listed : res (list pl) :=
        (fix go (c : list (pkey * topo)) : res (list pl) :=
           match c with
           | [] => Ok []
           | (PK k, sub) :: r =>
             match alookup k cu with
             | Some v => rapp (plc false inner v sub) (go r)
             | None => go r
             end
           | (PStar, sub) :: r =>
             let stepped : res (list pl) :=
               match sub with
               | TPath p =>
                 rcat (fun kv => place1 (abs_keys (normalize (inner ++ p ++ [Dn (fst kv)]))) (snd kv)) cu
               | TDict q'' _ =>
                 let inner2 := match q'' with Some q => normalize (inner ++ q) | None => inner end in
                 rcat (fun kv => plc true (inner2 ++ [Dn (fst kv)]) (snd kv) sub) cu
               end in
             rapp stepped (go r)
           end) c' in
      match p'', has_star c' with
      | Some _, false =>
        rapp listed
             (rcat (fun kv => match plook (PK (fst kv)) c' with
                              | Some _ => Ok []
                              | None => place1 (abs_keys (normalize (inner ++ [Dn (fst kv)]))) (snd kv)
                              end) cu)
      | _, _ => listed
      end
    | _ => Err EOther
    end
  end.

Definition pstar (inner : list seg) (cu : list (key * utree)) (sub : topo) : res (list pl) :=
  match sub with
  | TPath p => rcat (fun kv => place1 (abs_keys (normalize (inner ++ p ++ [Dn (fst kv)]))) (snd kv)) cu
  | TDict q'' _ =>
    let inner2 := match q'' with Some q => normalize (inner ++ q) | None => inner end in
    rcat (fun kv => plc true (inner2 ++ [Dn (fst kv)]) (snd kv) sub) cu
  end.

Definition plgo (inner : list seg) (cu : list (key * utree)) :=
  fix go (c : list (pkey * topo)) : res (list pl) :=
    match c with
    | [] => Ok []
    | (PK k, sub) :: r =>
      match alookup k cu with
      | Some v => rapp (plc false inner v sub) (go r)
      | None => go r
      end
    | (PStar, sub) :: r => rapp (pstar inner cu sub) (go r)
    end.

Definition punl (inner : list seg) (cu : list (key * utree)) (c' : list (pkey * topo)) : res (list pl) :=
  rcat (fun kv => match plook (PK (fst kv)) c' with
                  | Some _ => Ok []
                  | None => place1 (abs_keys (normalize (inner ++ [Dn (fst kv)]))) (snd kv)
                  end) cu.

Definition dict_inner (skip : bool) (outer : list seg) (p' : option (list seg)) : list seg :=
  match (if skip then None else p') with Some q => normalize (outer ++ q) | None => outer end.

Lemma plc_path skip outer value p :
  plc skip outer value (TPath p) = place1 (abs_keys (normalize (outer ++ p))) value.
Proof. reflexivity. Qed.

Lemma plc_dict skip outer cu p' c' :
  plc skip outer (UD cu) (TDict p' c') =
  match (if skip then None else p'), has_star c' with
  | Some _, false => rapp (plgo (dict_inner skip outer p') cu c') (punl (dict_inner skip outer p') cu c')
  | _, _ => plgo (dict_inner skip outer p') cu c'
  end.
Proof. reflexivity. Qed.

Lemma plgo_nil inner cu : plgo inner cu [] = Ok [].
Proof. reflexivity. Qed.

Lemma plgo_PK inner cu k sub r :
  plgo inner cu ((PK k, sub) :: r) =
  match alookup k cu with
  | Some v => rapp (plc false inner v sub) (plgo inner cu r)
  | None => plgo inner cu r
  end.
Proof. reflexivity. Qed.

Lemma plgo_star inner cu sub r :
  plgo inner cu ((PStar, sub) :: r) = rapp (pstar inner cu sub) (plgo inner cu r).
Proof. reflexivity. Qed.

(* ---- the same unfolding for inv_topo_nm ---- *)
Definition sstar_nm (inner : list seg) (cu : list (key * utree)) (sub : topo) (inv : list (key * utree))
  : res (list (key * utree)) :=
  match sub with
  | TPath p =>
    fold_left (fun acc kv =>
                 rbind acc (fun inv0 =>
                   rbind (abs_keys (normalize (inner ++ p ++ [Dn (fst kv)]))) (fun tgt =>
                     place_mode 2 inv0 tgt (snd kv)))) cu (Ok inv)
  | TDict q'' _ =>
    let inner2 := match q'' with Some q => normalize (inner ++ q) | None => inner end in
    fold_left (fun acc kv =>
                 rbind acc (fun inv0 => inv_topo_nm true (inner2 ++ [Dn (fst kv)]) (snd kv) sub inv0))
              cu (Ok inv)
  end.

Definition lgo_nm (inner : list seg) (cu : list (key * utree)) :=
  fix go (c : list (pkey * topo)) (inv : list (key * utree)) : res (list (key * utree)) :=
    match c with
    | [] => Ok inv
    | (PK k, sub) :: r =>
      match alookup k cu with
      | Some v => match inv_topo_nm false inner v sub inv with
                  | Ok inv' => go r inv'
                  | Err e => Err e
                  end
      | None => go r inv
      end
    | (PStar, sub) :: r =>
      match sstar_nm inner cu sub inv with Ok inv' => go r inv' | Err e => Err e end
    end.

Definition unl_nm (inner : list seg) (cu : list (key * utree)) (c' : list (pkey * topo)) (inv : list (key * utree))
  : res (list (key * utree)) :=
  fold_left (fun acc kv =>
               rbind acc (fun inv0 =>
                 match plook (PK (fst kv)) c' with
                 | Some _ => Ok inv0
                 | None => rbind (abs_keys (normalize (inner ++ [Dn (fst kv)]))) (fun tgt =>
                             place_mode 2 inv0 tgt (snd kv))
                 end)) cu (Ok inv).

Lemma inv_topo_nm_path skip outer value p inverse :
  inv_topo_nm skip outer value (TPath p) inverse =
  rbind (abs_keys (normalize (outer ++ p))) (fun inner => place_mode 2 inverse inner value).
Proof. reflexivity. Qed.

Lemma inv_topo_nm_dict skip outer cu p' c' inverse :
  inv_topo_nm skip outer (UD cu) (TDict p' c') inverse =
  match (if skip then None else p'), has_star c' with
  | Some _, false => rbind (lgo_nm (dict_inner skip outer p') cu c' inverse) (unl_nm (dict_inner skip outer p') cu c')
  | _, _ => lgo_nm (dict_inner skip outer p') cu c' inverse
  end.
Proof. reflexivity. Qed.

Lemma lgo_nm_PK inner cu k sub r inv :
  lgo_nm inner cu ((PK k, sub) :: r) inv =
  match alookup k cu with
  | Some v => rbind (inv_topo_nm false inner v sub inv) (lgo_nm inner cu r)
  | None => lgo_nm inner cu r inv
  end.
Proof. reflexivity. Qed.

Lemma lgo_nm_star inner cu sub r inv :
  lgo_nm inner cu ((PStar, sub) :: r) inv = rbind (sstar_nm inner cu sub inv) (lgo_nm inner cu r).
Proof. reflexivity. Qed.

(* ---- performing a list of placements ---- *)
Definition pstep (acc : res (list (key * utree))) (p : pl) : res (list (key * utree)) :=
  rbind acc (fun i => place_mode 2 i (fst p) (snd p)).

Definition pfold (pls : list pl) (inv : list (key * utree)) : res (list (key * utree)) :=
  fold_left pstep pls (Ok inv).

Lemma pstep_err pls e : fold_left pstep pls (Err e) = Err e.
Proof. induction pls as [|p pls IH]; auto. Qed.

Lemma pfold_cons p pls inv : pfold (p :: pls) inv = rbind (place_mode 2 inv (fst p) (snd p)) (pfold pls).
Proof.
  unfold pfold. cbn [fold_left pstep rbind].
  destruct (place_mode 2 inv (fst p) (snd p)); cbn [rbind]; [reflexivity|apply pstep_err].
Qed.

Lemma pfold_app l1 : forall l2 inv, pfold (l1 ++ l2) inv = rbind (pfold l1 inv) (pfold l2).
Proof.
  induction l1 as [|p l1 IH]; intros l2 inv; [reflexivity|].
  cbn [app]. rewrite !pfold_cons. destruct (place_mode 2 inv (fst p) (snd p)); cbn [rbind]; auto.
Qed.

(* `r` lists the placements that `F` performs *)
Definition plc_ok (r : res (list pl)) (F : list (key * utree) -> res (list (key * utree))) : Prop :=
  match r with
  | Ok pls => forall inv, F inv = pfold pls inv
  | Err _ => forall inv, exists e, F inv = Err e
  end.

Lemma plc_ok_ext r F G : (forall inv, G inv = F inv) -> plc_ok r F -> plc_ok r G.
Proof. intros HE. destruct r as [pls|e]; cbn; intros H inv; rewrite HE; auto. Qed.

Lemma plc_ok_nil : plc_ok (Ok []) (fun inv => Ok inv).
Proof. intros inv. reflexivity. Qed.

Lemma plc_ok_seq r1 r2 F1 F2 : plc_ok r1 F1 -> plc_ok r2 F2 ->
  plc_ok (rapp r1 r2) (fun inv => rbind (F1 inv) F2).
Proof.
  destruct r1 as [l1|e1]; cbn [rapp rbind plc_ok]; intros H1 H2.
  - destruct r2 as [l2|e2]; cbn [rbind plc_ok] in *; intros inv; rewrite H1.
    + rewrite pfold_app. destruct (pfold l1 inv); cbn [rbind]; auto.
    + destruct (pfold l1 inv) as [i|e]; cbn [rbind]; eauto.
  - intros inv. destruct (H1 inv) as [e ->]. cbn [rbind]. eauto.
Qed.

Lemma plc_ok_place1 tgt v :
  plc_ok (place1 tgt v) (fun inv => rbind tgt (fun t => place_mode 2 inv t v)).
Proof.
  destruct tgt as [t|e]; cbn [place1 rbind plc_ok].
  - intros inv. rewrite pfold_cons. cbn [fst snd]. destruct (place_mode 2 inv t v); reflexivity.
  - eauto.
Qed.

Lemma plc_ok_rcat {X} (f : X -> res (list pl)) (G : X -> list (key * utree) -> res (list (key * utree))) l :
  (forall x, In x l -> plc_ok (f x) (G x)) ->
  plc_ok (rcat f l) (fun inv => fold_left (fun acc x => rbind acc (G x)) l (Ok inv)).
Proof.
  induction l as [|x l IH]; intros H; [apply plc_ok_nil|].
  cbn [rcat]. eapply plc_ok_ext; [|apply plc_ok_seq; [apply (H x); now left|apply IH; intros y Hy; apply H; now right]].
  intros inv. cbn [fold_left]. rewrite rfold_bind. reflexivity.
Qed.

Definition plc_sound_at (path : topo) : Prop :=
  forall skip outer value, plc_ok (plc skip outer value path) (inv_topo_nm skip outer value path).

Lemma pstar_sound inner cu sub : plc_sound_at sub -> plc_ok (pstar inner cu sub) (sstar_nm inner cu sub).
Proof.
  intros Hs. destruct sub as [p|q'' c'']; unfold pstar, sstar_nm.
  - apply (plc_ok_rcat _ (fun kv inv0 => rbind (abs_keys (normalize (inner ++ p ++ [Dn (fst kv)])))
                                             (fun tgt => place_mode 2 inv0 tgt (snd kv)))).
    intros kv _. apply plc_ok_place1.
  - cbv zeta.
    apply (plc_ok_rcat _ (fun kv inv0 => inv_topo_nm true
             ((match q'' with Some q => normalize (inner ++ q) | None => inner end) ++ [Dn (fst kv)])
             (snd kv) (TDict q'' c'') inv0)).
    intros kv _. apply Hs.
Qed.

Lemma plgo_sound inner cu c : Forall (fun kv => plc_sound_at (snd kv)) c ->
  plc_ok (plgo inner cu c) (lgo_nm inner cu c).
Proof.
  induction 1 as [|[pk sub] r Hsub HF IH].
  - apply plc_ok_nil.
  - cbn [snd] in Hsub. destruct pk as [k|].
    + rewrite plgo_PK. destruct (alookup k cu) as [v|] eqn:E.
      * eapply plc_ok_ext; [|apply plc_ok_seq; [apply (Hsub false inner v)|exact IH]].
        intros inv. rewrite lgo_nm_PK, E. reflexivity.
      * eapply plc_ok_ext; [|exact IH]. intros inv. rewrite lgo_nm_PK, E. reflexivity.
    + rewrite plgo_star.
      eapply plc_ok_ext; [|apply plc_ok_seq; [apply (pstar_sound inner cu sub Hsub)|exact IH]].
      intros inv. rewrite lgo_nm_star. reflexivity.
Qed.

Lemma punl_sound inner cu c' : plc_ok (punl inner cu c') (unl_nm inner cu c').
Proof.
  unfold punl, unl_nm.
  apply (plc_ok_rcat _ (fun kv inv0 => match plook (PK (fst kv)) c' with
                                       | Some _ => Ok inv0
                                       | None => rbind (abs_keys (normalize (inner ++ [Dn (fst kv)])))
                                                       (fun tgt => place_mode 2 inv0 tgt (snd kv))
                                       end)).
  intros kv _. destruct (plook (PK (fst kv)) c'); [apply plc_ok_nil|apply plc_ok_place1].
Qed.

(* inv_topo_nm performs exactly the placements listed by plc, in order *)
Lemma plc_sound path : plc_sound_at path.
Proof.
  induction path as [p|p' c' IH] using topo_ind_star; intros skip outer value.
  - rewrite plc_path. eapply plc_ok_ext; [|apply plc_ok_place1]. intros inv. apply inv_topo_nm_path.
  - destruct value as [z|l|cu]; try (intros inv; exists EOther; reflexivity).
    rewrite plc_dict.
    pose proof (plgo_sound (dict_inner skip outer p') cu c' IH) as HL.
    destruct (if skip then None else p') as [q|] eqn:Ep; [destruct (has_star c') eqn:Eh|].
    + eapply plc_ok_ext; [|exact HL]. intros inv. now rewrite inv_topo_nm_dict, Ep, Eh.
    + eapply plc_ok_ext; [|apply plc_ok_seq; [exact HL|apply punl_sound]].
      intros inv. now rewrite inv_topo_nm_dict, Ep, Eh.
    + eapply plc_ok_ext; [|exact HL]. intros inv. rewrite inv_topo_nm_dict, Ep. reflexivity.
Qed.

Corollary inv_topo_nm_plc skip outer value path pls inv :
  plc skip outer value path = Ok pls -> inv_topo_nm skip outer value path inv = pfold pls inv.
Proof. intros H. pose proof (plc_sound path skip outer value) as Hs. rewrite H in Hs. apply Hs. Qed.

Corollary inv_topo_nm_ok_plc skip outer value path inv inv' :
  inv_topo_nm skip outer value path inv = Ok inv' ->
  exists pls, plc skip outer value path = Ok pls /\ pfold pls inv = Ok inv'.
Proof.
  intros H. pose proof (plc_sound path skip outer value) as Hs.
  destruct (plc skip outer value path) as [pls|e]; cbn in Hs.
  - exists pls. split; auto. now rewrite <- Hs.
  - destruct (Hs inv) as [e' He]. congruence.
Qed.

(* ================= statement 1: one variable ================= *)

Lemma rapp_nil_r {Y} (x : res (list Y)) : rapp x (Ok []) = x.
Proof. destruct x as [l|e]; cbn; [now rewrite app_nil_r|reflexivity]. Qed.

Lemma rapp_nil_l {Y} (x : res (list Y)) : rapp (Ok []) x = x.
Proof. destruct x as [l|e]; reflexivity. Qed.

Lemma plc_skip outer cu q c : plc true outer (UD cu) (TDict q c) = plc false outer (UD cu) (TDict None c).
Proof. reflexivity. Qed.

Lemma plgo_miss inner k val c : keys_ok c = true -> plook (PK k) c = None -> plgo inner [(k, val)] c = Ok [].
Proof.
  induction c as [|[pk sub0] r IH]; intros Hk Hp; [reflexivity|].
  destruct pk as [k0|]; [|discriminate]. cbn [keys_ok] in Hk. apply andb_true_iff in Hk as [_ Hk].
  cbn [plook] in Hp. rewrite pkey_eqb_PK in Hp. destruct (N.eqb k0 k) eqn:E; [discriminate|].
  rewrite plgo_PK. cbn [alookup]. rewrite N.eqb_sym, E. auto.
Qed.

Lemma plgo_hit inner k val c : forall sub, keys_ok c = true -> plook (PK k) c = Some sub ->
  plgo inner [(k, val)] c = plc false inner val sub.
Proof.
  induction c as [|[pk sub0] r IH]; intros sub Hk Hp; [discriminate|].
  destruct pk as [k0|]; [|discriminate]. cbn [keys_ok] in Hk. apply andb_true_iff in Hk as [Hk1 Hk].
  apply negb_true_iff in Hk1. apply existsb_plook in Hk1.
  rewrite plgo_PK. cbn [plook] in Hp. rewrite pkey_eqb_PK in Hp. cbn [alookup]. rewrite N.eqb_sym.
  destruct (N.eqb k0 k) eqn:E.
  - apply N.eqb_eq in E. subst k0. injection Hp as <-.
    rewrite (plgo_miss _ _ _ _ Hk Hk1). apply rapp_nil_r.
  - auto.
Qed.

Lemma pstar_path1 inner k val p :
  pstar inner [(k, val)] (TPath p) = place1 (abs_keys (normalize (inner ++ p ++ [Dn k]))) val.
Proof. unfold pstar. cbn [rcat fst snd]. apply rapp_nil_r. Qed.

Lemma pstar_dict1 inner k val q c'' :
  pstar inner [(k, val)] (TDict q c'') =
  plc true ((match q with Some q0 => normalize (inner ++ q0) | None => inner end) ++ [Dn k]) val (TDict q c'').
Proof. unfold pstar. cbv zeta. cbn [rcat fst snd]. apply rapp_nil_r. Qed.

Lemma punl1 inner k val c' :
  punl inner [(k, val)] c' =
  match plook (PK k) c' with
  | Some _ => Ok []
  | None => place1 (abs_keys (normalize (inner ++ [Dn k]))) val
  end.
Proof. unfold punl. cbn [rcat fst snd]. apply rapp_nil_r. Qed.

Lemma dict_inner_walk (t : store) a p' b :
  walk t a (match p' with Some q => q | None => [] end) = Ok b -> dict_inner false (dn a) p' = dn b.
Proof.
  unfold dict_inner. destruct p' as [q|]; intros Hw; [exact (walk_is_lexical t _ _ _ Hw)|].
  cbn in Hw. now injection Hw as ->.
Qed.

(* inverting the one-variable update of vp is ONE placement, cut somewhere along the absolute path r the
   view shows for vp (the analogue of rw_dict_star_inv; every placement of inv_topo_nm has mode 2) *)
Lemma plc_single (t : store) z : forall vp s c' p' a b v r,
  wfs s c' (match p' with Some _ => false | None => true end) = true ->
  svar_path s vp = true ->
  walk t a (match p' with Some q => q | None => [] end) = Ok b ->
  view t b s c' = Ok v -> vget v vp = Some (VRef r) ->
  exists bb rst, r = bb ++ rst /\
    plc false (dn a) (usingle vp (UV z)) (TDict p' c') = Ok [(bb, usingle rst (UV z))].
Proof.
  induction vp as [|k rest IH]; intros s c' p' a b v r Hwf Hvp Hw Hv Hg.
  { destruct s; discriminate. }
  destruct s as [d| |o c]; try discriminate.
  rewrite wfs_node in Hwf. cbn [svar_path] in Hvp.
  pose proof (dict_inner_walk t a p' b Hw) as Hinner.
  cbn [usingle]. rewrite plc_dict, Hinner.
  destruct (glob_of c) as [sub|] eqn:Eg.
  - (* a glob node *)
    apply glob_of_Some in Eg. subst c.
    destruct (view_glob_get _ _ _ _ _ _ _ _ _ Hv Hg) as [_ [_ [b2 [x [Hw2 [_ [Hx Hgx]]]]]]].
    unfold wfs_glob in Hwf.
    destruct c' as [|[[kk|] X] [|y c'r]]; try discriminate; try (destruct X; discriminate).
    + (* no '*' entry, below '_path' *)
      destruct p' as [q|]; [|discriminate]. cbn [negb andb] in Hwf.
      cbn in Hw2. injection Hw2 as <-. cbn in Hx.
      exists (b ++ [k]), rest. split.
      { now rewrite (view_pstar_var _ _ _ _ _ _ Hwf Hx Hgx Hvp), <- app_assoc. }
      cbn [has_star plook]. rewrite plgo_nil, rapp_nil_l, punl1. cbn [plook].
      rewrite normalize_dn_snoc, abs_keys_dn. reflexivity.
    + destruct X as [p|q'' c''].
      * (* '*': a tuple path *)
        unfold star_path, star_sub in Hw2, Hx. cbn [plook pkey_eqb] in Hw2, Hx.
        exists (b2 ++ [k]), rest. split.
        { now rewrite (view_pstar_var _ _ _ _ _ _ Hwf Hx Hgx Hvp). }
        assert (Hlisted : plgo (dn b) [(k, usingle rest (UV z))] [(PStar, TPath p)]
                          = Ok [(b2 ++ [k], usingle rest (UV z))]).
        { rewrite plgo_star, plgo_nil, rapp_nil_r, pstar_path1. rewrite app_assoc, normalize_snoc_Dn.
          rewrite (walk_is_lexical _ _ _ _ Hw2), dn_snoc, abs_keys_dn. reflexivity. }
        rewrite Hlisted. destruct p'; reflexivity.
      * (* '*': a dict *)
        destruct sub as [d| |o2 c2]; try discriminate.
        unfold star_path, star_sub in Hw2, Hx. cbn [plook pkey_eqb] in Hw2, Hx.
        destruct rest as [|k2 rest2]; [destruct (glob_of c2); discriminate|].
        assert (Hinner2 : match q'' with Some q0 => normalize (dn b ++ q0) | None => dn b end = dn b2).
        { destruct q'' as [q0|]; [exact (walk_is_lexical t _ _ _ Hw2)|]. cbn in Hw2. now injection Hw2 as ->. }
        destruct (IH (SNode o2 c2) c'' None (b2 ++ [k]) (b2 ++ [k]) x r Hwf Hvp eq_refl Hx Hgx)
          as [bb [rst [Hr Hplc]]].
        exists bb, rst. split; [exact Hr|].
        assert (Hlisted : plgo (dn b) [(k, usingle (k2 :: rest2) (UV z))] [(PStar, TDict q'' c'')]
                          = Ok [(bb, usingle rst (UV z))]).
        { rewrite plgo_star, plgo_nil, rapp_nil_r, pstar_dict1, Hinner2, dn_snoc.
          rewrite usingle_cons_UD, plc_skip, <- usingle_cons_UD. exact Hplc. }
        rewrite Hlisted. destruct p'; reflexivity.
  - (* a named node *)
    apply andb_true_iff in Hwf as [Hkc' Hwf].
    destruct (wfs_go_inv _ _ _ Hwf) as [Hk Hent].
    destruct (view_node_get _ _ _ _ _ _ _ _ _ Hk Hv Hg) as [-> [Hl [sub [b2 [x [Hpl [Hw2 [Hx Hgx]]]]]]]].
    rewrite Hpl in Hvp.
    specialize (Hent _ _ Hpl). unfold wfs_entry in Hent.
    unfold entry_path, entry_sub in Hw2, Hx.
    unfold has_star. rewrite (keys_ok_no_star _ Hkc'). rewrite punl1.
    destruct (plook (PK k) c') as [[p|q'' c'']|] eqn:Ec'.
    + (* a tuple path *)
      exists b2, rest. split.
      { now rewrite (view_pstar_var _ _ _ _ _ _ Hent Hx Hgx Hvp). }
      rewrite (plgo_hit _ _ _ _ _ Hkc' Ec'), plc_path.
      rewrite (walk_is_lexical _ _ _ _ Hw2), abs_keys_dn.
      destruct p'; reflexivity.
    + (* a nested dict *)
      destruct sub as [d| |o2 c2]; try discriminate.
      destruct (IH (SNode o2 c2) c'' q'' b b2 x r Hent Hvp Hw2 Hx Hgx) as [bb [rst [Hr Hplc]]].
      exists bb, rst. split; [exact Hr|].
      rewrite (plgo_hit _ _ _ _ _ Hkc' Ec'), Hplc. destruct p'; reflexivity.
    + (* not listed *)
      destruct p' as [q|]; [|discriminate]. cbn [negb andb] in Hent.
      apply walk_Dn in Hw2. subst b2.
      exists (b ++ [k]), rest. split.
      { now rewrite (view_pstar_var _ _ _ _ _ _ Hent Hx Hgx Hvp). }
      rewrite (plgo_miss _ _ _ _ Hkc' Ec'), rapp_nil_l.
      rewrite normalize_dn_snoc, abs_keys_dn. reflexivity.
Qed.

Lemma inv_topo_nm_single (t : store) z vp s c' p' a b v r :
  wfs s c' (match p' with Some _ => false | None => true end) = true ->
  svar_path s vp = true ->
  walk t a (match p' with Some q => q | None => [] end) = Ok b ->
  view t b s c' = Ok v -> vget v vp = Some (VRef r) ->
  exists bb rst, r = bb ++ rst /\
    forall inv, inv_topo_nm false (dn a) (usingle vp (UV z)) (TDict p' c') inv
                = place_mode 2 inv bb (usingle rst (UV z)).
Proof.
  intros Hwf Hvp Hw Hv Hg.
  destruct (plc_single t z vp s c' p' a b v r Hwf Hvp Hw Hv Hg) as [bb [rst [Hr Hplc]]].
  exists bb, rst. split; [exact Hr|]. intros inv.
  rewrite (inv_topo_nm_plc _ _ _ _ _ inv Hplc), pfold_cons. cbn [fst snd].
  destruct (place_mode 2 inv bb (usingle rst (UV z))); reflexivity.
Qed.

(* statement 1: read/write symmetry for initial_state(): the own value of the variable the view shows at r
   is placed at r *)
Theorem invert_nm_single t a c tp v vp r z :
  wfs (SNode false c) tp true = true -> svar_path (SNode false c) vp = true ->
  view t a (SNode false c) tp = Ok v -> vget v vp = Some (VRef r) ->
  invert_nm a (usingle_top vp (UV z)) tp = Ok (usingle_top r (UV z)).
Proof.
  intros Hwf Hvp Hv Hg. unfold invert_nm.
  destruct vp as [|k rest]; [discriminate|]. rewrite <- usingle_cons_UD.
  destruct (inv_topo_nm_single t z (k :: rest) (SNode false c) tp None a a v r Hwf Hvp eq_refl Hv Hg)
    as [bb [rst [-> Hinv]]].
  rewrite Hinv. apply place_mode_single.
Qed.

(* ================= statement 4 for processes that supply one variable each ================= *)

(* two absolute paths one of which is a prefix of the other (a write to one is at, above or below the other) *)
Fixpoint pcomparable (p q : list key) : bool :=
  match p, q with
  | [], _ => true
  | _, [] => true
  | x :: p', y :: q' => N.eqb x y && pcomparable p' q'
  end.

Lemma udisj_usingle_incomparable : forall r' r u, pcomparable r' r = false -> udisj (usingle r' u) r = true.
Proof.
  induction r' as [|x r' IH]; intros r u H; [discriminate|].
  destruct r as [|y r]; [discriminate|]. cbn in *.
  destruct (N.eqb x y) eqn:E; [|reflexivity]. cbn in H. auto.
Qed.

Lemma uget_disjoint_single r' r u : pcomparable r' r = false -> uget_disjoint r (usingle_top r' u) = true.
Proof.
  intros H. unfold uget_disjoint. destruct r' as [|x r']; [discriminate|].
  rewrite <- usingle_cons_UD. now apply udisj_usingle_incomparable.
Qed.

(* process q (parent, own state, topology) supplies exactly one variable, which the view of its ports over the
   store t shows at node r *)
Definition single_proc (t : store) (q : cproc) (r : list key) (z : Z) : Prop :=
  exists c v vp,
    cp_own q = usingle_top vp (UV z) /\
    wfs (SNode false c) (cp_topo q) true = true /\ svar_path (SNode false c) vp = true /\
    view t (cp_parent q) (SNode false c) (cp_topo q) = Ok v /\ vget v vp = Some (VRef r).

Lemma single_proc_sub t q r z : single_proc t q r z -> cp_sub q (usingle_top r (UV z)).
Proof.
  intros [c [v [vp [Ho [Hwf [Hvp [Hv Hg]]]]]]]. unfold cp_sub. rewrite Ho.
  eapply invert_nm_single; eauto.
Qed.

(* statement 4 (every process supplies one variable): the value of process i is in initial_state() at the node
   the variable is wired to, if the later processes are wired to nodes that are neither that node nor above or
   below it, and the explicit state does not mention it *)
Theorem initial_state_places_single t ps state res i p r z :
  composite_state ps state = Ok res ->
  nth_error ps i = Some p -> single_proc t p r z -> r <> [] ->
  (forall j q, (i < j)%nat -> nth_error ps j = Some q ->
               exists r' z', single_proc t q r' z' /\ pcomparable r' r = false) ->
  uwf (UD state) = true -> uget_disjoint r state = true ->
  uget res r = Some (UV z).
Proof.
  intros Hc Hi Hp Hr Hlater Hws Hds.
  apply (initial_state_places_gen ps state res i p (usingle_top r (UV z)) r z); auto.
  - eapply single_proc_sub; eauto.
  - now apply uwf_usingle_top.
  - now apply uget_usingle_top.
  - intros j q s Hij Hj Hs. destruct (Hlater j q Hij Hj) as [r' [z' [Hq Hinc]]].
    apply single_proc_sub in Hq. unfold cp_sub in *. rewrite Hs in Hq. injection Hq as ->.
    split; [now apply uwf_usingle_top|now apply uget_disjoint_single].
Qed.

(* ================= placements: membership ================= *)

Lemma rapp_ok {Y} (a b : res (list Y)) l : rapp a b = Ok l -> exists l1 l2, a = Ok l1 /\ b = Ok l2 /\ l = l1 ++ l2.
Proof.
  destruct a as [l1|e]; [|discriminate]. destruct b as [l2|e]; [|discriminate].
  cbn. intros [= <-]. eauto.
Qed.

Lemma rcat_ok_each {X Y} (f : X -> res (list Y)) l : forall pls, rcat f l = Ok pls ->
  forall x, In x l -> exists ly, f x = Ok ly /\ incl ly pls.
Proof.
  induction l as [|x0 l IH]; intros pls H x Hin; [destruct Hin|].
  cbn [rcat] in H. apply rapp_ok in H as [l1 [l2 [H1 [H2 ->]]]].
  destruct Hin as [<-|Hin].
  - exists l1. split; auto. now apply incl_appl.
  - destruct (IH _ H2 _ Hin) as [ly [Hf Hi]]. exists ly. split; auto. now apply incl_appr.
Qed.

Lemma rcat_in_elim {X Y} (f : X -> res (list Y)) l : forall pls, rcat f l = Ok pls ->
  forall y, In y pls -> exists x ly, In x l /\ f x = Ok ly /\ In y ly.
Proof.
  induction l as [|x0 l IH]; intros pls H y Hin.
  - cbn in H. injection H as <-. destruct Hin.
  - cbn [rcat] in H. apply rapp_ok in H as [l1 [l2 [H1 [H2 ->]]]].
    apply in_app_or in Hin as [Hin|Hin].
    + exists x0, l1. split; [now left|auto].
    + destruct (IH _ H2 _ Hin) as [x [ly [Hx [Hf Hy]]]]. exists x, ly. split; [now right|auto].
Qed.

(* one entry of a topology dict *)
Definition pentry (inner : list seg) (cu : list (key * utree)) (e : pkey * topo) : res (list pl) :=
  match fst e with
  | PK k => match alookup k cu with Some v => plc false inner v (snd e) | None => Ok [] end
  | PStar => pstar inner cu (snd e)
  end.

Lemma plgo_rcat inner cu c : plgo inner cu c = rcat (pentry inner cu) c.
Proof.
  induction c as [|[[k|] sub] r IH]; [reflexivity| |].
  - rewrite plgo_PK. cbn [rcat]. unfold pentry at 1. cbn [fst snd]. rewrite <- IH.
    destruct (alookup k cu); [reflexivity|now rewrite rapp_nil_l].
  - rewrite plgo_star. cbn [rcat]. unfold pentry at 1. cbn [fst snd]. now rewrite IH.
Qed.

Definition punl_entry (inner : list seg) (c' : list (pkey * topo)) (kv : key * utree) : res (list pl) :=
  match plook (PK (fst kv)) c' with
  | Some _ => Ok []
  | None => place1 (abs_keys (normalize (inner ++ [Dn (fst kv)]))) (snd kv)
  end.

Lemma punl_rcat inner cu c' : punl inner cu c' = rcat (punl_entry inner c') cu.
Proof. reflexivity. Qed.

Lemma place1_ok tgt v pls : place1 tgt v = Ok pls -> exists t, tgt = Ok t /\ pls = [(t, v)].
Proof. destruct tgt as [t|e]; [|discriminate]. cbn. intros [= <-]. eauto. Qed.

(* every placed value is a part of the update *)
Lemma plc_vals (Q : utree -> Prop) (Qsub : forall c k x, Q (UD c) -> In (k, x) c -> Q x) :
  forall path skip outer value pls, Q value -> plc skip outer value path = Ok pls ->
  forall bb val, In (bb, val) pls -> Q val.
Proof.
  induction path as [p|p' c' IH] using topo_ind_star; intros skip outer value pls HQ Hp bb val Hin.
  - rewrite plc_path in Hp. apply place1_ok in Hp as [tgt [_ ->]].
    destruct Hin as [[= _ <-]|[]]. exact HQ.
  - destruct value as [z|l|cu]; try discriminate. rewrite plc_dict in Hp.
    assert (HL : forall l1, plgo (dict_inner skip outer p') cu c' = Ok l1 -> In (bb, val) l1 -> Q val).
    { intros l1 H1 Hi. rewrite plgo_rcat in H1.
      destruct (rcat_in_elim _ _ _ H1 _ Hi) as [[pk sub] [ly [He [Hf Hy]]]].
      rewrite Forall_forall in IH. specialize (IH _ He). cbn [snd] in IH.
      unfold pentry in Hf. cbn [fst snd] in Hf. destruct pk as [k|].
      - destruct (alookup k cu) as [v|] eqn:Ek; [|injection Hf as <-; destruct Hy].
        apply (IH _ _ _ _ (Qsub _ _ _ HQ (alookup_In _ _ _ Ek)) Hf _ _ Hy).
      - unfold pstar in Hf. destruct sub as [p|q'' c''].
        + destruct (rcat_in_elim _ _ _ Hf _ Hy) as [[k v] [ly2 [Hkv [Hf2 Hy2]]]].
          apply place1_ok in Hf2 as [tgt [_ ->]]. destruct Hy2 as [[= _ <-]|[]].
          apply (Qsub _ _ _ HQ Hkv).
        + cbv zeta in Hf. destruct (rcat_in_elim _ _ _ Hf _ Hy) as [[k v] [ly2 [Hkv [Hf2 Hy2]]]].
          apply (IH _ _ _ _ (Qsub _ _ _ HQ Hkv) Hf2 _ _ Hy2). }
    assert (HU : forall l2, punl (dict_inner skip outer p') cu c' = Ok l2 -> In (bb, val) l2 -> Q val).
    { intros l2 H2 Hi. rewrite punl_rcat in H2.
      destruct (rcat_in_elim _ _ _ H2 _ Hi) as [[k v] [ly [Hkv [Hf Hy]]]].
      unfold punl_entry in Hf. cbn [fst snd] in Hf.
      destruct (plook (PK k) c'); [injection Hf as <-; destruct Hy|].
      apply place1_ok in Hf as [tgt [_ ->]]. destruct Hy as [[= _ <-]|[]].
      apply (Qsub _ _ _ HQ Hkv). }
    destruct (if skip then None else p'); [destruct (has_star c')|]; eauto.
    apply rapp_ok in Hp as [l1 [l2 [H1 [H2 ->]]]]. apply in_app_or in Hin as [Hi|Hi]; eauto.
Qed.

Lemma plc_uwf path skip outer value pls : uwf value = true -> plc skip outer value path = Ok pls ->
  forall bb val, In (bb, val) pls -> uwf val = true.
Proof.
  apply (plc_vals (fun u => uwf u = true)).
  intros c k x Hc Hin. apply uwf_UD_inv in Hc as [_ Hs]. eauto.
Qed.

(* ================= place_mode 2 is deep_merge ================= *)

(* the fuel of dmmu does not matter once it covers the later dict *)
Lemma dmmu_fuel : forall n m a b, (usize (UD b) <= n)%nat -> (usize (UD b) <= m)%nat ->
  dmmu false n a b = dmmu false m a b.
Proof.
  induction n as [|f IH]; intros m a b Hn Hm; [rewrite usize_UD in Hn; lia|].
  destruct m as [|g]; [rewrite usize_UD in Hm; lia|].
  rewrite !dmmu_false_S. apply fold_left_ext_in. intros [k v] Hin acc.
  unfold dmstep, dm1. cbn [fst snd].
  destruct (alookup k acc) as [[z0|l0|dc]|]; auto. destruct v as [z1|l1|mc]; auto.
  apply usize_in in Hin. rewrite (IH g dc mc) by lia. reflexivity.
Qed.

Definition dmf (a b : list (key * utree)) : list (key * utree) := dmmu false (usize (UD b)) a b.

Lemma dmmu_dmf n a b : (usize (UD b) <= n)%nat -> dmmu false n a b = dmf a b.
Proof. intros H. apply dmmu_fuel; auto. Qed.

Lemma deep_merge_u_dmf a b : deep_merge_u a b = dmf a b.
Proof. unfold deep_merge_u. apply dmmu_dmf. lia. Qed.

(* one key, canonical fuel *)
Definition dm1c (cur : option utree) (v : utree) : utree :=
  match cur, v with
  | Some (UD dc), UD mc => UD (dmf dc mc)
  | _, _ => v
  end.

Lemma dm1_dm1c f cur v : (usize v <= f)%nat -> dm1 f cur v = dm1c cur v.
Proof.
  intros H. unfold dm1, dm1c. destruct cur as [[z0|l0|dc]|]; auto. destruct v as [z1|l1|mc]; auto.
  now rewrite dmmu_dmf.
Qed.

Lemma dmf_single d h w : dmf d [(h, w)] = aset h (dm1c (alookup h d) w) d.
Proof.
  unfold dmf. rewrite usize_UD, dmmu_false_S. cbn [fold_left usize_go]. unfold dmstep. cbn [fst snd].
  rewrite dm1_dm1c by lia. reflexivity.
Qed.

Lemma dmf_nil_r a : dmf a [] = a.
Proof. reflexivity. Qed.

(* merging into the empty dict *)
Lemma dmfold_fresh f : forall m acc, NoDup (akeys m) -> (forall k, In k (akeys m) -> alookup k acc = None) ->
  fold_left (dmstep f) m acc = acc ++ m.
Proof.
  induction m as [|[k0 v0] m IH]; intros acc Hnd Hf; [now rewrite app_nil_r|].
  cbn in Hnd. inversion Hnd as [|? ? Hnin Hnd']; subst.
  cbn [fold_left]. unfold dmstep at 2. cbn [fst snd].
  assert (H0 : alookup k0 acc = None) by (apply Hf; now left).
  rewrite H0. unfold dm1.
  assert (Ha : aset k0 v0 acc = acc ++ [(k0, v0)]).
  { clear -H0. induction acc as [|[k1 v1] acc IHa]; [reflexivity|]. cbn in *.
    destruct (N.eqb k1 k0); [discriminate|]. now rewrite IHa. }
  rewrite Ha, IH; auto.
  - now rewrite <- app_assoc.
  - intros k Hk. rewrite <- Ha. rewrite alookup_aset_neq; [apply Hf; now right|].
    intros ->. contradiction.
Qed.

Lemma dmf_nil_l b : NoDup (akeys b) -> dmf [] b = b.
Proof.
  intros Hnd. unfold dmf. rewrite usize_UD, dmmu_false_S. rewrite dmfold_fresh; auto.
Qed.

Lemma dm1c_fresh w : uwf w = true -> dm1c (Some (UD [])) w = dm1c None w.
Proof.
  intros Hw. unfold dm1c. destruct w as [z|l|vc]; auto.
  apply uwf_UD_inv in Hw as [Hnd _]. now rewrite dmf_nil_l.
Qed.

(* update_in with a merging function is the deep_merge of the spine *)
Lemma uupdate_in_merge w : forall p d f d', p <> [] -> uwf w = true ->
  (forall cur u', f cur = Ok u' -> u' = dm1c (Some cur) w) ->
  uupdate_in d p f = Ok d' -> d' = dmf d (usingle_top p w).
Proof.
  induction p as [|h r IH]; intros d f d' Hne Hw Hf H; [congruence|].
  destruct r as [|h' r'].
  - change (usingle_top [h] w) with [(h, w)]. rewrite dmf_single.
    cbn [uupdate_in] in H.
    destruct (f (match alookup h d with Some s => s | None => UD [] end)) as [u'|e] eqn:Ef; [|discriminate].
    cbn [rbind] in H. injection H as <-. apply Hf in Ef. subst u'.
    destruct (alookup h d); [reflexivity|]. now rewrite dm1c_fresh.
  - rewrite uupdate_in_cons2 in H.
    change (usingle_top (h :: h' :: r') w) with [(h, UD (usingle_top (h' :: r') w))]. rewrite dmf_single.
    destruct (alookup h d) as [[z0|l0|dc]|] eqn:Ed; try discriminate.
    + destruct (uupdate_in dc (h' :: r') f) as [dc'|e] eqn:Eu; [|discriminate].
      cbn [rbind] in H. injection H as <-.
      rewrite (IH dc f dc') by (auto; discriminate). reflexivity.
    + destruct (uupdate_in [] (h' :: r') f) as [dc'|e] eqn:Eu; [|discriminate].
      cbn [rbind] in H. injection H as <-.
      rewrite (IH [] f dc') by (auto; discriminate).
      unfold dm1c. rewrite dmf_nil_l; [reflexivity|].
      destruct r'; cbn; (constructor; [intros []|constructor]).
Qed.

(* a successful placement (mode 2) is the deep_merge of the value's spine into the inverse *)
Lemma place2_merge inv bb val inv' : uwf val = true ->
  place_mode 2 inv bb val = Ok inv' -> inv' = dmf inv (usingle_top bb val).
Proof.
  intros Hw H. unfold place_mode in H. cbn [Nat.eqb negb] in H.
  destruct bb as [|b0 bb'].
  - destruct val as [z|l|vc]; try (injection H as <-; reflexivity).
    assert (E : inv' = dmmu false (usize (UD inv) + usize (UD vc)) inv vc).
    { change (Ok (dmmu false (usize (UD inv) + usize (UD vc)) inv vc) = Ok inv') in H. congruence. }
    rewrite E. unfold usingle_top. cbn [usingle]. apply dmmu_dmf. lia.
  - assert (Hne : b0 :: bb' <> []) by discriminate.
    destruct val as [z|l|vc].
    + eapply uupdate_in_merge; eauto. intros cur u' [= <-]. destruct cur as [?|?|?]; reflexivity.
    + eapply uupdate_in_merge; eauto. intros cur u' [= <-]. destruct cur as [?|?|?]; reflexivity.
    + eapply uupdate_in_merge; eauto. intros [z0|l0|cc] u' Hf; try discriminate.
      change (Ok (UD (dmmu false (usize (UD cc) + usize (UD vc)) cc vc)) = Ok u') in Hf.
      assert (E : u' = UD (dmmu false (usize (UD cc) + usize (UD vc)) cc vc)) by congruence.
      rewrite E. unfold dm1c. rewrite dmmu_dmf by lia. reflexivity.
Qed.

(* ---- deep_merge keeps dicts well-formed ---- *)
Lemma In_aset {V} k (x : V) l k' x' : In (k', x') (aset k x l) -> (k' = k /\ x' = x) \/ In (k', x') l.
Proof.
  induction l as [|[k0 v0] l IH]; cbn.
  - intros [[= <- <-]|[]]. now left.
  - destruct (N.eqb k0 k) eqn:E; cbn.
    + apply N.eqb_eq in E. subst k0. intros [[= <- <-]|H]; auto.
    + intros [H|H]; auto. destruct (IH H); auto.
Qed.

Lemma uwf_aset k x l : uwf (UD l) = true -> uwf x = true -> uwf (UD (aset k x l)) = true.
Proof.
  intros Hl Hx. apply uwf_UD_inv in Hl as [Hnd Hs]. rewrite uwf_UD. apply uwf_go_intro.
  - now apply aset_nodup.
  - intros k' x' Hin. apply In_aset in Hin as [[_ ->]|Hin]; eauto.
Qed.

Lemma dmmu_uwf : forall n a b, uwf (UD a) = true -> uwf (UD b) = true -> uwf (UD (dmmu false n a b)) = true.
Proof.
  induction n as [|f IH]; intros a b Ha Hb; [exact Ha|].
  rewrite dmmu_false_S. apply uwf_UD_inv in Hb as [_ Hs]. revert a Ha.
  induction b as [|[k v] b IHb]; intros a Ha; [exact Ha|].
  cbn [fold_left]. apply IHb.
  - intros k' x' Hin. apply (Hs k' x'). now right.
  - unfold dmstep. cbn [fst snd]. apply uwf_aset; auto.
    pose proof (Hs k v (or_introl eq_refl)) as Hv.
    unfold dm1. destruct (alookup k a) as [[z0|l0|dc]|] eqn:Ea; auto. destruct v as [z1|l1|mc]; auto.
    apply IH; auto. exact (uwf_lookup a k (UD dc) Ha Ea).
Qed.

Lemma pfold_uwf : forall pls inv inv', (forall bb val, In (bb, val) pls -> uwf val = true) ->
  uwf (UD inv) = true -> pfold pls inv = Ok inv' -> uwf (UD inv') = true.
Proof.
  induction pls as [|[bb val] pls IH]; intros inv inv' Hv Hi H.
  - cbn in H. now injection H as <-.
  - rewrite pfold_cons in H. cbn [fst snd] in H.
    destruct (place_mode 2 inv bb val) as [inv1|e] eqn:Ep; [|discriminate]. cbn [rbind] in H.
    assert (Hval : uwf val = true) by (apply (Hv bb); now left).
    apply (IH inv1 inv'); auto.
    + intros bb' val' Hin. apply (Hv bb'). now right.
    + rewrite (place2_merge _ _ _ _ Hval Ep). apply dmmu_uwf; auto. now apply uwf_usingle_top.
Qed.

(* the inverted own state of a process is a well-formed dict if the own state is *)
Theorem invert_nm_uwf a own tp sub : uwf (UD own) = true -> invert_nm a own tp = Ok sub -> uwf (UD sub) = true.
Proof.
  intros Ho H. unfold invert_nm in H.
  destruct (inv_topo_nm_ok_plc _ _ _ _ _ _ H) as [pls [Hp Hf]].
  apply (pfold_uwf pls [] sub); auto.
  intros bb val. eapply plc_uwf; eauto.
Qed.

(* ================= what a list of placements leaves at a node ================= *)

(* the leaves of an update: scalars, multi-updates and empty dicts *)
Definition is_uleaf (x : utree) : bool := match x with UD (_ :: _) => false | _ => true end.

Definition uleaf (u : utree) (p : list key) (x : utree) : Prop := ugetu u p = Some x /\ is_uleaf x = true.

Lemma uleaf_exists : forall n u, (usize u <= n)%nat -> exists p x, uleaf u p x.
Proof.
  induction n as [|n IH]; intros u Hn.
  - destruct u; cbn in Hn; lia.
  - destruct u as [z|l|[|[k x0] c]]; try (eexists [], _; split; reflexivity).
    assert (Hx : (usize x0 <= n)%nat).
    { pose proof (usize_in ((k, x0) :: c) k x0 (or_introl eq_refl)). lia. }
    destruct (IH x0 Hx) as [p [x [Hg Hl]]]. exists (k :: p), x. split; auto.
    cbn. now rewrite N.eqb_refl.
Qed.

Lemma pcomparable_nil_r p : pcomparable p [] = true.
Proof. destruct p; reflexivity. Qed.

(* an update all of whose leaves are either the value z at r or incomparable with r: it holds z at r, or says
   nothing about r *)
Lemma leaves_at z : forall r U,
  (forall lp x, uleaf U lp x -> (lp = r /\ x = UV z) \/ pcomparable lp r = false) ->
  udisj U r = true \/ ugetu U r = Some (UV z).
Proof.
  induction r as [|k r IH]; intros U H.
  - right. destruct (uleaf_exists (usize U) U (le_n _)) as [lp [x [Hg Hl]]].
    destruct (H lp x (conj Hg Hl)) as [[-> ->]|Hc]; [exact Hg|].
    rewrite pcomparable_nil_r in Hc. discriminate.
  - destruct U as [z0|l0|c].
    + destruct (H [] (UV z0)) as [[E _]|E]; try discriminate. split; reflexivity.
    + destruct (H [] (UM l0)) as [[E _]|E]; try discriminate. split; reflexivity.
    + cbn [udisj ugetu]. destruct (alookup k c) as [x0|] eqn:E; [|now left].
      apply IH. intros lp x [Hg Hl].
      destruct (H (k :: lp) x) as [[E1 ->]|E1].
      * split; auto. cbn [ugetu]. now rewrite E.
      * left. injection E1 as ->. auto.
      * right. cbn in E1. now rewrite N.eqb_refl in E1.
Qed.

Lemma uleaf_usingle : forall bb val lp x, uleaf (usingle bb val) lp x ->
  exists rst, lp = bb ++ rst /\ uleaf val rst x.
Proof.
  induction bb as [|k bb IH]; intros val lp x Hl; [exists lp; auto|].
  destruct Hl as [Hg Hl]. cbn [usingle] in Hg. destruct lp as [|k' lp].
  - cbn in Hg. injection Hg as <-. discriminate.
  - cbn [ugetu alookup] in Hg. destruct (N.eqb k k') eqn:E; [|discriminate].
    apply N.eqb_eq in E. subst k'.
    destruct (IH val lp x (conj Hg Hl)) as [rst [-> Hr]]. exists rst. auto.
Qed.

Lemma ugetu_usingle_app bb val rst : ugetu (usingle bb val) (bb ++ rst) = ugetu val rst.
Proof. now rewrite ugetu_app, ugetu_usingle. Qed.

Lemma usingle_top_tree bb val : (bb <> [] \/ exists c, val = UD c) -> UD (usingle_top bb val) = usingle bb val.
Proof.
  intros [H|[c ->]].
  - symmetry. now apply usingle_ne_UD.
  - now rewrite usingle_UD.
Qed.

Lemma dmf_later_wins a b p z : uwf (UD b) = true -> ugetu (UD b) p = Some (UV z) ->
  uget (dmf a b) p = Some (UV z).
Proof. intros Hw Hg. unfold uget, dmf. now apply dmmu_later_wins. Qed.

Lemma dmf_keeps a b p : uwf (UD b) = true -> udisj (UD b) p = true -> uget (dmf a b) p = uget a p.
Proof. intros Hw Hd. unfold uget, dmf. now apply dmmu_keeps. Qed.

(* one placement whose leaves are z at r or incomparable with r *)
Lemma place2_at r z inv bb val inv' : r <> [] -> uwf val = true ->
  (forall rst x, uleaf val rst x -> (bb ++ rst = r /\ x = UV z) \/ pcomparable (bb ++ rst) r = false) ->
  place_mode 2 inv bb val = Ok inv' ->
  uget inv' r = Some (UV z) \/
  (uget inv' r = uget inv r /\ forall rst, bb ++ rst = r -> ugetu val rst <> Some (UV z)).
Proof.
  intros Hr Hw Hl Hp. rewrite (place2_merge _ _ _ _ Hw Hp).
  assert (Hl' : forall lp x, uleaf (usingle bb val) lp x -> (lp = r /\ x = UV z) \/ pcomparable lp r = false).
  { intros lp x H. destruct (uleaf_usingle _ _ _ _ H) as [rst [-> H']]. auto. }
  assert (Hcase : (bb <> [] \/ exists c, val = UD c) \/ (bb = [] /\ forall c, val <> UD c)).
  { destruct bb; [|left; left; discriminate]. destruct val; [right|right|left; right; eauto];
      (split; [reflexivity|discriminate]). }
  destruct Hcase as [Ht|[-> Hs]].
  - pose proof (usingle_top_tree _ _ Ht) as ET.
    pose proof (uwf_usingle_top bb val Hw) as HwT.
    destruct (leaves_at z r _ Hl') as [Hd|Hg].
    + right. split.
      * apply dmf_keeps; auto. now rewrite ET.
      * intros rst <- Hg. apply udisj_ugetu in Hd. rewrite ugetu_usingle_app in Hd. congruence.
    + left. apply dmf_later_wins; auto. now rewrite ET.
  - right. assert (E : usingle_top [] val = []).
    { unfold usingle_top. cbn [usingle]. destruct val; auto. exfalso. eapply Hs; eauto. }
    rewrite E, dmf_nil_r. split; auto.
    intros rst Hrst Hg. cbn in Hrst. subst rst.
    destruct r; [congruence|]. destruct val; try discriminate. eapply Hs; eauto.
Qed.

(* a list of placements: z ends up at r if some placement holds it there and every placed leaf is that value
   at r or is incomparable with r *)
Lemma pfold_places r z : r <> [] -> forall pls inv inv',
  (forall bb val, In (bb, val) pls -> uwf val = true) ->
  (forall bb val, In (bb, val) pls -> forall rst x, uleaf val rst x ->
     (bb ++ rst = r /\ x = UV z) \/ pcomparable (bb ++ rst) r = false) ->
  pfold pls inv = Ok inv' ->
  (uget inv r = Some (UV z) \/
   exists bb val rst, In (bb, val) pls /\ bb ++ rst = r /\ ugetu val rst = Some (UV z)) ->
  uget inv' r = Some (UV z).
Proof.
  intros Hr. induction pls as [|[bb val] pls IH]; intros inv inv' Hw Hl Hf Hz.
  - cbn in Hf. injection Hf as <-. destruct Hz as [Hz|[bb [val [rst [[] _]]]]]. exact Hz.
  - rewrite pfold_cons in Hf. cbn [fst snd] in Hf.
    destruct (place_mode 2 inv bb val) as [inv1|e] eqn:Ep; [|discriminate]. cbn [rbind] in Hf.
    assert (Hw' : forall bb' val', In (bb', val') pls -> uwf val' = true)
      by (intros bb' val' Hin; apply (Hw bb'); now right).
    assert (Hl' : forall bb' val', In (bb', val') pls -> forall rst x, uleaf val' rst x ->
              (bb' ++ rst = r /\ x = UV z) \/ pcomparable (bb' ++ rst) r = false)
      by (intros bb' val' Hin; apply Hl; now right).
    apply (IH inv1 inv' Hw' Hl' Hf).
    destruct (place2_at r z inv bb val inv1 Hr (Hw bb val (or_introl eq_refl))
                        (Hl bb val (or_introl eq_refl)) Ep) as [H1|[H1 H2]]; [now left|].
    destruct Hz as [Hz|[bb' [val' [rst [[[= <- <-]|Hin] [Hb Hg]]]]]].
    + left. now rewrite H1.
    + exfalso. eapply H2; eauto.
    + right. exists bb', val', rst. auto.
Qed.

(* ================= statement 3: the placements of a whole own state ================= *)

(* every leaf of the own state u is a value of a declared variable that the view v shows *)
Definition conf (s : schema) (v : vtree) (u : utree) : Prop :=
  forall p x, uleaf u p x ->
    (exists z, x = UV z) /\ svar_path s p = true /\ exists r, vget v p = Some (VRef r).

(* the part `val` of the update at port path pp is placed at node bb, and below pp the wiring is the identity *)
Definition Cut (s : schema) (v : vtree) (u : utree) (pp bb : list key) (val : utree) : Prop :=
  ugetu u pp = Some val /\
  forall rst r, vget v (pp ++ rst) = Some (VRef r) -> svar_path s (pp ++ rst) = true -> r = bb ++ rst.

Definition plc_spec (s : schema) (v : vtree) (u : utree) (pls : list pl) : Prop :=
  (forall bb val, In (bb, val) pls -> exists pp, Cut s v u pp bb val) /\
  (forall vp z, ugetu u vp = Some (UV z) ->
     exists pp rst bb val, vp = pp ++ rst /\ In (bb, val) pls /\ Cut s v u pp bb val).

Definition key_spec (s : schema) (v : vtree) (cu : list (key * utree)) (k : key) (val : utree) (ly : list pl)
  : Prop :=
  (forall bb val', In (bb, val') ly -> exists pp, Cut s v (UD cu) (k :: pp) bb val') /\
  (forall vp z, ugetu val vp = Some (UV z) ->
     exists pp rst bb val', vp = pp ++ rst /\ In (bb, val') ly /\ Cut s v (UD cu) (k :: pp) bb val').

Lemma spec_by_key s v cu pls (F : key -> utree -> res (list pl)) :
  (forall y, In y pls -> exists k val ly, alookup k cu = Some val /\ F k val = Ok ly /\ In y ly) ->
  (forall k val, alookup k cu = Some val -> exists ly, F k val = Ok ly /\ incl ly pls) ->
  (forall k val ly, alookup k cu = Some val -> F k val = Ok ly -> key_spec s v cu k val ly) ->
  plc_spec s v (UD cu) pls.
Proof.
  intros Hel Hin Hks. split.
  - intros bb val' Hy. destruct (Hel _ Hy) as [k [val [ly [Hk [HF Hly]]]]].
    destruct (Hks _ _ _ Hk HF) as [Hs _]. destruct (Hs _ _ Hly) as [pp Hc]. eauto.
  - intros vp z Hg. destruct vp as [|k rest]; [discriminate|]. cbn [ugetu] in Hg.
    destruct (alookup k cu) as [val|] eqn:Hk; [|discriminate].
    destruct (Hin _ _ Hk) as [ly [HF Hincl]].
    destruct (Hks _ _ _ Hk HF) as [_ Hc]. destruct (Hc _ _ Hg) as [pp [rst [bb [val' [-> [Hy HC]]]]]].
    exists (k :: pp), rst, bb, val'. split; [reflexivity|]. split; [now apply Hincl|exact HC].
Qed.

Lemma key_spec_flat s v cu k val bb : alookup k cu = Some val ->
  (forall rst r, vget v (k :: rst) = Some (VRef r) -> svar_path s (k :: rst) = true -> r = bb ++ rst) ->
  key_spec s v cu k val [(bb, val)].
Proof.
  intros Hk Hid.
  assert (HC : Cut s v (UD cu) [k] bb val).
  { split; [cbn; now rewrite Hk|exact Hid]. }
  split.
  - intros bb' val' [[= <- <-]|[]]. exists []. exact HC.
  - intros vp z Hg. exists [], vp, bb, val. split; [reflexivity|]. split; [now left|exact HC].
Qed.

Lemma Cut_lift s sub v l x cu k val pp bb val' :
  v = VNode l -> alookup k l = Some x -> alookup k cu = Some val ->
  (forall q, svar_path s (k :: q) = svar_path sub q) ->
  Cut sub x val pp bb val' -> Cut s v (UD cu) (k :: pp) bb val'.
Proof.
  intros -> Hl Hk Hsv [Hg Hid]. split.
  - cbn [ugetu]. now rewrite Hk.
  - intros rst r Hv Hs. cbn [app vget] in Hv. rewrite Hl in Hv.
    cbn [app] in Hs. rewrite Hsv in Hs. auto.
Qed.

Lemma key_spec_lift s sub v l x cu k val ly :
  v = VNode l -> alookup k l = Some x -> alookup k cu = Some val ->
  (forall q, svar_path s (k :: q) = svar_path sub q) ->
  plc_spec sub x val ly -> key_spec s v cu k val ly.
Proof.
  intros Hv Hl Hk Hsv [Hs Hc]. split.
  - intros bb val' Hy. destruct (Hs _ _ Hy) as [pp HC]. exists pp. eapply Cut_lift; eauto.
  - intros vp z Hg. destruct (Hc _ _ Hg) as [pp [rst [bb [val' [-> [Hy HC]]]]]].
    exists pp, rst, bb, val'. split; [reflexivity|]. split; [exact Hy|]. eapply Cut_lift; eauto.
Qed.

Lemma conf_lift s sub v l x cu k val :
  conf s v (UD cu) -> v = VNode l -> alookup k l = Some x -> alookup k cu = Some val ->
  (forall q, svar_path s (k :: q) = svar_path sub q) -> conf sub x val.
Proof.
  intros Hc -> Hl Hk Hsv p y [Hg Hy].
  destruct (Hc (k :: p) y) as [Hz [Hs [r Hr]]].
  { split; auto. cbn [ugetu]. now rewrite Hk. }
  split; [exact Hz|]. split; [now rewrite <- Hsv|].
  exists r. cbn [vget] in Hr. now rewrite Hl in Hr.
Qed.

(* every key of a conforming own state leads to a declared variable that the view shows *)
Lemma conf_key s v cu k val : conf s v (UD cu) -> alookup k cu = Some val ->
  exists lp r, svar_path s (k :: lp) = true /\ vget v (k :: lp) = Some (VRef r).
Proof.
  intros Hc Hk. destruct (uleaf_exists (usize val) val (le_n _)) as [lp [x [Hg Hl]]].
  destruct (Hc (k :: lp) x) as [_ [Hs [r Hr]]].
  { split; auto. cbn [ugetu]. now rewrite Hk. }
  eauto.
Qed.

(* ---- one level of the view ---- *)
Lemma named_level t a o c tp v k lp r :
  keys_ok c = true -> view t a (SNode o c) tp = Ok v -> vget v (k :: lp) = Some (VRef r) ->
  exists l sub b2 x, v = VNode l /\ plook (PK k) c = Some sub /\ alookup k l = Some x /\
                     walk t a (entry_path tp k) = Ok b2 /\ view t b2 sub (entry_sub tp k) = Ok x.
Proof.
  intros Hk Hv Hg. destruct o.
  - rewrite view_out in Hv. destruct (is_leaf_at t a); injection Hv as <-; discriminate.
  - rewrite view_node in Hv. destruct (is_leaf_at t a); [injection Hv as <-; discriminate|].
    destruct (vgo_spec _ _ _ _ _ _ Hk Hv) as [l [-> Hl]]. specialize (Hl k).
    cbn [vget] in Hg. destruct (plook (PK k) c) as [sub|].
    + destruct Hl as [b2 [x [Hw [Hx Ha]]]]. exists l, sub, b2, x. auto.
    + rewrite Hl in Hg. discriminate.
Qed.

Lemma glob_level t b o sub tp v ch lp r :
  view t b (SNode o [(PStar, sub)]) tp = Ok v -> vget v (ch :: lp) = Some (VRef r) ->
  exists l b2 x, v = VNode l /\ alookup ch l = Some x /\ walk t b (star_path tp) = Ok b2 /\
                 view t (b2 ++ [ch]) sub (star_sub tp) = Ok x.
Proof.
  intros Hv Hg. destruct o.
  - rewrite view_out in Hv. destruct (is_leaf_at t b); injection Hv as <-; discriminate.
  - rewrite view_node in Hv. destruct (is_leaf_at t b); [injection Hv as <-; discriminate|].
    rewrite vgo_glob in Hv.
    destruct (walk t b (star_path tp)) as [b2|e] eqn:Ew; [|discriminate]. cbn [rbind] in Hv.
    destruct (gfold t b2 sub (star_sub tp) (child_keys t b2) (Ok [])) as [l|e] eqn:Ef; [|discriminate].
    injection Hv as <-. cbn [vget] in Hg.
    destruct (alookup ch l) as [x|] eqn:El; [|discriminate].
    destruct (gfold_spec _ _ _ _ _ _ _ Ef ch x El) as [Ha|[Hin Hx]]; [discriminate|].
    exists l, b2, x. auto.
Qed.

Lemma svar_path_named o c k sub q : plook (PK k) c = Some sub ->
  svar_path (SNode o c) (k :: q) = svar_path sub q.
Proof. intros Hp. cbn [svar_path]. now rewrite (glob_of_plook _ _ _ Hp), Hp. Qed.

(* ---- membership in the loops ---- *)
Lemma plook_In {X} pk (c : list (pkey * X)) x : plook pk c = Some x -> In (pk, x) c.
Proof.
  induction c as [|[pk0 x0] c IH]; [discriminate|]. cbn [plook].
  destruct (pkey_eqb pk0 pk) eqn:E.
  - intros [= ->]. left. f_equal. destruct pk0, pk; try discriminate; auto.
    cbn in E. apply N.eqb_eq in E. now subst.
  - intros H. right. auto.
Qed.

Lemma keys_ok_In {X} (c : list (pkey * X)) pk x : keys_ok c = true -> In (pk, x) c ->
  exists k, pk = PK k /\ plook (PK k) c = Some x.
Proof.
  induction c as [|[pk0 x0] c IH]; intros Hk Hin; [destruct Hin|].
  destruct pk0 as [k0|]; [|discriminate]. cbn [keys_ok] in Hk. apply andb_true_iff in Hk as [Hk1 Hk].
  apply negb_true_iff in Hk1. apply existsb_plook in Hk1.
  destruct Hin as [[= <- <-]|Hin].
  - exists k0. split; auto. cbn. now rewrite N.eqb_refl.
  - destruct (IH Hk Hin) as [k [-> Hp]]. exists k. split; auto. cbn [plook]. rewrite pkey_eqb_PK.
    destruct (N.eqb k0 k) eqn:E; auto. apply N.eqb_eq in E. subst. congruence.
Qed.

Lemma rcat_cu (F : key -> utree -> res (list pl)) cu pls : NoDup (akeys cu) ->
  rcat (fun kv => F (fst kv) (snd kv)) cu = Ok pls ->
  (forall y, In y pls -> exists k val ly, alookup k cu = Some val /\ F k val = Ok ly /\ In y ly) /\
  (forall k val, alookup k cu = Some val -> exists ly, F k val = Ok ly /\ incl ly pls).
Proof.
  intros Hnd H. split.
  - intros y Hy. destruct (rcat_in_elim _ _ _ H _ Hy) as [[k val] [ly [Hkv [HF Hly]]]].
    exists k, val, ly. split; auto. now apply In_alookup.
  - intros k val Hk. apply alookup_In in Hk.
    destruct (rcat_ok_each _ _ _ H _ Hk) as [ly [HF Hi]]. eauto.
Qed.

Lemma plgo_members inner cu c' pls : keys_ok c' = true -> plgo inner cu c' = Ok pls ->
  (forall y, In y pls -> exists k val sub' ly, alookup k cu = Some val /\ plook (PK k) c' = Some sub' /\
                                             plc false inner val sub' = Ok ly /\ In y ly) /\
  (forall k val sub', alookup k cu = Some val -> plook (PK k) c' = Some sub' ->
                      exists ly, plc false inner val sub' = Ok ly /\ incl ly pls).
Proof.
  intros Hk H. rewrite plgo_rcat in H. split.
  - intros y Hy. destruct (rcat_in_elim _ _ _ H _ Hy) as [[pk sub'] [ly [He [HF Hly]]]].
    destruct (keys_ok_In _ _ _ Hk He) as [k [-> Hp]].
    unfold pentry in HF. cbn [fst snd] in HF.
    destruct (alookup k cu) as [val|] eqn:Ek; [|injection HF as <-; destruct Hly].
    exists k, val, sub', ly. auto.
  - intros k val sub' Ek Hp. apply plook_In in Hp.
    destruct (rcat_ok_each _ _ _ H _ Hp) as [ly [HF Hi]].
    unfold pentry in HF. cbn [fst snd] in HF. rewrite Ek in HF. eauto.
Qed.

(* the per-key functions of the loops over the update *)
Definition punl_f (inner : list seg) (c' : list (pkey * topo)) (k : key) (val : utree) : res (list pl) :=
  match plook (PK k) c' with
  | Some _ => Ok []
  | None => place1 (abs_keys (normalize (inner ++ [Dn k]))) val
  end.

Definition pstar_path_f (inner p : list seg) (k : key) (val : utree) : res (list pl) :=
  place1 (abs_keys (normalize (inner ++ p ++ [Dn k]))) val.

Definition pstar_dict_f (inner : list seg) (q'' : option (list seg)) (c'' : list (pkey * topo)) (k : key) (val : utree)
  : res (list pl) :=
  plc true ((match q'' with Some q => normalize (inner ++ q) | None => inner end) ++ [Dn k]) val (TDict q'' c'').

Lemma punl_rcat_f inner cu c' : punl inner cu c' = rcat (fun kv => punl_f inner c' (fst kv) (snd kv)) cu.
Proof. reflexivity. Qed.

Lemma pstar_path_rcat inner cu p :
  pstar inner cu (TPath p) = rcat (fun kv => pstar_path_f inner p (fst kv) (snd kv)) cu.
Proof. reflexivity. Qed.

Lemma pstar_dict_rcat inner cu q'' c'' :
  pstar inner cu (TDict q'' c'') = rcat (fun kv => pstar_dict_f inner q'' c'' (fst kv) (snd kv)) cu.
Proof. reflexivity. Qed.

Definition plc_char_at (t : store) (s : schema) : Prop :=
  forall c' p' a b v cu pls,
  wfs s c' (match p' with Some _ => false | None => true end) = true ->
  walk t a (match p' with Some q => q | None => [] end) = Ok b ->
  view t b s c' = Ok v -> uwf (UD cu) = true -> conf s v (UD cu) ->
  plc false (dn a) (UD cu) (TDict p' c') = Ok pls -> plc_spec s v (UD cu) pls.

(* the placements of a conforming own state: every placement is a part of the own state cut at a port path pp
   and placed at the node the view shows for pp; every value of the own state lies in such a part *)
Lemma plc_char t s : plc_char_at t s.
Proof.
  induction s as [d| |o c IHc] using schema_ind_star; intros c' p' a b v cu pls Hwf Hw Hv Hu Hconf Hp;
    try discriminate.
  rewrite wfs_node in Hwf.
  pose proof (dict_inner_walk t a p' b Hw) as Hinner.
  rewrite plc_dict, Hinner in Hp.
  destruct (uwf_UD_inv _ Hu) as [Hnd Hsubs].
  destruct (glob_of c) as [sub|] eqn:Eg.
  - (* ---- a glob node ---- *)
    apply glob_of_Some in Eg. subst c.
    inversion IHc as [|? ? IHsub _]; subst. cbn [snd] in IHsub.
    assert (Hsv : forall k q, svar_path (SNode o [(PStar, sub)]) (k :: q) = svar_path sub q) by reflexivity.
    unfold wfs_glob in Hwf.
    destruct c' as [|[[kk|] X] [|y c'r]]; try discriminate; try (destruct X; discriminate).
    + (* no '*' entry, below '_path' *)
      destruct p' as [q|]; [|discriminate]. cbn [negb andb] in Hwf.
      cbn [has_star plook] in Hp. rewrite plgo_nil, rapp_nil_l, punl_rcat_f in Hp.
      destruct (rcat_cu _ cu pls Hnd Hp) as [Hel Hin].
      apply (spec_by_key _ _ _ _ _ Hel Hin).
      intros k val ly Hk HF. unfold punl_f in HF. cbn [plook] in HF.
      rewrite normalize_dn_snoc, abs_keys_dn in HF. cbn in HF. injection HF as <-.
      apply key_spec_flat; auto.
      intros rst r Hg Hs.
      destruct (glob_level _ _ _ _ _ _ _ _ _ Hv Hg) as [l [b2 [x [-> [Hl [Hw2 Hx]]]]]].
      cbn in Hw2. injection Hw2 as <-. cbn in Hx.
      cbn [vget] in Hg. rewrite Hl in Hg. rewrite Hsv in Hs.
      apply (view_pstar_var _ _ _ _ _ _ Hwf Hx Hg Hs).
    + assert (Hp' : pstar (dn b) cu X = Ok pls).
      { unfold has_star in Hp. cbn [plook pkey_eqb] in Hp.
        rewrite plgo_star, plgo_nil, rapp_nil_r in Hp. destruct p'; exact Hp. }
      clear Hp. destruct X as [p|q'' c''].
      * (* '*': a tuple path *)
        rewrite pstar_path_rcat in Hp'.
        destruct (rcat_cu _ cu pls Hnd Hp') as [Hel Hin].
        apply (spec_by_key _ _ _ _ _ Hel Hin).
        intros k val ly Hk HF. unfold pstar_path_f in HF.
        destruct (conf_key _ _ _ _ _ Hconf Hk) as [lp [r0 [Hs0 Hg0]]].
        destruct (glob_level _ _ _ _ _ _ _ _ _ Hv Hg0) as [l [b2 [x [-> [Hl [Hw2 Hx]]]]]].
        unfold star_path, star_sub in Hw2, Hx. cbn [plook pkey_eqb] in Hw2, Hx.
        rewrite app_assoc, normalize_snoc_Dn, (walk_is_lexical _ _ _ _ Hw2), dn_snoc, abs_keys_dn in HF.
        cbn in HF. injection HF as <-.
        apply key_spec_flat; auto.
        intros rst r Hg Hs. cbn [vget] in Hg. rewrite Hl in Hg. rewrite Hsv in Hs.
        apply (view_pstar_var _ _ _ _ _ _ Hwf Hx Hg Hs).
      * (* '*': a dict *)
        destruct sub as [d| |o2 c2]; try discriminate.
        rewrite pstar_dict_rcat in Hp'.
        destruct (rcat_cu _ cu pls Hnd Hp') as [Hel Hin].
        apply (spec_by_key _ _ _ _ _ Hel Hin).
        intros k val ly Hk HF. unfold pstar_dict_f in HF.
        destruct (conf_key _ _ _ _ _ Hconf Hk) as [lp [r0 [Hs0 Hg0]]].
        destruct (glob_level _ _ _ _ _ _ _ _ _ Hv Hg0) as [l [b2 [x [-> [Hl [Hw2 Hx]]]]]].
        unfold star_path, star_sub in Hw2, Hx. cbn [plook pkey_eqb] in Hw2, Hx.
        assert (Hinner2 : match q'' with Some q0 => normalize (dn b ++ q0) | None => dn b end = dn b2).
        { destruct q'' as [q0|]; [exact (walk_is_lexical t _ _ _ Hw2)|]. cbn in Hw2. now injection Hw2 as ->. }
        destruct val as [z|lm|cu2]; try discriminate.
        rewrite Hinner2, dn_snoc, plc_skip in HF.
        eapply key_spec_lift; eauto.
        apply (IHsub c'' None (b2 ++ [k]) (b2 ++ [k]) x cu2 ly Hwf eq_refl Hx).
        -- apply (Hsubs k). now apply alookup_In.
        -- eapply conf_lift; eauto.
        -- exact HF.
  - (* ---- a named node ---- *)
    apply andb_true_iff in Hwf as [Hkc' Hwfgo].
    destruct (wfs_go_inv _ _ _ Hwfgo) as [Hk Hent].
    unfold has_star in Hp. rewrite (keys_ok_no_star _ Hkc') in Hp.
    assert (Hkey : forall k val ly, alookup k cu = Some val ->
              match plook (PK k) c' with
              | Some sub' => plc false (dn b) val sub'
              | None => place1 (abs_keys (normalize (dn b ++ [Dn k]))) val
              end = Ok ly ->
              (plook (PK k) c' = None -> p' <> None) /\ key_spec (SNode o c) v cu k val ly).
    { intros k val ly Hkc HF.
      destruct (conf_key _ _ _ _ _ Hconf Hkc) as [lp [r0 [Hs0 Hg0]]].
      destruct (named_level _ _ _ _ _ _ _ _ _ Hk Hv Hg0) as [l [sub [b2 [x [-> [Hpl [Hl [Hw2 Hx]]]]]]]].
      pose proof (Hent _ _ Hpl) as He. unfold wfs_entry in He.
      unfold entry_path, entry_sub in Hw2, Hx.
      pose proof (svar_path_named o c k sub) as Hsv.
      destruct (plook (PK k) c') as [[p|q'' c'']|] eqn:Ec'.
      - split; [discriminate|].
        rewrite plc_path, (walk_is_lexical _ _ _ _ Hw2), abs_keys_dn in HF. cbn in HF. injection HF as <-.
        apply key_spec_flat; auto.
        intros rst r Hg Hs. cbn [vget] in Hg. rewrite Hl in Hg. rewrite (Hsv rst Hpl) in Hs.
        apply (view_pstar_var _ _ _ _ _ _ He Hx Hg Hs).
      - split; [discriminate|].
        destruct sub as [d| |o2 c2]; try discriminate.
        destruct val as [z|lm|cu2]; try discriminate.
        rewrite Forall_forall in IHc. specialize (IHc _ (plook_In _ _ _ Hpl)). cbn [snd] in IHc.
        eapply key_spec_lift; eauto.
        apply (IHc c'' q'' b b2 x cu2 ly He Hw2 Hx).
        + apply (Hsubs k). now apply alookup_In.
        + eapply conf_lift; eauto.
        + exact HF.
      - destruct p' as [q|]; [|discriminate]. split; [discriminate|].
        cbn [negb andb] in He. apply walk_Dn in Hw2. subst b2.
        rewrite normalize_dn_snoc, abs_keys_dn in HF. cbn in HF. injection HF as <-.
        apply key_spec_flat; auto.
        intros rst r Hg Hs. cbn [vget] in Hg. rewrite Hl in Hg. rewrite (Hsv rst Hpl) in Hs.
        apply (view_pstar_var _ _ _ _ _ _ He Hx Hg Hs). }
    destruct p' as [q|].
    + apply rapp_ok in Hp as [l1 [l2 [H1 [H2 ->]]]].
      destruct (plgo_members _ _ _ _ Hkc' H1) as [Hel1 Hin1].
      rewrite punl_rcat_f in H2. destruct (rcat_cu _ cu l2 Hnd H2) as [Hel2 Hin2].
      apply (spec_by_key _ _ _ _ (fun k val => match plook (PK k) c' with
                                               | Some sub' => plc false (dn b) val sub'
                                               | None => place1 (abs_keys (normalize (dn b ++ [Dn k]))) val
                                               end)).
      * intros y Hy. apply in_app_or in Hy as [Hy|Hy].
        -- destruct (Hel1 _ Hy) as [k [val [sub' [ly [Hkc [Hpl' [HF Hly]]]]]]].
           exists k, val, ly. rewrite Hpl'. auto.
        -- destruct (Hel2 _ Hy) as [k [val [ly [Hkc [HF Hly]]]]]. unfold punl_f in HF.
           exists k, val, ly. destruct (plook (PK k) c'); [injection HF as <-; destruct Hly|auto].
      * intros k val Hkc. destruct (plook (PK k) c') as [sub'|] eqn:E.
        -- destruct (Hin1 _ _ _ Hkc E) as [ly [HF Hi]]. exists ly. split; auto. now apply incl_appl.
        -- destruct (Hin2 _ _ Hkc) as [ly [HF Hi]]. unfold punl_f in HF. rewrite E in HF.
           exists ly. split; auto. now apply incl_appr.
      * intros k val ly Hkc HF. apply (Hkey k val ly Hkc HF).
    + destruct (plgo_members _ _ _ _ Hkc' Hp) as [Hel1 Hin1].
      apply (spec_by_key _ _ _ _ (fun k val => match plook (PK k) c' with
                                               | Some sub' => plc false (dn b) val sub'
                                               | None => Ok []
                                               end)).
      * intros y Hy. destruct (Hel1 _ Hy) as [k [val [sub' [ly [Hkc [Hpl' [HF Hly]]]]]]].
        exists k, val, ly. rewrite Hpl'. auto.
      * intros k val Hkc. destruct (plook (PK k) c') as [sub'|] eqn:E.
        -- apply (Hin1 _ _ _ Hkc E).
        -- exists []. split; auto. intros y [].
      * intros k val ly Hkc HF. destruct (plook (PK k) c') as [sub'|] eqn:E.
        -- specialize (Hkey k val ly Hkc). rewrite E in Hkey. apply (Hkey HF).
        -- exfalso. destruct (abs_keys (normalize (dn b ++ [Dn k]))) as [tgt|e] eqn:Ea.
           ++ specialize (Hkey k val [(tgt, val)] Hkc). rewrite E, Ea in Hkey.
              destruct (Hkey eq_refl) as [Hne _]. now apply Hne.
           ++ rewrite normalize_dn_snoc, abs_keys_dn in Ea. discriminate.
Qed.

(* statement 3: ONE process, any own state.  The own state is a dict with unique keys whose every leaf is the
   value of a declared variable that the view shows (conf); the variable vp holds z and is wired to node r; every
   OTHER variable with a value in the own state is wired to a node that is neither r nor above or below r.
   Then the inverted own state (what initial_state() merges for this process) holds z at r. *)
Theorem own_value_placed t a c tp v own vp z r sub :
  wfs (SNode false c) tp true = true ->
  view t a (SNode false c) tp = Ok v ->
  uwf (UD own) = true -> conf (SNode false c) v (UD own) ->
  uget own vp = Some (UV z) -> vget v vp = Some (VRef r) -> r <> [] ->
  (forall vp' z' r', vp' <> vp -> uget own vp' = Some (UV z') -> vget v vp' = Some (VRef r') ->
                     pcomparable r' r = false) ->
  invert_nm a own tp = Ok sub ->
  uget sub r = Some (UV z).
Proof.
  intros Hwf Hv Hu Hconf Hg Hgv Hr Hother Hinv. unfold invert_nm in Hinv.
  destruct (inv_topo_nm_ok_plc _ _ _ _ _ _ Hinv) as [pls [Hplc Hfold]].
  destruct (plc_char t (SNode false c) tp None a a v own pls Hwf eq_refl Hv Hu Hconf Hplc) as [Hsound Hcover].
  unfold uget in Hg.
  destruct (Hcover vp z Hg) as [pp [rst [bb [val [Evp [Hin [Hpp Hid]]]]]]].
  destruct (Hconf vp (UV z) (conj Hg eq_refl)) as [_ [Hs _]].
  assert (Er : r = bb ++ rst) by (apply Hid; rewrite <- Evp; auto).
  assert (Hval : ugetu val rst = Some (UV z)) by (rewrite Evp, ugetu_app, Hpp in Hg; exact Hg).
  apply (pfold_places r z Hr pls [] sub).
  - intros bb' val'. eapply plc_uwf; eauto.
  - intros bb' val' Hin' rst' x' [Hgl Hl].
    destruct (Hsound _ _ Hin') as [pp' [Hpp' Hid']].
    assert (Hg' : ugetu (UD own) (pp' ++ rst') = Some x') by (now rewrite ugetu_app, Hpp').
    destruct (Hconf _ _ (conj Hg' Hl)) as [[z' ->] [Hs' [r' Hr']]].
    pose proof (Hid' _ _ Hr' Hs') as Er'.
    destruct (list_eq_dec N.eq_dec (pp' ++ rst') vp) as [E|E].
    + left. rewrite E in Hg', Hr'. rewrite Hg in Hg'. rewrite Hgv in Hr'.
      injection Hg' as <-. injection Hr' as <-. split; [now symmetry|reflexivity].
    + right. rewrite <- Er'. apply (Hother _ _ _ E Hg' Hr').
  - exact Hfold.
  - right. exists bb, val, rst. auto.
Qed.

(* statement 4, the headline: in initial_state() = Ok res,
   - process i supplies z for its variable vp, wired to node r (premises of own_value_placed),
   - no later process writes anything at, above or below r,
   - the explicit state says nothing at, above or below r;
   then res holds z at r. *)
Theorem initial_state_places t ps state res i p c v vp z r :
  composite_state ps state = Ok res ->
  nth_error ps i = Some p ->
  wfs (SNode false c) (cp_topo p) true = true ->
  view t (cp_parent p) (SNode false c) (cp_topo p) = Ok v ->
  uwf (UD (cp_own p)) = true -> conf (SNode false c) v (UD (cp_own p)) ->
  uget (cp_own p) vp = Some (UV z) -> vget v vp = Some (VRef r) -> r <> [] ->
  (forall vp' z' r', vp' <> vp -> uget (cp_own p) vp' = Some (UV z') -> vget v vp' = Some (VRef r') ->
                     pcomparable r' r = false) ->
  (forall j q s, (i < j)%nat -> nth_error ps j = Some q -> cp_sub q s ->
                 uwf (UD (cp_own q)) = true /\ uget_disjoint r s = true) ->
  uwf (UD state) = true -> uget_disjoint r state = true ->
  uget res r = Some (UV z).
Proof.
  intros Hc Hi Hwf Hv Hu Hconf Hg Hgv Hr Hother Hlater Hws Hds.
  destruct (composite_state_subs _ _ _ Hc) as [subs [HF _]].
  destruct (Forall2_nth_l _ _ _ HF _ _ Hi) as [sub [_ Hs]].
  assert (Hsw : uwf (UD sub) = true) by (exact (invert_nm_uwf _ _ _ _ Hu Hs)).
  assert (Hsg : uget sub r = Some (UV z)).
  { exact (own_value_placed t _ c _ v _ vp z r sub Hwf Hv Hu Hconf Hg Hgv Hr Hother Hs). }
  apply (initial_state_places_gen ps state res i p sub r z Hc Hi Hs Hsw Hsg); auto.
  intros j q s Hij Hj Hqs. destruct (Hlater j q s Hij Hj Hqs) as [Hq Hd]. split; auto.
  exact (invert_nm_uwf _ _ _ _ Hq Hqs).
Qed.

(* ================= checkable premises ================= *)

(* the leaves of an update with their paths *)
Fixpoint uleaves (u : utree) : list (list key * utree) :=
  match u with
  | UD c =>
    match c with
    | [] => [([], u)]
    | _ => (fix go (c : list (key * utree)) : list (list key * utree) :=
              match c with
              | [] => []
              | (k, x) :: r => map (fun px => (k :: fst px, snd px)) (uleaves x) ++ go r
              end) c
    end
  | _ => [([], u)]
  end.

Definition uleaves_go :=
  fix go (c : list (key * utree)) : list (list key * utree) :=
    match c with
    | [] => []
    | (k, x) :: r => map (fun px => (k :: fst px, snd px)) (uleaves x) ++ go r
    end.

Lemma uleaves_UD_cons kv c : uleaves (UD (kv :: c)) = uleaves_go (kv :: c).
Proof. reflexivity. Qed.

Lemma uleaves_go_in c k x0 p x : In (k, x0) c -> In (p, x) (uleaves x0) -> In (k :: p, x) (uleaves_go c).
Proof.
  induction c as [|[k1 x1] c IH]; intros Hin Hp; [destruct Hin|].
  cbn [uleaves_go]. fold uleaves_go. apply in_or_app. destruct Hin as [[= -> ->]|Hin].
  - left. apply (in_map (fun px => (k :: fst px, snd px)) _ (p, x)). exact Hp.
  - right. auto.
Qed.

Lemma uleaf_In : forall p u x, uleaf u p x -> In (p, x) (uleaves u).
Proof.
  induction p as [|k p IH]; intros u x [Hg Hl].
  - cbn in Hg. injection Hg as ->. destruct x as [z|l|[|kv c]]; try discriminate; now left.
  - cbn [ugetu] in Hg. destruct u as [z|l|c]; try discriminate.
    destruct (alookup k c) as [x0|] eqn:E; [|discriminate].
    pose proof (alookup_In _ _ _ E) as Hin. destruct c as [|kv c]; [destruct Hin|].
    rewrite uleaves_UD_cons. eapply uleaves_go_in; eauto. apply IH. split; auto.
Qed.

Definition confb (s : schema) (v : vtree) (u : utree) : bool :=
  forallb (fun px => match snd px with
                     | UV _ => svar_path s (fst px) &&
                               match vget v (fst px) with Some (VRef _) => true | _ => false end
                     | _ => false
                     end) (uleaves u).

Lemma confb_conf s v u : confb s v u = true -> conf s v u.
Proof.
  intros H p x Hl. unfold confb in H. rewrite forallb_forall in H.
  specialize (H _ (uleaf_In _ _ _ Hl)). cbn [fst snd] in H.
  destruct x as [z|l|c]; try discriminate. apply andb_true_iff in H as [Hs Hv].
  split; [eauto|]. split; [exact Hs|].
  destruct (vget v p) as [[r|cc]|]; try discriminate. eauto.
Qed.

Fixpoint peqb (p q : list key) : bool :=
  match p, q with
  | [], [] => true
  | x :: p', y :: q' => N.eqb x y && peqb p' q'
  | _, _ => false
  end.

Lemma peqb_eq p : forall q, peqb p q = true -> p = q.
Proof.
  induction p as [|x p IH]; intros [|y q] H; try discriminate; auto.
  cbn in H. apply andb_true_iff in H as [H1 H2]. apply N.eqb_eq in H1. subst. f_equal. auto.
Qed.

(* the other variables of the own state are wired to nodes incomparable with r *)
Definition othersb (v : vtree) (u : utree) (vp r : list key) : bool :=
  forallb (fun px => peqb (fst px) vp ||
                     match vget v (fst px) with
                     | Some (VRef r') => negb (pcomparable r' r)
                     | _ => true
                     end) (uleaves u).

Lemma othersb_ok v own vp r : othersb v (UD own) vp r = true ->
  forall vp' z' r', vp' <> vp -> uget own vp' = Some (UV z') -> vget v vp' = Some (VRef r') ->
                    pcomparable r' r = false.
Proof.
  intros H vp' z' r' Hne Hg Hv. unfold othersb in H. rewrite forallb_forall in H.
  specialize (H (vp', UV z') (uleaf_In _ _ _ (conj Hg eq_refl))). cbn [fst snd] in H.
  apply orb_true_iff in H as [H|H].
  - apply peqb_eq in H. contradiction.
  - rewrite Hv in H. now apply negb_true_iff in H.
Qed.

(* the later processes: own states with unique keys, inverted states disjoint from r *)
Definition laterb (r : list key) (qs : list cproc) : bool :=
  forallb (fun q => match invert_nm (cp_parent q) (cp_own q) (cp_topo q) with
                    | Ok s => uwf (UD (cp_own q)) && uget_disjoint r s
                    | Err _ => true
                    end) qs.

Lemma nth_error_skipn {A} (l : list A) : forall i j x, (i < j)%nat -> nth_error l j = Some x ->
  In x (skipn (S i) l).
Proof.
  induction l as [|a l IH]; intros i j x Hij Hj; [destruct j; discriminate|].
  destruct j as [|j]; [lia|]. cbn in Hj. cbn [skipn].
  destruct i as [|i].
  - cbn. eapply nth_error_In; eauto.
  - apply (IH i j); auto. lia.
Qed.

Theorem initial_state_places_check t ps state res i p c v vp z r :
  composite_state ps state = Ok res ->
  nth_error ps i = Some p ->
  wfs (SNode false c) (cp_topo p) true = true ->
  view t (cp_parent p) (SNode false c) (cp_topo p) = Ok v ->
  uwf (UD (cp_own p)) = true -> confb (SNode false c) v (UD (cp_own p)) = true ->
  uget (cp_own p) vp = Some (UV z) -> vget v vp = Some (VRef r) -> r <> [] ->
  othersb v (UD (cp_own p)) vp r = true ->
  laterb r (skipn (S i) ps) = true ->
  uwf (UD state) = true -> uget_disjoint r state = true ->
  uget res r = Some (UV z).
Proof.
  intros Hc Hi Hwf Hv Hu Hconf Hg Hgv Hr Hoth Hlat Hws Hds.
  apply (initial_state_places t ps state res i p c v vp z r); auto.
  - now apply confb_conf.
  - now apply othersb_ok.
  - intros j q s Hij Hj Hs. unfold laterb in Hlat. rewrite forallb_forall in Hlat.
    specialize (Hlat q (nth_error_skipn _ _ _ _ Hij Hj)). unfold cp_sub in Hs. rewrite Hs in Hlat.
    now apply andb_true_iff in Hlat.
Qed.

(* ================= examples and counterexamples ================= *)
Module CompStateEx.
Open Scope N_scope.

Definition d0 : vdecl := {| dd := Some 0%Z; dv := None; du := None; ds := None |}.
Definition leaf0 : lf := {| l_val := Some 0%Z; l_def := Some 0%Z; l_units := None; l_ser := None |}.

(* the store: two plain variables below node 20, two children (each with variable 5) below the glob node 10;
   the processes live at [30] *)
Definition t0 : store :=
  Nd [(10, Nd [(1, Nd [(5, Lf leaf0)]); (2, Nd [(5, Lf leaf0)])]);
      (20, Nd [(1, Lf leaf0); (2, Lf leaf0)]);
      (30, Nd [])].

(* process A: two variables, wired to [20; 1] and [20; 2] *)
Definition schA : list (pkey * schema) := [(PK 5, SVar d0); (PK 6, SVar d0)].
Definition pA : cproc :=
  {| cp_parent := [30];
     cp_own := [(5, UV 11%Z); (6, UV 12%Z)];
     cp_topo := [(PK 5, TPath [Up; Dn 20; Dn 1]); (PK 6, TPath [Up; Dn 20; Dn 2])] |}.

(* process B: a glob port over the children of node 10 *)
Definition schB : list (pkey * schema) := [(PK 7, SNode false [(PStar, SNode false [(PK 5, SVar d0)])])].
Definition pB : cproc :=
  {| cp_parent := [30];
     cp_own := [(7, UD [(1, UD [(5, UV 21%Z)]); (2, UD [(5, UV 22%Z)])])];
     cp_topo := [(PK 7, TPath [Up; Dn 10])] |}.

(* the composite's explicit state overrides A's second variable and adds a node of its own *)
Definition st0 : list (key * utree) := [(20, UD [(2, UV 99%Z)]); (40, UV 7%Z)].

Definition res0 : list (key * utree) :=
  [(20, UD [(1, UV 11%Z); (2, UV 99%Z)]);
   (10, UD [(1, UD [(5, UV 21%Z)]); (2, UD [(5, UV 22%Z)])]);
   (40, UV 7%Z)].

Definition vA : vtree := VNode [(5, VRef [20; 1]); (6, VRef [20; 2])].
Definition vB : vtree := VNode [(7, VNode [(1, VNode [(5, VRef [10; 1; 5])]); (2, VNode [(5, VRef [10; 2; 5])])])].

Example composite_state_ex : composite_state [pA; pB] st0 = Ok res0.
Proof. vm_compute. reflexivity. Qed.

Example views_ex :
  view t0 [30] (SNode false schA) (cp_topo pA) = Ok vA /\ view t0 [30] (SNode false schB) (cp_topo pB) = Ok vB.
Proof. split; vm_compute; reflexivity. Qed.

(* the three behaviours, each obtained from the theorems (the premises are satisfiable):
   1. A's first variable: its own value 11 is at the node [20; 1] it is wired to;
   2. B's variable 5 of child 2 (through the glob port): its own value 22 is at [10; 2; 5];
   3. A's second variable is wired to [20; 2], where the explicit state holds 99: the explicit state wins *)
Example initial_state_three_behaviours :
  forall res, composite_state [pA; pB] st0 = Ok res ->
  uget res [20; 1] = Some (UV 11%Z) /\
  uget res [10; 2; 5] = Some (UV 22%Z) /\
  uget res [20; 2] = Some (UV 99%Z) /\ uget (cp_own pA) [6] = Some (UV 12%Z) /\ vget vA [6] = Some (VRef [20; 2]).
Proof.
  intros res Hc. split; [|split; [|split; [|split]]].
  - apply (initial_state_places_check t0 [pA; pB] st0 res 0 pA schA vA [5] 11%Z [20; 1]); auto;
      try (vm_compute; reflexivity). discriminate.
  - apply (initial_state_places_check t0 [pA; pB] st0 res 1 pB schB vB [7; 2; 5] 22%Z [10; 2; 5]); auto;
      try (vm_compute; reflexivity). discriminate.
  - apply (explicit_state_wins [pA; pB] st0 res); auto.
  - reflexivity.
  - reflexivity.
Qed.

(* statement 1 on this store: one variable through the glob port *)
Example invert_nm_single_ex :
  invert_nm [30] (usingle_top [7; 2; 5] (UV 9%Z)) (cp_topo pB) = Ok (usingle_top [10; 2; 5] (UV 9%Z)).
Proof.
  apply (invert_nm_single t0 [30] schB (cp_topo pB) vB); vm_compute; reflexivity.
Qed.

(* ---- deep_merge: which premise ---- *)
(* no premise on the EARLIER dict: a scalar above p in `a` is replaced by the later dict *)
Example later_wins_over_scalar_prefix :
  let a := [(1, UV 5%Z)] in let b := [(1, UD [(2, UV 7%Z)])] in
  uget a [1] = Some (UV 5%Z) /\ uget (deep_merge_u a b) [1; 2] = Some (UV 7%Z).
Proof. split; vm_compute; reflexivity. Qed.

(* the premise that IS needed: the later dict has unique keys (as a Python dict has).  Intended statement
   without it:  uget b p = Some (UV z) -> uget (deep_merge_u a b) p = Some (UV z)  -- false: *)
Example later_wins_needs_unique_keys :
  let a := [] in let b := [(1, UV 1%Z); (1, UV 2%Z)] in
  uwf (UD b) = false /\ uget b [1] = Some (UV 1%Z) /\ uget (deep_merge_u a b) [1] = Some (UV 2%Z).
Proof. repeat split; vm_compute; reflexivity. Qed.

Example keeps_needs_unique_keys :
  let a := [(1, UD [(2, UV 5%Z)])] in let b := [(1, UD [(3, UV 1%Z)]); (1, UD [(2, UV 9%Z)])] in
  uwf (UD b) = false /\ uget_disjoint [1; 2] b = true /\
  uget a [1; 2] = Some (UV 5%Z) /\ uget (deep_merge_u a b) [1; 2] = Some (UV 9%Z).
Proof. repeat split; vm_compute; reflexivity. Qed.

(* ---- statement 3: the premises are needed ---- *)
(* two variables of ONE process wired to one node: the one inverted later wins, the first value is lost
   (own_value_placed without the `other variables` premise is false) *)
Definition pCollide : cproc :=
  {| cp_parent := [30];
     cp_own := [(5, UV 11%Z); (6, UV 12%Z)];
     cp_topo := [(PK 5, TPath [Up; Dn 20; Dn 1]); (PK 6, TPath [Up; Dn 20; Dn 1])] |}.

Example own_value_collision :
  wfs (SNode false schA) (cp_topo pCollide) true = true /\
  view t0 [30] (SNode false schA) (cp_topo pCollide) = Ok (VNode [(5, VRef [20; 1]); (6, VRef [20; 1])]) /\
  confb (SNode false schA) (VNode [(5, VRef [20; 1]); (6, VRef [20; 1])]) (UD (cp_own pCollide)) = true /\
  uget (cp_own pCollide) [5] = Some (UV 11%Z) /\
  invert_nm [30] (cp_own pCollide) (cp_topo pCollide) = Ok [(20, UD [(1, UV 12%Z)])].
Proof. repeat split; vm_compute; reflexivity. Qed.

(* an empty dict in the own state (not the value of a variable: conf fails) wired onto the variable's node
   replaces the value: own_value_placed without `conf` is false *)
Definition schE : list (pkey * schema) := [(PK 5, SVar d0); (PK 9, SNode false [(PK 1, SNode false [])])].
Definition pEmpty : cproc :=
  {| cp_parent := [30];
     cp_own := [(5, UV 11%Z); (9, UD [(1, UD [])])];
     cp_topo := [(PK 5, TPath [Up; Dn 20; Dn 1]); (PK 9, TPath [Up; Dn 20])] |}.
Definition vE : vtree := VNode [(5, VRef [20; 1]); (9, VNode [(1, VRef [20; 1])])].

Example own_value_empty_dict :
  wfs (SNode false schE) (cp_topo pEmpty) true = true /\
  view t0 [30] (SNode false schE) (cp_topo pEmpty) = Ok vE /\
  uwf (UD (cp_own pEmpty)) = true /\ confb (SNode false schE) vE (UD (cp_own pEmpty)) = false /\
  uget (cp_own pEmpty) [5] = Some (UV 11%Z) /\ vget vE [5] = Some (VRef [20; 1]) /\
  invert_nm [30] (cp_own pEmpty) (cp_topo pEmpty) = Ok [(20, UD [(1, UD [])])].
Proof. repeat split; vm_compute; reflexivity. Qed.

(* the two refutations as statements: every premise of own_value_placed but one holds, the conclusion fails *)
Lemma uget_UV_leaves own vp z : uget own vp = Some (UV z) -> In (vp, UV z) (uleaves (UD own)).
Proof. intros H. apply uleaf_In. split; auto. Qed.

Example own_value_placed_needs_others : exists t a c tp v own vp z r sub,
  wfs (SNode false c) tp true = true /\ view t a (SNode false c) tp = Ok v /\
  uwf (UD own) = true /\ conf (SNode false c) v (UD own) /\
  uget own vp = Some (UV z) /\ vget v vp = Some (VRef r) /\ r <> [] /\
  invert_nm a own tp = Ok sub /\ uget sub r <> Some (UV z).
Proof.
  exists t0, [30], schA, (cp_topo pCollide), (VNode [(5, VRef [20; 1]); (6, VRef [20; 1])]),
         (cp_own pCollide), [5], 11%Z, [20; 1], [(20, UD [(1, UV 12%Z)])].
  split; [vm_compute; reflexivity|]. split; [vm_compute; reflexivity|]. split; [reflexivity|].
  split; [apply confb_conf; vm_compute; reflexivity|]. split; [reflexivity|]. split; [reflexivity|].
  split; [discriminate|]. split; [vm_compute; reflexivity|]. vm_compute. discriminate.
Qed.

Example own_value_placed_needs_conf : exists t a c tp v own vp z r sub,
  wfs (SNode false c) tp true = true /\ view t a (SNode false c) tp = Ok v /\
  uwf (UD own) = true /\
  uget own vp = Some (UV z) /\ vget v vp = Some (VRef r) /\ r <> [] /\
  (forall vp' z' r', vp' <> vp -> uget own vp' = Some (UV z') -> vget v vp' = Some (VRef r') ->
                     pcomparable r' r = false) /\
  invert_nm a own tp = Ok sub /\ uget sub r <> Some (UV z).
Proof.
  exists t0, [30], schE, (cp_topo pEmpty), vE, (cp_own pEmpty), [5], 11%Z, [20; 1], [(20, UD [(1, UD [])])].
  split; [vm_compute; reflexivity|]. split; [vm_compute; reflexivity|]. split; [reflexivity|].
  split; [reflexivity|]. split; [reflexivity|]. split; [discriminate|]. split.
  - intros vp' z' r' Hne Hg _. exfalso. apply uget_UV_leaves in Hg. vm_compute in Hg.
    destruct Hg as [Hg|[Hg|[]]]; [|discriminate]. injection Hg as Hv _. congruence.
  - split; [vm_compute; reflexivity|]. vm_compute. discriminate.
Qed.

(* r <> []: a variable that IS the root of the store: assoc_path(inverse, (), scalar) is a no-op *)
Example own_value_root_noop :
  let t := Lf leaf0 in let c := [(PK 5, SVar d0)] in let tp := [(PK 5, TPath [Up])] in
  wfs (SNode false c) tp true = true /\ view t [30] (SNode false c) tp = Ok (VNode [(5, VRef [])]) /\
  invert_nm [30] [(5, UV 3%Z)] tp = Ok [] /\ uget [] [] = Some (UD []).
Proof. repeat split; vm_compute; reflexivity. Qed.

(* ---- statement 4: a LATER process wired to the same node wins ---- *)
Definition pA' : cproc :=
  {| cp_parent := [30]; cp_own := [(5, UV 55%Z)]; cp_topo := [(PK 5, TPath [Up; Dn 20; Dn 1])] |}.

Example later_process_wins :
  exists res, composite_state [pA; pA'] [] = Ok res /\ uget res [20; 1] = Some (UV 55%Z) /\
              laterb [20; 1] [pA'] = false.
Proof. eexists. repeat split; vm_compute; reflexivity. Qed.

End CompStateEx.

(* ================= assumptions ================= *)
Print Assumptions deep_merge_u_later_wins.
Print Assumptions deep_merge_u_keeps.
Print Assumptions initial_state_places_gen.
Print Assumptions explicit_state_wins.
Print Assumptions plc_sound.
Print Assumptions invert_nm_single.
Print Assumptions initial_state_places_single.
Print Assumptions invert_nm_uwf.
Print Assumptions place2_merge.
Print Assumptions plc_char.
Print Assumptions own_value_placed.
Print Assumptions initial_state_places.
Print Assumptions initial_state_places_check.
Print Assumptions CompStateEx.initial_state_three_behaviours.
Print Assumptions CompStateEx.own_value_placed_needs_others.
Print Assumptions CompStateEx.own_value_placed_needs_conf.
Print Assumptions CompStateEx.later_wins_needs_unique_keys.
