(* Engine.front across structural updates, end to end: the side conditions of Fronts_proofs.front_follows_identity
   (reports_follow: functional_reports, no_rotation, steps_apart; NoDup of the registered objects)
   are discharged for the reports the store really produces (Model/Struct.v: apply_op / apply_ops), so that the
   schedule entry follows the process OBJECT through the full engine step without assumptions about the reports.

   1. objs_unique: every process OBJECT (pi_obj) sits at one process node only (steps included).  cwf does not
      contain it (cwf_not_objs_unique).  Objects are drawn from the same counter as the uids (as in Model/StructC.v):
      objs_below t u says that every object of t is below the counter; the kit premises build_objs / copy_objs say
      that what Store.generate builds, and the copy an inheriting daughter gets, carry pairwise distinct objects
      from the counter on (fresh_sub).  Both invariants are preserved by every operation (apply_op_objs).
   2. engine_reports_follow_op: ONE operation, no premise on the reports.
      engine_reports_follow_ops: one update with ANY NUMBER of operations, no premise beyond those of
      engine_consistent_ops (success, ops_ok, reports_coherent).
   3. engine_front_follows_identity_op / _ops, engine_front_history.
   4. the concrete kit (structc_...).
   5. the record of repair d76c21b (front_apply_neq_refuted).  With the code before it (Model/Fronts.v:
      front_apply_neq, the test `old != path`) the theorems for several operations needed the premise no_round_trip
      (an object that is back at the path it was registered at was not under a deletion of the update), and the
      premise was needed: one update that moves a compartment away by key and back by a nested move lost the
      entry.  Since the repair the entry is kept and the update is covered by engine_front_follows_identity_ops,
      which has no such premise any more. *)
From Coq Require Import List NArith ZArith Bool Lia.
From Viv Require Import Base.Assoc Base.Tree Model.Paths Model.Steps Model.Struct Model.StructC Model.Fronts
     Proofs.Struct_proofs Proofs.Consistent_proofs Proofs.MoveP_proofs Proofs.Consistent2_proofs Proofs.Fronts_proofs.
Import ListNotations.

(* ================= 0. lists ================= *)
Lemma nodup_map_inj {A B} (f : A -> B) l x y : NoDup (map f l) -> In x l -> In y l -> f x = f y -> x = y.
Proof.
  induction l as [|a l IH]; cbn [map In]; intros Hnd Hx Hy Hf; [destruct Hx|].
  inversion Hnd as [|? ? Ha Hnd']; subst.
  destruct Hx as [->|Hx]; destruct Hy as [->|Hy].
  - reflexivity.
  - exfalso. apply Ha. rewrite Hf. apply in_map. exact Hy.
  - exfalso. apply Ha. rewrite <- Hf. apply in_map. exact Hx.
  - apply (IH Hnd' Hx Hy Hf).
Qed.

Lemma inj_nodup_map {A B} (f : A -> B) l :
  NoDup l -> (forall x y, In x l -> In y l -> f x = f y -> x = y) -> NoDup (map f l).
Proof.
  induction l as [|a l IH]; cbn [map]; intros Hnd Hinj; [constructor|].
  inversion Hnd as [|? ? Ha Hnd']; subst. constructor.
  - intros Hin. apply in_map_iff in Hin. destruct Hin as (y & Hy & Hin).
    apply Ha. rewrite <- (Hinj y a (or_intror Hin) (or_introl eq_refl) Hy). exact Hin.
  - apply IH; [exact Hnd'|]. intros x y Hx Hy. apply Hinj; right; assumption.
Qed.

Lemma not_clear_ex q ds : ~ clear_of q ds -> exists d, In d ds /\ starts_with q d = true.
Proof.
  induction ds as [|d ds IH]; intros H.
  - exfalso. apply H. intros d [].
  - destruct (starts_with q d) eqn:E; [exists d; split; [left; reflexivity|exact E]|].
    destruct IH as (d' & Hd' & Hs').
    + intros Hc. apply H. intros d0 [<-|Hd0]; [exact E|apply Hc; exact Hd0].
    + exists d'. split; [right; exact Hd'|exact Hs'].
Qed.

Lemma obj_path_notin procs o : ~ In o (map snd procs) -> obj_path procs o = None.
Proof.
  intros Hn. destruct (obj_path procs o) as [p|] eqn:E; [|reflexivity].
  exfalso. apply Hn. apply obj_path_in in E. change o with (snd (p, o)). apply in_map. exact E.
Qed.

(* ================= 1. the objects of a hierarchy ================= *)
Definition pobj (pp : list key * pinfo) : N := pi_obj (snd pp).
Definition objs (t : cnode) : list N := map pobj (proc_nodes t []).

(* every process object (Process or Step) is held by one process node only *)
Definition objs_unique (t : cnode) : Prop := NoDup (objs t).

(* objects are drawn from the counter: those of the hierarchy lie below it *)
Definition objs_below (t : cnode) (u : N) : Prop :=
  forall q pi, In (q, pi) (proc_nodes t []) -> (pi_obj pi < u)%N.

(* the form used in the proofs: the object determines the path *)
Definition objs_inj (t : cnode) : Prop :=
  forall p pi q pi', In (p, pi) (proc_nodes t []) -> In (q, pi') (proc_nodes t []) -> pi_obj pi = pi_obj pi' -> p = q.

Lemma objs_unique_inj t : objs_unique t -> objs_inj t.
Proof.
  intros Hnd p pi q pi' H1 H2 Ho.
  pose proof (nodup_map_inj pobj _ (p, pi) (q, pi') Hnd H1 H2 Ho) as He. inversion He. reflexivity.
Qed.

Lemma objs_inj_unique t : cwf t -> objs_inj t -> objs_unique t.
Proof.
  intros Hw Hinj. unfold objs_unique, objs. pose proof (proc_nodes_nodup t Hw []) as Hnd.
  apply inj_nodup_map; [apply (NoDup_map_inv fst _ Hnd)|].
  intros [p pi] [q pi'] H1 H2 Ho. unfold pobj in Ho. cbn [snd] in Ho.
  pose proof (Hinj p pi q pi' H1 H2 Ho) as Hpq. subst q. f_equal.
  apply (nodup_fst_functional _ p pi pi' Hnd H1 H2).
Qed.

Theorem objs_unique_iff t : cwf t -> (objs_unique t <-> objs_inj t).
Proof. intros Hw. split; [apply objs_unique_inj|apply (objs_inj_unique t Hw)]. Qed.

(* well-formedness (unique keys) says nothing about the objects *)
Example cwf_not_objs_unique : exists t, cwf t /\ ~ objs_unique t.
Proof.
  exists (CDir 0 false [(1%N, CProc 1 (tproc 7)); (2%N, CProc 2 (tproc 7))]).
  split; [wf_tree|]. intros H. vm_compute in H. inversion H as [|? ? Hn _]. apply Hn. left. reflexivity.
Qed.

(* a subtree whose objects are pairwise distinct and drawn from the counter u, which it leaves at u' *)
Definition fresh_sub (n : cnode) (u u' : N) : Prop :=
  NoDup (objs n) /\ (forall q pi, In (q, pi) (proc_nodes n []) -> (u <= pi_obj pi < u')%N) /\ (u <= u')%N.

Lemma table_node t b o p : consistent_procs t b -> In (p, o) (b_procs b) ->
  exists pi0, In (p, pi0) (proc_nodes t []) /\ pi_step pi0 = false /\ pi_obj pi0 = o.
Proof.
  intros [Hss _] Hin. apply Hss in Hin. apply in_proc_paths in Hin. destruct Hin as (pi & H1 & H2 & H3).
  exists pi. auto.
Qed.

(* the table of a consistent engine registers every object once *)
Lemma consistent_objs_nodup t b : consistent_procs t b -> objs_inj t -> NoDup (map snd (b_procs b)).
Proof.
  intros Hc Hinj. pose proof Hc as [_ Hnd].
  apply inj_nodup_map; [apply (NoDup_map_inv fst _ Hnd)|].
  intros [p o] [q o'] H1 H2 Ho. cbn [snd] in Ho. subst o'.
  destruct (table_node t b o p Hc H1) as (pi1 & Hi1 & _ & Ho1).
  destruct (table_node t b o q Hc H2) as (pi2 & Hi2 & _ & Ho2).
  rewrite (Hinj p pi1 q pi2 Hi1 Hi2); [reflexivity|congruence].
Qed.

(* ================= 2. what an update does to the objects ================= *)
(* where the reported nodes come from: the reports of one operation name an object at one path only, and every
   reported node was a node of t under a deletion of the same report (moved) or carries an object drawn from the
   counter between u and u' (built) *)
Definition reports_src (t : cnode) (rp : reports) (u u' : N) : Prop :=
  (forall p pi q pi', In (p, pi) (r_process rp ++ r_step rp) -> In (q, pi') (r_process rp ++ r_step rp) ->
     pi_obj pi = pi_obj pi' -> p = q) /\
  (forall q pi, In (q, pi) (r_process rp ++ r_step rp) ->
     (exists q0 d, In (q0, pi) (proc_nodes t []) /\ In d (r_deletions rp) /\ starts_with q0 d = true) \/
     (u <= pi_obj pi < u')%N).

Lemma reports_src_nil t rp u u' : r_process rp = [] -> r_step rp = [] -> reports_src t rp u u'.
Proof. intros Hp Hs. unfold reports_src. rewrite Hp, Hs. split; [intros p pi q pi' []|intros q pi []]. Qed.

(* ONE OPERATION keeps the two invariants *)
Lemma change_objs t t' rp news u u' :
  node_change t t' (r_deletions rp) news -> reports_fit t rp news -> reports_src t rp u u' -> (u <= u')%N ->
  objs_inj t -> objs_below t u -> objs_inj t' /\ objs_below t' u'.
Proof.
  intros Hch Hrf [Hs1 Hs2] Hle Hinj Hbel.
  destruct (op_upd_fit t t' rp news Hch Hrf) as [Hu _].
  assert (Hcls : forall p pi, In (p, pi) (proc_nodes t' []) ->
            (In (p, pi) (proc_nodes t []) /\ clear_of p (r_deletions rp)) \/ In (p, pi) (r_process rp ++ r_step rp)).
  { intros p pi Hin. apply Hch in Hin. destruct Hin as [[Hin|Hin] Hcl]; [left; auto|right].
    apply (upd_fit_reported _ _ _ _ _ _ Hu Hin). }
  assert (Hcross : forall p pi q pi', In (p, pi) (proc_nodes t []) -> clear_of p (r_deletions rp) ->
            In (q, pi') (r_process rp ++ r_step rp) -> pi_obj pi = pi_obj pi' -> False).
  { intros p pi q pi' Hin Hcl Hr Ho. destruct (Hs2 q pi' Hr) as [(q0 & d & Hq0 & Hd & Hsw)|Hge].
    - pose proof (Hinj p pi q0 pi' Hin Hq0 Ho) as Hpq. subst q0. rewrite (Hcl d Hd) in Hsw. discriminate Hsw.
    - pose proof (Hbel p pi Hin). lia. }
  split.
  - intros p pi q pi' H1 H2 Ho.
    destruct (Hcls p pi H1) as [[Ha Hca]|Ha]; destruct (Hcls q pi' H2) as [[Hb Hcb]|Hb].
    + apply (Hinj p pi q pi' Ha Hb Ho).
    + exfalso. apply (Hcross p pi q pi' Ha Hca Hb Ho).
    + exfalso. apply (Hcross q pi' p pi Hb Hcb Ha). symmetry. exact Ho.
    + apply (Hs1 p pi q pi' Ha Hb Ho).
  - intros q pi Hin. destruct (Hcls q pi Hin) as [[Ha _]|Ha].
    + pose proof (Hbel q pi Ha). lia.
    + destruct (Hs2 q pi Ha) as [(q0 & d & Hq0 & _)|Hge]; [|lia]. pose proof (Hbel q0 pi Hq0). lia.
Qed.

(* the nodes of a moved subtree, seen from where it was *)
Lemma moved_nodes t src node dst q pi : cwf t -> cget t src = Some node ->
  In (q, pi) (proc_nodes node dst) -> exists r, q = dst ++ r /\ In (src ++ r, pi) (proc_nodes t []).
Proof.
  intros Hw Hg Hin. rewrite proc_nodes_shift in Hin. apply in_map_iff in Hin.
  destruct Hin as ([r pi0] & Heq & Hin). cbn [fst snd] in Heq. inversion Heq; subst. exists r. split; [reflexivity|].
  assert (H : In (src ++ r, pi) (proc_nodes node src)).
  { rewrite proc_nodes_shift. apply in_map_iff. exists (r, pi). split; [reflexivity|exact Hin]. }
  apply (proc_nodes_sub t src node (src ++ r) pi Hw Hg) in H. destruct H as [_ H]. exact H.
Qed.

Lemma moved_reports_src t src node dst rp u u' : cwf t -> objs_inj t -> cget t src = Some node ->
  (forall x, In x (r_process rp ++ r_step rp) -> In x (proc_nodes node dst)) ->
  r_deletions rp = [src] -> reports_src t rp u u'.
Proof.
  intros Hw Hinj Hg Hsub Hdel. split.
  - intros p pi q pi' H1 H2 Ho. apply Hsub in H1. apply Hsub in H2.
    destruct (moved_nodes t src node dst p pi Hw Hg H1) as (r1 & -> & Hi1).
    destruct (moved_nodes t src node dst q pi' Hw Hg H2) as (r2 & -> & Hi2).
    pose proof (Hinj _ _ _ _ Hi1 Hi2 Ho) as He. apply app_inv_head in He. subst r2. reflexivity.
  - intros q pi H1. apply Hsub in H1. destruct (moved_nodes t src node dst q pi Hw Hg H1) as (r1 & -> & Hi1).
    left. exists (src ++ r1), src. split; [exact Hi1|]. split; [rewrite Hdel; left; reflexivity|apply starts_with_app].
Qed.

(* the nodes of a built subtree *)
Lemma built_inj n root p pi q pi' : NoDup (objs n) ->
  In (p, pi) (proc_nodes n root) -> In (q, pi') (proc_nodes n root) -> pi_obj pi = pi_obj pi' -> p = q.
Proof.
  intros Hnd H1 H2 Ho. rewrite proc_nodes_shift in H1, H2. apply in_map_iff in H1, H2.
  destruct H1 as ([r1 x1] & He1 & H1). destruct H2 as ([r2 x2] & He2 & H2). cbn [fst snd] in He1, He2.
  inversion He1; inversion He2; subst.
  pose proof (nodup_map_inj pobj _ (r1, pi) (r2, pi') Hnd H1 H2 Ho) as He. inversion He. reflexivity.
Qed.

Lemma built_range n root u u' q pi : fresh_sub n u u' -> In (q, pi) (proc_nodes n root) -> (u <= pi_obj pi < u')%N.
Proof.
  intros (_ & Hr & _) Hin. rewrite proc_nodes_shift in Hin. apply in_map_iff in Hin.
  destruct Hin as ([r x] & He & Hin). cbn [fst snd] in He. inversion He; subst. apply (Hr r pi Hin).
Qed.

Lemma built_reports_src t n root rp u u1 u' : fresh_sub n u u1 -> (u1 <= u')%N ->
  (forall x, In x (r_process rp ++ r_step rp) -> In x (proc_nodes n root)) -> reports_src t rp u u'.
Proof.
  intros Hf Hle Hsub. split.
  - intros p pi q pi' H1 H2 Ho. apply (built_inj n root p pi q pi' (proj1 Hf) (Hsub _ H1) (Hsub _ H2) Ho).
  - intros q pi H1. right. pose proof (built_range n root u u1 q pi Hf (Hsub _ H1)). lia.
Qed.

(* ================= 3. the side conditions, for any update described by upd_fit ================= *)
(* where the new nodes of an update come from, seen from the hierarchy before it: the record of a node of t, or
   an object drawn from the counter since *)
Definition origin (t : cnode) (u : N) (news : list (list key * pinfo)) : Prop :=
  forall q pi, In (q, pi) news -> (exists q0, In (q0, pi) (proc_nodes t [])) \/ (u <= pi_obj pi)%N.

(* R1, R3, R4: no premise beyond the description of the update *)
Lemma follow_generic t t' b rp news u : cwf t -> cwf t' -> consistent_procs t b -> objs_inj t -> objs_below t u ->
  upd_fit t t' rp news -> news_coherent news -> origin t u news ->
  reports_follow b (held_reports t' rp).
Proof.
  intros Hw Hw' Hc Hinj Hbel Hfit Hco Hor. unfold reports_follow.
  destruct (upd_fit_held t t' rp news Hw' Hfit Hco) as [Hfit' Hheld].
  pose proof (news_held_functional _ _ Hw' Hheld) as Hnf.
  destruct Hfit' as (U1 & U2 & U3 & U4 & U5 & U6).
  split; [|split].
  - intros p pi pi' H1 S1 H2 S2. apply (U5 _ _ S1) in H1. apply (U5 _ _ S2) in H2. apply (Hnf p pi pi' H1 H2).
  - intros p pi q pi' H1 S1 Ho Hne H2 S2 Hobj.
    apply obj_path_in in Ho. destruct (table_node t b _ q Hc Ho) as (pi0 & Hin0 & _ & _).
    apply (U5 _ _ S2) in H2. apply not_clear_ex. apply (U4 q pi' pi0 H2 Hin0).
  - apply steps_apart_fresh. intros p pi H1 S1 Hin.
    assert (H : In (p, pi) (step_adds (held_reports t' rp))) by (apply in_step_adds; left; auto).
    apply U6 in H. destruct H as [Hn _]. apply filter_In in Hn. destruct Hn as [Hn _].
    apply in_map_iff in Hin. destruct Hin as ([q o] & Ho & Hin). cbn [snd] in Ho. subst o.
    destruct (table_node t b _ q Hc Hin) as (pi0 & Hin0 & Hs0 & Hobj0).
    destruct (Hor p pi Hn) as [(q0 & Hq0)|Hge].
    + pose proof (Hinj q pi0 q0 pi Hin0 Hq0 Hobj0) as Hqq. subst q0.
      pose proof (nodup_fst_functional _ q pi0 pi (proc_nodes_nodup t Hw []) Hin0 Hq0) as Hpp. subst pi0. congruence.
    + pose proof (Hbel q pi0 Hin0). lia.
Qed.

(* ================= 4. the operations of the store ================= *)
Section KitF.
Variable mk_child : N -> cnode * N.
Variable D : Type.
Variable build : D -> N -> cnode * N.
Variable copy_procs : cnode -> N -> cnode * N.

(* the premises of Consistent2_proofs on the kit *)
Hypothesis mk_child_no_procs : forall u, proc_nodes (fst (mk_child u)) [] = [].
Hypothesis mk_child_cwf : forall u, cwf (fst (mk_child u)).
Hypothesis build_cwf : forall x n, cwf (fst (build x n)).
Hypothesis build_steps : forall x n p pi,
  In (p, pi) (proc_nodes (fst (build x n)) []) -> pi_in_steps pi = true -> pi_step pi = true.
Hypothesis copy_cwf : forall m n, cwf m -> cwf (fst (copy_procs m n)).
(* NEW: the counter only grows; what Store.generate builds carries pairwise distinct process objects drawn from
   the counter, and so does the copy an inheriting daughter gets of her mother's processes (a deepcopy: new
   objects) *)
Hypothesis mk_child_mono : forall u, (u <= snd (mk_child u))%N.
Hypothesis build_objs : forall d u, fresh_sub (fst (build d u)) u (snd (build d u)).
Hypothesis copy_objs : forall m u, fresh_sub (fst (copy_procs m u)) u (snd (copy_procs m u)).

Notation apply_opv vr := (apply_op mk_child D build copy_procs vr).
Notation apply_opsv vr := (apply_ops mk_child D build copy_procs vr).
Notation op_change' := (op_change mk_child D build copy_procs mk_child_no_procs mk_child_cwf build_cwf build_steps copy_cwf).
Notation apply_op_cwf' := (apply_op_cwf mk_child D build copy_procs mk_child_no_procs mk_child_cwf build_cwf copy_cwf).
Notation ops_ok' := (ops_ok mk_child D build copy_procs).

Ltac dres H a E :=
  match type of H with
  | rbind ?X _ = _ => destruct X as [a|?] eqn:E; cbn [rbind] in H; [|discriminate H]
  | (match ?X with _ => _ end) = _ => destruct X as [a|?] eqn:E; cbn [rbind] in H; [|discriminate H]
  end.

Ltac open_op H Hd :=
  let u := fresh "u" in let g := fresh "g" in let c := fresh "c" in
  destruct (apply_op_dir mk_child D build copy_procs _ _ _ _ _ _ H) as (u & g & c & Hd);
  unfold apply_op, dir_at in H; rewrite Hd in H; cbn [rbind] in H.

(* Store.set_value only draws from the counter *)
Lemma set_value_mono fuel : forall n v uid r, set_value mk_child fuel n v uid = Ok r -> (uid <= snd r)%N.
Proof.
  induction fuel as [|f IH]; intros n v uid r H; [discriminate H|].
  destruct n as [u z d|u pi|u g c]; destruct v as [z'|vc]; cbn [set_value] in H;
    try discriminate H; try (inversion H; subst; cbn [snd]; lia).
  dres H cu E. inversion H; subst r. cbn [snd].
  refine (rfold_inv _ (fun cu => (uid <= snd cu)%N) _ _ _ E _ _ _).
  - reflexivity.
  - intros [c0 u0] [k x] a1 Hg Hinv. cbn [rbind fst snd] in Hg, Hinv.
    destruct (alookup k c0) as [ch|] eqn:El.
    + dres Hg r0 Es. inversion Hg; subst a1. cbn [snd]. pose proof (IH _ _ _ _ Es). lia.
    + destruct g.
      * destruct (mk_child u0) as [ch u1] eqn:Em. dres Hg r0 Es. inversion Hg; subst a1. cbn [snd].
        pose proof (IH _ _ _ _ Es). pose proof (mk_child_mono u0) as Hm. rewrite Em in Hm. cbn [snd] in Hm. lia.
      * inversion Hg; subst a1. cbn [snd]. exact Hinv.
  - cbn [snd]. lia.
Qed.

Lemma add_uid vr t here k st uid t' rp uid' :
  apply_opv vr t here (OpAdd D k st) uid = Ok (t', rp, uid') -> (uid <= uid')%N.
Proof.
  intros H. open_op H Hd.
  destruct (alookup k c) as [x|] eqn:El; [discriminate H|].
  destruct (if g then mk_child uid else (CDir uid false [], N.succ uid)) as [ch uid1] eqn:Ech.
  dres H r Es. dres H t1 Ec. inversion H; subst.
  pose proof (set_value_mono _ _ _ _ _ Es) as Hm.
  assert (uid <= uid1)%N.
  { destruct g.
    - pose proof (mk_child_mono uid) as Hk. rewrite Ech in Hk. exact Hk.
    - inversion Ech; subst. lia. }
  lia.
Qed.

Lemma deletepath_reports vr t here p uid t' rp uid' :
  apply_opv vr t here (OpDeletePath D p) uid = Ok (t', rp, uid') -> r_process rp = [] /\ r_step rp = [].
Proof.
  intros H. open_op H Hd. destruct (v_fix_delete_path vr).
  - dres H t1 Ec. inversion H; subst. auto.
  - inversion H; subst. auto.
Qed.

(* the daughters of a division: objects drawn from the counter, pairwise distinct *)
Lemma div_subs_src here mo : forall ds sts uid subs u1,
  div_subs mk_child D build copy_procs mo ds sts uid = Ok (subs, u1) ->
  (uid <= u1)%N /\
  (forall q pi, In (q, pi) (sub_nodes here subs) -> (uid <= pi_obj pi < u1)%N) /\
  (forall p pi q pi', In (p, pi) (sub_nodes here subs) -> In (q, pi') (sub_nodes here subs) ->
     pi_obj pi = pi_obj pi' -> p = q).
Proof.
  induction ds as [|[[dk dd] dinit] ds' IH]; intros sts uid subs u1 H.
  - cbn in H. inversion H; subst. split; [lia|]. split; [intros q pi []|intros p pi q pi' []].
  - destruct sts as [|st sts'].
    + cbn in H. inversion H; subst. split; [lia|]. split; [intros q pi []|intros p pi q pi' []].
    + cbn [div_subs] in H.
      set (su := match dd with Some d => build d uid | None => copy_procs mo uid end) in H.
      assert (Hf : fresh_sub (fst su) uid (snd su)).
      { subst su. destruct dd as [d0|]; [apply build_objs|apply copy_objs]. }
      dres H r Es. dres H x Ex. destruct x as [subs' u2]. cbn [fst snd] in H. inversion H; subst subs u1. clear H.
      destruct (IH _ _ _ _ Ex) as (Hle & Hrg & Hij).
      pose proof (set_value_mono _ _ _ _ _ Es) as Hm.
      pose proof (set_value_procs mk_child mk_child_no_procs _ _ _ _ _ Es) as Hp.
      pose proof (proj2 (proj2 Hf)) as Hle0.
      assert (Hhead : forall q pi, In (q, pi) (proc_nodes (fst r) (here ++ [dk])) -> (uid <= pi_obj pi < snd su)%N).
      { intros q pi Hin. rewrite Hp in Hin. apply (built_range _ _ _ _ _ _ Hf Hin). }
      unfold sub_nodes. cbn [flat_map fst snd]. fold (sub_nodes here subs').
      split; [lia|]. split.
      * intros q pi Hin. apply in_app_or in Hin. destruct Hin as [Hin|Hin].
        -- pose proof (Hhead q pi Hin). lia.
        -- pose proof (Hrg q pi Hin). lia.
      * intros p pi q pi' H1 H2 Ho. apply in_app_or in H1. apply in_app_or in H2.
        destruct H1 as [H1|H1]; destruct H2 as [H2|H2].
        -- rewrite Hp in H1, H2. apply (built_inj _ _ p pi q pi' (proj1 Hf) H1 H2 Ho).
        -- pose proof (Hhead p pi H1). pose proof (Hrg q pi' H2). lia.
        -- pose proof (Hrg p pi H1). pose proof (Hhead q pi' H2). lia.
        -- apply (Hij p pi q pi' H1 H2 Ho).
Qed.

Lemma in_filter_sub {A} (f : A -> bool) l x : In x (filter f l) -> In x l.
Proof. intros H. apply filter_In in H. destruct H as [H _]. exact H. Qed.

(* every operation: where its reports come from; the counter only grows *)
Lemma op_reports_src vr t here o uid t' rp uid' : cwf t -> objs_inj t -> op_ok D t here o ->
  apply_opv vr t here o uid = Ok (t', rp, uid') -> reports_src t rp uid uid' /\ (uid <= uid')%N.
Proof.
  intros Hw Hinj Hok H. destruct o as [k st|src tgt|src tgt|k d init|m ds ch|k|p|k v]; cbn [op_ok] in Hok.
  - pose proof (add_uid _ _ _ _ _ _ _ _ _ H) as Hle. split; [|exact Hle].
    apply (add_inv3 mk_child D build copy_procs mk_child_no_procs mk_child_cwf) in H.
    destruct H as (nd & _ & _ & _ & _ & _ & Hp & Hs). apply (reports_src_nil t rp _ _ Hp Hs).
  - pose proof (move_inv mk_child D build copy_procs _ _ _ _ _ _ _ _ _ H) as Hmi.
    destruct Hmi as (_ & _ & _ & _ & _ & _ & _ & _ & _ & _ & Hu & _). subst uid'. split; [|lia].
    apply move_inv3 in H. destruct H as (u & g & c & node & t1 & Hd & Hl & _ & _ & _ & Hdel & Hp & Hs).
    assert (Hg : cget t (here ++ [src]) = Some node) by (rewrite cget_app, Hd, cget_cons, Hl; reflexivity).
    apply (moved_reports_src t (here ++ [src]) node (tgt ++ [src]) rp uid uid Hw Hinj Hg); [|exact Hdel].
    intros x Hx. apply in_app_or in Hx. destruct Hx as [Hx|Hx].
    + rewrite Hp in Hx. destruct (v_fix_move vr); [apply in_filter_sub in Hx|]; exact Hx.
    + rewrite Hs in Hx. apply in_filter_sub in Hx. exact Hx.
  - apply movep_inv3 in H. destruct H as (node & t0 & t1 & _ & Hg & _ & He & _ & _ & Hdel & Hp & Hs).
    split; [|apply (cestablish_mono _ _ _ _ _ He)].
    apply (moved_reports_src t (here ++ src) node (tgt ++ src) rp uid uid' Hw Hinj Hg); [|exact Hdel].
    intros x Hx. apply in_app_or in Hx. destruct Hx as [Hx|Hx].
    + rewrite Hp in Hx. apply in_filter_sub in Hx. exact Hx.
    + rewrite Hs in Hx. apply in_filter_sub in Hx. exact Hx.
  - apply generate_inv3 in H. destruct H as (r & Es & _ & -> & ->).
    pose proof (set_value_mono _ _ _ _ _ Es) as Hm. pose proof (build_objs d uid) as Hf.
    pose proof (proj2 (proj2 Hf)) as Hle0. split; [|lia].
    apply (built_reports_src t (fst (build d uid)) (here ++ [k]) _ uid (snd (build d uid)) (snd r) Hf Hm).
    intros x Hx. rewrite <- (set_value_procs mk_child mk_child_no_procs _ _ _ _ _ Es).
    cbn [reports_generated r_process r_step] in Hx. apply in_app_or in Hx.
    destruct Hx as [Hx|Hx]; apply in_filter_sub in Hx; exact Hx.
  - apply divide_inv3 in H. destruct H as (u & g & c & mo & subs & t1 & _ & _ & Hds & _ & _ & Hp & Hs & _).
    destruct (div_subs_src here mo _ _ _ _ _ Hds) as (Hle & Hrg & Hij). split; [|exact Hle].
    assert (Hsub : forall x, In x (r_process rp ++ r_step rp) -> In x (sub_nodes here subs)).
    { intros x Hx. apply in_app_or in Hx. destruct Hx as [Hx|Hx].
      - rewrite Hp in Hx. apply in_filter_sub in Hx. exact Hx.
      - rewrite Hs in Hx. apply in_filter_sub in Hx. exact Hx. }
    split.
    + intros p pi q pi' H1 H2 Ho. apply (Hij p pi q pi' (Hsub _ H1) (Hsub _ H2) Ho).
    + intros q pi H1. right. apply (Hrg q pi (Hsub _ H1)).
  - pose proof (delete_inv mk_child D build copy_procs _ _ _ _ _ _ _ _ H) as (_ & _ & Hu). subst uid'. split; [|lia].
    apply delete_inv3 in H. destruct H as (_ & _ & Hp & Hs). apply (reports_src_nil t rp _ _ Hp Hs).
  - pose proof (deletepath_inv mk_child D build copy_procs _ _ _ _ _ _ _ _ H) as (_ & Hu). subst uid'. split; [|lia].
    destruct (deletepath_reports _ _ _ _ _ _ _ _ H) as [Hp Hs]. apply (reports_src_nil t rp _ _ Hp Hs).
  - apply (upd_inv mk_child D build copy_procs) in H. destruct H as (u & g & c & _ & _ & -> & ->).
    split; [|lia]. apply reports_src_nil; reflexivity.
Qed.

(* the new nodes of one operation, seen from the hierarchy it is applied to *)
Lemma op_origin t t' rp news u u' : node_change t t' (r_deletions rp) news -> reports_fit t rp news ->
  reports_src t rp u u' -> origin t u news.
Proof.
  intros Hch Hrf [_ Hs2] q pi Hin. destruct (op_upd_fit t t' rp news Hch Hrf) as [Hu _].
  destruct (Hs2 q pi (upd_fit_reported _ _ _ _ _ _ Hu Hin)) as [(q0 & d & Hq0 & _)|Hge].
  - left. exists q0. exact Hq0.
  - right. lia.
Qed.

(* a '_move' to the very parent the source hangs under is rejected (the target already holds that key: Store.move
   would merge it as an update, which the model does not generate): no process is re-registered in place by a move *)
Theorem move_same_parent_rejected vr t here src uid u g c node :
  cget t here = Some (CDir u g c) -> alookup src c = Some node ->
  apply_opv vr t here (OpMove D src here) uid = Err EOther.
Proof.
  intros Hd Hl. unfold apply_op, dir_at. rewrite Hd. cbn [rbind]. rewrite Hl.
  rewrite cget_app, Hd, cget_cons, Hl. reflexivity.
Qed.

(* ITEM 1: the invariants are kept by every operation *)
Theorem apply_op_objs vr t here o uid t' rp uid' : cwf t -> objs_unique t -> objs_below t uid -> op_ok D t here o ->
  apply_opv vr t here o uid = Ok (t', rp, uid') -> objs_unique t' /\ objs_below t' uid' /\ (uid <= uid')%N.
Proof.
  intros Hw Hun Hbel Hok H. pose proof (objs_unique_inj t Hun) as Hinj.
  destruct (op_change' _ _ _ _ _ _ _ _ Hw Hok H) as (news & Hch & Hrf).
  destruct (op_reports_src _ _ _ _ _ _ _ _ Hw Hinj Hok H) as [Hsrc Hle].
  destruct (change_objs t t' rp news uid uid' Hch Hrf Hsrc Hle Hinj Hbel) as [Hinj' Hbel'].
  split; [apply (objs_inj_unique t' (apply_op_cwf' _ _ _ _ _ _ _ _ Hw Hok H) Hinj')|]. auto.
Qed.

(* ITEM 2, ONE OPERATION: the reports the engine registers satisfy the four side conditions; every object is
   registered once afterwards; the invariants are kept.  No premise on the reports. *)
Theorem engine_reports_follow_op vr t here o uid t' rp uid' b b' :
  cwf t -> objs_unique t -> objs_below t uid -> op_ok D t here o ->
  consistent_procs t b -> consistent_steps t b ->
  apply_opv vr t here o uid = Ok (t', rp, uid') -> engine_apply b t' rp = Ok b' ->
  reports_follow b (held_reports t' rp) /\ NoDup (map snd (b_procs b')) /\
  objs_unique t' /\ objs_below t' uid' /\ (uid <= uid')%N.
Proof.
  intros Hw Hun Hbel Hok Hcp Hcs H Hb. pose proof (objs_unique_inj t Hun) as Hinj.
  pose proof (apply_op_cwf' _ _ _ _ _ _ _ _ Hw Hok H) as Hw'.
  destruct (op_change' _ _ _ _ _ _ _ _ Hw Hok H) as (news & Hch & Hrf).
  destruct (op_upd_fit t t' rp news Hch Hrf) as [Hu Hco].
  destruct (op_reports_src _ _ _ _ _ _ _ _ Hw Hinj Hok H) as [Hsrc Hle].
  destruct (change_objs t t' rp news uid uid' Hch Hrf Hsrc Hle Hinj Hbel) as [Hinj' Hbel'].
  destruct (engine_consistent_op_any mk_child D build copy_procs mk_child_no_procs mk_child_cwf build_cwf build_steps
              copy_cwf vr t here o uid t' rp uid' b b' Hw Hok Hcp Hcs H Hb) as [Hcp' _].
  split.
  - apply (follow_generic t t' b rp news uid Hw Hw' Hcp Hinj Hbel Hu Hco
             (op_origin t t' rp news uid uid' Hch Hrf Hsrc)).
  - split; [apply (consistent_objs_nodup t' b' Hcp' Hinj')|].
    split; [apply (objs_inj_unique t' Hw' Hinj')|]. auto.
Qed.

(* ---- one update carrying several operations ---- *)
Lemma ops_fold_objs vr here l : forall t0 u0 t rp0 n0 uid t' rp uid',
  cwf t -> upd_fit t0 t rp0 n0 -> origin t0 u0 n0 -> (u0 <= uid)%N -> objs_inj t -> objs_below t uid ->
  ops_ok' vr t here l uid ->
  fold_left (fun acc o =>
               rbind acc (fun tru =>
                 let '(t', rp, uid') := tru in
                 rbind (apply_opv vr t' here o uid') (fun tru' =>
                   let '(t'', rp', uid'') := tru' in Ok (t'', rapp rp rp', uid''))))
            l (Ok (t, rp0, uid)) = Ok (t', rp, uid') ->
  cwf t' /\ (exists news, upd_fit t0 t' rp news /\ origin t0 u0 news) /\
  objs_inj t' /\ objs_below t' uid' /\ (u0 <= uid')%N.
Proof.
  induction l as [|o l IH]; intros t0 u0 t rp0 n0 uid t' rp uid' Hw Hfit Hor Hu0 Hinj Hbel Hok H.
  - cbn in H. inversion H; subst. split; [exact Hw|]. split; [exists n0; auto|]. auto.
  - cbn [fold_left rbind] in H. destruct Hok as [Hok Hrest].
    destruct (apply_opv vr t here o uid) as [[[t1 rp1] u1]|e] eqn:Eo; cbn [rbind] in H.
    + destruct (op_change' _ _ _ _ _ _ _ _ Hw Hok Eo) as (n1 & Hch & Hrf).
      destruct (op_reports_src _ _ _ _ _ _ _ _ Hw Hinj Hok Eo) as [Hsrc Hle].
      destruct (change_objs t t1 rp1 n1 uid u1 Hch Hrf Hsrc Hle Hinj Hbel) as [Hinj1 Hbel1].
      apply (IH t0 u0 t1 (rapp rp0 rp1) (n0 ++ n1) u1 t' rp uid'
                (apply_op_cwf' _ _ _ _ _ _ _ _ Hw Hok Eo) (upd_fit_step _ _ _ _ _ _ _ Hfit Hch Hrf)); try assumption.
      * intros q pi Hin. apply in_app_or in Hin. destruct Hin as [Hin|Hin]; [apply (Hor q pi Hin)|].
        destruct (op_origin t t1 rp1 n1 uid u1 Hch Hrf Hsrc q pi Hin) as [(q0 & Hq0)|Hge]; [|right; lia].
        destruct Hfit as (U1 & _). destruct (U1 q0 pi Hq0) as [[Hin0 _]|Hn0].
        -- left. exists q0. exact Hin0.
        -- apply (Hor q0 pi Hn0).
      * lia.
      * apply (Hrest t1 rp1 u1 eq_refl).
    + rewrite fold_err in H by reflexivity. discriminate H.
Qed.

Theorem apply_ops_objs vr t here ops uid t' rp uid' : cwf t -> objs_unique t -> objs_below t uid ->
  ops_ok' vr t here (order_ops D ops) uid ->
  apply_opsv vr t here ops uid = Ok (t', rp, uid') ->
  cwf t' /\ (exists news, upd_fit t t' rp news /\ origin t uid news) /\
  objs_unique t' /\ objs_below t' uid' /\ (uid <= uid')%N.
Proof.
  intros Hw Hun Hbel Hok H. unfold apply_ops in H.
  destruct (ops_fold_objs vr here _ t uid t no_reports [] uid t' rp uid' Hw (upd_fit_refl t)
              (fun q pi (Hin : In (q, pi) []) => match Hin with end) (N.le_refl uid)
              (objs_unique_inj t Hun) Hbel Hok H) as (Hw' & Hex & Hinj' & Hbel' & Hle).
  split; [exact Hw'|]. split; [exact Hex|]. split; [apply (objs_inj_unique t' Hw' Hinj')|]. auto.
Qed.

(* ITEM 2, ANY NUMBER OF OPERATIONS: the side conditions, the registration of every object once, the invariants --
   no premise beyond those of engine_consistent_ops (before repair d76c21b: no_round_trip, see section 7) *)
Theorem engine_reports_follow_ops vr t here ops uid t' rp uid' b b' :
  cwf t -> objs_unique t -> objs_below t uid ->
  ops_ok' vr t here (order_ops D ops) uid -> consistent_procs t b -> consistent_steps t b ->
  apply_opsv vr t here ops uid = Ok (t', rp, uid') -> reports_coherent rp ->
  engine_apply b t' rp = Ok b' ->
  reports_follow b (held_reports t' rp) /\ NoDup (map snd (b_procs b')) /\
  objs_unique t' /\ objs_below t' uid' /\ (uid <= uid')%N.
Proof.
  intros Hw Hun Hbel Hok Hcp Hcs H Hco Hb. pose proof (objs_unique_inj t Hun) as Hinj.
  destruct (apply_ops_objs _ _ _ _ _ _ _ _ Hw Hun Hbel Hok H) as (Hw' & (news & Hfit & Hor) & Hun' & Hbel' & Hle).
  pose proof (reports_news_coherent _ _ _ _ Hfit Hco) as Hnc.
  pose proof (engine_consistent_procs_generic t t' b b' rp news Hw' Hcp Hfit Hnc Hb) as Hcp'.
  split; [apply (follow_generic t t' b rp news uid Hw Hw' Hcp Hinj Hbel Hfit Hnc Hor)|].
  split; [apply (consistent_objs_nodup t' b' Hcp' (objs_unique_inj t' Hun'))|]. auto.
Qed.

(* an update carrying ONE operation *)
Lemma rapp_no_reports rp : rapp no_reports rp = rp.
Proof. destruct rp; reflexivity. Qed.

Lemma apply_ops_one vr t here o uid : apply_opsv vr t here [o] uid = apply_opv vr t here o uid.
Proof.
  unfold apply_ops, order_ops. cbn [mothers flat_map fold_left insert_op rbind].
  destruct (apply_opv vr t here o uid) as [[[t1 rp1] u1]|e]; cbn [rbind]; [|reflexivity].
  rewrite rapp_no_reports. reflexivity.
Qed.

Lemma single_reports_coherent t rp news : reports_fit t rp news -> reports_coherent rp.
Proof.
  intros (Hnn & _ & Hpr & Hst) q pi pi' H1 H2 _.
  assert (Hin : forall x, In (q, x) (r_process rp ++ r_step rp) -> In (q, x) news).
  { intros x Hx. apply in_app_or in Hx. destruct Hx as [Hx|Hx].
    - destruct (pi_step x) eqn:Es.
      + apply (Hst q x). apply in_step_adds. left. auto.
      + assert (H : In (q, x) (filter nonstep (r_process rp))) by (apply in_filter_nonstep; auto).
        rewrite Hpr in H. apply in_filter_nonstep in H. destruct H as [H _]. exact H.
    - apply (Hst q x). apply in_step_adds. right. exact Hx. }
  rewrite (nodup_fst_functional news q pi pi' Hnn (Hin pi H1) (Hin pi' H2)). reflexivity.
Qed.

(* ================= 5. the schedule entries through the full engine step ================= *)
Section FrontT.
Variable T : Type.

Lemma front_step b t' rp b' (fr : fronts T) :
  wf_front T (b_procs b) fr -> engine_apply b t' rp = Ok b' ->
  reports_follow b (held_reports t' rp) -> NoDup (map snd (b_procs b')) ->
  wf_front T (b_procs b') (front_apply T b fr (held_reports t' rp)) /\
  (forall o, In o (map snd (b_procs b')) ->
     entry_of T (b_procs b') (front_apply T b fr (held_reports t' rp)) o = entry_of T (b_procs b) fr o) /\
  (forall o, In o (map snd (b_procs b')) -> ~ In o (map snd (b_procs b)) ->
     entry_of T (b_procs b') (front_apply T b fr (held_reports t' rp)) o = None).
Proof.
  intros Hwf Hb (R1 & R3 & R4) Hns'. unfold engine_apply in Hb.
  assert (Hid : forall o, In o (map snd (b_procs b')) ->
            entry_of T (b_procs b') (front_apply T b fr (held_reports t' rp)) o = entry_of T (b_procs b) fr o).
  { intros o Hin. apply in_map_iff in Hin. destruct Hin as ([p' o'] & Ho & Hin). cbn [snd] in Ho. subst o'.
    apply (front_follows_identity T b b' _ fr Hwf Hb Hns' R1 R3 R4 o p' Hin). }
  split; [apply (front_apply_wf T b b' _ fr Hwf Hb Hns')|]. split; [exact Hid|].
  intros o Hin Hnew. rewrite (Hid o Hin). unfold entry_of. rewrite (obj_path_notin _ o Hnew). reflexivity.
Qed.

(* ITEM 3, ONE OPERATION: from a well-formed, consistent state every process object in the table afterwards has
   the entry it had before, an object that was not in the table has none, and the state stays well-formed *)
Theorem engine_front_follows_identity_op vr t here o uid t' rp uid' b b' (fr : fronts T) :
  cwf t -> objs_unique t -> objs_below t uid -> op_ok D t here o ->
  consistent_procs t b -> consistent_steps t b -> wf_front T (b_procs b) fr ->
  apply_opv vr t here o uid = Ok (t', rp, uid') -> engine_apply b t' rp = Ok b' ->
  wf_front T (b_procs b') (front_apply T b fr (held_reports t' rp)) /\
  (forall ob, In ob (map snd (b_procs b')) ->
     entry_of T (b_procs b') (front_apply T b fr (held_reports t' rp)) ob = entry_of T (b_procs b) fr ob) /\
  (forall ob, In ob (map snd (b_procs b')) -> ~ In ob (map snd (b_procs b)) ->
     entry_of T (b_procs b') (front_apply T b fr (held_reports t' rp)) ob = None).
Proof.
  intros Hw Hun Hbel Hok Hcp Hcs Hwf H Hb.
  destruct (engine_reports_follow_op _ _ _ _ _ _ _ _ _ _ Hw Hun Hbel Hok Hcp Hcs H Hb) as (Hfol & Hns' & _).
  apply (front_step b t' rp b' fr Hwf Hb Hfol Hns').
Qed.

(* ... one update with any number of operations: the same, and no premise on what the operations do to each other
   (a compartment moved away and back by one update keeps its entries: front_apply_neq_refuted) *)
Theorem engine_front_follows_identity_ops vr t here ops uid t' rp uid' b b' (fr : fronts T) :
  cwf t -> objs_unique t -> objs_below t uid -> ops_ok' vr t here (order_ops D ops) uid ->
  consistent_procs t b -> consistent_steps t b -> wf_front T (b_procs b) fr ->
  apply_opsv vr t here ops uid = Ok (t', rp, uid') -> reports_coherent rp ->
  engine_apply b t' rp = Ok b' ->
  wf_front T (b_procs b') (front_apply T b fr (held_reports t' rp)) /\
  (forall ob, In ob (map snd (b_procs b')) ->
     entry_of T (b_procs b') (front_apply T b fr (held_reports t' rp)) ob = entry_of T (b_procs b) fr ob) /\
  (forall ob, In ob (map snd (b_procs b')) -> ~ In ob (map snd (b_procs b)) ->
     entry_of T (b_procs b') (front_apply T b fr (held_reports t' rp)) ob = None).
Proof.
  intros Hw Hun Hbel Hok Hcp Hcs Hwf H Hco Hb.
  destruct (engine_reports_follow_ops _ _ _ _ _ _ _ _ _ _ Hw Hun Hbel Hok Hcp Hcs H Hco Hb) as (Hfol & Hns' & _).
  apply (front_step b t' rp b' fr Hwf Hb Hfol Hns').
Qed.

(* a history of updates as the engine runs them (engine_history), with the table of schedule entries alongside and
   the engine's books after each update (bs) *)
Inductive efront_history (vr : variant)
  : list (list key * list (sop D)) -> cnode -> book -> N -> fronts T -> list book ->
    cnode -> book -> N -> fronts T -> Prop :=
| efh_nil t b u fr : efront_history vr [] t b u fr [] t b u fr
| efh_cons here ops h t b u fr t1 rp u1 b1 bs t' b' u' fr' :
    ops_ok' vr t here (order_ops D ops) u -> apply_opsv vr t here ops u = Ok (t1, rp, u1) ->
    reports_coherent rp -> engine_apply b t1 rp = Ok b1 ->
    efront_history vr h t1 b1 u1 (front_apply T b fr (held_reports t1 rp)) bs t' b' u' fr' ->
    efront_history vr ((here, ops) :: h) t b u fr (b1 :: bs) t' b' u' fr'.

Lemma efront_engine_history vr h t b u fr bs t' b' u' fr' :
  efront_history vr h t b u fr bs t' b' u' fr' -> engine_history mk_child D build copy_procs vr h t b u t' b' u'.
Proof.
  intros Hh. induction Hh as [t b u fr|here ops h t b u fr t1 rp u1 b1 bs t' b' u' fr' Hok Hop Hco Hb _ IH].
  - constructor.
  - apply (ehistory_cons mk_child D build copy_procs vr here ops h t b u t1 rp u1 b1 t' b' u' Hok Hop Hco Hb IH).
Qed.

(* an update carrying one operation: op_ok and success are enough *)
Lemma efh_cons_single vr here o h t b u fr t1 rp u1 b1 bs t' b' u' fr' :
  cwf t -> op_ok D t here o -> apply_opv vr t here o u = Ok (t1, rp, u1) -> engine_apply b t1 rp = Ok b1 ->
  efront_history vr h t1 b1 u1 (front_apply T b fr (held_reports t1 rp)) bs t' b' u' fr' ->
  efront_history vr ((here, [o]) :: h) t b u fr (b1 :: bs) t' b' u' fr'.
Proof.
  intros Hw Hok H Hb Hh. pose proof H as H1. rewrite <- apply_ops_one in H1.
  destruct (op_change' _ _ _ _ _ _ _ _ Hw Hok H) as (news & Hch & Hrf).
  apply (efh_cons vr here [o] h t b u fr t1 rp u1 b1 bs t' b' u' fr'); try assumption.
  - unfold order_ops. cbn [mothers flat_map fold_left insert_op ops_ok]. split; [exact Hok|]. intros; exact I.
  - apply (single_reports_coherent t rp news Hrf).
Qed.

(* ITEM 3, HISTORIES: the well-formedness of the engine state (hierarchy, tables, schedule entries) is kept, and a
   process object that is registered after every update of the history has at the end the entry it started with,
   wherever it was moved in between *)
Theorem engine_front_history vr h t b u fr bs t' b' u' fr' :
  efront_history vr h t b u fr bs t' b' u' fr' ->
  cwf t -> objs_unique t -> objs_below t u -> consistent_procs t b -> consistent_steps t b ->
  wf_front T (b_procs b) fr ->
  (cwf t' /\ objs_unique t' /\ objs_below t' u' /\ consistent_procs t' b' /\ consistent_steps t' b' /\
   wf_front T (b_procs b') fr') /\
  forall o, (forall bi, In bi bs -> In o (map snd (b_procs bi))) ->
    entry_of T (b_procs b') fr' o = entry_of T (b_procs b) fr o.
Proof.
  intros Hh. induction Hh as [t b u fr|here ops h t b u fr t1 rp u1 b1 bs t' b' u' fr' Hok Hop Hco Hb Hh IH];
    intros Hw Hun Hbel Hcp Hcs Hwf.
  - split; [auto 10|]. intros o _. reflexivity.
  - destruct (engine_reports_follow_ops _ _ _ _ _ _ _ _ _ _ Hw Hun Hbel Hok Hcp Hcs Hop Hco Hb)
      as (Hfol & Hns1 & Hun1 & Hbel1 & _).
    destruct (engine_consistent_ops_any mk_child D build copy_procs mk_child_no_procs mk_child_cwf build_cwf build_steps
                copy_cwf vr t here ops u t1 rp u1 b b1 Hw Hok Hcp Hcs Hop Hco Hb) as (Hw1 & Hcp1 & Hcs1).
    destruct (front_step b t1 rp b1 fr Hwf Hb Hfol Hns1) as (Hwf1 & Hid & _).
    destruct (IH Hw1 Hun1 Hbel1 Hcp1 Hcs1 Hwf1) as [Hst Hent].
    split; [exact Hst|]. intros o Hall.
    rewrite (Hent o (fun bi Hbi => Hall bi (or_intror Hbi))).
    apply (Hid o (Hall b1 (or_introl eq_refl))).
Qed.

End FrontT.
End KitF.

(* ================= 6. the concrete kit of Model/StructC.v ================= *)
Lemma structc_mk_child_mono : forall u, (u <= snd (mk_child u))%N.
Proof. intros u. cbn [mk_child snd]. lia. Qed.

Ltac nd_objs := repeat (constructor; [cbn [In]; intros Hx; repeat (destruct Hx as [Hx|Hx]; [lia|]); exact Hx|]); constructor.
Ltac range_objs Hin :=
  repeat (destruct Hin as [Hin|Hin]; [inversion Hin; subst; cbn [pi_obj]; lia|]); destruct Hin.

Lemma structc_build_objs : forall d u, fresh_sub (fst (build d u)) u (snd (build d u)).
Proof.
  intros d u. unfold build, fresh_sub, objs.
  destruct (is_inert d), (no_cnt d), (has_drv d), (has_flow d); cbn [fst snd app];
    rewrite proc_nodes_dir; cbn [flat_map fst snd proc_nodes cdepth app map pobj pi_obj];
    (split; [nd_objs|split; [intros ? ? Hin; range_objs Hin|lia]]).
Qed.

Lemma structc_copy_objs : forall m u, fresh_sub (fst (copy_procs m u)) u (snd (copy_procs m u)).
Proof.
  intros m u. unfold copy_procs, mk_child, fresh_sub, objs.
  destruct (alookup kCnt (cchildren m)) as [[? ? ?|? ?|? ? ?]|]; cbn [fst snd];
    rewrite proc_nodes_dir; cbn [flat_map fst snd proc_nodes cdepth app map pobj pi_obj];
    (split; [nd_objs|split; [intros ? ? Hin; range_objs Hin|lia]]).
Qed.

(* ITEM 4: the theorems at the concrete kit *)
Local Notation K8 thm :=
  (thm mk_child N build copy_procs structc_mk_child_no_procs structc_mk_child_cwf structc_build_cwf structc_build_steps
       structc_copy_cwf structc_mk_child_mono structc_build_objs structc_copy_objs).

Theorem structc_apply_op_objs vr t here o uid t' rp uid' :
  cwf t -> objs_unique t -> objs_below t uid -> op_ok N t here o ->
  apply_op mk_child N build copy_procs vr t here o uid = Ok (t', rp, uid') ->
  objs_unique t' /\ objs_below t' uid' /\ (uid <= uid')%N.
Proof. apply (K8 apply_op_objs). Qed.

Theorem structc_engine_reports_follow_op vr t here o uid t' rp uid' b b' :
  cwf t -> objs_unique t -> objs_below t uid -> op_ok N t here o ->
  consistent_procs t b -> consistent_steps t b ->
  apply_op mk_child N build copy_procs vr t here o uid = Ok (t', rp, uid') -> kengine_apply b t' rp = Ok b' ->
  reports_follow b (held_reports t' rp) /\ NoDup (map snd (b_procs b')) /\
  objs_unique t' /\ objs_below t' uid' /\ (uid <= uid')%N.
Proof. apply (K8 engine_reports_follow_op). Qed.

Theorem structc_engine_reports_follow_ops vr t here ops uid t' rp uid' b b' :
  cwf t -> objs_unique t -> objs_below t uid ->
  ops_ok mk_child N build copy_procs vr t here (order_ops N ops) uid ->
  consistent_procs t b -> consistent_steps t b ->
  kapply_ops vr t here ops uid = Ok (t', rp, uid') -> reports_coherent rp ->
  kengine_apply b t' rp = Ok b' ->
  reports_follow b (held_reports t' rp) /\ NoDup (map snd (b_procs b')) /\
  objs_unique t' /\ objs_below t' uid' /\ (uid <= uid')%N.
Proof. apply (K8 engine_reports_follow_ops). Qed.

Theorem structc_engine_front_follows_identity_op (T : Type) vr t here o uid t' rp uid' b b' (fr : fronts T) :
  cwf t -> objs_unique t -> objs_below t uid -> op_ok N t here o ->
  consistent_procs t b -> consistent_steps t b -> wf_front T (b_procs b) fr ->
  apply_op mk_child N build copy_procs vr t here o uid = Ok (t', rp, uid') -> kengine_apply b t' rp = Ok b' ->
  wf_front T (b_procs b') (front_apply T b fr (held_reports t' rp)) /\
  (forall ob, In ob (map snd (b_procs b')) ->
     entry_of T (b_procs b') (front_apply T b fr (held_reports t' rp)) ob = entry_of T (b_procs b) fr ob) /\
  (forall ob, In ob (map snd (b_procs b')) -> ~ In ob (map snd (b_procs b)) ->
     entry_of T (b_procs b') (front_apply T b fr (held_reports t' rp)) ob = None).
Proof. apply (K8 engine_front_follows_identity_op). Qed.

Theorem structc_engine_front_follows_identity_ops (T : Type) vr t here ops uid t' rp uid' b b' (fr : fronts T) :
  cwf t -> objs_unique t -> objs_below t uid ->
  ops_ok mk_child N build copy_procs vr t here (order_ops N ops) uid ->
  consistent_procs t b -> consistent_steps t b -> wf_front T (b_procs b) fr ->
  kapply_ops vr t here ops uid = Ok (t', rp, uid') -> reports_coherent rp ->
  kengine_apply b t' rp = Ok b' ->
  wf_front T (b_procs b') (front_apply T b fr (held_reports t' rp)) /\
  (forall ob, In ob (map snd (b_procs b')) ->
     entry_of T (b_procs b') (front_apply T b fr (held_reports t' rp)) ob = entry_of T (b_procs b) fr ob) /\
  (forall ob, In ob (map snd (b_procs b')) -> ~ In ob (map snd (b_procs b)) ->
     entry_of T (b_procs b') (front_apply T b fr (held_reports t' rp)) ob = None).
Proof. apply (K8 engine_front_follows_identity_ops). Qed.

Theorem structc_engine_front_history (T : Type) vr h t b u (fr : fronts T) bs t' b' u' fr' :
  efront_history mk_child N build copy_procs T vr h t b u fr bs t' b' u' fr' ->
  cwf t -> objs_unique t -> objs_below t u -> consistent_procs t b -> consistent_steps t b ->
  wf_front T (b_procs b) fr ->
  (cwf t' /\ objs_unique t' /\ objs_below t' u' /\ consistent_procs t' b' /\ consistent_steps t' b' /\
   wf_front T (b_procs b') fr') /\
  forall o, (forall bi, In bi bs -> In o (map snd (b_procs bi))) ->
    entry_of T (b_procs b') fr' o = entry_of T (b_procs b) fr o.
Proof. apply (K8 engine_front_history). Qed.

(* the premises are satisfiable: the engine state of Consistent2_proofs (compartment 20, object 107, in colony 10) *)
Lemma pin_root_objs : objs_unique pin_root /\ objs_below pin_root 200.
Proof.
  split; [vm_compute; repeat constructor; cbn; intuition discriminate|].
  intros q pi Hin. vm_compute in Hin. repeat (destruct Hin as [Hin|Hin]; [inversion Hin; subst; reflexivity|]). destruct Hin.
Qed.

(* Compartment 20 is moved to the other colony, then a new compartment is generated: two updates of one operation
   each (no premise on the reports: efh_cons_single).  By engine_front_history the moved object 107 ends with the
   entry it started with -- the one tagged with the path it was registered at first. *)
Example structc_front_history_example :
  exists t' b' u' bs fr',
    let fr0 : fronts (list key) := map (fun po => (fst po, fst po)) (b_procs pin_book) in
    efront_history mk_child N build copy_procs (list key) vfixed
      [([10%N], [OpMove N 20%N [11%N]]); ([10%N], [OpGenerate N 21%N 0%N (Nd [])])]
      pin_root pin_book 200%N fr0 bs t' b' u' fr' /\
    In ([11%N; 20%N; kCnt], 107%N) (b_procs b') /\
    entry_of (list key) (b_procs b') fr' 107%N = Some [10%N; 20%N; kCnt].
Proof.
  eexists. eexists. eexists. eexists. eexists. cbv zeta.
  match goal with |- ?A /\ _ => assert (Hh : A) end.
  { eapply (efh_cons_single mk_child N build copy_procs structc_mk_child_no_procs structc_mk_child_cwf
              structc_build_cwf structc_build_steps structc_copy_cwf);
      [apply pin_root_ok|exact I|vm_compute; reflexivity|vm_compute; reflexivity|].
    eapply (efh_cons_single mk_child N build copy_procs structc_mk_child_no_procs structc_mk_child_cwf
              structc_build_cwf structc_build_steps structc_copy_cwf);
      [wf_tree|vm_compute; reflexivity|vm_compute; reflexivity|vm_compute; reflexivity|].
    apply efh_nil. }
  split; [exact Hh|]. split; [vm_compute; tauto|].
  destruct pin_root_ok as (Hw & Hcp & Hcs). destruct pin_root_objs as [Hun Hbel].
  assert (Hwf : wf_front (list key) (b_procs pin_book) (map (fun po => (fst po, fst po)) (b_procs pin_book))).
  { split; [vm_compute; nd_keys|]. split; [vm_compute; repeat constructor; cbn; intuition discriminate|].
    split; [vm_compute; nd_keys|]. intros p e H. vm_compute in H. vm_compute.
    destruct H as [H|[H|[]]]; inversion H; subst; auto. }
  destruct (structc_engine_front_history _ _ _ _ _ _ _ _ _ _ _ _ Hh Hw Hun Hbel Hcp Hcs Hwf) as [_ Hent].
  rewrite (Hent 107%N); [vm_compute; reflexivity|].
  intros bi Hbi. repeat (destruct Hbi as [<-|Hbi]; [vm_compute; tauto|]). destruct Hbi.
Qed.

(* ================= 7. the record of repair d76c21b: a round trip within one update ================= *)
(* what the theorems for several operations needed before the repair: no registered process is taken away and put
   back in place by the same update -- a process object that sits, after the update, at the path it was registered
   at before lies under no deletion of the update.  NO LONGER A PREMISE of anything above. *)
Definition no_round_trip (t t' : cnode) (rp : reports) : Prop :=
  forall p pi pi0, In (p, pi) (proc_nodes t' []) -> In (p, pi0) (proc_nodes t []) -> pi_step pi0 = false ->
    pi_obj pi = pi_obj pi0 -> clear_of p (r_deletions rp).

(* Directory 30 holds compartment 20 (counting process, object 107) and an empty directory 30.  ONE update addressed
   to directory 30 moves 20 into the inner 30 ('_move' by key) and moves it back with a nested '_move' whose target
   is the root (source (30, 20) relative to the node, i.e. 30/30/20; it is attached at root + (30, 20)).  The store
   ends with the same processes at the same paths (the keys of directory 30 in another order); the reports the
   engine registers name object 107 at the path it is registered at, under the reported deletion of 30/20
   (no_round_trip and not_in_place fail).
   - The code before the repair (front_apply_neq: `old != path`, so the report was no move, and _delete_path popped
     the entry) dropped the schedule entry of a process that never left its place.
   - Engine.apply_update as repaired (front_apply) keeps it: by computation, and by the general theorem
     structc_engine_front_follows_identity_ops, all of whose premises hold for this update. *)
Definition rt_root : cnode :=
  CDir 0 false [(30%N, CDir 1 false [(20%N, fst (build 0%N 100%N)); (30%N, CDir 2 false [])])].
Definition rt_book : book :=
  {| b_procs := [([30%N; 20%N; kCnt], 107%N)]; b_steps := []; b_graph := empty_graph;
     pub_processes := [([30%N; 20%N; kCnt], 107%N)]; pub_steps := []; pub_topology := [[30%N; 20%N; kCnt]];
     pub_flow := [] |}.
Definition rt_ops : list (sop N) := [OpMove N 20%N [30%N; 30%N]; OpMoveP N [30%N; 20%N] []].
Definition rt_fr0 : fronts (list key) := map (fun po => (fst po, fst po)) (b_procs rt_book).

(* the premises of structc_engine_front_follows_identity_ops hold for the round trip *)
Lemma rt_premises :
  exists t' rp u' b',
    cwf rt_root /\ objs_unique rt_root /\ objs_below rt_root 200 /\
    consistent_procs rt_root rt_book /\ consistent_steps rt_root rt_book /\
    ops_ok mk_child N build copy_procs vfixed rt_root [30%N] (order_ops N rt_ops) 200%N /\
    kapply_ops vfixed rt_root [30%N] rt_ops 200%N = Ok (t', rp, u') /\
    reports_coherent rp /\ kengine_apply rt_book t' rp = Ok b' /\
    wf_front (list key) (b_procs rt_book) rt_fr0.
Proof.
  eexists. eexists. eexists. eexists.
  split; [unfold rt_root, build; cbn; wf_tree|].
  split; [vm_compute; repeat constructor; cbn; intuition discriminate|].
  split.
  { intros q pi Hin. vm_compute in Hin.
    repeat (destruct Hin as [Hin|Hin]; [inversion Hin; subst; reflexivity|]). destruct Hin. }
  split; [split; [intros x; vm_compute; tauto|vm_compute; nd_keys]|].
  split; [split; [intros x; vm_compute; tauto|vm_compute; nd_keys]|].
  split; [solve_ops_ok|].
  split; [vm_compute; reflexivity|].
  split; [apply reports_coherentb_sound; vm_compute; reflexivity|].
  split; [vm_compute; reflexivity|].
  split; [vm_compute; nd_keys|]. split; [vm_compute; repeat constructor; cbn; intuition discriminate|].
  split; [vm_compute; nd_keys|]. intros p e H. vm_compute in H. vm_compute.
  destruct H as [H|[]]; inversion H; subst; auto.
Qed.

Theorem front_apply_neq_refuted :
  exists t' rp u' b',
    cwf rt_root /\ objs_unique rt_root /\ objs_below rt_root 200 /\
    consistent_procs rt_root rt_book /\ consistent_steps rt_root rt_book /\
    ops_ok mk_child N build copy_procs vfixed rt_root [30%N] (order_ops N rt_ops) 200%N /\
    kapply_ops vfixed rt_root [30%N] rt_ops 200%N = Ok (t', rp, u') /\
    reports_coherent rp /\ kengine_apply rt_book t' rp = Ok b' /\
    wf_front (list key) (b_procs rt_book) rt_fr0 /\
    let rph := held_reports t' rp in
    (* the update is a round trip: same processes at the same paths, object 107 under a deletion *)
    proc_paths t' = proc_paths rt_root /\ b_procs b' = b_procs rt_book /\
    ~ no_round_trip rt_root t' rp /\ ~ not_in_place rt_book rph /\
    (* the reports satisfy the side conditions of front_follows_identity *)
    reports_follow rt_book rph /\ NoDup (map snd (b_procs b')) /\
    entry_of (list key) (b_procs rt_book) rt_fr0 107%N = Some [30%N; 20%N; kCnt] /\
    (* before the repair: the entry is lost *)
    entry_of (list key) (b_procs b') (front_apply_neq (list key) rt_book rt_fr0 rph) 107%N = None /\
    (* after the repair: the entry is kept *)
    entry_of (list key) (b_procs b') (front_apply (list key) rt_book rt_fr0 rph) 107%N = Some [30%N; 20%N; kCnt] /\
    (* ... as the general theorem says, for every table of entries *)
    (forall (T : Type) (fr : fronts T), wf_front T (b_procs rt_book) fr ->
       wf_front T (b_procs b') (front_apply T rt_book fr rph) /\
       forall ob, In ob (map snd (b_procs b')) ->
         entry_of T (b_procs b') (front_apply T rt_book fr rph) ob = entry_of T (b_procs rt_book) fr ob).
Proof.
  destruct rt_premises as (t' & rp & u' & b' & Hw & Hun & Hbel & Hcp & Hcs & Hok & Hop & Hco & Hb & Hwf).
  exists t', rp, u', b'.
  repeat (split; [assumption|]). cbv zeta.
  pose proof Hop as Hop'. vm_compute in Hop'. inversion Hop'; subst t' rp u'. clear Hop'.
  pose proof Hb as Hb'. vm_compute in Hb'. inversion Hb'; subst b'. clear Hb'.
  split; [vm_compute; reflexivity|]. split; [vm_compute; reflexivity|].
  split.
  { intros H.
    specialize (H [30%N; 20%N; kCnt]
                  {| pi_step := false; pi_in_steps := false; pi_flow := None; pi_obj := 107%N |}
                  {| pi_step := false; pi_in_steps := false; pi_flow := None; pi_obj := 107%N |}).
    assert (Hc : clear_of [30%N; 20%N; kCnt] [[30%N; 20%N]; [30%N; 30%N; 20%N]]).
    { apply H; [vm_compute; tauto|vm_compute; tauto|reflexivity|reflexivity]. }
    specialize (Hc [30%N; 20%N] (or_introl eq_refl)). vm_compute in Hc. discriminate Hc. }
  split.
  { intros H.
    specialize (H [30%N; 20%N; kCnt]
                  {| pi_step := false; pi_in_steps := false; pi_flow := None; pi_obj := 107%N |}).
    assert (Hc : starts_with [30%N; 20%N; kCnt] [30%N; 20%N] = false).
    { apply H; [vm_compute; tauto|reflexivity|vm_compute; reflexivity|vm_compute; tauto]. }
    vm_compute in Hc. discriminate Hc. }
  destruct (structc_engine_reports_follow_ops _ _ _ _ _ _ _ _ _ _ Hw Hun Hbel Hok Hcp Hcs Hop Hco Hb)
    as (Hf & Hnd & _).
  split; [exact Hf|]. split; [exact Hnd|].
  split; [vm_compute; reflexivity|]. split; [vm_compute; reflexivity|]. split; [vm_compute; reflexivity|].
  intros T fr HwfT.
  destruct (structc_engine_front_follows_identity_ops T _ _ _ _ _ _ _ _ _ _ fr Hw Hun Hbel Hok Hcp Hcs HwfT Hop Hco Hb)
    as (H1 & H2 & _).
  split; [exact H1|exact H2].
Qed.

(* ... and an update of several operations that makes no round trip: compartment 20 is moved to the other colony and
   a new compartment is generated under its key by the same update *)
Example structc_move_generate_follows :
  exists t' rp u' b',
    kapply_ops vfixed pin_root [10%N] [OpMove N 20%N [11%N]; OpGenerate N 20%N 0%N (Nd [])] 200%N = Ok (t', rp, u') /\
    kengine_apply pin_book t' rp = Ok b' /\
    reports_follow pin_book (held_reports t' rp) /\ NoDup (map snd (b_procs b')) /\
    objs_unique t' /\ objs_below t' u'.
Proof.
  eexists. eexists. eexists. eexists.
  match goal with |- ?A /\ _ => assert (E1 : A) by (vm_compute; reflexivity) end.
  split; [exact E1|].
  match goal with |- ?A /\ _ => assert (E2 : A) by (vm_compute; reflexivity) end.
  split; [exact E2|].
  destruct pin_root_ok as (Hw & Hcp & Hcs). destruct pin_root_objs as [Hun Hbel].
  assert (Hok : ops_ok mk_child N build copy_procs vfixed pin_root [10%N]
                  (order_ops N [OpMove N 20%N [11%N]; OpGenerate N 20%N 0%N (Nd [])]) 200%N) by solve_ops_ok.
  match type of E1 with _ = Ok (_, ?rp1, _) =>
    assert (Hco : reports_coherent rp1) by (apply reports_coherentb_sound; vm_compute; reflexivity)
  end.
  destruct (structc_engine_reports_follow_ops _ _ _ _ _ _ _ _ _ _ Hw Hun Hbel Hok Hcp Hcs E1 Hco E2)
    as (Hf & Hnd & Hun' & Hbel' & _).
  split; [exact Hf|]. split; [exact Hnd|]. split; [exact Hun'|exact Hbel'].
Qed.

Print Assumptions objs_unique_iff.
Print Assumptions cwf_not_objs_unique.
Print Assumptions consistent_objs_nodup.
Print Assumptions change_objs.
Print Assumptions follow_generic.
Print Assumptions move_same_parent_rejected.
Print Assumptions apply_op_objs.
Print Assumptions apply_ops_objs.
Print Assumptions engine_reports_follow_op.
Print Assumptions engine_reports_follow_ops.
Print Assumptions engine_front_follows_identity_op.
Print Assumptions engine_front_follows_identity_ops.
Print Assumptions efront_engine_history.
Print Assumptions efh_cons_single.
Print Assumptions engine_front_history.
Print Assumptions structc_mk_child_mono.
Print Assumptions structc_build_objs.
Print Assumptions structc_copy_objs.
Print Assumptions structc_apply_op_objs.
Print Assumptions structc_engine_reports_follow_op.
Print Assumptions structc_engine_reports_follow_ops.
Print Assumptions structc_engine_front_follows_identity_op.
Print Assumptions structc_engine_front_follows_identity_ops.
Print Assumptions structc_engine_front_history.
Print Assumptions pin_root_objs.
Print Assumptions structc_front_history_example.
Print Assumptions rt_premises.
Print Assumptions front_apply_neq_refuted.
Print Assumptions structc_move_generate_follows.
