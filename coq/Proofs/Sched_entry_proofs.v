(* Proofs about Model/Sched.v: processes that enter and leave a running simulation.
   - after a pass every front entry belongs to a process registered when the pass began
     (iter_front_owners, deleted_process_front_dropped);
   - a registered process without a front entry is, if invoked, invoked for an interval that starts
     at the global time of the pass (new_process_starts_now), and it has an entry afterwards
     (new_process_polled).
   All four hold for every variant of the scheduler and need no hypothesis on `commit`. *)
From Coq Require Import List NArith ZArith Bool Lia Sorting.Sorted.
From Viv Require Import Model.Sched Proofs.Sched_defs Proofs.Sched_clock_proofs Proofs.Sched_once_proofs.
Import ListNotations.
Open Scope Z_scope.

Section Entry.
Variables (Sg U W : Type).
Variable poll : W -> pid -> Sg -> Z * W.
Variable cond : W -> pid -> Z -> Sg -> bool * W.
Variable next : W -> pid -> Z -> Sg -> U * W.
Variable commit : Sg -> list pid -> list (pid * U) -> Sg * list pid.

Notation st := (st Sg U W).
Notation iterv vr ee := (iter Sg U W poll cond next commit vr ee).
Notation runv vr ee := (run Sg U W poll cond next commit vr ee).
Notation run_forv vr ee := (run_for Sg U W poll cond next commit vr ee).
Notation run_callsv vr ee := (run_calls Sg U W poll cond next commit vr ee).
Notation gt := (gt Sg U W).
Notation frt := (frt Sg U W).
Notation sto := (sto Sg U W).
Notation log := (log Sg U W).

Notation procs := (procs Sg U W).
Notation wld := (wld Sg U W).
Notation front := (front U).
Notation fe := (fe U).
Notation flook := (flook U).
Notation fset := (fset U).
Notation event := (event Sg).
Notation pl := (pl Sg U W).
Notation pf := (pf Sg U W).
Notation pw := (pw Sg U W).
Notation pfull := (pfull Sg U W).
Notation pquiet := (pquiet Sg U W).
Notation plog := (plog Sg U W).
Notation pok := (pok Sg U W).
Notation keep_live := (keep_live U).
Notation drop_events := (drop_events Sg U).
Notation advance_quiet := (advance_quiet U).
Notation collect := (collect Sg U).
Notation next_event_fixed := (next_event_fixed U).
Notation pollv vr := (poll_one Sg U W poll cond next vr).
Notation polledv vr := (Sched_clock_proofs.polled Sg U W poll cond next vr).
Notation acc0 := (Sched_clock_proofs.acc0 Sg U W).

(* ------------------------------------------------------------------ *)
(* one visit of the polling loop, any variant                          *)

(* the entry consulted at the visit of p *)
Definition ent0 (now : Z) (f : front) (p : pid) : fe :=
  match flook f p with Some e => e | None => {| ft := now; fu := None; fq := false |} end.

Lemma poll_one_shape vr now endt force sg (a : pl) p :
  (forall q, q <> p -> flook (pf (pollv vr now endt force sg a p)) q = flook (pf a) q) /\
  (exists e, flook (pf (pollv vr now endt force sg a p)) p = Some e) /\
  (plog (pollv vr now endt force sg a p) = plog a \/
   plog (pollv vr now endt force sg a p) = EQuiet Sg p now :: plog a \/
   exists fut ts req,
     plog (pollv vr now endt force sg a p)
     = EInvoke Sg p (ft (ent0 now (pf a) p)) fut ts req now sg :: plog a).
Proof.
  unfold poll_one. fold (ent0 now (pf a) p).
  set (e := ent0 now (pf a) p).
  set (f0 := match flook (pf a) p with Some _ => pf a | None => fset (pf a) p e end).
  assert (Hn : forall q, q <> p -> flook f0 q = flook (pf a) q).
  { intros q Hq. unfold f0. destruct (flook (pf a) p); [reflexivity|].
    apply flook_fset_neq. exact Hq. }
  assert (Hp : exists x, flook f0 p = Some x).
  { unfold f0. destruct (flook (pf a) p) as [x|] eqn:E.
    - exists x. exact E.
    - exists e. apply flook_fset_eq. }
  assert (Hn' : forall x q, q <> p -> flook (fset f0 p x) q = flook (pf a) q).
  { intros x q Hq. rewrite flook_fset_neq by exact Hq. apply Hn. exact Hq. }
  destruct (ft e <=? now).
  - destruct (poll (pw a) p sg) as [req w1].
    set (fut := if force then Z.min (ft e + req) endt else ft e + req).
    destruct (fut <=? endt).
    + set (ts := if v_fix_ts vr && force && (endt <? ft e + req) then endt - ft e else req).
      destruct (cond w1 p ts sg) as [c w2].
      destruct c.
      * destruct (next w2 p ts sg) as [u w3].
        cbn [Sched.pf Sched.plog].
        split; [apply Hn'|]. split; [eexists; apply flook_fset_eq|].
        right; right. exists fut, ts, req. reflexivity.
      * cbn [Sched.pf Sched.plog].
        split; [apply Hn'|]. split; [eexists; apply flook_fset_eq|].
        right; left. reflexivity.
    + cbn [Sched.pf Sched.plog].
      split; [exact Hn|]. split; [exact Hp|]. left. reflexivity.
  - cbn [Sched.pf Sched.plog].
    split; [exact Hn|]. split; [exact Hp|]. left. reflexivity.
Qed.

(* ------------------------------------------------------------------ *)
(* the polling loop: which keys have an entry                          *)

Section Fold.
Variables (vr : variant) (now endt : Z) (force : bool) (sg : Sg).

Notation stepv := (pollv vr now endt force sg).

(* every key of the result is a key of the initial front or a visited process *)
Lemma fold_keys_from : forall (l : list pid) (a : pl) q e,
  flook (pf (fold_left stepv l a)) q = Some e ->
  (exists e0, flook (pf a) q = Some e0) \/ In q l.
Proof.
  induction l as [|p l IH]; intros a q e H; cbn [fold_left] in H.
  - left. exists e. exact H.
  - destruct (IH _ _ _ H) as [[e0 H0]|Hin]; [|right; right; exact Hin].
    destruct (N.eq_dec q p) as [->|Hne]; [right; left; reflexivity|].
    left. exists e0.
    destruct (poll_one_shape vr now endt force sg a p) as [Hn _].
    rewrite <- (Hn q Hne). exact H0.
Qed.

(* entries are never removed, and every visited process gets one *)
Lemma fold_keys_to : forall (l : list pid) (a : pl) q,
  (exists e0, flook (pf a) q = Some e0) \/ In q l ->
  exists e, flook (pf (fold_left stepv l a)) q = Some e.
Proof.
  induction l as [|p l IH]; intros a q H; cbn [fold_left].
  - destruct H as [H|[]]. exact H.
  - apply IH.
    destruct (poll_one_shape vr now endt force sg a p) as [Hn [Hp _]].
    destruct (N.eq_dec q p) as [->|Hne]; [left; exact Hp|].
    destruct H as [[e0 H0]|[Heq|Hin]].
    + left. exists e0. rewrite (Hn q Hne). exact H0.
    + congruence.
    + right. exact Hin.
Qed.

(* ------------------------------------------------------------------ *)
(* the polling loop: the invocations of a process without an entry    *)

Variable p : pid.

(* an invocation logged by this loop, of a process other than p *)
Definition Nev (v : event) : Prop :=
  match v with EInvoke _ q _ _ _ _ n _ => n = now /\ q <> p | _ => True end.

(* an invocation logged by this loop; when it is p's, its interval starts now *)
Definition Pev (v : event) : Prop :=
  match v with EInvoke _ q start _ _ _ n _ => n = now /\ (q = p -> start = now) | _ => True end.

Lemma Nev_Pev v : Nev v -> Pev v.
Proof. destruct v; cbn; tauto. Qed.

(* once p has been visited (or is not in the table) nothing more is logged for it *)
Lemma fold_not_p : forall (l : list pid) (a : pl) v,
  ~ In p l -> In v (plog (fold_left stepv l a)) -> In v (plog a) \/ Nev v.
Proof.
  induction l as [|q l IH]; intros a v Hnot Hin; cbn [fold_left] in Hin; [left; exact Hin|].
  assert (Hqp : q <> p) by (intros ->; apply Hnot; left; reflexivity).
  assert (Hnl : ~ In p l) by (intros H; apply Hnot; right; exact H).
  destruct (IH _ _ Hnl Hin) as [H|H]; [|right; exact H].
  destruct (poll_one_shape vr now endt force sg a q) as [_ [_ [Hl|[Hl|[fut [ts [req Hl]]]]]]];
    rewrite Hl in H.
  - left. exact H.
  - destruct H as [<-|H]; [right; exact I|left; exact H].
  - destruct H as [<-|H]; [right; split; [reflexivity|exact Hqp]|left; exact H].
Qed.

Lemma fold_new_p : forall (l : list pid) (a : pl) v,
  NoDup l -> flook (pf a) p = None ->
  In v (plog (fold_left stepv l a)) -> In v (plog a) \/ Pev v.
Proof.
  induction l as [|q l IH]; intros a v Hnd Hnone Hin; cbn [fold_left] in Hin; [left; exact Hin|].
  inversion Hnd as [|x y Hql Hndl]; subst.
  destruct (N.eq_dec q p) as [->|Hqp].
  - (* the visit of p itself *)
    destruct (fold_not_p _ _ _ Hql Hin) as [H|H]; [|right; apply Nev_Pev; exact H].
    destruct (poll_one_shape vr now endt force sg a p) as [_ [_ [Hl|[Hl|[fut [ts [req Hl]]]]]]];
      rewrite Hl in H.
    + left. exact H.
    + destruct H as [<-|H]; [right; exact I|left; exact H].
    + destruct H as [<-|H]; [|left; exact H].
      right. unfold ent0. rewrite Hnone. cbn [Sched.ft Pev].
      split; [reflexivity|]. intros _. reflexivity.
  - (* the visit of another process: p still has no entry *)
    destruct (poll_one_shape vr now endt force sg a q) as [Hn [_ Hlog]].
    assert (Hnone' : flook (pf (stepv a q)) p = None).
    { rewrite (Hn p); [exact Hnone|]. intros ->. apply Hqp. reflexivity. }
    destruct (IH _ _ Hndl Hnone' Hin) as [H|H]; [|right; exact H].
    destruct Hlog as [Hl|[Hl|[fut [ts [req Hl]]]]]; rewrite Hl in H.
    + left. exact H.
    + destruct H as [<-|H]; [right; exact I|left; exact H].
    + destruct H as [<-|H]; [|left; exact H].
      right. cbn [Pev]. split; [reflexivity|]. intros Heq. contradiction.
Qed.

End Fold.

(* ------------------------------------------------------------------ *)
(* one pass: its front and its log in terms of the polling loop        *)

Lemma flook_collect now (f f2 : front) us ev p :
  collect now f = (f2, us, ev) -> flook f2 p = option_map (col1 U now) (flook f p).
Proof.
  intros H. destruct (collect_inv _ _ _ _ _ _ _ H) as [-> _].
  apply (flook_colf U now f p).
Qed.

Lemma option_map_none {A B} (g : A -> B) (o : option A) : option_map g o = None <-> o = None.
Proof. destruct o; cbn; split; intros H; try discriminate; reflexivity. Qed.

(* the pass keeps exactly the keys the polling loop ended with *)
Lemma iter_front_keys vr ee endt force et (s s' : st) f' et' ok p :
  iterv vr ee endt force et s = (s', f', et', ok) ->
  (flook (frt s') p = None <-> flook (pf (polledv vr endt force s)) p = None).
Proof.
  intros H.
  destruct (Sched_clock_proofs.iter_cases _ _ _ _ _ _ _ _ _ _ _ _ _ _ _ _ _ H) as [_ [_ Hc]].
  destruct Hc as [C|[C|[C|C]]].
  - destruct C as [_ [_ [_ ->]]]. cbn [Sched.frt].
    rewrite flook_advance_quiet. apply option_map_none.
  - destruct C as [_ [_ [_ ->]]]. cbn [Sched.frt]. tauto.
  - destruct C as (d & f2 & us & ev & sto' & procs' & rows & _ & _ & Hcol & _ & _ & ->).
    cbn [Sched.frt]. rewrite (flook_collect _ _ _ _ _ p Hcol), flook_advance_quiet.
    rewrite !option_map_none. tauto.
  - destruct C as (d & _ & _ & _ & ->). cbn [Sched.frt]. tauto.
Qed.

(* what the pass logs on top of the polling loop is rows and applications *)
Lemma iter_log_over_polled vr ee endt force et (s s' : st) f' et' ok v :
  iterv vr ee endt force et s = (s', f', et', ok) ->
  In v (log s') ->
  In v (plog (polledv vr endt force s)) \/ is_emit v = true \/ is_apply v = true.
Proof.
  intros H Hin.
  destruct (Sched_clock_proofs.iter_cases _ _ _ _ _ _ _ _ _ _ _ _ _ _ _ _ _ H) as [_ [_ Hc]].
  destruct Hc as [C|[C|[C|C]]].
  - destruct C as [_ [_ [_ ->]]]. left. exact Hin.
  - destruct C as [_ [_ [_ ->]]]. left. exact Hin.
  - destruct C as (d & f2 & us & ev & sto' & procs' & rows & _ & _ & Hcol & _ & Hem & ->).
    cbn [Sched.log] in Hin. apply in_app_or in Hin. destruct Hin as [Hin|Hin].
    + right; left.
      pose proof (Sched_clock_proofs.emit_after_rows _ _ _ _ _ _ _ _ Hem) as Hr.
      rewrite Forall_forall in Hr. rewrite (Hr _ Hin). reflexivity.
    + apply in_app_or in Hin. destruct Hin as [Hin|Hin]; [|left; exact Hin].
      right; right. apply in_rev in Hin.
      pose proof (collect_applies _ _ _ _ _ _ _ Hcol) as Ha.
      rewrite Forall_forall in Ha. apply Ha. exact Hin.
  - destruct C as (d & _ & _ & _ & ->). left. exact Hin.
Qed.

(* ------------------------------------------------------------------ *)
(* the theorems                                                        *)

(* STATEMENTS.v writes the constructor without its type parameter, as inside Model/Sched.v *)
Notation EInvoke := (Sched.EInvoke Sg).

(* 1. after a pass of the loop, every front entry belongs to a process that was registered when the
   pass began: the entry of a process deleted earlier is gone, whatever was in flight for it *)
Theorem iter_front_owners vr ee endt force et (s s' : st) f' et' ok p e :
  iterv vr ee endt force et s = (s', f', et', ok) ->
  flook (frt s') p = Some e -> mem p (procs s) = true.
Proof.
  intros H He.
  destruct (flook (pf (polledv vr endt force s)) p) as [x|] eqn:Ex.
  - unfold Sched_clock_proofs.polled in Ex.
    destruct (fold_keys_from _ _ _ _ _ _ _ _ _ Ex) as [[e0 H0]|Hin].
    + unfold Sched_clock_proofs.acc0 in H0. cbn [Sched.pf] in H0.
      rewrite flook_keep_live in H0. destruct (mem p (procs s)); [reflexivity|discriminate].
    + apply mem_In. exact Hin.
  - apply (iter_front_keys _ _ _ _ _ _ _ _ _ _ p H) in Ex. congruence.
Qed.

(* 2. hence a process that is not registered has no front entry after the pass *)
Theorem deleted_process_front_dropped vr ee endt force et (s s' : st) f' et' ok p :
  iterv vr ee endt force et s = (s', f', et', ok) ->
  mem p (procs s) = false -> flook (frt s') p = None.
Proof.
  intros H Hm. destruct (flook (frt s') p) as [e|] eqn:E; [|reflexivity].
  rewrite (iter_front_owners _ _ _ _ _ _ _ _ _ _ _ _ H E) in Hm. discriminate.
Qed.

(* 3. a registered process without a front entry is, if it is invoked in this pass, invoked for an
   interval that starts now *)
Theorem new_process_starts_now vr ee endt force et (s s' : st) f' et' ok p start fin ts req now view :
  NoDup (procs s) ->
  iterv vr ee endt force et s = (s', f', et', ok) ->
  mem p (procs s) = true -> flook (frt s) p = None ->
  In (EInvoke p start fin ts req now view) (log s') -> ~ In (EInvoke p start fin ts req now view) (log s) ->
  start = gt s /\ now = gt s.
Proof.
  intros Hnd H _ Hnone Hin Hold.
  destruct (iter_log_over_polled _ _ _ _ _ _ _ _ _ _ _ H Hin) as [Hp|[Hp|Hp]];
    [|cbn in Hp; discriminate|cbn in Hp; discriminate].
  unfold Sched_clock_proofs.polled in Hp.
  assert (Hn0 : flook (pf (acc0 s)) p = None).
  { unfold Sched_clock_proofs.acc0. cbn [Sched.pf]. rewrite flook_keep_live, Hnone.
    destruct (mem p (procs s)); reflexivity. }
  destruct (fold_new_p _ _ _ _ _ p _ _ _ Hnd Hn0 Hp) as [Hacc|Hev].
  - unfold Sched_clock_proofs.acc0 in Hacc. cbn [Sched.plog] in Hacc.
    apply in_app_or in Hacc. destruct Hacc as [Hd|Hl]; [|contradiction].
    apply in_rev in Hd.
    pose proof (drop_events_drops Sg U (gt s) (procs s) (frt s)) as Hdr.
    rewrite Forall_forall in Hdr. apply Hdr in Hd. cbn in Hd. discriminate.
  - cbn [Pev] in Hev. destruct Hev as [Hnow Hstart]. split; [apply Hstart; reflexivity|exact Hnow].
Qed.

(* 4. and it is polled in this very pass: afterwards it has a front entry *)
Theorem new_process_polled vr ee endt force et (s s' : st) f' et' ok p :
  iterv vr ee endt force et s = (s', f', et', ok) ->
  mem p (procs s) = true -> flook (frt s) p = None ->
  exists e, flook (frt s') p = Some e.
Proof.
  intros H Hm _.
  destruct (flook (frt s') p) as [e|] eqn:E; [exists e; reflexivity|].
  apply (iter_front_keys _ _ _ _ _ _ _ _ _ _ p H) in E.
  unfold Sched_clock_proofs.polled in E.
  destruct (fold_keys_to vr (gt s) endt force (sto s) (procs s) (acc0 s) p) as [x Hx].
  { right. apply mem_In. exact Hm. }
  congruence.
Qed.

End Entry.

Print Assumptions iter_front_owners.
Print Assumptions deleted_process_front_dropped.
Print Assumptions new_process_starts_now.
Print Assumptions new_process_polled.
