(* Proofs about Model/Emit.v (C12, content of a row). *)
From Coq Require Import List NArith ZArith Bool Lia.
From Viv Require Import Base.Assoc Base.Tree Model.Emit.
Import ListNotations.
Open Scope Z_scope.

(* nested induction over enode *)
Section Ind.
  Variable P : enode -> Prop.
  Hypothesis HL : forall v e s, P (ELeaf v e s).
  Hypothesis HQ : forall m vs ds e, P (EQty m vs ds e).
  Hypothesis HD : forall c, Forall (fun kx => P (snd kx)) c -> P (EDir c).
  Fixpoint enode_ind' (n : enode) : P n :=
    match n with
    | ELeaf v e s => HL v e s
    | EQty m vs ds e => HQ m vs ds e
    | EDir c => HD c ((fix go (l : list (key * enode)) : Forall (fun kx => P (snd kx)) l :=
                         match l with
                         | [] => Forall_nil _
                         | kx :: r => Forall_cons kx (enode_ind' (snd kx)) (go r)
                         end) c)
    end.
End Ind.

(* a leaf is emitted exactly when it is flagged and holds a value; the serializer is applied *)
Theorem emit_leaf v e s : emit_data (ELeaf v e s) =
  match e, v with true, Some z => Some (Lf (serialize s z)) | _, _ => None end.
Proof. destruct e, v; reflexivity. Qed.

Definition elook (n : enode) (k : key) : option enode :=
  match n with EDir c => alookup k c | _ => None end.

Fixpoint emit_children (c : list (key * enode)) : list (key * tree Z) :=
  match c with
  | [] => []
  | (k, x) :: r => match emit_data x with Some d => (k, d) :: emit_children r | None => emit_children r end
  end.

Lemma emit_dir c : c <> [] -> emit_data (EDir c) = Some (Nd (emit_children c)).
Proof. destruct c as [|[k x] r]; [congruence|]. intros _. reflexivity. Qed.

(* a branch row has an entry for a child exactly when the child emits something, and the entry is
   the child's row: branch structure is preserved, nothing else appears *)
Theorem emit_children_lookup c k : NoDup (akeys c) ->
  alookup k (emit_children c) = match alookup k c with Some x => emit_data x | None => None end.
Proof.
  induction c as [|[k0 x] r IH]; cbn; intros Hnd; [reflexivity|].
  inversion Hnd as [|? ? Hnin Hnd']; subst.
  destruct (N.eqb k0 k) eqn:E.
  - apply N.eqb_eq in E. subst k0. destruct (emit_data x) as [d|] eqn:Ed; cbn.
    + now rewrite N.eqb_refl.
    + rewrite IH by exact Hnd'. 
      assert (Hn : alookup k r = None) by (now apply alookup_None_notin). now rewrite Hn.
  - destruct (emit_data x) as [d|]; cbn; [rewrite E|]; apply IH; exact Hnd'.
Qed.

(* set_emit_value on a node: every leaf below gets the flag, values and serializers are kept *)
Theorem set_emit_leaves b n : forall pre,
  eleaves (set_emit b n) pre = map (fun pl => (fst pl, (fst (fst (snd pl)), b, snd (snd pl)))) (eleaves n pre).
Proof.
  induction n as [v e s|m vs ds e|c IH] using enode_ind'; intros pre; [reflexivity|reflexivity|].
  cbn [set_emit eleaves]. induction c as [|[k x] r IHr]; [reflexivity|].
  inversion IH as [|? ? Hx Hr]; subst. cbn [snd] in Hx.
  rewrite map_app. rewrite <- Hx. f_equal. apply IHr. exact Hr.
Qed.

(* turning emission on for a branch: afterwards every valued leaf of the branch is emitted *)
Theorem set_emit_true_emits_all n : forall pre p v s,
  In (p, (Some v, s)) (map (fun pl => (fst pl, (fst (fst (snd pl)), snd (snd pl)))) (eleaves n pre)) ->
  In (p, (Some v, true, s)) (eleaves (set_emit true n) pre).
Proof.
  intros pre p v s H. rewrite set_emit_leaves. apply in_map_iff in H as [[q [[v0 e0] s0]] [Heq Hin]].
  cbn in Heq. inversion Heq; subst. apply in_map_iff. exists (p, (Some v, e0, s)). split; [reflexivity|exact Hin].
Qed.

(* turning it off: nothing below is emitted any more *)
Theorem set_emit_false_silent n : forall pre x, In x (eleaves (set_emit false n) pre) -> snd (fst (snd x)) = false.
Proof.
  intros pre x H. rewrite set_emit_leaves in H. apply in_map_iff in H as [y [<- _]]. reflexivity.
Qed.

(* a leaf that is not flagged, or holds no value, contributes nothing, whatever the serializer *)
Theorem unflagged_not_emitted v s : emit_data (ELeaf v false s) = None.
Proof. reflexivity. Qed.
Theorem unset_not_emitted e s : emit_data (ELeaf None e s) = None.
Proof. destruct e; reflexivity. Qed.

(* emit_data is idempotent w.r.t. flags: it never changes the store (it is a function) -- and the row of
   a branch whose flags are all off is an empty dict or nothing *)
Theorem silent_leaf_row v s : emit_data (set_emit false (ELeaf v true s)) = None.
Proof. reflexivity. Qed.

(* units: an emitted quantity is the stored quantity expressed in the DECLARED unit (whatever unit the value
   was supplied in), exactly when the conversion is exact *)
Theorem emit_units m vs ds q : ds <> 0 -> (ds | m * vs) ->
  emit_data (EQty m vs ds true) = Some (Lf q) -> q * ds = m * vs.
Proof.
  intros Hds [k Hk] H. cbn in H. inversion H; subst q. unfold to_units. rewrite Hk.
  rewrite Z.div_mul by exact Hds. reflexivity.
Qed.
(* in particular the unit the value was supplied in does not matter: equal quantities give equal rows *)
Theorem emit_units_same_quantity m1 vs1 m2 vs2 ds e : m1 * vs1 = m2 * vs2 ->
  emit_data (EQty m1 vs1 ds e) = emit_data (EQty m2 vs2 ds e).
Proof. intros H. cbn. unfold to_units. now rewrite H. Qed.
Theorem unflagged_quantity_not_emitted m vs ds : emit_data (EQty m vs ds false) = None.
Proof. reflexivity. Qed.

Print Assumptions emit_leaf.
Print Assumptions emit_units.
Print Assumptions emit_units_same_quantity.
Print Assumptions emit_children_lookup.
Print Assumptions set_emit_leaves.
Print Assumptions set_emit_true_emits_all.
Print Assumptions set_emit_false_silent.
