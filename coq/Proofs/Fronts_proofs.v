(* Engine.front across structural updates: the schedule entry follows the process OBJECT (Model/Fronts.v).

   Engine.front is keyed by path; Model/Sched.v identifies a process by its object (pid).  The theorems here relate
   the two: after Engine.apply_update every process object of the table has the entry it had before, wherever it
   was registered then (front_follows_identity); the invariant "one entry per path, entries only for registered
   processes" is kept (front_apply_wf, front_apply_gone); the pinned code lost the entry of a moved process
   (front_apply_pinned_refuted).  The side conditions on the reports are stated explicitly (reports_follow: R1
   functional_reports, R3 no_rotation, R4 steps_apart) and each of them is shown to be needed by a concrete
   counterexample (the needs_... examples).

   Repair d76c21b (take_moved without the test `old != path`): the former side condition R2 (not_in_place: nothing
   is deleted and re-registered in place) is no longer a premise of any theorem here -- a process re-registered at
   the very path it is deleted from keeps its entry (in_place_kept; with the code before the repair,
   front_apply_neq, it lost it: in_place_neq_lost).  R4 lost its escape `old <> p` in exchange: a Step reported
   among the processes AT the path its object is registered at now takes that entry too
   (steps_apart_moved_not_enough). *)
From Coq Require Import List NArith ZArith Bool Lia.
From Viv Require Import Base.Assoc Base.Tree Model.Paths Model.Steps Model.Struct Model.StructC Model.Fronts
     Proofs.Struct_proofs Proofs.Consistent_proofs Proofs.Consistent2_proofs.
Import ListNotations.

(* ================= 0. paths, lookups ================= *)
Lemma kpath_eqb_spec p q : reflect (p = q) (kpath_eqb p q).
Proof.
  destruct (kpath_eqb p q) eqn:E; constructor.
  - apply kpath_eqb_eq. exact E.
  - intros ->. rewrite kpath_eqb_refl in E. discriminate E.
Qed.

Lemma find_nodup {A B} (f : A -> B) (eqb : B -> B -> bool) (Hspec : forall a b, eqb a b = true <-> a = b) l x :
  NoDup (map f l) -> In x l -> find (fun y => eqb (f y) (f x)) l = Some x.
Proof.
  induction l as [|y l IH]; cbn [map In find]; intros Hnd Hin; [destruct Hin|].
  inversion Hnd as [|? ? Hy Hnd']; subst.
  destruct (eqb (f y) (f x)) eqn:E.
  - apply Hspec in E. destruct Hin as [->|Hin]; [reflexivity|].
    exfalso. apply Hy. rewrite E. apply in_map. exact Hin.
  - destruct Hin as [->|Hin]; [|apply (IH Hnd' Hin)].
    assert (E' : eqb (f x) (f x) = true) by (apply Hspec; reflexivity). rewrite E' in E. discriminate E.
Qed.

Lemma nodup_snd_functional {A B} (l : list (A * B)) p q o :
  NoDup (map snd l) -> In (p, o) l -> In (q, o) l -> p = q.
Proof.
  induction l as [|[p0 o0] l IH]; cbn [map snd In]; intros Hnd Ha Hb; [destruct Ha|].
  inversion Hnd as [|? ? Hx Hnd']; subst.
  destruct Ha as [Ha|Ha]; destruct Hb as [Hb|Hb].
  - inversion Ha; inversion Hb; subst. reflexivity.
  - inversion Ha; subst. exfalso. apply Hx. change o with (snd (q, o)). apply in_map. exact Hb.
  - inversion Hb; subst. exfalso. apply Hx. change o with (snd (p, o)). apply in_map. exact Ha.
  - apply (IH Hnd' Ha Hb).
Qed.

Lemma filter_idem {A} (f : A -> bool) l : filter f (filter f l) = filter f l.
Proof.
  induction l as [|x l IH]; cbn [filter]; [reflexivity|].
  destruct (f x) eqn:E; cbn [filter]; [rewrite E, IH; reflexivity|exact IH].
Qed.

Section Lookup.
Variable T : Type.

Lemma flookup_nil q : flookup T [] q = None.
Proof. reflexivity. Qed.

Lemma flookup_cons p e fr q : flookup T ((p, e) :: fr) q = if kpath_eqb p q then Some e else flookup T fr q.
Proof. unfold flookup. cbn [find fst]. destruct (kpath_eqb p q); reflexivity. Qed.

Lemma flookup_filter (f : list key -> bool) (fr : fronts T) q :
  flookup T (filter (fun x => f (fst x)) fr) q = if f q then flookup T fr q else None.
Proof.
  induction fr as [|[p e] fr IH]; cbn [filter fst].
  - rewrite flookup_nil. destruct (f q); reflexivity.
  - destruct (f p) eqn:Ef.
    + rewrite !flookup_cons, IH. destruct (kpath_eqb_spec p q) as [<-|]; [rewrite Ef|]; reflexivity.
    + rewrite flookup_cons, IH. destruct (kpath_eqb_spec p q) as [<-|]; [rewrite Ef|]; reflexivity.
Qed.

Lemma flookup_fpop fr p q : flookup T (fpop T fr p) q = if kpath_eqb p q then None else flookup T fr q.
Proof.
  unfold fpop. etransitivity; [apply (flookup_filter (fun k => negb (kpath_eqb k p)))|].
  destruct (kpath_eqb_spec q p) as [->|Hne]; cbn [negb].
  - rewrite kpath_eqb_refl. reflexivity.
  - destruct (kpath_eqb_spec p q) as [->|_]; [congruence|reflexivity].
Qed.

Lemma flookup_fput fr p e q : flookup T (fput T fr p e) q = if kpath_eqb p q then Some e else flookup T fr q.
Proof.
  unfold fput. induction fr as [|[p0 e0] fr IH]; cbn [pset].
  - rewrite flookup_cons, flookup_nil. reflexivity.
  - destruct (kpath_eqb_spec p0 p) as [->|Hne].
    + rewrite !flookup_cons. destruct (kpath_eqb p q); reflexivity.
    + rewrite !flookup_cons, IH. destruct (kpath_eqb_spec p0 q) as [->|]; [|reflexivity].
      destruct (kpath_eqb_spec p q) as [->|_]; [congruence|reflexivity].
Qed.

Lemma flookup_in fr p e : flookup T fr p = Some e -> In (p, e) fr.
Proof.
  induction fr as [|[p0 e0] fr IH]; [rewrite flookup_nil; discriminate|].
  rewrite flookup_cons. destruct (kpath_eqb_spec p0 p) as [->|_].
  - intros H. inversion H; subst. left. reflexivity.
  - intros H. right. apply IH. exact H.
Qed.

Lemma notin_flookup fr p : ~ In p (map fst fr) -> flookup T fr p = None.
Proof.
  induction fr as [|[p0 e0] fr IH]; cbn [map fst In]; intros Hn; [reflexivity|].
  rewrite flookup_cons. destruct (kpath_eqb_spec p0 p) as [->|_]; [exfalso; apply Hn; left; reflexivity|].
  apply IH. intros H. apply Hn. right. exact H.
Qed.

Lemma in_flookup fr p e : NoDup (map fst fr) -> In (p, e) fr -> flookup T fr p = Some e.
Proof.
  induction fr as [|[p0 e0] fr IH]; cbn [map fst In]; intros Hnd Hin; [destruct Hin|].
  inversion Hnd as [|? ? Hx Hnd']; subst. rewrite flookup_cons.
  destruct Hin as [Hin|Hin].
  - inversion Hin; subst. rewrite kpath_eqb_refl. reflexivity.
  - destruct (kpath_eqb_spec p0 p) as [->|_]; [|apply (IH Hnd' Hin)].
    exfalso. apply Hx. change p with (fst (p, e)). apply in_map. exact Hin.
Qed.

Lemma flookup_some_key fr p e : flookup T fr p = Some e -> In p (map fst fr).
Proof. intros H. apply flookup_in in H. change p with (fst (p, e)). apply in_map. exact H. Qed.

Lemma notin_flookup_conv fr p : flookup T fr p = None -> ~ In p (map fst fr).
Proof.
  induction fr as [|[p0 e0] fr IH]; cbn [map fst In]; [intros _ []|].
  rewrite flookup_cons. destruct (kpath_eqb_spec p0 p) as [->|Hne]; [discriminate|].
  intros H [H0|H0]; [exact (Hne H0)|exact (IH H H0)].
Qed.

End Lookup.

(* the table of processes is looked up the same way *)
Lemma table_obj_flookup procs p : table_obj procs p = flookup N procs p.
Proof. reflexivity. Qed.

Lemma table_obj_in procs p o : table_obj procs p = Some o -> In (p, o) procs.
Proof. rewrite table_obj_flookup. apply flookup_in. Qed.

Lemma in_table_obj procs p o : NoDup (map fst procs) -> In (p, o) procs -> table_obj procs p = Some o.
Proof. rewrite table_obj_flookup. apply in_flookup. Qed.

Lemma table_obj_pset procs p o q : table_obj (pset procs p o) q = if kpath_eqb p q then Some o else table_obj procs q.
Proof. rewrite !table_obj_flookup. apply (flookup_fput N). Qed.

Lemma obj_path_in procs o p : obj_path procs o = Some p -> In (p, o) procs.
Proof.
  unfold obj_path. destruct (find _ (rev procs)) as [[p1 o1]|] eqn:E; [|discriminate].
  intros H. inversion H; subst p1. apply find_some in E. destruct E as [Hin Ho]. cbn [snd] in Ho.
  apply N.eqb_eq in Ho. subst o1. apply in_rev. exact Hin.
Qed.

Lemma in_obj_path procs o p : NoDup (map snd procs) -> In (p, o) procs -> obj_path procs o = Some p.
Proof.
  intros Hnd Hin. unfold obj_path.
  assert (Hnd' : NoDup (map snd (rev procs))) by (rewrite map_rev; apply NoDup_rev; exact Hnd).
  assert (Hin' : In (p, o) (rev procs)) by (apply in_rev in Hin; exact Hin).
  pose proof (find_nodup (@snd (list key) N) N.eqb N.eqb_eq (rev procs) (p, o) Hnd' Hin') as H.
  cbn [snd] in H. rewrite H. reflexivity.
Qed.

Lemma obj_path_none procs o : obj_path procs o = None -> ~ In o (map snd procs).
Proof.
  unfold obj_path. destruct (find _ (rev procs)) as [[p1 o1]|] eqn:E; [discriminate|]. intros _ Hin.
  apply in_map_iff in Hin. destruct Hin as ([p o'] & Ho & Hin). cbn [snd] in Ho. subst o'.
  apply in_rev in Hin. apply (find_none _ _ E) in Hin. cbn [snd] in Hin. rewrite N.eqb_refl in Hin. discriminate Hin.
Qed.

(* ================= 1. the four phases of front_apply, by lookups ================= *)
Section Phases.
Variable T : Type.
Variable procs : list (list key * N).
Variable dels : list (list key).

(* the place the entry of a reported object is taken from: where the object is registered, when that place lies
   under a deletion (whether or not it is the path of the report: repair d76c21b) *)
Definition qualold (pp : list key * pinfo) : option (list key) :=
  match obj_path procs (pi_obj (snd pp)) with
  | Some old => if existsb (fun d => starts_with old d) dels then Some old else None
  | None => None
  end.

Lemma qualold_some pp old : qualold pp = Some old ->
  obj_path procs (pi_obj (snd pp)) = Some old /\ existsb (fun d => starts_with old d) dels = true.
Proof.
  unfold qualold. destruct (obj_path procs (pi_obj (snd pp))) as [old'|]; [|discriminate].
  destruct (existsb _ dels) eqn:E; [|discriminate]. intros H. inversion H; subst. auto.
Qed.

Lemma qualold_intro pp old : obj_path procs (pi_obj (snd pp)) = Some old ->
  existsb (fun d => starts_with old d) dels = true -> qualold pp = Some old.
Proof. intros H1 H3. unfold qualold. rewrite H1, H3. reflexivity. Qed.

Lemma take_moved_eq fr moved pp :
  take_moved T procs dels (fr, moved) pp =
  match qualold pp with
  | Some old => match flookup T fr old with
                | Some e => (fpop T fr old, fput T moved (fst pp) e)
                | None => (fr, moved)
                end
  | None => (fr, moved)
  end.
Proof.
  unfold take_moved, qualold. destruct (obj_path procs (pi_obj (snd pp))); [|reflexivity].
  destruct (existsb _ dels); reflexivity.
Qed.

Notation tm := (take_moved T procs dels).

(* phase 1, the table: a path that no report is moved from keeps its entry *)
Lemma ph1_fr_keep R : forall fr moved q,
  (forall pp, In pp R -> qualold pp <> Some q) ->
  flookup T (fst (fold_left tm R (fr, moved))) q = flookup T fr q.
Proof.
  induction R as [|pp R IH]; intros fr moved q Hq; cbn [fold_left]; [reflexivity|].
  assert (Hq' : forall pp0, In pp0 R -> qualold pp0 <> Some q) by (intros pp0 H0; apply Hq; right; exact H0).
  rewrite take_moved_eq. destruct (qualold pp) as [old|] eqn:Eq; [|apply IH; exact Hq'].
  destruct (flookup T fr old) as [e|] eqn:Ee; [|apply IH; exact Hq'].
  rewrite IH by exact Hq'. rewrite flookup_fpop.
  destruct (kpath_eqb_spec old q) as [->|_]; [|reflexivity].
  exfalso. apply (Hq pp); [left; reflexivity|exact Eq].
Qed.

Lemma ph1_fr_sub R : forall fr moved x, In x (fst (fold_left tm R (fr, moved))) -> In x fr.
Proof.
  induction R as [|pp R IH]; intros fr moved x; cbn [fold_left]; [auto|].
  rewrite take_moved_eq. destruct (qualold pp) as [old|]; [|apply IH].
  destruct (flookup T fr old) as [e|]; [|apply IH].
  intros H. apply IH in H. unfold fpop in H. apply filter_In in H. tauto.
Qed.

Lemma ph1_fr_nodup R : forall fr moved, NoDup (map fst fr) -> NoDup (map fst (fst (fold_left tm R (fr, moved)))).
Proof.
  induction R as [|pp R IH]; intros fr moved Hnd; cbn [fold_left]; [exact Hnd|].
  rewrite take_moved_eq. destruct (qualold pp) as [old|]; [|apply IH; exact Hnd].
  destruct (flookup T fr old) as [e|]; [|apply IH; exact Hnd].
  apply IH. unfold fpop. apply nodup_map_filter. exact Hnd.
Qed.

Lemma ph1_moved_nodup R : forall fr moved, NoDup (map fst moved) -> NoDup (map fst (snd (fold_left tm R (fr, moved)))).
Proof.
  induction R as [|pp R IH]; intros fr moved Hnd; cbn [fold_left]; [exact Hnd|].
  rewrite take_moved_eq. destruct (qualold pp) as [old|]; [|apply IH; exact Hnd].
  destruct (flookup T fr old) as [e|]; [|apply IH; exact Hnd].
  apply IH. unfold fput. apply pset_nodup. exact Hnd.
Qed.

(* phase 1, what is carried: nothing under p' when no report of p' takes an entry *)
Lemma ph1_moved_keep R : forall fr moved p',
  (forall pp old, In pp R -> fst pp = p' -> qualold pp = Some old -> flookup T fr old = None) ->
  flookup T (snd (fold_left tm R (fr, moved))) p' = flookup T moved p'.
Proof.
  induction R as [|pp R IH]; intros fr moved p' Hq; cbn [fold_left]; [reflexivity|].
  assert (Hq' : forall pp0 old, In pp0 R -> fst pp0 = p' -> qualold pp0 = Some old -> flookup T fr old = None).
  { intros pp0 old H0. apply Hq. right. exact H0. }
  rewrite take_moved_eq. destruct (qualold pp) as [old|] eqn:Eq; [|apply IH; exact Hq'].
  destruct (flookup T fr old) as [e|] eqn:Ee; [|apply IH; exact Hq'].
  rewrite IH.
  - rewrite flookup_fput. destruct (kpath_eqb_spec (fst pp) p') as [Hp|_]; [|reflexivity].
    rewrite (Hq pp old (or_introl eq_refl) Hp Eq) in Ee. discriminate Ee.
  - intros pp0 old0 H0 Hp0 Eq0. rewrite flookup_fpop. destruct (kpath_eqb old old0); [reflexivity|].
    apply (Hq' pp0 old0 H0 Hp0 Eq0).
Qed.

(* ... the entry of p0 under p' when exactly the reports of p' are moved from p0 *)
Lemma ph1_moved_set R : forall fr moved p0 p' e,
  flookup T fr p0 = Some e ->
  (forall pp old, In pp R -> qualold pp = Some old -> (old = p0 <-> fst pp = p')) ->
  (exists pp, In pp R /\ qualold pp = Some p0) ->
  flookup T (snd (fold_left tm R (fr, moved))) p' = Some e.
Proof.
  induction R as [|pp R IH]; intros fr moved p0 p' e He Hiff Hex; cbn [fold_left].
  { destruct Hex as (pp & [] & _). }
  assert (Hiff' : forall pp0 old, In pp0 R -> qualold pp0 = Some old -> (old = p0 <-> fst pp0 = p')).
  { intros pp0 old H0. apply Hiff. right. exact H0. }
  rewrite take_moved_eq. destruct (qualold pp) as [old|] eqn:Eq.
  - destruct (path_eq_dec old p0) as [->|Hne].
    + rewrite He. assert (Hp : fst pp = p') by (apply (Hiff pp p0 (or_introl eq_refl) Eq); reflexivity).
      rewrite ph1_moved_keep.
      * rewrite flookup_fput, Hp, kpath_eqb_refl. reflexivity.
      * intros pp0 old0 H0 Hp0 Eq0. apply (Hiff' pp0 old0 H0 Eq0) in Hp0. subst old0.
        rewrite flookup_fpop, kpath_eqb_refl. reflexivity.
    + assert (Hex' : exists pp0, In pp0 R /\ qualold pp0 = Some p0).
      { destruct Hex as (pp0 & [<-|H0] & Eq0); [congruence|]. exists pp0. auto. }
      destruct (flookup T fr old) as [e2|] eqn:Ee; [|apply (IH fr moved p0 p' e He Hiff' Hex')].
      apply (IH _ _ p0 p' e); [|exact Hiff'|exact Hex'].
      rewrite flookup_fpop. destruct (kpath_eqb_spec old p0) as [->|_]; [congruence|exact He].
  - apply (IH fr moved p0 p' e He Hiff'). destruct Hex as (pp0 & [<-|H0] & Eq0); [congruence|]. exists pp0. auto.
Qed.

(* phase 2: a path under no deletion keeps its entry; what stays is a table path under no deletion *)
Lemma flookup_drop_keep fr q : existsb (fun d => starts_with q d) dels = false ->
  flookup T (drop_deleted T procs dels fr) q = flookup T fr q.
Proof.
  intros H. unfold drop_deleted.
  etransitivity; [apply (flookup_filter T (fun k => negb (existsb (fun d => starts_with k d) dels
                            && match table_obj procs k with Some _ => true | None => false end)))|].
  rewrite H. reflexivity.
Qed.

Lemma drop_deleted_in fr x : In x (drop_deleted T procs dels fr) ->
  In x fr /\ (existsb (fun d => starts_with (fst x) d) dels = false \/ table_obj procs (fst x) = None).
Proof.
  unfold drop_deleted. rewrite filter_In. intros [Hin H]. split; [exact Hin|].
  destruct (existsb _ dels); [|left; reflexivity]. destruct (table_obj procs (fst x)); [discriminate H|right; reflexivity].
Qed.

End Phases.

Section Phase34.
Variable T : Type.

Lemma reg_step fr procs pp : pi_step (snd pp) = true -> register_front T (fr, procs) pp = (fr, procs).
Proof. intros H. unfold register_front. rewrite H. reflexivity. Qed.

Lemma reg_nonstep fr procs pp : pi_step (snd pp) = false ->
  register_front T (fr, procs) pp =
  (match table_obj procs (fst pp) with
   | Some o => if N.eqb o (pi_obj (snd pp)) then fr else fpop T fr (fst pp)
   | None => fpop T fr (fst pp)
   end, pset procs (fst pp) (pi_obj (snd pp))).
Proof. intros H. unfold register_front. rewrite H. reflexivity. Qed.

(* phase 3, the table of processes: the registrations of book_register *)
Lemma reg_snd l : forall fr procs,
  snd (fold_left (register_front T) l (fr, procs)) = fold_left psetf (filter nonstep l) procs.
Proof.
  induction l as [|pp l IH]; intros fr procs; cbn [fold_left filter]; [reflexivity|].
  unfold nonstep at 1. destruct (pi_step (snd pp)) eqn:Es; cbn [negb].
  - rewrite reg_step by exact Es. apply IH.
  - rewrite reg_nonstep by exact Es. cbn [fold_left]. rewrite IH. reflexivity.
Qed.

Definition tmatch (procs : list (list key * N)) (q : list key) (o : N) : bool :=
  match table_obj procs q with Some o' => N.eqb o' o | None => false end.

(* phase 3, the entries: the entry of q goes iff q is registered for an object it did not hold *)
Lemma reg_lookup l : forall fr procs q o,
  (forall pi, In (q, pi) l -> pi_step pi = false -> pi_obj pi = o) ->
  flookup T (fst (fold_left (register_front T) l (fr, procs))) q =
  if existsb (fun pp => nonstep pp && kpath_eqb (fst pp) q) l && negb (tmatch procs q o) then None
  else flookup T fr q.
Proof.
  induction l as [|[p pi] l IH]; intros fr procs q o Hfun; cbn [fold_left existsb]; [reflexivity|].
  assert (Hfun' : forall pi0, In (q, pi0) l -> pi_step pi0 = false -> pi_obj pi0 = o).
  { intros pi0 H0. apply Hfun. right. exact H0. }
  unfold nonstep at 1. cbn [fst snd]. destruct (pi_step pi) eqn:Es; cbn [negb andb orb].
  - rewrite reg_step by exact Es. apply IH. exact Hfun'.
  - rewrite reg_nonstep by exact Es. cbn [fst snd]. rewrite (IH _ _ q o Hfun').
    unfold tmatch. rewrite table_obj_pset.
    destruct (kpath_eqb_spec p q) as [->|Hne]; cbn [orb andb].
    + rewrite (Hfun pi (or_introl eq_refl) Es), N.eqb_refl. cbn [negb]. rewrite andb_false_r.
      destruct (table_obj procs q) as [o'|]; [destruct (N.eqb o' o)|]; cbn [negb];
        try reflexivity; rewrite flookup_fpop, kpath_eqb_refl; reflexivity.
    + destruct (existsb _ l && negb _); [reflexivity|].
      destruct (table_obj procs p) as [o'|]; [destruct (N.eqb o' (pi_obj pi)); [reflexivity|]|];
        rewrite flookup_fpop; destruct (kpath_eqb_spec p q) as [->|_]; congruence.
Qed.

Lemma reg_fr_sub l : forall fr procs x, In x (fst (fold_left (register_front T) l (fr, procs))) -> In x fr.
Proof.
  induction l as [|pp l IH]; intros fr procs x; cbn [fold_left]; [auto|].
  destruct (pi_step (snd pp)) eqn:Es.
  - rewrite reg_step by exact Es. apply IH.
  - rewrite reg_nonstep by exact Es. intros H. apply IH in H.
    destruct (table_obj procs (fst pp)) as [o'|]; [destruct (N.eqb o' (pi_obj (snd pp))); [exact H|]|];
      unfold fpop in H; apply filter_In in H; tauto.
Qed.

Lemma reg_fr_nodup l : forall fr procs, NoDup (map fst fr) ->
  NoDup (map fst (fst (fold_left (register_front T) l (fr, procs)))).
Proof.
  induction l as [|pp l IH]; intros fr procs Hnd; cbn [fold_left]; [exact Hnd|].
  destruct (pi_step (snd pp)) eqn:Es.
  - rewrite reg_step by exact Es. apply IH. exact Hnd.
  - rewrite reg_nonstep by exact Es. apply IH.
    destruct (table_obj procs (fst pp)) as [o'|]; [destruct (N.eqb o' (pi_obj (snd pp))); [exact Hnd|]|];
      unfold fpop; apply nodup_map_filter; exact Hnd.
Qed.

Lemma psetf_fold_keys_pres adds : forall l p, In p (map fst l) -> In p (map fst (fold_left psetf adds l)).
Proof. intros l p H. apply psetf_fold_keys. left. exact H. Qed.

(* phase 4 *)
Lemma restore_lookup procs' moved : forall fr q, NoDup (map fst moved) ->
  flookup T (restore_moved T procs' fr moved) q =
  match flookup T moved q with
  | Some e => match table_obj procs' q with Some _ => Some e | None => flookup T fr q end
  | None => flookup T fr q
  end.
Proof.
  unfold restore_moved. induction moved as [|[p e] moved IH]; intros fr q Hnd; cbn [fold_left]; [reflexivity|].
  cbn [map fst] in Hnd. inversion Hnd as [|? ? Hp Hnd']; subst. cbn [fst snd].
  rewrite (IH _ q Hnd'), flookup_cons. destruct (kpath_eqb_spec p q) as [->|Hne].
  - rewrite (notin_flookup T moved q Hp). destruct (table_obj procs' q); [|reflexivity].
    rewrite flookup_fput, kpath_eqb_refl. reflexivity.
  - assert (H : flookup T (match table_obj procs' p with Some _ => fput T fr p e | None => fr end) q = flookup T fr q).
    { destruct (table_obj procs' p); [|reflexivity]. rewrite flookup_fput.
      destruct (kpath_eqb_spec p q) as [->|_]; congruence. }
    rewrite H. reflexivity.
Qed.

Lemma restore_keys procs' moved : forall fr,
  (forall x, In x fr -> In (fst x) (map fst procs')) ->
  forall x, In x (restore_moved T procs' fr moved) -> In (fst x) (map fst procs').
Proof.
  unfold restore_moved. induction moved as [|[p e] moved IH]; intros fr Hfr x; cbn [fold_left]; [apply Hfr|].
  apply IH. cbn [fst snd]. destruct (table_obj procs' p) as [o|] eqn:Et; [|exact Hfr].
  intros [q e'] Hin. unfold fput in Hin. apply pset_in_inv in Hin. destruct Hin as [[-> _]|Hin]; [|apply (Hfr _ Hin)].
  cbn [fst]. apply table_obj_in in Et. change p with (fst (p, o)). apply in_map. exact Et.
Qed.

Lemma restore_nodup procs' moved : forall fr, NoDup (map fst fr) -> NoDup (map fst (restore_moved T procs' fr moved)).
Proof.
  unfold restore_moved. induction moved as [|[p e] moved IH]; intros fr Hnd; cbn [fold_left]; [exact Hnd|].
  apply IH. cbn [fst snd]. destruct (table_obj procs' p); [|exact Hnd]. unfold fput. apply pset_nodup. exact Hnd.
Qed.

(* front_apply, phase by phase *)
Lemma front_apply_eq b fr rp :
  let ph1 := fold_left (take_moved T (b_procs b) (r_deletions rp)) (r_process rp) (fr, []) in
  let fr2 := drop_deleted T (b_procs b) (r_deletions rp) (fst ph1) in
  let procs2 := fold_left pdrop (r_deletions rp) (b_procs b) in
  let ph3 := fold_left (register_front T) (filter nonstep (r_process rp)) (fr2, procs2) in
  front_apply T b fr rp = restore_moved T (snd ph3) (fst ph3) (snd ph1).
Proof.
  cbv zeta. unfold front_apply.
  destruct (fold_left (take_moved T (b_procs b) (r_deletions rp)) (r_process rp) (fr, [])) as [fr1 moved].
  cbn [fst snd].
  change (filter (fun pp => negb (pi_step (snd pp))) (r_process rp)) with (filter nonstep (r_process rp)).
  change (fold_left (fun ps d => pdrop ps d) (r_deletions rp) (b_procs b))
    with (fold_left pdrop (r_deletions rp) (b_procs b)).
  destruct (fold_left (register_front T) _ _) as [fr3 procs3]. reflexivity.
Qed.

Lemma ph3_procs b b' rp fr2 : book_apply b rp = Ok b' ->
  snd (fold_left (register_front T) (filter nonstep (r_process rp))
                 (fr2, fold_left pdrop (r_deletions rp) (b_procs b))) = b_procs b'.
Proof. intros H. rewrite reg_snd, filter_idem. symmetry. apply (book_apply_procs_eq b rp b' H). Qed.

End Phase34.

(* ================= 2. the theorems ================= *)
Lemma existsb_false_intro {A} (f : A -> bool) l : (forall x, In x l -> f x = false) -> existsb f l = false.
Proof.
  induction l as [|x l IH]; cbn [existsb]; intros H; [reflexivity|].
  rewrite (H x (or_introl eq_refl)), IH; [reflexivity|]. intros y Hy. apply H. right. exact Hy.
Qed.

Lemma existsb_false_inv {A} (f : A -> bool) l : existsb f l = false -> forall x, In x l -> f x = false.
Proof.
  intros H x Hx. destruct (f x) eqn:E; [|reflexivity].
  assert (Ht : existsb f l = true) by (apply existsb_exists; exists x; auto). rewrite Ht in H. discriminate H.
Qed.

Lemma ex_report_true l q pi : In (q, pi) l -> pi_step pi = false ->
  existsb (fun pp => nonstep pp && kpath_eqb (fst pp) q) l = true.
Proof.
  intros Hin Hs. apply existsb_exists. exists (q, pi). split; [exact Hin|].
  unfold nonstep. cbn [fst snd]. rewrite Hs, kpath_eqb_refl. reflexivity.
Qed.

Lemma ex_report_false l q : ~ In q (map fst (filter nonstep l)) ->
  existsb (fun pp => nonstep pp && kpath_eqb (fst pp) q) l = false.
Proof.
  intros Hn. apply existsb_false_intro. intros [p pi] Hin. cbn [fst].
  destruct (nonstep (p, pi)) eqn:Es; [|reflexivity]. destruct (kpath_eqb_spec p q) as [->|_]; [|reflexivity].
  exfalso. apply Hn. apply in_map_iff. exists (q, pi). split; [reflexivity|]. apply filter_In. auto.
Qed.

Section FrontsProofs.
Variable T : Type.

(* a well-formed engine state: one table entry per path, every object registered once, one front entry per path,
   and front entries only for registered processes *)
Definition wf_front (procs : list (list key * N)) (fr : fronts T) : Prop :=
  NoDup (map fst procs) /\ NoDup (map snd procs) /\ NoDup (map fst fr) /\
  (forall p e, In (p, e) fr -> In p (map fst procs)).

(* ---- the side conditions on the reports ---- *)
(* R1: the (non-step) process reports of one path name one object -- the premise of book_apply_procs *)
Definition functional_reports (rp : reports) : Prop :=
  forall p pi pi', In (p, pi) (r_process rp) -> pi_step pi = false ->
                   In (p, pi') (r_process rp) -> pi_step pi' = false -> pi_obj pi = pi_obj pi'.

(* R2 (NO LONGER A PREMISE since repair d76c21b; kept to state what the code before it needed, front_apply_neq):
   nothing is deleted and re-registered in place: an object reported at the path it is registered at does not lie
   under a reported deletion *)
Definition not_in_place (b : book) (rp : reports) : Prop :=
  forall p pi, In (p, pi) (r_process rp) -> pi_step pi = false ->
    obj_path (b_procs b) (pi_obj pi) = Some p ->
    forall d, In d (r_deletions rp) -> starts_with p d = false.

(* R3: no rotation without a deletion: when a registered object is reported at another path and the path it is
   registered at is reported for another object, that path lies under a reported deletion (a move deletes its
   source).  Without the re-registration of the old path, NoDup (map snd (b_procs b')) gives the same. *)
Definition no_rotation (b : book) (rp : reports) : Prop :=
  forall p pi q pi', In (p, pi) (r_process rp) -> pi_step pi = false ->
    obj_path (b_procs b) (pi_obj pi) = Some q -> q <> p ->
    In (q, pi') (r_process rp) -> pi_step pi' = false -> pi_obj pi' <> pi_obj pi ->
    exists d, In d (r_deletions rp) /\ starts_with q d = true.

(* R4: a Step among the process reports does not take the entry of a process: it is no registered process
   object, or the place that object is registered at is under no deletion.  (Before repair d76c21b a Step reported
   AT that place was harmless as well -- steps_apart_moved; now it takes the entry like any other report.) *)
Definition steps_apart (b : book) (rp : reports) : Prop :=
  forall p pi old, In (p, pi) (r_process rp) -> pi_step pi = true ->
    obj_path (b_procs b) (pi_obj pi) = Some old ->
    forall d, In d (r_deletions rp) -> starts_with old d = false.

(* R4 as it was before the repair: only a Step reported elsewhere counts *)
Definition steps_apart_moved (b : book) (rp : reports) : Prop :=
  forall p pi old, In (p, pi) (r_process rp) -> pi_step pi = true ->
    obj_path (b_procs b) (pi_obj pi) = Some old -> old <> p ->
    forall d, In d (r_deletions rp) -> starts_with old d = false.

Lemma steps_apart_weaken b rp : steps_apart b rp -> steps_apart_moved b rp.
Proof. intros H p pi old H1 H2 H3 _. apply (H p pi old H1 H2 H3). Qed.

(* what implies R4: the Steps reported among the processes are no table objects *)
Lemma steps_apart_fresh b rp :
  (forall p pi, In (p, pi) (r_process rp) -> pi_step pi = true -> ~ In (pi_obj pi) (map snd (b_procs b))) ->
  steps_apart b rp.
Proof.
  intros H p pi old Hin Hs Ho. exfalso. apply (H p pi Hin Hs). apply obj_path_in in Ho.
  change (pi_obj pi) with (snd (old, pi_obj pi)). apply in_map. exact Ho.
Qed.

(* MAIN: the schedule entry follows the process OBJECT.  After Engine.apply_update every process object in the table
   has exactly the entry it had before (wherever it was registered then -- at another path, or at the same path
   under a deletion of this very update), and an object that was not in the table before has none.
   (Of wf_front only the two NoDup of the table are used.) *)
Theorem front_follows_identity_gen (b b' : book) (rp : reports) (fr : fronts T) :
  NoDup (map fst (b_procs b)) -> NoDup (map snd (b_procs b)) ->
  book_apply b rp = Ok b' ->
  NoDup (map snd (b_procs b')) ->
  functional_reports rp -> no_rotation b rp -> steps_apart b rp ->
  forall o p', In (p', o) (b_procs b') ->
    entry_of T (b_procs b') (front_apply T b fr rp) o = entry_of T (b_procs b) fr o.
Proof.
  intros Hnf Hns Hb Hns' Hfun Hrot Hstep o p' Hin.
  assert (Hnf' : NoDup (map fst (b_procs b'))) by apply (book_apply_nodup b rp b' Hnf Hb).
  assert (Hfun2 : forall p pi pi', In (p, pi) (filter nonstep (r_process rp)) ->
                    In (p, pi') (filter nonstep (r_process rp)) -> pi_obj pi = pi_obj pi').
  { intros p pi pi' H1 H2. apply in_filter_nonstep in H1, H2. destruct H1 as [H1 S1], H2 as [H2 S2].
    apply (Hfun p pi pi' H1 S1 H2 S2). }
  pose proof (fun q x => book_apply_procs b rp b' q x Hnf Hfun2 Hb) as Hchar.
  assert (Hnf2 : NoDup (map fst (fold_left pdrop (r_deletions rp) (b_procs b)))) by (apply nodup_pdrop_fold; exact Hnf).
  (* Steps among the reports never move an entry *)
  assert (Hsq : forall p pi, In (p, pi) (r_process rp) -> pi_step pi = true ->
                  qualold (b_procs b) (r_deletions rp) (p, pi) = None).
  { intros p pi H1 H2. destruct (qualold (b_procs b) (r_deletions rp) (p, pi)) as [old|] eqn:Eq; [|reflexivity].
    apply qualold_some in Eq. cbn [fst snd] in Eq. destruct Eq as (E1 & E3).
    apply existsb_exists in E3. destruct E3 as (d & Hd & Hsw).
    rewrite (Hstep p pi old H1 H2 E1 d Hd) in Hsw. discriminate Hsw. }
  unfold entry_of at 1. rewrite (in_obj_path _ _ _ Hns' Hin).
  rewrite front_apply_eq. cbv zeta. rewrite (ph3_procs T b b' rp _ Hb).
  rewrite restore_lookup by (apply ph1_moved_nodup; constructor).
  rewrite (in_table_obj _ _ _ Hnf' Hin).
  destruct (proj1 (Hchar p' o) Hin) as [(Hin0 & Hnd & Hnk)|(pi & HinR & Hs & Ho)].
  - (* untouched: registered before at p', not deleted, not reported *)
    unfold entry_of. rewrite (in_obj_path _ _ _ Hns Hin0).
    assert (Hex : existsb (fun d => starts_with p' d) (r_deletions rp) = false) by (apply existsb_false_intro; exact Hnd).
    rewrite ph1_moved_keep, flookup_nil.
    2:{ intros [q pi] old Hpp Hfst Eq. cbn [fst] in Hfst. subst q. destruct (pi_step pi) eqn:Es.
        - rewrite (Hsq _ _ Hpp Es) in Eq. discriminate Eq.
        - exfalso. apply Hnk. apply in_map_iff. exists (p', pi). split; [reflexivity|].
          apply in_filter_nonstep. auto. }
    rewrite (reg_lookup T _ _ _ p' o).
    2:{ intros pi Hpi _. exfalso. apply Hnk. apply in_map_iff. exists (p', pi). split; [reflexivity|exact Hpi]. }
    rewrite ex_report_false by (rewrite filter_idem; exact Hnk). cbn [andb].
    rewrite flookup_drop_keep by exact Hex. apply ph1_fr_keep.
    intros pp Hpp Eq. apply qualold_some in Eq. destruct Eq as (_ & E3). rewrite Hex in E3. discriminate E3.
  - (* reported at p' *)
    assert (Hall : forall pi2, In (p', pi2) (r_process rp) -> pi_step pi2 = false -> pi_obj pi2 = o).
    { intros pi2 H2 S2. rewrite Ho. apply (Hfun p' pi2 pi H2 S2 HinR Hs). }
    assert (HallNS : forall pi2, In (p', pi2) (filter nonstep (r_process rp)) -> pi_step pi2 = false -> pi_obj pi2 = o).
    { intros pi2 H2 S2. apply in_filter_nonstep in H2. apply (Hall pi2 (proj1 H2) S2). }
    assert (Hex3 : existsb (fun pp => nonstep pp && kpath_eqb (fst pp) p') (filter nonstep (r_process rp)) = true).
    { apply (ex_report_true _ p' pi); [apply in_filter_nonstep; auto|exact Hs]. }
    rewrite (reg_lookup T _ _ _ p' o HallNS), Hex3. cbn [andb].
    unfold entry_of. destruct (obj_path (b_procs b) o) as [p0|] eqn:Eo.
    + pose proof (obj_path_in _ _ _ Eo) as Hin0.
      destruct (existsb (fun d => starts_with p0 d) (r_deletions rp)) eqn:Hdel.
      * (* the place it was registered at lies under a deletion -- another path (a move), or p' itself (deleted and
           re-registered in place): the entry is carried over *)
        destruct (flookup T fr p0) as [e|] eqn:Ee.
        -- rewrite (ph1_moved_set T _ _ _ _ _ p0 p' e Ee); [reflexivity| |].
           ++ intros [q pi2] old Hpp Eq. cbn [fst]. destruct (pi_step pi2) eqn:Es2; [rewrite (Hsq _ _ Hpp Es2) in Eq; discriminate Eq|].
              apply qualold_some in Eq. cbn [fst snd] in Eq. destruct Eq as (E1 & E3). split.
              ** intros ->. apply obj_path_in in E1.
                 assert (Hobj : pi_obj pi2 = o) by apply (nodup_fst_functional _ _ _ _ Hnf E1 Hin0).
                 apply (nodup_snd_functional (b_procs b') q p' o Hns'); [|exact Hin].
                 apply Hchar. right. exists pi2. auto.
              ** intros ->. rewrite (Hall pi2 Hpp Es2), Eo in E1. inversion E1. reflexivity.
           ++ exists (p', pi). split; [exact HinR|]. apply qualold_intro; cbn [fst snd]; [rewrite <- Ho; exact Eo|exact Hdel].
        -- rewrite ph1_moved_keep, flookup_nil.
           2:{ intros [q pi2] old Hpp Hfst Eq. cbn [fst] in Hfst. subst q. destruct (pi_step pi2) eqn:Es.
               - rewrite (Hsq _ _ Hpp Es) in Eq. discriminate Eq.
               - apply qualold_some in Eq. cbn [fst snd] in Eq. destruct Eq as (E1 & _).
                 rewrite (Hall pi2 Hpp Es), Eo in E1. inversion E1. subst old. exact Ee. }
           assert (Ht : tmatch (fold_left pdrop (r_deletions rp) (b_procs b)) p' o = false).
           { unfold tmatch. destruct (table_obj _ p') as [o'|] eqn:Et; [|reflexivity].
             destruct (N.eqb_spec o' o) as [->|_]; [exfalso|reflexivity].
             apply table_obj_in, pdrop_fold_in in Et. destruct Et as [Et Hcl].
             pose proof (nodup_snd_functional (b_procs b) p0 p' o Hns Hin0 Et) as Hpp. subst p0.
             apply existsb_exists in Hdel. destruct Hdel as (d & Hd & Hsw). rewrite (Hcl d Hd) in Hsw. discriminate Hsw. }
           rewrite Ht. reflexivity.
      * (* under no deletion: then it is registered where it was *)
        pose proof (existsb_false_inv _ _ Hdel) as Hnd. cbv beta in Hnd.
        assert (Hpp : p0 = p').
        { destruct (path_eq_dec p0 p') as [Heq|Hne]; [exact Heq|exfalso].
          destruct (in_dec path_eq_dec p0 (map fst (filter nonstep (r_process rp)))) as [Hi|Hn].
          - apply in_map_iff in Hi. destruct Hi as ([q pi'] & Hq & Hi). cbn [fst] in Hq. subst q.
            apply in_filter_nonstep in Hi. destruct Hi as [Hi Hs'].
            destruct (N.eq_dec (pi_obj pi') o) as [Heq|Hneq].
            + apply Hne. apply (nodup_snd_functional (b_procs b') p0 p' o Hns'); [|exact Hin].
              apply Hchar. right. exists pi'. auto.
            + destruct (Hrot p' pi p0 pi' HinR Hs) as (d & Hd & Hsw); [rewrite <- Ho; exact Eo|exact Hne|exact Hi|exact Hs'| |].
              * rewrite <- Ho. exact Hneq.
              * rewrite (Hnd d Hd) in Hsw. discriminate Hsw.
          - apply Hne. apply (nodup_snd_functional (b_procs b') p0 p' o Hns'); [|exact Hin].
            apply Hchar. left. auto. }
        subst p0.
        rewrite ph1_moved_keep, flookup_nil.
        2:{ intros [q pi2] old Hpp Hfst Eq. cbn [fst] in Hfst. subst q. destruct (pi_step pi2) eqn:Es.
            - rewrite (Hsq _ _ Hpp Es) in Eq. discriminate Eq.
            - apply qualold_some in Eq. cbn [fst snd] in Eq. destruct Eq as (E1 & E3).
              rewrite (Hall pi2 Hpp Es), Eo in E1. inversion E1. subst old. rewrite Hdel in E3. discriminate E3. }
        assert (Ht : tmatch (fold_left pdrop (r_deletions rp) (b_procs b)) p' o = true).
        { unfold tmatch. rewrite (in_table_obj _ p' o Hnf2); [apply N.eqb_refl|]. apply pdrop_fold_in. auto. }
        rewrite Ht. cbn [negb]. rewrite flookup_drop_keep by exact Hdel. apply ph1_fr_keep.
        intros pp Hpp Eq. apply qualold_some in Eq. destruct Eq as (_ & E3). rewrite Hdel in E3. discriminate E3.
    + (* a new object *)
      pose proof (obj_path_none _ _ Eo) as Hnew.
      rewrite ph1_moved_keep, flookup_nil.
      2:{ intros [q pi2] old Hpp Hfst Eq. cbn [fst] in Hfst. subst q. destruct (pi_step pi2) eqn:Es.
          - rewrite (Hsq _ _ Hpp Es) in Eq. discriminate Eq.
          - apply qualold_some in Eq. cbn [fst snd] in Eq. destruct Eq as (E1 & _).
            rewrite (Hall pi2 Hpp Es), Eo in E1. discriminate E1. }
      assert (Ht : tmatch (fold_left pdrop (r_deletions rp) (b_procs b)) p' o = false).
      { unfold tmatch. destruct (table_obj _ p') as [o'|] eqn:Et; [|reflexivity].
        destruct (N.eqb_spec o' o) as [->|_]; [exfalso|reflexivity].
        apply table_obj_in, pdrop_fold_in in Et. destruct Et as [Et _].
        apply Hnew. change o with (snd (p', o)). apply in_map. exact Et. }
      rewrite Ht. reflexivity.
Qed.

Theorem front_follows_identity (b b' : book) (rp : reports) (fr : fronts T) :
  wf_front (b_procs b) fr ->
  book_apply b rp = Ok b' ->
  NoDup (map snd (b_procs b')) ->
  functional_reports rp -> no_rotation b rp -> steps_apart b rp ->
  forall o p', In (p', o) (b_procs b') ->
    entry_of T (b_procs b') (front_apply T b fr rp) o = entry_of T (b_procs b) fr o.
Proof.
  intros (Hnf & Hns & _ & _). apply front_follows_identity_gen; assumption.
Qed.

(* what left the table has no entry left (no premise on the reports; of wf_front: entries only for table paths) *)
Theorem front_apply_gone_gen (b b' : book) (rp : reports) (fr : fronts T) p e :
  (forall p e, In (p, e) fr -> In p (map fst (b_procs b))) ->
  book_apply b rp = Ok b' ->
  In (p, e) (front_apply T b fr rp) -> In p (map fst (b_procs b')).
Proof.
  intros Hk Hb Hin. rewrite front_apply_eq in Hin. cbv zeta in Hin.
  rewrite (ph3_procs T b b' rp _ Hb) in Hin.
  revert Hin. apply (restore_keys T (b_procs b') _ _) with (x := (p, e)).
  intros [q e'] Hq. cbn [fst]. apply reg_fr_sub in Hq. apply drop_deleted_in in Hq. cbn [fst] in Hq.
  destruct Hq as [Hq Hcase]. apply ph1_fr_sub in Hq. pose proof (Hk q e' Hq) as Hkq.
  apply in_map_iff in Hkq. destruct Hkq as ([q0 o] & Hq0 & Hino). cbn [fst] in Hq0. subst q0.
  destruct Hcase as [Hex|Hnone].
  - rewrite (book_apply_procs_eq b rp b' Hb). apply psetf_fold_keys_pres.
    change q with (fst (q, o)). apply in_map. apply pdrop_fold_in. split; [exact Hino|].
    apply (existsb_false_inv _ _ Hex).
  - exfalso. rewrite table_obj_flookup in Hnone.
    apply (notin_flookup_conv N (b_procs b) q Hnone). change q with (fst (q, o)). apply in_map. exact Hino.
Qed.

Theorem front_apply_gone (b b' : book) (rp : reports) (fr : fronts T) p e :
  wf_front (b_procs b) fr ->
  book_apply b rp = Ok b' ->
  In (p, e) (front_apply T b fr rp) -> In p (map fst (b_procs b')).
Proof. intros (_ & _ & _ & Hk). apply front_apply_gone_gen. exact Hk. Qed.

(* the invariant is kept: afterwards front entries exist only for registered processes, one per path
   (no premise on the reports) *)
Theorem front_apply_wf (b b' : book) (rp : reports) (fr : fronts T) :
  wf_front (b_procs b) fr ->
  book_apply b rp = Ok b' ->
  NoDup (map snd (b_procs b')) ->
  wf_front (b_procs b') (front_apply T b fr rp).
Proof.
  intros Hwf Hb Hns'. pose proof Hwf as (Hnf & Hns & Hnfr & Hk).
  split; [apply (book_apply_nodup b rp b' Hnf Hb)|]. split; [exact Hns'|]. split.
  - rewrite front_apply_eq. cbv zeta. apply restore_nodup, reg_fr_nodup. unfold drop_deleted.
    apply nodup_map_filter, ph1_fr_nodup. exact Hnfr.
  - intros p e. apply (front_apply_gone b b' rp fr p e Hwf Hb).
Qed.

(* ---- along a history of updates ---- *)
Definition reports_follow (b : book) (rp : reports) : Prop :=
  functional_reports rp /\ no_rotation b rp /\ steps_apart b rp.

Fixpoint run (b : book) (fr : fronts T) (h : list reports) : res (book * fronts T) :=
  match h with
  | [] => Ok (b, fr)
  | rp :: h' => rbind (book_apply b rp) (fun b1 => run b1 (front_apply T b fr rp) h')
  end.

(* every table of the history registers an object once *)
Fixpoint hist_nodup (b : book) (h : list reports) : Prop :=
  match h with
  | [] => True
  | rp :: h' => forall b1, book_apply b rp = Ok b1 -> NoDup (map snd (b_procs b1)) /\ hist_nodup b1 h'
  end.

(* ... its reports satisfy the side conditions and the object o stays registered throughout *)
Fixpoint hist_follows (o : N) (b : book) (h : list reports) : Prop :=
  match h with
  | [] => True
  | rp :: h' => forall b1, book_apply b rp = Ok b1 ->
      NoDup (map snd (b_procs b1)) /\ reports_follow b rp /\ In o (map snd (b_procs b1)) /\ hist_follows o b1 h'
  end.

Lemma hist_follows_nodup o h : forall b, hist_follows o b h -> hist_nodup b h.
Proof.
  induction h as [|rp h IH]; intros b H; cbn [hist_nodup hist_follows] in *; [exact I|].
  intros b1 Hb. destruct (H b1 Hb) as (H1 & _ & _ & H4). split; [exact H1|apply IH; exact H4].
Qed.

Theorem run_wf h : forall b fr b' fr',
  wf_front (b_procs b) fr -> run b fr h = Ok (b', fr') -> hist_nodup b h -> wf_front (b_procs b') fr'.
Proof.
  induction h as [|rp h IH]; intros b fr b' fr' Hwf Hrun Hh; cbn [run hist_nodup] in *.
  - inversion Hrun; subst. exact Hwf.
  - destruct (book_apply b rp) as [b1|err] eqn:Hb; cbn [rbind] in Hrun; [|discriminate Hrun].
    destruct (Hh b1 eq_refl) as [Hns1 Hh1].
    apply (IH b1 _ b' fr' (front_apply_wf b b1 rp fr Hwf Hb Hns1) Hrun Hh1).
Qed.

(* across a whole history the entry of an object that stays registered is the one it started with, wherever the
   object was moved in between *)
Theorem run_follows o h : forall b fr b' fr',
  wf_front (b_procs b) fr -> run b fr h = Ok (b', fr') -> hist_follows o b h ->
  entry_of T (b_procs b') fr' o = entry_of T (b_procs b) fr o.
Proof.
  induction h as [|rp h IH]; intros b fr b' fr' Hwf Hrun Hh; cbn [run hist_follows] in *.
  - inversion Hrun; subst. reflexivity.
  - destruct (book_apply b rp) as [b1|err] eqn:Hb; cbn [rbind] in Hrun; [|discriminate Hrun].
    destruct (Hh b1 eq_refl) as (Hns1 & (R1 & R3 & R4) & Hin & Hh1).
    rewrite (IH b1 _ b' fr' (front_apply_wf b b1 rp fr Hwf Hb Hns1) Hrun Hh1).
    apply in_map_iff in Hin. destruct Hin as ([p' o'] & Ho & Hin). cbn [snd] in Ho. subst o'.
    apply (front_follows_identity b b1 rp fr Hwf Hb Hns1 R1 R3 R4 o p' Hin).
Qed.

End FrontsProofs.

(* ================= 3. the pinned code on a move ================= *)
(* Compartment 20 (counting process, object 107) is moved from colony 10 to colony 11.  Every process is tagged with
   the path it was registered at.  The pinned code (front_apply_pinned) leaves the moved object without an entry
   under its new path (a fresh one was created at the next poll: the time it was simulated to and its update in
   flight were lost); front_apply gives it the entry it had, the one tagged with the old path.  The reports of
   this update satisfy the side conditions of front_follows_identity. *)
Example front_apply_pinned_refuted :
  exists t' rp u' be,
    kapply_ops vfixed pin_root [10%N] [OpMove N 20%N [11%N]] 200%N = Ok (t', rp, u') /\
    kengine_apply pin_book t' rp = Ok be /\
    let rph := held_reports t' rp in
    let fr0 : fronts (list key) := map (fun po => (fst po, fst po)) (b_procs pin_book) in
    wf_front (list key) (b_procs pin_book) fr0 /\
    In ([10%N; 20%N; kCnt], 107%N) (b_procs pin_book) /\ In ([11%N; 20%N; kCnt], 107%N) (b_procs be) /\
    entry_of (list key) (b_procs pin_book) fr0 107%N = Some [10%N; 20%N; kCnt] /\
    entry_of (list key) (b_procs be) (front_apply_pinned (list key) pin_book fr0 rph) 107%N = None /\
    entry_of (list key) (b_procs be) (front_apply (list key) pin_book fr0 rph) 107%N = Some [10%N; 20%N; kCnt] /\
    NoDup (map snd (b_procs be)) /\ reports_follow pin_book rph.
Proof.
  eexists. eexists. eexists. eexists.
  split; [vm_compute; reflexivity|]. split; [vm_compute; reflexivity|]. cbv zeta.
  split.
  { split; [vm_compute; nd_keys|]. split; [vm_compute; repeat constructor; cbn; intuition discriminate|].
    split; [vm_compute; nd_keys|]. intros p e H. vm_compute in H. vm_compute.
    destruct H as [H|[H|[]]]; inversion H; subst; auto. }
  split; [vm_compute; tauto|]. split; [vm_compute; tauto|].
  split; [vm_compute; reflexivity|]. split; [vm_compute; reflexivity|]. split; [vm_compute; reflexivity|].
  split; [vm_compute; repeat constructor; cbn; intuition discriminate|].
  split; [|split].
  - intros p pi pi' H1 _ H2 _. vm_compute in H1, H2.
    destruct H1 as [H1|[]], H2 as [H2|[]]. inversion H1; inversion H2; subst. reflexivity.
  - intros p pi q pi' H1 _ _ _ H2 _ Hne. vm_compute in H1, H2.
    destruct H1 as [H1|[]], H2 as [H2|[]]. inversion H1; inversion H2; subst. exfalso. apply Hne. reflexivity.
  - intros p pi old H1 Hs. vm_compute in H1. destruct H1 as [H1|[]]. inversion H1; subst. discriminate Hs.
Qed.

(* ================= 4. each side condition is needed ================= *)
(* minimal engine states: only the process table matters *)
Definition tbook (ps : list (list key * N)) : book :=
  {| b_procs := ps; b_steps := []; b_graph := empty_graph; pub_processes := []; pub_steps := [];
     pub_topology := []; pub_flow := [] |}.
Definition treports (ps : list (list key * pinfo)) (ds : list (list key)) : reports :=
  {| r_topology := []; r_process := ps; r_step := []; r_flow := []; r_deletions := ds; r_expire := true |}.
Definition tproc (o : N) : pinfo := {| pi_step := false; pi_in_steps := false; pi_flow := None; pi_obj := o |}.
Definition tstep (o : N) : pinfo := {| pi_step := true; pi_in_steps := false; pi_flow := None; pi_obj := o |}.

(* the statement of front_follows_identity without one of the conditions (R2, not_in_place, is none of them any
   more); steps_apart_moved is R4 with the escape `old <> p` it had before repair d76c21b *)
Definition follows_without (keep1 keep3 keep4 : bool) (r4 : book -> reports -> Prop) : Prop :=
  forall (b b' : book) (rp : reports) (fr : fronts nat),
    wf_front nat (b_procs b) fr -> book_apply b rp = Ok b' -> NoDup (map snd (b_procs b')) ->
    (if keep1 then functional_reports rp else True) ->
    (if keep3 then no_rotation b rp else True) -> (if keep4 then r4 b rp else True) ->
    forall o p', In (p', o) (b_procs b') ->
      entry_of nat (b_procs b') (front_apply nat b fr rp) o = entry_of nat (b_procs b) fr o.

(* with all three it is front_follows_identity *)
Lemma follows_with_all : follows_without true true true steps_apart.
Proof. intros b b' rp fr. apply front_follows_identity. Qed.

Ltac in_cases :=
  repeat match goal with
         | H : In _ (_ :: _) |- _ => destruct H as [H|H]; [inversion H; subst; clear H|]
         | H : In _ [] |- _ => destruct H
         end.
Ltac nd_small := vm_compute; repeat constructor; cbn; intuition discriminate.
Ltac wf_small :=
  split; [nd_small|]; split; [nd_small|]; split; [nd_small|];
  let p := fresh "p" in let e := fresh "e" in let H := fresh "H" in
  intros p e H; in_cases; vm_compute; tauto.
(* instantiate the statement at a book, its successor (computed), a report and a table of entries *)
Ltac spec_with H b rp fr :=
  let r := eval vm_compute in (book_apply b rp) in
  match r with Ok ?b' => specialize (H b b' rp fr); cbv iota in H end.
Ltac rin := unfold treports in *; cbn [r_process r_deletions] in *.
Ltac feed H :=
  match type of H with ?A -> _ => let C := fresh "C" in assert (C : A); [|specialize (H C); clear C] end.

(* R1: two reports of one path naming different objects, the first one a moved object: the second object, new,
   ends up with the entry of the first *)
Example needs_functional_reports : ~ follows_without false true true steps_apart.
Proof.
  intros H.
  spec_with H (tbook [([1%N], 7%N)]) (treports [([2%N], tproc 7); ([2%N], tproc 9)] [[1%N]]) [([1%N], 5%nat)].
  feed H; [wf_small|]. feed H; [vm_compute; reflexivity|]. feed H; [nd_small|]. specialize (H I).
  feed H. { intros p pi q pi' H1 _ Ho _ H2 _ _. rin. in_cases; vm_compute in Ho; discriminate Ho. }
  feed H. { intros p pi old H1 Hs. rin. in_cases; discriminate Hs. }
  specialize (H 9%N [2%N]). feed H; [vm_compute; tauto|]. vm_compute in H. discriminate H.
Qed.

(* R3: two processes exchange their paths and nothing is deleted: both lose their entries *)
Example needs_no_rotation : ~ follows_without true false true steps_apart.
Proof.
  intros H.
  spec_with H (tbook [([1%N], 7%N); ([2%N], 8%N)]) (treports [([1%N], tproc 8); ([2%N], tproc 7)] [])
            [([1%N], 5%nat); ([2%N], 6%nat)].
  feed H; [wf_small|]. feed H; [vm_compute; reflexivity|]. feed H; [nd_small|].
  feed H. { intros p pi pi' H1 _ H2 _. rin. in_cases; reflexivity. }
  specialize (H I).
  feed H. { intros p pi old H1 Hs. rin. in_cases; discriminate Hs. }
  specialize (H 7%N [2%N]). feed H; [vm_compute; tauto|]. vm_compute in H. discriminate H.
Qed.

(* R4: a Step reported among the processes with the object of a moved process takes its entry away *)
Example needs_steps_apart : ~ follows_without true true false steps_apart.
Proof.
  intros H.
  spec_with H (tbook [([1%N], 7%N)]) (treports [([3%N], tstep 7); ([2%N], tproc 7)] [[1%N]]) [([1%N], 5%nat)].
  feed H; [wf_small|]. feed H; [vm_compute; reflexivity|]. feed H; [nd_small|].
  feed H. { intros p pi pi' H1 S1 H2 S2. rin. in_cases; try reflexivity; discriminate. }
  feed H. { intros p pi q pi' H1 S1 Ho Hne H2 S2 Hobj. rin. in_cases; try discriminate;
            exfalso; apply Hobj; reflexivity. }
  specialize (H I).
  specialize (H 7%N [2%N]). feed H; [vm_compute; tauto|]. vm_compute in H. discriminate H.
Qed.

(* R4 in the form it had before repair d76c21b (steps_apart_moved: a Step reported AT the path its object is
   registered at is let through) is not enough any more: the Step at [1] names object 7, registered at [1], which
   is deleted; a new process 9 is registered at [1] by the same update.  The entry of 7 is taken for the Step's
   report, put back under [1], and the new object 9 starts with the entry of the deleted one.  (With
   front_apply_neq the report was no move and 9 started without an entry: steps_in_place_neq.) *)
Example steps_apart_moved_not_enough : ~ follows_without true true true steps_apart_moved.
Proof.
  intros H.
  spec_with H (tbook [([1%N], 7%N)]) (treports [([1%N], tstep 7); ([1%N], tproc 9)] [[1%N]]) [([1%N], 5%nat)].
  feed H; [wf_small|]. feed H; [vm_compute; reflexivity|]. feed H; [nd_small|].
  feed H. { intros p pi pi' H1 S1 H2 S2. rin. in_cases; try reflexivity; discriminate. }
  feed H. { intros p pi q pi' H1 S1 Ho Hne H2 S2 Hobj. rin. in_cases; try discriminate;
            try (vm_compute in Ho; discriminate Ho). }
  feed H. { intros p pi old H1 Hs Ho Hne. rin. in_cases; try discriminate;
            try (vm_compute in Ho; inversion Ho; congruence). }
  specialize (H 9%N [1%N]). feed H; [vm_compute; tauto|]. vm_compute in H. discriminate H.
Qed.

Example steps_in_place_neq :
  let b := tbook [([1%N], 7%N)] in
  let rp := treports [([1%N], tstep 7); ([1%N], tproc 9)] [[1%N]] in
  let fr : fronts nat := [([1%N], 5%nat)] in
  exists b', book_apply b rp = Ok b' /\
    entry_of nat (b_procs b) fr 9%N = None /\
    entry_of nat (b_procs b') (front_apply_neq nat b fr rp) 9%N = None /\
    entry_of nat (b_procs b') (front_apply nat b fr rp) 9%N = Some 5%nat.
Proof. cbv zeta. eexists. split; [vm_compute; reflexivity|]. repeat split; vm_compute; reflexivity. Qed.

(* ================= 5. the former R2: deleted and re-registered in place ================= *)
(* A process deleted and re-registered in place by one update (object 7 at [1], [1] among the deletions): the
   reports violate not_in_place and satisfy R1, R3, R4.  Since repair d76c21b the process keeps its entry -- by
   computation, and by front_follows_identity, which has no premise about it any more; with the code before the
   repair (front_apply_neq: `old != path`, so the report was no move and _delete_path popped the entry) it lost
   it.  This was the example needs_not_in_place. *)
Example in_place_kept :
  let b := tbook [([1%N], 7%N)] in
  let rp := treports [([1%N], tproc 7)] [[1%N]] in
  let fr : fronts nat := [([1%N], 5%nat)] in
  exists b', book_apply b rp = Ok b' /\ b_procs b' = b_procs b /\
    wf_front nat (b_procs b) fr /\ NoDup (map snd (b_procs b')) /\
    ~ not_in_place b rp /\ reports_follow b rp /\
    entry_of nat (b_procs b) fr 7%N = Some 5%nat /\
    entry_of nat (b_procs b') (front_apply nat b fr rp) 7%N = Some 5%nat.
Proof.
  cbv zeta. eexists. split; [vm_compute; reflexivity|]. split; [reflexivity|].
  split; [wf_small|]. split; [nd_small|].
  split.
  { intros H. specialize (H [1%N] (tproc 7) (or_introl eq_refl) eq_refl eq_refl [1%N] (or_introl eq_refl)).
    vm_compute in H. discriminate H. }
  split.
  { split; [|split].
    - intros p pi pi' H1 _ H2 _. rin. in_cases; reflexivity.
    - intros p pi q pi' H1 _ Ho Hne H2 _ _. rin. in_cases. vm_compute in Ho. inversion Ho. congruence.
    - intros p pi old H1 Hs. rin. in_cases; discriminate Hs. }
  split; vm_compute; reflexivity.
Qed.

(* ... the same by the general theorem *)
Example in_place_kept_by_theorem :
  let b := tbook [([1%N], 7%N)] in
  let rp := treports [([1%N], tproc 7)] [[1%N]] in
  forall (T : Type) (fr : fronts T) b', wf_front T (b_procs b) fr -> book_apply b rp = Ok b' ->
    entry_of T (b_procs b') (front_apply T b fr rp) 7%N = entry_of T (b_procs b) fr 7%N.
Proof.
  cbv zeta. intros T fr b' Hwf Hb.
  destruct in_place_kept as (b1 & Hb1 & _ & _ & Hnd & _ & (R1 & R3 & R4) & _). cbv zeta in *.
  rewrite Hb in Hb1. inversion Hb1; subst b1.
  apply (front_follows_identity T _ b' _ fr Hwf Hb Hnd R1 R3 R4 7%N [1%N]).
  vm_compute in Hb. inversion Hb; subst. vm_compute. tauto.
Qed.

(* the code before the repair on the same update: the entry is lost *)
Example in_place_neq_lost :
  let b := tbook [([1%N], 7%N)] in
  let rp := treports [([1%N], tproc 7)] [[1%N]] in
  let fr : fronts nat := [([1%N], 5%nat)] in
  exists b', book_apply b rp = Ok b' /\
    entry_of nat (b_procs b) fr 7%N = Some 5%nat /\
    entry_of nat (b_procs b') (front_apply_neq nat b fr rp) 7%N = None.
Proof. cbv zeta. eexists. split; [vm_compute; reflexivity|]. split; vm_compute; reflexivity. Qed.

Print Assumptions front_follows_identity_gen.
Print Assumptions front_follows_identity.
Print Assumptions front_apply_wf.
Print Assumptions front_apply_gone_gen.
Print Assumptions front_apply_gone.
Print Assumptions run_wf.
Print Assumptions run_follows.
Print Assumptions steps_apart_fresh.
Print Assumptions front_apply_pinned_refuted.
Print Assumptions needs_functional_reports.
Print Assumptions needs_no_rotation.
Print Assumptions needs_steps_apart.
Print Assumptions steps_apart_weaken.
Print Assumptions steps_apart_moved_not_enough.
Print Assumptions steps_in_place_neq.
Print Assumptions follows_with_all.
Print Assumptions in_place_kept.
Print Assumptions in_place_kept_by_theorem.
Print Assumptions in_place_neq_lost.
