(* Shared definitions for the proofs about Model/Sched.v. *)
From Coq Require Import List NArith ZArith Bool Lia Sorting.Sorted.
From Viv Require Import Model.Sched.
Import ListNotations.
Open Scope Z_scope.

Section Defs.
Context {Sg U W : Type}.

Definition is_emit (e : event Sg) : bool := match e with EEmit _ _ _ => true | _ => false end.
Definition is_apply (e : event Sg) : bool := match e with EApply _ _ _ _ => true | _ => false end.
Definition is_poll (e : event Sg) : bool :=
  match e with EInvoke _ _ _ _ _ _ _ _ | EQuiet _ _ _ => true | _ => false end.
Definition is_drop (e : event Sg) : bool := match e with EDrop _ _ _ _ => true | _ => false end.

(* times of the history rows, newest first *)
Definition emit_times (l : list (event Sg)) : list Z :=
  flat_map (fun e => match e with EEmit _ now _ => [now] | _ => [] end) l.

Definition emits_le (g : Z) (l : list (event Sg)) : Prop := Forall (fun t => t <= g) (emit_times l).

(* every logged invocation was handed exactly the length of the interval it covers *)
Definition log_inv_ok (l : list (event Sg)) : Prop :=
  Forall (fun e => match e with EInvoke _ _ start fin ts _ _ _ => ts = fin - start | _ => True end) l.

(* every logged application happened at the end of its interval *)
Definition log_app_ok (l : list (event Sg)) : Prop :=
  Forall (fun e => match e with EApply _ _ fin now => now = fin | _ => True end) l.

Definition cnt_inv (p : pid) (fin : Z) (l : list (event Sg)) : nat :=
  length (filter (fun e => match e with EInvoke _ q _ f _ _ _ _ => N.eqb q p && Z.eqb f fin | _ => false end) l).
Definition cnt_app (p : pid) (fin : Z) (l : list (event Sg)) : nat :=
  length (filter (fun e => match e with EApply _ q f _ => N.eqb q p && Z.eqb f fin | _ => false end) l).
Definition cnt_drop (p : pid) (fin : Z) (l : list (event Sg)) : nat :=
  length (filter (fun e => match e with EDrop _ q f _ => N.eqb q p && Z.eqb f fin | _ => false end) l).

Definition fkeys (f : front U) : list pid := map fst f.

(* 1 when p has an update in flight that is due at fin *)
Definition pend (p : pid) (fin : Z) (f : front U) : nat :=
  match flook U f p with
  | Some e => match fu e with Some _ => if ft e =? fin then 1%nat else 0%nat | None => 0%nat end
  | None => 0%nat
  end.

(* front invariants at a loop head *)
Definition pending_future (s : st Sg U W) : Prop :=
  forall p e u, In (p, e) (frt Sg U W s) -> fu e = Some u -> gt Sg U W s < ft e.
Definition idle_behind (s : st Sg U W) : Prop :=
  forall p e, In (p, e) (frt Sg U W s) -> fu e = None -> ft e <= gt Sg U W s.
Definition idle_tight (s : st Sg U W) : Prop :=
  forall p e, In (p, e) (frt Sg U W s) -> fu e = None -> ft e = gt Sg U W s.
Definition fronts_le (endt : Z) (s : st Sg U W) : Prop :=
  forall p e, In (p, e) (frt Sg U W s) -> ft e <= endt.
Definition nodup_fronts (s : st Sg U W) : Prop := NoDup (fkeys (frt Sg U W s)).

(* every invocation is matched by exactly one application, drop, or in-flight update *)
Definition balanced (s : st Sg U W) : Prop :=
  forall p fin, cnt_inv p fin (log Sg U W s)
                = (cnt_app p fin (log Sg U W s) + cnt_drop p fin (log Sg U W s) + pend p fin (frt Sg U W s))%nat.

(* state equality up to the log *)
Definition same_but_log (a b : st Sg U W) : Prop :=
  gt Sg U W a = gt Sg U W b /\ procs Sg U W a = procs Sg U W b /\ frt Sg U W a = frt Sg U W b
  /\ sto Sg U W a = sto Sg U W b /\ wld Sg U W a = wld Sg U W b.

Definition strip_emits (l : list (event Sg)) : list (event Sg) := filter (fun e => negb (is_emit e)) l.
Definition only_emits (l : list (event Sg)) : list (event Sg) := filter is_emit l.

Inductive sublist {A} : list A -> list A -> Prop :=
| sub_nil : sublist [] []
| sub_skip x l m : sublist l m -> sublist l (x :: m)
| sub_take x l m : sublist l m -> sublist (x :: l) (x :: m).

End Defs.
