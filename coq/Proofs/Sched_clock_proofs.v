(* Proofs about Model/Sched.v: the clock (C03), the timestep handed (C02, local part),
   snapshots (C04) and the structure of the emitted rows (C12). *)
From Coq Require Import List NArith ZArith Bool Lia Sorting.Sorted.
From Viv Require Import Model.Sched Proofs.Sched_defs.
Import ListNotations.
Open Scope Z_scope.

Section Clock.
Variables (Sg U W : Type).
Variable poll : W -> pid -> Sg -> Z * W.
Variable cond : W -> pid -> Z -> Sg -> bool * W.
Variable next : W -> pid -> Z -> Sg -> U * W.
Variable commit : Sg -> list pid -> list (pid * U) -> Sg * list pid.

Notation st := (st Sg U W).
Notation iterv vr ee := (iter Sg U W poll cond next commit vr ee).
Notation runv vr ee := (run Sg U W poll cond next commit vr ee).
Notation run_forv vr ee := (run_for Sg U W poll cond next commit vr ee).
Notation run_callsv vr ee := (run_calls Sg U W poll cond next commit vr ee).
Notation gt := (gt Sg U W).
Notation sto := (sto Sg U W).
Notation log := (log Sg U W).

Notation procs := (procs Sg U W).
Notation frt := (frt Sg U W).
Notation wld := (wld Sg U W).
Notation pl := (pl Sg U W).
Notation pf := (pf Sg U W).
Notation pw := (pw Sg U W).
Notation pfull := (pfull Sg U W).
Notation pquiet := (pquiet Sg U W).
Notation plog := (plog Sg U W).
Notation pok := (pok Sg U W).
Notation pollv vr := (poll_one Sg U W poll cond next vr).
Notation mkst := (Build_st Sg U W).
Notation mkpl := (Build_pl Sg U W).

(* ------------------------------------------------------------------ *)
(* small list facts                                                    *)

Lemma emit_times_app (l m : list (event Sg)) : emit_times (l ++ m) = emit_times l ++ emit_times m.
Proof. unfold emit_times. apply flat_map_app. Qed.

Lemma emit_times_none (l : list (event Sg)) :
  Forall (fun e => is_emit e = false) l -> emit_times l = [].
Proof.
  intros H. induction H as [|e l He Hl IH]; [reflexivity|].
  destruct e; cbn in *; try discriminate; exact IH.
Qed.

Lemma strip_emits_app (l m : list (event Sg)) : strip_emits (l ++ m) = strip_emits l ++ strip_emits m.
Proof. unfold strip_emits. apply filter_app. Qed.

Lemma only_emits_app (l m : list (event Sg)) : only_emits (l ++ m) = only_emits l ++ only_emits m.
Proof. unfold only_emits. apply filter_app. Qed.

Lemma Forall_forallb {A} (f : A -> bool) (l : list A) :
  Forall (fun x => f x = true) l -> forallb f l = true.
Proof. intros H. apply forallb_forall. apply Forall_forall. exact H. Qed.

Lemma is_apply_not_emit (e : event Sg) : is_apply e = true -> is_emit e = false.
Proof. destruct e; cbn; intros H; try discriminate; reflexivity. Qed.
Lemma is_poll_not_emit (e : event Sg) : is_poll e = true -> is_emit e = false.
Proof. destruct e; cbn; intros H; try discriminate; reflexivity. Qed.
Lemma is_drop_not_emit (e : event Sg) : is_drop e = true -> is_emit e = false.
Proof. destruct e; cbn; intros H; try discriminate; reflexivity. Qed.

(* ------------------------------------------------------------------ *)
(* the poll loop                                                       *)

Definition acc0 (s : st) : pl :=
  mkpl (keep_live U (procs s) (frt s)) (wld s) None []
       (rev (drop_events Sg U (gt s) (procs s) (frt s)) ++ log s) true.

Definition polled (vr : variant) (endt : Z) (force : bool) (s : st) : pl :=
  fold_left (pollv vr (gt s) endt force (sto s)) (procs s) (acc0 s).

(* what a poll event looks like *)
Definition poll_ev_ok (vr : variant) (now endt : Z) (force : bool) (sg : Sg) (e : event Sg) : Prop :=
  match e with
  | EInvoke _ p start fin ts req now' v =>
      now' = now /\ v = sg /\ start <= now /\ fin <= endt /\
      fin = (if force then Z.min (start + req) endt else start + req) /\
      ts = (if v_fix_ts vr && force && (endt <? start + req) then endt - start else req)
  | EQuiet _ _ _ => True
  | _ => False
  end.

Definition pf_lb (lo : Z) (o : option Z) : Prop :=
  match o with None => True | Some d => lo <= d end.

Lemma poll_one_spec vr now endt force sg (a : pl) p :
  (exists ev, plog (pollv vr now endt force sg a p) = ev ++ plog a /\
              Forall (poll_ev_ok vr now endt force sg) ev) /\
  (pok (pollv vr now endt force sg a p) = true -> pok a = true) /\
  (forall lo, lo <= 1 -> lo <= endt - now ->
              pok (pollv vr now endt force sg a p) = true ->
              pf_lb lo (pfull a) -> pf_lb lo (pfull (pollv vr now endt force sg a p))).
Proof.
  unfold poll_one.
  set (e := match flook U (pf a) p with Some e => e | None => Build_fe U now None false end).
  set (f0 := match flook U (pf a) p with Some _ => pf a | None => fset U (pf a) p e end).
  destruct (ft e <=? now) eqn:Ele.
  - apply Z.leb_le in Ele.
    destruct (poll (pw a) p sg) as [req w1] eqn:Epoll.
    set (fut := if force then Z.min (ft e + req) endt else ft e + req).
    destruct (fut <=? endt) eqn:Efut.
    + apply Z.leb_le in Efut.
      set (ts := if v_fix_ts vr && force && (endt <? ft e + req) then endt - ft e else req).
      destruct (cond w1 p ts sg) as [c w2] eqn:Econd.
      destruct c.
      * destruct (next w2 p ts sg) as [u w3] eqn:Enext.
        cbn [Sched.plog Sched.pok Sched.pfull].
        split; [|split].
        -- exists [EInvoke Sg p (ft e) fut ts req now sg]. split; [reflexivity|].
           constructor; [|constructor]. cbn. repeat split; try assumption; reflexivity.
        -- intros H. apply andb_prop in H. apply H.
        -- intros lo Hlo1 Hlo2 H Hlb. apply andb_prop in H. destruct H as [_ H].
           assert (Hd : lo <= fut - now).
           { apply orb_prop in H. destruct H as [H|H].
             - apply Z.ltb_lt in H. lia.
             - apply andb_prop in H. destruct H as [_ H]. apply Z.eqb_eq in H. lia. }
           destruct (pfull a) as [d0|]; cbn in *; lia.
      * cbn [Sched.plog Sched.pok Sched.pfull].
        split; [|split].
        -- exists [EQuiet Sg p now]. split; [reflexivity|]. constructor; [exact I|constructor].
        -- intros H; exact H.
        -- intros lo _ _ _ H; exact H.
    + cbn [Sched.plog Sched.pok Sched.pfull].
      split; [|split].
      * exists []. split; [reflexivity|constructor].
      * intros H. apply andb_prop in H. apply H.
      * intros lo Hlo1 Hlo2 H Hlb. apply andb_prop in H. destruct H as [_ H].
        apply Z.ltb_lt in H.
        destruct (pfull a) as [d0|]; cbn in *; lia.
  - apply Z.leb_gt in Ele.
    cbn [Sched.plog Sched.pok Sched.pfull].
    split; [|split].
    + exists []. split; [reflexivity|constructor].
    + intros H; exact H.
    + intros lo Hlo1 Hlo2 H Hlb.
      destruct (pfull a) as [d0|]; cbn in *; lia.
Qed.

Lemma poll_fold_spec vr now endt force sg ps : forall (a : pl),
  (exists ev, plog (fold_left (pollv vr now endt force sg) ps a) = ev ++ plog a /\
              Forall (poll_ev_ok vr now endt force sg) ev) /\
  (pok (fold_left (pollv vr now endt force sg) ps a) = true -> pok a = true) /\
  (forall lo, lo <= 1 -> lo <= endt - now ->
              pok (fold_left (pollv vr now endt force sg) ps a) = true ->
              pf_lb lo (pfull a) -> pf_lb lo (pfull (fold_left (pollv vr now endt force sg) ps a))).
Proof.
  induction ps as [|p ps IH]; intros a; cbn [fold_left].
  - split; [|split].
    + exists []. split; [reflexivity|constructor].
    + intros H; exact H.
    + intros lo _ _ _ H; exact H.
  - destruct (IH (pollv vr now endt force sg a p)) as [[ev2 [Hl2 Hf2]] [Hok2 Hlb2]].
    destruct (poll_one_spec vr now endt force sg a p) as [[ev1 [Hl1 Hf1]] [Hok1 Hlb1]].
    split; [|split].
    + exists (ev2 ++ ev1). split.
      * rewrite Hl2, Hl1. apply app_assoc.
      * apply Forall_app. split; assumption.
    + intros H. apply Hok1, Hok2, H.
    + intros lo Hlo1 Hlo2 H Hlb. apply Hlb2; try assumption.
      apply Hlb1; try assumption. apply Hok2, H.
Qed.

(* ------------------------------------------------------------------ *)
(* the pieces of the advance                                           *)

Lemma drop_events_drops now ps (f : front U) :
  Forall (fun e => is_drop e = true) (drop_events Sg U now ps f).
Proof.
  induction f as [|[q e] r IH]; cbn; [constructor|].
  destruct (mem q ps); cbn; [exact IH|].
  destruct (fu e); cbn; [constructor; [reflexivity|exact IH]|exact IH].
Qed.

Lemma collect_applies now (f : front U) : forall f' us ev,
  collect Sg U now f = (f', us, ev) -> Forall (fun e => is_apply e = true) ev.
Proof.
  induction f as [|[q e] r IH]; intros f' us ev H; cbn in H.
  - inversion H; subst. constructor.
  - destruct (collect Sg U now r) as [[r' us'] ev'] eqn:Ec.
    specialize (IH _ _ _ eq_refl).
    destruct (ft e <=? now).
    + destruct (fu e); inversion H; subst; [constructor; [reflexivity|exact IH]|exact IH].
    + inversion H; subst. exact IH.
Qed.

Lemma nef_fold now (f : front U) : forall acc,
  let r := fold_left (fun acc pe => if (now <? ft (snd pe)) && (ft (snd pe) <? acc)
                                    then ft (snd pe) else acc) f acc in
  r <= acc /\ (now < acc -> now < r).
Proof.
  induction f as [|pe f IH]; intros acc; cbn [fold_left].
  - cbn. lia.
  - cbn zeta in *.
    destruct ((now <? ft (snd pe)) && (ft (snd pe) <? acc)) eqn:E.
    + apply andb_prop in E. destruct E as [E1 E2].
      apply Z.ltb_lt in E1. apply Z.ltb_lt in E2.
      specialize (IH (ft (snd pe))). lia.
    + apply IH.
Qed.

Lemma next_event_fixed_le now endt (f : front U) : next_event_fixed U now endt f <= endt.
Proof. unfold next_event_fixed. apply (nef_fold now f endt). Qed.

Lemma next_event_fixed_gt now endt (f : front U) : now < endt -> now < next_event_fixed U now endt f.
Proof. unfold next_event_fixed. apply (nef_fold now f endt). Qed.

Lemma next_event_fixed_ge now endt (f : front U) : now <= endt -> now <= next_event_fixed U now endt f.
Proof.
  intros H. destruct (Z.eq_dec now endt) as [E|E].
  - subst now. unfold next_event_fixed.
    assert (G : forall acc, acc <= endt ->
              fold_left (fun acc pe => if (endt <? ft (snd pe)) && (ft (snd pe) <? acc)
                                       then ft (snd pe) else acc) f acc = acc).
    { clear H. induction f as [|pe f IH]; intros acc Ha; cbn [fold_left]; [reflexivity|].
      destruct ((endt <? ft (snd pe)) && (ft (snd pe) <? acc)) eqn:E.
      - apply andb_prop in E. destruct E as [E1 E2].
        apply Z.ltb_lt in E1. apply Z.ltb_lt in E2. lia.
      - apply IH, Ha. }
    rewrite G; lia.
  - assert (now < next_event_fixed U now endt f) by (apply next_event_fixed_gt; lia). lia.
Qed.

Lemma rows_pinned_rows fuel k now x : forall et,
  Forall (fun e => e = EEmit Sg now x) (rows_pinned Sg fuel k now et x).
Proof.
  unfold rows_pinned.
  induction fuel as [|n IH]; intros et; [constructor|].
  destruct (et <=? now); [constructor; [reflexivity|apply IH]|constructor].
Qed.

Lemma emit_after_rows vr ee now et x rows et' :
  emit_after Sg vr ee now et x = (rows, et') -> Forall (fun e => e = EEmit Sg now x) rows.
Proof.
  unfold emit_after. intros H.
  destruct ee as [k|].
  - destruct (et <=? now).
    + apply pair_equal_spec in H. destruct H as [Hr _]. subst rows. destruct (v_fix_emit vr).
      * constructor; [reflexivity|constructor].
      * apply rows_pinned_rows.
    + inversion H; subst. constructor.
  - inversion H; subst. constructor; [reflexivity|constructor].
Qed.

Lemma emit_after_none vr now et x rows et' :
  emit_after Sg vr None now et x = (rows, et') -> rows = [EEmit Sg now x] /\ et' = et.
Proof. unfold emit_after. intros H. inversion H; subst. split; reflexivity. Qed.

Lemma emit_after_fixed ee now et x rows et' :
  emit_after Sg vfixed ee now et x = (rows, et') -> rows = [] \/ rows = [EEmit Sg now x].
Proof.
  unfold emit_after. intros H. destruct ee as [k|].
  - destruct (et <=? now); inversion H; subst; cbn; [right|left]; reflexivity.
  - inversion H; subst. right; reflexivity.
Qed.

(* ------------------------------------------------------------------ *)
(* one pass, taken apart                                               *)

Lemma iter_cases vr ee endt force et s s' f' et' ok :
  iterv vr ee endt force et s = (s', f', et', ok) ->
  ok = pok (polled vr endt force s) /\
  f' = (if force && (gt s' =? endt) then false else force) /\
  ( (pfull (polled vr endt force s) = None /\ v_fix_quiet vr = true /\ et' = et /\
     s' = mkst (next_event_fixed U (gt s) endt (pf (polled vr endt force s))) (procs s)
               (advance_quiet U (next_event_fixed U (gt s) endt (pf (polled vr endt force s))) true
                              (pquiet (polled vr endt force s)) (pf (polled vr endt force s)))
               (sto s) (pw (polled vr endt force s)) (plog (polled vr endt force s)))
  \/ (pfull (polled vr endt force s) = None /\ v_fix_quiet vr = false /\ et' = et /\
      s' = mkst (next_event_pinned U endt (pf (polled vr endt force s))) (procs s)
                (pf (polled vr endt force s)) (sto s) (pw (polled vr endt force s))
                (plog (polled vr endt force s)))
  \/ (exists d f2 us ev sto' procs' rows,
        pfull (polled vr endt force s) = Some d /\ gt s + d <= endt /\
        collect Sg U (gt s + d) (advance_quiet U (gt s + d) false (pquiet (polled vr endt force s))
                                               (pf (polled vr endt force s))) = (f2, us, ev) /\
        commit (sto s) (procs s) us = (sto', procs') /\
        emit_after Sg vr ee (gt s + d) et sto' = (rows, et') /\
        s' = mkst (gt s + d) procs' f2 sto' (pw (polled vr endt force s))
                  (rows ++ rev ev ++ plog (polled vr endt force s)))
  \/ (exists d, pfull (polled vr endt force s) = Some d /\ endt < gt s + d /\ et' = et /\
        s' = mkst endt (procs s) (pf (polled vr endt force s)) (sto s)
                  (pw (polled vr endt force s)) (plog (polled vr endt force s))) ).
Proof.
  unfold iter. fold (acc0 s). fold (polled vr endt force s).
  set (a := polled vr endt force s). intros H.
  destruct (pfull a) as [d|] eqn:Efull.
  - destruct (gt s + d <=? endt) eqn:Ed.
    + apply Z.leb_le in Ed.
      destruct (collect Sg U (gt s + d) (advance_quiet U (gt s + d) false (pquiet a) (pf a)))
        as [[f2 us] ev] eqn:Ecol.
      destruct (commit (sto s) (procs s) us) as [sto' procs'] eqn:Ecom.
      destruct (emit_after Sg vr ee (gt s + d) et sto') as [rows et2] eqn:Eem.
      inversion H; subst. split; [reflexivity|]. split; [reflexivity|].
      right; right; left. exists d, f2, us, ev, sto', procs', rows.
      repeat split; assumption.
    + apply Z.leb_gt in Ed.
      inversion H; subst. split; [reflexivity|]. split; [reflexivity|].
      right; right; right. exists d. repeat split; assumption.
  - destruct (v_fix_quiet vr) eqn:Eq.
    + inversion H; subst. split; [reflexivity|]. split; [reflexivity|].
      left. repeat split.
    + inversion H; subst. split; [reflexivity|]. split; [reflexivity|].
      right; left. repeat split.
Qed.

Lemma polled_lb vr endt force s lo :
  lo <= 1 -> lo <= endt - gt s -> pok (polled vr endt force s) = true ->
  pf_lb lo (pfull (polled vr endt force s)).
Proof.
  intros H1 H2 Hok. unfold polled in *.
  apply (poll_fold_spec vr (gt s) endt force (sto s) (procs s) (acc0 s)); try assumption.
  exact I.
Qed.

(* ------------------------------------------------------------------ *)
(* the loop, taken apart                                               *)

Lemma run_stop vr ee fuel endt force et s :
  (gt s <? endt) || force = false -> runv vr ee fuel endt force et s = (Some s, true).
Proof. intros H. destruct fuel; cbn [run]; rewrite H; reflexivity. Qed.

Lemma run_zero vr ee endt force et s :
  (gt s <? endt) || force = true -> runv vr ee 0 endt force et s = (None, true).
Proof. intros H. cbn [run]. rewrite H. reflexivity. Qed.

Lemma run_step vr ee n endt force et s :
  (gt s <? endt) || force = true ->
  runv vr ee (S n) endt force et s =
  (let '(s', force', et', ok) := iterv vr ee endt force et s in
   let '(r, ok') := runv vr ee n endt force' et' s' in (r, ok && ok')).
Proof. intros H. cbn [run]. rewrite H. reflexivity. Qed.

Lemma run_invariant vr ee endt (Inv : bool -> st -> Prop) (needok : bool) :
  (forall force et s s' f' et' ok,
     Inv force s -> (gt s <? endt) || force = true ->
     iterv vr ee endt force et s = (s', f', et', ok) -> (needok = true -> ok = true) -> Inv f' s') ->
  forall fuel force et s s' ok,
    Inv force s -> runv vr ee fuel endt force et s = (Some s', ok) ->
    (needok = true -> ok = true) -> Inv false s' /\ (gt s' <? endt) = false.
Proof.
  intros Hstep. induction fuel as [|n IH]; intros force et s s' ok HI Hrun Hneed.
  - destruct ((gt s <? endt) || force) eqn:Ec.
    + rewrite run_zero in Hrun by exact Ec. discriminate.
    + rewrite run_stop in Hrun by exact Ec. inversion Hrun; subst.
      apply orb_false_elim in Ec. destruct Ec as [E1 E2]. subst force. split; assumption.
  - destruct ((gt s <? endt) || force) eqn:Ec.
    + rewrite run_step in Hrun by exact Ec.
      destruct (iterv vr ee endt force et s) as [[[s1 f1] et1] ok1] eqn:Eit.
      destruct (runv vr ee n endt f1 et1 s1) as [r ok2] eqn:Erun.
      inversion Hrun; subst.
      assert (Hoks : needok = true -> ok1 = true /\ ok2 = true).
      { intros Hn. apply andb_prop. apply Hneed, Hn. }
      apply (IH f1 et1 s1 s' ok2).
      * apply (Hstep force et s s1 f1 et1 ok1); try assumption.
        intros Hn. apply Hoks, Hn.
      * exact Erun.
      * intros Hn. apply Hoks, Hn.
    + rewrite run_stop in Hrun by exact Ec. inversion Hrun; subst.
      apply orb_false_elim in Ec. destruct Ec as [E1 E2]. subst force. split; assumption.
Qed.

(* ------------------------------------------------------------------ *)
(* C03: the clock                                                      *)

(* never passes the end: unconditional *)
Theorem iter_upper vr ee endt force et s s' f' et' ok :
  vr = vfixed -> gt s <= endt -> iterv vr ee endt force et s = (s', f', et', ok) -> gt s' <= endt.
Proof.
  intros Hv Hle H. subst vr.
  destruct (iter_cases _ _ _ _ _ _ _ _ _ _ H) as [_ [_ Hc]].
  destruct Hc as [C|[C|[C|C]]].
  - destruct C as [_ [_ [_ Hs]]]. subst s'. cbn [Sched.gt]. apply next_event_fixed_le.
  - destruct C as [_ [Hq _]]. cbn in Hq. discriminate.
  - destruct C as (d & f2 & us & ev & sto' & procs' & rows & _ & Hd & _ & _ & _ & Hs).
    subst s'. cbn [Sched.gt]. exact Hd.
  - destruct C as (d & _ & _ & _ & Hs). subst s'. cbn [Sched.gt]. lia.
Qed.

(* never decreases / strictly advances while before the end: under the ok flag *)
Theorem iter_mono ee endt force et s s' f' et' :
  gt s <= endt -> iterv vfixed ee endt force et s = (s', f', et', true) -> gt s <= gt s' <= endt.
Proof.
  intros Hle H.
  destruct (iter_cases _ _ _ _ _ _ _ _ _ _ H) as [Hok [_ Hc]].
  symmetry in Hok.
  assert (Hlb := polled_lb vfixed endt force s 0 ltac:(lia) ltac:(lia) Hok).
  destruct Hc as [C|[C|[C|C]]].
  - destruct C as [_ [_ [_ Hs]]]. subst s'. cbn [Sched.gt].
    split; [apply next_event_fixed_ge; exact Hle|apply next_event_fixed_le].
  - destruct C as [_ [Hq _]]. cbn in Hq. discriminate.
  - destruct C as (d & f2 & us & ev & sto' & procs' & rows & Hfull & Hd & _ & _ & _ & Hs).
    subst s'. cbn [Sched.gt]. rewrite Hfull in Hlb. cbn in Hlb. lia.
  - destruct C as (d & _ & _ & _ & Hs). subst s'. cbn [Sched.gt]. lia.
Qed.

Theorem iter_progress ee endt force et s s' f' et' :
  gt s < endt -> iterv vfixed ee endt force et s = (s', f', et', true) -> gt s < gt s'.
Proof.
  intros Hlt H.
  destruct (iter_cases _ _ _ _ _ _ _ _ _ _ H) as [Hok [_ Hc]].
  symmetry in Hok.
  assert (Hlb := polled_lb vfixed endt force s 1 ltac:(lia) ltac:(lia) Hok).
  destruct Hc as [C|[C|[C|C]]].
  - destruct C as [_ [_ [_ Hs]]]. subst s'. cbn [Sched.gt].
    apply next_event_fixed_gt; exact Hlt.
  - destruct C as [_ [Hq _]]. cbn in Hq. discriminate.
  - destruct C as (d & f2 & us & ev & sto' & procs' & rows & Hfull & Hd & _ & _ & _ & Hs).
    subst s'. cbn [Sched.gt]. rewrite Hfull in Hlb. cbn in Hlb. lia.
  - destruct C as (d & _ & _ & _ & Hs). subst s'. cbn [Sched.gt]. lia.
Qed.

Theorem iter_force_flag vr ee endt force et s s' f' et' ok :
  iterv vr ee endt force et s = (s', f', et', ok) -> f' = (force && negb (gt s' =? endt)).
Proof.
  intros H.
  destruct (iter_cases _ _ _ _ _ _ _ _ _ _ H) as [_ [Hf _]].
  rewrite Hf. destruct force, (gt s' =? endt); reflexivity.
Qed.

(* when a call returns the global time is exactly the end (no ok needed) *)
Theorem run_lands ee fuel endt force et s s' ok :
  gt s <= endt -> runv vfixed ee fuel endt force et s = (Some s', ok) -> gt s' = endt.
Proof.
  intros Hle Hrun.
  destruct (run_invariant vfixed ee endt (fun _ x => gt x <= endt) false) with
      (fuel := fuel) (force := force) (et := et) (s := s) (s' := s') (ok := ok) as [H1 H2].
  - intros force0 et0 x x' f' et' ok0 HI _ Hit _.
    apply (iter_upper vfixed ee endt force0 et0 x x' f' et' ok0 eq_refl HI Hit).
  - exact Hle.
  - exact Hrun.
  - intros Hn; discriminate.
  - apply Z.ltb_ge in H2. lia.
Qed.

Theorem run_mono ee fuel endt force et s s' :
  gt s <= endt -> runv vfixed ee fuel endt force et s = (Some s', true) -> gt s <= gt s'.
Proof.
  intros Hle Hrun.
  destruct (run_invariant vfixed ee endt (fun _ x => gt s <= gt x <= endt) true) with
      (fuel := fuel) (force := force) (et := et) (s := s) (s' := s') (ok := true) as [H1 H2].
  - intros force0 et0 x x' f' et' ok0 HI _ Hit Hok.
    rewrite (Hok eq_refl) in Hit.
    assert (Hm := iter_mono ee endt force0 et0 x x' f' et' ltac:(lia) Hit). lia.
  - lia.
  - exact Hrun.
  - intros _; reflexivity.
  - lia.
Qed.

(* termination: with this much fuel the loop can only run out if some iteration was not ok *)
Lemma run_fuel_enough_gen ee fuel : forall endt force et s ok,
  gt s <= endt -> (Z.to_nat (endt - gt s) + 1 <= fuel)%nat ->
  runv vfixed ee fuel endt force et s = (None, ok) -> ok = false.
Proof.
  induction fuel as [|n IH]; intros endt force et s ok Hle Hfuel Hrun; [lia|].
  destruct ((gt s <? endt) || force) eqn:Ec.
  - rewrite run_step in Hrun by exact Ec.
    destruct (iterv vfixed ee endt force et s) as [[[s1 f1] et1] ok1] eqn:Eit.
    destruct (runv vfixed ee n endt f1 et1 s1) as [r ok2] eqn:Erun.
    inversion Hrun; subst.
    destruct ok1; [|reflexivity]. cbn [andb].
    assert (Hm := iter_mono ee endt force et s s1 f1 et1 Hle Eit).
    assert (Hff := iter_force_flag _ _ _ _ _ _ _ _ _ _ Eit).
    destruct (Z.eq_dec (gt s1) endt) as [E|E].
    + rewrite E, Z.eqb_refl, andb_false_r in Hff. subst f1.
      rewrite run_stop in Erun; [discriminate|].
      rewrite E, Z.ltb_irrefl. reflexivity.
    + destruct (Z.eq_dec (gt s) endt) as [E2|E2]; [lia|].
      assert (Hp := iter_progress ee endt force et s s1 f1 et1 ltac:(lia) Eit).
      apply (IH endt f1 et1 s1 ok2); [lia|lia|exact Erun].
  - rewrite run_stop in Hrun by exact Ec. discriminate.
Qed.

Theorem run_fuel_enough ee fuel endt force et s ok :
  gt s <= endt -> (Z.to_nat (endt - gt s) + 2 <= fuel)%nat ->
  runv vfixed ee fuel endt force et s = (None, ok) -> ok = false.
Proof.
  intros Hle Hfuel Hrun.
  apply (run_fuel_enough_gen ee fuel endt force et s ok Hle); [lia|exact Hrun].
Qed.

Theorem run_for_lands ee fuel i force s s' ok :
  0 <= i -> run_forv vfixed ee fuel i force s = (Some s', ok) -> gt s' = gt s + i.
Proof.
  intros Hi Hrun. unfold run_for in Hrun.
  eapply (run_lands ee fuel (gt s + i) force); [|exact Hrun]. lia.
Qed.

Theorem run_calls_land ee fuel calls : forall s s' ok,
  Forall (fun c => 0 <= fst c) calls ->
  run_callsv vfixed ee fuel calls s = (Some s', ok) ->
  gt s' = gt s + fold_right (fun c acc => fst c + acc) 0 calls.
Proof.
  induction calls as [|[i f] r IH]; intros s s' ok Hall Hrun.
  - cbn in Hrun. inversion Hrun; subst. cbn. lia.
  - cbn [run_calls] in Hrun. inversion Hall as [|c l Hi Hr]; subst. cbn [fst] in Hi.
    destruct (run_forv vfixed ee fuel i f s) as [[s1|] ok1] eqn:E1; [|discriminate].
    destruct (run_callsv vfixed ee fuel r s1) as [r' ok'] eqn:E2.
    inversion Hrun; subst.
    rewrite (IH _ _ _ Hr E2). rewrite (run_for_lands _ _ _ _ _ _ _ Hi E1).
    cbn [fold_right fst]. lia.
Qed.

(* ------------------------------------------------------------------ *)
(* C02 (local) and C04: what one pass logs                             *)

Lemma polled_log vr endt force s :
  exists polls, plog (polled vr endt force s)
                = polls ++ rev (drop_events Sg U (gt s) (procs s) (frt s)) ++ log s /\
                Forall (poll_ev_ok vr (gt s) endt force (sto s)) polls.
Proof.
  unfold polled.
  destruct (poll_fold_spec vr (gt s) endt force (sto s) (procs s) (acc0 s)) as [[ev [Hl Hf]] _].
  exists ev. split; [exact Hl|exact Hf].
Qed.

Lemma poll_ev_ok_is_poll vr now endt force sg e : poll_ev_ok vr now endt force sg e -> is_poll e = true.
Proof. destruct e; cbn; intros H; try reflexivity; contradiction. Qed.

(* the strong form of the shape of the log of one pass *)
Lemma iter_struct vr ee endt force et s s' f' et' ok :
  iterv vr ee endt force et s = (s', f', et', ok) ->
  exists rows applies polls drops,
    log s' = rows ++ applies ++ polls ++ drops ++ log s /\
    (rows = [] \/ exists et0, emit_after Sg vr ee (gt s') et0 (sto s') = (rows, et')) /\
    Forall (fun e => is_apply e = true) applies /\
    Forall (poll_ev_ok vr (gt s) endt force (sto s)) polls /\
    Forall (fun e => is_drop e = true) drops.
Proof.
  intros H.
  destruct (iter_cases _ _ _ _ _ _ _ _ _ _ H) as [_ [_ Hc]].
  destruct (polled_log vr endt force s) as [polls [Hpl Hpolls]].
  assert (Hdrops : Forall (fun e : event Sg => is_drop e = true)
                          (rev (drop_events Sg U (gt s) (procs s) (frt s)))).
  { apply Forall_rev. apply drop_events_drops. }
  destruct Hc as [C|[C|[C|C]]].
  - destruct C as [_ [_ [_ Hs]]]. subst s'. cbn [Sched.log].
    exists [], [], polls, (rev (drop_events Sg U (gt s) (procs s) (frt s))).
    split; [rewrite Hpl; reflexivity|]. split; [left; reflexivity|].
    split; [constructor|]. split; assumption.
  - destruct C as [_ [_ [_ Hs]]]. subst s'. cbn [Sched.log].
    exists [], [], polls, (rev (drop_events Sg U (gt s) (procs s) (frt s))).
    split; [rewrite Hpl; reflexivity|]. split; [left; reflexivity|].
    split; [constructor|]. split; assumption.
  - destruct C as (d & f2 & us & ev & sto' & procs' & rows & _ & _ & Hcol & _ & Hem & Hs).
    subst s'. cbn [Sched.log Sched.gt Sched.sto].
    exists rows, (rev ev), polls, (rev (drop_events Sg U (gt s) (procs s) (frt s))).
    split; [rewrite Hpl; reflexivity|]. split; [right; exists et; exact Hem|].
    split; [apply Forall_rev; apply (collect_applies _ _ _ _ _ Hcol)|]. split; assumption.
  - destruct C as (d & _ & _ & _ & Hs). subst s'. cbn [Sched.log].
    exists [], [], polls, (rev (drop_events Sg U (gt s) (procs s) (frt s))).
    split; [rewrite Hpl; reflexivity|]. split; [left; reflexivity|].
    split; [constructor|]. split; assumption.
Qed.

Lemma iter_struct_rows vr ee (s' : st) et' rows :
  rows = [] \/ (exists et0, emit_after Sg vr ee (gt s') et0 (sto s') = (rows, et')) ->
  Forall (fun e => e = EEmit Sg (gt s') (sto s')) rows.
Proof.
  intros [Hr|[et0 Hr]]; [subst; constructor|].
  apply (emit_after_rows _ _ _ _ _ _ _ Hr).
Qed.

(* the new events are: rows, then applications, then invocations/quiet marks, then drops
   (newest first) *)
Theorem iter_log_shape vr ee endt force et s s' f' et' ok :
  iterv vr ee endt force et s = (s', f', et', ok) ->
  exists rows applies polls drops,
    log s' = rows ++ applies ++ polls ++ drops ++ log s /\
    forallb is_emit rows = true /\ forallb is_apply applies = true /\
    forallb is_poll polls = true /\ forallb is_drop drops = true.
Proof.
  intros H.
  destruct (iter_struct _ _ _ _ _ _ _ _ _ _ H)
    as (rows & applies & polls & drops & Hlog & Hrows & Happ & Hpolls & Hdrops).
  exists rows, applies, polls, drops.
  split; [exact Hlog|].
  split.
  { apply Forall_forallb.
    assert (Hr := iter_struct_rows vr ee s' et' rows Hrows).
    apply (Forall_impl _ (P := fun e => e = EEmit Sg (gt s') (sto s'))); [|exact Hr].
    intros e He. subst e. reflexivity. }
  split; [apply Forall_forallb; exact Happ|].
  split; [|apply Forall_forallb; exact Hdrops].
  apply Forall_forallb.
  apply (Forall_impl _ (P := poll_ev_ok vr (gt s) endt force (sto s))); [|exact Hpolls].
  intros e He. apply (poll_ev_ok_is_poll _ _ _ _ _ _ He).
Qed.

(* every invocation of one pass sees the same committed state, at the same time, and is handed
   exactly the length of the interval it covers: the requested timestep, or the remainder when
   forced completion cuts it short *)
Theorem iter_invokes ee endt force et s s' f' et' ok :
  iterv vfixed ee endt force et s = (s', f', et', ok) ->
  exists new, log s' = new ++ log s /\
    Forall (fun e => match e with
                     | EInvoke _ p start fin ts req now v =>
                         ts = fin - start /\ now = gt s /\ v = sto s /\ start <= now /\ fin <= endt /\
                         (ts = req \/ (force = true /\ fin = endt /\ ts < req))
                     | _ => True
                     end) new.
Proof.
  intros H.
  destruct (iter_struct _ _ _ _ _ _ _ _ _ _ H)
    as (rows & applies & polls & drops & Hlog & Hrows & Happ & Hpolls & Hdrops).
  assert (Hr := iter_struct_rows vfixed ee s' et' rows Hrows).
  exists (rows ++ applies ++ polls ++ drops).
  split; [rewrite Hlog; repeat rewrite <- app_assoc; reflexivity|].
  repeat (apply Forall_app; split).
  - revert Hr; apply Forall_impl; intros e He. subst e. exact I.
  - revert Happ; apply Forall_impl; intros e He. destruct e; try exact I; discriminate.
  - revert Hpolls; apply Forall_impl; intros e He.
    destruct e as [p0 start fin ts req now view|p0 now|p0 fin now|now x|p0 fin now]; try exact I.
    cbn in He. destruct He as (Hn & Hv & Hs & Hfin & Hfut & Hts). subst now view.
    cbn [v_fix_ts vfixed andb] in Hts.
    destruct force; cbn [andb] in Hts.
    + destruct (endt <? start + req) eqn:E.
      * apply Z.ltb_lt in E. split; [lia|]. do 4 (split; [first [reflexivity|assumption]|]).
        right. lia.
      * apply Z.ltb_ge in E. split; [lia|]. do 4 (split; [first [reflexivity|assumption]|]).
        left. lia.
    + split; [lia|]. do 4 (split; [first [reflexivity|assumption]|]). left. lia.
  - revert Hdrops; apply Forall_impl; intros e He. destruct e; try exact I; discriminate.
Qed.

Lemma iter_invoke_ts ee endt force et s s' f' et' ok :
  log_inv_ok (log s) -> iterv vfixed ee endt force et s = (s', f', et', ok) -> log_inv_ok (log s').
Proof.
  intros Hinv H. destruct (iter_invokes _ _ _ _ _ _ _ _ _ H) as [new [Hlog Hnew]].
  unfold log_inv_ok in *. rewrite Hlog. apply Forall_app. split; [|exact Hinv].
  revert Hnew; apply Forall_impl; intros e He. destruct e; try exact I. apply He.
Qed.

Theorem run_invoke_ts ee fuel endt force et s s' ok :
  log_inv_ok (log s) -> runv vfixed ee fuel endt force et s = (Some s', ok) -> log_inv_ok (log s').
Proof.
  intros Hinv Hrun.
  destruct (run_invariant vfixed ee endt (fun _ x => log_inv_ok (log x)) false) with
      (fuel := fuel) (force := force) (et := et) (s := s) (s' := s') (ok := ok) as [H1 H2].
  - intros force0 et0 x x' f' et' ok0 HI _ Hit _.
    apply (iter_invoke_ts _ _ _ _ _ _ _ _ _ HI Hit).
  - exact Hinv.
  - exact Hrun.
  - intros Hn; discriminate.
  - exact H1.
Qed.

Theorem run_calls_invoke_ts ee fuel calls : forall s s' ok,
  log_inv_ok (log s) -> run_callsv vfixed ee fuel calls s = (Some s', ok) -> log_inv_ok (log s').
Proof.
  induction calls as [|[i f] r IH]; intros s s' ok Hinv Hrun.
  - cbn in Hrun. inversion Hrun; subst. exact Hinv.
  - cbn [run_calls] in Hrun.
    destruct (run_forv vfixed ee fuel i f s) as [[s1|] ok1] eqn:E1; [|discriminate].
    destruct (run_callsv vfixed ee fuel r s1) as [r' ok'] eqn:E2.
    inversion Hrun; subst.
    apply (IH _ _ _ (run_invoke_ts _ _ _ _ _ _ _ _ Hinv E1) E2).
Qed.

(* ------------------------------------------------------------------ *)
(* C12: rows                                                           *)

(* rows on top, then events that are not rows *)
Lemma iter_struct2 vr ee endt force et s s' f' et' ok :
  iterv vr ee endt force et s = (s', f', et', ok) ->
  exists rows rest,
    log s' = rows ++ rest ++ log s /\
    (rows = [] \/ exists et0, emit_after Sg vr ee (gt s') et0 (sto s') = (rows, et')) /\
    Forall (fun e => e = EEmit Sg (gt s') (sto s')) rows /\
    Forall (fun e => is_emit e = false) rest.
Proof.
  intros H.
  destruct (iter_struct _ _ _ _ _ _ _ _ _ _ H)
    as (rows & applies & polls & drops & Hlog & Hrows & Happ & Hpolls & Hdrops).
  exists rows, (applies ++ polls ++ drops).
  split; [rewrite Hlog; repeat rewrite <- app_assoc; reflexivity|].
  split; [exact Hrows|].
  split; [apply (iter_struct_rows vr ee s' et' rows Hrows)|].
  repeat (apply Forall_app; split).
  - revert Happ; apply Forall_impl; intros e He. apply is_apply_not_emit, He.
  - revert Hpolls; apply Forall_impl; intros e He.
    apply is_poll_not_emit. apply (poll_ev_ok_is_poll _ _ _ _ _ _ He).
  - revert Hdrops; apply Forall_impl; intros e He. apply is_drop_not_emit, He.
Qed.

(* a row is the state after the batch, stamped with the time of the batch *)
Theorem iter_row_content vr ee endt force et s s' f' et' ok :
  iterv vr ee endt force et s = (s', f', et', ok) ->
  exists new, log s' = new ++ log s /\
    Forall (fun e => match e with EEmit _ now x => now = gt s' /\ x = sto s' | _ => True end) new.
Proof.
  intros H.
  destruct (iter_struct2 _ _ _ _ _ _ _ _ _ _ H) as (rows & rest & Hlog & _ & Hrows & Hrest).
  exists (rows ++ rest). split; [rewrite Hlog, <- app_assoc; reflexivity|].
  apply Forall_app; split.
  - revert Hrows; apply Forall_impl; intros e He. subst e. split; reflexivity.
  - revert Hrest; apply Forall_impl; intros e He. destruct e; try exact I. discriminate.
Qed.

(* emit_step 1: exactly one row per batch, none otherwise *)
Theorem iter_rows_every_batch vr endt force et s s' f' et' ok :
  iterv vr None endt force et s = (s', f', et', ok) ->
  exists new, log s' = new ++ log s /\
    (emit_times new = [] \/ exists rest, new = EEmit Sg (gt s') (sto s') :: rest /\ emit_times rest = []).
Proof.
  intros H.
  destruct (iter_struct2 _ _ _ _ _ _ _ _ _ _ H) as (rows & rest & Hlog & Hrows & _ & Hrest).
  exists (rows ++ rest). split; [rewrite Hlog, <- app_assoc; reflexivity|].
  destruct Hrows as [Hr|[et0 Hr]].
  - left. subst rows. cbn [app]. apply emit_times_none, Hrest.
  - right. apply emit_after_none in Hr. destruct Hr as [Hr _]. subst rows.
    exists rest. split; [reflexivity|]. apply emit_times_none, Hrest.
Qed.

(* the rows of one pass of the repaired code *)
Lemma iter_rows_fixed ee endt force et s s' f' et' ok :
  iterv vfixed ee endt force et s = (s', f', et', ok) ->
  exists new, log s' = new ++ log s /\
    (emit_times new = [] \/ emit_times new = [gt s']).
Proof.
  intros H.
  destruct (iter_struct2 _ _ _ _ _ _ _ _ _ _ H) as (rows & rest & Hlog & Hrows & _ & Hrest).
  exists (rows ++ rest). split; [rewrite Hlog, <- app_assoc; reflexivity|].
  rewrite emit_times_app, (emit_times_none rest Hrest), app_nil_r.
  destruct Hrows as [Hr|[et0 Hr]].
  - left. subst rows. reflexivity.
  - apply emit_after_fixed in Hr. destruct Hr as [Hr|Hr]; subst rows; [left|right]; reflexivity.
Qed.

(* any emit_step, repaired code: at most one row per pass *)
Theorem iter_rows_at_most_one ee endt force et s s' f' et' ok :
  iterv vfixed ee endt force et s = (s', f', et', ok) ->
  exists new, log s' = new ++ log s /\ (length (emit_times new) <= 1)%nat.
Proof.
  intros H.
  destruct (iter_rows_fixed _ _ _ _ _ _ _ _ _ H) as (new & Hlog & [Hn|Hn]).
  - exists new. split; [exact Hlog|]. rewrite Hn. cbn. lia.
  - exists new. split; [exact Hlog|]. rewrite Hn. cbn. lia.
Qed.

(* time keys strictly increase (newest first: strictly decreasing list) *)
Theorem iter_emits_increasing ee endt force et s s' f' et' :
  gt s < endt -> iterv vfixed ee endt force et s = (s', f', et', true) ->
  emits_le (gt s) (log s) -> StronglySorted Z.gt (emit_times (log s)) ->
  emits_le (gt s') (log s') /\ StronglySorted Z.gt (emit_times (log s')).
Proof.
  intros Hlt H Hle Hss.
  assert (Hp := iter_progress _ _ _ _ _ _ _ _ Hlt H).
  destruct (iter_rows_fixed _ _ _ _ _ _ _ _ _ H) as (new & Hlog & Hn).
  unfold emits_le in *. rewrite Hlog, emit_times_app.
  assert (Hle' : Forall (fun t => t < gt s') (emit_times (log s))).
  { revert Hle; apply Forall_impl; intros t Ht. lia. }
  destruct Hn as [Hn|Hn]; rewrite Hn; cbn [app].
  - split; [|exact Hss]. revert Hle'; apply Forall_impl; intros t Ht. lia.
  - split.
    + constructor; [lia|]. revert Hle'; apply Forall_impl; intros t Ht. lia.
    + constructor; [exact Hss|]. revert Hle'; apply Forall_impl; intros t Ht. lia.
Qed.

Lemma run_emits_increasing ee fuel endt force et s s' :
  gt s < endt -> runv vfixed ee fuel endt force et s = (Some s', true) ->
  emits_le (gt s) (log s) -> StronglySorted Z.gt (emit_times (log s)) ->
  emits_le (gt s') (log s') /\ StronglySorted Z.gt (emit_times (log s')).
Proof.
  intros Hlt Hrun Hle Hss.
  destruct (run_invariant vfixed ee endt
              (fun f x => (gt x < endt \/ (gt x = endt /\ f = false)) /\
                          emits_le (gt x) (log x) /\ StronglySorted Z.gt (emit_times (log x))) true)
    with (fuel := fuel) (force := force) (et := et) (s := s) (s' := s') (ok := true) as [H1 H2].
  - intros force0 et0 x x' f' et' ok0 [Hpos [Hle0 Hss0]] Hc Hit Hok.
    rewrite (Hok eq_refl) in Hit.
    destruct Hpos as [Hpos|[Hpos1 Hpos2]].
    + destruct (iter_emits_increasing _ _ _ _ _ _ _ _ Hpos Hit Hle0 Hss0) as [Hle1 Hss1].
      split; [|split; assumption].
      assert (Hm := iter_mono ee endt force0 et0 x x' f' et' ltac:(lia) Hit).
      assert (Hff := iter_force_flag _ _ _ _ _ _ _ _ _ _ Hit).
      destruct (Z.eq_dec (gt x') endt) as [E|E].
      * right. split; [exact E|]. rewrite Hff, E, Z.eqb_refl, andb_false_r. reflexivity.
      * left. lia.
    + exfalso. subst force0. rewrite Hpos1, Z.ltb_irrefl in Hc. discriminate.
  - split; [left; exact Hlt|split; assumption].
  - exact Hrun.
  - intros _; reflexivity.
  - destruct H1 as [_ H1]. exact H1.
Qed.

Theorem run_for_emits_increasing ee fuel i force s s' :
  0 < i -> run_forv vfixed ee fuel i force s = (Some s', true) ->
  emits_le (gt s) (log s) -> StronglySorted Z.gt (emit_times (log s)) ->
  emits_le (gt s') (log s') /\ StronglySorted Z.gt (emit_times (log s')).
Proof.
  intros Hi Hrun Hle Hss. unfold run_for in Hrun.
  eapply (run_emits_increasing ee fuel (gt s + i) force); [|exact Hrun|exact Hle|exact Hss]. lia.
Qed.

(* ------------------------------------------------------------------ *)
(* emitting has no effect on the simulation                            *)

Definition pl_sim (a b : pl) : Prop :=
  pf a = pf b /\ pw a = pw b /\ pfull a = pfull b /\ pquiet a = pquiet b /\ pok a = pok b.

Lemma poll_one_sim vr now endt force sg (a b : pl) p :
  pl_sim a b ->
  pl_sim (pollv vr now endt force sg a p) (pollv vr now endt force sg b p) /\
  exists ev, plog (pollv vr now endt force sg a p) = ev ++ plog a /\
             plog (pollv vr now endt force sg b p) = ev ++ plog b.
Proof.
  intros (H1 & H2 & H3 & H4 & H5).
  unfold poll_one. rewrite <- H1, <- H2, <- H3, <- H4, <- H5.
  set (e := match flook U (pf a) p with Some e => e | None => Build_fe U now None false end).
  set (f0 := match flook U (pf a) p with Some _ => pf a | None => fset U (pf a) p e end).
  destruct (ft e <=? now).
  - destruct (poll (pw a) p sg) as [req w1].
    set (fut := if force then Z.min (ft e + req) endt else ft e + req).
    destruct (fut <=? endt).
    + set (ts := if v_fix_ts vr && force && (endt <? ft e + req) then endt - ft e else req).
      destruct (cond w1 p ts sg) as [c w2].
      destruct c.
      * destruct (next w2 p ts sg) as [u w3].
        split; [unfold pl_sim; cbn; repeat split; reflexivity|].
        exists [EInvoke Sg p (ft e) fut ts req now sg]. split; reflexivity.
      * split; [unfold pl_sim; cbn; repeat split; reflexivity|].
        exists [EQuiet Sg p now]. split; reflexivity.
    + split; [unfold pl_sim; cbn; repeat split; reflexivity|].
      exists []. split; reflexivity.
  - split; [unfold pl_sim; cbn; repeat split; reflexivity|].
    exists []. split; reflexivity.
Qed.

Lemma poll_fold_sim vr now endt force sg ps : forall (a b : pl),
  pl_sim a b ->
  pl_sim (fold_left (pollv vr now endt force sg) ps a) (fold_left (pollv vr now endt force sg) ps b) /\
  exists ev, plog (fold_left (pollv vr now endt force sg) ps a) = ev ++ plog a /\
             plog (fold_left (pollv vr now endt force sg) ps b) = ev ++ plog b.
Proof.
  induction ps as [|p ps IH]; intros a b Hsim; cbn [fold_left].
  - split; [exact Hsim|]. exists []. split; reflexivity.
  - destruct (poll_one_sim vr now endt force sg a b p Hsim) as [Hsim1 [ev1 [Ha1 Hb1]]].
    destruct (IH _ _ Hsim1) as [Hsim2 [ev2 [Ha2 Hb2]]].
    split; [exact Hsim2|]. exists (ev2 ++ ev1).
    rewrite Ha2, Hb2, Ha1, Hb1, <- !app_assoc. split; reflexivity.
Qed.

Lemma polled_sim vr endt force (sk s1 : st) :
  same_but_log sk s1 ->
  pl_sim (polled vr endt force sk) (polled vr endt force s1) /\
  exists ev, plog (polled vr endt force sk) = ev ++ log sk /\
             plog (polled vr endt force s1) = ev ++ log s1.
Proof.
  intros (Hg & Hp & Hf & Hs & Hw). unfold polled. rewrite Hg, Hp, Hs.
  destruct (poll_fold_sim vr (gt s1) endt force (sto s1) (procs s1) (acc0 sk) (acc0 s1))
    as [Hsim [ev [Ha Hb]]].
  { unfold pl_sim, acc0. cbn. rewrite Hp, Hf, Hw. repeat split; reflexivity. }
  split; [exact Hsim|].
  exists (ev ++ rev (drop_events Sg U (gt s1) (procs s1) (frt s1))).
  rewrite Ha, Hb. unfold acc0. cbn [Sched.plog]. rewrite Hg, Hp, Hf, <- !app_assoc.
  split; reflexivity.
Qed.

Lemma sublist_app_same {A} (pre l m : list A) : sublist l m -> sublist (pre ++ l) (pre ++ m).
Proof. intros H. induction pre as [|x pre IH]; cbn [app]; [exact H|apply sub_take, IH]. Qed.

Lemma sim_logs (pre lk l1 : list (event Sg)) :
  strip_emits lk = strip_emits l1 -> sublist (only_emits lk) (only_emits l1) ->
  strip_emits (pre ++ lk) = strip_emits (pre ++ l1) /\
  sublist (only_emits (pre ++ lk)) (only_emits (pre ++ l1)).
Proof.
  intros Hs Ho. rewrite !strip_emits_app, !only_emits_app, Hs.
  split; [reflexivity|apply sublist_app_same, Ho].
Qed.

Lemma strip_emits_row now x (l : list (event Sg)) : strip_emits (EEmit Sg now x :: l) = strip_emits l.
Proof. reflexivity. Qed.
Lemma only_emits_row now x (l : list (event Sg)) :
  only_emits (EEmit Sg now x :: l) = EEmit Sg now x :: only_emits l.
Proof. reflexivity. Qed.

(* emitting has no effect on the simulation, and with a larger emit_step the rows are a
   sub-list of the emit_step-1 rows *)
Theorem iter_emit_step_sublist k endt force etk et1 sk s1 sk' fk' etk' okk s1' f1' et1' ok1 :
  same_but_log sk s1 -> strip_emits (log sk) = strip_emits (log s1) ->
  sublist (only_emits (log sk)) (only_emits (log s1)) ->
  iterv vfixed (Some k) endt force etk sk = (sk', fk', etk', okk) ->
  iterv vfixed None endt force et1 s1 = (s1', f1', et1', ok1) ->
  same_but_log sk' s1' /\ strip_emits (log sk') = strip_emits (log s1') /\
  sublist (only_emits (log sk')) (only_emits (log s1')) /\ fk' = f1' /\ okk = ok1.
Proof.
  intros Hsame Hstrip Hsub Hk H1.
  destruct (polled_sim vfixed endt force sk s1 Hsame) as [Hsim [evp [Hlk Hl1]]].
  destruct Hsame as (Hg & Hp & Hf & Hs & Hw).
  destruct Hsim as (S1 & S2 & S3 & S4 & S5).
  destruct (iter_cases _ _ _ _ _ _ _ _ _ _ Hk) as [Hokk [Hfk Ck]].
  destruct (iter_cases _ _ _ _ _ _ _ _ _ _ H1) as [Hok1 [Hf1 C1]].
  assert (Hoks : okk = ok1) by (rewrite Hokk, Hok1; exact S5).
  assert (Hmain : same_but_log sk' s1' /\ strip_emits (log sk') = strip_emits (log s1') /\
                  sublist (only_emits (log sk')) (only_emits (log s1'))).
  { destruct Ck as [Ck|[Ck|[Ck|Ck]]].
    - destruct Ck as (Hfullk & _ & _ & Hsk).
      destruct C1 as [C1|[C1|[C1|C1]]].
      + destruct C1 as (_ & _ & _ & Hs1). subst sk' s1'.
        unfold same_but_log. cbn [Sched.gt Sched.procs Sched.frt Sched.sto Sched.wld Sched.log].
        rewrite Hg, Hp, Hs, S1, S2, S4, Hlk, Hl1.
        split; [repeat split; reflexivity|]. apply sim_logs; assumption.
      + destruct C1 as (_ & Hq & _). cbn in Hq. discriminate.
      + destruct C1 as (d & f2 & us & ev & sto' & procs' & rows & Hfull1 & _). congruence.
      + destruct C1 as (d & Hfull1 & _). congruence.
    - destruct Ck as (_ & Hq & _). cbn in Hq. discriminate.
    - destruct Ck as (dk & f2k & usk & evk & stok' & procsk' & rowsk
                      & Hfullk & Hdk & Hcolk & Hcomk & Hemk & Hsk).
      destruct C1 as [C1|[C1|[C1|C1]]].
      + destruct C1 as (Hfull1 & _). congruence.
      + destruct C1 as (_ & Hq & _). cbn in Hq. discriminate.
      + destruct C1 as (d1 & f21 & us1 & ev1 & sto1' & procs1' & rows1
                        & Hfull1 & Hd1 & Hcol1 & Hcom1 & Hem1 & Hs1).
        assert (dk = d1) by congruence. subst dk.
        rewrite Hg, S4, S1, Hcol1 in Hcolk. inversion Hcolk; subst f2k usk evk.
        rewrite Hs, Hp, Hcom1 in Hcomk. inversion Hcomk; subst stok' procsk'.
        apply emit_after_none in Hem1. destruct Hem1 as [Hem1 _].
        apply emit_after_fixed in Hemk. rewrite Hg in Hemk.
        subst sk' s1' rows1.
        unfold same_but_log. cbn [Sched.gt Sched.procs Sched.frt Sched.sto Sched.wld Sched.log].
        rewrite Hg, S2, Hlk, Hl1.
        split; [repeat split; reflexivity|].
        destruct (sim_logs (rev ev1 ++ evp) (log sk) (log s1) Hstrip Hsub) as [G1 G2].
        rewrite <- !app_assoc in G1, G2.
        destruct Hemk as [Hemk|Hemk]; subst rowsk; cbn [app].
        * rewrite strip_emits_row, only_emits_row. split; [exact G1|apply sub_skip, G2].
        * rewrite !strip_emits_row, !only_emits_row. split; [exact G1|apply sub_take, G2].
      + destruct C1 as (d1 & Hfull1 & Hd1 & _).
        assert (dk = d1) by congruence. subst dk. lia.
    - destruct Ck as (dk & Hfullk & Hdk & _ & Hsk).
      destruct C1 as [C1|[C1|[C1|C1]]].
      + destruct C1 as (Hfull1 & _). congruence.
      + destruct C1 as (_ & Hq & _). cbn in Hq. discriminate.
      + destruct C1 as (d1 & f21 & us1 & ev1 & sto1' & procs1' & rows1 & Hfull1 & Hd1 & _).
        assert (dk = d1) by congruence. subst dk. lia.
      + destruct C1 as (d1 & _ & _ & _ & Hs1). subst sk' s1'.
        unfold same_but_log. cbn [Sched.gt Sched.procs Sched.frt Sched.sto Sched.wld Sched.log].
        rewrite Hp, Hs, S1, S2, Hlk, Hl1.
        split; [repeat split; reflexivity|]. apply sim_logs; assumption. }
  destruct Hmain as (M1 & M2 & M3).
  split; [exact M1|]. split; [exact M2|]. split; [exact M3|]. split; [|exact Hoks].
  destruct M1 as (Hg' & _). rewrite Hfk, Hf1, Hg'. reflexivity.
Qed.

Theorem run_emit_step_sublist k fuel endt force : forall etk et1 sk s1 sk' okk,
  same_but_log sk s1 -> strip_emits (log sk) = strip_emits (log s1) ->
  sublist (only_emits (log sk)) (only_emits (log s1)) ->
  runv vfixed (Some k) fuel endt force etk sk = (Some sk', okk) ->
  exists s1', runv vfixed None fuel endt force et1 s1 = (Some s1', okk) /\
    same_but_log sk' s1' /\ strip_emits (log sk') = strip_emits (log s1') /\
    sublist (only_emits (log sk')) (only_emits (log s1')).
Proof.
  revert force.
  induction fuel as [|n IH]; intros force etk et1 sk s1 sk' okk Hsame Hstrip Hsub Hrun.
  - assert (Hg : gt sk = gt s1) by apply Hsame.
    destruct ((gt sk <? endt) || force) eqn:Ec.
    + rewrite run_zero in Hrun by exact Ec. discriminate.
    + rewrite run_stop in Hrun by exact Ec. inversion Hrun; subst.
      exists s1. rewrite run_stop by (rewrite <- Hg; exact Ec).
      split; [reflexivity|]. split; [exact Hsame|]. split; assumption.
  - assert (Hg : gt sk = gt s1) by apply Hsame.
    destruct ((gt sk <? endt) || force) eqn:Ec.
    + rewrite run_step in Hrun by exact Ec.
      rewrite run_step by (rewrite <- Hg; exact Ec).
      destruct (iterv vfixed (Some k) endt force etk sk) as [[[sk1 fk1] etk1] okk1] eqn:Eitk.
      destruct (iterv vfixed None endt force et1 s1) as [[[s11 f11] et11] ok11] eqn:Eit1.
      destruct (iter_emit_step_sublist _ _ _ _ _ _ _ _ _ _ _ _ _ _ _ Hsame Hstrip Hsub Eitk Eit1)
        as (Hsame1 & Hstrip1 & Hsub1 & Hff & Hoo).
      subst f11 ok11.
      destruct (runv vfixed (Some k) n endt fk1 etk1 sk1) as [r ok2] eqn:Erun.
      inversion Hrun; subst.
      destruct (IH fk1 etk1 et11 sk1 s11 sk' ok2 Hsame1 Hstrip1 Hsub1 Erun)
        as (s1' & Hrun1 & G1 & G2 & G3).
      exists s1'. rewrite Hrun1. split; [reflexivity|]. split; [exact G1|]. split; assumption.
    + rewrite run_stop in Hrun by exact Ec. inversion Hrun; subst.
      exists s1. rewrite run_stop by (rewrite <- Hg; exact Ec).
      split; [reflexivity|]. split; [exact Hsame|]. split; assumption.
Qed.

End Clock.

Print Assumptions iter_upper.
Print Assumptions iter_mono.
Print Assumptions iter_progress.
Print Assumptions iter_force_flag.
Print Assumptions run_lands.
Print Assumptions run_mono.
Print Assumptions run_fuel_enough.
Print Assumptions run_for_lands.
Print Assumptions run_calls_land.
Print Assumptions iter_log_shape.
Print Assumptions iter_invokes.
Print Assumptions run_invoke_ts.
Print Assumptions run_calls_invoke_ts.
Print Assumptions iter_row_content.
Print Assumptions iter_rows_every_batch.
Print Assumptions iter_rows_at_most_one.
Print Assumptions iter_emits_increasing.
Print Assumptions run_for_emits_increasing.
Print Assumptions iter_emit_step_sublist.
Print Assumptions run_emit_step_sublist.
