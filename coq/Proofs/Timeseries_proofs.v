(* Proofs about Model/Timeseries.v (C18). *)
From Coq Require Import List NArith ZArith Bool Lia.
From Viv Require Import Base.Assoc Base.Tree Model.Paths Model.Timeseries Proofs.Paths_proofs.
Import ListNotations.

(* leaf kinds: a plain value, or a quantity with a given unit *)
Definition kind_eqb (a b : lv) : bool :=
  match a, b with
  | LQ _ u, LQ _ u' => N.eqb u u'
  | LQ _ _, _ | _, LQ _ _ => false
  | _, _ => true
  end.

(* identical key structure (same keys in the same order) and leaf kinds *)
Fixpoint same_shape (a b : row) : bool :=
  match a, b with
  | Lf x, Lf y => kind_eqb x y
  | Nd c, Nd d =>
    (fix go (l m : list (key * row)) : bool :=
       match l, m with
       | [], [] => true
       | (k, v) :: r, (k', v') :: r' => N.eqb k k' && same_shape v v' && go r r'
       | _, _ => false
       end) c d
  | _, _ => false
  end.

(* all keys and units are small, so that unit_key is injective and disjoint from plain keys *)
Fixpoint small (a : row) : bool :=
  match a with
  | Lf (LQ _ u) => N.ltb u 50
  | Lf _ => true
  | Nd c => (fix go (l : list (key * row)) : bool :=
               match l with [] => true | (k, v) :: r => N.ltb k 50 && small v && go r end) c
  end.

(* a rectangular history: every row has the shape of the first one *)
Definition rect (data : list (Z * row)) (r0 : row) : Prop :=
  wf r0 /\ is_nd r0 = true /\ small r0 = true /\
  exists rest t0, data = (t0, r0) :: rest /\ Forall (fun tr => same_shape r0 (snd tr) = true) rest.

(* what the timeseries stores for a leaf: magnitudes for quantities *)
Definition cell (x : lv) : lv := match x with LQ m _ => LZ m | _ => x end.

Definition leaf_at (r : row) (p : list key) : lv :=
  match get_in r p with Ok (Some (Lf x)) => cell x | _ => LNone end.

Definition column (p : list key) (data : list (Z * row)) : list lv :=
  map (fun tr => leaf_at (snd tr) p) data.

(* the path under which the column of leaf path p is stored: last key replaced by the
   (key, unit) key when the leaf is a quantity *)
Definition epath (r0 : row) (p : list key) : list key :=
  match get_in r0 p with
  | Ok (Some (Lf (LQ _ u))) => removelast p ++ [unit_key (last p 0%N) u]
  | _ => p
  end.

Definition pairwise_diverge (q : list (list key)) : Prop := ForallOrdPairs diverge q.

