(* Proofs about Model/Timeseries.v (C18). *)
From Coq Require Import List NArith ZArith Bool Lia.
From Viv Require Import Base.Assoc Base.Tree Model.Paths Model.Timeseries Proofs.Paths_proofs.
Import ListNotations.

(* leaf kinds: a plain value, or a quantity with a given unit *)
Definition kind_eqb (a b : lv) : bool :=
  match a, b with
  | LQ _ u, LQ _ u' => N.eqb u u'
  | LQ _ _, _ | _, LQ _ _ => false
  | _, _ => true
  end.

(* identical key structure (same keys in the same order) and leaf kinds *)
Fixpoint same_shape (a b : row) : bool :=
  match a, b with
  | Lf x, Lf y => kind_eqb x y
  | Nd c, Nd d =>
    (fix go (l m : list (key * row)) : bool :=
       match l, m with
       | [], [] => true
       | (k, v) :: r, (k', v') :: r' => N.eqb k k' && same_shape v v' && go r r'
       | _, _ => false
       end) c d
  | _, _ => false
  end.

(* all keys and units are small, so that unit_key is injective and disjoint from plain keys *)
Fixpoint small (a : row) : bool :=
  match a with
  | Lf (LQ _ u) => N.ltb u 50
  | Lf _ => true
  | Nd c => (fix go (l : list (key * row)) : bool :=
               match l with [] => true | (k, v) :: r => N.ltb k 50 && small v && go r end) c
  end.

(* a rectangular history: every row has the shape of the first one *)
Definition rect (data : list (Z * row)) (r0 : row) : Prop :=
  wf r0 /\ is_nd r0 = true /\ small r0 = true /\
  exists rest t0, data = (t0, r0) :: rest /\ Forall (fun tr => same_shape r0 (snd tr) = true) rest.

(* what the timeseries stores for a leaf: magnitudes for quantities *)
Definition cell (x : lv) : lv := match x with LQ m _ => LZ m | _ => x end.

Definition leaf_at (r : row) (p : list key) : lv :=
  match get_in r p with Ok (Some (Lf x)) => cell x | _ => LNone end.

Definition column (p : list key) (data : list (Z * row)) : list lv :=
  map (fun tr => leaf_at (snd tr) p) data.

(* the path under which the column of leaf path p is stored: last key replaced by the
   (key, unit) key when the leaf is a quantity *)
Definition epath (r0 : row) (p : list key) : list key :=
  match get_in r0 p with
  | Ok (Some (Lf (LQ _ u))) => removelast p ++ [unit_key (last p 0%N) u]
  | _ => p
  end.

Definition pairwise_diverge (q : list (list key)) : Prop := ForallOrdPairs diverge q.


(* ================= Part 1: unfolding lemmas, shapes ================= *)

Lemma same_shape_cons k v r k' v' r' :
  same_shape (Nd ((k, v) :: r)) (Nd ((k', v') :: r')) =
  N.eqb k k' && same_shape v v' && same_shape (Nd r) (Nd r').
Proof. reflexivity. Qed.

Lemma small_cons k v r : small (Nd ((k, v) :: r)) = N.ltb k 50 && small v && small (Nd r).
Proof. reflexivity. Qed.

Lemma kind_eqb_refl x : kind_eqb x x = true.
Proof. destruct x; cbn; auto. apply N.eqb_refl. Qed.

Lemma same_shape_refl (r : row) : same_shape r r = true.
Proof.
  induction r as [x|c IHc] using tree_ind'.
  - apply kind_eqb_refl.
  - induction c as [|[k v] c IH]; [reflexivity|].
    inversion IHc as [|kv l Hv Hr]; subst. cbn [snd] in Hv.
    rewrite same_shape_cons, N.eqb_refl, Hv, IH by exact Hr. reflexivity.
Qed.

Lemma same_shape_keys (c0 : list (key * row)) : forall dc,
  same_shape (Nd c0) (Nd dc) = true -> akeys dc = akeys c0.
Proof.
  induction c0 as [|[k v] c0 IH]; intros dc Hsh.
  - destruct dc; [reflexivity|discriminate].
  - destruct dc as [|[k' v'] dc]; [discriminate|].
    rewrite same_shape_cons in Hsh.
    apply andb_true_iff in Hsh as [Hsh Hr]. apply andb_true_iff in Hsh as [Hk Hv].
    apply N.eqb_eq in Hk. subst k'. cbn. f_equal. apply IH. exact Hr.
Qed.

Lemma small_In (c : list (key * row)) k v :
  small (Nd c) = true -> In (k, v) c -> (k < 50)%N /\ small v = true.
Proof.
  induction c as [|[k0 v0] c IH]; intros Hs Hin; [contradiction|].
  rewrite small_cons in Hs.
  apply andb_true_iff in Hs as [Hs Hr]. apply andb_true_iff in Hs as [Hk Hv].
  destruct Hin as [Heq|Hin].
  - injection Heq as <- <-. split; [now apply N.ltb_lt|exact Hv].
  - apply IH; assumption.
Qed.

(* the key under which the entry (k, v) of a row is stored in the timeseries *)
Definition ekey (k : key) (v : row) : key :=
  match v with Lf (LQ _ u) => unit_key k u | _ => k end.

Definition ekeys (c : list (key * row)) : list key := map (fun kv => ekey (fst kv) (snd kv)) c.

Lemma ekey_kind k x0 x : kind_eqb x0 x = true -> ekey k (Lf x) = ekey k (Lf x0).
Proof.
  destruct x0, x; cbn; intros H; try discriminate; try reflexivity.
  apply N.eqb_eq in H. now subst.
Qed.

Lemma ekey_inj k v k' v' : (k < 50)%N -> (k' < 50)%N -> small v = true -> small v' = true ->
  ekey k v = ekey k' v' -> k = k'.
Proof.
  intros Hk Hk' Hs Hs' He.
  assert (Hform : forall j w, small w = true ->
            ekey j w = j \/ exists u, (u < 50)%N /\ ekey j w = (1000 + 50 * j + u)%N).
  { intros j w Hw. destruct w as [x|c]; [|now left].
    destruct x; try (now left). right. exists u. split; [|reflexivity].
    cbn in Hw. now apply N.ltb_lt. }
  destruct (Hform k v Hs) as [H1|(u & Hu & H1)];
    destruct (Hform k' v' Hs') as [H2|(u' & Hu' & H2)]; rewrite H1, H2 in He; lia.
Qed.

Lemma ekeys_nodup (c : list (key * row)) :
  small (Nd c) = true -> NoDup (akeys c) -> NoDup (ekeys c).
Proof.
  induction c as [|[k v] c IH]; intros Hs Hnd; cbn.
  - constructor.
  - pose proof Hs as Hs0. rewrite small_cons in Hs.
    apply andb_true_iff in Hs as [Hs Hr]. apply andb_true_iff in Hs as [Hk Hv].
    apply N.ltb_lt in Hk.
    inversion Hnd as [|k1 l1 Hnin Hnd']; subst.
    constructor; [|apply IH; assumption].
    intros Hin. apply in_map_iff in Hin as ([k' v'] & He & Hin'). cbn [fst snd] in He.
    destruct (small_In c k' v' Hr Hin') as [Hk' Hv'].
    assert (Hkk : k' = k) by exact (ekey_inj k' v' k v Hk' Hk Hv' Hv He). subst k'.
    apply Hnin. change k with (fst (k, v')). now apply in_map.
Qed.

(* ================= Part 2: alist helpers ================= *)

Lemma alookup_mid {V} k (v : V) d m : ~ In k (akeys d) -> alookup k (d ++ (k, v) :: m) = Some v.
Proof.
  intros H. rewrite alookup_app_none by (now apply alookup_None_notin).
  cbn. now rewrite N.eqb_refl.
Qed.

Lemma aset_mid {V} k (v v' : V) d m : ~ In k (akeys d) ->
  aset k v' (d ++ (k, v) :: m) = d ++ (k, v') :: m.
Proof.
  induction d as [|[k0 v0] d IH]; cbn; intros H.
  - now rewrite N.eqb_refl.
  - destruct (N.eqb k0 k) eqn:E.
    + apply N.eqb_eq in E. subst. exfalso. apply H. now left.
    + f_equal. apply IH. intros Hin. apply H. now right.
Qed.

Lemma nodup_mid_notin (d : list key) k m : NoDup (d ++ k :: m) -> ~ In k d.
Proof.
  intros Hnd Hin. apply NoDup_remove_2 in Hnd. apply Hnd. apply in_or_app. now left.
Qed.

(* ================= Part 3: vied as a named loop, and its closed form ================= *)

Fixpoint vgo (dc : list (key * row)) (tc : list (key * ets)) : res ets :=
  match dc with
  | [] => Ok (Nd tc)
  | (k, v) :: r =>
    match v with
    | Nd _ =>
      let cur := match alookup k tc with Some s => s | None => Nd [] end in
      match vied v cur with
      | Ok s' => vgo r (aset k s' tc)
      | Err e => Err e
      end
    | Lf x =>
      let k' := match x with LQ _ u => unit_key k u | _ => k end in
      let y := match x with LQ m _ => LZ m | _ => x end in
      match alookup k' tc with
      | None => vgo r (aset k' (Lf [y]) tc)
      | Some (Lf col) => vgo r (aset k' (Lf (col ++ [y])) tc)
      | Some (Nd _) => Err EOther
      end
    end
  end.

Lemma vied_Nd dc tc : vied (Nd dc) (Nd tc) = vgo dc tc.
Proof. reflexivity. Qed.

Lemma vgo_leaf k x r tc :
  vgo ((k, Lf x) :: r) tc =
  match alookup (ekey k (Lf x)) tc with
  | None => vgo r (aset (ekey k (Lf x)) (Lf [cell x]) tc)
  | Some (Lf col) => vgo r (aset (ekey k (Lf x)) (Lf (col ++ [cell x])) tc)
  | Some (Nd _) => Err EOther
  end.
Proof. destruct x; reflexivity. Qed.

Lemma vgo_node k c r tc :
  vgo ((k, Nd c) :: r) tc =
  match vied (Nd c) (adefault k tc) with
  | Ok s' => vgo r (aset k s' tc)
  | Err e => Err e
  end.
Proof. reflexivity. Qed.

(* closed form of the embedded timeseries of a rectangular history: the shape of r0 with
   quantity keys renamed, and under every leaf the column of that leaf's path *)
Fixpoint espec (pre : list key) (r0 : row) (data : list (Z * row)) : ets :=
  match r0 with
  | Lf _ => Nd []
  | Nd c =>
    Nd (map (fun kv => (ekey (fst kv) (snd kv),
                        match snd kv with
                        | Lf _ => Lf (column (pre ++ [fst kv]) data)
                        | Nd _ => espec (pre ++ [fst kv]) (snd kv) data
                        end)) c)
  end.

Definition eent (pre : list key) (data : list (Z * row)) (kv : key * row) : key * ets :=
  (ekey (fst kv) (snd kv),
   match snd kv with
   | Lf _ => Lf (column (pre ++ [fst kv]) data)
   | Nd _ => espec (pre ++ [fst kv]) (snd kv) data
   end).

Lemma espec_Nd pre c data : espec pre (Nd c) data = Nd (map (eent pre data) c).
Proof. reflexivity. Qed.

Lemma eent_leaf pre data k x : eent pre data (k, Lf x) = (ekey k (Lf x), Lf (column (pre ++ [k]) data)).
Proof. reflexivity. Qed.

Lemma eent_node pre data k c : eent pre data (k, Nd c) = (k, espec (pre ++ [k]) (Nd c) data).
Proof. reflexivity. Qed.

Lemma akeys_eent pre data c : akeys (map (eent pre data) c) = ekeys c.
Proof. unfold akeys, ekeys. rewrite map_map. reflexivity. Qed.

Lemma column_snoc p data t r : column p (data ++ [(t, r)]) = column p data ++ [leaf_at r p].
Proof. unfold column. rewrite map_app. reflexivity. Qed.

Lemma leaf_at_leaf (r : row) p x : get_in r p = Ok (Some (Lf x)) -> leaf_at r p = cell x.
Proof. intros H. unfold leaf_at. now rewrite H. Qed.

(* one vied step on a row of the right shape: both from a populated accumulator and from
   the initial empty one *)
Definition vied_ok (r0 : row) : Prop :=
  wf r0 -> small r0 = true -> is_nd r0 = true ->
  forall pre sub (r : row) t data, same_shape r0 sub = true -> get_in r pre = Ok (Some sub) ->
    vied sub (espec pre r0 data) = Ok (espec pre r0 (data ++ [(t, r)])) /\
    vied sub (Nd []) = Ok (espec pre r0 [(t, r)]).

Lemma akeys_snoc {V} (d : alist V) k v : akeys (d ++ [(k, v)]) = akeys d ++ [k].
Proof. unfold akeys. now rewrite map_app. Qed.

Lemma vgo_B pre (r : row) t data : forall l0 l done,
  Forall (fun kv => vied_ok (snd kv)) l0 ->
  Forall (fun kv => wf (snd kv)) l0 ->
  small (Nd l0) = true ->
  same_shape (Nd l0) (Nd l) = true ->
  Forall (fun kv => get_in r (pre ++ [fst kv]) = Ok (Some (snd kv))) l ->
  NoDup (akeys done ++ ekeys l0) ->
  vgo l (done ++ map (eent pre data) l0) =
  Ok (Nd (done ++ map (eent pre (data ++ [(t, r)])) l0)).
Proof.
  induction l0 as [|[k v0] l0 IH]; intros l done HP Hwf Hs Hsh Hg Hnd.
  - destruct l; [|discriminate]. reflexivity.
  - destruct l as [|[k' v] l]; [discriminate|].
    rewrite same_shape_cons in Hsh.
    apply andb_true_iff in Hsh as [Hsh Hshl]. apply andb_true_iff in Hsh as [Hk Hshv].
    apply N.eqb_eq in Hk. subst k'.
    pose proof Hs as Hs0. rewrite small_cons in Hs.
    apply andb_true_iff in Hs as [Hs Hsl]. apply andb_true_iff in Hs as [Hk50 Hsv].
    inversion HP as [|kv1 l1 HPv HPl]; subst. inversion Hwf as [|kv2 l2 Hwv Hwl]; subst.
    inversion Hg as [|kv3 l3 Hgv Hgl]; subst. cbn [fst snd] in HPv, Hwv, Hgv.
    cbn [ekeys map fst snd] in Hnd. fold (ekeys l0) in Hnd.
    pose proof (nodup_mid_notin _ _ _ Hnd) as Hnin.
    cbn [map].
    destruct v0 as [x0|c0].
    + destruct v as [x|c]; [|discriminate]. cbn in Hshv.
      rewrite vgo_leaf, !eent_leaf, (ekey_kind k x0 x Hshv).
      rewrite alookup_mid by exact Hnin. rewrite aset_mid by exact Hnin.
      rewrite column_snoc, (leaf_at_leaf _ _ _ Hgv).
      specialize (IH l (done ++ [(ekey k (Lf x0), Lf (column (pre ++ [k]) data ++ [cell x]))])
                     HPl Hwl Hsl Hshl Hgl).
      rewrite akeys_snoc, <- !app_assoc in IH. cbn [app] in IH. exact (IH Hnd).
    + destruct v as [x|c]; [discriminate|].
      rewrite vgo_node, !eent_node.
      change (ekey k (Nd c0)) with k in Hnin, Hnd.
      assert (Hdef : adefault k (done ++ (k, espec (pre ++ [k]) (Nd c0) data) :: map (eent pre data) l0)
                     = espec (pre ++ [k]) (Nd c0) data).
      { unfold adefault. now rewrite alookup_mid by exact Hnin. }
      rewrite Hdef.
      destruct (HPv Hwv Hsv eq_refl (pre ++ [k]) (Nd c) r t data Hshv Hgv) as [HB _].
      rewrite HB. rewrite aset_mid by exact Hnin.
      specialize (IH l (done ++ [(k, espec (pre ++ [k]) (Nd c0) (data ++ [(t, r)]))])
                     HPl Hwl Hsl Hshl Hgl).
      rewrite akeys_snoc, <- !app_assoc in IH. cbn [app] in IH. exact (IH Hnd).
Qed.

Lemma vgo_A pre (r : row) t : forall l0 l done,
  Forall (fun kv => vied_ok (snd kv)) l0 ->
  Forall (fun kv => wf (snd kv)) l0 ->
  small (Nd l0) = true ->
  same_shape (Nd l0) (Nd l) = true ->
  Forall (fun kv => get_in r (pre ++ [fst kv]) = Ok (Some (snd kv))) l ->
  NoDup (akeys done ++ ekeys l0) ->
  vgo l done = Ok (Nd (done ++ map (eent pre [(t, r)]) l0)).
Proof.
  induction l0 as [|[k v0] l0 IH]; intros l done HP Hwf Hs Hsh Hg Hnd.
  - destruct l; [|discriminate]. cbn. now rewrite app_nil_r.
  - destruct l as [|[k' v] l]; [discriminate|].
    rewrite same_shape_cons in Hsh.
    apply andb_true_iff in Hsh as [Hsh Hshl]. apply andb_true_iff in Hsh as [Hk Hshv].
    apply N.eqb_eq in Hk. subst k'.
    pose proof Hs as Hs0. rewrite small_cons in Hs.
    apply andb_true_iff in Hs as [Hs Hsl]. apply andb_true_iff in Hs as [Hk50 Hsv].
    inversion HP as [|kv1 l1 HPv HPl]; subst. inversion Hwf as [|kv2 l2 Hwv Hwl]; subst.
    inversion Hg as [|kv3 l3 Hgv Hgl]; subst. cbn [fst snd] in HPv, Hwv, Hgv.
    cbn [ekeys map fst snd] in Hnd. fold (ekeys l0) in Hnd.
    pose proof (nodup_mid_notin _ _ _ Hnd) as Hnin.
    apply alookup_None_notin in Hnin.
    cbn [map].
    destruct v0 as [x0|c0].
    + destruct v as [x|c]; [|discriminate]. cbn in Hshv.
      rewrite vgo_leaf, eent_leaf, (ekey_kind k x0 x Hshv), Hnin.
      rewrite aset_absent by exact Hnin.
      specialize (IH l (done ++ [(ekey k (Lf x0), Lf [cell x])]) HPl Hwl Hsl Hshl Hgl).
      rewrite akeys_snoc, <- !app_assoc in IH. cbn [app] in IH. rewrite (IH Hnd).
      unfold column. cbn [map snd]. now rewrite (leaf_at_leaf _ _ _ Hgv).
    + destruct v as [x|c]; [discriminate|].
      rewrite vgo_node, eent_node.
      change (ekey k (Nd c0)) with k in Hnin, Hnd.
      assert (Hdef : adefault k done = Nd []) by (unfold adefault; now rewrite Hnin).
      rewrite Hdef.
      destruct (HPv Hwv Hsv eq_refl (pre ++ [k]) (Nd c) r t [] Hshv Hgv) as [_ HA].
      rewrite HA. rewrite aset_absent by exact Hnin.
      specialize (IH l (done ++ [(k, espec (pre ++ [k]) (Nd c0) [(t, r)])])
                     HPl Hwl Hsl Hshl Hgl).
      rewrite akeys_snoc, <- !app_assoc in IH. cbn [app] in IH. exact (IH Hnd).
Qed.

Lemma vied_ok_all (r0 : row) : vied_ok r0.
Proof.
  induction r0 as [x|c0 IHc] using tree_ind'; intros Hwf Hs Hnd; [discriminate|].
  intros pre sub r t data Hsh Hg.
  destruct sub as [y|dc]; [discriminate|].
  inversion Hwf as [|c1 Hndk Hwc]; subst.
  assert (Hndd : NoDup (akeys dc)) by (rewrite (same_shape_keys _ _ Hsh); exact Hndk).
  assert (Hgl : Forall (fun kv => get_in r (pre ++ [fst kv]) = Ok (Some (snd kv))) dc).
  { rewrite Forall_forall. intros [k v] Hin. cbn [fst snd].
    rewrite get_in_app, Hg. cbn. now rewrite (In_alookup k v dc Hndd Hin). }
  assert (Hek : NoDup (akeys (@nil (key * ets)) ++ ekeys c0)) by (apply ekeys_nodup; assumption).
  split.
  - rewrite !espec_Nd, vied_Nd.
    exact (vgo_B pre r t data c0 dc [] IHc Hwc Hs Hsh Hgl Hek).
  - rewrite espec_Nd, vied_Nd.
    exact (vgo_A pre r t c0 dc [] IHc Hwc Hs Hsh Hgl Hek).
Qed.

Lemma fold_vied (r0 : row) : wf r0 -> small r0 = true -> is_nd r0 = true ->
  forall rest d1, Forall (fun tr : Z * row => same_shape r0 (snd tr) = true) rest ->
  fold_left (fun acc tr => rbind acc (fun ts => vied (snd tr) ts)) rest (Ok (espec [] r0 d1)) =
  Ok (espec [] r0 (d1 ++ rest)).
Proof.
  intros Hwf Hs Hnd. induction rest as [|[t r] rest IH]; intros d1 Hall.
  - cbn. now rewrite app_nil_r.
  - inversion Hall as [|tr l Hsh Hrest]; subst. cbn [snd] in Hsh.
    cbn [fold_left rbind snd].
    rewrite (proj1 (vied_ok_all r0 Hwf Hs Hnd [] r r t d1 Hsh eq_refl)).
    rewrite IH by exact Hrest. now rewrite <- app_assoc.
Qed.

Lemma tfd_spec data r0 : rect data r0 ->
  timeseries_from_data data = Ok (map fst data, espec [] r0 data).
Proof.
  intros (Hwf & Hnd & Hs & rest & t0 & -> & Hall).
  unfold timeseries_from_data. cbn [fold_left rbind snd].
  rewrite (proj2 (vied_ok_all r0 Hwf Hs Hnd [] r0 r0 t0 [] (same_shape_refl r0) eq_refl)).
  rewrite (fold_vied r0 Hwf Hs Hnd rest [(t0, r0)] Hall). reflexivity.
Qed.

(* ================= Part 4: reading the closed form ================= *)

Lemma epath_single (c : list (key * row)) k x :
  alookup k c = Some (Lf x) -> epath (Nd c) [k] = [ekey k (Lf x)].
Proof.
  intros H. unfold epath. cbn [get_in]. rewrite H. destruct x; reflexivity.
Qed.

Lemma epath_cons (c : list (key * row)) k v p' : p' <> [] ->
  alookup k c = Some v -> epath (Nd c) (k :: p') = k :: epath v p'.
Proof.
  intros Hne H. unfold epath. cbn [get_in]. rewrite H.
  destruct (get_in v p') as [[[x|c']|]|e]; try reflexivity.
  destruct x; try reflexivity.
  destruct p' as [|h t]; [congruence|]. reflexivity.
Qed.

Lemma alookup_eent pre data (c : list (key * row)) k v :
  small (Nd c) = true -> NoDup (akeys c) -> In (k, v) c ->
  alookup (ekey k v) (map (eent pre data) c) = Some (snd (eent pre data (k, v))).
Proof.
  intros Hs Hnd Hin. apply In_alookup.
  - rewrite akeys_eent. now apply ekeys_nodup.
  - change (ekey k v, snd (eent pre data (k, v))) with (eent pre data (k, v)). now apply in_map.
Qed.

Lemma espec_get (r0 : row) : wf r0 -> small r0 = true -> is_nd r0 = true ->
  forall pre data p x, get_in r0 p = Ok (Some (Lf x)) ->
  get_in (espec pre r0 data) (epath r0 p) = Ok (Some (Lf (column (pre ++ p) data))).
Proof.
  induction r0 as [y|c IHc] using tree_ind'; intros Hwf Hs Hnd; [discriminate|].
  intros pre data p x Hg.
  inversion Hwf as [|c1 Hndk Hwc]; subst.
  destruct p as [|k p']; [discriminate|].
  cbn [get_in] in Hg. destruct (alookup k c) as [v|] eqn:El; [|discriminate].
  pose proof (alookup_In _ _ _ El) as Hin.
  pose proof (alookup_eent pre data c k v Hs Hndk Hin) as Hlk.
  rewrite espec_Nd.
  destruct p' as [|h t].
  - cbn in Hg. injection Hg as ->.
    rewrite (epath_single c k x El). cbn [get_in]. rewrite Hlk, eent_leaf. reflexivity.
  - rewrite (epath_cons c k v (h :: t)) by (exact El || discriminate).
    destruct v as [z|c']; [discriminate|].
    change (ekey k (Nd c')) with k in Hlk. cbn [get_in]. rewrite Hlk, eent_node. cbn [snd].
    rewrite Forall_forall in IHc, Hwc.
    destruct (small_In c k (Nd c') Hs Hin) as [_ Hsv].
    pose proof (IHc (k, Nd c') Hin (Hwc (k, Nd c') Hin) Hsv eq_refl (pre ++ [k]) data (h :: t) x Hg) as Hrec.
    cbn [snd] in Hrec. rewrite Hrec. now rewrite <- app_assoc.
Qed.

Lemma espec_wf (r0 : row) : wf r0 -> small r0 = true -> forall pre data, wf (espec pre r0 data).
Proof.
  induction r0 as [y|c IHc] using tree_ind'; intros Hwf Hs pre data.
  - cbn. constructor; constructor.
  - inversion Hwf as [|c1 Hndk Hwc]; subst. rewrite espec_Nd. constructor.
    + rewrite akeys_eent. now apply ekeys_nodup.
    + rewrite Forall_forall in *. intros kv Hin.
      apply in_map_iff in Hin as ([k v] & <- & Hin).
      destruct v as [z|c'].
      * rewrite eent_leaf. constructor.
      * rewrite eent_node. cbn [snd].
        destruct (small_In c k (Nd c') Hs Hin) as [_ Hsv].
        exact (IHc (k, Nd c') Hin (Hwc (k, Nd c') Hin) Hsv (pre ++ [k]) data).
Qed.

(* ================= Part 5: the embedded / path timeseries theorems ================= *)

Theorem embedded_aligned data r0 times ts : rect data r0 ->
  timeseries_from_data data = Ok (times, ts) ->
  times = map fst data /\
  forall p x, get_in r0 p = Ok (Some (Lf x)) ->
    get_in ts (epath r0 p) = Ok (Some (Lf (column p data))) /\ length (column p data) = length times.
Proof.
  intros Hrect Ht. rewrite (tfd_spec _ _ Hrect) in Ht. injection Ht as <- <-.
  split; [reflexivity|]. intros p x Hg. split.
  - destruct Hrect as (Hwf & Hnd & Hs & _).
    exact (espec_get r0 Hwf Hs Hnd [] data p x Hg).
  - unfold column. now rewrite !map_length.
Qed.

Theorem embedded_total data r0 : rect data r0 -> exists ts, timeseries_from_data data = Ok (map fst data, ts).
Proof. intros Hrect. eexists. apply (tfd_spec _ _ Hrect). Qed.

Theorem path_ts_aligned data r0 times pts : rect data r0 ->
  path_timeseries_from_data data = Ok (times, pts) ->
  forall p x, get_in r0 p = Ok (Some (Lf x)) -> In (epath r0 p, column p data) pts.
Proof.
  intros Hrect Ht p x Hg. unfold path_timeseries_from_data in Ht.
  rewrite (tfd_spec _ _ Hrect) in Ht. cbn [rbind fst snd] in Ht. injection Ht as <- <-.
  destruct Hrect as (Hwf & Hnd & Hs & _). unfold make_path_dict.
  apply (dict_to_paths_get (espec [] r0 data) [] (epath r0 p) (column p data)).
  - now apply espec_wf.
  - exact (espec_get r0 Hwf Hs Hnd [] data p x Hg).
Qed.

Theorem cellwise_inverse data p i : (i < length data)%nat ->
  nth i (column p data) LNone = leaf_at (snd (nth i data (0%Z, Nd []))) p.
Proof.
  intros _. unfold column.
  assert (Hd : leaf_at (snd (0%Z, @Nd lv [])) p = LNone) by (destruct p; reflexivity).
  rewrite <- Hd at 1.
  apply (map_nth (fun tr : Z * row => leaf_at (snd tr) p)).
Qed.

(* ================= Part 6: get_data(query) ================= *)

Lemma path_tricho (p : list key) : forall p',
  diverge p p' \/ (exists y t, p = p' ++ y :: t) \/ (exists s, p' = p ++ s).
Proof.
  induction p as [|x p IH]; intros p'.
  - right; right. exists p'. reflexivity.
  - destruct p' as [|y p'].
    + right; left. exists x, p. reflexivity.
    + destruct (N.eq_dec x y) as [->|Hne].
      * destruct (IH p') as [(c & a & b & p1 & q1 & -> & -> & Hab)|[(z & t & ->)|(s & ->)]].
        -- left. exists (y :: c), a, b, p1, q1. auto.
        -- right; left. exists z, t. reflexivity.
        -- right; right. exists s. reflexivity.
      * left. exists [], x, y, p, p'. auto.
Qed.

Lemma paths_to_dict_pfold (pl : list (list key * row)) : paths_to_dict pl = pfold (Ok (Nd [])) pl.
Proof. reflexivity. Qed.

Lemma pfold_nil (acc : res row) : pfold acc [] = acc.
Proof. reflexivity. Qed.

Lemma pfold_frame (p : list key) : forall pl (acc res : row),
  Forall (fun pv : list key * row => diverge (fst pv) p) pl ->
  pfold (Ok acc) pl = Ok res -> get_in res p = get_in acc p.
Proof.
  induction pl as [|[p0 v0] pl IH]; intros acc res Hall Hf.
  - rewrite pfold_nil in Hf. injection Hf as <-. reflexivity.
  - rewrite pfold_cons in Hf. cbn [rbind fst snd] in Hf.
    destruct (assoc_path acc p0 v0) as [acc1|e] eqn:Ea; [|rewrite pfold_err in Hf; discriminate].
    inversion Hall as [|pv l Hd Hrest]; subst. cbn [fst] in Hd.
    rewrite (IH acc1 res Hrest Hf). exact (assoc_frame _ _ _ _ _ Ea Hd).
Qed.

Lemma query_pairs_cons (r : row) p q :
  query_pairs r (p :: q) =
  rbind (query_pairs r q) (fun l => match get_in r p with
                                    | Ok (Some v) => Ok ((p, v) :: l)
                                    | Ok None => Ok l
                                    | Err e => Err e
                                    end).
Proof. reflexivity. Qed.

Lemma query_pairs_in (r : row) : forall q pl, query_pairs r q = Ok pl ->
  Forall (fun pv => In (fst pv) q /\ get_in r (fst pv) = Ok (Some (snd pv))) pl.
Proof.
  induction q as [|p q IH]; intros pl H.
  - cbn in H. injection H as <-. constructor.
  - rewrite query_pairs_cons in H.
    destruct (query_pairs r q) as [l|e]; [|discriminate]. cbn [rbind] in H.
    specialize (IH l eq_refl).
    assert (IH' : Forall (fun pv => In (fst pv) (p :: q) /\ get_in r (fst pv) = Ok (Some (snd pv))) l).
    { eapply Forall_impl; [|exact IH]. intros pv [H1 H2]. split; [now right|exact H2]. }
    destruct (get_in r p) as [[v|]|e] eqn:E; try discriminate; injection H as <-; auto.
    constructor; auto. split; [now left|exact E].
Qed.

Lemma query_get_gen (r : row) : forall q pl (acc res : row),
  pairwise_diverge q -> Forall (fun p => p <> []) q ->
  query_pairs r q = Ok pl -> pfold (Ok acc) pl = Ok res ->
  (forall p, In p q -> get_in acc p = Ok None) ->
  forall p, In p q -> get_in res p = get_in r p.
Proof.
  induction q as [|p0 q IH]; intros pl acc res Hpd Hne Hq Hf Hacc p Hin; [contradiction|].
  inversion Hpd as [|a l Hd0 Hpd']; subst. inversion Hne as [|a l Hne0 Hne']; subst.
  rewrite query_pairs_cons in Hq.
  destruct (query_pairs r q) as [l|e] eqn:Eq; [|discriminate]. cbn [rbind] in Hq.
  pose proof (query_pairs_in r q l Eq) as Hl.
  assert (Hdl : Forall (fun pv : list key * row => diverge (fst pv) p0) l).
  { rewrite Forall_forall in *. intros pv Hpv. destruct (Hl pv Hpv) as [Hpq _].
    destruct (Hd0 _ Hpq) as (c & x & y & p1 & q1 & E1 & E2 & Hxy).
    exists c, y, x, q1, p1. repeat split; auto. }
  destruct (get_in r p0) as [[v0|]|e] eqn:E0; [| |discriminate]; injection Hq as <-.
  - rewrite pfold_cons in Hf. cbn [rbind fst snd] in Hf.
    destruct (assoc_path acc p0 v0) as [acc1|e] eqn:Ea; [|rewrite pfold_err in Hf; discriminate].
    destruct Hin as [<-|Hin].
    + rewrite (pfold_frame p0 l acc1 res Hdl Hf), E0. exact (get_assoc _ _ _ _ Hne0 Ea).
    + apply (IH l acc1 res Hpd' Hne' eq_refl Hf); [|exact Hin].
      intros p' Hp'. rewrite Forall_forall in Hd0.
      rewrite (assoc_frame _ _ _ _ _ Ea (Hd0 p' Hp')). apply Hacc. now right.
  - destruct Hin as [<-|Hin].
    + rewrite (pfold_frame p0 l acc res Hdl Hf), E0. apply Hacc. now left.
    + apply (IH l acc res Hpd' Hne' eq_refl Hf); [|exact Hin].
      intros p' Hp'. apply Hacc. now right.
Qed.

Definition leaves_ok (r : row) (q : list (list key)) (acc : row) : Prop :=
  forall p' a, get_in acc p' = Ok (Some (Lf a)) ->
    exists p s, In p q /\ p' = p ++ s /\ get_in r p' = Ok (Some (Lf a)).

Lemma pfold_leaves (r : row) (q : list (list key)) : Forall (fun p => p <> []) q ->
  forall pl (acc res : row),
  Forall (fun pv => In (fst pv) q /\ get_in r (fst pv) = Ok (Some (snd pv))) pl ->
  leaves_ok r q acc -> pfold (Ok acc) pl = Ok res -> leaves_ok r q res.
Proof.
  intros Hne. induction pl as [|[p0 v0] pl IH]; intros acc res Hall Hacc Hf.
  - rewrite pfold_nil in Hf. injection Hf as <-. exact Hacc.
  - rewrite pfold_cons in Hf. cbn [rbind fst snd] in Hf.
    destruct (assoc_path acc p0 v0) as [acc1|e] eqn:Ea; [|rewrite pfold_err in Hf; discriminate].
    inversion Hall as [|pv l [Hin0 Hr0] Hrest]; subst. cbn [fst snd] in Hin0, Hr0.
    assert (Hne0 : p0 <> []) by (rewrite Forall_forall in Hne; now apply Hne).
    pose proof (get_assoc _ _ _ _ Hne0 Ea) as Hga.
    apply (IH acc1 res Hrest); [|exact Hf].
    intros p' a Hg.
    destruct (path_tricho p0 p') as [Hd|[(y & t & Heq)|(s & Heq)]].
    + rewrite (assoc_frame _ _ _ _ _ Ea Hd) in Hg. apply Hacc. exact Hg.
    + rewrite Heq, get_in_app, Hg in Hga. cbn in Hga. discriminate.
    + subst p'. exists p0, s. split; [exact Hin0|split; [reflexivity|]].
      rewrite get_in_app, Hga in Hg. rewrite get_in_app, Hr0. exact Hg.
Qed.

Theorem query_exact r q res : pairwise_diverge q -> Forall (fun p => p <> []) q ->
  query_row r q = Ok res ->
  (forall p, In p q -> get_in res p = get_in r p) /\
  (forall p' a, get_in res p' = Ok (Some (Lf a)) ->
     exists p s, In p q /\ p' = p ++ s /\ get_in r p' = Ok (Some (Lf a))).
Proof.
  intros Hpd Hne Hq. unfold query_row in Hq.
  destruct (query_pairs r q) as [pl|e] eqn:Ep; [|discriminate]. cbn [rbind] in Hq.
  rewrite paths_to_dict_pfold in Hq. split.
  - apply (query_get_gen r q pl (Nd []) res Hpd Hne Ep Hq).
    intros p Hin. apply get_in_nil_dict. rewrite Forall_forall in Hne. now apply Hne.
  - apply (pfold_leaves r q Hne pl (Nd []) res (query_pairs_in r q pl Ep)); [|exact Hq].
    intros p' a Hg. destruct p'; cbn in Hg; discriminate.
Qed.

Corollary query_keeps_falsy r q res p v : pairwise_diverge q -> Forall (fun p => p <> []) q ->
  query_row r q = Ok res -> In p q -> get_in r p = Ok (Some (Lf v)) -> get_in res p = Ok (Some (Lf v)).
Proof.
  intros Hpd Hne Hq Hin Hg.
  destruct (query_exact r q res Hpd Hne Hq) as [H1 _]. rewrite (H1 p Hin). exact Hg.
Qed.

Theorem query_refuted_pinned : exists r q p res,
  In p q /\ get_in r p = Ok (Some (Lf (LZ 0))) /\ query_row_pinned r q = Ok res /\ get_in res p = Ok None.
Proof.
  exists (Nd [(0%N, Lf (LZ 0))]), [[0%N]], [0%N], (Nd []).
  split; [now left|]. repeat split.
Qed.

Print Assumptions embedded_aligned.
Print Assumptions embedded_total.
Print Assumptions path_ts_aligned.
Print Assumptions cellwise_inverse.
Print Assumptions query_exact.
Print Assumptions query_keeps_falsy.
Print Assumptions query_refuted_pinned.
