(* C10: the engine's process table follows the hierarchy through every structural operation.
   Engine.apply_update (book_apply) registers exactly the non-step processes the store operation
   (apply_op) reports and drops exactly those under the reported deletions; the reports describe
   exactly how the set of process nodes of the tree changed. *)
From Coq Require Import List NArith ZArith Bool Lia.
From Viv Require Import Base.Assoc Base.Tree Model.Paths Model.Steps Model.Struct Proofs.Struct_proofs.
Import ListNotations.

(* ================= an induction principle that reaches the children ================= *)
Section CInd.
  Variable P : cnode -> Prop.
  Hypothesis HV : forall u v d, P (CVar u v d).
  Hypothesis HP : forall u pi, P (CProc u pi).
  Hypothesis HD : forall u g c, Forall (fun kv => P (snd kv)) c -> P (CDir u g c).
  Fixpoint cnode_ind' (t : cnode) : P t :=
    match t with
    | CVar u v d => HV u v d
    | CProc u pi => HP u pi
    | CDir u g c => HD u g c ((fix go (l : list (key * cnode)) : Forall (fun kv => P (snd kv)) l :=
                                 match l with
                                 | [] => Forall_nil _
                                 | kv :: r => Forall_cons kv (cnode_ind' (snd kv)) (go r)
                                 end) c)
    end.
End CInd.

(* ================= association lists ================= *)
Lemma In_aset_iff {V} k (x : V) c k' v : NoDup (akeys c) ->
  (In (k', v) (aset k x c) <-> (k' = k /\ v = x) \/ (k' <> k /\ In (k', v) c)).
Proof.
  intros Hnd. split.
  - intros Hin. apply (In_alookup _ _ _ (aset_nodup k x c Hnd)) in Hin.
    destruct (N.eq_dec k k') as [<-|Hne].
    + rewrite alookup_aset_eq in Hin. inversion Hin. auto.
    + rewrite (alookup_aset_neq k k' x c Hne) in Hin. right. split; [congruence|].
      apply alookup_In. exact Hin.
  - intros [[-> ->]|[Hne Hin]].
    + apply alookup_In. apply alookup_aset_eq.
    + apply alookup_In. rewrite alookup_aset_neq by congruence. apply In_alookup; assumption.
Qed.

Lemma In_aremove_iff {V} k (c : alist V) k' v : NoDup (akeys c) ->
  (In (k', v) (aremove k c) <-> k' <> k /\ In (k', v) c).
Proof.
  intros Hnd. split.
  - intros Hin. apply (In_alookup _ _ _ (aremove_nodup k c Hnd)) in Hin.
    destruct (N.eq_dec k k') as [<-|Hne].
    + rewrite (alookup_aremove_eq k c Hnd) in Hin. discriminate Hin.
    + rewrite (alookup_aremove_neq k k' c Hne) in Hin. split; [congruence|].
      apply alookup_In. exact Hin.
  - intros [Hne Hin]. apply alookup_In. rewrite alookup_aremove_neq by congruence.
    apply In_alookup; assumption.
Qed.

Lemma aset_lookup_none {V} k (x : V) c : alookup k c = None -> aset k x c = c ++ [(k, x)].
Proof.
  induction c as [|[k0 v0] r IH]; cbn; [reflexivity|].
  destruct (N.eqb k0 k); [discriminate|]. intros H. rewrite (IH H). reflexivity.
Qed.

Lemma flat_map_aset_same {V B} (F : key * V -> list B) k x ch c :
  alookup k c = Some ch -> F (k, x) = F (k, ch) -> flat_map F (aset k x c) = flat_map F c.
Proof.
  intros Hl HF. induction c as [|[k0 v0] r IH]; cbn in Hl |- *; [discriminate Hl|].
  destruct (N.eqb k0 k) eqn:E.
  - apply N.eqb_eq in E. subst k0. inversion Hl; subst v0. cbn [flat_map]. rewrite HF. reflexivity.
  - cbn [flat_map]. rewrite (IH Hl). reflexivity.
Qed.

(* ================= prefixes (sw_app_l, sw_true_iff, sw_ext, cget_app, cwf_cget: now in Struct_proofs) ================= *)
Lemma sw_mid pre k' r' k r :
  starts_with (pre ++ k' :: r') (pre ++ k :: r) = N.eqb k k' && starts_with r' r.
Proof. rewrite sw_app_l, sw_cons. reflexivity. Qed.

(* ================= process nodes of a tree ================= *)
Lemma cdepth_dir u g c pre :
  cdepth (CDir u g c) pre = (pre, CDir u g c) :: flat_map (fun kv => cdepth (snd kv) (pre ++ [fst kv])) c.
Proof.
  cbn [cdepth]. f_equal. induction c as [|[k ch] r IH]; [reflexivity|].
  cbn [flat_map fst snd]. rewrite IH. reflexivity.
Qed.

(* process nodes of a tree, relative to a prefix: proc_nodes distributes over children *)
Lemma proc_nodes_dir u g c pre : proc_nodes (CDir u g c) pre =
  flat_map (fun kv => proc_nodes (snd kv) (pre ++ [fst kv])) c.
Proof.
  unfold proc_nodes. rewrite cdepth_dir. cbn [flat_map snd app].
  induction c as [|[k ch] r IH]; [reflexivity|].
  cbn [flat_map fst snd]. rewrite flat_map_app, IH. reflexivity.
Qed.

Lemma in_proc_dir u g c pre q pi :
  In (q, pi) (proc_nodes (CDir u g c) pre) <->
  exists k v, In (k, v) c /\ In (q, pi) (proc_nodes v (pre ++ [k])).
Proof.
  rewrite proc_nodes_dir, in_flat_map. split.
  - intros ([k v] & Hin & Hq). exists k, v. auto.
  - intros (k & v & Hin & Hq). exists (k, v). auto.
Qed.

(* the prefix only shifts the paths *)
Lemma proc_nodes_shift t : forall pre,
  proc_nodes t pre = map (fun pp => (pre ++ fst pp, snd pp)) (proc_nodes t []).
Proof.
  induction t as [u v d|u pi|u g c IH] using cnode_ind'; intros pre.
  - reflexivity.
  - cbn. rewrite app_nil_r. reflexivity.
  - rewrite !proc_nodes_dir. induction IH as [|[k ch] r Hh Ht IHr]; [reflexivity|].
    cbn [flat_map fst snd]. rewrite map_app, <- IHr. f_equal.
    cbn [snd] in Hh. rewrite (Hh (pre ++ [k])), (Hh ([] ++ [k])), map_map.
    apply map_ext. intros [p pi]. cbn [fst snd app]. rewrite <- app_assoc. reflexivity.
Qed.

Lemma proc_nodes_prefix t pre q pi : In (q, pi) (proc_nodes t pre) -> exists r, q = pre ++ r.
Proof.
  rewrite proc_nodes_shift, in_map_iff. intros ([p pi'] & Heq & _). cbn [fst snd] in Heq.
  inversion Heq; subst. exists p. reflexivity.
Qed.

Lemma proc_under v pre k q pi : In (q, pi) (proc_nodes v (pre ++ [k])) -> exists r, q = pre ++ k :: r.
Proof.
  intros H. apply proc_nodes_prefix in H. destruct H as (r & ->). exists r.
  rewrite <- app_assoc. reflexivity.
Qed.

Lemma child_sw_ne v pre k' q pi k r :
  In (q, pi) (proc_nodes v (pre ++ [k'])) -> k' <> k -> starts_with q (pre ++ k :: r) = false.
Proof.
  intros H Hne. apply proc_under in H. destruct H as (r' & ->). rewrite sw_mid.
  destruct (N.eqb k k') eqn:E; [|reflexivity]. apply N.eqb_eq in E. congruence.
Qed.

Lemma child_sw_eq v pre k q pi r :
  In (q, pi) (proc_nodes v (pre ++ [k])) -> exists r', q = pre ++ k :: r' /\
  starts_with q (pre ++ k :: r) = starts_with r' r.
Proof.
  intros H. apply proc_under in H. destruct H as (r' & ->). exists r'. split; [reflexivity|].
  rewrite sw_mid, N.eqb_refl. reflexivity.
Qed.

Lemma proc_nodes_nil_shift t pre : proc_nodes t [] = [] -> proc_nodes t pre = [].
Proof. intros H. rewrite proc_nodes_shift, H. reflexivity. Qed.

(* a process node found by enumeration is the node found by lookup, and conversely *)
Lemma proc_nodes_cget t pre p pi : cwf t ->
  (In (pre ++ p, pi) (proc_nodes t pre) <-> exists u, cget t p = Some (CProc u pi)).
Proof.
  revert t pre. induction p as [|k r IH]; intros t pre Hw.
  - rewrite app_nil_r. destruct t as [u v d|u pi'|u g c].
    + cbn. split; [intros []|intros (u0 & H); discriminate H].
    + cbn. split.
      * intros [H|[]]. inversion H; subst. exists u. reflexivity.
      * intros (u0 & H). inversion H; subst. left. reflexivity.
    + split.
      * intros H. apply in_proc_dir in H. destruct H as (k & v & _ & Hq).
        apply proc_under in Hq. destruct Hq as (r & Hr).
        apply (f_equal (@length key)) in Hr. rewrite app_length in Hr. cbn [length] in Hr. lia.
      * intros (u0 & H). discriminate H.
  - destruct t as [u v d|u pi'|u g c].
    + cbn. split; [intros []|intros (u0 & H); discriminate H].
    + cbn. split.
      * intros [H|[]]. inversion H as [[Hp Hpi]].
        apply (f_equal (@length key)) in Hp. rewrite app_length in Hp. cbn [length] in Hp. lia.
      * intros (u0 & H). discriminate H.
    + inversion Hw as [| |? ? ? Hnd Hall]; subst. rewrite in_proc_dir, cget_cons. split.
      * intros (k' & v & Hin & Hq). pose proof Hq as Hq'. apply proc_under in Hq'.
        destruct Hq' as (r' & Hr). apply app_inv_head in Hr. inversion Hr; subst k' r'.
        rewrite (In_alookup _ _ _ Hnd Hin).
        apply (IH v (pre ++ [k]) (cwf_child u g c k v Hw (In_alookup _ _ _ Hnd Hin))).
        rewrite <- app_assoc. exact Hq.
      * intros (u0 & H). destruct (alookup k c) as [ch|] eqn:El; [|discriminate H].
        exists k, ch. split; [apply alookup_In; exact El|].
        replace (pre ++ k :: r) with ((pre ++ [k]) ++ r) by (rewrite <- app_assoc; reflexivity).
        apply (IH ch (pre ++ [k]) (cwf_child u g c k ch Hw El)). exists u0. exact H.
Qed.

(* no process node below a path that does not exist *)
Lemma no_proc_under t p q pi : cwf t -> cget t p = None -> In (q, pi) (proc_nodes t []) ->
  starts_with q p = false.
Proof.
  intros Hw Hg Hin. destruct (starts_with q p) eqn:E; [|reflexivity].
  apply sw_true_iff in E. destruct E as (r & ->).
  apply (proc_nodes_cget t [] (p ++ r) pi Hw) in Hin. destruct Hin as (u & Hc).
  rewrite cget_app, Hg in Hc. discriminate Hc.
Qed.

(* paths of process nodes are pairwise distinct *)
Lemma nodup_app {A} (a b : list A) :
  NoDup a -> NoDup b -> (forall x, In x a -> ~ In x b) -> NoDup (a ++ b).
Proof.
  intros Ha Hb Hd. induction Ha as [|x a Hx Ha IH]; [exact Hb|].
  cbn [app]. constructor.
  - intros Hin. apply in_app_or in Hin. destruct Hin as [Hin|Hin]; [exact (Hx Hin)|].
    apply (Hd x); [left; reflexivity|exact Hin].
  - apply IH. intros y Hy. apply Hd. right. exact Hy.
Qed.

Lemma proc_nodes_nodup t : cwf t -> forall pre, NoDup (map fst (proc_nodes t pre)).
Proof.
  induction t as [u v d|u pi|u g c IH] using cnode_ind'; intros Hw pre.
  - cbn. constructor.
  - cbn. constructor; [intros []|constructor].
  - inversion Hw as [| |? ? ? Hnd Hall]; subst. rewrite proc_nodes_dir.
    clear Hw. induction c as [|[k ch] r IHr]; [constructor|].
    cbn [flat_map fst snd]. rewrite map_app.
    inversion IH as [|? ? Hh Ht]; subst. inversion Hall as [|? ? Hwh Hwt]; subst.
    cbn [akeys map fst] in Hnd. inversion Hnd as [|? ? Hnin Hnd']; subst.
    cbn [snd] in Hh, Hwh. apply nodup_app.
    + apply (Hh Hwh).
    + apply (IHr Ht Hnd' Hwt).
    + intros q Hq1 Hq2. apply in_map_iff in Hq1. destruct Hq1 as ([q1 pi1] & Hf1 & Hq1).
      apply in_map_iff in Hq2. destruct Hq2 as ([q2 pi2] & Hf2 & Hq2). cbn [fst] in Hf1, Hf2. subst q1 q2.
      apply in_flat_map in Hq2. destruct Hq2 as ([k' v] & Hin & Hq2). cbn [fst snd] in Hq2.
      apply proc_under in Hq1. destruct Hq1 as (r1 & Hr1).
      apply proc_under in Hq2. destruct Hq2 as (r2 & Hr2). rewrite Hr1 in Hr2.
      apply app_inv_head in Hr2. inversion Hr2; subst k'.
      apply Hnin. change k with (fst (k, v)). apply in_map. exact Hin.
Qed.

(* ================= writing and removing a subtree ================= *)
(* no well-formedness of the written subtree is needed *)
Lemma proc_nodes_cset_gen p : forall t n t', cwf t -> p <> [] -> cset t p n = Ok t' ->
  forall pre q pi, In (q, pi) (proc_nodes t' pre) <->
    (starts_with q (pre ++ p) = false /\ In (q, pi) (proc_nodes t pre)) \/
    In (q, pi) (proc_nodes n (pre ++ p)).
Proof.
  induction p as [|k r IH]; intros t n t' Hw Hne H pre q pi; [congruence|].
  apply cset_shape in H. destruct H as (u & g & c & x & -> & -> & Hc).
  inversion Hw as [| |? ? ? Hnd Hall]; subst.
  assert (Hx : In (q, pi) (proc_nodes x (pre ++ [k])) <->
               (starts_with q (pre ++ k :: r) = false /\
                exists ch, alookup k c = Some ch /\ In (q, pi) (proc_nodes ch (pre ++ [k]))) \/
               In (q, pi) (proc_nodes n (pre ++ k :: r))).
  { destruct Hc as [[-> ->]|[Hr (ch & Hl & Hs)]].
    - split; [intros Hq; right; exact Hq|].
      intros [[Hsw (ch & _ & Hq)]|Hq]; [|exact Hq].
      destruct (child_sw_eq _ _ _ _ _ [] Hq) as (r' & _ & Hsw'). rewrite Hsw', sw_nil in Hsw.
      discriminate Hsw.
    - rewrite (IH ch n x (cwf_child u g c k ch Hw Hl) Hr Hs (pre ++ [k]) q pi).
      replace ((pre ++ [k]) ++ r) with (pre ++ k :: r) by (rewrite <- app_assoc; reflexivity).
      split.
      + intros [[Hsw Hq]|Hq]; [left|right; exact Hq]. split; [exact Hsw|]. exists ch. auto.
      + intros [[Hsw (ch0 & Hl0 & Hq)]|Hq]; [left|right; exact Hq]. split; [exact Hsw|].
        rewrite Hl in Hl0. inversion Hl0; subst ch0. exact Hq. }
  rewrite !in_proc_dir. split.
  - intros (k' & v & Hin & Hq). apply (In_aset_iff k x c k' v Hnd) in Hin.
    destruct Hin as [[-> ->]|[Hne' Hin]].
    + apply Hx in Hq. destruct Hq as [[Hsw (ch & Hl & Hq)]|Hq]; [left|right; exact Hq].
      split; [exact Hsw|]. exists k, ch. split; [apply alookup_In; exact Hl|exact Hq].
    + left. split; [apply (child_sw_ne _ _ _ _ _ _ _ Hq Hne')|]. exists k', v. auto.
  - intros [[Hsw (k' & v & Hin & Hq)]|Hq].
    + destruct (N.eq_dec k' k) as [->|Hne'].
      * exists k, x. split; [apply (In_aset_iff k x c k x Hnd); left; auto|].
        apply Hx. left. split; [exact Hsw|]. exists v. split; [apply (In_alookup _ _ _ Hnd Hin)|exact Hq].
      * exists k', v. split; [apply (In_aset_iff k x c k' v Hnd); right; auto|exact Hq].
    + exists k, x. split; [apply (In_aset_iff k x c k x Hnd); left; auto|].
      apply Hx. right. exact Hq.
Qed.

Lemma proc_nodes_cdel_gen p : forall t t', cwf t -> p <> [] -> cdel t p = Ok t' ->
  forall pre q pi, In (q, pi) (proc_nodes t' pre) <->
    starts_with q (pre ++ p) = false /\ In (q, pi) (proc_nodes t pre).
Proof.
  induction p as [|k r IH]; intros t t' Hw Hne H pre q pi; [congruence|].
  apply cdel_shape in H. destruct H as (u & g & c & -> & Hc).
  inversion Hw as [| |? ? ? Hnd Hall]; subst.
  destruct Hc as [[-> ->]|[(Hr & Hl & ->)|(Hr & ch & ch' & Hl & Hd & ->)]].
  - rewrite !in_proc_dir. split.
    + intros (k' & v & Hin & Hq). apply (In_aremove_iff k c k' v Hnd) in Hin. destruct Hin as [Hne' Hin].
      split; [apply (child_sw_ne _ _ _ _ _ _ _ Hq Hne')|]. exists k', v. auto.
    + intros [Hsw (k' & v & Hin & Hq)]. exists k', v. split; [|exact Hq].
      apply (In_aremove_iff k c k' v Hnd). split; [|exact Hin]. intros ->.
      destruct (child_sw_eq _ _ _ _ _ [] Hq) as (r' & _ & Hsw'). rewrite Hsw', sw_nil in Hsw.
      discriminate Hsw.
  - split; [|intros [_ Hq]; exact Hq]. intros Hq. split; [|exact Hq].
    apply in_proc_dir in Hq. destruct Hq as (k' & v & Hin & Hq).
    apply (child_sw_ne _ _ _ _ _ _ _ Hq). intros ->.
    apply alookup_None_notin in Hl. apply Hl. change k with (fst (k, v)). apply in_map. exact Hin.
  - pose proof (IH ch ch' (cwf_child u g c k ch Hw Hl) Hr Hd (pre ++ [k]) q pi) as Hx.
    replace ((pre ++ [k]) ++ r) with (pre ++ k :: r) in Hx by (rewrite <- app_assoc; reflexivity).
    rewrite !in_proc_dir. split.
    + intros (k' & v & Hin & Hq). apply (In_aset_iff k ch' c k' v Hnd) in Hin.
      destruct Hin as [[-> ->]|[Hne' Hin]].
      * apply Hx in Hq. destruct Hq as [Hsw Hq]. split; [exact Hsw|].
        exists k, ch. split; [apply alookup_In; exact Hl|exact Hq].
      * split; [apply (child_sw_ne _ _ _ _ _ _ _ Hq Hne')|]. exists k', v. auto.
    + intros [Hsw (k' & v & Hin & Hq)]. destruct (N.eq_dec k' k) as [->|Hne'].
      * exists k, ch'. split; [apply (In_aset_iff k ch' c k ch' Hnd); left; auto|].
        apply Hx. split; [exact Hsw|].
        pose proof (In_alookup _ _ _ Hnd Hin) as Hl'. rewrite Hl in Hl'. inversion Hl'; subst v. exact Hq.
      * exists k', v. split; [apply (In_aset_iff k ch' c k' v Hnd); right; auto|exact Hq].
Qed.

(* writing a subtree: outside it nothing changes, inside it the new subtree's process nodes *)
Theorem proc_nodes_cset_strong t p n t' q pi : cwf t -> p <> [] -> cset t p n = Ok t' ->
  (In (q, pi) (proc_nodes t' []) <->
   (starts_with q p = false /\ In (q, pi) (proc_nodes t [])) \/ In (q, pi) (proc_nodes n p)).
Proof. intros Hw Hne H. apply (proc_nodes_cset_gen p t n t' Hw Hne H [] q pi). Qed.

Theorem proc_nodes_cset t p n t' q pi : cwf t -> cwf n -> p <> [] -> cset t p n = Ok t' ->
  (In (q, pi) (proc_nodes t' []) <->
   (starts_with q p = false /\ In (q, pi) (proc_nodes t [])) \/ In (q, pi) (proc_nodes n p)).
Proof. intros Hw _ Hne H. apply (proc_nodes_cset_strong t p n t' q pi Hw Hne H). Qed.

Theorem proc_nodes_cdel t p t' q pi : cwf t -> p <> [] -> cdel t p = Ok t' ->
  (In (q, pi) (proc_nodes t' []) <-> (starts_with q p = false /\ In (q, pi) (proc_nodes t []))).
Proof. intros Hw Hne H. apply (proc_nodes_cdel_gen p t t' Hw Hne H [] q pi). Qed.

(* ================= the store operations and the engine's table ================= *)
Section ConsistentKit.
Variable mk_child : N -> cnode * N.
Variable D : Type.
Variable build : D -> N -> cnode * N.
Variable copy_procs : cnode -> N -> cnode * N.

(* a glob's sub-schema instance contains variables only *)
Hypothesis mk_child_no_procs : forall u, proc_nodes (fst (mk_child u)) [] = [].

Notation apply_opv vr := (apply_op mk_child D build copy_procs vr).

Ltac dres H a E :=
  match type of H with
  | rbind ?X _ = _ => destruct X as [a|?] eqn:E; cbn [rbind] in H; [|discriminate H]
  | (match ?X with _ => _ end) = _ => destruct X as [a|?] eqn:E; cbn [rbind] in H; [|discriminate H]
  end.

Lemma in_proc_paths t q o :
  In (q, o) (proc_paths t) <->
  exists pi, In (q, pi) (proc_nodes t []) /\ pi_step pi = false /\ o = pi_obj pi.
Proof.
  unfold proc_paths. rewrite in_flat_map. split.
  - intros ([q' pi] & Hin & Hq). cbn [fst snd] in Hq. destruct (pi_step pi) eqn:Es; [destruct Hq|].
    destruct Hq as [Hq|[]]. inversion Hq; subst. exists pi. auto.
  - intros (pi & Hin & Hs & ->). exists (q, pi). split; [exact Hin|]. cbn [fst snd]. rewrite Hs.
    left. reflexivity.
Qed.

(* Store.set_value neither creates nor removes process nodes *)
Lemma set_value_procs fuel : forall n v uid r,
  set_value mk_child fuel n v uid = Ok r -> forall pre, proc_nodes (fst r) pre = proc_nodes n pre.
Proof.
  induction fuel as [|f IH]; intros n v uid r H pre; [discriminate H|].
  destruct n as [u z d|u pi|u g c]; destruct v as [z'|vc]; cbn [set_value] in H;
    try discriminate H; try (inversion H; subst; reflexivity).
  dres H cu E. inversion H; subst r. cbn [fst]. rewrite !proc_nodes_dir.
  refine (rfold_inv _ (fun cu => forall pre,
                         flat_map (fun kv => proc_nodes (snd kv) (pre ++ [fst kv])) (fst cu) =
                         flat_map (fun kv => proc_nodes (snd kv) (pre ++ [fst kv])) c)
                    _ _ _ E _ _ _ pre).
  - reflexivity.
  - intros [c0 u0] [k x] a1 Hg Hinv pre0. cbn [rbind fst snd] in Hg, Hinv.
    destruct (alookup k c0) as [ch|] eqn:El.
    + dres Hg r0 Es. inversion Hg; subst a1. cbn [fst]. rewrite <- (Hinv pre0).
      apply (flat_map_aset_same _ k (fst r0) ch c0 El). cbn [fst snd].
      apply (IH ch x u0 r0 Es).
    + destruct g.
      * destruct (mk_child u0) as [ch u1] eqn:Em. dres Hg r0 Es. inversion Hg; subst a1. cbn [fst].
        rewrite (aset_lookup_none k (fst r0) c0 El), flat_map_app, (Hinv pre0). cbn [flat_map fst snd].
        rewrite (IH ch x u1 r0 Es), app_nil_r.
        rewrite (proc_nodes_nil_shift ch (pre0 ++ [k])); [apply app_nil_r|].
        pose proof (mk_child_no_procs u0) as Hm. rewrite Em in Hm. exact Hm.
      * inversion Hg; subst a1. cbn [fst]. apply Hinv.
  - intros pre0. reflexivity.
Qed.

(* ---- each store operation reports exactly how the set of (non-step) processes changes ---- *)
(* delete *)
Theorem delete_reports vr t here k uid t' rp uid' q o : cwf t ->
  apply_opv vr t here (OpDelete D k) uid = Ok (t', rp, uid') ->
  (In (q, o) (proc_paths t') <-> In (q, o) (proc_paths t) /\ starts_with q (here ++ [k]) = false).
Proof.
  intros Hw H. apply delete_inv in H. destruct H as (Hdl & _ & _).
  rewrite !in_proc_paths. split.
  - intros (pi & Hin & Hs & Ho).
    apply (proc_nodes_cdel t _ t' q pi Hw (snoc_not_nil here k) Hdl) in Hin. destruct Hin as [Hsw Hin].
    split; [exists pi; auto|exact Hsw].
  - intros [(pi & Hin & Hs & Ho) Hsw]. exists pi. split; [|auto].
    apply (proc_nodes_cdel t _ t' q pi Hw (snoc_not_nil here k) Hdl). auto.
Qed.

(* generate at a fresh key *)
Lemma generate_inv2 vr t here k d init uid t' rp uid' :
  apply_opv vr t here (OpGenerate D k d init) uid = Ok (t', rp, uid') ->
  exists r, set_value mk_child (S (tdepth init)) (fst (build d uid)) init (snd (build d uid)) = Ok r
            /\ cset t (here ++ [k]) (fst r) = Ok t'
            /\ rp = reports_generated true (fst r) (here ++ [k]).
Proof.
  intros H. destruct (apply_op_dir mk_child D build copy_procs _ _ _ _ _ _ H) as (u & g & c & Hd).
  unfold apply_op, dir_at in H. rewrite Hd in H. cbn [rbind] in H.
  destruct (build d uid) as [sub uid1]. cbn [fst snd].
  dres H r Es. dres H t1 Ec. inversion H; subst. exists r. auto.
Qed.

Lemma cget_fresh_child t here u g c k :
  cget t here = Some (CDir u g c) -> alookup k c = None -> cget t (here ++ [k]) = None.
Proof. intros Hd Hl. rewrite cget_app, Hd, cget_cons, Hl. reflexivity. Qed.

(* the statement with one extra premise: whatever `build` lists in a `steps` dict is a Step.
   Store.insert splits its report by the dict an object was listed in, Engine.apply_update files
   a reported process by is_step(): a plain Process listed under `steps` is in the hierarchy
   but is not reported as a process (see generate_reports_counterexample below) *)
Theorem generate_reports_partial vr t here k d init uid t' rp uid' q o u g c : cwf t ->
  cget t here = Some (CDir u g c) -> alookup k c = None ->
  (forall x n, cwf (fst (build x n))) ->
  (forall x n p pi, In (p, pi) (proc_nodes (fst (build x n)) []) -> pi_in_steps pi = true -> pi_step pi = true) ->
  apply_opv vr t here (OpGenerate D k d init) uid = Ok (t', rp, uid') ->
  (In (q, o) (proc_paths t') <->
   In (q, o) (proc_paths t) \/ exists pi, In (q, pi) (r_process rp) /\ pi_step pi = false /\ o = pi_obj pi).
Proof.
  intros Hw Hd Hl _ Hst H. apply generate_inv2 in H. destruct H as (r & Es & Ec & ->).
  pose proof (cget_fresh_child t here u g c k Hd Hl) as Hnone.
  pose proof (proc_nodes_cset_strong t (here ++ [k]) (fst r) t' q) as Hcs.
  cbn [reports_generated r_process]. rewrite !in_proc_paths. split.
  - intros (pi & Hin & Hs & Ho).
    apply (Hcs pi Hw (snoc_not_nil here k) Ec) in Hin. destruct Hin as [[Hsw Hin]|Hin].
    + left. exists pi. auto.
    + right. exists pi. split; [|auto]. apply filter_In. split; [exact Hin|]. cbn [snd].
      destruct (pi_in_steps pi) eqn:Ei; [|reflexivity]. exfalso.
      rewrite (set_value_procs _ _ _ _ _ Es) in Hin. rewrite proc_nodes_shift in Hin.
      apply in_map_iff in Hin. destruct Hin as ([p pi'] & Heq & Hin). cbn [fst snd] in Heq.
      inversion Heq; subst pi'. rewrite (Hst d uid p pi Hin Ei) in Hs. discriminate Hs.
  - intros [(pi & Hin & Hs & Ho)|(pi & Hin & Hs & Ho)]; exists pi; (split; [|auto]);
      apply (Hcs pi Hw (snoc_not_nil here k) Ec).
    + left. split; [apply (no_proc_under t _ q pi Hw Hnone Hin)|exact Hin].
    + right. apply filter_In in Hin. destruct Hin as [Hin _]. exact Hin.
Qed.

(* ORIGINAL STATEMENT (false as written for an arbitrary kit: see generate_reports_counterexample):
Theorem generate_reports vr t here k d init uid t' rp uid' q o u g c : cwf t ->
  cget t here = Some (CDir u g c) -> alookup k c = None ->
  (forall x n, cwf (fst (build x n))) ->
  apply_op mk_child D build copy_procs vr t here (OpGenerate D k d init) uid = Ok (t', rp, uid') ->
  (In (q, o) (proc_paths t') <->
   In (q, o) (proc_paths t) \/ exists pi, In (q, pi) (r_process rp) /\ pi_step pi = false /\ o = pi_obj pi).
*)

(* the direction that holds without the extra premise: the table never gets a process the hierarchy lacks *)
Theorem generate_reports_sound vr t here k d init uid t' rp uid' q o u g c : cwf t ->
  cget t here = Some (CDir u g c) -> alookup k c = None ->
  apply_opv vr t here (OpGenerate D k d init) uid = Ok (t', rp, uid') ->
  (In (q, o) (proc_paths t) \/ exists pi, In (q, pi) (r_process rp) /\ pi_step pi = false /\ o = pi_obj pi) ->
  In (q, o) (proc_paths t').
Proof.
  intros Hw Hd Hl H. apply generate_inv2 in H. destruct H as (r & Es & Ec & ->).
  pose proof (cget_fresh_child t here u g c k Hd Hl) as Hnone.
  pose proof (proc_nodes_cset_strong t (here ++ [k]) (fst r) t' q) as Hcs.
  cbn [reports_generated r_process]. rewrite !in_proc_paths.
  intros [(pi & Hin & Hs & Ho)|(pi & Hin & Hs & Ho)]; exists pi; (split; [|auto]);
    apply (Hcs pi Hw (snoc_not_nil here k) Ec).
  - left. split; [apply (no_proc_under t _ q pi Hw Hnone Hin)|exact Hin].
  - right. apply filter_In in Hin. destruct Hin as [Hin _]. exact Hin.
Qed.

(* move *)
Lemma move_inv2 t here src tgt uid t' rp uid' :
  apply_opv vfixed t here (OpMove D src tgt) uid = Ok (t', rp, uid') ->
  exists u g c node t1, cget t here = Some (CDir u g c) /\ alookup src c = Some node /\
    cget t (tgt ++ [src]) = None /\ cdel t (here ++ [src]) = Ok t1 /\
    cset t1 (tgt ++ [src]) node = Ok t' /\ r_deletions rp = [here ++ [src]] /\
    r_process rp = filter (fun pp => negb (pi_step (snd pp))) (proc_nodes node (tgt ++ [src])).
Proof.
  intros H. destruct (apply_op_dir mk_child D build copy_procs _ _ _ _ _ _ H) as (u & g & c & Hd).
  unfold apply_op, dir_at in H. rewrite Hd in H. cbn [rbind] in H.
  destruct (alookup src c) as [node|] eqn:El; [|discriminate H].
  destruct (cget t (tgt ++ [src])) as [y|] eqn:Eg; [discriminate H|].
  dres H t1 Ed. dres H t2 Ec. inversion H; subst.
  exists u, g, c, node, t1. cbn [r_deletions r_process vfixed v_fix_move]. auto 10.
Qed.

(* the two premises of move_reports follow from success (Consistent2_proofs.move_target_not_inside): the form
   without them *)
Theorem move_reports_gen t here src tgt uid t' rp uid' q o : cwf t ->
  apply_opv vfixed t here (OpMove D src tgt) uid = Ok (t', rp, uid') ->
  (In (q, o) (proc_paths t') <->
   (In (q, o) (proc_paths t) /\ starts_with q (here ++ [src]) = false) \/
   exists pi, In (q, pi) (r_process rp) /\ o = pi_obj pi).
Proof.
  intros Hw H. apply move_inv2 in H.
  destruct H as (u & g & c & node & t1 & Hd & Hl & Hnone & Hdl & Hcs & _ & ->).
  pose proof (cdel_cwf _ _ _ Hw Hdl) as Hw1.
  pose proof (proc_nodes_cset_strong t1 (tgt ++ [src]) node t' q) as Hs'.
  pose proof (proc_nodes_cdel t (here ++ [src]) t1 q) as Hd'.
  rewrite !in_proc_paths. split.
  - intros (pi & Hin & Hs & Ho).
    apply (Hs' pi Hw1 (snoc_not_nil tgt src) Hcs) in Hin. destruct Hin as [[Hsw Hin]|Hin].
    + apply (Hd' pi Hw (snoc_not_nil here src) Hdl) in Hin. destruct Hin as [Hsw' Hin].
      left. split; [exists pi; auto|exact Hsw'].
    + right. exists pi. split; [|exact Ho]. apply filter_In. split; [exact Hin|]. cbn [snd].
      rewrite Hs. reflexivity.
  - intros [[(pi & Hin & Hs & Ho) Hsw]|(pi & Hin & Ho)].
    + exists pi. split; [|auto]. apply (Hs' pi Hw1 (snoc_not_nil tgt src) Hcs). left.
      split; [apply (no_proc_under t _ q pi Hw Hnone Hin)|].
      apply (Hd' pi Hw (snoc_not_nil here src) Hdl). auto.
    + apply filter_In in Hin. destruct Hin as [Hin Hneg]. cbn [snd] in Hneg.
      apply negb_true_iff in Hneg. exists pi. split; [|auto].
      apply (Hs' pi Hw1 (snoc_not_nil tgt src) Hcs). right. exact Hin.
Qed.

Theorem move_reports t here src tgt uid t' rp uid' q o : cwf t ->
  starts_with (tgt ++ [src]) (here ++ [src]) = false -> starts_with (here ++ [src]) (tgt ++ [src]) = false ->
  apply_opv vfixed t here (OpMove D src tgt) uid = Ok (t', rp, uid') ->
  (In (q, o) (proc_paths t') <->
   (In (q, o) (proc_paths t) /\ starts_with q (here ++ [src]) = false) \/
   exists pi, In (q, pi) (r_process rp) /\ o = pi_obj pi).
Proof. intros Hw _ _ H. apply (move_reports_gen t here src tgt uid t' rp uid' q o Hw H). Qed.

(* ---- the engine's table after folding a report in ---- *)
(* nonstep, entry, psetf: Struct_proofs *)
Lemma path_eq_dec (p q : list key) : {p = q} + {p <> q}.
Proof. apply (list_eq_dec N.eq_dec). Qed.

Lemma nodup_fst_functional {A B} (l : list (A * B)) p a b :
  NoDup (map fst l) -> In (p, a) l -> In (p, b) l -> a = b.
Proof.
  induction l as [|[p0 a0] l IH]; cbn [map fst In]; intros Hnd Ha Hb; [destruct Ha|].
  inversion Hnd as [|? ? Hx Hnd']; subst.
  destruct Ha as [Ha|Ha]; destruct Hb as [Hb|Hb].
  - inversion Ha; inversion Hb; subst. reflexivity.
  - inversion Ha; subst. exfalso. apply Hx. change p with (fst (p, b)). apply in_map. exact Hb.
  - inversion Hb; subst. exfalso. apply Hx. change p with (fst (p, a)). apply in_map. exact Ha.
  - apply (IH Hnd' Ha Hb).
Qed.

Lemma pset_fresh {A} (l : list (list key * A)) p a : ~ In p (map fst l) -> pset l p a = l ++ [(p, a)].
Proof.
  induction l as [|[q b0] r IH]; cbn [pset map fst In app]; intros Hn; [reflexivity|].
  destruct (kpath_eqb q p) eqn:E.
  - exfalso. apply Hn. left. apply kpath_eqb_eq. exact E.
  - rewrite IH; [reflexivity|]. intros Hin. apply Hn. right. exact Hin.
Qed.

Lemma pset_keys {A} (l : list (list key * A)) p a :
  map fst (pset l p a) = if in_dec path_eq_dec p (map fst l) then map fst l else map fst l ++ [p].
Proof.
  induction l as [|[q b0] r IH]; cbn [pset map fst]; [reflexivity|].
  destruct (kpath_eqb q p) eqn:E.
  - apply kpath_eqb_eq in E. subst q. cbn [map fst].
    destruct (in_dec path_eq_dec p (p :: map fst r)) as [_|Hn]; [reflexivity|].
    exfalso. apply Hn. left. reflexivity.
  - cbn [map fst]. rewrite IH.
    destruct (in_dec path_eq_dec p (map fst r)) as [Hi|Hn];
      destruct (in_dec path_eq_dec p (q :: map fst r)) as [Hi'|Hn']; try reflexivity.
    + exfalso. apply Hn'. right. exact Hi.
    + exfalso. destruct Hi' as [Hq|Hi']; [|exact (Hn Hi')]. subst q. rewrite kpath_eqb_refl in E.
      discriminate E.
Qed.

Lemma pset_nodup {A} (l : list (list key * A)) p a : NoDup (map fst l) -> NoDup (map fst (pset l p a)).
Proof.
  intros Hnd. rewrite pset_keys. destruct (in_dec path_eq_dec p (map fst l)) as [Hi|Hn]; [exact Hnd|].
  apply nodup_app; [exact Hnd|constructor; [intros []|constructor]|].
  intros x Hx [<-|[]]. exact (Hn Hx).
Qed.

Lemma pset_in {A} (l : list (list key * A)) p a q o : NoDup (map fst l) ->
  (In (q, o) (pset l p a) <-> (q = p /\ o = a) \/ (q <> p /\ In (q, o) l)).
Proof.
  induction l as [|[q0 b0] r IH]; cbn [pset map fst In]; intros Hnd.
  - split.
    + intros [H|[]]. inversion H; subst. left. auto.
    + intros [[-> ->]|[_ []]]. left. reflexivity.
  - inversion Hnd as [|? ? Hx Hnd']; subst. destruct (kpath_eqb q0 p) eqn:E.
    + apply kpath_eqb_eq in E. subst q0. cbn [In]. split.
      * intros [H|H]; [inversion H; subst; left; auto|].
        right. split; [|right; exact H]. intros ->. apply Hx. change p with (fst (p, o)).
        apply in_map. exact H.
      * intros [[-> ->]|[Hne [H|H]]]; [left; reflexivity| |right; exact H].
        inversion H; subst. congruence.
    + cbn [In]. rewrite (IH Hnd'). split.
      * intros [H|[H|[Hne H]]]; [|left; exact H|right; split; [exact Hne|right; exact H]].
        inversion H; subst. right. split; [|left; reflexivity].
        intros ->. rewrite kpath_eqb_refl in E. discriminate E.
      * intros [H|[Hne [H|H]]]; [right; left; exact H|left; exact H|right; right; auto].
Qed.

(* registering a list of reports: the assignment keeps one entry per path, the last entry for a path wins *)
Lemma psetf_fold_nodup adds : forall l, NoDup (map fst l) -> NoDup (map fst (fold_left psetf adds l)).
Proof.
  induction adds as [|x adds IH]; intros l Hnd; cbn [fold_left]; [exact Hnd|].
  apply IH. unfold psetf. apply pset_nodup. exact Hnd.
Qed.

Lemma psetf_fold_in adds : forall l q o, NoDup (map fst l) ->
  (forall p pi pi', In (p, pi) adds -> In (p, pi') adds -> pi_obj pi = pi_obj pi') ->
  (In (q, o) (fold_left psetf adds l) <->
   (In (q, o) l /\ ~ In q (map fst adds)) \/ exists pi, In (q, pi) adds /\ o = pi_obj pi).
Proof.
  induction adds as [|[p pi] adds IH]; intros l q o Hnd Hfun; cbn [fold_left].
  - cbn [map In]. split; [intros H; left; split; [exact H|intros []]|].
    intros [[H _]|(pi & [] & _)]. exact H.
  - assert (Hfun' : forall p0 pi0 pi', In (p0, pi0) adds -> In (p0, pi') adds -> pi_obj pi0 = pi_obj pi').
    { intros p0 pi0 pi' H1 H2. apply (Hfun p0 pi0 pi'); right; assumption. }
    rewrite (IH (psetf l (p, pi)) q o (pset_nodup l p (pi_obj pi) Hnd) Hfun').
    unfold psetf at 1. cbn [fst snd]. rewrite (pset_in l p (pi_obj pi) q o Hnd). cbn [map fst In]. split.
    + intros [[[[-> ->]|[Hne Hin]] Hnk]|(pi0 & Hin & ->)].
      * right. exists pi. split; [left; reflexivity|reflexivity].
      * left. split; [exact Hin|]. intros [Hq|Hq]; [congruence|exact (Hnk Hq)].
      * right. exists pi0. split; [right; exact Hin|reflexivity].
    + intros [[Hin Hnk]|(pi0 & [Heq|Hin] & ->)].
      * left. split; [|intros Hq; apply Hnk; right; exact Hq].
        right. split; [|exact Hin]. intros ->. apply Hnk. left. reflexivity.
      * inversion Heq; subst p pi0. destruct (in_dec path_eq_dec q (map fst adds)) as [Hi|Hn].
        -- right. apply in_map_iff in Hi. destruct Hi as ([q' pi1] & Hq' & Hi). cbn [fst] in Hq'. subst q'.
           exists pi1. split; [exact Hi|]. apply (Hfun q pi pi1); [left; reflexivity|right; exact Hi].
        -- left. split; [left; auto|exact Hn].
      * right. exists pi0. split; [exact Hin|reflexivity].
Qed.

Lemma nodup_map_filter {A B} (f : A -> B) (g : A -> bool) l : NoDup (map f l) -> NoDup (map f (filter g l)).
Proof.
  induction l as [|x l IH]; cbn [map filter]; intros Hnd; [constructor|].
  inversion Hnd as [|? ? Hx Hnd']; subst. destruct (g x); cbn [map]; [|apply IH; exact Hnd'].
  constructor; [|apply IH; exact Hnd'].
  intros Hin. apply Hx. apply in_map_iff in Hin. destruct Hin as (y & Hy & Hin).
  apply filter_In in Hin. destruct Hin as [Hin _]. rewrite <- Hy. apply in_map. exact Hin.
Qed.

Lemma nodup_pdrop_fold {A} ds : forall (l : list (list key * A)),
  NoDup (map fst l) -> NoDup (map fst (fold_left pdrop ds l)).
Proof.
  induction ds as [|d ds IH]; intros l Hnd; cbn [fold_left]; [exact Hnd|].
  apply IH. unfold pdrop. apply nodup_map_filter. exact Hnd.
Qed.

Lemma map_fst_entry l : map fst (map entry l) = map fst l.
Proof. rewrite map_map. apply map_ext. intros [p pi]. reflexivity. Qed.

(* fresh and pairwise distinct paths are appended in order *)
Lemma psetf_fold_append adds : forall l,
  (forall p, In p (map fst adds) -> ~ In p (map fst l)) -> NoDup (map fst adds) ->
  fold_left psetf adds l = l ++ map entry adds.
Proof.
  induction adds as [|[p pi] adds IH]; intros l Hfresh Hnd; cbn [fold_left map]; [rewrite app_nil_r; reflexivity|].
  cbn [map fst] in Hnd. inversion Hnd as [|? ? Hp Hnd']; subst.
  unfold psetf at 2. cbn [fst snd]. rewrite pset_fresh by (apply Hfresh; left; reflexivity).
  rewrite IH; [rewrite <- app_assoc; reflexivity| |exact Hnd'].
  intros p' Hin Hin'. rewrite map_app in Hin'. apply in_app_or in Hin'. destruct Hin' as [Hin'|[Heq|[]]].
  - apply (Hfresh p'); [right; exact Hin|exact Hin'].
  - cbn [fst] in Heq. subst p'. exact (Hp Hin).
Qed.

(* reports of pairwise distinct paths agree on the object of a path *)
Lemma nodup_reports_functional (l : list (list key * pinfo)) :
  NoDup (map fst l) -> forall p pi pi', In (p, pi) l -> In (p, pi') l -> pi_obj pi = pi_obj pi'.
Proof. intros Hnd p pi pi' H1 H2. rewrite (nodup_fst_functional l p pi pi' Hnd H1 H2). reflexivity. Qed.

(* DELETIONS FIRST, THEN REGISTRATION: the table after a report.  Registered are the entries that were there,
   lie under no reported deletion and are not re-assigned, and every reported non-step process (reports of one
   path must agree on the object: then their order does not matter) -- also one reported under a deleted path *)
Theorem book_apply_procs b rp b' q o : NoDup (map fst (b_procs b)) ->
  (forall p pi pi', In (p, pi) (filter nonstep (r_process rp)) -> In (p, pi') (filter nonstep (r_process rp)) ->
                    pi_obj pi = pi_obj pi') ->
  book_apply b rp = Ok b' ->
  (In (q, o) (b_procs b') <->
   (In (q, o) (b_procs b) /\ (forall d, In d (r_deletions rp) -> starts_with q d = false) /\
    ~ In q (map fst (filter nonstep (r_process rp)))) \/
   exists pi, In (q, pi) (r_process rp) /\ pi_step pi = false /\ o = pi_obj pi).
Proof.
  intros Hnd Hfun H. rewrite (book_apply_procs_eq b rp b' H).
  rewrite (psetf_fold_in _ _ q o (nodup_pdrop_fold _ _ Hnd) Hfun), pdrop_fold_in. split.
  - intros [[[Hin Hd] Hnk]|(pi & Hin & Ho)]; [left; auto|].
    apply in_filter_nonstep in Hin. destruct Hin as [Hin Hs]. right. exists pi. auto.
  - intros [(Hin & Hd & Hnk)|(pi & Hin & Hs & Ho)]; [left; auto|].
    right. exists pi. split; [apply in_filter_nonstep; auto|exact Ho].
Qed.

(* the table keeps one entry per path: no premise on the report *)
Theorem book_apply_nodup b rp b' : NoDup (map fst (b_procs b)) ->
  book_apply b rp = Ok b' -> NoDup (map fst (b_procs b')).
Proof.
  intros Hb H. rewrite (book_apply_procs_eq b rp b' H). apply psetf_fold_nodup, nodup_pdrop_fold. exact Hb.
Qed.

(* reported paths that are pairwise distinct and not in the table (after the deletions) are appended in order *)
Theorem book_apply_procs_append b rp b' :
  NoDup (map fst (filter nonstep (r_process rp))) ->
  (forall p pi, In (p, pi) (r_process rp) -> pi_step pi = false ->
     ~ In p (map fst (fold_left pdrop (r_deletions rp) (b_procs b)))) ->
  book_apply b rp = Ok b' ->
  b_procs b' = fold_left pdrop (r_deletions rp) (b_procs b) ++ map entry (filter nonstep (r_process rp)).
Proof.
  intros Hnd Hfresh H. rewrite (book_apply_procs_eq b rp b' H). apply psetf_fold_append; [|exact Hnd].
  intros p Hin. apply in_map_iff in Hin. destruct Hin as ([p' pi] & Heq & Hin). cbn [fst] in Heq. subst p'.
  apply in_filter_nonstep in Hin. destruct Hin as [Hin Hs]. apply (Hfresh p pi Hin Hs).
Qed.

(* ---- together: consistency of the process table is preserved ---- *)
Lemma delete_inv2 vr t here k uid t' rp uid' :
  apply_opv vr t here (OpDelete D k) uid = Ok (t', rp, uid') ->
  r_deletions rp = [here ++ [k]] /\ r_process rp = [].
Proof.
  intros H. destruct (apply_op_dir mk_child D build copy_procs _ _ _ _ _ _ H) as (u & g & c & Hd).
  unfold apply_op, dir_at in H. rewrite Hd in H. cbn [rbind] in H.
  dres H t1 Ec. inversion H; subst. auto.
Qed.

Theorem consistent_delete vr t here k uid t' rp uid' b b' : cwf t -> consistent_procs t b ->
  apply_opv vr t here (OpDelete D k) uid = Ok (t', rp, uid') ->
  book_apply b rp = Ok b' -> consistent_procs t' b'.
Proof.
  intros Hw [Hss Hnd] Hop Hb. destruct (delete_inv2 _ _ _ _ _ _ _ _ Hop) as [Hdel Hrp].
  assert (Hfun : forall p pi pi', In (p, pi) (filter nonstep (r_process rp)) ->
                   In (p, pi') (filter nonstep (r_process rp)) -> pi_obj pi = pi_obj pi')
    by (rewrite Hrp; intros p pi pi' []).
  split; [|apply (book_apply_nodup b rp b' Hnd Hb)].
  intros [q o]. rewrite (book_apply_procs b rp b' q o Hnd Hfun Hb).
  rewrite (delete_reports vr t here k uid t' rp uid' q o Hw Hop). split.
  - intros [(Hin & Hd & _)|(pi & Hin & _)]; [|rewrite Hrp in Hin; destruct Hin].
    split; [apply Hss; exact Hin|]. apply Hd. rewrite Hdel. left. reflexivity.
  - intros [Hin Hsw]. left. split; [apply Hss; exact Hin|]. split.
    + intros d Hd. rewrite Hdel in Hd. destruct Hd as [<-|[]]. exact Hsw.
    + rewrite Hrp. intros [].
Qed.

(* a reported path lies under the root it was reported for *)
Lemma reported_under n root p pi : In (p, pi) (proc_nodes n root) -> starts_with p root = true.
Proof. intros H. apply proc_nodes_prefix in H. destruct H as (r & ->). apply starts_with_app. Qed.

(* a registered path cannot lie under a path that does not exist in the hierarchy *)
Lemma table_not_under t b root p : cwf t -> consistent_procs t b -> cget t root = None ->
  In p (map fst (b_procs b)) -> starts_with p root = false.
Proof.
  intros Hw [Hss _] Hnone Hin. apply in_map_iff in Hin. destruct Hin as ([p' o] & Heq & Hin).
  cbn [fst] in Heq. subst p'. apply Hss in Hin. apply in_proc_paths in Hin.
  destruct Hin as (pi & Hin & _). apply (no_proc_under t root p pi Hw Hnone Hin).
Qed.

(* generation at a new key (premises: the key is new; what `build` lists under `steps` is a Step).
   That the reported processes are not yet in the table follows from consistency and the new key. *)
Theorem consistent_generate vr t here k d init uid t' rp uid' b b' u g c : cwf t -> consistent_procs t b ->
  cget t here = Some (CDir u g c) -> alookup k c = None ->
  (forall x n, cwf (fst (build x n))) ->
  (forall x n p pi, In (p, pi) (proc_nodes (fst (build x n)) []) -> pi_in_steps pi = true -> pi_step pi = true) ->
  apply_opv vr t here (OpGenerate D k d init) uid = Ok (t', rp, uid') ->
  book_apply b rp = Ok b' -> consistent_procs t' b'.
Proof.
  intros Hw Hc Hd Hl Hbw Hst Hop Hb.
  destruct (generate_inv2 _ _ _ _ _ _ _ _ _ _ Hop) as (r & Es & Ec & Hrp).
  pose proof (cget_fresh_child t here u g c k Hd Hl) as Hnone.
  assert (Hdel : r_deletions rp = []) by (rewrite Hrp; reflexivity).
  assert (Hin_r : forall p pi, In (p, pi) (r_process rp) -> In (p, pi) (proc_nodes (fst r) (here ++ [k]))).
  { intros p pi Hin. rewrite Hrp in Hin. cbn [reports_generated r_process] in Hin.
    apply filter_In in Hin. destruct Hin as [Hin _]. exact Hin. }
  assert (H3 : NoDup (map fst (filter nonstep (r_process rp)))).
  { rewrite Hrp. cbn [reports_generated r_process]. apply nodup_map_filter, nodup_map_filter.
    rewrite (set_value_procs _ _ _ _ _ Es). apply proc_nodes_nodup. apply Hbw. }
  assert (H4 : forall p, In p (map fst (filter nonstep (r_process rp))) -> ~ In p (map fst (b_procs b))).
  { intros p Hin Hin'. apply in_map_iff in Hin. destruct Hin as ([p' pi] & Heq & Hin). cbn [fst] in Heq. subst p'.
    apply in_filter_nonstep in Hin. destruct Hin as [Hin _]. apply Hin_r in Hin. apply reported_under in Hin.
    rewrite (table_not_under t b _ p Hw Hc Hnone Hin') in Hin. discriminate Hin. }
  destruct Hc as [Hss Hnd].
  split; [|apply (book_apply_nodup b rp b' Hnd Hb)].
  intros [q o]. rewrite (book_apply_procs b rp b' q o Hnd (nodup_reports_functional _ H3) Hb).
  rewrite (generate_reports_partial vr t here k d init uid t' rp uid' q o u g c Hw Hd Hl Hbw Hst Hop). split.
  - intros [(Hin & _)|Hex]; [left; apply Hss; exact Hin|right; exact Hex].
  - intros [Hin|Hex]; [left|right; exact Hex]. apply Hss in Hin. split; [exact Hin|].
    split; [rewrite Hdel; intros d0 []|].
    intros Hk. apply (H4 q Hk). change q with (fst (q, o)). apply in_map. exact Hin.
Qed.

(* move (repaired Store.move).  No premise besides success: the moved key does not exist under the target and the
   target is not inside the moved subtree (otherwise apply_op returns Err) *)
Theorem consistent_move t here src tgt uid t' rp uid' b b' : cwf t -> consistent_procs t b ->
  apply_opv vfixed t here (OpMove D src tgt) uid = Ok (t', rp, uid') ->
  book_apply b rp = Ok b' -> consistent_procs t' b'.
Proof.
  intros Hw Hc Hop Hb.
  destruct (move_inv2 _ _ _ _ _ _ _ _ Hop)
    as (u & g & c & node & t1 & Hd & Hl & Hnone & Hdl & Hcs & Hdel & Hrp).
  assert (Hwn : cwf node) by apply (cwf_child u g c src node (cwf_cget t here _ Hw Hd) Hl).
  assert (Hin_r : forall p pi, In (p, pi) (r_process rp) ->
                               In (p, pi) (proc_nodes node (tgt ++ [src])) /\ pi_step pi = false).
  { intros p pi Hin. rewrite Hrp in Hin. apply filter_In in Hin. destruct Hin as [Hin Hs].
    cbn [snd] in Hs. apply negb_true_iff in Hs. auto. }
  assert (H3 : NoDup (map fst (filter nonstep (r_process rp)))).
  { rewrite Hrp. apply nodup_map_filter, nodup_map_filter. apply proc_nodes_nodup. exact Hwn. }
  assert (H4 : forall p, In p (map fst (filter nonstep (r_process rp))) -> ~ In p (map fst (b_procs b))).
  { intros p Hin Hin'. apply in_map_iff in Hin. destruct Hin as ([p' pi] & Heq & Hin). cbn [fst] in Heq. subst p'.
    apply in_filter_nonstep in Hin. destruct Hin as [Hin _]. apply Hin_r in Hin. destruct Hin as [Hin _].
    apply reported_under in Hin.
    rewrite (table_not_under t b _ p Hw Hc Hnone Hin') in Hin. discriminate Hin. }
  destruct Hc as [Hss Hnd].
  split; [|apply (book_apply_nodup b rp b' Hnd Hb)].
  intros [q o]. rewrite (book_apply_procs b rp b' q o Hnd (nodup_reports_functional _ H3) Hb).
  rewrite (move_reports_gen t here src tgt uid t' rp uid' q o Hw Hop). split.
  - intros [(Hin & Hd0 & _)|(pi & Hin & _ & Ho)].
    + left. split; [apply Hss; exact Hin|]. apply Hd0. rewrite Hdel. left. reflexivity.
    + right. exists pi. auto.
  - intros [[Hin Hsw]|(pi & Hin & Ho)].
    + left. apply Hss in Hin. split; [exact Hin|]. split.
      * intros d0 Hd0. rewrite Hdel in Hd0. destruct Hd0 as [<-|[]]. exact Hsw.
      * intros Hk. apply (H4 q Hk). change q with (fst (q, o)). apply in_map. exact Hin.
    + right. exists pi. destruct (Hin_r q pi Hin) as [_ Hs]. auto.
Qed.

End ConsistentKit.

(* ================= the original generate_reports is false for an arbitrary kit ================= *)
(* a kit whose `build` lists a plain Process (is_step() false) in the `steps` dict: Store.insert
   reports it as a step, so it sits in the hierarchy as a process without being reported as one *)
Definition cx_mk_child (u : N) : cnode * N := (CVar u 0%Z DSet, N.succ u).
Definition cx_build (_ : unit) (u : N) : cnode * N :=
  (CProc u {| pi_step := false; pi_in_steps := true; pi_flow := None; pi_obj := 7%N |}, N.succ u).
Definition cx_copy (m : cnode) (u : N) : cnode * N := (m, u).

Theorem generate_reports_counterexample :
  (forall u, proc_nodes (fst (cx_mk_child u)) [] = []) /\
  (forall x n, cwf (fst (cx_build x n))) /\
  exists vr t here k d init uid t' rp uid' q o u g c,
    cwf t /\ cget t here = Some (CDir u g c) /\ alookup k c = None /\
    apply_op cx_mk_child unit cx_build cx_copy vr t here (OpGenerate unit k d init) uid = Ok (t', rp, uid') /\
    ~ (In (q, o) (proc_paths t') <->
       In (q, o) (proc_paths t) \/
       exists pi, In (q, pi) (r_process rp) /\ pi_step pi = false /\ o = pi_obj pi).
Proof.
  split; [intros u; reflexivity|]. split; [intros x n; constructor|].
  exists vfixed, (CDir 0%N false []), [], 0%N, tt, (Lf 0%Z), 1%N.
  eexists. eexists. eexists. exists [0%N], 7%N, 0%N, false, [].
  split; [constructor; [constructor|constructor]|].
  split; [reflexivity|]. split; [reflexivity|]. split; [vm_compute; reflexivity|].
  intros [Hlr _]. cbn in Hlr. destruct Hlr as [[]|(pi & [] & _)]. left. reflexivity.
Qed.

Print Assumptions proc_nodes_dir.
Print Assumptions proc_nodes_cget.
Print Assumptions proc_nodes_nodup.
Print Assumptions proc_nodes_cset_strong.
Print Assumptions proc_nodes_cset.
Print Assumptions proc_nodes_cdel.
Print Assumptions set_value_procs.
Print Assumptions delete_reports.
Print Assumptions generate_reports_partial.
Print Assumptions generate_reports_sound.
Print Assumptions generate_reports_counterexample.
Print Assumptions move_reports.
Print Assumptions move_reports_gen.
Print Assumptions book_apply_procs.
Print Assumptions book_apply_nodup.
Print Assumptions book_apply_procs_append.
Print Assumptions consistent_delete.
Print Assumptions consistent_generate.
Print Assumptions consistent_move.
