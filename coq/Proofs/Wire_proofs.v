(* Proofs about Model/Wire.v (C06, C07, C15). *)
From Coq Require Import List NArith ZArith Bool Lia.
From Viv Require Import Base.Assoc Base.Tree Model.Paths Model.Wire Proofs.Paths_proofs.
Import ListNotations.

(* a one-variable update: nested dicts along vp ending in the value *)
Fixpoint usingle (vp : list key) (u : utree) : utree :=
  match vp with
  | [] => u
  | k :: r => UD [(k, usingle r u)]
  end.

Definition usingle_top (vp : list key) (u : utree) : list (key * utree) :=
  match usingle vp u with UD c => c | _ => [] end.

Fixpoint vget (v : vtree) (vp : list key) : option vtree :=
  match vp with
  | [] => Some v
  | k :: r => match v with
              | VNode c => match alookup k c with Some x => vget x r | None => None end
              | VRef _ => None
              end
  end.

(* ---- the well-formed domain of schema / topology pairs (DESIGN.md section 5, wiring family) ---- *)
(* plain schema below a tuple path: variables and nested dicts of variables, no glob, no '**', unique keys *)
Fixpoint plain_schema (s : schema) : bool :=
  match s with
  | SVar _ => true
  | SAll => false
  | SNode _ c =>
    (fix go (c : list (pkey * schema)) : bool :=
       match c with
       | [] => true
       | (PK k, sub) :: r => plain_schema sub && negb (existsb (fun kv => pkey_eqb (fst kv) (PK k)) r) && go r
       | (PStar, _) :: _ => false
       end) c
  end.

(* every declared key has a topology entry; entries are tuple paths for variables / plain sub-schemas, or
   dicts (with '_path': any listed subset; without: every declared sub-key listed); no '*' entries *)
Fixpoint wf_pair (s : schema) (tp : list (pkey * topo)) (need_all : bool) {struct s} : bool :=
  match s with
  | SNode _ c =>
    (fix go (c : list (pkey * schema)) : bool :=
       match c with
       | [] => true
       | (PK k, sub) :: r =>
         negb (existsb (fun kv => pkey_eqb (fst kv) (PK k)) r) &&
         match plook (PK k) tp with
         | Some (TPath _) => plain_schema sub
         | Some (TDict p' c') =>
           match sub with
           | SNode _ _ => wf_pair sub c' (match p' with Some _ => false | None => true end)
           | _ => false
           end
         | None => negb need_all && plain_schema sub
         end && go r
       | (PStar, _) :: _ => false
       end) c
  | _ => false
  end.

(* the store realises the schema below node a: every declared variable is a leaf where the identity
   wiring expects it *)
Fixpoint realised (t : store) (a : list key) (s : schema) : Prop :=
  match s with
  | SVar _ => is_leaf_at t a = true
  | SAll => True
  | SNode _ c =>
    is_leaf_at t a = false /\
    (fix go (c : list (pkey * schema)) : Prop :=
       match c with
       | [] => True
       | (PK k, sub) :: r => realised t (a ++ [k]) sub /\ go r
       | (PStar, _) :: r => go r
       end) c
  end.

(* PROOFS GO HERE *)

(* vp leads through PK keys of the schema to a declared variable *)
Fixpoint var_path (s : schema) (vp : list key) : bool :=
  match s, vp with
  | SVar _, [] => true
  | SNode _ c, k :: r => match plook (PK k) c with Some sub => var_path sub r | None => false end
  | _, _ => false
  end.

(* ================= small facts ================= *)

Lemma abs_keys_dn p : abs_keys (dn p) = Ok p.
Proof.
  induction p as [|k p IH]; cbn; auto. unfold dn in IH. rewrite IH. reflexivity.
Qed.

Lemma usingle_app p q u : usingle (p ++ q) u = usingle p (usingle q u).
Proof. induction p as [|k p IH]; cbn; auto. now rewrite IH. Qed.

Lemma usingle_cons_UD k r u : usingle (k :: r) u = UD (usingle_top (k :: r) u).
Proof. reflexivity. Qed.

Lemma usingle_ne_UD r u : r <> [] -> usingle r u = UD (usingle_top r u).
Proof. destruct r as [|k r]; [congruence|reflexivity]. Qed.

Lemma usingle_top_app p q u : usingle_top (p ++ q) u = usingle_top p (usingle q u).
Proof. unfold usingle_top. now rewrite usingle_app. Qed.

Lemma usingle_top_nil_UD d : usingle_top [] (UD d) = d.
Proof. reflexivity. Qed.

(* update_in on the empty dict builds the spine *)
Lemma uupdate_in_nil p : forall f u, f (UD []) = Ok u -> (p = [] -> exists d, u = UD d) ->
  uupdate_in [] p f = Ok (usingle_top p u).
Proof.
  induction p as [|h r IH]; intros f u Hf Hp.
  - destruct Hp as [d ->]; auto. cbn. rewrite Hf. reflexivity.
  - destruct r as [|h' r'].
    + cbn. rewrite Hf. reflexivity.
    + change (uupdate_in [] (h :: h' :: r') f)
        with (rbind (uupdate_in [] (h' :: r') f) (fun dc' => Ok (aset h (UD dc') []))).
      rewrite (IH f u Hf) by discriminate. reflexivity.
Qed.

Lemma uupdate_in_empty_single inner u : inner <> [] ->
  uupdate_in [] inner (fun _ => Ok u) = Ok (usingle_top inner u).
Proof. intros Hne. apply uupdate_in_nil; auto. intros E. congruence. Qed.

(* update_in on a spine that already exists *)
Lemma uupdate_in_spine p : forall f d d', f (UD d) = Ok (UD d') ->
  uupdate_in (usingle_top p (UD d)) p f = Ok (usingle_top p (UD d')).
Proof.
  induction p as [|h r IH]; intros f d d' Hf.
  - cbn. rewrite Hf. reflexivity.
  - destruct r as [|h' r'].
    + cbn. rewrite N.eqb_refl. rewrite Hf. cbn. rewrite ?N.eqb_refl. reflexivity.
    + change (usingle_top (h :: h' :: r') (UD d)) with [(h, UD (usingle_top (h' :: r') (UD d)))].
      change (uupdate_in [(h, UD (usingle_top (h' :: r') (UD d)))] (h :: h' :: r') f)
        with (match (match alookup h [(h, UD (usingle_top (h' :: r') (UD d)))] with Some s => s | None => UD [] end) with
              | UD dc => rbind (uupdate_in dc (h' :: r') f) (fun dc' => Ok (aset h (UD dc') [(h, UD (usingle_top (h' :: r') (UD d)))]))
              | _ => Err ETypeThroughLeaf
              end).
      cbn [alookup]. rewrite N.eqb_refl. rewrite (IH f d d' Hf). cbn. rewrite ?N.eqb_refl. reflexivity.
Qed.

Lemma dmmu_nil_single b n k v : dmmu b (S n) [] [(k, v)] = [(k, v)].
Proof. reflexivity. Qed.

Lemma removelast_last_N (l : list key) : l <> [] -> removelast l ++ [last l 0%N] = l.
Proof. intros H. symmetry. now apply app_removelast_last. Qed.

(* placing a one-variable update into the empty inverse *)
Lemma place_single fixed b rest z :
  place fixed [] b (usingle rest (UV z)) = Ok (usingle_top (b ++ rest) (UV z)).
Proof.
  destruct rest as [|k rest].
  - rewrite app_nil_r. cbn [usingle]. unfold place, place_mode.
    destruct b as [|b0 b']; [reflexivity|].
    set (b := b0 :: b'). assert (Hb : b <> []) by discriminate.
    destruct fixed; cbn [Nat.eqb].
    + rewrite (uupdate_in_nil (removelast b) _ (UD [(last b 0%N, UV z)])).
      * rewrite <- (removelast_last_N b Hb) at 3. rewrite usingle_top_app. reflexivity.
      * reflexivity.
      * intros _. eauto.
    + now apply uupdate_in_empty_single.
  - rewrite usingle_cons_UD. unfold place, place_mode.
    rewrite (uupdate_in_nil b _ (UD (usingle_top (k :: rest) (UV z)))).
    + rewrite usingle_top_app. reflexivity.
    + destruct fixed; reflexivity.
    + intros _. eauto.
Qed.

(* ================= the read view ================= *)

(* schema children: all keys are PK and unique *)
Fixpoint keys_ok {X} (c : list (pkey * X)) : bool :=
  match c with
  | [] => true
  | (PK k, _) :: r => negb (existsb (fun kv => pkey_eqb (fst kv) (PK k)) r) && keys_ok r
  | (PStar, _) :: _ => false
  end.

Lemma existsb_plook {X} pk (c : list (pkey * X)) :
  existsb (fun kv => pkey_eqb (fst kv) pk) c = false <-> plook pk c = None.
Proof.
  induction c as [|[pk' x] r IH]; cbn; [tauto|].
  destruct (pkey_eqb pk' pk); cbn; [split; discriminate|exact IH].
Qed.

Lemma pkey_eqb_PK k k' : pkey_eqb (PK k) (PK k') = N.eqb k k'.
Proof. reflexivity. Qed.

Lemma plain_node_inv o c :
  plain_schema (SNode o c) = true ->
  keys_ok c = true /\ forall k sub, plook (PK k) c = Some sub -> plain_schema sub = true.
Proof.
  cbn [plain_schema]. induction c as [|[pk sub0] r IH]; intros H.
  - split; auto. cbn. discriminate.
  - destruct pk as [k0|]; [|discriminate].
    apply andb_true_iff in H as [H H3]. apply andb_true_iff in H as [H1 H2].
    destruct (IH H3) as [Hk Hs]. split.
    + cbn. rewrite H2. exact Hk.
    + intros k sub. cbn [plook]. rewrite pkey_eqb_PK. destruct (N.eqb k0 k).
      * intros [= <-]. exact H1.
      * apply Hs.
Qed.

Definition wf_entry (tp : list (pkey * topo)) (need_all : bool) (k : key) (sub : schema) : bool :=
  match plook (PK k) tp with
  | Some (TPath _) => plain_schema sub
  | Some (TDict p' c') =>
    match sub with
    | SNode _ _ => wf_pair sub c' (match p' with Some _ => false | None => true end)
    | _ => false
    end
  | None => negb need_all && plain_schema sub
  end.

Lemma wf_node_inv o c tp na :
  wf_pair (SNode o c) tp na = true ->
  keys_ok c = true /\ forall k sub, plook (PK k) c = Some sub -> wf_entry tp na k sub = true.
Proof.
  cbn [wf_pair]. induction c as [|[pk sub0] r IH]; intros H.
  - split; auto. cbn. discriminate.
  - destruct pk as [k0|]; [|discriminate].
    apply andb_true_iff in H as [H H3]. apply andb_true_iff in H as [H1 H2].
    destruct (IH H3) as [Hk Hs]. split.
    + cbn. rewrite H1. exact Hk.
    + intros k sub. cbn [plook]. rewrite pkey_eqb_PK. destruct (N.eqb k0 k) eqn:E.
      * apply N.eqb_eq in E. subst k0.
        intros [= <-]. exact H2.
      * apply Hs.
Qed.

(* where port k is wired to, and the topology below it *)
Definition entry_path (tp : list (pkey * topo)) (k : key) : list seg :=
  match plook (PK k) tp with
  | Some (TDict (Some q) _) => q
  | Some (TDict None _) => []
  | Some (TPath p) => p
  | None => [Dn k]
  end.

Definition entry_sub (tp : list (pkey * topo)) (k : key) : list (pkey * topo) :=
  match plook (PK k) tp with Some (TDict _ c') => c' | _ => [] end.

Definition vgo (t : store) (a : list key) (tp : list (pkey * topo)) :=
  fix go (c : list (pkey * schema)) (acc : list (key * vtree)) : res vtree :=
       match c with
       | [] => Ok (VNode acc)
       | (pk, sub) :: r =>
         let step : res (list (key * vtree)) :=
           match pk with
           | PStar =>
             let nt : res (list key * list (pkey * topo)) :=
               match plook PStar tp with
               | Some (TDict p' c') => rbind (walk t a (match p' with Some q => q | None => [] end)) (fun b => Ok (b, c'))
               | Some (TPath p) => rbind (walk t a p) (fun b => Ok (b, []))
               | None => Ok (a, [])
               end in
             rbind nt (fun bc =>
               fold_left (fun acc' ch =>
                            rbind acc' (fun l =>
                              rbind (view t (fst bc ++ [ch]) sub (snd bc)) (fun v => Ok (aset ch v l))))
                         (child_keys t (fst bc)) (Ok acc))
           | PK k =>
             match plook pk tp with
             | Some (TDict p' c') =>
                 rbind (walk t a (match p' with Some q => q | None => [] end)) (fun b =>
                 rbind (view t b sub c') (fun v => Ok (aset k v acc)))
             | Some (TPath p) =>
                 rbind (walk t a p) (fun b => rbind (view t b sub []) (fun v => Ok (aset k v acc)))
             | None =>
                 rbind (walk t a [Dn k]) (fun b => rbind (view t b sub []) (fun v => Ok (aset k v acc)))
             end
           end in
         match step with Ok acc' => go r acc' | Err e => Err e end
       end.

Lemma view_node t a c tp :
  view t a (SNode false c) tp = if is_leaf_at t a then Ok (VRef a) else vgo t a tp c [].
Proof. reflexivity. Qed.

Lemma vgo_nil t a tp acc : vgo t a tp [] acc = Ok (VNode acc).
Proof. reflexivity. Qed.

Lemma vgo_PK t a tp k sub r acc :
  vgo t a tp ((PK k, sub) :: r) acc =
  match rbind (walk t a (entry_path tp k)) (fun b =>
        rbind (view t b sub (entry_sub tp k)) (fun v => Ok (aset k v acc))) with
  | Ok acc' => vgo t a tp r acc'
  | Err e => Err e
  end.
Proof.
  unfold entry_path, entry_sub.
  change (vgo t a tp ((PK k, sub) :: r) acc) with
    (match (match plook (PK k) tp with
             | Some (TDict p' c') =>
                 rbind (walk t a (match p' with Some q => q | None => [] end)) (fun b =>
                 rbind (view t b sub c') (fun v => Ok (aset k v acc)))
             | Some (TPath p) =>
                 rbind (walk t a p) (fun b => rbind (view t b sub []) (fun v => Ok (aset k v acc)))
             | None =>
                 rbind (walk t a [Dn k]) (fun b => rbind (view t b sub []) (fun v => Ok (aset k v acc)))
             end) with Ok acc' => vgo t a tp r acc' | Err e => Err e end).
  destruct (plook (PK k) tp) as [[p|[q|] c']|]; reflexivity.
Qed.

Lemma vgo_spec t a tp c : forall acc v, keys_ok c = true -> vgo t a tp c acc = Ok v ->
  exists l, v = VNode l /\
    forall k, match plook (PK k) c with
              | Some sub => exists b x, walk t a (entry_path tp k) = Ok b /\
                                        view t b sub (entry_sub tp k) = Ok x /\ alookup k l = Some x
              | None => alookup k l = alookup k acc
              end.
Proof.
  induction c as [|[pk sub0] r IH]; intros acc v Hk Hv.
  - rewrite vgo_nil in Hv. injection Hv as <-. exists acc. split; auto. intros k. reflexivity.
  - destruct pk as [k0|]; [|discriminate]. cbn [keys_ok] in Hk.
    apply andb_true_iff in Hk as [Hk1 Hk2]. apply negb_true_iff in Hk1. apply existsb_plook in Hk1.
    rewrite vgo_PK in Hv.
    destruct (walk t a (entry_path tp k0)) as [b0|e] eqn:Ew; [|discriminate]. cbn [rbind] in Hv.
    destruct (view t b0 sub0 (entry_sub tp k0)) as [x0|e] eqn:Ev; [|discriminate]. cbn [rbind] in Hv.
    destruct (IH _ _ Hk2 Hv) as [l [-> Hl]]. exists l. split; auto.
    intros k. cbn [plook]. rewrite pkey_eqb_PK. destruct (N.eqb k0 k) eqn:E.
    + apply N.eqb_eq in E. subst k. specialize (Hl k0). rewrite Hk1 in Hl.
      exists b0, x0. repeat split; auto. rewrite Hl. apply alookup_aset_eq.
    + apply N.eqb_neq in E. specialize (Hl k). destruct (plook (PK k) r) as [sub|]; auto.
      rewrite Hl. now apply alookup_aset_neq.
Qed.

Lemma vgo_keys t a tp c : forall acc l, keys_ok c = true -> vgo t a tp c acc = Ok (VNode l) ->
  (forall k, In k (akeys acc) -> plook (PK k) c = None) ->
  map fst l = map fst acc ++ flat_map (fun kv => match fst kv with PK k => [k] | PStar => [] end) c.
Proof.
  induction c as [|[pk sub0] r IH]; intros acc l Hk Hv Hacc.
  - rewrite vgo_nil in Hv. injection Hv as <-. cbn. now rewrite app_nil_r.
  - destruct pk as [k0|]; [|discriminate]. cbn [keys_ok] in Hk.
    apply andb_true_iff in Hk as [Hk1 Hk2]. apply negb_true_iff in Hk1. apply existsb_plook in Hk1.
    rewrite vgo_PK in Hv.
    destruct (walk t a (entry_path tp k0)) as [b0|e] eqn:Ew; [|discriminate]. cbn [rbind] in Hv.
    destruct (view t b0 sub0 (entry_sub tp k0)) as [x0|e] eqn:Ev; [|discriminate]. cbn [rbind] in Hv.
    assert (Hn : alookup k0 acc = None).
    { apply alookup_None_notin. intros Hin. apply Hacc in Hin. cbn in Hin. rewrite N.eqb_refl in Hin. discriminate. }
    rewrite (IH _ _ Hk2 Hv).
    + fold (akeys (aset k0 x0 acc)). rewrite (akeys_aset_notin _ _ _ Hn). unfold akeys. cbn.
      now rewrite <- app_assoc.
    + intros k Hin. apply akeys_aset_incl in Hin as [->|Hin]; auto.
      apply Hacc in Hin. cbn in Hin. destruct (N.eqb k0 k); [discriminate|exact Hin].
Qed.

(* ---- C07 ---- *)
Theorem view_keys t a c tp l : wf_pair (SNode false c) tp true = true ->
  view t a (SNode false c) tp = Ok (VNode l) ->
  map fst l = flat_map (fun kv => match fst kv with PK k => [k] | PStar => [] end) c.
Proof.
  intros Hwf Hv. rewrite view_node in Hv. destruct (is_leaf_at t a); [discriminate|].
  apply wf_node_inv in Hwf as [Hk _].
  rewrite (vgo_keys _ _ _ _ _ _ Hk Hv); auto. intros k [].
Qed.

Theorem view_output t a c tp : is_leaf_at t a = false -> view t a (SNode true c) tp = Ok (VNode []).
Proof. intros H. cbn. rewrite H. reflexivity. Qed.

Theorem view_all t a tp : view t a SAll tp = Ok (VRef a).
Proof. cbn. destruct (is_leaf_at t a); reflexivity. Qed.

Lemma view_SVar t a d tp : view t a (SVar d) tp = if is_leaf_at t a then Ok (VRef a) else Err EInvalidPath.
Proof. reflexivity. Qed.

Lemma view_out t a c tp : view t a (SNode true c) tp = if is_leaf_at t a then Ok (VRef a) else Ok (VNode []).
Proof. reflexivity. Qed.

Lemma walk_Dn (t : store) (b : list key) k b2 : walk t b [Dn k] = Ok b2 -> b2 = b ++ [k].
Proof. cbn. destruct (node_at t (b ++ [k])); [|discriminate]. now intros [= <-]. Qed.

Lemma realised_node_inv t a o c : realised t a (SNode o c) ->
  is_leaf_at t a = false /\ forall k sub, keys_ok c = true -> plook (PK k) c = Some sub -> realised t (a ++ [k]) sub.
Proof.
  cbn [realised]. intros [Hl Hgo]. split; auto.
  induction c as [|[pk sub0] r IH]; intros k sub Hk Hp; [discriminate|].
  destruct pk as [k0|]; [|discriminate]. destruct Hgo as [H0 Hgo].
  cbn [keys_ok] in Hk. apply andb_true_iff in Hk as [_ Hk2].
  cbn [plook] in Hp. rewrite pkey_eqb_PK in Hp. destruct (N.eqb k0 k) eqn:E.
  - apply N.eqb_eq in E. subst k0. injection Hp as <-. exact H0.
  - eapply IH; eauto.
Qed.

(* the view of a node (dict level): the entry of a declared key *)
Lemma view_node_get t a o c tp v k rest r :
  keys_ok c = true -> view t a (SNode o c) tp = Ok v -> vget v (k :: rest) = Some (VRef r) ->
  o = false /\ is_leaf_at t a = false /\
  exists sub b x, plook (PK k) c = Some sub /\ walk t a (entry_path tp k) = Ok b /\
                  view t b sub (entry_sub tp k) = Ok x /\ vget x rest = Some (VRef r).
Proof.
  intros Hk Hv Hg. destruct o.
  - rewrite view_out in Hv. destruct (is_leaf_at t a); injection Hv as <-; discriminate.
  - rewrite view_node in Hv. destruct (is_leaf_at t a); [injection Hv as <-; discriminate|].
    destruct (vgo_spec _ _ _ _ _ _ Hk Hv) as [l [-> Hl]]. specialize (Hl k).
    cbn [vget] in Hg. repeat split; auto.
    destruct (plook (PK k) c) as [sub|].
    + destruct Hl as [b [x [Hw [Hx Ha]]]]. rewrite Ha in Hg. exists sub, b, x. auto.
    + rewrite Hl in Hg. discriminate.
Qed.

(* below a tuple path the wiring is the identity *)
Lemma view_plain_var t : forall vp s b v r, plain_schema s = true -> view t b s [] = Ok v ->
  vget v vp = Some (VRef r) -> var_path s vp = true -> r = b ++ vp.
Proof.
  induction vp as [|k rest IH]; intros s b v r Hp Hv Hg Hvp.
  - cbn in Hg. injection Hg as ->. destruct s as [d| |o c]; try discriminate.
    rewrite view_SVar in Hv. destruct (is_leaf_at t b); [|discriminate].
    injection Hv as <-. now rewrite app_nil_r.
  - destruct s as [d| |o c]; try discriminate.
    apply plain_node_inv in Hp as [Hk Hs].
    destruct (view_node_get _ _ _ _ _ _ _ _ _ Hk Hv Hg) as [-> [Hl [sub [b2 [x [Hpl [Hw [Hx Hgx]]]]]]]].
    cbn [var_path] in Hvp. rewrite Hpl in Hvp.
    unfold entry_path, entry_sub in *. cbn [plook] in *. apply walk_Dn in Hw. subst b2.
    rewrite (IH _ _ _ _ (Hs _ _ Hpl) Hx Hgx Hvp). now rewrite <- app_assoc.
Qed.

Theorem view_plain_refs t b s v : plain_schema s = true -> realised t b s -> view t b s [] = Ok v ->
  forall vp r, vget v vp = Some (VRef r) -> r = b ++ vp /\ var_path s vp = true.
Proof.
  intros Hp Hr Hv vp. revert s b v Hp Hr Hv.
  induction vp as [|k rest IH]; intros s b v Hp Hr Hv r Hg.
  - cbn in Hg. injection Hg as ->. destruct s as [d| |o c]; try discriminate.
    + rewrite view_SVar in Hv. destruct (is_leaf_at t b); [|discriminate].
      injection Hv as <-. now rewrite app_nil_r.
    + exfalso. destruct Hr as [Hl _]. destruct o.
      * rewrite view_out, Hl in Hv. discriminate.
      * rewrite view_node, Hl in Hv. apply plain_node_inv in Hp as [Hk _].
        destruct (vgo_spec _ _ _ _ _ _ Hk Hv) as [l [E _]]. discriminate.
  - destruct s as [d| |o c]; try discriminate.
    + exfalso. rewrite view_SVar in Hv. destruct (is_leaf_at t b); [|discriminate].
      injection Hv as <-. discriminate.
    + apply plain_node_inv in Hp as [Hk Hs].
      destruct (view_node_get _ _ _ _ _ _ _ _ _ Hk Hv Hg) as [-> [Hl [sub [b2 [x [Hpl [Hw [Hx Hgx]]]]]]]].
      unfold entry_path, entry_sub in *. cbn [plook] in *. apply walk_Dn in Hw. subst b2.
      apply realised_node_inv in Hr as [_ Hr].
      destruct (IH _ _ _ (Hs _ _ Hpl) (Hr _ _ Hk Hpl) Hx _ Hgx) as [-> Hvp].
      split; [now rewrite <- app_assoc|]. cbn [var_path]. now rewrite Hpl.
Qed.

(* ================= the write path ================= *)

(* a topology as a Python dict: keys unique at every level, no '*' entry (the wiring family's domain) *)
Fixpoint topo_ok (x : topo) : bool :=
  match x with
  | TPath _ => true
  | TDict _ c =>
    (fix go (c : list (pkey * topo)) : bool :=
       match c with
       | [] => true
       | (PK k, sub) :: r => topo_ok sub && negb (existsb (fun kv => pkey_eqb (fst kv) (PK k)) r) && go r
       | (PStar, _) :: _ => false
       end) c
  end.

Definition tp_ok (tp : list (pkey * topo)) : bool := topo_ok (TDict None tp).

Lemma tp_ok_inv tp : tp_ok tp = true ->
  keys_ok tp = true /\ forall k sub, plook (PK k) tp = Some sub -> topo_ok sub = true.
Proof.
  unfold tp_ok. cbn [topo_ok]. induction tp as [|[pk sub0] r IH]; intros H.
  - split; auto. cbn. discriminate.
  - destruct pk as [k0|]; [|discriminate].
    apply andb_true_iff in H as [H H3]. apply andb_true_iff in H as [H1 H2].
    destruct (IH H3) as [Hk Hs]. split.
    + cbn. rewrite H2. exact Hk.
    + intros k sub. cbn [plook]. rewrite pkey_eqb_PK. destruct (N.eqb k0 k).
      * intros [= <-]. exact H1.
      * apply Hs.
Qed.

Lemma topo_ok_dict p' c' : topo_ok (TDict p' c') = tp_ok c'.
Proof. reflexivity. Qed.

Lemma keys_ok_no_star {X} (c : list (pkey * X)) : keys_ok c = true -> plook PStar c = None.
Proof.
  induction c as [|[pk x] r IH]; intros H; auto. destruct pk as [k|]; [|discriminate].
  cbn in H. apply andb_true_iff in H as [_ H]. cbn. auto.
Qed.

(* the loop over the listed entries of a topology dict *)
Definition lgo (fixed : bool) (inner : list seg) (cu : list (key * utree)) :=
  fix go (c : list (pkey * topo)) (inv : list (key * utree)) : res (list (key * utree)) :=
           match c with
           | [] => Ok inv
           | (PK k, sub) :: r =>
             match alookup k cu with
             | Some v => match inv_topo fixed false inner v sub inv with
                         | Ok inv' => go r inv'
                         | Err e => Err e
                         end
             | None => go r inv
             end
           | (PStar, sub) :: r =>
             let stepped : res (list (key * utree)) :=
               match sub with
               | TPath p =>
                 fold_left (fun acc kv =>
                              rbind acc (fun inv0 =>
                                rbind (abs_keys (normalize (inner ++ p ++ [Dn (fst kv)]))) (fun tgt =>
                                  place_mode (if fixed then 1%nat else 2%nat) inv0 tgt (snd kv)))) cu (Ok inv)
               | TDict q'' _ =>
                 let inner2 := match q'' with Some q => normalize (inner ++ q) | None => inner end in
                 fold_left (fun acc kv =>
                              rbind acc (fun inv0 => inv_topo fixed true (inner2 ++ [Dn (fst kv)]) (snd kv) sub inv0))
                           cu (Ok inv)
               end in
             match stepped with Ok inv' => go r inv' | Err e => Err e end
           end.

Lemma inv_topo_path fixed skip outer value p inverse :
  inv_topo fixed skip outer value (TPath p) inverse =
  rbind (abs_keys (normalize (outer ++ p))) (fun inner => place fixed inverse inner value).
Proof. reflexivity. Qed.

Lemma inv_topo_dict fixed outer cu p' c' inverse :
  inv_topo fixed false outer (UD cu) (TDict p' c') inverse =
  let inner := match p' with Some q => normalize (outer ++ q) | None => outer end in
  let listed := lgo fixed inner cu c' inverse in
  match p', has_star c' with
  | Some _, false =>
    rbind listed (fun inv =>
      fold_left (fun acc kv =>
                   rbind acc (fun inv0 =>
                     match plook (PK (fst kv)) c' with
                     | Some _ => Ok inv0
                     | None => rbind (abs_keys (normalize (inner ++ [Dn (fst kv)]))) (fun tgt =>
                                 place fixed inv0 tgt (snd kv))
                     end)) cu (Ok inv))
  | _, _ => listed
  end.
Proof. reflexivity. Qed.

(* for a one-key update, only the entry of that key fires *)
Lemma lgo_miss fixed inner k val c : forall inv, keys_ok c = true -> plook (PK k) c = None ->
  lgo fixed inner [(k, val)] c inv = Ok inv.
Proof.
  induction c as [|[pk sub0] r IH]; intros inv Hk Hp; [reflexivity|].
  destruct pk as [k0|]; [|discriminate]. cbn [keys_ok] in Hk. apply andb_true_iff in Hk as [_ Hk].
  cbn [plook] in Hp. rewrite pkey_eqb_PK in Hp. destruct (N.eqb k0 k) eqn:E; [discriminate|].
  change (lgo fixed inner [(k, val)] ((PK k0, sub0) :: r) inv) with
    (match alookup k0 [(k, val)] with
     | Some v => match inv_topo fixed false inner v sub0 inv with
                 | Ok inv' => lgo fixed inner [(k, val)] r inv'
                 | Err e => Err e
                 end
     | None => lgo fixed inner [(k, val)] r inv
     end).
  cbn [alookup]. rewrite N.eqb_sym, E. auto.
Qed.

Lemma lgo_hit fixed inner k val c : forall inv sub, keys_ok c = true -> plook (PK k) c = Some sub ->
  lgo fixed inner [(k, val)] c inv = inv_topo fixed false inner val sub inv.
Proof.
  induction c as [|[pk sub0] r IH]; intros inv sub Hk Hp; [discriminate|].
  destruct pk as [k0|]; [|discriminate]. cbn [keys_ok] in Hk. apply andb_true_iff in Hk as [Hk1 Hk].
  apply negb_true_iff in Hk1. apply existsb_plook in Hk1.
  change (lgo fixed inner [(k, val)] ((PK k0, sub0) :: r) inv) with
    (match alookup k0 [(k, val)] with
     | Some v => match inv_topo fixed false inner v sub0 inv with
                 | Ok inv' => lgo fixed inner [(k, val)] r inv'
                 | Err e => Err e
                 end
     | None => lgo fixed inner [(k, val)] r inv
     end).
  cbn [plook] in Hp. rewrite pkey_eqb_PK in Hp. cbn [alookup]. rewrite N.eqb_sym.
  destruct (N.eqb k0 k) eqn:E.
  - apply N.eqb_eq in E. subst k0. injection Hp as <-.
    destruct (inv_topo fixed false inner val sub0 inv) as [inv'|e]; auto.
    now apply lgo_miss.
  - auto.
Qed.

Lemma normalize_dn_snoc b k : normalize (dn b ++ [Dn k]) = dn (b ++ [k]).
Proof. change [Dn k] with (dn [k]). rewrite <- dn_app. apply normalize_dn. Qed.

(* ---- C06: the generalised read/write symmetry, one dict level at a time ---- *)
Lemma rw_dict fixed (t : store) z : forall vp o c c' p' a b v r,
  tp_ok c' = true ->
  wf_pair (SNode o c) c' (match p' with Some _ => false | None => true end) = true ->
  var_path (SNode o c) vp = true ->
  walk t a (match p' with Some q => q | None => [] end) = Ok b ->
  view t b (SNode o c) c' = Ok v -> vget v vp = Some (VRef r) ->
  inv_topo fixed false (dn a) (usingle vp (UV z)) (TDict p' c') [] = Ok (usingle_top r (UV z)).
Proof.
  induction vp as [|k rest IH]; intros o c c' p' a b v r Hok Hwf Hvp Hw Hv Hg; [discriminate|].
  destruct (wf_node_inv _ _ _ _ Hwf) as [Hk Hent].
  destruct (view_node_get _ _ _ _ _ _ _ _ _ Hk Hv Hg) as [-> [Hl [sub [b2 [x [Hpl [Hw2 [Hx Hgx]]]]]]]].
  cbn [var_path] in Hvp. rewrite Hpl in Hvp.
  specialize (Hent _ _ Hpl). unfold wf_entry in Hent.
  destruct (tp_ok_inv _ Hok) as [Hkc' Hsubok].
  assert (Hinner : match p' with Some q => normalize (dn a ++ q) | None => dn a end = dn b).
  { destruct p' as [q|]; [exact (walk_is_lexical t _ _ _ Hw)|]. cbn in Hw. now injection Hw as ->. }
  cbn [usingle]. rewrite inv_topo_dict. cbv zeta. rewrite Hinner.
  unfold has_star. rewrite (keys_ok_no_star _ Hkc').
  unfold entry_path, entry_sub in Hw2, Hx.
  destruct (plook (PK k) c') as [[p|q'' c'']|] eqn:Ec'.
  - (* a tuple path *)
    assert (Hlisted : lgo fixed (dn b) [(k, usingle rest (UV z))] c' [] = Ok (usingle_top r (UV z))).
    { rewrite (lgo_hit _ _ _ _ _ _ _ Hkc' Ec'). rewrite inv_topo_path.
      rewrite (walk_is_lexical _ _ _ _ Hw2), abs_keys_dn. cbn [rbind].
      rewrite place_single. now rewrite (view_plain_var _ _ _ _ _ _ Hent Hx Hgx Hvp). }
    rewrite Hlisted. destruct p' as [q|]; auto.
    cbn [rbind fold_left fst]. rewrite Ec'. reflexivity.
  - (* a nested dict *)
    destruct sub as [d| |o2 c2]; try discriminate.
    assert (Hlisted : lgo fixed (dn b) [(k, usingle rest (UV z))] c' [] = Ok (usingle_top r (UV z))).
    { rewrite (lgo_hit _ _ _ _ _ _ _ Hkc' Ec').
      apply (IH o2 c2 c'' q'' b b2 x r); auto.
      exact (Hsubok _ _ Ec'). }
    rewrite Hlisted. destruct p' as [q|]; auto.
    cbn [rbind fold_left fst]. rewrite Ec'. reflexivity.
  - (* not listed: '_path' dicts map the sub-key to itself *)
    destruct p' as [q|]; [|discriminate]. cbn [negb andb] in Hent.
    rewrite (lgo_miss _ _ _ _ _ _ Hkc' Ec').
    cbn [rbind fold_left fst snd]. rewrite Ec'.
    apply walk_Dn in Hw2. subst b2.
    rewrite normalize_dn_snoc, abs_keys_dn. cbn [rbind].
    rewrite place_single. now rewrite (view_plain_var _ _ _ _ _ _ Hent Hx Hgx Hvp).
Qed.

Lemma rw_symmetry_gen fixed t a c tp v vp r z :
  tp_ok tp = true ->
  wf_pair (SNode false c) tp true = true -> var_path (SNode false c) vp = true ->
  view t a (SNode false c) tp = Ok v -> vget v vp = Some (VRef r) ->
  invert fixed a (usingle_top vp (UV z)) tp = Ok (usingle_top r (UV z)).
Proof.
  intros Hok Hwf Hvp Hv Hg. unfold invert.
  destruct vp as [|k rest]; [discriminate|]. rewrite <- usingle_cons_UD.
  apply (rw_dict fixed t z (k :: rest) false c tp None a a v r); auto.
Qed.

(* ---- C06: read/write symmetry ---- *)
(* As given (without tp_ok) the statement is false: wf_pair does not stop the topology LIST from
   carrying a key twice or a '*' entry, which view ignores and inverse_topology obeys; see
   rw_symmetry_counterexample_dup / _star below.  Original statement:
   Theorem rw_symmetry t a c tp v vp r z :
     wf_pair (SNode false c) tp true = true -> var_path (SNode false c) vp = true ->
     view t a (SNode false c) tp = Ok v -> vget v vp = Some (VRef r) ->
     invert true a (usingle_top vp (UV z)) tp = Ok (usingle_top r (UV z)).                     *)
Theorem rw_symmetry_partial t a c tp v vp r z :
  tp_ok tp = true ->
  wf_pair (SNode false c) tp true = true -> var_path (SNode false c) vp = true ->
  view t a (SNode false c) tp = Ok v -> vget v vp = Some (VRef r) ->
  invert true a (usingle_top vp (UV z)) tp = Ok (usingle_top r (UV z)).
Proof. apply rw_symmetry_gen. Qed.

Theorem rw_symmetry_pinned_single_partial t a c tp v vp r z :
  tp_ok tp = true ->
  wf_pair (SNode false c) tp true = true -> var_path (SNode false c) vp = true ->
  view t a (SNode false c) tp = Ok v -> vget v vp = Some (VRef r) ->
  invert false a (usingle_top vp (UV z)) tp = Ok (usingle_top r (UV z)).
Proof. apply rw_symmetry_gen. Qed.

(* the original statements are refuted by topologies that are not Python dicts (a key twice) or carry '*' *)
Definition cx_decl : vdecl := {| dd := None; dv := None; du := None; ds := None |}.
Definition cx_store : store := Nd [(5%N, Lf empty_leaf); (6%N, Lf empty_leaf); (7%N, Nd [])].

Lemma rw_symmetry_counterexample_dup : exists t a c tp v vp r z,
  wf_pair (SNode false c) tp true = true /\ var_path (SNode false c) vp = true /\
  view t a (SNode false c) tp = Ok v /\ vget v vp = Some (VRef r) /\
  invert true a (usingle_top vp (UV z)) tp = Ok [(5%N, UV z); (6%N, UV z)] /\
  invert true a (usingle_top vp (UV z)) tp <> Ok (usingle_top r (UV z)).
Proof.
  exists cx_store, [], [(PK 1%N, SVar cx_decl)], [(PK 1%N, TPath [Dn 5%N]); (PK 1%N, TPath [Dn 6%N])],
         (VNode [(1%N, VRef [5%N])]), [1%N], [5%N], 9%Z.
  repeat split; try (vm_compute; reflexivity). vm_compute. discriminate.
Qed.

Lemma rw_symmetry_counterexample_star : exists t a c tp v vp r z,
  wf_pair (SNode false c) tp true = true /\ var_path (SNode false c) vp = true /\
  view t a (SNode false c) tp = Ok v /\ vget v vp = Some (VRef r) /\
  invert true a (usingle_top vp (UV z)) tp = Ok [(5%N, UV z); (7%N, UD [(1%N, UV z)])] /\
  invert true a (usingle_top vp (UV z)) tp <> Ok (usingle_top r (UV z)).
Proof.
  exists cx_store, [], [(PK 1%N, SVar cx_decl)], [(PK 1%N, TPath [Dn 5%N]); (PStar, TPath [Dn 7%N])],
         (VNode [(1%N, VRef [5%N])]), [1%N], [5%N], 9%Z.
  repeat split; try (vm_compute; reflexivity). vm_compute. discriminate.
Qed.

(* ================= several ports wired to one node ================= *)

Lemma lgo_nil fixed inner cu inv : lgo fixed inner cu [] inv = Ok inv.
Proof. reflexivity. Qed.

Lemma lgo_nil_match fixed inner cu (x : res (list (key * utree))) :
  match x with Ok inv' => lgo fixed inner cu [] inv' | Err e => Err e end = x.
Proof. destruct x; reflexivity. Qed.

Lemma lgo_PK fixed inner cu k sub r inv :
  lgo fixed inner cu ((PK k, sub) :: r) inv =
  match alookup k cu with
  | Some v => match inv_topo fixed false inner v sub inv with
              | Ok inv' => lgo fixed inner cu r inv'
              | Err e => Err e
              end
  | None => lgo fixed inner cu r inv
  end.
Proof. reflexivity. Qed.

Lemma uupdate_in_spine_any p : forall f u u', p <> [] -> f u = Ok u' ->
  uupdate_in (usingle_top p u) p f = Ok (usingle_top p u').
Proof.
  induction p as [|h r IH]; intros f u u' Hne Hf; [congruence|].
  destruct r as [|h' r'].
  - cbn. rewrite N.eqb_refl. rewrite Hf. cbn. rewrite ?N.eqb_refl. reflexivity.
  - change (usingle_top (h :: h' :: r') u) with [(h, UD (usingle_top (h' :: r') u))].
    change (uupdate_in [(h, UD (usingle_top (h' :: r') u))] (h :: h' :: r') f)
      with (match (match alookup h [(h, UD (usingle_top (h' :: r') u))] with Some s => s | None => UD [] end) with
            | UD dc => rbind (uupdate_in dc (h' :: r') f) (fun dc' => Ok (aset h (UD dc') [(h, UD (usingle_top (h' :: r') u))]))
            | _ => Err ETypeThroughLeaf
            end).
    cbn [alookup]. rewrite N.eqb_refl. rewrite (IH f u u') by (auto; discriminate).
    cbn. rewrite ?N.eqb_refl. reflexivity.
Qed.

Lemma usingle_inj p : forall u u', usingle p u = usingle p u' -> u = u'.
Proof. induction p as [|k p IH]; intros u u' H; auto. cbn in H. injection H as H. auto. Qed.

Lemma usingle_top_inj p u u' : p <> [] -> usingle_top p u = usingle_top p u' -> u = u'.
Proof.
  intros Hne H. apply (usingle_inj p). rewrite (usingle_ne_UD p u Hne), (usingle_ne_UD p u' Hne).
  now rewrite H.
Qed.

(* dict-valued ports: both the pinned and the repaired code keep every update (deep_merge_multi_update) *)
Lemma multi_port_dict fixed a p k1 k2 x z1 z2 inner : k1 <> k2 ->
  abs_keys (normalize (dn a ++ p)) = Ok inner ->
  invert fixed a [(k1, UD [(x, UV z1)]); (k2, UD [(x, UV z2)])] [(PK k1, TPath p); (PK k2, TPath p)]
  = Ok (usingle_top (inner ++ [x]) (UM [UV z1; UV z2])).
Proof.
  intros Hne Habs. unfold invert. rewrite inv_topo_dict. cbv zeta. cbv iota.
  rewrite lgo_PK. cbn [alookup]. rewrite N.eqb_refl.
  rewrite inv_topo_path, Habs. cbn [rbind].
  change (UD [(x, UV z1)]) with (usingle [x] (UV z1)). rewrite place_single.
  rewrite lgo_PK. cbn [alookup]. apply N.eqb_neq in Hne. rewrite Hne, N.eqb_refl.
  rewrite inv_topo_path, Habs. cbn [rbind]. rewrite lgo_nil_match.
  rewrite !usingle_top_app. cbn [usingle].
  unfold place, place_mode.
  rewrite (uupdate_in_spine inner _ [(x, UV z1)] [(x, UM [UV z1; UV z2])]); [reflexivity|].
  destruct fixed; cbn; rewrite N.eqb_refl; cbn; rewrite ?N.eqb_refl; reflexivity.
Qed.

Theorem multi_port_scalar a p k1 k2 x z1 z2 inner : k1 <> k2 ->
  abs_keys (normalize (dn a ++ p)) = Ok inner ->
  invert true a [(k1, UD [(x, UV z1)]); (k2, UD [(x, UV z2)])] [(PK k1, TPath p); (PK k2, TPath p)]
  = Ok (usingle_top (inner ++ [x]) (UM [UV z1; UV z2])).
Proof. apply multi_port_dict. Qed.

(* scalar-valued ports: the repaired code builds the multi-update ... *)
Theorem multi_port_scalar_direct a p k1 k2 z1 z2 inner : k1 <> k2 -> inner <> [] ->
  abs_keys (normalize (dn a ++ p)) = Ok inner ->
  invert true a [(k1, UV z1); (k2, UV z2)] [(PK k1, TPath p); (PK k2, TPath p)]
  = Ok (usingle_top inner (UM [UV z1; UV z2])).
Proof.
  intros Hne Hin Habs. unfold invert. rewrite inv_topo_dict. cbv zeta. cbv iota.
  rewrite lgo_PK. cbn [alookup]. rewrite N.eqb_refl.
  rewrite inv_topo_path, Habs. cbn [rbind].
  change (UV z1) with (usingle [] (UV z1)) at 1. rewrite place_single, app_nil_r.
  rewrite lgo_PK. cbn [alookup]. apply N.eqb_neq in Hne. rewrite Hne, N.eqb_refl.
  rewrite inv_topo_path, Habs. cbn [rbind]. rewrite lgo_nil_match.
  unfold place, place_mode. destruct inner as [|i0 i']; [congruence|].
  set (inner := i0 :: i') in *. cbn [Nat.eqb].
  rewrite <- (removelast_last_N inner Hin) at 1. rewrite usingle_top_app. cbn [usingle].
  rewrite (uupdate_in_spine (removelast inner) _ [(last inner 0%N, UV z1)]
                            [(last inner 0%N, UM [UV z1; UV z2])]).
  - rewrite <- (removelast_last_N inner Hin) at 3. rewrite usingle_top_app. reflexivity.
  - cbn. rewrite N.eqb_refl. cbn. rewrite ?N.eqb_refl. reflexivity.
Qed.

(* ... and the pinned code overwrites: the first update is lost *)
Theorem scalar_collision_pinned a p k1 k2 z1 z2 inner : k1 <> k2 -> inner <> [] ->
  abs_keys (normalize (dn a ++ p)) = Ok inner ->
  invert false a [(k1, UV z1); (k2, UV z2)] [(PK k1, TPath p); (PK k2, TPath p)]
  = Ok (usingle_top inner (UV z2)).
Proof.
  intros Hne Hin Habs. unfold invert. rewrite inv_topo_dict. cbv zeta. cbv iota.
  rewrite lgo_PK. cbn [alookup]. rewrite N.eqb_refl.
  rewrite inv_topo_path, Habs. cbn [rbind].
  change (UV z1) with (usingle [] (UV z1)) at 1. rewrite place_single, app_nil_r.
  rewrite lgo_PK. cbn [alookup]. apply N.eqb_neq in Hne. rewrite Hne, N.eqb_refl.
  rewrite inv_topo_path, Habs. cbn [rbind]. rewrite lgo_nil_match.
  unfold place, place_mode. destruct inner as [|i0 i']; [congruence|].
  cbn [Nat.eqb]. apply uupdate_in_spine_any; auto.
Qed.

(* The statement as given is false: with dict-valued ports UD [(x, UV z)] the pinned code goes through
   deep_merge_multi_update and keeps both updates (multi_port_dict false).  Original statement:
   Theorem scalar_collision_refuted_pinned : exists a p k1 k2 x z1 z2 inner, k1 <> k2 /\ z1 <> z2 /\
     abs_keys (normalize (dn a ++ p)) = Ok inner /\
     invert false a [(k1, UD [(x, UV z1)]); (k2, UD [(x, UV z2)])] [(PK k1, TPath p); (PK k2, TPath p)]
     = Ok (usingle_top (inner ++ [x]) (UV z2)).                                                        *)
Theorem scalar_collision_refuted_pinned_as_given_is_false :
  ~ exists a p k1 k2 x z1 z2 inner, k1 <> k2 /\ z1 <> z2 /\
    abs_keys (normalize (dn a ++ p)) = Ok inner /\
    invert false a [(k1, UD [(x, UV z1)]); (k2, UD [(x, UV z2)])] [(PK k1, TPath p); (PK k2, TPath p)]
    = Ok (usingle_top (inner ++ [x]) (UV z2)).
Proof.
  intros (a & p & k1 & k2 & x & z1 & z2 & inner & Hk & Hz & Habs & Hinv).
  rewrite (multi_port_dict false _ _ _ _ _ _ _ _ Hk Habs) in Hinv. injection Hinv as Hinv.
  apply usingle_top_inj in Hinv; [discriminate|]. destruct inner; discriminate.
Qed.

(* the collision with the port values being the scalars themselves: the pinned code loses z1 *)
Theorem scalar_collision_refuted_pinned_partial : exists a p k1 k2 z1 z2 inner, k1 <> k2 /\ z1 <> z2 /\
  abs_keys (normalize (dn a ++ p)) = Ok inner /\
  invert false a [(k1, UV z1); (k2, UV z2)] [(PK k1, TPath p); (PK k2, TPath p)]
  = Ok (usingle_top inner (UV z2)) /\
  invert true a [(k1, UV z1); (k2, UV z2)] [(PK k1, TPath p); (PK k2, TPath p)]
  = Ok (usingle_top inner (UM [UV z1; UV z2])).
Proof.
  exists [], [Dn 5%N], 1%N, 2%N, 0%Z, 1%Z, [5%N].
  repeat split; try discriminate; vm_compute; reflexivity.
Qed.

Print Assumptions abs_keys_dn.
Print Assumptions uupdate_in_empty_single.
Print Assumptions rw_symmetry_partial.
Print Assumptions rw_symmetry_pinned_single_partial.
Print Assumptions rw_symmetry_counterexample_dup.
Print Assumptions rw_symmetry_counterexample_star.
Print Assumptions multi_port_scalar.
Print Assumptions multi_port_scalar_direct.
Print Assumptions scalar_collision_pinned.
Print Assumptions scalar_collision_refuted_pinned_as_given_is_false.
Print Assumptions scalar_collision_refuted_pinned_partial.
Print Assumptions view_keys.
Print Assumptions view_output.
Print Assumptions view_all.
Print Assumptions view_plain_refs.
