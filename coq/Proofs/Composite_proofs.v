(* Proofs about Model/Composite.v and dict_utils.deep_merge (C16). *)
From Coq Require Import List NArith ZArith Bool Lia.
From Viv Require Import Base.Assoc Base.Tree Model.Paths Model.Composite Proofs.Paths_proofs.
Import ListNotations.

(* ================= deep_merge: the loop over the merged-in dict ================= *)

(* the nested `fix go` of deep_merge, named *)
Definition dm_go {A} : list (key * tree A) -> list (key * tree A) -> list (key * tree A) :=
  fix go (mc dc : list (key * tree A)) : list (key * tree A) :=
    match mc with
    | [] => dc
    | (k, v) :: r =>
      go r (match alookup k dc, v with
            | Some (Nd dk), Nd _ => aset k (deep_merge (Nd dk) v) dc
            | _, _ => aset k v dc
            end)
    end.

(* the value stored under k by one iteration *)
Definition dm_val {A} (dc : list (key * tree A)) (k : key) (v : tree A) : tree A :=
  match alookup k dc, v with
  | Some (Nd dk), Nd _ => deep_merge (Nd dk) v
  | _, _ => v
  end.

Lemma deep_merge_Nd {A} (dc mc : list (key * tree A)) :
  deep_merge (Nd dc) (Nd mc) = Nd (dm_go mc dc).
Proof. reflexivity. Qed.

Lemma dm_go_nil {A} (dc : list (key * tree A)) : dm_go [] dc = dc.
Proof. reflexivity. Qed.

Lemma dm_go_cons {A} k (v : tree A) r dc :
  dm_go ((k, v) :: r) dc = dm_go r (aset k (dm_val dc k v) dc).
Proof.
  unfold dm_val. cbn [dm_go].
  destruct (alookup k dc) as [[a|dk]|]; destruct v as [b|x]; reflexivity.
Qed.

Lemma dm_val_cases {A} (dc : list (key * tree A)) k v :
  Some (dm_val dc k v) =
  match v with
  | Nd x => match alookup k dc with
            | Some (Nd y) => Some (deep_merge (Nd y) (Nd x))
            | _ => Some (Nd x)
            end
  | Lf a => Some (Lf a)
  end.
Proof.
  unfold dm_val. destruct (alookup k dc) as [[a|dk]|]; destruct v as [b|x]; reflexivity.
Qed.

(* the fold invariant *)
Lemma dm_go_lookup {A} (mc : list (key * tree A)) : forall dc k, NoDup (akeys mc) ->
  alookup k (dm_go mc dc) =
  match alookup k mc with
  | None => alookup k dc
  | Some (Nd x) => match alookup k dc with
                   | Some (Nd y) => Some (deep_merge (Nd y) (Nd x))
                   | _ => Some (Nd x)
                   end
  | Some (Lf a) => Some (Lf a)
  end.
Proof.
  induction mc as [|[k0 v0] r IH]; intros dc k Hnd.
  - reflexivity.
  - cbn [akeys map fst] in Hnd. inversion Hnd as [|? ? Hnin Hnd']; subst.
    rewrite dm_go_cons. rewrite (IH _ k Hnd'). cbn [alookup].
    destruct (N.eqb k0 k) eqn:E.
    + apply N.eqb_eq in E. subst k0.
      assert (Hr : alookup k r = None) by (apply alookup_None_notin; exact Hnin).
      rewrite Hr, alookup_aset_eq. apply dm_val_cases.
    + apply N.eqb_neq in E. rewrite (alookup_aset_neq k0 k _ dc E). reflexivity.
Qed.

(* ---- deep_merge: one level ---- *)
Theorem deep_merge_lookup {A} (dc mc : list (key * tree A)) k : NoDup (akeys mc) ->
  alookup k (children (deep_merge (Nd dc) (Nd mc))) =
  match alookup k mc with
  | None => alookup k dc
  | Some (Nd x) => match alookup k dc with
                   | Some (Nd y) => Some (deep_merge (Nd y) (Nd x))
                   | _ => Some (Nd x)
                   end
  | Some (Lf a) => Some (Lf a)
  end.
Proof.
  intros Hnd. rewrite deep_merge_Nd. cbn [children]. now apply dm_go_lookup.
Qed.

Theorem deep_merge_is_nd {A} (dc mc : list (key * tree A)) : exists rc, deep_merge (Nd dc) (Nd mc) = Nd rc.
Proof. exists (dm_go mc dc). apply deep_merge_Nd. Qed.

Lemma deep_merge_is_nd_b {A} (d m : tree A) : is_nd d = true -> is_nd m = true -> is_nd (deep_merge d m) = true.
Proof.
  intros Hd Hm. destruct d as [a|dc]; [discriminate|]. destruct m as [b|mc]; [discriminate|].
  rewrite deep_merge_Nd. reflexivity.
Qed.

Lemma Forall_aset_snd {V} (P : V -> Prop) k v (l : alist V) :
  Forall (fun kv => P (snd kv)) l -> P v -> Forall (fun kv => P (snd kv)) (aset k v l).
Proof.
  intros Hall Hv. induction l as [|[k0 v0] r IH]; cbn.
  - constructor; [exact Hv|constructor].
  - inversion Hall as [|? ? H0 Hr]; subst.
    destruct (N.eqb k0 k); constructor; auto.
Qed.

Lemma wf_child {A} (c : list (key * tree A)) k s :
  Forall (fun kv => wf (snd kv)) c -> alookup k c = Some s -> wf s.
Proof.
  intros Hall Hl. rewrite Forall_forall in Hall. apply (Hall (k, s)). now apply alookup_In.
Qed.

Lemma dm_go_wf {A} (mc : list (key * tree A)) :
  Forall (fun kv => forall d, wf d -> wf (snd kv) -> is_nd d = true -> is_nd (snd kv) = true ->
                              wf (deep_merge d (snd kv))) mc ->
  Forall (fun kv => wf (snd kv)) mc ->
  forall dc, NoDup (akeys dc) -> Forall (fun kv => wf (snd kv)) dc ->
  NoDup (akeys (dm_go mc dc)) /\ Forall (fun kv => wf (snd kv)) (dm_go mc dc).
Proof.
  induction mc as [|[k v] r IHr]; intros HIH Hmw dc Hnd Hdw.
  - split; assumption.
  - inversion HIH as [|? ? Hv HIH']; subst. inversion Hmw as [|? ? Hvw Hmw']; subst.
    cbn [snd] in Hv, Hvw. rewrite dm_go_cons. apply IHr; auto.
    + now apply aset_nodup.
    + apply Forall_aset_snd; [exact Hdw|].
      unfold dm_val. destruct (alookup k dc) as [[a|dk]|] eqn:El; try exact Hvw.
      destruct v as [b|x]; [exact Hvw|].
      apply Hv; auto. exact (wf_child dc k (Nd dk) Hdw El).
Qed.

Theorem deep_merge_wf {A} (d m : tree A) : wf d -> wf m -> is_nd d = true -> is_nd m = true -> wf (deep_merge d m).
Proof.
  revert d. induction m as [b|mc HIH] using tree_ind'; intros d Hwd Hwm Hd Hm; [discriminate|].
  destruct d as [a|dc]; [discriminate|].
  inversion Hwd as [|? Hndd Halld]; subst. inversion Hwm as [|? Hndm Hallm]; subst.
  rewrite deep_merge_Nd.
  destruct (dm_go_wf mc HIH Hallm dc Hndd Halld) as [H1 H2].
  now constructor.
Qed.

Theorem deep_merge_empty_l {A} (mc : list (key * tree A)) : NoDup (akeys mc) ->
  forall k, alookup k (children (deep_merge (Nd []) (Nd mc))) = alookup k mc.
Proof.
  intros Hnd k. rewrite deep_merge_lookup by exact Hnd. cbn [alookup].
  destruct (alookup k mc) as [[a|x]|]; reflexivity.
Qed.

(* ---- deep_merge: any depth.  The merged-in dict wins on every leaf it defines ... ---- *)
Theorem deep_merge_later_wins {A} (d m : tree A) q a : wf m -> is_nd d = true -> is_nd m = true ->
  get_in m q = Ok (Some (Lf a)) -> get_in (deep_merge d m) q = Ok (Some (Lf a)).
Proof.
  revert d m. induction q as [|h t IH]; intros d m Hwf Hd Hm Hg.
  - cbn in Hg. injection Hg as ->. discriminate.
  - destruct d as [a0|dc]; [discriminate|]. destruct m as [b0|mc]; [discriminate|].
    inversion Hwf as [|? Hnd Hall]; subst.
    rewrite deep_merge_Nd. cbn [get_in] in *. rewrite dm_go_lookup by exact Hnd.
    destruct (alookup h mc) as [s|] eqn:El; [|discriminate].
    destruct s as [b|x].
    + exact Hg.
    + destruct (alookup h dc) as [[c|y]|] eqn:Ed; try exact Hg.
      apply IH; auto. eapply wf_child; eauto.
Qed.

(* ... and leaves alone what it does not mention *)
Theorem deep_merge_keeps {A} (d m : tree A) q r : wf m -> is_nd d = true -> is_nd m = true ->
  get_in m q = Ok None -> get_in d q = Ok r -> get_in (deep_merge d m) q = Ok r.
Proof.
  revert d m. induction q as [|h t IH]; intros d m Hwf Hd Hm Hgm Hgd.
  - discriminate.
  - destruct d as [a0|dc]; [discriminate|]. destruct m as [b0|mc]; [discriminate|].
    inversion Hwf as [|? Hnd Hall]; subst.
    rewrite deep_merge_Nd. cbn [get_in] in *. rewrite dm_go_lookup by exact Hnd.
    destruct (alookup h mc) as [s|] eqn:El; [|exact Hgd].
    destruct s as [b|x].
    + destruct t; discriminate.
    + destruct (alookup h dc) as [[c|y]|] eqn:Ed.
      * destruct t; discriminate.
      * apply IH; auto. eapply wf_child; eauto.
      * injection Hgd as <-. exact Hgm.
Qed.

(* ================= embedding at a path ================= *)

Lemma embed1_nil (t : dtree) : embed1 [] t = Ok t.
Proof. reflexivity. Qed.

(* explicit shape: a chain of singleton dicts ending in t *)
Lemma embed1_cons h p (t : dtree) :
  embed1 (h :: p) t = rbind (embed1 p t) (fun s => Ok (Nd [(h, s)])).
Proof. reflexivity. Qed.

(* ---- Composer.generate(path = p): every component sits under p, unchanged ---- *)
Theorem embed1_get p (t e : dtree) : embed1 p t = Ok e -> get_in e p = Ok (Some t).
Proof. unfold embed1. apply assoc_in_get. Qed.

Theorem embed1_total p (t : dtree) : exists e, embed1 p t = Ok e.
Proof.
  induction p as [|h p [e He]].
  - exists t. reflexivity.
  - exists (Nd [(h, e)]). rewrite embed1_cons, He. reflexivity.
Qed.

Theorem embed1_only p (t e : dtree) q : embed1 p t = Ok e -> diverge p q -> get_in e q = Ok None.
Proof.
  unfold embed1. intros He Hdiv. rewrite (assoc_in_frame _ _ _ _ _ He Hdiv).
  destruct Hdiv as (c & x & y & p' & q' & _ & -> & _).
  apply get_in_nil_dict. apply app_cons_not_nil'.
Qed.

Lemma embed1_wf p (t : dtree) : wf t -> forall e, embed1 p t = Ok e -> wf e.
Proof.
  intros Hwf. induction p as [|h p IH]; intros e He.
  - rewrite embed1_nil in He. now injection He as <-.
  - rewrite embed1_cons in He. destruct (embed1 p t) as [s|err]; [|discriminate].
    cbn [rbind] in He. injection He as <-.
    constructor.
    + cbn. constructor; [intros []|constructor].
    + constructor; [|constructor]. cbn [snd]. now apply IH.
Qed.

Lemma embed1_is_nd p (t e : dtree) : is_nd t = true -> embed1 p t = Ok e -> is_nd e = true.
Proof.
  intros Ht He. destruct p as [|h p].
  - rewrite embed1_nil in He. now injection He as <-.
  - rewrite embed1_cons in He. destruct (embed1 p t) as [s|err]; [|discriminate].
    cbn [rbind] in He. now injection He as <-.
Qed.

Theorem embed_components p c e : embed p c = Ok e ->
  get_in (c_processes e) p = Ok (Some (c_processes c)) /\ get_in (c_topology e) p = Ok (Some (c_topology c)) /\
  get_in (c_steps e) p = Ok (Some (c_steps c)) /\ get_in (c_flow e) p = Ok (Some (c_flow c)).
Proof.
  unfold embed. intros He.
  destruct (embed1 p (c_processes c)) as [a|] eqn:Ea; [|discriminate].
  destruct (embed1 p (c_topology c)) as [b|] eqn:Eb; [|discriminate].
  destruct (embed1 p (c_steps c)) as [s|] eqn:Es; [|discriminate].
  destruct (embed1 p (c_flow c)) as [f|] eqn:Ef; [|discriminate].
  cbn [rbind] in He. injection He as <-. cbn.
  repeat split; now apply embed1_get.
Qed.

(* ================= Composite.merge ================= *)

(* merge1, opened up *)
Lemma merge1_inv (self other loose r : dtree) path : merge1 self other loose path = Ok r ->
  exists e, embed1 path (deep_merge other loose) = Ok e /\ r = deep_merge self e.
Proof.
  unfold merge1. intros H. destruct (embed1 path (deep_merge other loose)) as [e|] eqn:E; [|discriminate].
  cbn [rbind] in H. injection H as <-. now exists e.
Qed.

(* ---- Composite.merge: the union under the path; later entries win; nothing else changes ---- *)
(* a leaf of the loose arguments ends up under the path, whatever was there *)

(* AS GIVEN (without `wf other`) THE STATEMENT IS FALSE:
Theorem merge1_loose_wins (self other loose r : dtree) path q a : wf loose -> is_nd self = true -> is_nd other = true -> is_nd loose = true ->
  merge1 self other loose path = Ok r -> get_in loose q = Ok (Some (Lf a)) -> q <> [] ->
  get_in r (path ++ q) = Ok (Some (Lf a)).
   Counterexample (`other` with a repeated key, which is not a Python dict): see
   merge1_loose_wins_counterexample below. *)

Definition cx_self : dtree := Nd [(0%N, Nd [])].
Definition cx_other : dtree := Nd [(1%N, Lf 1%N); (1%N, Lf 2%N)].
Definition cx_loose : dtree := Nd [(1%N, Lf 5%N)].

Lemma merge1_loose_wins_counterexample :
  wf cx_loose /\ is_nd cx_self = true /\ is_nd cx_other = true /\ is_nd cx_loose = true /\
  get_in cx_loose [1%N] = Ok (Some (Lf 5%N)) /\
  exists r, merge1 cx_self cx_other cx_loose [0%N] = Ok r /\
            get_in r ([0%N] ++ [1%N]) = Ok (Some (Lf 2%N)).
Proof.
  repeat split.
  - constructor; cbn.
    + constructor; [intros []|constructor].
    + constructor; [constructor|constructor].
  - exists (Nd [(0%N, Nd [(1%N, Lf 2%N)])]). split; reflexivity.
Qed.

Theorem merge1_loose_wins_partial (self other loose r : dtree) path q a : wf loose -> wf other ->
  is_nd self = true -> is_nd other = true -> is_nd loose = true ->
  merge1 self other loose path = Ok r -> get_in loose q = Ok (Some (Lf a)) -> q <> [] ->
  get_in r (path ++ q) = Ok (Some (Lf a)).
Proof.
  intros Hwl Hwo Hs Ho Hl Hm Hg Hq.
  destruct (merge1_inv _ _ _ _ _ Hm) as (e & He & ->).
  apply deep_merge_later_wins.
  - eapply embed1_wf; [|exact He]. now apply deep_merge_wf.
  - exact Hs.
  - eapply embed1_is_nd; [|exact He]. now apply deep_merge_is_nd_b.
  - rewrite get_in_app, (embed1_get _ _ _ He). now apply deep_merge_later_wins.
Qed.

(* a leaf of the merged-in composite ends up under the path unless the loose arguments redefine it *)
Theorem merge1_other_kept (self other loose r : dtree) path q a : wf loose -> wf other -> is_nd self = true -> is_nd other = true -> is_nd loose = true ->
  merge1 self other loose path = Ok r -> get_in other q = Ok (Some (Lf a)) -> get_in loose q = Ok None -> q <> [] ->
  get_in r (path ++ q) = Ok (Some (Lf a)).
Proof.
  intros Hwl Hwo Hs Ho Hl Hm Hgo Hgl Hq.
  destruct (merge1_inv _ _ _ _ _ Hm) as (e & He & ->).
  apply deep_merge_later_wins.
  - eapply embed1_wf; [|exact He]. now apply deep_merge_wf.
  - exact Hs.
  - eapply embed1_is_nd; [|exact He]. now apply deep_merge_is_nd_b.
  - rewrite get_in_app, (embed1_get _ _ _ He). now apply deep_merge_keeps.
Qed.

(* what the receiver held away from the path is untouched *)
Theorem merge1_self_kept (self other loose r : dtree) path q x : wf loose -> wf other -> is_nd self = true -> is_nd other = true -> is_nd loose = true ->
  merge1 self other loose path = Ok r -> diverge path q -> get_in self q = Ok x -> get_in r q = Ok x.
Proof.
  intros Hwl Hwo Hs Ho Hl Hm Hdiv Hg.
  destruct (merge1_inv _ _ _ _ _ Hm) as (e & He & ->).
  apply deep_merge_keeps.
  - eapply embed1_wf; [|exact He]. now apply deep_merge_wf.
  - exact Hs.
  - eapply embed1_is_nd; [|exact He]. now apply deep_merge_is_nd_b.
  - eapply embed1_only; eauto.
  - exact Hg.
Qed.

(* merging never fails *)
Theorem merge1_total (self other loose : dtree) path : exists r, merge1 self other loose path = Ok r.
Proof.
  unfold merge1. destruct (embed1_total path (deep_merge other loose)) as [e He].
  rewrite He. eexists. reflexivity.
Qed.

Print Assumptions deep_merge_lookup.
Print Assumptions deep_merge_is_nd.
Print Assumptions deep_merge_wf.
Print Assumptions deep_merge_empty_l.
Print Assumptions deep_merge_later_wins.
Print Assumptions deep_merge_keeps.
Print Assumptions embed1_get.
Print Assumptions embed1_total.
Print Assumptions embed1_only.
Print Assumptions embed_components.
Print Assumptions merge1_loose_wins_counterexample.
Print Assumptions merge1_loose_wins_partial.
Print Assumptions merge1_other_kept.
Print Assumptions merge1_self_kept.
Print Assumptions merge1_total.
