(* Proofs about Model/Steps.v (C05). *)
From Coq Require Import List NArith ZArith Bool Lia Sorting.Sorted Sorting.Permutation.
From Viv Require Import Base.Assoc Base.Tree Model.Paths Model.Steps.
Import ListNotations.

(* a non-empty set of nodes each of which has a predecessor inside the set: in a finite
   graph this is exactly "there is a cycle" (follow predecessors until one repeats) *)
Definition pred_closed (sub rem : list node) (edges : list (node * node)) : Prop :=
  sub <> [] /\ incl sub rem /\ forall n, In n sub -> exists d, In d sub /\ In (d, n) edges.

Definition node_of {Sg} (e : sev Sg) : node := match e with ERun _ n _ => n end.
Definition state_of {Sg} (e : sev Sg) : Sg := match e with ERun _ _ s => s end.

(* index of the layer containing n *)
Fixpoint layer_index (n : node) (ls : list (list node)) : option nat :=
  match ls with
  | [] => None
  | l :: r => if nmem n l then Some O else match layer_index n r with Some k => Some (S k) | None => None end
  end.

Inductive sublist {A} : list A -> list A -> Prop :=
| sub_nil : sublist [] []
| sub_skip x l m : sublist l m -> sublist l (x :: m)
| sub_take x l m : sublist l m -> sublist (x :: l) (x :: m).

(* PROOFS GO HERE *)

(* ---------- boolean equalities ---------- *)
Lemma seg_eqb_eq a b : seg_eqb a b = true <-> a = b.
Proof.
  destruct a as [|x], b as [|y]; simpl; split; intro H; try reflexivity; try discriminate.
  - apply N.eqb_eq in H. subst. reflexivity.
  - inversion H. apply N.eqb_refl.
Qed.

Lemma node_eqb_eq a b : node_eqb a b = true <-> a = b.
Proof.
  revert b. induction a as [|x a IH]; intros [|y b]; simpl; split; intro H;
    try reflexivity; try discriminate.
  - apply andb_true_iff in H. destruct H as [H1 H2].
    apply seg_eqb_eq in H1. apply IH in H2. subst. reflexivity.
  - inversion H; subst. apply andb_true_iff. split.
    + apply seg_eqb_eq. reflexivity.
    + apply IH. reflexivity.
Qed.

Lemma node_eqb_refl a : node_eqb a a = true.
Proof. apply node_eqb_eq. reflexivity. Qed.

Lemma nmem_In n l : nmem n l = true <-> In n l.
Proof.
  unfold nmem. rewrite existsb_exists. split.
  - intros [x [Hin He]]. apply node_eqb_eq in He. subst. exact Hin.
  - intro H. exists n. split; [exact H|apply node_eqb_refl].
Qed.

Lemma nmem_false n l : nmem n l = false <-> ~ In n l.
Proof.
  split.
  - intros H Hin. apply nmem_In in Hin. rewrite Hin in H. discriminate.
  - intro H. destruct (nmem n l) eqn:E; [|reflexivity].
    apply nmem_In in E. contradiction.
Qed.

Lemma nmem_filter (p : node -> bool) l n : In n l -> nmem n (filter p l) = p n.
Proof.
  intro Hin. destruct (p n) eqn:E.
  - apply nmem_In. apply filter_In. split; assumption.
  - apply nmem_false. intro H. apply filter_In in H. destruct H as [_ H].
    rewrite H in E. discriminate.
Qed.

(* ---------- generic list facts ---------- *)
Lemma filter_split_perm {A} (p : A -> bool) l :
  Permutation (filter p l ++ filter (fun x => negb (p x)) l) l.
Proof.
  induction l as [|x l IH]; simpl; [constructor|].
  destruct (p x); simpl.
  - constructor. exact IH.
  - apply Permutation_sym. apply Permutation_cons_app. apply Permutation_sym. exact IH.
Qed.

Lemma filter_len_le {A} (p : A -> bool) l : (length (filter p l) <= length l)%nat.
Proof. induction l as [|y l IH]; simpl; [lia|]. destruct (p y); simpl; lia. Qed.

Lemma filter_length_lt {A} (p : A -> bool) l x :
  In x l -> p x = false -> (length (filter p l) < length l)%nat.
Proof.
  induction l as [|y l IH]; simpl; intros Hin Hp; [contradiction|].
  pose proof (filter_len_le p l) as Hle.
  destruct Hin as [->|Hin].
  - rewrite Hp. lia.
  - specialize (IH Hin Hp). destruct (p y); simpl; lia.
Qed.

Lemma NoDup_app_intro {A} (l1 l2 : list A) :
  NoDup l1 -> NoDup l2 -> (forall x, In x l1 -> ~ In x l2) -> NoDup (l1 ++ l2).
Proof.
  induction l1 as [|a l1 IH]; simpl; intros H1 H2 Hd; [exact H2|].
  inversion H1 as [|? ? Hna Hnd]; subst. constructor.
  - intro Hin. apply in_app_or in Hin. destruct Hin as [Hin|Hin].
    + contradiction.
    + apply (Hd a (or_introl eq_refl) Hin).
  - apply IH; [exact Hnd|exact H2|]. intros x Hx. apply Hd. right. exact Hx.
Qed.

Lemma NoDup_app_disj {A} (l1 l2 : list A) x :
  NoDup (l1 ++ l2) -> In x l1 -> In x l2 -> False.
Proof.
  induction l1 as [|a l1 IH]; simpl; intros Hnd H1 H2; [contradiction|].
  inversion Hnd as [|? ? Hna Hnd']; subst.
  destruct H1 as [->|H1].
  - apply Hna. apply in_or_app. right. exact H2.
  - apply IH; assumption.
Qed.

Lemma NoDup_app_tail {A} (l1 l2 : list A) : NoDup (l1 ++ l2) -> NoDup l2.
Proof.
  induction l1 as [|a l1 IH]; simpl; intro H; [exact H|].
  inversion H; subst. apply IH. assumption.
Qed.

(* ---------- layer_index ---------- *)
Lemma layer_index_In n ls : forall k, layer_index n ls = Some k -> In n (nth k ls []).
Proof.
  induction ls as [|l r IH]; simpl; intros k H; [discriminate|].
  destruct (nmem n l) eqn:E.
  - inversion H; subst. apply nmem_In. exact E.
  - destruct (layer_index n r) as [k'|]; [|discriminate].
    inversion H; subst. apply IH. reflexivity.
Qed.

Lemma In_layer_index n ls : In n (concat ls) -> exists k, layer_index n ls = Some k.
Proof.
  induction ls as [|l r IH]; simpl; intro H; [contradiction|].
  destruct (nmem n l) eqn:E; [exists O; reflexivity|].
  apply in_app_or in H. destruct H as [H|H].
  - apply nmem_In in H. rewrite H in E. discriminate.
  - destruct (IH H) as [k Hk]. rewrite Hk. exists (S k). reflexivity.
Qed.

Lemma layer_index_concat n ls k : layer_index n ls = Some k -> In n (concat ls).
Proof.
  revert k. induction ls as [|l r IH]; simpl; intros k H; [discriminate|].
  apply in_or_app. destruct (nmem n l) eqn:E.
  - left. apply nmem_In. exact E.
  - right. destruct (layer_index n r) as [k'|]; [|discriminate]. apply (IH k'). reflexivity.
Qed.

(* ---------- zero_in and one peeling step ---------- *)
Lemma zero_in_In n rem edges :
  In n (zero_in rem edges) <-> In n rem /\ forall d, In d rem -> ~ In (d, n) edges.
Proof.
  unfold zero_in. rewrite filter_In. split.
  - intros [Hin Hp]. split; [exact Hin|]. intros d Hd He.
    apply negb_true_iff in Hp.
    assert (Ht : existsb (fun e => node_eqb (snd e) n && nmem (fst e) rem) edges = true).
    { apply existsb_exists. exists (d, n). split; [exact He|]. simpl.
      rewrite node_eqb_refl. simpl. apply nmem_In. exact Hd. }
    rewrite Ht in Hp. discriminate.
  - intros [Hin Hno]. split; [exact Hin|]. apply negb_true_iff.
    destruct (existsb (fun e => node_eqb (snd e) n && nmem (fst e) rem) edges) eqn:E; [|reflexivity].
    apply existsb_exists in E. destruct E as [[d s] [He Hc]]. simpl in Hc.
    apply andb_true_iff in Hc. destruct Hc as [H1 H2].
    apply node_eqb_eq in H1. apply nmem_In in H2. subst. exfalso. apply (Hno d H2 He).
Qed.

Definition peel (rem : list node) (edges : list (node * node)) : list node :=
  filter (fun n => negb (nmem n (zero_in rem edges))) rem.

Lemma peel_In n rem edges : In n (peel rem edges) <-> In n rem /\ ~ In n (zero_in rem edges).
Proof.
  unfold peel. rewrite filter_In. rewrite negb_true_iff. rewrite nmem_false. tauto.
Qed.

Lemma zero_peel_perm rem edges : Permutation (zero_in rem edges ++ peel rem edges) rem.
Proof.
  unfold peel, zero_in.
  set (p := fun n => negb (existsb (fun e => node_eqb (snd e) n && nmem (fst e) rem) edges)).
  rewrite (filter_ext_in (fun n => negb (nmem n (filter p rem))) (fun n => negb (p n))).
  - apply filter_split_perm.
  - intros a Ha. f_equal. apply nmem_filter. exact Ha.
Qed.

Lemma gens_S f x rem' edges :
  gens (S f) (x :: rem') edges =
  match zero_in (x :: rem') edges with
  | [] => None
  | _ => match gens f (peel (x :: rem') edges) edges with
         | Some r => Some (zero_in (x :: rem') edges :: r)
         | None => None
         end
  end.
Proof. reflexivity. Qed.

Lemma gens_inv fuel rem edges gs : gens fuel rem edges = Some gs ->
  (rem = [] /\ gs = []) \/
  (exists f r, fuel = S f /\ rem <> [] /\ zero_in rem edges <> [] /\
     gs = zero_in rem edges :: r /\ gens f (peel rem edges) edges = Some r).
Proof.
  intro H. destruct rem as [|x rem'].
  - left. destruct fuel; simpl in H; inversion H; auto.
  - right. destruct fuel as [|f]; [simpl in H; discriminate|].
    rewrite gens_S in H.
    destruct (zero_in (x :: rem') edges) as [|z0 z'] eqn:Z; [discriminate|].
    destruct (gens f (peel (x :: rem') edges) edges) as [r|] eqn:G; [|discriminate].
    inversion H; subst gs. exists f, r.
    split; [reflexivity|]. split; [discriminate|]. split; [discriminate|].
    split; [reflexivity|exact G].
Qed.

Lemma gens_none_inv fuel rem edges : gens fuel rem edges = None ->
  rem <> [] /\
  (fuel = O \/ exists f, fuel = S f /\
     (zero_in rem edges = [] \/ (zero_in rem edges <> [] /\ gens f (peel rem edges) edges = None))).
Proof.
  intro H. destruct rem as [|x rem'].
  - destruct fuel; simpl in H; discriminate.
  - split; [discriminate|]. destruct fuel as [|f]; [left; reflexivity|right].
    exists f. split; [reflexivity|]. rewrite gens_S in H.
    destruct (zero_in (x :: rem') edges) as [|z0 z'] eqn:Z; [left; reflexivity|right].
    split; [discriminate|].
    destruct (gens f (peel (x :: rem') edges) edges) as [r|] eqn:G; [discriminate|reflexivity].
Qed.

(* ---------- topological generations ---------- *)
Lemma gens_perm fuel : forall rem edges gs, gens fuel rem edges = Some gs ->
  Permutation (concat gs) rem.
Proof.
  induction fuel as [|fuel IH]; intros rem edges gs H;
    destruct (gens_inv _ _ _ _ H) as [[-> ->]|(f & r & Hf & Hne & Hz & -> & Hr)];
    try (simpl; constructor); try discriminate.
  inversion Hf; subst f. simpl.
  apply Permutation_trans with (zero_in rem edges ++ peel rem edges).
  - apply Permutation_app_head. apply IH with edges. exact Hr.
  - apply zero_peel_perm.
Qed.

Theorem gens_partition fuel : forall rem edges gs, NoDup rem -> gens fuel rem edges = Some gs ->
  Permutation (concat gs) rem /\ NoDup (concat gs).
Proof.
  intros rem edges gs Hnd H. pose proof (gens_perm _ _ _ _ H) as Hp. split; [exact Hp|].
  apply Permutation_NoDup with rem; [apply Permutation_sym; exact Hp|exact Hnd].
Qed.

Theorem gens_nonempty fuel : forall rem edges gs, gens fuel rem edges = Some gs -> Forall (fun g => g <> []) gs.
Proof.
  induction fuel as [|fuel IH]; intros rem edges gs H;
    destruct (gens_inv _ _ _ _ H) as [[-> ->]|(f & r & Hf & Hne & Hz & -> & Hr)];
    try constructor; try discriminate.
  - exact Hz.
  - inversion Hf; subst f. apply IH with (peel rem edges) edges. exact Hr.
Qed.

Lemma gens_respect_deps_aux fuel : forall rem edges gs d s, gens fuel rem edges = Some gs ->
  In (d, s) edges -> In d rem -> In s rem ->
  exists i j, layer_index d gs = Some i /\ layer_index s gs = Some j /\ (i < j)%nat.
Proof.
  induction fuel as [|fuel IH]; intros rem edges gs d s H He Hd Hs;
    destruct (gens_inv _ _ _ _ H) as [[-> ->]|(f & r & Hf & Hne & Hz & -> & Hr)];
    try contradiction; try discriminate.
  inversion Hf; subst f.
  assert (Hsz : ~ In s (zero_in rem edges)).
  { intro Hin. apply zero_in_In in Hin. destruct Hin as [_ Hno]. apply (Hno d Hd He). }
  assert (Hsp : In s (peel rem edges)) by (apply peel_In; split; assumption).
  simpl. rewrite (proj2 (nmem_false _ _) Hsz).
  destruct (nmem d (zero_in rem edges)) eqn:Ed.
  - assert (Hsc : In s (concat r)).
    { apply Permutation_in with (peel rem edges); [|exact Hsp].
      apply Permutation_sym. apply (gens_perm _ _ _ _ Hr). }
    destruct (In_layer_index _ _ Hsc) as [k Hk]. rewrite Hk.
    exists O, (S k). repeat split. lia.
  - assert (Hdp : In d (peel rem edges)).
    { apply peel_In. split; [exact Hd|]. apply nmem_false. exact Ed. }
    destruct (IH _ _ _ d s Hr He Hdp Hsp) as (i & j & Hi & Hj & Hlt).
    rewrite Hi, Hj. exists (S i), (S j). repeat split. lia.
Qed.

Theorem gens_respect_deps fuel : forall rem edges gs d s, NoDup rem -> gens fuel rem edges = Some gs ->
  In (d, s) edges -> In d rem -> In s rem ->
  exists i j, layer_index d gs = Some i /\ layer_index s gs = Some j /\ (i < j)%nat.
Proof.
  intros rem edges gs d s _ H He Hd Hs. apply (gens_respect_deps_aux fuel rem edges gs d s H He Hd Hs).
Qed.

Lemma gens_earliest_aux fuel : forall rem edges gs k s, gens fuel rem edges = Some gs ->
  In s (nth (S k) gs []) -> exists d, In (d, s) edges /\ In d (nth k gs []).
Proof.
  induction fuel as [|fuel IH]; intros rem edges gs k s H Hs;
    destruct (gens_inv _ _ _ _ H) as [[-> ->]|(f & r & Hf & Hne & Hz & -> & Hr)];
    try (simpl in Hs; contradiction); try discriminate.
  inversion Hf; subst f. simpl in Hs.
  destruct k as [|k].
  - (* s is a root of the peeled graph but not of rem *)
    destruct (gens_inv _ _ _ _ Hr) as [[_ ->]|(f' & r' & _ & _ & _ & -> & _)];
      [simpl in Hs; contradiction|].
    simpl in Hs. apply zero_in_In in Hs. destruct Hs as [Hsp Hno].
    apply peel_In in Hsp. destruct Hsp as [Hsr Hsz].
    (* some edge into s from rem *)
    assert (Hex : exists d, In d rem /\ In (d, s) edges).
    { unfold zero_in in Hsz. rewrite filter_In in Hsz.
      destruct (existsb (fun e => node_eqb (snd e) s && nmem (fst e) rem) edges) eqn:E.
      - apply existsb_exists in E. destruct E as [[d s0] [He Hc]]. simpl in Hc.
        apply andb_true_iff in Hc. destruct Hc as [H1 H2].
        apply node_eqb_eq in H1. apply nmem_In in H2. subst s0. exists d. split; assumption.
      - exfalso. apply Hsz. split; [exact Hsr|reflexivity]. }
    destruct Hex as (d & Hdr & He). exists d. split; [exact He|]. simpl.
    destruct (nmem d (zero_in rem edges)) eqn:Ed; [apply nmem_In; exact Ed|].
    exfalso. apply (Hno d); [|exact He]. apply peel_In. split; [exact Hdr|].
    apply nmem_false. exact Ed.
  - apply (IH _ _ _ _ _ Hr Hs).
Qed.

Theorem gens_earliest fuel : forall rem edges gs k s, NoDup rem -> gens fuel rem edges = Some gs ->
  In s (nth (S k) gs []) -> exists d, In (d, s) edges /\ In d (nth k gs []).
Proof.
  intros rem edges gs k s _ H Hs. apply (gens_earliest_aux fuel rem edges gs k s H Hs).
Qed.

Theorem gens_roots fuel : forall rem edges gs s d, gens fuel rem edges = Some gs ->
  In s (nth 0 gs []) -> In d rem -> ~ In (d, s) edges.
Proof.
  intros rem edges gs s d H Hs Hd.
  destruct (gens_inv _ _ _ _ H) as [[-> ->]|(f & r & Hf & Hne & Hz & -> & Hr)];
    [simpl in Hs; contradiction|].
  simpl in Hs. apply zero_in_In in Hs. destruct Hs as [_ Hno]. apply Hno. exact Hd.
Qed.

Lemma gens_none_cycle_aux fuel : forall rem edges, (length rem <= fuel)%nat ->
  gens fuel rem edges = None -> exists sub, pred_closed sub rem edges.
Proof.
  induction fuel as [|fuel IH]; intros rem edges Hlen H;
    destruct (gens_none_inv _ _ _ H) as [Hne [Hf|(f & Hf & Hc)]]; try discriminate.
  - destruct rem; [contradiction|simpl in Hlen; lia].
  - inversion Hf; subst f. destruct Hc as [Hz|[Hz Hr]].
    + exists rem. split; [exact Hne|]. split; [apply incl_refl|].
      intros n Hn.
      destruct (existsb (fun e => node_eqb (snd e) n && nmem (fst e) rem) edges) eqn:E.
      * apply existsb_exists in E. destruct E as [[d s0] [He Hc]]. simpl in Hc.
        apply andb_true_iff in Hc. destruct Hc as [H1 H2].
        apply node_eqb_eq in H1. apply nmem_In in H2. subst s0. exists d. split; assumption.
      * exfalso. assert (Hin : In n (zero_in rem edges)).
        { unfold zero_in. apply filter_In. split; [exact Hn|]. rewrite E. reflexivity. }
        rewrite Hz in Hin. contradiction.
    + assert (Hlt : (length (peel rem edges) < length rem)%nat).
      { destruct (zero_in rem edges) as [|z0 z'] eqn:Z; [contradiction|].
        assert (Hz0 : In z0 (zero_in rem edges)) by (rewrite Z; left; reflexivity).
        unfold peel. apply filter_length_lt with z0.
        - apply zero_in_In in Hz0. tauto.
        - rewrite Z. apply negb_false_iff. apply nmem_In. left. reflexivity. }
      destruct (IH (peel rem edges) edges) as [sub (Hs1 & Hs2 & Hs3)]; [lia|exact Hr|].
      exists sub. split; [exact Hs1|]. split; [|exact Hs3].
      intros n Hn. apply Hs2 in Hn. apply peel_In in Hn. tauto.
Qed.

Theorem gens_none_cycle : forall rem edges, NoDup rem -> gens (length rem) rem edges = None ->
  exists sub, pred_closed sub rem edges.
Proof.
  intros rem edges _ H. apply (gens_none_cycle_aux (length rem) rem edges (le_n _) H).
Qed.

Lemma gens_some_acyclic_aux fuel : forall rem edges gs sub, gens fuel rem edges = Some gs ->
  pred_closed sub rem edges -> False.
Proof.
  induction fuel as [|fuel IH]; intros rem edges gs sub H (Hs1 & Hs2 & Hs3);
    destruct (gens_inv _ _ _ _ H) as [[-> ->]|(f & r & Hf & Hne & Hz & -> & Hr)];
    try discriminate.
  - destruct sub as [|n sub]; [apply Hs1; reflexivity|]. apply (Hs2 n). left. reflexivity.
  - destruct sub as [|n sub]; [apply Hs1; reflexivity|]. apply (Hs2 n). left. reflexivity.
  - inversion Hf; subst f. apply (IH _ _ _ sub Hr). split; [exact Hs1|]. split; [|exact Hs3].
    intros n Hn. apply peel_In. split; [apply Hs2; exact Hn|].
    intro Hin. apply zero_in_In in Hin. destruct Hin as [_ Hno].
    destruct (Hs3 n Hn) as (d & Hd & He). apply (Hno d); [apply Hs2; exact Hd|exact He].
Qed.

Theorem gens_some_acyclic fuel : forall rem edges gs, NoDup rem -> gens fuel rem edges = Some gs ->
  ~ exists sub, pred_closed sub rem edges.
Proof.
  intros rem edges gs _ H [sub Hsub]. apply (gens_some_acyclic_aux fuel rem edges gs sub H Hsub).
Qed.

(* ---------- sorting of a layer ---------- *)
Lemma nins_perm n l : Permutation (nins n l) (n :: l).
Proof.
  induction l as [|x r IH]; simpl; [apply Permutation_refl|].
  destruct (node_ltb n x); [apply Permutation_refl|].
  apply Permutation_trans with (x :: n :: r); [constructor; exact IH|apply perm_swap].
Qed.

Lemma fold_nins_perm l : forall acc,
  Permutation (fold_left (fun acc n => nins n acc) l acc) (l ++ acc).
Proof.
  induction l as [|x l IH]; intro acc; simpl; [apply Permutation_refl|].
  eapply Permutation_trans; [apply IH|].
  apply Permutation_trans with (l ++ x :: acc).
  - apply Permutation_app_head. apply nins_perm.
  - apply Permutation_sym. apply Permutation_middle.
Qed.

Theorem nsort_perm l : Permutation (nsort l) l.
Proof.
  unfold nsort. pose proof (fold_nins_perm l []) as H. rewrite app_nil_r in H. exact H.
Qed.

Lemma seg_ltb_irrefl x : seg_ltb x x = false.
Proof. destruct x; simpl; [reflexivity|apply N.ltb_irrefl]. Qed.

Lemma seg_ltb_asym x y : seg_ltb x y = true -> seg_ltb y x = false.
Proof.
  destruct x as [|a], y as [|b]; simpl; intro H; try reflexivity; try discriminate.
  apply N.ltb_lt in H. apply N.ltb_ge. lia.
Qed.

Lemma node_ltb_asym a : forall b, node_ltb a b = true -> node_ltb b a = false.
Proof.
  induction a as [|x a IH]; intros [|y b]; simpl; intro H; try reflexivity; try discriminate.
  apply orb_true_iff in H. destruct H as [H|H].
  - rewrite (seg_ltb_asym _ _ H). simpl.
    destruct (seg_eqb y x) eqn:E; [|reflexivity].
    apply seg_eqb_eq in E. subst. rewrite seg_ltb_irrefl in H. discriminate.
  - apply andb_true_iff in H. destruct H as [H1 H2]. apply seg_eqb_eq in H1. subst y.
    rewrite seg_ltb_irrefl. simpl. rewrite (IH _ H2). apply andb_false_r.
Qed.

Lemma nins_sorted n l :
  LocallySorted (fun a b => node_ltb b a = false) l ->
  LocallySorted (fun a b => node_ltb b a = false) (nins n l).
Proof.
  induction l as [|x r IH]; intro H; simpl.
  - constructor.
  - destruct (node_ltb n x) eqn:E.
    + constructor; [exact H|]. apply node_ltb_asym. exact E.
    + destruct r as [|y r'].
      * simpl. constructor; [constructor|exact E].
      * inversion H as [| |? ? ? Hs Hr]; subst. specialize (IH Hs). simpl in IH. simpl.
        destruct (node_ltb n y); constructor; assumption.
Qed.

Lemma fold_nins_sorted l : forall acc,
  LocallySorted (fun a b => node_ltb b a = false) acc ->
  LocallySorted (fun a b => node_ltb b a = false) (fold_left (fun acc n => nins n acc) l acc).
Proof.
  induction l as [|x l IH]; intros acc H; simpl; [exact H|].
  apply IH. apply nins_sorted. exact H.
Qed.

Theorem nsort_sorted l : LocallySorted (fun a b => node_ltb b a = false) (nsort l).
Proof. unfold nsort. apply fold_nins_sorted. constructor. Qed.

(* ---------- validation and layers ---------- *)
Theorem validate_ok g : validate g = Ok g <->
  (generations g <> None /\ forall n, In n (gnodes g) -> ~ In n (seq g)).
Proof.
  unfold validate. destruct (generations g) as [gs|] eqn:G.
  - destruct (existsb (fun n => nmem n (seq g)) (gnodes g)) eqn:E.
    + split; [discriminate|]. intros [_ Hd]. apply existsb_exists in E.
      destruct E as [n [Hn Hm]]. apply nmem_In in Hm. exfalso. apply (Hd n Hn Hm).
    + split; [|reflexivity]. intros _. split; [discriminate|]. intros n Hn Hs.
      assert (Ht : existsb (fun n => nmem n (seq g)) (gnodes g) = true).
      { apply existsb_exists. exists n. split; [exact Hn|]. apply nmem_In. exact Hs. }
      rewrite Ht in E. discriminate.
  - split; [discriminate|]. intros [Hc _]. exfalso. apply Hc. reflexivity.
Qed.

Theorem validate_cycle g : NoDup (gnodes g) ->
  (validate g = Err ECycle <-> exists sub, pred_closed sub (gnodes g) (gedges g)).
Proof.
  intro Hnd. unfold validate. split.
  - intro H. destruct (generations g) as [gs|] eqn:G.
    + destruct (existsb (fun n => nmem n (seq g)) (gnodes g)); discriminate.
    + unfold generations in G. apply gens_none_cycle; assumption.
  - intro Hex. destruct (generations g) as [gs|] eqn:G; [|reflexivity].
    exfalso. unfold generations in G. apply (gens_some_acyclic _ _ _ _ Hnd G Hex).
Qed.

Theorem layers_seq_first g gs : generations g = Some gs ->
  layers g = map (fun n => [n]) (seq g) ++ map nsort gs.
Proof. intro H. unfold layers. rewrite H. reflexivity. Qed.

Lemma concat_map_single {A} (l : list A) : concat (map (fun n => [n]) l) = l.
Proof. induction l as [|x l IH]; simpl; [reflexivity|]. rewrite IH. reflexivity. Qed.

Lemma concat_map_nsort_perm gs : Permutation (concat (map nsort gs)) (concat gs).
Proof.
  induction gs as [|a gs IH]; simpl; [constructor|].
  apply Permutation_app; [apply nsort_perm|exact IH].
Qed.

Lemma generations_some g : validate g = Ok g ->
  exists gs, generations g = Some gs /\ forall n, In n (gnodes g) -> ~ In n (seq g).
Proof.
  intro Hv. apply validate_ok in Hv. destruct Hv as [Hg Hd].
  destruct (generations g) as [gs|] eqn:G; [|exfalso; apply Hg; reflexivity].
  exists gs. split; [reflexivity|exact Hd].
Qed.

Lemma layers_perm g : validate g = Ok g -> Permutation (concat (layers g)) (seq g ++ gnodes g).
Proof.
  intro Hv. destruct (generations_some g Hv) as (gs & G & Hd).
  rewrite (layers_seq_first g gs G). rewrite concat_app. rewrite concat_map_single.
  apply Permutation_app_head. eapply Permutation_trans; [apply concat_map_nsort_perm|].
  unfold generations in G. apply (gens_perm _ _ _ _ G).
Qed.

Theorem layers_partition g : validate g = Ok g -> NoDup (gnodes g) -> NoDup (seq g) ->
  Permutation (concat (layers g)) (seq g ++ gnodes g) /\ NoDup (concat (layers g)).
Proof.
  intros Hv Hng Hns. pose proof (layers_perm g Hv) as Hp. split; [exact Hp|].
  destruct (generations_some g Hv) as (gs & G & Hd).
  apply Permutation_NoDup with (seq g ++ gnodes g); [apply Permutation_sym; exact Hp|].
  apply NoDup_app_intro; [exact Hns|exact Hng|]. intros x Hx Hgx. apply (Hd x Hgx Hx).
Qed.

Lemma nmem_perm n l l' : Permutation l l' -> nmem n l = nmem n l'.
Proof.
  intro Hp. destruct (nmem n l') eqn:E.
  - apply nmem_In. apply nmem_In in E. apply Permutation_in with l'; [apply Permutation_sym; exact Hp|exact E].
  - apply nmem_false. intro Hin. apply (proj1 (nmem_false _ _) E).
    apply Permutation_in with l; assumption.
Qed.

Lemma layer_index_map_nsort n gs : layer_index n (map nsort gs) = layer_index n gs.
Proof.
  induction gs as [|a gs IH]; simpl; [reflexivity|].
  rewrite (nmem_perm n (nsort a) a (nsort_perm a)), IH. reflexivity.
Qed.

Lemma layer_index_seq_skip n sq rest : ~ In n sq ->
  layer_index n (map (fun n => [n]) sq ++ rest) =
  option_map (fun k => (length sq + k)%nat) (layer_index n rest).
Proof.
  induction sq as [|a sq IH]; intro Hn.
  - simpl. destruct (layer_index n rest); reflexivity.
  - assert (E : nmem n [a] = false).
    { apply nmem_false. intros [->|[]]. apply Hn. left. reflexivity. }
    change (layer_index n (map (fun n => [n]) (a :: sq) ++ rest))
      with (if nmem n [a] then Some O else
              match layer_index n (map (fun n => [n]) sq ++ rest) with
              | Some k => Some (S k) | None => None end).
    rewrite E, IH.
    + destruct (layer_index n rest); reflexivity.
    + intro H. apply Hn. right. exact H.
Qed.

Lemma layer_index_seq_hit q sq rest : In q sq ->
  exists i, layer_index q (map (fun n => [n]) sq ++ rest) = Some i /\ (i < length sq)%nat.
Proof.
  induction sq as [|a sq IH]; intro Hq; [contradiction|].
  change (layer_index q (map (fun n => [n]) (a :: sq) ++ rest))
    with (if nmem q [a] then Some O else
            match layer_index q (map (fun n => [n]) sq ++ rest) with
            | Some k => Some (S k) | None => None end).
  destruct (nmem q [a]) eqn:E.
  - exists O. split; [reflexivity|simpl; lia].
  - destruct Hq as [->|Hq].
    + exfalso. apply (proj1 (nmem_false _ _) E). left. reflexivity.
    + destruct (IH Hq) as (i & Hi & Hlt). rewrite Hi. exists (S i). split; [reflexivity|simpl; lia].
Qed.

Theorem layers_respect_deps g d s : validate g = Ok g -> NoDup (gnodes g) ->
  In (d, s) (gedges g) -> In d (gnodes g) -> In s (gnodes g) ->
  exists i j, layer_index d (layers g) = Some i /\ layer_index s (layers g) = Some j /\ (i < j)%nat.
Proof.
  intros Hv Hnd He Hd Hs. destruct (generations_some g Hv) as (gs & G & Hdis).
  rewrite (layers_seq_first g gs G). unfold generations in G.
  destruct (gens_respect_deps_aux _ _ _ _ d s G He Hd Hs) as (i & j & Hi & Hj & Hlt).
  exists (length (seq g) + i)%nat, (length (seq g) + j)%nat.
  rewrite (layer_index_seq_skip d) by (apply Hdis; exact Hd).
  rewrite (layer_index_seq_skip s) by (apply Hdis; exact Hs).
  rewrite !layer_index_map_nsort, Hi, Hj. simpl. repeat split. lia.
Qed.

Theorem layers_seq_before_graph g q n : validate g = Ok g -> In q (seq g) -> In n (gnodes g) ->
  exists i j, layer_index q (layers g) = Some i /\ layer_index n (layers g) = Some j /\ (i < j)%nat.
Proof.
  intros Hv Hq Hn. destruct (generations_some g Hv) as (gs & G & Hdis).
  rewrite (layers_seq_first g gs G). unfold generations in G.
  destruct (layer_index_seq_hit q (seq g) (map nsort gs) Hq) as (i & Hi & Hlt).
  assert (Hc : In n (concat gs)).
  { apply Permutation_in with (gnodes g); [|exact Hn].
    apply Permutation_sym. apply (gens_perm _ _ _ _ G). }
  destruct (In_layer_index _ _ Hc) as [k Hk].
  exists i, (length (seq g) + k)%nat. split; [exact Hi|].
  rewrite (layer_index_seq_skip n) by (apply Hdis; exact Hn).
  rewrite layer_index_map_nsort, Hk. simpl. split; [reflexivity|lia].
Qed.

Theorem validate_flow_ok sp flow : validate_flow sp flow = Ok tt <->
  forall s ds d, In (s, ds) flow -> In d ds -> In (removelast s ++ d) sp.
Proof.
  unfold validate_flow. split.
  - intros H s ds d Hf Hd.
    destruct (forallb (fun sf => forallb (fun d => nmem (removelast (fst sf) ++ d) sp) (snd sf)) flow) eqn:E;
      [|discriminate].
    rewrite forallb_forall in E. specialize (E (s, ds) Hf). simpl in E.
    rewrite forallb_forall in E. apply nmem_In. apply E. exact Hd.
  - intro H.
    assert (E : forallb (fun sf => forallb (fun d => nmem (removelast (fst sf) ++ d) sp) (snd sf)) flow = true).
    { apply forallb_forall. intros [s ds] Hf. simpl. apply forallb_forall. intros d Hd.
      apply nmem_In. apply (H s ds d Hf Hd). }
    rewrite E. reflexivity.
Qed.

Theorem add_step_path_deps g path ds :
  add_step_path g path (Some ds) = graph_add g path (map (fun d => normalize (path ++ [Up] ++ d)) ds).
Proof. reflexivity. Qed.

(* ---------- one step phase ---------- *)
Lemma sublist_app {A} (a b c d : list A) : sublist a b -> sublist c d -> sublist (a ++ c) (b ++ d).
Proof.
  intros H1 H2. induction H1 as [|x l m H IH|x l m H IH]; simpl.
  - exact H2.
  - apply sub_skip. exact IH.
  - apply sub_take. exact IH.
Qed.

Lemma sublist_filter {A} (p : A -> bool) l : sublist (filter p l) l.
Proof.
  induction l as [|x l IH]; simpl; [constructor|].
  destruct (p x); [apply sub_take|apply sub_skip]; exact IH.
Qed.

Lemma app_split_notin {A} (X : list A) : forall new pre post b, ~ In b X ->
  X ++ new = pre ++ b :: post -> exists pre', pre = X ++ pre' /\ new = pre' ++ b :: post.
Proof.
  induction X as [|x X IH]; simpl; intros new pre post b Hn H.
  - exists pre. split; [reflexivity|exact H].
  - destruct pre as [|p pre]; simpl in H; inversion H as [[Hx Hr]].
    + exfalso. apply Hn. left. exact Hx.
    + destruct (IH new pre post b) as (pre' & Hp & Hq).
      * intro Hb. apply Hn. right. exact Hb.
      * exact Hr.
      * exists pre'. split; [rewrite Hp; reflexivity|exact Hq].
Qed.

Section PhaseProofs.
Context {Sg U : Type}.
Variable step_fn : node -> Sg -> U.
Variable apply1 : Sg -> list node -> node -> U -> Sg * list node.

Definition layer_step (l : list node) (s : Sg) (live : list node) : Sg * list node :=
  fold_left (fun acc nu => apply1 (fst acc) (snd acc) (fst nu) (snd nu))
    (map (fun n => (n, step_fn n s)) (filter (fun n => nmem n live) l)) (s, live).

Definition layer_log (l : list node) (s : Sg) (live : list node) : list (sev Sg) :=
  map (fun n => ERun Sg n s) (filter (fun n => nmem n live) l).

Lemma run_layers_cons l rest s live log0 :
  run_layers Sg U step_fn apply1 (l :: rest) s live log0 =
  run_layers Sg U step_fn apply1 rest (fst (layer_step l s live)) (snd (layer_step l s live))
    (log0 ++ layer_log l s live).
Proof.
  unfold layer_step, layer_log. simpl.
  destruct (fold_left _ _ _) as [s1 l1]. reflexivity.
Qed.

Lemma layer_log_nodes l s live : map node_of (layer_log l s live) = filter (fun n => nmem n live) l.
Proof.
  unfold layer_log. rewrite map_map. simpl. apply map_id.
Qed.

Lemma layer_log_In l s live e : In e (layer_log l s live) -> In (node_of e) l /\ state_of e = s.
Proof.
  unfold layer_log. intro He. apply in_map_iff in He. destruct He as [n [<- Hn]]. simpl.
  apply filter_In in Hn. tauto.
Qed.

Lemma phase_sublist_aux :
  forall ls s live log0 s' live' log, run_layers Sg U step_fn apply1 ls s live log0 = (s', live', log) ->
  exists new, log = log0 ++ new /\ sublist (map node_of new) (concat ls).
Proof.
  induction ls as [|l rest IH]; intros s live log0 s' live' log H.
  - simpl in H. inversion H; subst. exists []. rewrite app_nil_r. split; [reflexivity|constructor].
  - rewrite run_layers_cons in H. apply IH in H. destruct H as [new [Hl Hs]].
    exists (layer_log l s live ++ new). split.
    + rewrite Hl, app_assoc. reflexivity.
    + rewrite map_app, layer_log_nodes. simpl. apply sublist_app; [apply sublist_filter|exact Hs].
Qed.

Lemma fold_apply_live (Hsnd : forall s lv n u, snd (apply1 s lv n u) = lv) :
  forall us acc, snd (fold_left (fun acc nu => apply1 (fst acc) (snd acc) (fst nu) (snd nu)) us acc) = snd acc.
Proof.
  induction us as [|u us IH]; intro acc; simpl; [reflexivity|]. rewrite IH. apply Hsnd.
Qed.

Lemma phase_once_static_aux (Hsnd : forall s lv n u, snd (apply1 s lv n u) = lv) :
  forall ls s live log0 s' live' log, run_layers Sg U step_fn apply1 ls s live log0 = (s', live', log) ->
  map node_of log = map node_of log0 ++ filter (fun n => nmem n live) (concat ls) /\ live' = live.
Proof.
  induction ls as [|l rest IH]; intros s live log0 s' live' log H.
  - simpl in H. inversion H; subst. simpl. rewrite app_nil_r. split; reflexivity.
  - rewrite run_layers_cons in H.
    assert (Hlive : snd (layer_step l s live) = live).
    { unfold layer_step. rewrite (fold_apply_live Hsnd). reflexivity. }
    rewrite Hlive in H. apply IH in H. destruct H as [H1 H2]. split; [|exact H2].
    rewrite H1, map_app, layer_log_nodes. simpl. rewrite filter_app, app_assoc. reflexivity.
Qed.

Lemma snapshot_aux :
  forall ls s live log0 s' live' log, NoDup (concat ls) ->
  run_layers Sg U step_fn apply1 ls s live log0 = (s', live', log) ->
  exists new, log = log0 ++ new /\
    (forall e, In e new -> In (node_of e) (concat ls)) /\
    (forall l e1 e2, In l ls -> In e1 new -> In e2 new ->
       In (node_of e1) l -> In (node_of e2) l -> state_of e1 = state_of e2).
Proof.
  induction ls as [|l0 rest IH]; intros s live log0 s' live' log Hnd H.
  - simpl in H. inversion H; subst. exists []. rewrite app_nil_r. split; [reflexivity|].
    split.
    + intros e He. destruct He.
    + intros l e1 e2 Hl. destruct Hl.
  - rewrite run_layers_cons in H. simpl in Hnd.
    assert (Hnd' : NoDup (concat rest)) by (apply NoDup_app_tail in Hnd; exact Hnd).
    destruct (IH _ _ _ _ _ _ Hnd' H) as (new & Hl & Hin & Hst).
    pose proof (layer_log_In l0 s live) as HA.
    exists (layer_log l0 s live ++ new). split; [rewrite Hl, app_assoc; reflexivity|]. split.
    + intros e He. simpl. apply in_or_app. apply in_app_or in He.
      destruct He as [He|He]; [left; apply HA; exact He|right; apply Hin; exact He].
    + intros l e1 e2 Hl' H1 H2 Hn1 Hn2.
      assert (Hcl : forall n, In l rest -> In n l -> In n (concat rest)).
      { intros n Hlr Hn. apply in_concat. exists l. split; assumption. }
      apply in_app_or in H1. apply in_app_or in H2.
      destruct H1 as [H1|H1], H2 as [H2|H2].
      * rewrite (proj2 (HA _ H1)), (proj2 (HA _ H2)). reflexivity.
      * exfalso. destruct Hl' as [<-|Hlr].
        -- apply (NoDup_app_disj _ _ (node_of e2) Hnd Hn2 (Hin _ H2)).
        -- apply (NoDup_app_disj _ _ (node_of e1) Hnd (proj1 (HA _ H1)) (Hcl _ Hlr Hn1)).
      * exfalso. destruct Hl' as [<-|Hlr].
        -- apply (NoDup_app_disj _ _ (node_of e1) Hnd Hn1 (Hin _ H1)).
        -- apply (NoDup_app_disj _ _ (node_of e2) Hnd (proj1 (HA _ H2)) (Hcl _ Hlr Hn2)).
      * destruct Hl' as [<-|Hlr].
        -- exfalso. apply (NoDup_app_disj _ _ (node_of e1) Hnd Hn1 (Hin _ H1)).
        -- apply (Hst l e1 e2 Hlr H1 H2 Hn1 Hn2).
Qed.

Lemma order_aux :
  forall ls s live log0 s' live' log, NoDup (concat ls) ->
  run_layers Sg U step_fn apply1 ls s live log0 = (s', live', log) ->
  exists new, log = log0 ++ new /\
    (forall e, In e new -> In (node_of e) (concat ls)) /\
    (forall a b i j pre post, layer_index (node_of a) ls = Some i ->
       layer_index (node_of b) ls = Some j -> (i < j)%nat ->
       new = pre ++ b :: post -> ~ In a post).
Proof.
  induction ls as [|l0 rest IH]; intros s live log0 s' live' log Hnd H.
  - simpl in H. inversion H; subst. exists []. rewrite app_nil_r. split; [reflexivity|].
    split.
    + intros e He. destruct He.
    + intros a b i j pre post Hi. simpl in Hi. discriminate.
  - rewrite run_layers_cons in H. simpl in Hnd.
    assert (Hnd' : NoDup (concat rest)) by (apply NoDup_app_tail in Hnd; exact Hnd).
    destruct (IH _ _ _ _ _ _ Hnd' H) as (new & Hl & Hin & Hord).
    pose proof (layer_log_In l0 s live) as HA.
    exists (layer_log l0 s live ++ new). split; [rewrite Hl, app_assoc; reflexivity|]. split.
    + intros e He. simpl. apply in_or_app. apply in_app_or in He.
      destruct He as [He|He]; [left; apply HA; exact He|right; apply Hin; exact He].
    + intros a b i j pre post Hi Hj Hlt Hsplit Ha.
      simpl in Hj. destruct (nmem (node_of b) l0) eqn:Eb.
      { inversion Hj; subst. lia. }
      destruct (layer_index (node_of b) rest) as [j'|] eqn:Hj'; [|discriminate].
      inversion Hj; subst j.
      assert (Hb : ~ In b (layer_log l0 s live)).
      { intro Hb. apply HA in Hb. destruct Hb as [Hb _]. apply nmem_In in Hb.
        rewrite Hb in Eb. discriminate. }
      destruct (app_split_notin _ _ _ _ _ Hb Hsplit) as (pre' & Hpre & Hnew).
      assert (Han : In a new). { rewrite Hnew. apply in_or_app. right. right. exact Ha. }
      assert (Ea : nmem (node_of a) l0 = false).
      { apply nmem_false. intro Hx. apply (NoDup_app_disj _ _ (node_of a) Hnd Hx (Hin _ Han)). }
      simpl in Hi. rewrite Ea in Hi.
      destruct (layer_index (node_of a) rest) as [i'|] eqn:Hi'; [|discriminate].
      inversion Hi; subst i.
      apply (Hord a b i' j' pre' post Hi' Hj'); [lia|exact Hnew|exact Ha].
Qed.

End PhaseProofs.

Theorem phase_sublist {Sg U} (step_fn : node -> Sg -> U) (apply1 : Sg -> list node -> node -> U -> Sg * list node) :
  forall ls s live log0 s' live' log, run_layers Sg U step_fn apply1 ls s live log0 = (s', live', log) ->
  exists new, log = log0 ++ new /\ sublist (map node_of new) (concat ls).
Proof. apply phase_sublist_aux. Qed.

Theorem phase_once_static {Sg U} (step_fn : node -> Sg -> U) (apply1 : Sg -> list node -> node -> U -> Sg * list node) :
  (forall s lv n u, snd (apply1 s lv n u) = lv) ->
  forall ls s live s' live' log, run_layers Sg U step_fn apply1 ls s live [] = (s', live', log) ->
  map node_of log = filter (fun n => nmem n live) (concat ls) /\ live' = live.
Proof.
  intros Hsnd ls s live s' live' log H.
  apply (phase_once_static_aux step_fn apply1 Hsnd) in H. simpl in H. exact H.
Qed.

Theorem layer_same_snapshot {Sg U} (step_fn : node -> Sg -> U) (apply1 : Sg -> list node -> node -> U -> Sg * list node) :
  forall ls s live s' live' log, NoDup (concat ls) ->
  run_layers Sg U step_fn apply1 ls s live [] = (s', live', log) ->
  forall l e1 e2, In l ls -> In e1 log -> In e2 log -> In (node_of e1) l -> In (node_of e2) l ->
  state_of e1 = state_of e2.
Proof.
  intros ls s live s' live' log Hnd H.
  destruct (snapshot_aux step_fn apply1 _ _ _ _ _ _ _ Hnd H) as (new & Hl & _ & Hst).
  simpl in Hl. subst new. exact Hst.
Qed.

Theorem phase_order {Sg U} (step_fn : node -> Sg -> U) (apply1 : Sg -> list node -> node -> U -> Sg * list node) :
  forall ls s live s' live' log, NoDup (concat ls) ->
  run_layers Sg U step_fn apply1 ls s live [] = (s', live', log) ->
  forall i j a b pre post, layer_index (node_of a) ls = Some i -> layer_index (node_of b) ls = Some j -> (i < j)%nat ->
  log = pre ++ b :: post -> ~ In a post.
Proof.
  intros ls s live s' live' log Hnd H.
  destruct (order_aux step_fn apply1 _ _ _ _ _ _ _ Hnd H) as (new & Hl & _ & Hord).
  simpl in Hl. subst new. intros i j a b pre post. apply Hord.
Qed.

Print Assumptions seg_eqb_eq.
Print Assumptions node_eqb_eq.
Print Assumptions nmem_In.
Print Assumptions gens_partition.
Print Assumptions gens_nonempty.
Print Assumptions gens_respect_deps.
Print Assumptions gens_earliest.
Print Assumptions gens_roots.
Print Assumptions gens_none_cycle.
Print Assumptions gens_some_acyclic.
Print Assumptions nsort_perm.
Print Assumptions nsort_sorted.
Print Assumptions validate_ok.
Print Assumptions validate_cycle.
Print Assumptions layers_seq_first.
Print Assumptions layers_partition.
Print Assumptions layers_respect_deps.
Print Assumptions layers_seq_before_graph.
Print Assumptions validate_flow_ok.
Print Assumptions add_step_path_deps.
Print Assumptions phase_sublist.
Print Assumptions phase_once_static.
Print Assumptions layer_same_snapshot.
Print Assumptions phase_order.
