(* Proofs about Model/Serialize.v (C14). *)
From Coq Require Import List NArith ZArith Bool String Ascii Lia.
From Viv Require Import Model.Serialize.
Import ListNotations.
Open Scope string_scope.

(* the value contains an object without serializer, or a dict key that is not a plain string *)
Fixpoint has_bad (v : pval) : bool :=
  match v with
  | PUnsupported => true
  | PList l | PTuple l | PSet l | PNpArr l => existsb has_bad l
  | PDict d => existsb (fun kx => match fst kx with KStr _ => has_bad (snd kx) | _ => true end) d
  | _ => false
  end.
(* plain data read back without any quantity parsing *)
Fixpoint plain (j : jval) : dval :=
  match j with
  | JNull => DNone | JBool b => DBool b | JNum n => DNum n | JStr s => DStr s
  | JList l => DList (map plain l)
  | JObj d => DDict ((fix go (d : list (string * jval)) : list (string * dval) :=
                        match d with [] => [] | (k, x) :: r => (k, plain x) :: go r end) d)
  end.

(* ---- induction principles for the nested inductives ---- *)
Section PvalInd.
  Variable P : pval -> Prop.
  Hypothesis HNone : P PNone.
  Hypothesis HBool : forall b, P (PBool b).
  Hypothesis HNum : forall n, P (PNum n).
  Hypothesis HStr : forall s, P (PStr s).
  Hypothesis HList : forall l, Forall P l -> P (PList l).
  Hypothesis HTuple : forall l, Forall P l -> P (PTuple l).
  Hypothesis HSet : forall l, Forall P l -> P (PSet l).
  Hypothesis HDict : forall d, Forall (fun kx => P (snd kx)) d -> P (PDict d).
  Hypothesis HNpScalar : forall n, P (PNpScalar n).
  Hypothesis HNpArr : forall l, Forall P l -> P (PNpArr l).
  Hypothesis HQty : forall p, P (PQty p).
  Hypothesis HUnit : forall p, P (PUnit p).
  Hypothesis HProc : forall p, P (PProc p).
  Hypothesis HFun : forall p, P (PFun p).
  Hypothesis HNan : P PNanFloat.
  Hypothesis HUnsup : P PUnsupported.

  Fixpoint pval_ind' (v : pval) : P v :=
    let go_list := fix go (l : list pval) : Forall P l :=
                     match l with
                     | [] => Forall_nil _
                     | x :: r => Forall_cons x (pval_ind' x) (go r)
                     end in
    match v with
    | PNone => HNone
    | PBool b => HBool b
    | PNum n => HNum n
    | PStr s => HStr s
    | PList l => HList l (go_list l)
    | PTuple l => HTuple l (go_list l)
    | PSet l => HSet l (go_list l)
    | PDict d => HDict d ((fix go (d : list (dkey * pval)) : Forall (fun kx => P (snd kx)) d :=
                             match d with
                             | [] => Forall_nil _
                             | kx :: r => Forall_cons kx (pval_ind' (snd kx)) (go r)
                             end) d)
    | PNpScalar n => HNpScalar n
    | PNpArr l => HNpArr l (go_list l)
    | PQty p => HQty p
    | PUnit p => HUnit p
    | PProc p => HProc p
    | PFun p => HFun p
    | PNanFloat => HNan
    | PUnsupported => HUnsup
    end.
End PvalInd.

Section JvalInd.
  Variable P : jval -> Prop.
  Hypothesis HNull : P JNull.
  Hypothesis HBool : forall b, P (JBool b).
  Hypothesis HNum : forall n, P (JNum n).
  Hypothesis HStr : forall s, P (JStr s).
  Hypothesis HList : forall l, Forall P l -> P (JList l).
  Hypothesis HObj : forall d, Forall (fun kx => P (snd kx)) d -> P (JObj d).

  Fixpoint jval_ind' (j : jval) : P j :=
    match j with
    | JNull => HNull
    | JBool b => HBool b
    | JNum n => HNum n
    | JStr s => HStr s
    | JList l => HList l ((fix go (l : list jval) : Forall P l :=
                             match l with
                             | [] => Forall_nil _
                             | x :: r => Forall_cons x (jval_ind' x) (go r)
                             end) l)
    | JObj d => HObj d ((fix go (d : list (string * jval)) : Forall (fun kx => P (snd kx)) d :=
                           match d with
                           | [] => Forall_nil _
                           | kx :: r => Forall_cons kx (jval_ind' (snd kx)) (go r)
                           end) d)
    end.
End JvalInd.

(* ---- the inner loops as top-level functions ---- *)
Fixpoint ser_list (l : list pval) : sres jval :=
  match l with
  | [] => SOk (JList [])
  | x :: r => match ser x, ser_list r with
              | SOk j, SOk (JList js) => SOk (JList (j :: js))
              | SErr e, _ => SErr e
              | _, SErr e => SErr e
              | _, _ => SErr TypeErrorNoSerializer
              end
  end.

Fixpoint ser_dict (d : list (dkey * pval)) : sres jval :=
  match d with
  | [] => SOk (JObj [])
  | (KStr k, x) :: r => match ser x, ser_dict r with
                        | SOk j, SOk (JObj js) => SOk (JObj ((k, j) :: js))
                        | SErr e, _ => SErr e
                        | _, SErr e => SErr e
                        | _, _ => SErr TypeErrorNoSerializer
                        end
  | (_, _) :: _ => SErr TypeErrorKey
  end.

Fixpoint embed_obj (d : list (string * jval)) : list (dkey * pval) :=
  match d with [] => [] | (k, x) :: r => (KStr k, embed x) :: embed_obj r end.

Fixpoint deser_obj (d : list (string * jval)) : list (string * dval) :=
  match d with [] => [] | (k, x) :: r => (k, deser x) :: deser_obj r end.

Fixpoint plain_obj (d : list (string * jval)) : list (string * dval) :=
  match d with [] => [] | (k, x) :: r => (k, plain x) :: plain_obj r end.

Fixpoint norm_dict (d : list (dkey * pval)) : list (string * dval) :=
  match d with
  | [] => []
  | (KStr k, x) :: r => (k, normalise x) :: norm_dict r
  | (KInt _, x) :: r | (KNpStr _, x) :: r => norm_dict r
  end.

Definition bad_kx (kx : dkey * pval) : bool :=
  match fst kx with KStr _ => has_bad (snd kx) | _ => true end.

Lemma ser_PList l : ser (PList l) = ser_list l.
Proof. reflexivity. Qed.
Lemma ser_PTuple l : ser (PTuple l) = ser_list l.
Proof. reflexivity. Qed.
Lemma ser_PSet l : ser (PSet l) = ser_list l.
Proof. reflexivity. Qed.
Lemma ser_PNpArr l : ser (PNpArr l) = ser_list l.
Proof. reflexivity. Qed.
Lemma ser_PDict d : ser (PDict d) = ser_dict d.
Proof. reflexivity. Qed.
Lemma embed_JObj d : embed (JObj d) = PDict (embed_obj d).
Proof. reflexivity. Qed.
Lemma deser_JObj d : deser (JObj d) = DDict (deser_obj d).
Proof. reflexivity. Qed.
Lemma plain_JObj d : plain (JObj d) = DDict (plain_obj d).
Proof. reflexivity. Qed.
Lemma normalise_PDict d : normalise (PDict d) = DDict (norm_dict d).
Proof. reflexivity. Qed.
Lemma has_bad_PDict d : has_bad (PDict d) = existsb bad_kx d.
Proof. reflexivity. Qed.

(* ---- the marker regex ---- *)
Lemma strip_prefix_app p s : strip_prefix p (p ++ s) = Some s.
Proof.
  induction p as [|c p IHp]; cbn [append strip_prefix].
  - reflexivity.
  - rewrite Ascii.eqb_refl. exact IHp.
Qed.

Lemma strip_prefix_some p s r : strip_prefix p s = Some r -> s = p ++ r.
Proof.
  revert s. induction p as [|c p IHp]; intros s H; cbn [append strip_prefix] in *.
  - injection H as H. exact H.
  - destruct s as [|d s]; [discriminate|].
    destruct (Ascii.eqb c d) eqn:E; [|discriminate].
    apply Ascii.eqb_eq in E. subst d. f_equal. apply IHp. exact H.
Qed.

Lemma slb_cons c r :
  r <> EmptyString ->
  strip_last_bracket (String c r) =
  match strip_last_bracket r with Some b => Some (String c b) | None => None end.
Proof.
  intros Hr. destruct r as [|a r]; [congruence|reflexivity].
Qed.

Lemma strip_last_bracket_app b : strip_last_bracket (b ++ "]") = Some b.
Proof.
  induction b as [|c b IHb].
  - reflexivity.
  - cbn [append]. rewrite slb_cons.
    + rewrite IHb. reflexivity.
    + destruct b as [|a b]; discriminate.
Qed.

Lemma strip_last_bracket_some s b : strip_last_bracket s = Some b -> s = b ++ "]".
Proof.
  revert b. induction s as [|c s IHs]; intros b H.
  - discriminate.
  - destruct s as [|a s'].
    + cbn in H. destruct (Ascii.eqb c "]"%char) eqn:E; [|discriminate].
      injection H as <-. apply Ascii.eqb_eq in E. subst c. reflexivity.
    + rewrite slb_cons in H by discriminate.
      destruct (strip_last_bracket (String a s')) as [b'|] eqn:E; [|discriminate].
      injection H as <-. cbn [append]. f_equal. apply IHs. reflexivity.
Qed.

(* the matcher accepts exactly "!units[" ++ body ++ "]" with a newline-free body, and returns body *)
Theorem match_marker_spec s body :
  match_marker s = Some body <-> (s = marker body /\ no_newline body = true).
Proof.
  unfold match_marker, marker. split.
  - intros H.
    destruct (strip_prefix "!units[" s) as [rest|] eqn:E1; [|discriminate].
    destruct (strip_last_bracket rest) as [b|] eqn:E2; [|discriminate].
    destruct (no_newline b) eqn:E3; [|discriminate].
    injection H as <-.
    apply strip_prefix_some in E1. apply strip_last_bracket_some in E2.
    subst s rest. split; [reflexivity|exact E3].
  - intros [Hs Hn]. subst s.
    rewrite strip_prefix_app. rewrite strip_last_bracket_app. rewrite Hn. reflexivity.
Qed.

(* ---- serialize_value ---- *)
Lemma ser_embed_list l :
  Forall (fun j => ser (embed j) = SOk j) l -> ser_list (map embed l) = SOk (JList l).
Proof.
  intros HF. induction HF as [|x l Hx HF IH].
  - reflexivity.
  - cbn [map ser_list]. rewrite Hx, IH. reflexivity.
Qed.

Lemma ser_embed_obj d :
  Forall (fun kx : string * jval => ser (embed (snd kx)) = SOk (snd kx)) d ->
  ser_dict (embed_obj d) = SOk (JObj d).
Proof.
  intros HF. induction HF as [|[k x] d Hx HF IH].
  - reflexivity.
  - cbn [snd] in Hx. cbn [embed_obj ser_dict]. rewrite Hx, IH. reflexivity.
Qed.

(* idempotent on its own output *)
Theorem ser_embed j : ser (embed j) = SOk j.
Proof.
  apply (jval_ind' (fun j => ser (embed j) = SOk j)).
  - reflexivity.
  - intros b. reflexivity.
  - intros n. reflexivity.
  - intros s. reflexivity.
  - intros l HF. change (ser_list (map embed l) = SOk (JList l)).
    apply ser_embed_list. exact HF.
  - intros d HF. rewrite embed_JObj, ser_PDict. apply ser_embed_obj. exact HF.
Qed.

Definition bad_spec (v : pval) : Prop :=
  (has_bad v = true -> exists e, ser v = SErr e) /\
  (has_bad v = false -> exists j, ser v = SOk j).

Lemma ser_list_bad l :
  Forall bad_spec l ->
  (existsb has_bad l = true -> exists e, ser_list l = SErr e) /\
  (existsb has_bad l = false -> exists js, ser_list l = SOk (JList js)).
Proof.
  intros HF. induction HF as [|x l [Hx1 Hx2] HF [IH1 IH2]].
  - split; intros H; [discriminate|exists []; reflexivity].
  - cbn [existsb ser_list]. split; intros H.
    + destruct (has_bad x) eqn:Bx.
      * destruct (Hx1 eq_refl) as [e He]. rewrite He. exists e. reflexivity.
      * destruct (Hx2 eq_refl) as [jx Hjx]. cbn [orb] in H.
        destruct (IH1 H) as [e He]. rewrite Hjx, He. exists e. reflexivity.
    + apply orb_false_iff in H. destruct H as [Hb Hl].
      destruct (Hx2 Hb) as [jx Hjx]. destruct (IH2 Hl) as [js Hjs].
      rewrite Hjx, Hjs. exists (jx :: js). reflexivity.
Qed.

Lemma ser_dict_bad d :
  Forall (fun kx : dkey * pval => bad_spec (snd kx)) d ->
  (existsb bad_kx d = true -> exists e, ser_dict d = SErr e) /\
  (existsb bad_kx d = false -> exists js, ser_dict d = SOk (JObj js)).
Proof.
  intros HF. induction HF as [|[key x] d [Hx1 Hx2] HF [IH1 IH2]].
  - split; intros H; [discriminate|exists []; reflexivity].
  - cbn [snd] in Hx1, Hx2. cbn [existsb]. unfold bad_kx at 1 3. cbn [fst snd].
    destruct key as [k|z|k].
    + cbn [ser_dict]. split; intros H.
      * destruct (has_bad x) eqn:Bx.
        -- destruct (Hx1 eq_refl) as [e He]. rewrite He. exists e. reflexivity.
        -- destruct (Hx2 eq_refl) as [jx Hjx]. cbn [orb] in H.
           destruct (IH1 H) as [e He]. rewrite Hjx, He. exists e. reflexivity.
      * apply orb_false_iff in H. destruct H as [Hb Hl].
        destruct (Hx2 Hb) as [jx Hjx]. destruct (IH2 Hl) as [js Hjs].
        rewrite Hjx, Hjs. exists ((k, jx) :: js). reflexivity.
    + split; intros H; [exists TypeErrorKey; reflexivity|discriminate].
    + split; intros H; [exists TypeErrorKey; reflexivity|discriminate].
Qed.

Lemma ser_bad_spec v : bad_spec v.
Proof.
  apply (pval_ind' bad_spec); unfold bad_spec.
  - split; intros H; [discriminate|eexists; reflexivity].
  - intros b. split; intros H; [discriminate|eexists; reflexivity].
  - intros n. split; intros H; [discriminate|eexists; reflexivity].
  - intros s. split; intros H; [discriminate|eexists; reflexivity].
  - intros l HF. destruct (ser_list_bad l HF) as [H1 H2].
    split; intros H; [exact (H1 H)|]. destruct (H2 H) as [js Hjs]. exists (JList js). exact Hjs.
  - intros l HF. destruct (ser_list_bad l HF) as [H1 H2].
    split; intros H; [exact (H1 H)|]. destruct (H2 H) as [js Hjs]. exists (JList js). exact Hjs.
  - intros l HF. destruct (ser_list_bad l HF) as [H1 H2].
    split; intros H; [exact (H1 H)|]. destruct (H2 H) as [js Hjs]. exists (JList js). exact Hjs.
  - intros d HF. destruct (ser_dict_bad d HF) as [H1 H2].
    rewrite has_bad_PDict, ser_PDict.
    split; intros H; [exact (H1 H)|]. destruct (H2 H) as [js Hjs]. exists (JObj js). exact Hjs.
  - intros n. split; intros H; [discriminate|eexists; reflexivity].
  - intros l HF. destruct (ser_list_bad l HF) as [H1 H2].
    split; intros H; [exact (H1 H)|]. destruct (H2 H) as [js Hjs]. exists (JList js). exact Hjs.
  - intros p. split; intros H; [discriminate|eexists; reflexivity].
  - intros p. split; intros H; [discriminate|eexists; reflexivity].
  - intros p. split; intros H; [discriminate|eexists; reflexivity].
  - intros p. split; intros H; [discriminate|eexists; reflexivity].
  - split; intros H; [discriminate|eexists; reflexivity].
  - split; intros H; [eexists; reflexivity|discriminate].
Qed.

(* it fails exactly on unsupported values and non-string keys, never emitting something else *)
Theorem ser_fails_iff v : (exists e, ser v = SErr e) <-> has_bad v = true.
Proof.
  destruct (ser_bad_spec v) as [H1 H2]. split.
  - intros [e He]. destruct (has_bad v) eqn:B; [reflexivity|].
    destruct (H2 eq_refl) as [j Hj]. rewrite Hj in He. discriminate.
  - exact H1.
Qed.

Theorem ser_total v : has_bad v = false -> exists j, ser v = SOk j.
Proof.
  destruct (ser_bad_spec v) as [H1 H2]. exact H2.
Qed.

(* ---- deserialize_value ---- *)
Lemma deser_JStr s :
  deser (JStr s) = match match_marker s with Some body => parse_units body | None => DStr s end.
Proof. reflexivity. Qed.

Lemma deser_str_nonmarker s :
  (match match_marker s with Some _ => false | None => true end) = true ->
  deser (JStr s) = DStr s.
Proof.
  intros H. rewrite deser_JStr. destruct (match_marker s) as [b|]; [discriminate|reflexivity].
Qed.

(* a quantity comes back as what pint parses from its printed form *)
Theorem quantity_roundtrip p : no_newline p = true -> deser (JStr (marker p)) = parse_units p.
Proof.
  intros H. rewrite deser_JStr.
  assert (Hm : match_marker (marker p) = Some p).
  { apply match_marker_spec. split; [reflexivity|exact H]. }
  rewrite Hm. reflexivity.
Qed.

Definition rt_spec (v : pval) : Prop :=
  forall j, clean v = true -> ser v = SOk j -> deser j = normalise v.

Lemma roundtrip_list l :
  Forall rt_spec l ->
  forall j, forallb clean l = true -> ser_list l = SOk j ->
  exists js, j = JList js /\ map deser js = map normalise l.
Proof.
  intros HF. induction HF as [|x l Hx HF IH]; intros j Hc Hs.
  - cbn [ser_list] in Hs. injection Hs as <-. exists []. split; reflexivity.
  - cbn [forallb] in Hc. apply andb_true_iff in Hc. destruct Hc as [Hcx Hcl].
    cbn [ser_list] in Hs.
    destruct (ser x) as [jx|ex] eqn:Ex; [|discriminate].
    destruct (ser_list l) as [jl|el] eqn:El; [|discriminate].
    destruct (IH jl Hcl eq_refl) as [js [Hjl Hm]]. subst jl.
    injection Hs as <-. exists (jx :: js). split; [reflexivity|].
    cbn [map]. f_equal; [exact (Hx jx Hcx Ex)|exact Hm].
Qed.

Lemma roundtrip_dict d :
  Forall (fun kx : dkey * pval => rt_spec (snd kx)) d ->
  forall j, forallb (fun kx : dkey * pval => clean (snd kx)) d = true -> ser_dict d = SOk j ->
  exists js, j = JObj js /\ deser_obj js = norm_dict d.
Proof.
  intros HF. induction HF as [|[key x] d Hx HF IH]; intros j Hc Hs.
  - cbn [ser_dict] in Hs. injection Hs as <-. exists []. split; reflexivity.
  - cbn [snd] in Hx. cbn [forallb snd] in Hc. apply andb_true_iff in Hc. destruct Hc as [Hcx Hcl].
    destruct key as [k|z|k]; cbn [ser_dict] in Hs; [|discriminate|discriminate].
    destruct (ser x) as [jx|ex] eqn:Ex; [|discriminate].
    destruct (ser_dict d) as [jl|el] eqn:El; [|discriminate].
    destruct (IH jl Hcl eq_refl) as [js [Hjl Hm]]. subst jl.
    injection Hs as <-. exists ((k, jx) :: js). split; [reflexivity|].
    cbn [deser_obj norm_dict]. f_equal; [|exact Hm].
    f_equal. exact (Hx jx Hcx Ex).
Qed.

Lemma roundtrip_all v : rt_spec v.
Proof.
  apply (pval_ind' rt_spec); unfold rt_spec.
  - intros j Hc Hs. cbn [ser] in Hs. injection Hs as <-. reflexivity.
  - intros b j Hc Hs. cbn [ser] in Hs. injection Hs as <-. reflexivity.
  - intros n j Hc Hs. cbn [ser] in Hs. injection Hs as <-. reflexivity.
  - intros s j Hc Hs. cbn [ser] in Hs. injection Hs as <-.
    exact (deser_str_nonmarker s Hc).
  - intros l HF j Hc Hs.
    destruct (roundtrip_list l HF j Hc Hs) as [js [Hj Hm]]. subst j.
    change (DList (map deser js) = DList (map normalise l)). f_equal. exact Hm.
  - intros l HF j Hc Hs.
    destruct (roundtrip_list l HF j Hc Hs) as [js [Hj Hm]]. subst j.
    change (DList (map deser js) = DList (map normalise l)). f_equal. exact Hm.
  - intros l HF j Hc Hs.
    destruct (roundtrip_list l HF j Hc Hs) as [js [Hj Hm]]. subst j.
    change (DList (map deser js) = DList (map normalise l)). f_equal. exact Hm.
  - intros d HF j Hc Hs.
    destruct (roundtrip_dict d HF j Hc Hs) as [js [Hj Hm]]. subst j.
    rewrite deser_JObj, normalise_PDict. f_equal. exact Hm.
  - intros n j Hc Hs. cbn [ser] in Hs. injection Hs as <-. reflexivity.
  - intros l HF j Hc Hs.
    destruct (roundtrip_list l HF j Hc Hs) as [js [Hj Hm]]. subst j.
    change (DList (map deser js) = DList (map normalise l)). f_equal. exact Hm.
  - intros p j Hc Hs. cbn [ser] in Hs. injection Hs as <-.
    exact (quantity_roundtrip p Hc).
  - intros p j Hc Hs. cbn [ser] in Hs. injection Hs as <-.
    exact (quantity_roundtrip p Hc).
  - intros p j Hc Hs. cbn [ser] in Hs. injection Hs as <-.
    exact (deser_str_nonmarker ("!ProcessSerializer[" ++ p ++ "]") Hc).
  - intros p j Hc Hs. cbn [ser] in Hs. injection Hs as <-.
    exact (deser_str_nonmarker ("!FunctionSerializer[" ++ p ++ "]") Hc).
  - intros j Hc Hs. cbn [ser] in Hs. injection Hs as <-. reflexivity.
  - intros j Hc Hs. discriminate.
Qed.

(* round trip: for every nested value whose plain strings do not already look like markers *)
Theorem roundtrip v j : clean v = true -> ser v = SOk j -> deser j = normalise v.
Proof. exact (roundtrip_all v j). Qed.

Definition pu_spec (j : jval) : Prop := clean (embed j) = true -> deser j = plain j.

Lemma plain_list l :
  Forall pu_spec l -> forallb clean (map embed l) = true -> map deser l = map plain l.
Proof.
  intros HF. induction HF as [|x l Hx HF IH]; intros Hc.
  - reflexivity.
  - cbn [map forallb] in Hc. apply andb_true_iff in Hc. destruct Hc as [Hcx Hcl].
    cbn [map]. f_equal; [exact (Hx Hcx)|exact (IH Hcl)].
Qed.

Lemma plain_dict d :
  Forall (fun kx : string * jval => pu_spec (snd kx)) d ->
  forallb (fun kx : dkey * pval => clean (snd kx)) (embed_obj d) = true ->
  deser_obj d = plain_obj d.
Proof.
  intros HF. induction HF as [|[k x] d Hx HF IH]; intros Hc.
  - reflexivity.
  - cbn [snd] in Hx. cbn [embed_obj forallb snd] in Hc.
    apply andb_true_iff in Hc. destruct Hc as [Hcx Hcl].
    cbn [deser_obj plain_obj]. f_equal; [|exact (IH Hcl)].
    f_equal. exact (Hx Hcx).
Qed.

(* plain data without marker-like strings is returned unchanged *)
Theorem plain_unchanged j : clean (embed j) = true -> deser j = plain j.
Proof.
  apply (jval_ind' pu_spec); unfold pu_spec.
  - intros Hc. reflexivity.
  - intros b Hc. reflexivity.
  - intros n Hc. reflexivity.
  - intros s Hc. exact (deser_str_nonmarker s Hc).
  - intros l HF Hc.
    change (DList (map deser l) = DList (map plain l)). f_equal.
    apply plain_list; [exact HF|exact Hc].
  - intros d HF Hc. rewrite deser_JObj, plain_JObj. f_equal.
    apply plain_dict; [exact HF|exact Hc].
Qed.

(* the nan special case *)
Theorem parse_nan rest : parse_units ("nan " ++ rest) = DNanUnits (lstrip rest).
Proof.
  unfold parse_units.
  assert (E : String.eqb ("nan " ++ rest) "nan" = false) by reflexivity.
  rewrite E. rewrite strip_prefix_app. reflexivity.
Qed.

Theorem parse_not_nan body : body <> "nan" -> strip_prefix "nan " body = None -> parse_units body = DUnits body.
Proof.
  intros Hne H. unfold parse_units. destruct (String.eqb body "nan") eqn:E.
  - apply String.eqb_eq in E. contradiction.
  - rewrite H. reflexivity.
Qed.

(* a unit whose name starts with "nan" is an ordinary unit (the pinned tree parsed "nanometer" as nan * "ometer") *)
Theorem nano_units_are_units : parse_units "nanometer" = DUnits "nanometer"
                               /\ parse_units "nanogram / second" = DUnits "nanogram / second".
Proof. split; reflexivity. Qed.
Theorem nano_units_refuted_pinned : parse_units_pinned "nanometer" = DNanUnits "ometer".
Proof. reflexivity. Qed.

Print Assumptions strip_prefix_app.
Print Assumptions strip_prefix_some.
Print Assumptions strip_last_bracket_app.
Print Assumptions strip_last_bracket_some.
Print Assumptions match_marker_spec.
Print Assumptions ser_embed.
Print Assumptions ser_fails_iff.
Print Assumptions ser_total.
Print Assumptions quantity_roundtrip.
Print Assumptions roundtrip.
Print Assumptions plain_unchanged.
Print Assumptions parse_nan.
Print Assumptions parse_not_nan.
Print Assumptions nano_units_are_units.
Print Assumptions nano_units_refuted_pinned.
