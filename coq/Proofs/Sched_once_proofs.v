(* Proofs about Model/Sched.v: every update is applied exactly once, on time (C01);
   update() completes every process (C02); forced runs never lag (ok for update-only use). *)
From Coq Require Import List NArith ZArith Bool Lia Sorting.Sorted.
From Viv Require Import Model.Sched Proofs.Sched_defs.
Import ListNotations.
Open Scope Z_scope.

Section Once.
Variables (Sg U W : Type).
Variable poll : W -> pid -> Sg -> Z * W.
Variable cond : W -> pid -> Z -> Sg -> bool * W.
Variable next : W -> pid -> Z -> Sg -> U * W.
Variable commit : Sg -> list pid -> list (pid * U) -> Sg * list pid.

Notation st := (st Sg U W).
Notation iterv vr ee := (iter Sg U W poll cond next commit vr ee).
Notation runv vr ee := (run Sg U W poll cond next commit vr ee).
Notation run_forv vr ee := (run_for Sg U W poll cond next commit vr ee).
Notation run_callsv vr ee := (run_calls Sg U W poll cond next commit vr ee).
Notation gt := (gt Sg U W).
Notation frt := (frt Sg U W).
Notation sto := (sto Sg U W).
Notation log := (log Sg U W).

(* PROOFS GO HERE *)

End Once.
