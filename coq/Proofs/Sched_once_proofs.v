(* Proofs about Model/Sched.v: every update is applied exactly once, on time (C01);
   update() completes every process (C02); forced runs never lag (ok for update-only use). *)
From Coq Require Import List NArith ZArith Bool Lia Sorting.Sorted.
From Viv Require Import Model.Sched Proofs.Sched_defs.
Import ListNotations.
Open Scope Z_scope.

Section Once.
Variables (Sg U W : Type).
Variable poll : W -> pid -> Sg -> Z * W.
Variable cond : W -> pid -> Z -> Sg -> bool * W.
Variable next : W -> pid -> Z -> Sg -> U * W.
Variable commit : Sg -> list pid -> list (pid * U) -> Sg * list pid.

Notation st := (st Sg U W).
Notation iterv vr ee := (iter Sg U W poll cond next commit vr ee).
Notation runv vr ee := (run Sg U W poll cond next commit vr ee).
Notation run_forv vr ee := (run_for Sg U W poll cond next commit vr ee).
Notation run_callsv vr ee := (run_calls Sg U W poll cond next commit vr ee).
Notation gt := (gt Sg U W).
Notation frt := (frt Sg U W).
Notation sto := (sto Sg U W).
Notation log := (log Sg U W).

Hypothesis commit_nodup : forall s ps us, NoDup ps -> NoDup (snd (commit s ps us)).

Notation procs := (procs Sg U W).
Notation wld := (wld Sg U W).
Notation front := (front U).
Notation fe := (fe U).
Notation flook := (flook U).
Notation fset := (fset U).
Notation event := (event Sg).
Notation pl := (pl Sg U W).
Notation pf := (pf Sg U W).
Notation pw := (pw Sg U W).
Notation pfull := (pfull Sg U W).
Notation pquiet := (pquiet Sg U W).
Notation plog := (plog Sg U W).
Notation pok := (pok Sg U W).
Notation keep_live := (keep_live U).
Notation drop_events := (drop_events Sg U).
Notation advance_quiet := (advance_quiet U).
Notation collect := (collect Sg U).
Notation next_event_fixed := (next_event_fixed U).
Notation step now endt force sg := (poll_one Sg U W poll cond next vfixed now endt force sg).

(* ------------------------------------------------------------------ *)
(* flook / fset *)

Lemma mem_In p l : mem p l = true <-> In p l.
Proof.
  unfold mem. rewrite existsb_exists. split.
  - intros [x [Hin Heq]]. apply N.eqb_eq in Heq. subst. exact Hin.
  - intros Hin. exists p. split; [exact Hin | apply N.eqb_refl].
Qed.

Lemma mem_false p l : mem p l = false <-> ~ In p l.
Proof.
  rewrite <- mem_In. destruct (mem p l); split; intros; try congruence; try tauto.
Qed.

Lemma flook_In (f : front) p e : flook f p = Some e -> In (p, e) f.
Proof.
  induction f as [|[q e0] r IH]; cbn [Sched.flook]; intros H; [discriminate|].
  destruct (N.eqb_spec q p) as [Heq|Hne].
  - inversion H; subst. left; reflexivity.
  - right. auto.
Qed.

Lemma flook_None (f : front) p : flook f p = None <-> ~ In p (fkeys f).
Proof.
  induction f as [|[q e0] r IH]; cbn [Sched.flook fkeys map fst In].
  - tauto.
  - destruct (N.eqb_spec q p) as [Heq|Hne].
    + split; [discriminate | intros H; exfalso; apply H; left; exact Heq].
    + unfold fkeys in IH. rewrite IH. tauto.
Qed.

Lemma In_fkeys (f : front) p e : In (p, e) f -> In p (fkeys f).
Proof. intros H. unfold fkeys. apply in_map_iff. exists (p, e). auto. Qed.

Lemma In_flook (f : front) p e : NoDup (fkeys f) -> In (p, e) f -> flook f p = Some e.
Proof.
  induction f as [|[q e0] r IH]; cbn [Sched.flook fkeys map fst In]; intros Hnd Hin; [contradiction|].
  inversion Hnd as [|x l Hnotin Hnd']; subst.
  destruct Hin as [Heq|Hin].
  - inversion Heq; subst. rewrite N.eqb_refl. reflexivity.
  - destruct (N.eqb_spec q p) as [Heq|Hne].
    + subst. exfalso. apply Hnotin. eapply In_fkeys; eauto.
    + apply IH; auto.
Qed.

Lemma flook_some_key (f : front) p : In p (fkeys f) -> exists e, flook f p = Some e.
Proof.
  intros H. destruct (flook f p) as [e|] eqn:E; [eauto|].
  apply flook_None in E. contradiction.
Qed.

Lemma flook_fset_eq (f : front) p e : flook (fset f p e) p = Some e.
Proof.
  induction f as [|[q e0] r IH]; cbn [Sched.fset Sched.flook].
  - rewrite N.eqb_refl. reflexivity.
  - destruct (N.eqb_spec q p) as [Heq|Hne]; cbn [Sched.flook].
    + subst. rewrite N.eqb_refl. reflexivity.
    + destruct (N.eqb_spec q p); [contradiction|]. exact IH.
Qed.

Lemma flook_fset_neq (f : front) p q e : q <> p -> flook (fset f p e) q = flook f q.
Proof.
  intros Hne. induction f as [|[k e0] r IH]; cbn [Sched.fset Sched.flook].
  - destruct (N.eqb_spec p q); [congruence|reflexivity].
  - destruct (N.eqb_spec k p) as [Heq|Hkp]; cbn [Sched.flook].
    + subst. destruct (N.eqb_spec p q); [congruence|reflexivity].
    + destruct (N.eqb_spec k q); [reflexivity|exact IH].
Qed.

Lemma In_fset (f : front) p e q x : In (q, x) (fset f p e) -> (q = p /\ x = e) \/ In (q, x) f.
Proof.
  induction f as [|[k e0] r IH]; cbn [Sched.fset In].
  - intros [H|[]]. inversion H; subst. left; auto.
  - destruct (N.eqb_spec k p) as [Heq|Hkp]; cbn [In].
    + intros [H|H]; [inversion H; subst; left; auto | right; right; exact H].
    + intros [H|H]; [right; left; exact H|]. destruct (IH H) as [H1|H1]; [left; exact H1|right; right; exact H1].
Qed.

Lemma fkeys_fset (f : front) p e :
  fkeys (fset f p e) = if mem p (fkeys f) then fkeys f else fkeys f ++ [p].
Proof.
  induction f as [|[k e0] r IH]; cbn [Sched.fset fkeys map fst mem existsb app].
  - reflexivity.
  - unfold fkeys in *. destruct (N.eqb_spec k p) as [Heq|Hkp]; cbn [map fst].
    + subst. rewrite N.eqb_refl. reflexivity.
    + destruct (N.eqb_spec p k) as [Heq|_]; [congruence|]. cbn [orb].
      rewrite IH. unfold mem. destruct (existsb (N.eqb p) (map fst r)); reflexivity.
Qed.

Lemma In_fkeys_fset (f : front) p e q : In q (fkeys (fset f p e)) <-> q = p \/ In q (fkeys f).
Proof.
  rewrite fkeys_fset. destruct (mem p (fkeys f)) eqn:E.
  - apply mem_In in E. split; [auto|]. intros [H|H]; [subst; exact E|exact H].
  - rewrite in_app_iff. cbn [In]. split; intros H; intuition.
Qed.

Lemma nodup_fset (f : front) p e : NoDup (fkeys f) -> NoDup (fkeys (fset f p e)).
Proof.
  intros Hnd. rewrite fkeys_fset. destruct (mem p (fkeys f)) eqn:E; [exact Hnd|].
  apply mem_false in E.
  apply NoDup_rev in Hnd. rewrite <- (rev_involutive (fkeys f ++ [p])).
  apply NoDup_rev. rewrite rev_app_distr. cbn [rev app]. constructor; [|exact Hnd].
  rewrite <- in_rev. exact E.
Qed.

(* ------------------------------------------------------------------ *)
(* counting *)

Lemma len_filter_app {A} (g : A -> bool) l1 l2 :
  length (filter g (l1 ++ l2)) = (length (filter g l1) + length (filter g l2))%nat.
Proof. rewrite filter_app, app_length. reflexivity. Qed.

Lemma len_filter_rev {A} (g : A -> bool) l : length (filter g (rev l)) = length (filter g l).
Proof.
  induction l as [|x l IH]; [reflexivity|].
  cbn [rev]. rewrite len_filter_app, IH. cbn [filter]. destruct (g x); cbn [length]; lia.
Qed.

Definition pend1 (e : fe) (fin : Z) : nat :=
  match fu e with Some _ => if ft e =? fin then 1%nat else 0%nat | None => 0%nat end.

Lemma pend_flook p fin (f : front) :
  pend p fin f = match flook f p with Some e => pend1 e fin | None => 0%nat end.
Proof. reflexivity. Qed.

Lemma pend_fset_eq p fin (f : front) e : pend p fin (fset f p e) = pend1 e fin.
Proof. rewrite pend_flook, flook_fset_eq. reflexivity. Qed.

Lemma pend_fset_neq p q fin (f : front) e : q <> p -> pend q fin (fset f p e) = pend q fin f.
Proof. intros H. rewrite !pend_flook, flook_fset_neq by exact H. reflexivity. Qed.

(* ------------------------------------------------------------------ *)
(* keep_live / drop_events *)

Lemma In_keep_live ps (f : front) p e : In (p, e) (keep_live ps f) <-> In (p, e) f /\ In p ps.
Proof. unfold Sched.keep_live. rewrite filter_In. cbn [fst]. rewrite mem_In. tauto. Qed.

Lemma In_fkeys_inv (f : front) p : In p (fkeys f) -> exists e, In (p, e) f.
Proof.
  unfold fkeys. rewrite in_map_iff. intros [[q e] [H1 H2]]. cbn [fst] in H1. subst. eauto.
Qed.

Lemma In_fkeys_keep_live ps (f : front) p : In p (fkeys (keep_live ps f)) -> In p (fkeys f) /\ In p ps.
Proof.
  intros H. apply In_fkeys_inv in H. destruct H as [e H]. apply In_keep_live in H.
  destruct H as [H1 H2]. split; [eapply In_fkeys; eauto|exact H2].
Qed.

Lemma nodup_keep_live ps (f : front) : NoDup (fkeys f) -> NoDup (fkeys (keep_live ps f)).
Proof.
  induction f as [|[q e] r IH]; intros Hnd; [constructor|].
  cbn [fkeys map fst] in Hnd. inversion Hnd as [|x l Hnotin Hnd']; subst.
  cbn [Sched.keep_live filter fst]. destruct (mem q ps).
  - cbn [fkeys map fst]. constructor; [|apply IH; exact Hnd'].
    intros Hin. apply Hnotin. apply (In_fkeys_keep_live ps r q). exact Hin.
  - apply IH; exact Hnd'.
Qed.

Lemma flook_keep_live ps (f : front) p :
  flook (keep_live ps f) p = if mem p ps then flook f p else None.
Proof.
  induction f as [|[q e] r IH]; cbn [Sched.keep_live filter fst Sched.flook].
  - destruct (mem p ps); reflexivity.
  - fold (keep_live ps r). destruct (N.eqb_spec q p) as [Heq|Hne].
    + subst. destruct (mem p ps) eqn:E; cbn [Sched.flook].
      * rewrite N.eqb_refl. reflexivity.
      * exact IH.
    + destruct (mem q ps); cbn [Sched.flook]; [destruct (N.eqb_spec q p); [contradiction|]|]; exact IH.
Qed.

Lemma cnt_drop_notin now ps (f : front) p fin :
  ~ In p (fkeys f) -> cnt_drop p fin (drop_events now ps f) = 0%nat.
Proof.
  induction f as [|[q e] r IH]; intros Hnotin; [reflexivity|].
  cbn [fkeys map fst In] in Hnotin.
  cbn [Sched.drop_events flat_map fst snd]. fold (drop_events now ps r).
  unfold cnt_drop in *. rewrite len_filter_app, IH by tauto.
  destruct (mem q ps); [reflexivity|]. destruct (fu e); [|reflexivity].
  cbn [filter]. destruct (N.eqb_spec q p) as [Heq|Hne]; [exfalso; tauto|]. reflexivity.
Qed.

Lemma drop_no_inv_app now ps (f : front) p fin :
  cnt_inv p fin (drop_events now ps f) = 0%nat /\ cnt_app p fin (drop_events now ps f) = 0%nat.
Proof.
  induction f as [|[q e] r [IH1 IH2]]; [split; reflexivity|].
  cbn [Sched.drop_events flat_map fst snd]. fold (drop_events now ps r).
  unfold cnt_inv, cnt_app in *. rewrite !len_filter_app, IH1, IH2.
  destruct (mem q ps); [split; reflexivity|]. destruct (fu e); split; reflexivity.
Qed.

Lemma drop_pend now ps (f : front) p fin :
  NoDup (fkeys f) ->
  pend p fin f = (cnt_drop p fin (drop_events now ps f) + pend p fin (keep_live ps f))%nat.
Proof.
  induction f as [|[q e] r IH]; intros Hnd; [reflexivity|].
  cbn [fkeys map fst] in Hnd. inversion Hnd as [|x l Hnotin Hnd']; subst.
  cbn [Sched.drop_events flat_map fst snd]. fold (drop_events now ps r).
  cbn [Sched.keep_live filter fst]. fold (keep_live ps r).
  unfold cnt_drop. rewrite len_filter_app. fold (cnt_drop p fin (drop_events now ps r)).
  destruct (N.eqb_spec q p) as [Heq|Hne].
  - subst q. rewrite (cnt_drop_notin now ps r p fin Hnotin).
    rewrite (pend_flook p fin ((p, e) :: r)). cbn [Sched.flook]. rewrite N.eqb_refl.
    destruct (mem p ps) eqn:E.
    + rewrite pend_flook. cbn [Sched.flook]. rewrite N.eqb_refl. reflexivity.
    + rewrite pend_flook, flook_keep_live, E. unfold pend1.
      destruct (fu e); [|reflexivity]. cbn [filter]. rewrite N.eqb_refl. cbn [andb].
      destruct (ft e =? fin); reflexivity.
  - assert (Hp : pend p fin ((q, e) :: r) = pend p fin r).
    { rewrite !pend_flook. cbn [Sched.flook]. destruct (N.eqb_spec q p); [contradiction|reflexivity]. }
    rewrite Hp, (IH Hnd').
    assert (Hg : length (filter (fun e0 : event => match e0 with EDrop _ q0 f0 _ => (q0 =? p)%N && (f0 =? fin) | _ => false end)
               (if mem q ps then [] else match fu e with Some _ => [EDrop Sg q (ft e) now] | None => [] end)) = 0%nat).
    { destruct (mem q ps); [reflexivity|]. destruct (fu e); [|reflexivity]. cbn [filter].
      destruct (N.eqb_spec q p); [contradiction|reflexivity]. }
    rewrite Hg. destruct (mem q ps); [|reflexivity].
    rewrite (pend_flook p fin ((q, e) :: _)). cbn [Sched.flook].
    destruct (N.eqb_spec q p); [contradiction|]. rewrite <- pend_flook. reflexivity.
Qed.

(* ------------------------------------------------------------------ *)
(* advance_quiet *)

Definition aq1 (n : Z) (c : bool) (q : list pid) (p : pid) (e : fe) : fe :=
  if mem p q then {| ft := n; fu := fu e; fq := if c then false else fq e |} else e.

Lemma advance_quiet_map n c q (f : front) :
  advance_quiet n c q f = map (fun pe => (fst pe, aq1 n c q (fst pe) (snd pe))) f.
Proof.
  unfold Sched.advance_quiet. apply map_ext. intros [p e]. unfold aq1. cbn [fst snd].
  destruct (mem p q); reflexivity.
Qed.

Lemma In_advance_quiet n c q (f : front) p x :
  In (p, x) (advance_quiet n c q f) <-> exists e, In (p, e) f /\ x = aq1 n c q p e.
Proof.
  rewrite advance_quiet_map, in_map_iff. split.
  - intros [[p0 e] [H1 H2]]. cbn [fst snd] in H1. inversion H1; subst. eauto.
  - intros [e [H1 H2]]. exists (p, e). subst. auto.
Qed.

Lemma fkeys_advance_quiet n c q (f : front) : fkeys (advance_quiet n c q f) = fkeys f.
Proof. rewrite advance_quiet_map. unfold fkeys. rewrite map_map. reflexivity. Qed.

Lemma flook_map_val (g : pid -> fe -> fe) (f : front) p :
  flook (map (fun pe => (fst pe, g (fst pe) (snd pe))) f) p = option_map (g p) (flook f p).
Proof.
  induction f as [|[q e] r IH]; [reflexivity|].
  cbn [map fst snd Sched.flook]. destruct (N.eqb_spec q p) as [Heq|Hne]; [subst; reflexivity|exact IH].
Qed.

Lemma flook_advance_quiet n c q (f : front) p :
  flook (advance_quiet n c q f) p = option_map (aq1 n c q p) (flook f p).
Proof. rewrite advance_quiet_map. apply flook_map_val. Qed.

Lemma pend_advance_quiet n c q (f : front) p fin :
  (forall e, In p q -> flook f p = Some e -> fu e = None) ->
  pend p fin (advance_quiet n c q f) = pend p fin f.
Proof.
  intros H. rewrite !pend_flook, flook_advance_quiet.
  destruct (flook f p) as [e|] eqn:E; [|reflexivity]. cbn [option_map].
  unfold aq1. destruct (mem p q) eqn:M; [|reflexivity].
  apply mem_In in M. specialize (H e M eq_refl). unfold pend1. cbn [Sched.fu]. rewrite H. reflexivity.
Qed.

(* ------------------------------------------------------------------ *)
(* collect *)

Definition col1 (now : Z) (e : fe) : fe :=
  if ft e <=? now then {| ft := ft e; fu := None; fq := false |} else e.

Definition colev (now : Z) (f : front) : list event :=
  flat_map (fun pe => if ft (snd pe) <=? now
                      then match fu (snd pe) with Some _ => [EApply Sg (fst pe) (ft (snd pe)) now] | None => [] end
                      else []) f.

Lemma collect_spec now (f : front) :
  fst (fst (collect now f)) = map (fun pe => (fst pe, col1 now (snd pe))) f /\
  snd (collect now f) = colev now f.
Proof.
  induction f as [|[p e] r [IH1 IH2]]; [split; reflexivity|].
  cbn [Sched.collect]. destruct (collect now r) as [[r' us] ev]. cbn [fst snd] in IH1, IH2.
  cbn [map colev flat_map fst snd]. fold (colev now r). unfold col1.
  destruct (ft e <=? now); [destruct (fu e)|]; cbn [fst snd app]; subst; split; reflexivity.
Qed.

Lemma collect_inv now (f f2 : front) us ev :
  collect now f = (f2, us, ev) ->
  f2 = map (fun pe => (fst pe, col1 now (snd pe))) f /\ ev = colev now f.
Proof.
  intros H. pose proof (collect_spec now f) as [H1 H2]. rewrite H in H1, H2. cbn [fst snd] in H1, H2. auto.
Qed.

Definition colf (now : Z) (f : front) : front := map (fun pe => (fst pe, col1 now (snd pe))) f.

Lemma In_colf now (f : front) p x : In (p, x) (colf now f) <-> exists e, In (p, e) f /\ x = col1 now e.
Proof.
  unfold colf. rewrite in_map_iff. split.
  - intros [[p0 e] [H1 H2]]. cbn [fst snd] in H1. inversion H1; subst. eauto.
  - intros [e [H1 H2]]. exists (p, e). subst. auto.
Qed.

Lemma fkeys_colf now (f : front) : fkeys (colf now f) = fkeys f.
Proof. unfold colf, fkeys. rewrite map_map. reflexivity. Qed.

Lemma flook_colf now (f : front) p : flook (colf now f) p = option_map (col1 now) (flook f p).
Proof. unfold colf. apply (flook_map_val (fun _ => col1 now)). Qed.

Lemma colev_spec now (f : front) :
  Forall (fun v => exists p e u, In (p, e) f /\ fu e = Some u /\ ft e <= now /\ v = EApply Sg p (ft e) now)
         (colev now f).
Proof.
  induction f as [|[p e] r IH]; [constructor|].
  cbn [colev flat_map fst snd]. fold (colev now r). apply Forall_app. split.
  - destruct (ft e <=? now) eqn:E; [|constructor]. destruct (fu e) as [u|] eqn:Eu; [|constructor].
    constructor; [|constructor]. exists p, e, u. apply Z.leb_le in E. cbn [In]. auto.
  - eapply Forall_impl; [|exact IH]. cbn beta. intros v [p0 [e0 [u [H1 H2]]]].
    exists p0, e0, u. cbn [In]. auto.
Qed.

Lemma colev_no_inv_drop now (f : front) p fin :
  cnt_inv p fin (colev now f) = 0%nat /\ cnt_drop p fin (colev now f) = 0%nat.
Proof.
  induction f as [|[q e] r [IH1 IH2]]; [split; reflexivity|].
  cbn [colev flat_map fst snd]. fold (colev now r).
  unfold cnt_inv, cnt_drop in *. rewrite !len_filter_app, IH1, IH2.
  destruct (ft e <=? now); [|split; reflexivity]. destruct (fu e); split; reflexivity.
Qed.

Lemma cnt_app_notin now (f : front) p fin :
  ~ In p (fkeys f) -> cnt_app p fin (colev now f) = 0%nat.
Proof.
  induction f as [|[q e] r IH]; intros Hnotin; [reflexivity|].
  cbn [fkeys map fst In] in Hnotin.
  cbn [colev flat_map fst snd]. fold (colev now r).
  unfold cnt_app in *. rewrite len_filter_app, IH by tauto.
  destruct (ft e <=? now); [|reflexivity]. destruct (fu e); [|reflexivity].
  cbn [filter]. destruct (N.eqb_spec q p) as [Heq|Hne]; [exfalso; tauto|]. reflexivity.
Qed.

Lemma colev_pend now (f : front) p fin :
  NoDup (fkeys f) ->
  pend p fin f = (cnt_app p fin (colev now f) + pend p fin (colf now f))%nat.
Proof.
  induction f as [|[q e] r IH]; intros Hnd; [reflexivity|].
  cbn [fkeys map fst] in Hnd. inversion Hnd as [|x l Hnotin Hnd']; subst.
  cbn [colev flat_map fst snd]. fold (colev now r).
  cbn [colf map fst snd]. fold (colf now r).
  unfold cnt_app. rewrite len_filter_app. fold (cnt_app p fin (colev now r)).
  rewrite (pend_flook p fin ((q, e) :: r)), (pend_flook p fin ((q, col1 now e) :: _)).
  cbn [Sched.flook].
  destruct (N.eqb_spec q p) as [Heq|Hne].
  - subst q. rewrite (cnt_app_notin now r p fin Hnotin).
    unfold col1, pend1. destruct (ft e <=? now); cbn [Sched.fu Sched.ft].
    + destruct (fu e); [|reflexivity]. cbn [filter]. rewrite N.eqb_refl. cbn [andb].
      destruct (ft e =? fin); reflexivity.
    + cbn [filter length]. lia.
  - rewrite <- !pend_flook, (IH Hnd').
    assert (Hg : length (filter (fun e0 : event => match e0 with EApply _ q0 f0 _ => (q0 =? p)%N && (f0 =? fin) | _ => false end)
               (if ft e <=? now then match fu e with Some _ => [EApply Sg q (ft e) now] | None => [] end else [])) = 0%nat).
    { destruct (ft e <=? now); [|reflexivity]. destruct (fu e); [|reflexivity]. cbn [filter].
      destruct (N.eqb_spec q p); [contradiction|reflexivity]. }
    rewrite Hg. reflexivity.
Qed.

(* ------------------------------------------------------------------ *)
(* next_event_fixed *)

Definition nef_step (now : Z) (acc : Z) (pe : pid * fe) : Z :=
  if (now <? ft (snd pe)) && (ft (snd pe) <? acc) then ft (snd pe) else acc.

Lemma nef_fold_bounds now (f : front) : forall acc,
  fold_left (nef_step now) f acc <= acc /\ (now <= acc -> now <= fold_left (nef_step now) f acc).
Proof.
  induction f as [|[p e] r IH]; intros acc; cbn [fold_left]; [lia|].
  destruct (IH (nef_step now acc (p, e))) as [H1 H2].
  unfold nef_step in *. cbn [snd] in *.
  destruct ((now <? ft e) && (ft e <? acc)) eqn:E.
  - apply andb_true_iff in E. destruct E as [E1 E2]. apply Z.ltb_lt in E1, E2. lia.
  - lia.
Qed.

Lemma nef_fold_idle now (f : front) : forall acc,
  (forall p e, In (p, e) f -> ft e <= now) -> fold_left (nef_step now) f acc = acc.
Proof.
  induction f as [|[p e] r IH]; intros acc H; cbn [fold_left]; [reflexivity|].
  assert (Hs : nef_step now acc (p, e) = acc).
  { unfold nef_step. cbn [snd]. assert (ft e <= now) by (apply (H p); left; reflexivity).
    destruct (Z.ltb_spec now (ft e)); [lia|reflexivity]. }
  rewrite Hs. apply IH. intros p0 e0 Hin. apply (H p0). right. exact Hin.
Qed.

Lemma nef_le now endt (f : front) : next_event_fixed now endt f <= endt.
Proof. apply (nef_fold_bounds now f endt). Qed.

Lemma nef_ge now endt (f : front) : now <= endt -> now <= next_event_fixed now endt f.
Proof. apply (nef_fold_bounds now f endt). Qed.

Lemma nef_idle now endt (f : front) :
  (forall p e, In (p, e) f -> ft e <= now) -> next_event_fixed now endt f = endt.
Proof. apply (nef_fold_idle now f endt). Qed.

(* ------------------------------------------------------------------ *)
(* one poll_one step *)

Definition dflt (now : Z) : fe := {| ft := now; fu := None; fq := false |}.
Definition ent (now : Z) (f : front) (p : pid) : fe :=
  match flook f p with Some e => e | None => dflt now end.

Lemma fset_same (f : front) p e : flook f p = Some e -> fset f p e = f.
Proof.
  induction f as [|[q e0] r IH]; cbn [Sched.flook Sched.fset]; intros H; [discriminate|].
  destruct (N.eqb_spec q p) as [Heq|Hne].
  - inversion H; subst. reflexivity.
  - rewrite (IH H). reflexivity.
Qed.

Lemma fset_fset (f : front) p e e' : fset (fset f p e) p e' = fset f p e'.
Proof.
  induction f as [|[q e0] r IH]; cbn [Sched.fset].
  - rewrite N.eqb_refl. reflexivity.
  - destruct (N.eqb_spec q p) as [Heq|Hne]; cbn [Sched.fset].
    + subst. rewrite N.eqb_refl. reflexivity.
    + destruct (N.eqb_spec q p); [contradiction|]. rewrite IH. reflexivity.
Qed.

Lemma ent_cases now (f : front) p :
  (flook f p = Some (ent now f p)) \/ (flook f p = None /\ ent now f p = dflt now).
Proof. unfold ent. destruct (flook f p); auto. Qed.

Lemma omin_spec o x : exists d, omin o x = Some d /\ d <= x /\
  ((o = None /\ d = x) \/ (exists d0, o = Some d0 /\ d = Z.min d0 x)).
Proof.
  destruct o as [d0|]; cbn [omin].
  - exists (Z.min d0 x). split; [reflexivity|]. split; [lia|]. right. eauto.
  - exists x. split; [reflexivity|]. split; [lia|]. left. auto.
Qed.

Definition futof (force : bool) (endt t req : Z) : Z :=
  if force then Z.min (t + req) endt else t + req.

Lemma poll_one_inv now endt force sg (a : pl) p e a' :
  e = ent now (pf a) p -> a' = step now endt force sg a p ->
  exists e', pf a' = fset (pf a) p e' /\
  ( (exists req w1 ts u,
       poll (pw a) p sg = (req, w1) /\ ft e <= now /\ futof force endt (ft e) req <= endt /\
       e' = {| ft := futof force endt (ft e) req; fu := Some u; fq := false |} /\
       pfull a' = omin (pfull a) (futof force endt (ft e) req - now) /\ pquiet a' = pquiet a /\
       plog a' = EInvoke Sg p (ft e) (futof force endt (ft e) req) ts req now sg :: plog a /\
       pok a' = pok a && ((now <? futof force endt (ft e) req) || (force && (futof force endt (ft e) req =? endt))))
    \/ (ft e <= now /\ e' = {| ft := ft e; fu := None; fq := true |} /\
        pfull a' = pfull a /\ pquiet a' = pquiet a ++ [p] /\
        plog a' = EQuiet Sg p now :: plog a /\ pok a' = pok a)
    \/ (exists req w1,
       poll (pw a) p sg = (req, w1) /\ ft e <= now /\ endt < futof force endt (ft e) req /\ e' = e /\
       pfull a' = omin (pfull a) (futof force endt (ft e) req - now) /\ pquiet a' = pquiet a /\ plog a' = plog a /\
       pok a' = pok a && (now <? futof force endt (ft e) req))
    \/ (now < ft e /\ e' = e /\ pfull a' = omin (pfull a) (ft e - now) /\ pquiet a' = pquiet a /\
        plog a' = plog a /\ pok a' = pok a) ).
Proof.
  intros He Ha'.
  assert (Hf0 : match flook (pf a) p with Some _ => pf a | None => fset (pf a) p e end = fset (pf a) p e).
  { subst e. unfold ent. destruct (flook (pf a) p) as [e0|] eqn:El; [|reflexivity].
    symmetry. apply fset_same. exact El. }
  subst a'. unfold Sched.poll_one. cbv zeta. fold (dflt now). fold (ent now (pf a) p). rewrite <- He.
  rewrite Hf0. unfold futof.
  destruct (Z.leb_spec (ft e) now) as [Hdue|Hdue].
  - destruct (poll (pw a) p sg) as [req w1] eqn:Epoll.
    match goal with |- context [?x <=? endt] => destruct (Z.leb_spec x endt) as [Hfut|Hfut] end.
    + match goal with |- context [cond w1 p ?ts sg] => destruct (cond w1 p ts sg) as [c w2] eqn:Ec end.
      destruct c.
      * match goal with |- context [next w2 p ?ts sg] => destruct (next w2 p ts sg) as [u w3] eqn:En end.
        eexists. split; [cbn [Sched.pf]; apply fset_fset|].
        left. eexists req, w1, _, u. cbv zeta. cbn [Sched.pfull Sched.pquiet Sched.plog Sched.pok].
        repeat split; auto.
      * eexists. split; [cbn [Sched.pf]; apply fset_fset|].
        right. left. cbn [Sched.pfull Sched.pquiet Sched.plog Sched.pok]. repeat split; auto.
    + exists e. split; [reflexivity|]. right. right. left. exists req, w1. cbv zeta.
      cbn [Sched.pfull Sched.pquiet Sched.plog Sched.pok]. repeat split; auto.
  - exists e. split; [reflexivity|]. right. right. right.
    cbn [Sched.pfull Sched.pquiet Sched.plog Sched.pok]. repeat split; auto.
Qed.

(* ------------------------------------------------------------------ *)
(* invariants of the polling loop *)

Ltac poll_cases now endt force sg a p :=
  destruct (poll_one_inv now endt force sg a p _ _ eq_refl eq_refl)
    as [e' [Hpf [(req & w1 & ts & u & Hpoll & Hdue & Hfut & He' & Hfull & Hq & Hlog & Hok)
               | [(Hdue & He' & Hfull & Hq & Hlog & Hok)
               | [(req & w1 & Hpoll & Hdue & Hfut & He' & Hfull & Hq & Hlog & Hok)
               | (Hdue & He' & Hfull & Hq & Hlog & Hok)]]]]].

Section Fold.
Variables (now endt : Z) (force : bool) (sg : Sg).

Definition Inv1 (rem : list pid) (a : pl) : Prop :=
  NoDup rem /\ NoDup (fkeys (pf a)) /\
  (forall q e u, In q rem -> flook (pf a) q = Some e -> fu e = Some u -> now < ft e) /\
  (forall q e u, ~ In q rem -> flook (pf a) q = Some e -> fu e = Some u ->
     exists d, pfull a = Some d /\ d <= ft e - now) /\
  (forall q, In q (pquiet a) -> ~ In q rem) /\
  (forall q e, In q (pquiet a) -> flook (pf a) q = Some e -> fu e = None).

Lemma ent_future p l a u :
  Inv1 (p :: l) a -> fu (ent now (pf a) p) = Some u -> now < ft (ent now (pf a) p).
Proof.
  intros (_ & _ & HA & _) Hu. destruct (ent_cases now (pf a) p) as [Hl|[Hl Hd]].
  - apply (HA p _ u); [left; reflexivity|exact Hl|exact Hu].
  - rewrite Hd in Hu. discriminate.
Qed.

Lemma ent_due_idle p l a :
  Inv1 (p :: l) a -> ft (ent now (pf a) p) <= now -> fu (ent now (pf a) p) = None.
Proof.
  intros Hinv Hdue. destruct (fu (ent now (pf a) p)) as [u|] eqn:E; [|reflexivity].
  pose proof (ent_future p l a u Hinv E). lia.
Qed.

Lemma inv1_step p l a : Inv1 (p :: l) a -> Inv1 l (step now endt force sg a p).
Proof.
  intros Hinv. pose proof Hinv as (Hnd & Hk & HA & HB & HD & HC).
  inversion Hnd as [|x y Hpl Hndl]; subst.
  pose proof (ent_due_idle p l a Hinv) as Hidle.
  poll_cases now endt force sg a p; (split; [exact Hndl|]); (split; [rewrite Hpf; apply nodup_fset; exact Hk|]);
  (split; [intros q e0 u0 Hin Hl Hu; assert (Hqp : q <> p) by (intros ->; contradiction);
           rewrite Hpf, flook_fset_neq in Hl by exact Hqp;
           apply (HA q e0 u0); [right; exact Hin|exact Hl|exact Hu]|]).
  - (* invoke *)
    split; [|split].
    + intros q e0 u0 Hnin Hl Hu. rewrite Hpf in Hl. rewrite Hfull.
      destruct (N.eq_dec q p) as [->|Hqp].
      * rewrite flook_fset_eq in Hl. inversion Hl; subst e0. rewrite He'. cbn [Sched.ft].
        destruct (omin_spec (pfull a) (futof force endt (ft (ent now (pf a) p)) req - now)) as [d [Hd [Hle _]]].
        exists d. split; [exact Hd|lia].
      * rewrite flook_fset_neq in Hl by exact Hqp.
        destruct (HB q e0 u0) as [d0 [Hd0 Hle0]]; [intros [H|H]; [congruence|contradiction]|exact Hl|exact Hu|].
        rewrite Hd0. cbn [omin]. eexists. split; [reflexivity|lia].
    + intros q Hin. rewrite Hq in Hin. intros Hl. apply (HD q Hin). right. exact Hl.
    + intros q e0 Hin Hl. rewrite Hq in Hin. rewrite Hpf in Hl.
      assert (Hqp : q <> p) by (intros ->; apply (HD p Hin); left; reflexivity).
      rewrite flook_fset_neq in Hl by exact Hqp. apply (HC q e0 Hin Hl).
  - (* quiet *)
    split; [|split].
    + intros q e0 u0 Hnin Hl Hu. rewrite Hpf in Hl. rewrite Hfull.
      destruct (N.eq_dec q p) as [->|Hqp].
      * rewrite flook_fset_eq in Hl. inversion Hl; subst e0. rewrite He' in Hu. discriminate.
      * rewrite flook_fset_neq in Hl by exact Hqp.
        apply (HB q e0 u0); [intros [H|H]; [congruence|contradiction]|exact Hl|exact Hu].
    + intros q Hin. rewrite Hq in Hin. apply in_app_iff in Hin. destruct Hin as [Hin|[<-|[]]].
      * intros Hl. apply (HD q Hin). right. exact Hl.
      * exact Hpl.
    + intros q e0 Hin Hl. rewrite Hq in Hin. rewrite Hpf in Hl.
      destruct (N.eq_dec q p) as [->|Hqp].
      * rewrite flook_fset_eq in Hl. inversion Hl; subst e0. rewrite He'. reflexivity.
      * rewrite flook_fset_neq in Hl by exact Hqp. apply in_app_iff in Hin.
        destruct Hin as [Hin|[Heq|[]]]; [|congruence]. apply (HC q e0 Hin Hl).
  - (* deferred *)
    split; [|split].
    + intros q e0 u0 Hnin Hl Hu. rewrite Hpf in Hl. rewrite Hfull.
      destruct (N.eq_dec q p) as [->|Hqp].
      * rewrite flook_fset_eq in Hl. inversion Hl; subst e0. rewrite He' in Hu.
        rewrite (Hidle Hdue) in Hu. discriminate.
      * rewrite flook_fset_neq in Hl by exact Hqp.
        destruct (HB q e0 u0) as [d0 [Hd0 Hle0]]; [intros [H|H]; [congruence|contradiction]|exact Hl|exact Hu|].
        rewrite Hd0. cbn [omin]. eexists. split; [reflexivity|lia].
    + intros q Hin. rewrite Hq in Hin. intros Hl. apply (HD q Hin). right. exact Hl.
    + intros q e0 Hin Hl. rewrite Hq in Hin. rewrite Hpf in Hl.
      assert (Hqp : q <> p) by (intros ->; apply (HD p Hin); left; reflexivity).
      rewrite flook_fset_neq in Hl by exact Hqp. apply (HC q e0 Hin Hl).
  - (* not due *)
    split; [|split].
    + intros q e0 u0 Hnin Hl Hu. rewrite Hpf in Hl. rewrite Hfull.
      destruct (N.eq_dec q p) as [->|Hqp].
      * rewrite flook_fset_eq in Hl. inversion Hl; subst e0. rewrite He'.
        destruct (omin_spec (pfull a) (ft (ent now (pf a) p) - now)) as [d [Hd [Hle _]]].
        exists d. split; [exact Hd|lia].
      * rewrite flook_fset_neq in Hl by exact Hqp.
        destruct (HB q e0 u0) as [d0 [Hd0 Hle0]]; [intros [H|H]; [congruence|contradiction]|exact Hl|exact Hu|].
        rewrite Hd0. cbn [omin]. eexists. split; [reflexivity|lia].
    + intros q Hin. rewrite Hq in Hin. intros Hl. apply (HD q Hin). right. exact Hl.
    + intros q e0 Hin Hl. rewrite Hq in Hin. rewrite Hpf in Hl.
      assert (Hqp : q <> p) by (intros ->; apply (HD p Hin); left; reflexivity).
      rewrite flook_fset_neq in Hl by exact Hqp. apply (HC q e0 Hin Hl).
Qed.

Lemma fold_inv1 : forall l a, Inv1 l a -> Inv1 [] (fold_left (step now endt force sg) l a).
Proof.
  induction l as [|p l IH]; intros a H; cbn [fold_left]; [exact H|].
  apply IH. apply inv1_step. exact H.
Qed.

Lemma fold_gen (Q : list pid -> pl -> Prop) :
  (forall p l a, Inv1 (p :: l) a -> Q (p :: l) a -> Q l (step now endt force sg a p)) ->
  forall l a, Inv1 l a -> Q l a -> Q [] (fold_left (step now endt force sg) l a).
Proof.
  intros Hstep. induction l as [|p l IH]; intros a H HQ; cbn [fold_left]; [exact HQ|].
  apply IH; [apply inv1_step; exact H|apply Hstep; assumption].
Qed.

Lemma fold_plain (Q : pl -> Prop) :
  (forall p a, Q a -> Q (step now endt force sg a p)) ->
  forall l a, Q a -> Q (fold_left (step now endt force sg) l a).
Proof.
  intros Hstep. induction l as [|p l IH]; intros a HQ; cbn [fold_left]; [exact HQ|].
  apply IH. apply Hstep. exact HQ.
Qed.

(* balance of invocations against applications, drops and in-flight updates *)
Definition Jb (a : pl) : Prop := forall q fin,
  cnt_inv q fin (plog a) = (cnt_app q fin (plog a) + cnt_drop q fin (plog a) + pend q fin (pf a))%nat.

Lemma pend_ent p fin (f : front) : pend p fin f = pend1 (ent now f p) fin.
Proof. rewrite pend_flook. unfold ent. destruct (flook f p); reflexivity. Qed.

Lemma jb_step p l a : Inv1 (p :: l) a -> Jb a -> Jb (step now endt force sg a p).
Proof.
  intros Hinv HJ q fin. specialize (HJ q fin).
  pose proof (ent_due_idle p l a Hinv) as Hidle.
  poll_cases now endt force sg a p; rewrite Hpf, Hlog.
  - unfold cnt_inv, cnt_app, cnt_drop in *. cbn [filter].
    destruct (N.eq_dec q p) as [->|Hqp].
    + rewrite pend_fset_eq. rewrite (pend_ent p fin) in HJ. unfold pend1 in *.
      rewrite (Hidle Hdue) in HJ. rewrite He'. cbn [Sched.fu Sched.ft]. rewrite N.eqb_refl. cbn [andb].
      destruct (_ =? fin); cbn [length]; lia.
    + rewrite pend_fset_neq by exact Hqp. destruct (N.eqb_spec p q); [congruence|]. cbn [andb]. exact HJ.
  - unfold cnt_inv, cnt_app, cnt_drop in *. cbn [filter].
    destruct (N.eq_dec q p) as [->|Hqp].
    + rewrite pend_fset_eq. rewrite (pend_ent p fin) in HJ. unfold pend1 in *.
      rewrite (Hidle Hdue) in HJ. rewrite He'. cbn [Sched.fu]. exact HJ.
    + rewrite pend_fset_neq by exact Hqp. exact HJ.
  - destruct (N.eq_dec q p) as [->|Hqp].
    + rewrite pend_fset_eq, He', <- pend_ent. exact HJ.
    + rewrite pend_fset_neq by exact Hqp. exact HJ.
  - destruct (N.eq_dec q p) as [->|Hqp].
    + rewrite pend_fset_eq, He', <- pend_ent. exact HJ.
    + rewrite pend_fset_neq by exact Hqp. exact HJ.
Qed.

(* the loop only logs invocations and quiet marks *)
Definition Klog (l0 : list event) (a : pl) : Prop :=
  exists new, plog a = new ++ l0 /\ Forall (fun v => is_apply v = false) new.

Lemma klog_step l0 p a : Klog l0 a -> Klog l0 (step now endt force sg a p).
Proof.
  intros [new [H1 H2]]. unfold Klog. poll_cases now endt force sg a p; rewrite Hlog, H1.
  - eexists (_ :: new). split; [reflexivity|]. constructor; [reflexivity|exact H2].
  - eexists (_ :: new). split; [reflexivity|]. constructor; [reflexivity|exact H2].
  - exists new. auto.
  - exists new. auto.
Qed.

(* front times stay within the call *)
Definition Kle (a : pl) : Prop := forall q x, In (q, x) (pf a) -> ft x <= endt.

Lemma ent_kle p a : now <= endt -> Kle a -> ft (ent now (pf a) p) <= endt.
Proof.
  intros Hle HK. destruct (ent_cases now (pf a) p) as [Hl|[Hl Hd]].
  - apply (HK p). apply flook_In. exact Hl.
  - rewrite Hd. cbn [Sched.ft dflt]. exact Hle.
Qed.

Lemma kle_step p a : now <= endt -> Kle a -> Kle (step now endt force sg a p).
Proof.
  intros Hle HK q x Hin. pose proof (ent_kle p a Hle HK) as Hent.
  poll_cases now endt force sg a p; rewrite Hpf in Hin; apply In_fset in Hin;
    (destruct Hin as [[-> ->]|Hin]; [|apply (HK _ _ Hin)]); rewrite He'; cbn [Sched.ft]; lia.
Qed.

Definition Ffull (a : pl) : Prop := Kle a /\ forall d, pfull a = Some d -> now + d <= endt.

Lemma ffull_step p a : force = true -> now <= endt -> Ffull a -> Ffull (step now endt force sg a p).
Proof.
  intros Hf Hle [HK HF]. split; [apply kle_step; assumption|].
  pose proof (ent_kle p a Hle HK) as Hent.
  intros d Hd. poll_cases now endt force sg a p; rewrite Hfull in Hd.
  - destruct (omin_spec (pfull a) (futof force endt (ft (ent now (pf a) p)) req - now)) as [d' [Hd' [Hle' _]]].
    rewrite Hd' in Hd. inversion Hd; subst d'. lia.
  - apply HF. exact Hd.
  - subst force. unfold futof in Hfut. lia.
  - destruct (omin_spec (pfull a) (ft (ent now (pf a) p) - now)) as [d' [Hd' [Hle' _]]].
    rewrite Hd' in Hd. inversion Hd; subst d'. lia.
Qed.

(* idle fronts are not ahead of the clock *)
Definition Gb (a : pl) : Prop := forall q x, In (q, x) (pf a) -> fu x = None -> ft x <= now.

Lemma ent_gb p a : Gb a -> fu (ent now (pf a) p) = None -> ft (ent now (pf a) p) <= now.
Proof.
  intros HG Hu. destruct (ent_cases now (pf a) p) as [Hl|[Hl Hd]].
  - apply (HG p); [apply flook_In; exact Hl|exact Hu].
  - rewrite Hd. cbn [Sched.ft dflt]. lia.
Qed.

Lemma gb_step p a : Gb a -> Gb (step now endt force sg a p).
Proof.
  intros HG q x Hin Hu.
  poll_cases now endt force sg a p; rewrite Hpf in Hin; apply In_fset in Hin;
    (destruct Hin as [[-> ->]|Hin]; [|apply (HG _ _ Hin Hu)]).
  - rewrite He' in Hu. discriminate.
  - rewrite He'. cbn [Sched.ft]. exact Hdue.
  - rewrite He'. exact Hdue.
  - rewrite He' in *. apply ent_gb; assumption.
Qed.

Lemma omin_pos o x d :
  (forall d0, o = Some d0 -> 0 <= d0) -> 0 <= x -> omin o x = Some d -> 0 <= d.
Proof.
  intros Ho Hx. destruct o as [d0|]; cbn [omin]; intros H; inversion H; subst.
  - specialize (Ho d0 eq_refl). lia.
  - exact Hx.
Qed.

Definition Hpos (a : pl) : Prop := pok a = true -> forall d, pfull a = Some d -> 0 <= d.

Lemma hpos_step p a : now <= endt -> Hpos a -> Hpos (step now endt force sg a p).
Proof.
  intros Hle HH Hok' d Hd. poll_cases now endt force sg a p; rewrite Hok in Hok'; rewrite Hfull in Hd.
  - apply andb_true_iff in Hok'. destruct Hok' as [Hok1 Hok2]. specialize (HH Hok1).
    eapply omin_pos; [exact HH| |exact Hd].
    apply orb_true_iff in Hok2. destruct Hok2 as [H|H].
    + apply Z.ltb_lt in H. lia.
    + apply andb_true_iff in H. destruct H as [_ H]. apply Z.eqb_eq in H. lia.
  - apply (HH Hok' d Hd).
  - apply andb_true_iff in Hok'. destruct Hok' as [Hok1 Hok2]. specialize (HH Hok1).
    eapply omin_pos; [exact HH| |exact Hd]. apply Z.ltb_lt in Hok2. lia.
  - specialize (HH Hok'). eapply omin_pos; [exact HH| |exact Hd]. lia.
Qed.

(* under force every visited idle process has been marked quiet *)
Definition Tq (rem : list pid) (a : pl) : Prop :=
  Gb a /\ forall q e, flook (pf a) q = Some e -> fu e = None -> ~ In q rem -> In q (pquiet a).

Lemma tq_step p l a : force = true -> Tq (p :: l) a -> Tq l (step now endt force sg a p).
Proof.
  intros Hf [HG HT]. split; [apply gb_step; exact HG|].
  intros q e0 Hl Hu Hnin.
  poll_cases now endt force sg a p; rewrite Hpf in Hl; rewrite Hq;
    (destruct (N.eq_dec q p) as [->|Hqp];
     [rewrite flook_fset_eq in Hl; inversion Hl; subst e0
     |rewrite flook_fset_neq in Hl by exact Hqp; (try (apply in_or_app; left));
      apply (HT q e0 Hl Hu); intros [H|H]; [congruence|contradiction]]).
  - rewrite He' in Hu. discriminate.
  - apply in_or_app. right. left. reflexivity.
  - subst force. unfold futof in Hfut. lia.
  - rewrite He' in Hu. pose proof (ent_gb p a HG Hu). lia.
Qed.

(* idle fronts sit exactly at the clock *)
Definition Gtt (a : pl) : Prop := forall q x, In (q, x) (pf a) -> fu x = None -> ft x = now.

Lemma ent_gtt p a : Gtt a -> fu (ent now (pf a) p) = None -> ft (ent now (pf a) p) = now.
Proof.
  intros HG Hu. destruct (ent_cases now (pf a) p) as [Hl|[Hl Hd]].
  - apply (HG p); [apply flook_In; exact Hl|exact Hu].
  - rewrite Hd. reflexivity.
Qed.

Lemma gtt_step p l a : Inv1 (p :: l) a -> Gtt a -> Gtt (step now endt force sg a p).
Proof.
  intros Hinv HG q x Hin Hu. pose proof (ent_due_idle p l a Hinv) as Hidle.
  poll_cases now endt force sg a p; rewrite Hpf in Hin; apply In_fset in Hin;
    (destruct Hin as [[-> ->]|Hin]; [|apply (HG _ _ Hin Hu)]).
  - rewrite He' in Hu. discriminate.
  - rewrite He'. cbn [Sched.ft]. apply ent_gtt; [exact HG|apply Hidle; exact Hdue].
  - rewrite He' in *. apply ent_gtt; assumption.
  - rewrite He' in *. apply ent_gtt; assumption.
Qed.

Definition Tok (a : pl) : Prop := Gtt a /\ pok a = true.

Lemma tok_step p l a :
  force = true -> (forall w p x, 1 <= fst (poll w p x)) ->
  Inv1 (p :: l) a -> Tok a -> Tok (step now endt force sg a p).
Proof.
  intros Hf Hreq Hinv [HG Hk]. split; [eapply gtt_step; eauto|].
  pose proof (ent_due_idle p l a Hinv) as Hidle.
  poll_cases now endt force sg a p; rewrite Hok, Hk; cbn [andb].
  - pose proof (Hreq (pw a) p sg) as H1. rewrite Hpoll in H1. cbn [fst] in H1.
    assert (H : ft (ent now (pf a) p) = now) by (apply ent_gtt; [exact HG|apply Hidle; exact Hdue]).
    subst force. unfold futof. cbn [andb]. rewrite H.
    destruct (Z.ltb_spec now (Z.min (now + req) endt)); [reflexivity|]. cbn [orb]. apply Z.eqb_eq. lia.
  - reflexivity.
  - subst force. unfold futof in Hfut. lia.
  - reflexivity.
Qed.

End Fold.
(* ------------------------------------------------------------------ *)
(* one pass of the loop *)

Definition Inv (s : st) : Prop := NoDup (procs s) /\ nodup_fronts s /\ pending_future s.

Definition a0 (s : st) : pl :=
  Build_pl Sg U W (keep_live (procs s) (frt s)) (wld s) None []
           (rev (drop_events (gt s) (procs s) (frt s)) ++ log s) true.

Definition polled (endt : Z) (force : bool) (s : st) : pl :=
  fold_left (step (gt s) endt force (sto s)) (procs s) (a0 s).

Lemma emit_after_rows ee now et x rows et' :
  emit_after Sg vfixed ee now et x = (rows, et') -> Forall (fun v : event => is_emit v = true) rows.
Proof.
  unfold Sched.emit_after. destruct ee as [k|].
  - destruct (et <=? now); cbn [v_fix_emit vfixed]; intros H; inversion H; subst; repeat constructor.
  - intros H; inversion H; subst; repeat constructor.
Qed.

Lemma iter_cases ee endt force et s s' f' et' ok a :
  iterv vfixed ee endt force et s = (s', f', et', ok) ->
  a = polled endt force s ->
  ok = pok a /\ f' = (if force && (gt s' =? endt) then false else force) /\
  ( (pfull a = None /\ et' = et /\
     s' = Build_st Sg U W (next_event_fixed (gt s) endt (pf a)) (procs s)
            (advance_quiet (next_event_fixed (gt s) endt (pf a)) true (pquiet a) (pf a))
            (sto s) (pw a) (plog a))
  \/ (exists d rows us, pfull a = Some d /\ gt s + d <= endt /\
      Forall (fun v : event => is_emit v = true) rows /\
      s' = Build_st Sg U W (gt s + d) (snd (commit (sto s) (procs s) us))
             (colf (gt s + d) (advance_quiet (gt s + d) false (pquiet a) (pf a)))
             (fst (commit (sto s) (procs s) us)) (pw a)
             (rows ++ rev (colev (gt s + d) (advance_quiet (gt s + d) false (pquiet a) (pf a))) ++ plog a))
  \/ (exists d, pfull a = Some d /\ endt < gt s + d /\ et' = et /\
      s' = Build_st Sg U W endt (procs s) (pf a) (sto s) (pw a) (plog a)) ).
Proof.
  intros H Ha. unfold polled, a0 in Ha. unfold Sched.iter in H. cbv zeta in H.
  cbn [v_fix_quiet vfixed] in H. rewrite <- Ha in H. clear Ha.
  destruct (pfull a) as [d|] eqn:Efull.
  - revert H. destruct (Z.leb_spec (gt s + d) endt) as [Hle|Hgt]; intros H.
    + destruct (collect (gt s + d) (advance_quiet (gt s + d) false (pquiet a) (pf a))) as [[f2 us] ev] eqn:Ec.
      destruct (commit (sto s) (procs s) us) as [sto' procs'] eqn:Ecm.
      destruct (emit_after Sg vfixed ee (gt s + d) et sto') as [rows et1] eqn:Eem.
      apply collect_inv in Ec. destruct Ec as [Hf2 Hev].
      apply emit_after_rows in Eem.
      inversion H; subst. split; [reflexivity|]. split; [reflexivity|].
      right. left. exists d, rows, us. rewrite Ecm. cbn [fst snd]. auto.
    + inversion H; subst. split; [reflexivity|]. split; [reflexivity|].
      right. right. exists d. auto.
  - inversion H; subst. split; [reflexivity|]. split; [reflexivity|]. left. auto.
Qed.

Lemma inv1_init s : Inv s -> Inv1 (gt s) (procs s) (a0 s).
Proof.
  intros (Hnd & Hk & Hpf). unfold a0, Inv1. cbn [Sched.pf Sched.pfull Sched.pquiet].
  split; [exact Hnd|]. split; [apply nodup_keep_live; exact Hk|].
  split; [|split; [|split]].
  - intros q e u Hin Hl Hu. rewrite flook_keep_live in Hl.
    destruct (mem q (procs s)); [|discriminate]. apply flook_In in Hl. apply (Hpf q e u Hl Hu).
  - intros q e u Hnin Hl Hu. rewrite flook_keep_live in Hl.
    apply mem_false in Hnin. rewrite Hnin in Hl. discriminate.
  - intros q [].
  - intros q e [].
Qed.

Lemma polled_inv1 endt force s : Inv s -> Inv1 (gt s) [] (polled endt force s).
Proof. intros H. apply fold_inv1. apply inv1_init. exact H. Qed.

(* what the invariant says once every process has been visited *)
Lemma inv1_final now a : Inv1 now [] a ->
  NoDup (fkeys (pf a)) /\
  (forall q e u, In (q, e) (pf a) -> fu e = Some u -> exists d, pfull a = Some d /\ d <= ft e - now) /\
  (forall q e, In q (pquiet a) -> In (q, e) (pf a) -> fu e = None).
Proof.
  intros (_ & Hk & _ & HB & _ & HC). split; [exact Hk|]. split.
  - intros q e u Hin Hu. apply (HB q e u); [intros []|apply In_flook; assumption|exact Hu].
  - intros q e Hq Hin. apply (HC q e Hq). apply In_flook; assumption.
Qed.

Lemma polled_jb endt force s : Inv s -> balanced s -> Jb (polled endt force s).
Proof.
  intros Hinv Hbal. unfold polled.
  apply (fold_gen (gt s) endt force (sto s) (fun _ a => Jb a)).
  - intros p l a H1 H2. eapply jb_step; eauto.
  - apply inv1_init. exact Hinv.
  - intros q fin. unfold a0. cbn [Sched.pf Sched.plog]. specialize (Hbal q fin).
    destruct Hinv as (_ & Hk & _).
    rewrite (drop_pend (gt s) (procs s) (frt s) q fin Hk) in Hbal.
    destruct (drop_no_inv_app (gt s) (procs s) (frt s) q fin) as [H1 H2].
    unfold cnt_inv, cnt_app, cnt_drop in *. rewrite !len_filter_app, !len_filter_rev. lia.
Qed.

Lemma drop_no_apply now ps (f : front) : Forall (fun v : event => is_apply v = false) (drop_events now ps f).
Proof.
  induction f as [|[q e] r IH]; [constructor|].
  cbn [Sched.drop_events flat_map fst snd]. apply Forall_app. split; [|exact IH].
  destruct (mem q ps); [constructor|]. destruct (fu e); repeat constructor.
Qed.

Lemma polled_klog endt force s :
  exists new, plog (polled endt force s) = new ++ log s /\ Forall (fun v : event => is_apply v = false) new.
Proof.
  assert (H : Klog (rev (drop_events (gt s) (procs s) (frt s)) ++ log s) (polled endt force s)).
  { unfold polled. apply fold_plain.
    - intros p a. apply klog_step.
    - exists []. split; [reflexivity|constructor]. }
  destruct H as [new [H1 H2]]. exists (new ++ rev (drop_events (gt s) (procs s) (frt s))).
  split; [rewrite H1, app_assoc; reflexivity|]. apply Forall_app. split; [exact H2|].
  apply Forall_rev. apply drop_no_apply.
Qed.

Lemma polled_kle endt force s : gt s <= endt -> fronts_le endt s -> Kle endt (polled endt force s).
Proof.
  intros Hle Hf. unfold polled. apply fold_plain.
  - intros p a. apply kle_step. exact Hle.
  - intros q x Hin. unfold a0 in Hin. cbn [Sched.pf] in Hin. apply In_keep_live in Hin.
    apply (Hf q x). tauto.
Qed.

Lemma polled_ffull endt s :
  gt s <= endt -> fronts_le endt s -> Ffull (gt s) endt (polled endt true s).
Proof.
  intros Hle Hf. unfold polled. apply fold_plain.
  - intros p a. apply ffull_step; [reflexivity|exact Hle].
  - split.
    + intros q x Hin. unfold a0 in Hin. cbn [Sched.pf] in Hin. apply In_keep_live in Hin.
      apply (Hf q x). tauto.
    + intros d Hd. discriminate.
Qed.

Lemma a0_gb s : idle_behind s -> Gb (gt s) (a0 s).
Proof.
  intros Hi q x Hin Hu. unfold a0 in Hin. cbn [Sched.pf] in Hin. apply In_keep_live in Hin.
  apply (Hi q x); tauto.
Qed.

Lemma polled_gb endt force s : idle_behind s -> Gb (gt s) (polled endt force s).
Proof.
  intros Hi. unfold polled. apply fold_plain.
  - intros p a. apply gb_step.
  - apply a0_gb. exact Hi.
Qed.

Lemma polled_hpos endt force s : gt s <= endt -> Hpos (polled endt force s).
Proof.
  intros Hle. unfold polled. apply (fold_plain (gt s) endt force (sto s)).
  - intros p a. apply hpos_step. exact Hle.
  - intros _ d Hd. discriminate.
Qed.

Lemma polled_tq endt s : Inv s -> idle_behind s -> Tq (gt s) [] (polled endt true s).
Proof.
  intros Hinv Hi. unfold polled. apply (fold_gen (gt s) endt true (sto s) (Tq (gt s))).
  - intros p l a _ H. apply tq_step; [reflexivity|exact H].
  - apply inv1_init. exact Hinv.
  - split; [apply a0_gb; exact Hi|].
    intros q e Hl Hu Hnin. unfold a0 in Hl. cbn [Sched.pf] in Hl. rewrite flook_keep_live in Hl.
    apply mem_false in Hnin. rewrite Hnin in Hl. discriminate.
Qed.

Lemma polled_tok endt s :
  (forall w p x, 1 <= fst (poll w p x)) -> Inv s -> idle_tight s -> Tok (gt s) (polled endt true s).
Proof.
  intros Hreq Hinv Hi. unfold polled. apply (fold_gen (gt s) endt true (sto s) (fun _ a => Tok (gt s) a)).
  - intros p l a H1 H2. eapply tok_step; eauto.
  - apply inv1_init. exact Hinv.
  - split; [|reflexivity]. intros q x Hin Hu. unfold a0 in Hin. cbn [Sched.pf] in Hin.
    apply In_keep_live in Hin. apply (Hi q x); tauto.
Qed.

Lemma fu_aq1 n c q p e : fu (aq1 n c q p e) = fu e.
Proof. unfold aq1. destruct (mem p q); reflexivity. Qed.

Lemma aq1_cases n c q p e :
  (In p q /\ aq1 n c q p e = {| ft := n; fu := fu e; fq := if c then false else fq e |})
  \/ (~ In p q /\ aq1 n c q p e = e).
Proof.
  unfold aq1. destruct (mem p q) eqn:E.
  - left. apply mem_In in E. auto.
  - right. apply mem_false in E. auto.
Qed.

Lemma ft_col1 now e : ft (col1 now e) = ft e.
Proof. unfold col1. destruct (ft e <=? now); reflexivity. Qed.

Lemma col1_cases now e :
  (ft e <= now /\ col1 now e = {| ft := ft e; fu := None; fq := false |}) \/ (now < ft e /\ col1 now e = e).
Proof. unfold col1. destruct (Z.leb_spec (ft e) now); auto. Qed.

(* ------------------------------------------------------------------ *)
(* the invariant *)

Theorem init_inv t0 ps s0 w0 : NoDup ps ->
  let s := init Sg U W t0 ps s0 w0 in
  Inv s /\ balanced s /\ idle_tight s /\ log_app_ok (log s) /\ fronts_le t0 s.
Proof.
  intros Hnd s.
  assert (Hin : forall p e, In (p, e) (frt s) -> e = {| ft := t0; fu := None; fq := false |}).
  { intros p e H. subst s. unfold init in H. cbn [Sched.frt] in H. apply in_map_iff in H.
    destruct H as [x [H _]]. inversion H. reflexivity. }
  split; [|split; [|split; [|split]]].
  - split; [exact Hnd|]. split.
    + unfold nodup_fronts, fkeys. subst s. unfold init. cbn [Sched.frt]. rewrite map_map. cbn [fst].
      rewrite map_id. exact Hnd.
    + intros p e u H Hu. apply Hin in H. subst e. discriminate.
  - intros p fin. rewrite pend_flook. destruct (flook (frt s) p) as [e|] eqn:E; [|reflexivity].
    apply flook_In in E. apply Hin in E. subst e. reflexivity.
  - intros p e H _. apply Hin in H. subst e. reflexivity.
  - subst s. unfold init, log_app_ok. cbn [Sched.log]. repeat constructor.
  - intros p e H. apply Hin in H. subst e. cbn [Sched.ft]. subst s. cbn. lia.
Qed.

Theorem iter_inv ee endt force et s s' f' et' ok :
  Inv s -> iterv vfixed ee endt force et s = (s', f', et', ok) -> Inv s'.
Proof.
  intros Hinv H.
  destruct (iter_cases _ _ _ _ _ _ _ _ _ _ H eq_refl) as (_ & _ & Hc).
  pose proof (inv1_final _ _ (polled_inv1 endt force s Hinv)) as (Hk & HB & HC).
  pose proof Hinv as (Hnd & _ & _).
  destruct Hc as [(Hfull & _ & ->) | [(d & rows & us & Hfull & Hle & Hrows & ->) | (d & Hfull & Hgt & _ & ->)]];
    unfold Inv, nodup_fronts, pending_future; cbn [Sched.procs Sched.frt Sched.gt].
  - split; [exact Hnd|]. split; [rewrite fkeys_advance_quiet; exact Hk|].
    intros p x u Hin Hu. apply In_advance_quiet in Hin. destruct Hin as [e [Hin ->]].
    rewrite fu_aq1 in Hu. destruct (HB p e u Hin Hu) as [d [Hd _]]. congruence.
  - split; [apply commit_nodup; exact Hnd|].
    split; [rewrite fkeys_colf, fkeys_advance_quiet; exact Hk|].
    intros p x u Hin Hu. apply In_colf in Hin. destruct Hin as [e [Hin ->]].
    destruct (col1_cases (gt s + d) e) as [[_ Hx]|[Hlt Hx]]; rewrite Hx in *; [discriminate|exact Hlt].
  - split; [exact Hnd|]. split; [exact Hk|].
    intros p e u Hin Hu. destruct (HB p e u Hin Hu) as [d' [Hd' Hle']]. rewrite Hfull in Hd'.
    inversion Hd'; subst d'. lia.
Qed.

(* ------------------------------------------------------------------ *)
(* C01: on time, exactly once *)

Lemma no_apply_on_time (g : Z) (l : list event) :
  Forall (fun v : event => is_apply v = false) l ->
  Forall (fun e : event => match e with EApply _ p fin now => now = fin /\ now = g | _ => True end) l.
Proof.
  intros H. eapply Forall_impl; [|exact H]. intros [] Hv; try exact I. discriminate.
Qed.

Theorem iter_apply_on_time ee endt force et s s' f' et' ok :
  Inv s -> iterv vfixed ee endt force et s = (s', f', et', ok) ->
  exists new, log s' = new ++ log s /\
    Forall (fun e => match e with EApply _ p fin now => now = fin /\ now = gt s' | _ => True end) new.
Proof.
  intros Hinv H.
  destruct (iter_cases _ _ _ _ _ _ _ _ _ _ H eq_refl) as (_ & _ & Hc).
  pose proof (inv1_final _ _ (polled_inv1 endt force s Hinv)) as (Hk & HB & HC).
  destruct (polled_klog endt force s) as [new [Hlog Hnew]].
  destruct Hc as [(Hfull & _ & ->) | [(d & rows & us & Hfull & Hle & Hrows & ->) | (d & Hfull & Hgt & _ & ->)]];
    cbn [Sched.log Sched.gt].
  - exists new. split; [exact Hlog|]. apply no_apply_on_time. exact Hnew.
  - eexists (rows ++ rev _ ++ new). split; [rewrite Hlog, <- !app_assoc; reflexivity|].
    apply Forall_app. split; [|apply Forall_app; split].
    + eapply Forall_impl; [|exact Hrows]. intros [] Hv; try exact I. discriminate.
    + apply Forall_rev. eapply Forall_impl; [|apply colev_spec]. cbn beta.
      intros v (p & e & u & Hin & Hu & Hdue & ->). split; [|reflexivity].
      apply In_advance_quiet in Hin. destruct Hin as [e0 [Hin ->]].
      destruct (aq1_cases (gt s + d) false (pquiet (polled endt force s)) p e0) as [[_ Hx]|[_ Hx]];
        rewrite Hx in *; [reflexivity|].
      destruct (HB p e0 u Hin Hu) as [d' [Hd' Hle']]. rewrite Hfull in Hd'. inversion Hd'; subst d'. lia.
    + apply no_apply_on_time. exact Hnew.
  - exists new. split; [exact Hlog|]. apply no_apply_on_time. exact Hnew.
Qed.

Lemma cnt_emits (rows : list event) p fin :
  Forall (fun v : event => is_emit v = true) rows ->
  cnt_inv p fin rows = 0%nat /\ cnt_app p fin rows = 0%nat /\ cnt_drop p fin rows = 0%nat.
Proof.
  induction 1 as [|v l Hv _ IH]; [repeat split; reflexivity|].
  destruct v; try discriminate. exact IH.
Qed.

Theorem iter_balanced ee endt force et s s' f' et' ok :
  Inv s -> balanced s -> iterv vfixed ee endt force et s = (s', f', et', ok) -> balanced s'.
Proof.
  intros Hinv Hbal H.
  destruct (iter_cases _ _ _ _ _ _ _ _ _ _ H eq_refl) as (_ & _ & Hc).
  pose proof (inv1_final _ _ (polled_inv1 endt force s Hinv)) as (Hk & HB & HC).
  pose proof (polled_jb endt force s Hinv Hbal) as HJ.
  assert (Hpend : forall n c p fin,
            pend p fin (advance_quiet n c (pquiet (polled endt force s)) (pf (polled endt force s)))
            = pend p fin (pf (polled endt force s))).
  { intros n c p fin. apply pend_advance_quiet. intros e Hq Hl. apply (HC p e Hq). apply flook_In. exact Hl. }
  destruct Hc as [(Hfull & _ & ->) | [(d & rows & us & Hfull & Hle & Hrows & ->) | (d & Hfull & Hgt & _ & ->)]];
    intros p fin; cbn [Sched.log Sched.frt]; specialize (HJ p fin).
  - rewrite Hpend. exact HJ.
  - destruct (cnt_emits rows p fin Hrows) as (R1 & R2 & R3).
    set (f1 := advance_quiet (gt s + d) false (pquiet (polled endt force s)) (pf (polled endt force s))) in *.
    destruct (colev_no_inv_drop (gt s + d) f1 p fin) as [C1 C2].
    assert (Hk1 : NoDup (fkeys f1)) by (subst f1; rewrite fkeys_advance_quiet; exact Hk).
    pose proof (colev_pend (gt s + d) f1 p fin Hk1) as C3.
    subst f1. rewrite Hpend in C3.
    unfold cnt_inv, cnt_app, cnt_drop in *. rewrite !len_filter_app, !len_filter_rev. lia.
  - exact HJ.
Qed.

(* ------------------------------------------------------------------ *)
(* fronts stay within the call *)

Theorem iter_fronts_le ee endt force et s s' f' et' ok :
  gt s <= endt -> fronts_le endt s -> iterv vfixed ee endt force et s = (s', f', et', ok) ->
  fronts_le endt s' /\ gt s' <= endt.
Proof.
  intros Hle Hf H.
  destruct (iter_cases _ _ _ _ _ _ _ _ _ _ H eq_refl) as (_ & _ & Hc).
  pose proof (polled_kle endt force s Hle Hf) as HK.
  destruct Hc as [(Hfull & _ & ->) | [(d & rows & us & Hfull & Hle' & Hrows & ->) | (d & Hfull & Hgt & _ & ->)]];
    unfold fronts_le; cbn [Sched.gt Sched.frt].
  - pose proof (nef_le (gt s) endt (pf (polled endt force s))) as Hne.
    split; [|exact Hne]. intros p x Hin. apply In_advance_quiet in Hin. destruct Hin as [e [Hin ->]].
    pose proof (HK p e Hin).
    destruct (aq1_cases (next_event_fixed (gt s) endt (pf (polled endt force s))) true
                (pquiet (polled endt force s)) p e) as [[_ Hx]|[_ Hx]]; rewrite Hx; cbn [Sched.ft]; lia.
  - split; [|exact Hle']. intros p x Hin. apply In_colf in Hin. destruct Hin as [e1 [Hin ->]].
    rewrite ft_col1. apply In_advance_quiet in Hin. destruct Hin as [e [Hin ->]].
    pose proof (HK p e Hin).
    destruct (aq1_cases (gt s + d) false (pquiet (polled endt force s)) p e) as [[_ Hx]|[_ Hx]];
      rewrite Hx; cbn [Sched.ft]; lia.
  - split; [exact HK|lia].
Qed.

(* ------------------------------------------------------------------ *)
(* C02 *)

Theorem iter_idle_behind ee endt force et s s' f' et' :
  Inv s -> idle_behind s -> gt s <= endt ->
  iterv vfixed ee endt force et s = (s', f', et', true) -> idle_behind s'.
Proof.
  intros Hinv Hi Hle H.
  destruct (iter_cases _ _ _ _ _ _ _ _ _ _ H eq_refl) as (Hok & _ & Hc).
  pose proof (polled_gb endt force s Hi) as HG.
  pose proof (polled_hpos endt force s Hle (eq_sym Hok)) as HH.
  destruct Hc as [(Hfull & _ & ->) | [(d & rows & us & Hfull & Hle' & Hrows & ->) | (d & Hfull & Hgt & _ & ->)]];
    unfold idle_behind; cbn [Sched.gt Sched.frt].
  - pose proof (nef_ge (gt s) endt (pf (polled endt force s)) Hle) as Hne.
    intros p x Hin Hu. apply In_advance_quiet in Hin. destruct Hin as [e [Hin ->]].
    rewrite fu_aq1 in Hu. pose proof (HG p e Hin Hu).
    destruct (aq1_cases (next_event_fixed (gt s) endt (pf (polled endt force s))) true
                (pquiet (polled endt force s)) p e) as [[_ Hx]|[_ Hx]]; rewrite Hx; cbn [Sched.ft]; lia.
  - specialize (HH d Hfull).
    intros p x Hin Hu. apply In_colf in Hin. destruct Hin as [e1 [Hin ->]].
    destruct (col1_cases (gt s + d) e1) as [[Hd Hx]|[Hd Hx]]; rewrite Hx in *; [cbn [Sched.ft]; exact Hd|].
    apply In_advance_quiet in Hin. destruct Hin as [e [Hin ->]].
    rewrite fu_aq1 in Hu. pose proof (HG p e Hin Hu).
    destruct (aq1_cases (gt s + d) false (pquiet (polled endt force s)) p e) as [[_ Hx']|[_ Hx']];
      rewrite Hx'; cbn [Sched.ft]; lia.
  - intros p e Hin Hu. pose proof (HG p e Hin Hu). lia.
Qed.

(* the pass of a forced run that reaches end_time leaves every process complete *)
Lemma iter_final_complete ee endt et s s' f' et' ok :
  Inv s -> idle_behind s -> fronts_le endt s -> gt s <= endt ->
  iterv vfixed ee endt true et s = (s', f', et', ok) -> gt s' = endt ->
  complete Sg U W s' = true.
Proof.
  intros Hinv Hi Hf Hle H Hend.
  destruct (iter_cases _ _ _ _ _ _ _ _ _ _ H eq_refl) as (_ & _ & Hc).
  pose proof (inv1_final _ _ (polled_inv1 endt true s Hinv)) as (Hk & HB & HC).
  pose proof (polled_tq endt s Hinv Hi) as [HG HT].
  pose proof (polled_ffull endt s Hle Hf) as [HK HF].
  assert (HT' : forall p e, In (p, e) (pf (polled endt true s)) -> fu e = None ->
                            In p (pquiet (polled endt true s))).
  { intros p e Hin Hu. apply (HT p e); [apply In_flook; assumption|exact Hu|intros []]. }
  unfold complete. apply forallb_forall. intros [p x] Hin. cbn [snd].
  destruct Hc as [(Hfull & _ & ->) | [(d & rows & us & Hfull & Hle' & Hrows & ->) | (d & Hfull & Hgt & _ & ->)]];
    cbn [Sched.gt Sched.frt] in *.
  - assert (Hnone : forall q e, In (q, e) (pf (polled endt true s)) -> fu e = None).
    { intros q e Hq. destruct (fu e) as [u|] eqn:Eu; [|reflexivity].
      destruct (HB q e u Hq Eu) as [d [Hd _]]. congruence. }
    apply In_advance_quiet in Hin. destruct Hin as [e [Hin ->]].
    pose proof (Hnone p e Hin) as Hu. pose proof (HT' p e Hin Hu) as Hq.
    destruct (aq1_cases (next_event_fixed (gt s) endt (pf (polled endt true s))) true
                (pquiet (polled endt true s)) p e) as [[_ Hx]|[Hn _]]; [|contradiction].
    rewrite Hx. cbn [Sched.ft Sched.fu Sched.fq]. rewrite Hu, Z.eqb_refl. reflexivity.
  - apply In_colf in Hin. destruct Hin as [e1 [Hin ->]].
    apply In_advance_quiet in Hin. destruct Hin as [e [Hin ->]].
    assert (H1 : ft (aq1 (gt s + d) false (pquiet (polled endt true s)) p e) = gt s + d).
    { destruct (aq1_cases (gt s + d) false (pquiet (polled endt true s)) p e) as [[_ Hx]|[Hn Hx]];
        rewrite Hx; cbn [Sched.ft]; [reflexivity|].
      pose proof (HK p e Hin). destruct (fu e) as [u|] eqn:Eu.
      - destruct (HB p e u Hin Eu) as [d' [Hd' Hle'']]. rewrite Hfull in Hd'. inversion Hd'; subst d'. lia.
      - exfalso. apply Hn. apply (HT' p e Hin Eu). }
    destruct (col1_cases (gt s + d) (aq1 (gt s + d) false (pquiet (polled endt true s)) p e))
      as [[_ Hx]|[Hlt _]]; [|lia].
    rewrite Hx. cbn [Sched.ft Sched.fu Sched.fq]. rewrite H1, Z.eqb_refl. reflexivity.
  - specialize (HF d Hfull). lia.
Qed.

(* ------------------------------------------------------------------ *)
(* forced passes never lag *)

Theorem ok_forced ee endt et s s' f' et' ok :
  (forall w p x, 1 <= fst (poll w p x)) ->
  Inv s -> idle_tight s -> fronts_le endt s -> gt s <= endt ->
  iterv vfixed ee endt true et s = (s', f', et', ok) ->
  ok = true /\ idle_tight s' /\ fronts_le endt s' /\ Inv s'.
Proof.
  intros Hreq Hinv Hi Hf Hle H.
  assert (Hib : idle_behind s).
  { intros p e Hin Hu. rewrite (Hi p e Hin Hu). lia. }
  destruct (iter_cases _ _ _ _ _ _ _ _ _ _ H eq_refl) as (Hok & _ & Hc).
  pose proof (inv1_final _ _ (polled_inv1 endt true s Hinv)) as (Hk & HB & HC).
  pose proof (polled_tq endt s Hinv Hib) as [HG HT].
  pose proof (polled_ffull endt s Hle Hf) as [HK HF].
  pose proof (polled_tok endt s Hreq Hinv Hi) as [_ Hpok].
  assert (HT' : forall p e, In (p, e) (pf (polled endt true s)) -> fu e = None ->
                            In p (pquiet (polled endt true s))).
  { intros p e Hin Hu. apply (HT p e); [apply In_flook; assumption|exact Hu|intros []]. }
  split; [congruence|].
  split; [|split; [exact (proj1 (iter_fronts_le _ _ _ _ _ _ _ _ _ Hle Hf H))|eapply iter_inv; eauto]].
  destruct Hc as [(Hfull & _ & ->) | [(d & rows & us & Hfull & Hle' & Hrows & ->) | (d & Hfull & Hgt & _ & ->)]];
    unfold idle_tight; cbn [Sched.gt Sched.frt].
  - intros p x Hin Hu. apply In_advance_quiet in Hin. destruct Hin as [e [Hin ->]].
    rewrite fu_aq1 in Hu. pose proof (HT' p e Hin Hu) as Hq.
    destruct (aq1_cases (next_event_fixed (gt s) endt (pf (polled endt true s))) true
                (pquiet (polled endt true s)) p e) as [[_ Hx]|[Hn _]]; [|contradiction].
    rewrite Hx. reflexivity.
  - intros p x Hin Hu. apply In_colf in Hin. destruct Hin as [e1 [Hin ->]].
    rewrite ft_col1. apply In_advance_quiet in Hin. destruct Hin as [e [Hin ->]].
    destruct (aq1_cases (gt s + d) false (pquiet (polled endt true s)) p e) as [[_ Hx]|[Hn Hx]];
      rewrite Hx in *; cbn [Sched.ft]; [reflexivity|].
    destruct (fu e) as [u|] eqn:Eu.
    + destruct (HB p e u Hin Eu) as [d' [Hd' Hle'']]. rewrite Hfull in Hd'. inversion Hd'; subst d'.
      destruct (col1_cases (gt s + d) e) as [[Hd _]|[_ Hx']]; [lia|]. rewrite Hx' in Hu. congruence.
    + exfalso. apply Hn. apply (HT' p e Hin Eu).
  - specialize (HF d Hfull). lia.
Qed.

(* ------------------------------------------------------------------ *)
(* the loop *)

Lemma run_gen (P : st -> Prop) ee endt :
  (forall force et s s' f' et' ok,
     P s -> iterv vfixed ee endt force et s = (s', f', et', ok) -> P s') ->
  forall fuel force et s s' ok,
    P s -> runv vfixed ee fuel endt force et s = (Some s', ok) -> P s' /\ endt <= gt s'.
Proof.
  intros Hstep. induction fuel as [|n IH]; intros force et s s' ok HP H; cbn [Sched.run] in H.
  - destruct ((gt s <? endt) || force) eqn:E; [discriminate|]. inversion H; subst.
    apply orb_false_iff in E. destruct E as [E _]. apply Z.ltb_ge in E. auto.
  - destruct ((gt s <? endt) || force) eqn:E.
    + destruct (iterv vfixed ee endt force et s) as [[[s1 f1] et1] ok1] eqn:Ei.
      destruct (runv vfixed ee n endt f1 et1 s1) as [r ok2] eqn:Er.
      inversion H; subst. eapply IH; [eapply Hstep; eauto|exact Er].
    + inversion H; subst. apply orb_false_iff in E. destruct E as [E _]. apply Z.ltb_ge in E. auto.
Qed.

Lemma iter_log_app_ok ee endt force et s s' f' et' ok :
  Inv s -> log_app_ok (log s) -> iterv vfixed ee endt force et s = (s', f', et', ok) ->
  log_app_ok (log s').
Proof.
  intros Hinv Hl H. destruct (iter_apply_on_time _ _ _ _ _ _ _ _ _ Hinv H) as [new [-> Hnew]].
  unfold log_app_ok. apply Forall_app. split; [|exact Hl].
  eapply Forall_impl; [|exact Hnew]. intros [] Hv; try exact I. tauto.
Qed.

Theorem run_once ee fuel endt force : forall et s s' ok,
  Inv s -> balanced s -> log_app_ok (log s) ->
  runv vfixed ee fuel endt force et s = (Some s', ok) ->
  Inv s' /\ balanced s' /\ log_app_ok (log s').
Proof.
  intros et s s' ok Hinv Hbal Hl H.
  apply (run_gen (fun s => Inv s /\ balanced s /\ log_app_ok (log s)) ee endt) in H; [tauto| |tauto].
  clear - commit_nodup. intros force et s s' f' et' ok (Hinv & Hbal & Hl) H.
  split; [eapply iter_inv; eauto|]. split; [eapply iter_balanced; eauto|eapply iter_log_app_ok; eauto].
Qed.

Theorem run_calls_once ee fuel calls : forall s s' ok,
  Inv s -> balanced s -> log_app_ok (log s) ->
  run_callsv vfixed ee fuel calls s = (Some s', ok) ->
  Inv s' /\ balanced s' /\ log_app_ok (log s').
Proof.
  induction calls as [|[i f] rest IH]; intros s s' ok Hinv Hbal Hl H; cbn [Sched.run_calls] in H.
  - inversion H; subst. auto.
  - destruct (run_forv vfixed ee fuel i f s) as [[s1|] ok1] eqn:Er; [|discriminate].
    destruct (run_callsv vfixed ee fuel rest s1) as [r' ok'] eqn:Ec.
    inversion H; subst. unfold Sched.run_for in Er.
    apply run_once in Er; [|assumption..]. destruct Er as (H1 & H2 & H3).
    eapply IH; eauto.
Qed.

Theorem no_pending_at_return ee fuel endt force : forall et s s' ok,
  Inv s -> fronts_le endt s -> gt s <= endt ->
  runv vfixed ee fuel endt force et s = (Some s', ok) ->
  (forall p e, In (p, e) (frt s') -> fu e = None) /\ fronts_le (gt s') s' /\ gt s' = endt.
Proof.
  intros et s s' ok Hinv Hf Hle H.
  apply (run_gen (fun s => Inv s /\ fronts_le endt s /\ gt s <= endt) ee endt) in H; [| |tauto].
  - destruct H as [(Hinv' & Hf' & Hle') Hge]. assert (Heq : gt s' = endt) by lia.
    split; [|split; [rewrite Heq; exact Hf'|exact Heq]].
    intros p e Hin. destruct (fu e) as [u|] eqn:Eu; [|reflexivity].
    destruct Hinv' as (_ & _ & Hpf). pose proof (Hpf p e u Hin Eu). pose proof (Hf' p e Hin). lia.
  - clear - commit_nodup. intros force et s s' f' et' ok (Hinv & Hf & Hle) H.
    split; [eapply iter_inv; eauto|]. eapply iter_fronts_le; eauto.
Qed.

Corollary all_applied_at_return ee fuel endt force et s s' ok :
  Inv s -> balanced s -> fronts_le endt s -> gt s <= endt ->
  runv vfixed ee fuel endt force et s = (Some s', ok) ->
  forall p fin, cnt_inv p fin (log s') = (cnt_app p fin (log s') + cnt_drop p fin (log s'))%nat.
Proof.
  intros Hinv Hbal Hf Hle H p fin.
  destruct (no_pending_at_return _ _ _ _ _ _ _ _ Hinv Hf Hle H) as (Hnone & _ & _).
  apply (run_gen (fun s => Inv s /\ balanced s) ee endt) in H; [| |tauto].
  - destruct H as [(_ & Hbal') _]. rewrite (Hbal' p fin), pend_flook.
    destruct (flook (frt s') p) as [e|] eqn:E; [|lia].
    apply flook_In in E. unfold pend1. rewrite (Hnone p e E). lia.
  - clear - commit_nodup. intros force et s s' f' et' ok (Hinv & Hbal) H.
    split; [eapply iter_inv; eauto|eapply iter_balanced; eauto].
Qed.

Lemma run_stop ee n endt et s : endt <= gt s -> runv vfixed ee n endt false et s = (Some s, true).
Proof.
  intros H. assert (E : (gt s <? endt) || false = false).
  { rewrite orb_false_r. apply Z.ltb_ge. exact H. }
  destruct n; cbn [Sched.run]; rewrite E; reflexivity.
Qed.

Lemma iter_force ee endt force et s s' f' et' ok :
  iterv vfixed ee endt force et s = (s', f', et', ok) ->
  f' = (if force && (gt s' =? endt) then false else force).
Proof. intros H. destruct (iter_cases _ _ _ _ _ _ _ _ _ _ H eq_refl) as (_ & Hf & _). exact Hf. Qed.

Theorem update_completes ee fuel endt : forall et s s',
  Inv s -> idle_behind s -> fronts_le endt s -> gt s <= endt ->
  runv vfixed ee fuel endt true et s = (Some s', true) -> complete Sg U W s' = true.
Proof.
  induction fuel as [|n IH]; intros et s s' Hinv Hi Hf Hle H; cbn [Sched.run] in H;
    rewrite orb_true_r in H; [discriminate|].
  destruct (iterv vfixed ee endt true et s) as [[[s1 f1] et1] ok1] eqn:Ei.
  destruct (runv vfixed ee n endt f1 et1 s1) as [r ok2] eqn:Er.
  inversion H as [[Hr Hok]]. subst r. apply andb_true_iff in Hok. destruct Hok as [-> ->].
  pose proof (iter_force _ _ _ _ _ _ _ _ _ Ei) as Hf1. cbn [andb] in Hf1.
  destruct (iter_fronts_le _ _ _ _ _ _ _ _ _ Hle Hf Ei) as [Hf' Hle'].
  destruct (Z.eqb_spec (gt s1) endt) as [Heq|Hne]; subst f1.
  - rewrite run_stop in Er by lia. inversion Er; subst s'.
    eapply iter_final_complete; eauto.
  - eapply IH; [| | | |exact Er]; try assumption.
    + eapply iter_inv; eauto.
    + eapply iter_idle_behind; eauto.
Qed.

Theorem run_forced_ok ee fuel endt : forall et s r ok,
  (forall w p x, 1 <= fst (poll w p x)) ->
  Inv s -> idle_tight s -> fronts_le endt s -> gt s <= endt ->
  runv vfixed ee fuel endt true et s = (r, ok) ->
  ok = true /\ (forall s', r = Some s' -> complete Sg U W s' = true /\ idle_tight s' /\ Inv s' /\ gt s' = endt).
Proof.
  induction fuel as [|n IH]; intros et s r ok Hreq Hinv Hi Hf Hle H; cbn [Sched.run] in H;
    rewrite orb_true_r in H.
  - inversion H; subst. split; [reflexivity|]. intros s' Hs. discriminate.
  - destruct (iterv vfixed ee endt true et s) as [[[s1 f1] et1] ok1] eqn:Ei.
    destruct (runv vfixed ee n endt f1 et1 s1) as [r2 ok2] eqn:Er.
    inversion H; subst r ok. clear H.
    pose proof (iter_force _ _ _ _ _ _ _ _ _ Ei) as Hf1. cbn [andb] in Hf1.
    destruct (iter_fronts_le _ _ _ _ _ _ _ _ _ Hle Hf Ei) as [_ Hle'].
    destruct (ok_forced _ _ _ _ _ _ _ _ Hreq Hinv Hi Hf Hle Ei) as (-> & Hi' & Hf' & Hinv').
    cbn [andb].
    destruct (Z.eqb_spec (gt s1) endt) as [Heq|Hne]; subst f1.
    + rewrite run_stop in Er by lia. inversion Er; subst r2 ok2. split; [reflexivity|].
      intros s' Hs. inversion Hs; subst s'. split; [|auto].
      apply (iter_final_complete ee endt et s s1 false et1 true Hinv); try assumption.
      intros p e Hin Hu. rewrite (Hi p e Hin Hu). lia.
    + eapply IH; eauto.
Qed.

Lemma complete_fronts_le s : complete Sg U W s = true -> fronts_le (gt s) s.
Proof.
  unfold complete. rewrite forallb_forall. intros H p e Hin. specialize (H (p, e) Hin). cbn [snd] in H.
  apply andb_true_iff in H. destruct H as [H _]. apply andb_true_iff in H. destruct H as [H _].
  apply Z.eqb_eq in H. lia.
Qed.

Theorem update_only_ok ee fuel calls : forall s r ok,
  (forall w p x, 1 <= fst (poll w p x)) ->
  Forall (fun c => 0 <= fst c /\ snd c = true) calls ->
  Inv s -> idle_tight s -> fronts_le (gt s) s ->
  run_callsv vfixed ee fuel calls s = (r, ok) ->
  ok = true /\ (forall s', r = Some s' -> calls <> [] -> complete Sg U W s' = true).
Proof.
  induction calls as [|[i f] rest IH]; intros s r ok Hreq Hc Hinv Hi Hf H; cbn [Sched.run_calls] in H.
  - inversion H; subst. split; [reflexivity|]. intros s' _ Hn. contradiction.
  - inversion Hc as [|c l [Hi0 Hf0] Hc']; subst. cbn [fst snd] in Hi0, Hf0. subst f.
    destruct (run_forv vfixed ee fuel i true s) as [r1 ok1] eqn:Er.
    unfold Sched.run_for in Er.
    assert (Hf1 : fronts_le (gt s + i) s).
    { intros p e Hin. pose proof (Hf p e Hin). lia. }
    assert (Hle1 : gt s <= gt s + i) by lia.
    destruct (run_forced_ok _ _ _ _ _ _ _ Hreq Hinv Hi Hf1 Hle1 Er) as [-> Hs1].
    destruct r1 as [s1|].
    + destruct (Hs1 s1 eq_refl) as (Hcomp & Hi1 & Hinv1 & Hgt1).
      destruct (run_callsv vfixed ee fuel rest s1) as [r' ok'] eqn:Ec.
      inversion H; subst r ok. clear H.
      destruct (IH s1 r' ok' Hreq Hc' Hinv1 Hi1 (complete_fronts_le s1 Hcomp) Ec) as [-> Hr'].
      split; [reflexivity|]. intros s' Hs _.
      destruct rest as [|c rest'].
      * cbn [Sched.run_calls] in Ec. assert (Hr1 : r' = Some s1) by congruence.
        rewrite Hr1 in Hs. assert (Hss : s1 = s') by congruence. rewrite <- Hss. exact Hcomp.
      * apply (Hr' s' Hs). discriminate.
    + inversion H; subst. split; [reflexivity|]. intros s' Hs. discriminate.
Qed.


End Once.

Print Assumptions init_inv.
Print Assumptions iter_inv.
Print Assumptions iter_apply_on_time.
Print Assumptions iter_balanced.
Print Assumptions run_once.
Print Assumptions run_calls_once.
Print Assumptions iter_fronts_le.
Print Assumptions no_pending_at_return.
Print Assumptions all_applied_at_return.
Print Assumptions iter_idle_behind.
Print Assumptions update_completes.
Print Assumptions ok_forced.
Print Assumptions run_forced_ok.
Print Assumptions update_only_ok.
