(* The path-keyed table Engine.front REFINES the pid-keyed fronts of Model/Sched.v across a structural update:
   read through `entry_of` (the entry of a process OBJECT), Engine.apply_update acts exactly like the scheduler
   model's `keep_live` - every object that is registered afterwards keeps its entry, every other object has none. *)
From Coq Require Import List NArith Bool.
From Viv Require Import Base.Assoc Base.Tree Model.Paths Model.Steps Model.Struct Model.Fronts
     Proofs.Struct_proofs Proofs.Consistent_proofs Proofs.Fronts_proofs.
Import ListNotations.

Section Refine.
Variable T : Type.

Lemma find_none_all {A} (f : A -> bool) l : (forall x, In x l -> f x = false) -> find f l = None.
Proof.
  induction l as [|a r IH]; intros H; [reflexivity|]. cbn. rewrite (H a (or_introl eq_refl)).
  apply IH. intros x Hx. apply H. right. exact Hx.
Qed.

Lemma obj_path_absent (procs : list (list key * N)) (o : N) : ~ In o (map snd procs) -> obj_path procs o = None.
Proof.
  intros Hn. unfold obj_path. rewrite find_none_all; [reflexivity|].
  intros [p o'] Hin. cbn. apply N.eqb_neq. intros ->. apply Hn.
  apply in_rev in Hin. apply (in_map snd) in Hin. exact Hin.
Qed.

Lemma existsb_objs (procs : list (list key * N)) (o : N) : existsb (N.eqb o) (map snd procs) = true <-> exists p, In (p, o) procs.
Proof.
  rewrite existsb_exists. split.
  - intros [x [Hx He]]. apply N.eqb_eq in He. subst x. apply in_map_iff in Hx.
    destruct Hx as [[p o'] [Ho Hin]]. cbn in Ho. subst o'. exists p. exact Hin.
  - intros [p Hin]. exists o. split; [|apply N.eqb_refl]. apply (in_map snd) in Hin. exact Hin.
Qed.

Theorem front_refines_keep_live (b b' : book) (rp : reports) (fr : fronts T) :
  wf_front T (b_procs b) fr ->
  book_apply b rp = Ok b' ->
  NoDup (map snd (b_procs b')) ->
  functional_reports rp -> no_rotation b rp -> steps_apart b rp ->
  forall o, entry_of T (b_procs b') (front_apply T b fr rp) o =
            if existsb (N.eqb o) (map snd (b_procs b')) then entry_of T (b_procs b) fr o else None.
Proof.
  intros Hw Hb Hnd H1 H3 H4 o.
  destruct (existsb (N.eqb o) (map snd (b_procs b'))) eqn:E.
  - apply existsb_objs in E. destruct E as [p' Hin].
    apply (front_follows_identity T b b' rp fr Hw Hb Hnd H1 H3 H4 o p' Hin).
  - unfold entry_of. rewrite obj_path_absent; [reflexivity|].
    intros Hin. apply in_map_iff in Hin. destruct Hin as [[p o'] [Ho Hin]]. cbn in Ho. subst o'.
    assert (Ht : existsb (N.eqb o) (map snd (b_procs b')) = true) by (apply existsb_objs; exists p; exact Hin).
    rewrite Ht in E. discriminate.
Qed.

End Refine.

Print Assumptions front_refines_keep_live.
