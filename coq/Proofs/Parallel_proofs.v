(* Proofs about Model/Parallel.v (C13, protocol part). *)
From Coq Require Import List Bool Lia.
From Viv Require Import Model.Parallel.
Import ListNotations.

Lemma rounds_ok n : forall s, pending s = false -> ended s = false ->
  exists s', prun s (concat (repeat [CSend; CGet] n)) = inl s' /\ pending s' = false
             /\ ended s' = ended s /\ alive s' = alive s.
Proof.
  induction n as [|n IH]; intros s H He.
  - exists s. cbn. auto.
  - cbn [repeat concat app]. cbn [prun]. unfold pstep at 1. rewrite H, He.
    cbn [prun]. unfold pstep at 1. cbn [pending].
    cbn [ended alive].
    destruct (IH {| pending := false; ended := false; alive := alive s |} eq_refl eq_refl) as [s' [H1 [H2 [H3 H4]]]].
    exists s'. cbn [ended alive] in H3, H4. auto.
Qed.

Lemma prun_app s a b : prun s (a ++ b) = match prun s a with inl s' => prun s' b | inr e => inr e end.
Proof.
  revert s. induction a as [|c a IH]; intros s; cbn; auto.
  destruct (pstep s c); auto.
Qed.

Lemma ends_ok n : forall s, pending s = false -> (0 < n)%nat ->
  exists s', prun s (repeat CEnd n) = inl s' /\ alive s' = (if ended s then alive s else false) /\ ended s' = true.
Proof.
  induction n as [|n IH]; intros s H Hn; [lia|].
  cbn [repeat prun]. unfold pstep. destruct (ended s) eqn:E.
  - destruct n as [|n].
    + exists s. cbn. auto.
    + destruct (IH s H ltac:(lia)) as [s' [H1 [H2 H3]]]. exists s'. rewrite E in H2. auto.
  - rewrite H. destruct n as [|n].
    + eexists. cbn. split; [reflexivity|]. auto.
    + destruct (IH {| pending := false; ended := true; alive := false |} eq_refl ltac:(lia)) as [s' [H1 [H2 H3]]].
      exists s'. cbn in H2. auto.
Qed.

(* the engine's use of a process never trips the pending safeguard, and after end() -- once or
   several times -- the worker has been told to stop *)
Theorem engine_protocol_ok rounds ends : (0 < ends)%nat ->
  exists s', prun fresh (engine_trace rounds ends) = inl s' /\ alive s' = false /\ ended s' = true /\ pending s' = false.
Proof.
  intros He. unfold engine_trace. rewrite prun_app.
  destruct (rounds_ok rounds fresh eq_refl eq_refl) as [s1 [H1 [H2 [H3 H4]]]]. rewrite H1.
  destruct (ends_ok ends s1 H2 He) as [s2 [H5 [H6 H7]]].
  exists s2. rewrite H5. split; [reflexivity|]. cbn in H3. rewrite H3 in H6. split; [exact H6|]. split; [exact H7|].
  clear - H5 H2. revert s1 H2 H5. induction ends as [|n IH]; intros s1 H2 H5; cbn in H5.
  - inversion H5; subst; auto.
  - unfold pstep in H5. destruct (ended s1).
    + eapply IH; eauto.
    + rewrite H2 in H5. eapply (IH {| pending := false; ended := true; alive := false |}); eauto.
Qed.

(* a second end() is a no-op *)
Theorem end_idempotent s s' : pstep s CEnd = inl s' -> pstep s' CEnd = inl s'.
Proof.
  unfold pstep. destruct (ended s) eqn:E.
  - intros H. inversion H; subst. now rewrite E.
  - destruct (pending s); [discriminate|]. intros H. inversion H; subst. reflexivity.
Qed.

(* sending while a command is pending is refused *)
Theorem send_while_pending_refused s : pending s = true -> pstep s CSend = inr StillPending.
Proof. intros H. unfold pstep. now rewrite H. Qed.

(* known finding K2: ending a process whose update is still in flight is refused and the worker stays alive *)
Theorem delete_inflight_refuted : prun fresh [CSend; CEnd] = inr StillPending.
Proof. reflexivity. Qed.

Print Assumptions engine_protocol_ok.
Print Assumptions end_idempotent.
Print Assumptions send_while_pending_refused.
Print Assumptions delete_inflight_refuted.
