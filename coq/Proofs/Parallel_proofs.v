(* Proofs about Model/Parallel.v (C13, protocol part). *)
From Coq Require Import List Bool Lia.
From Viv Require Import Model.Parallel.
Import ListNotations.

Lemma prun_app s a b : prun s (a ++ b) = match prun s a with inl s' => prun s' b | inr e => inr e end.
Proof.
  revert s. induction a as [|c a IH]; intros s; cbn; auto.
  destruct (pstep s c); auto.
Qed.

(* one (send, get) round of an idle, live process leaves it as it was *)
Lemma round_id s : pending s = false -> ended s = false -> stash s = false ->
  prun s [CSend; CGet] = inl s.
Proof.
  intros Hp He Hs. destruct s as [p e a st]. cbn in *. subst. reflexivity.
Qed.

Lemma rounds_ok n : forall s, pending s = false -> ended s = false -> stash s = false ->
  prun s (concat (repeat [CSend; CGet] n)) = inl s.
Proof.
  induction n as [|n IH]; intros s Hp He Hs; [reflexivity|].
  cbn [repeat concat]. rewrite prun_app, (round_id s Hp He Hs). apply IH; assumption.
Qed.

(* end() never fails, whatever the state: afterwards the process is ended, nothing is pending, and a worker that
   was running has been told to stop *)
Theorem end_total s :
  exists s', pstep s CEnd = inl s' /\ ended s' = true /\ (ended s = false -> alive s' = false /\ pending s' = false).
Proof.
  unfold pstep. destruct (ended s) eqn:E.
  - exists s. split; [reflexivity|]. split; [exact E|]. discriminate.
  - eexists. split; [reflexivity|]. cbn. auto.
Qed.

Lemma ends_ok n : forall s, (0 < n)%nat ->
  exists s', prun s (repeat CEnd n) = inl s' /\ alive s' = (if ended s then alive s else false) /\ ended s' = true.
Proof.
  induction n as [|n IH]; intros s Hn; [lia|].
  cbn [repeat prun]. unfold pstep. destruct (ended s) eqn:E.
  - destruct n as [|n].
    + exists s. cbn. auto.
    + destruct (IH s ltac:(lia)) as [s' [H1 [H2 H3]]]. exists s'. rewrite E in H2. auto.
  - destruct n as [|n].
    + eexists. cbn. split; [reflexivity|]. auto.
    + destruct (IH {| pending := false; ended := true; alive := false; stash := pending s |} ltac:(lia))
        as [s' [H1 [H2 H3]]].
      exists s'. cbn in H2. auto.
Qed.

(* the engine's use of a process never trips the pending safeguard, and after end() -- once or
   several times -- the worker has been told to stop *)
Theorem engine_protocol_ok rounds ends : (0 < ends)%nat ->
  exists s', prun fresh (engine_trace rounds ends) = inl s' /\ alive s' = false /\ ended s' = true /\ pending s' = false.
Proof.
  intros He. unfold engine_trace. rewrite prun_app, (rounds_ok rounds fresh eq_refl eq_refl eq_refl).
  destruct (ends_ok ends fresh He) as [s2 [H5 [H6 H7]]].
  exists s2. split; [exact H5|]. split; [exact H6|]. split; [exact H7|].
  clear - H5. destruct ends as [|n]; cbn in H5; [inversion H5; reflexivity|].
  assert (Hg : forall m s, ended s = true -> prun s (repeat CEnd m) = inl s).
  { induction m as [|m IH]; intros s E; [reflexivity|]. cbn [repeat prun]. unfold pstep. rewrite E. apply IH, E. }
  rewrite Hg in H5 by reflexivity. inversion H5. reflexivity.
Qed.

(* a second end() is a no-op *)
Theorem end_idempotent s s' : pstep s CEnd = inl s' -> pstep s' CEnd = inl s'.
Proof.
  unfold pstep. destruct (ended s) eqn:E.
  - intros H. inversion H; subst. now rewrite E.
  - intros H. inversion H; subst. reflexivity.
Qed.

(* sending while a command is pending is refused *)
Theorem send_while_pending_refused s : pending s = true -> pstep s CSend = inr StillPending.
Proof. intros H. unfold pstep. now rewrite H. Qed.

(* a process whose update is still in flight can be ended (its node is deleted or divided away): the worker is told
   to stop, and the result end() took out of the pipe is still handed to the engine when it collects the batch *)
Theorem delete_inflight_ok :
  prun fresh [CSend; CEnd] = inl {| pending := false; ended := true; alive := false; stash := true |} /\
  prun fresh [CSend; CEnd; CGet] = inl {| pending := false; ended := true; alive := false; stash := false |}.
Proof. split; reflexivity. Qed.

(* on every reachable state: an ended process has no worker left that was not told to stop, and a result is kept
   only by an ended process *)
Definition wf (s : pp) : Prop := (ended s = true -> alive s = false) /\ (stash s = true -> ended s = true).

Lemma pstep_wf s c s' : wf s -> pstep s c = inl s' -> wf s'.
Proof.
  unfold wf. intros [H1 H2] H. destruct s as [p e a st]. cbn in H1, H2.
  destruct c; cbn in H.
  - destruct p; [discriminate|]. destruct e; [discriminate|]. inversion H; subst. cbn. split; [discriminate|exact H2].
  - destruct st.
    + inversion H; subst. cbn. split; [exact H1|discriminate].
    + destruct p; [|discriminate]. inversion H; subst. cbn. split; [exact H1|discriminate].
  - destruct e.
    + inversion H; subst. cbn. split; assumption.
    + inversion H; subst. cbn. split; reflexivity.
  - inversion H; subst. cbn. split; assumption.
  - inversion H; subst. cbn. split; assumption.
Qed.

Theorem reachable_wf cs : forall s s', wf s -> prun s cs = inl s' -> wf s'.
Proof.
  induction cs as [|c r IH]; intros s s' Hw H; cbn in H.
  - inversion H; subst. exact Hw.
  - destruct (pstep s c) as [s1|e] eqn:E; [|discriminate].
    apply (IH s1 s' (pstep_wf s c s1 Hw E) H).
Qed.

Theorem ended_never_alive cs s : prun fresh cs = inl s -> ended s = true -> alive s = false.
Proof.
  intros H. apply (reachable_wf cs fresh s); [|exact H]. split; cbn; discriminate.
Qed.

(* the pinned code: ending a process whose update is still in flight was refused and the worker stayed alive
   (the former known finding K2) *)
Theorem delete_inflight_refuted_pinned : prun_pinned fresh [CSend; CEnd] = inr StillPending.
Proof. reflexivity. Qed.

Print Assumptions engine_protocol_ok.
Print Assumptions end_total.
Print Assumptions end_idempotent.
Print Assumptions send_while_pending_refused.
Print Assumptions delete_inflight_ok.
Print Assumptions ended_never_alive.
Print Assumptions delete_inflight_refuted_pinned.

(* ---------- structural updates around a parallel process ---------- *)
(* reading the schema, asking is_step() and moving the node never fail and change nothing, whatever the state -
   in particular while an update is in flight *)
Theorem quiet_step s c : quiet c = true -> pstep s c = inl s.
Proof. destruct c; cbn; intros H; try discriminate; reflexivity. Qed.

Theorem quiet_run cs : forall s, forallb quiet cs = true -> prun s cs = inl s.
Proof.
  induction cs as [|c r IH]; intros s H; [reflexivity|].
  cbn in H. apply andb_prop in H. destruct H as [Hc Hr].
  cbn [prun]. rewrite (quiet_step s c Hc). apply IH. exact Hr.
Qed.

(* hence they can be interleaved anywhere into the life of the process without changing it *)
Theorem quiet_insert a q b s : forallb quiet q = true -> prun s (a ++ q ++ b) = prun s (a ++ b).
Proof.
  intros Hq. rewrite (prun_app s a (q ++ b)), (prun_app s a b). destruct (prun s a) as [s'|e]; [|reflexivity].
  rewrite prun_app, (quiet_run q s' Hq). reflexivity.
Qed.

(* the engine's trace with a structural update while the update is in flight, in every round *)
Theorem engine_protocol_struct_ok rounds ends q : (0 < ends)%nat -> forallb quiet q = true ->
  exists s', prun fresh (concat (repeat ([CSend] ++ q ++ [CGet]) rounds) ++ repeat CEnd ends) = inl s' /\
             alive s' = false /\ ended s' = true.
Proof.
  intros He Hq.
  assert (Hr : forall n s, pending s = false -> ended s = false -> stash s = false ->
                 prun s (concat (repeat ([CSend] ++ q ++ [CGet]) n)) = inl s).
  { induction n as [|n IH]; intros s Hp Hen Hs; [reflexivity|].
    cbn [repeat concat]. rewrite prun_app.
    replace (prun s ([CSend] ++ q ++ [CGet])) with (prun s ([CSend] ++ [CGet])) by (symmetry; apply quiet_insert; exact Hq).
    cbn [app]. rewrite (round_id s Hp Hen Hs). apply IH; assumption. }
  rewrite prun_app, (Hr rounds fresh eq_refl eq_refl eq_refl).
  destruct (ends_ok ends fresh He) as [s' [H1 [H2 H3]]]. exists s'. auto.
Qed.

(* the pinned code on the same traces *)
Theorem query_in_flight_refuted_pinned : prun_pinned fresh [CSend; CQuery; CGet] = inr StillPending.
Proof. reflexivity. Qed.
Theorem move_ends_worker_refuted_pinned : prun_pinned fresh [CSend; CGet; CMoved; CSend] = inr Ended.
Proof. reflexivity. Qed.
Example current_code_same_traces :
  prun fresh [CSend; CQuery; CGet] = inl fresh /\ exists s, prun fresh [CSend; CGet; CMoved; CSend] = inl s.
Proof. split; [reflexivity|eexists; reflexivity]. Qed.

Print Assumptions engine_protocol_struct_ok.
Print Assumptions quiet_insert.
Print Assumptions query_in_flight_refuted_pinned.
Print Assumptions move_ends_worker_refuted_pinned.
