(* Proofs about Model/Parallel.v (C13, protocol part). *)
From Coq Require Import List Bool Lia.
From Viv Require Import Model.Parallel.
Import ListNotations.

Lemma rounds_ok n : forall s, pending s = false -> ended s = false ->
  exists s', prun s (concat (repeat [CSend; CGet] n)) = inl s' /\ pending s' = false
             /\ ended s' = ended s /\ alive s' = alive s.
Proof.
  induction n as [|n IH]; intros s H He.
  - exists s. cbn. auto.
  - cbn [repeat concat app]. cbn [prun]. unfold pstep at 1. rewrite H, He.
    cbn [prun]. unfold pstep at 1. cbn [pending].
    cbn [ended alive].
    destruct (IH {| pending := false; ended := false; alive := alive s |} eq_refl eq_refl) as [s' [H1 [H2 [H3 H4]]]].
    exists s'. cbn [ended alive] in H3, H4. auto.
Qed.

Lemma prun_app s a b : prun s (a ++ b) = match prun s a with inl s' => prun s' b | inr e => inr e end.
Proof.
  revert s. induction a as [|c a IH]; intros s; cbn; auto.
  destruct (pstep s c); auto.
Qed.

Lemma ends_ok n : forall s, pending s = false -> (0 < n)%nat ->
  exists s', prun s (repeat CEnd n) = inl s' /\ alive s' = (if ended s then alive s else false) /\ ended s' = true.
Proof.
  induction n as [|n IH]; intros s H Hn; [lia|].
  cbn [repeat prun]. unfold pstep. destruct (ended s) eqn:E.
  - destruct n as [|n].
    + exists s. cbn. auto.
    + destruct (IH s H ltac:(lia)) as [s' [H1 [H2 H3]]]. exists s'. rewrite E in H2. auto.
  - rewrite H. destruct n as [|n].
    + eexists. cbn. split; [reflexivity|]. auto.
    + destruct (IH {| pending := false; ended := true; alive := false |} eq_refl ltac:(lia)) as [s' [H1 [H2 H3]]].
      exists s'. cbn in H2. auto.
Qed.

(* the engine's use of a process never trips the pending safeguard, and after end() -- once or
   several times -- the worker has been told to stop *)
Theorem engine_protocol_ok rounds ends : (0 < ends)%nat ->
  exists s', prun fresh (engine_trace rounds ends) = inl s' /\ alive s' = false /\ ended s' = true /\ pending s' = false.
Proof.
  intros He. unfold engine_trace. rewrite prun_app.
  destruct (rounds_ok rounds fresh eq_refl eq_refl) as [s1 [H1 [H2 [H3 H4]]]]. rewrite H1.
  destruct (ends_ok ends s1 H2 He) as [s2 [H5 [H6 H7]]].
  exists s2. rewrite H5. split; [reflexivity|]. cbn in H3. rewrite H3 in H6. split; [exact H6|]. split; [exact H7|].
  clear - H5 H2. revert s1 H2 H5. induction ends as [|n IH]; intros s1 H2 H5; cbn in H5.
  - inversion H5; subst; auto.
  - unfold pstep in H5. destruct (ended s1).
    + eapply IH; eauto.
    + rewrite H2 in H5. eapply (IH {| pending := false; ended := true; alive := false |}); eauto.
Qed.

(* a second end() is a no-op *)
Theorem end_idempotent s s' : pstep s CEnd = inl s' -> pstep s' CEnd = inl s'.
Proof.
  unfold pstep. destruct (ended s) eqn:E.
  - intros H. inversion H; subst. now rewrite E.
  - destruct (pending s); [discriminate|]. intros H. inversion H; subst. reflexivity.
Qed.

(* sending while a command is pending is refused *)
Theorem send_while_pending_refused s : pending s = true -> pstep s CSend = inr StillPending.
Proof. intros H. unfold pstep. now rewrite H. Qed.

(* known finding K2: ending a process whose update is still in flight is refused and the worker stays alive *)
Theorem delete_inflight_refuted : prun fresh [CSend; CEnd] = inr StillPending.
Proof. reflexivity. Qed.

Print Assumptions engine_protocol_ok.
Print Assumptions end_idempotent.
Print Assumptions send_while_pending_refused.
Print Assumptions delete_inflight_refuted.

(* ---------- structural updates around a parallel process ---------- *)
(* reading the schema, asking is_step() and moving the node never fail and change nothing, whatever the state -
   in particular while an update is in flight *)
Theorem quiet_step s c : quiet c = true -> pstep s c = inl s.
Proof. destruct c; cbn; intros H; try discriminate; reflexivity. Qed.

Theorem quiet_run cs : forall s, forallb quiet cs = true -> prun s cs = inl s.
Proof.
  induction cs as [|c r IH]; intros s H; [reflexivity|].
  cbn in H. apply andb_prop in H. destruct H as [Hc Hr].
  cbn [prun]. rewrite (quiet_step s c Hc). apply IH. exact Hr.
Qed.

(* hence they can be interleaved anywhere into the life of the process without changing it *)
Theorem quiet_insert a q b s : forallb quiet q = true -> prun s (a ++ q ++ b) = prun s (a ++ b).
Proof.
  intros Hq. rewrite (prun_app s a (q ++ b)), (prun_app s a b). destruct (prun s a) as [s'|e]; [|reflexivity].
  rewrite prun_app, (quiet_run q s' Hq). reflexivity.
Qed.

(* the engine's trace with a structural update while the update is in flight, in every round *)
Theorem engine_protocol_struct_ok rounds ends q : (0 < ends)%nat -> forallb quiet q = true ->
  exists s', prun fresh (concat (repeat ([CSend] ++ q ++ [CGet]) rounds) ++ repeat CEnd ends) = inl s' /\
             alive s' = false /\ ended s' = true.
Proof.
  intros He Hq.
  assert (Hr : forall n s, pending s = false -> ended s = false ->
                 prun s (concat (repeat ([CSend] ++ q ++ [CGet]) n)) = inl s).
  { induction n as [|n IH]; intros s Hp Hen; [reflexivity|].
    cbn [repeat concat]. rewrite prun_app.
    replace (prun s ([CSend] ++ q ++ [CGet])) with (prun s ([CSend] ++ [CGet])) by (symmetry; apply quiet_insert; exact Hq).
    cbn. rewrite Hp, Hen. cbn. destruct s as [p e a]; cbn in *; subst. apply IH; reflexivity. }
  rewrite prun_app, (Hr rounds fresh eq_refl eq_refl).
  destruct (ends_ok ends fresh eq_refl He) as [s' [H1 [H2 H3]]]. exists s'. auto.
Qed.

(* the pinned code on the same traces *)
Theorem query_in_flight_refuted_pinned : prun_pinned fresh [CSend; CQuery; CGet] = inr StillPending.
Proof. reflexivity. Qed.
Theorem move_ends_worker_refuted_pinned : prun_pinned fresh [CSend; CGet; CMoved; CSend] = inr Ended.
Proof. reflexivity. Qed.
Example current_code_same_traces :
  prun fresh [CSend; CQuery; CGet] = inl fresh /\ exists s, prun fresh [CSend; CGet; CMoved; CSend] = inl s.
Proof. split; [reflexivity|eexists; reflexivity]. Qed.

Print Assumptions engine_protocol_struct_ok.
Print Assumptions quiet_insert.
Print Assumptions query_in_flight_refuted_pinned.
Print Assumptions move_ends_worker_refuted_pinned.
