(* Proofs about Model/DivTree.v *)
From Coq Require Import List NArith ZArith Bool Lia Sorting.Permutation.
From Viv Require Import Base.Assoc Base.Tree Model.Struct Model.DivTree.
Import ListNotations.
Open Scope Z_scope.

(* ---------- induction principle reaching the children ---------- *)
Section Ind.
  Variable P : dnode -> Prop.
  Hypothesis HL : forall v dflt d, P (DL v dflt d).
  Hypothesis HB : forall g d c, Forall (fun kx => P (snd kx)) c -> P (DB g d c).
  Fixpoint dnode_ind' (n : dnode) : P n :=
    match n with
    | DL v dflt d => HL v dflt d
    | DB g d c => HB g d c ((fix go (l : list (key * dnode)) : Forall (fun kx => P (snd kx)) l :=
                               match l with
                               | [] => Forall_nil _
                               | kx :: r => Forall_cons kx (dnode_ind' (snd kx)) (go r)
                               end) c)
    end.
End Ind.

(* ---------- standalone list-level functions ---------- *)
Definition cvalues (c : list (key * dnode)) : list (key * tree Z) := map (fun kx => (fst kx, dvalue (snd kx))) c.

Lemma dvalue_DB g d c : dvalue (DB g d c) = Nd (cvalues c).
Proof.
  cbn [dvalue]. f_equal.
  induction c as [|[k x] r IH]; cbn [cvalues map fst snd]; [reflexivity|].
  f_equal. exact IH.
Qed.

Lemma cvalues_keys c : map fst (cvalues c) = map fst c.
Proof. unfold cvalues. rewrite map_map. reflexivity. Qed.

Fixpoint div_children (bf : bool) (c : list (key * dnode)) (choices : list bool)
  : list (key * tree Z) * list (key * tree Z) * list bool :=
  match c with
  | [] => ([], [], choices)
  | (k, x) :: r =>
    let '(dv, ch') := divide_tree bf x choices in
    let '(r1, r2, ch'') := div_children bf r ch' in
    match dv with
    | Some (a, b) => ((k, a) :: r1, (k, b) :: r2, ch'')
    | None => (r1, r2, ch'')
    end
  end.

Definition by_div (d : bk) (c : list (key * dnode)) : option (tree Z * tree Z) :=
  match d with
  | BNone => None
  | BSet => Some (Nd (cvalues c), Nd (cvalues c))
  | BSplitDict => Some (Nd (skipn (half_len (cvalues c)) (cvalues c)), Nd (firstn (half_len (cvalues c)) (cvalues c)))
  | BSetValue v => Some (v, v)
  end.

Lemma div_children_fix bf c : forall ch,
  (fix go (c : list (key * dnode)) (choices : list bool) : list (key * tree Z) * list (key * tree Z) * list bool :=
     match c with
     | [] => ([], [], choices)
     | (k, x) :: r =>
       let '(dv, ch') := divide_tree bf x choices in
       let '(r1, r2, ch'') := go r ch' in
       match dv with
       | Some (a, b) => ((k, a) :: r1, (k, b) :: r2, ch'')
       | None => (r1, r2, ch'')
       end
     end) c ch = div_children bf c ch.
Proof.
  induction c as [|[k x] r IH]; intros ch; [reflexivity|].
  cbn [div_children]. destruct (divide_tree bf x ch) as [dv ch1]. rewrite IH. reflexivity.
Qed.

Lemma divide_tree_DB bf g d c ch :
  divide_tree bf (DB g d c) ch =
  match (if match c with [] => true | _ => bf end then by_div d c else None) with
  | Some r => (Some r, ch)
  | None => match c with
            | [] => (None, ch)
            | _ => let '(l1, l2, ch') := div_children bf c ch in (Some (Nd l1, Nd l2), ch')
            end
  end.
Proof.
  pose proof (dvalue_DB g d c) as HV.
  cbn [divide_tree]. rewrite div_children_fix.
  rewrite HV. cbn [children].
  destruct d, c, bf; reflexivity.
Qed.

Lemma divide_tree_true_div g d c ch r :
  by_div d c = Some r -> divide_tree true (DB g d c) ch = (Some r, ch).
Proof.
  intros H. rewrite divide_tree_DB.
  replace (if match c with [] => true | _ => true end then by_div d c else None) with (by_div d c)
    by (destruct c; reflexivity).
  rewrite H. reflexivity.
Qed.

(* ---------- 1. branch-level dividers ---------- *)
Theorem branch_set_copies g c ch :
  divide_tree true (DB g BSet c) ch = (Some (Nd (cvalues c), Nd (cvalues c)), ch).
Proof. apply divide_tree_true_div. reflexivity. Qed.

Theorem branch_set_value_config g v c ch :
  divide_tree true (DB g (BSetValue v) c) ch = (Some (v, v), ch).
Proof. apply divide_tree_true_div. reflexivity. Qed.

Theorem branch_split_dict_shares g c ch :
  divide_tree true (DB g BSplitDict c) ch =
    (Some (Nd (skipn (half_len (cvalues c)) (cvalues c)), Nd (firstn (half_len (cvalues c)) (cvalues c))), ch).
Proof. apply divide_tree_true_div. reflexivity. Qed.

Lemma half_len_le {A} (l : list A) : (half_len l <= length l)%nat.
Proof. unfold half_len. apply Nat.div_le_upper_bound; lia. Qed.

Lemma half_len_sizes {A} (l : list A) :
  let h := half_len l in
  (length l - h = h \/ length l - h = S h)%nat.
Proof.
  cbn zeta. unfold half_len.
  pose proof (Nat.div_mod (length l) 2 ltac:(lia)) as H.
  pose proof (Nat.mod_upper_bound (length l) 2 ltac:(lia)) as H2.
  lia.
Qed.

Theorem branch_split_dict_partitions g c ch l1 l2 ch' :
  divide_tree true (DB g BSplitDict c) ch = (Some (Nd l1, Nd l2), ch') ->
  l2 ++ l1 = cvalues c /\ Permutation (l1 ++ l2) (cvalues c) /\
  (length l1 = length l2 \/ length l1 = S (length l2)) /\ ch' = ch.
Proof.
  rewrite branch_split_dict_shares. intros H. injection H as H1 H2 H3. subst l1 l2 ch'.
  split; [apply firstn_skipn|].
  split.
  - eapply Permutation_trans; [apply Permutation_app_comm|]. rewrite firstn_skipn. apply Permutation_refl.
  - split; [|reflexivity].
    rewrite skipn_length, firstn_length, Nat.min_l by apply half_len_le.
    apply half_len_sizes.
Qed.

Lemma NoDup_app_disjoint {A} (a b : list A) x : NoDup (a ++ b) -> In x a -> In x b -> False.
Proof.
  induction a as [|y a IH]; cbn; [tauto|].
  intros Hnd. inversion Hnd as [|? ? Hnin Hnd']; subst.
  intros [->|Hin] Hb; [|eauto].
  apply Hnin. apply in_or_app. now right.
Qed.

Theorem branch_split_dict_disjoint g c ch l1 l2 ch' :
  NoDup (map fst c) ->
  divide_tree true (DB g BSplitDict c) ch = (Some (Nd l1, Nd l2), ch') ->
  forall k, In k (map fst l1) -> In k (map fst l2) -> False.
Proof.
  intros Hnd H k H1 H2.
  apply branch_split_dict_partitions in H as (Happ & _).
  rewrite <- cvalues_keys, <- Happ, map_app in Hnd.
  eapply NoDup_app_disjoint; eauto.
Qed.

(* ---------- 2. conservation ---------- *)
Inductive conserving : dnode -> Prop :=
| cons_leaf v dflt : conserving (DL v dflt LSplit)
| cons_none g c : Forall (fun kx => conserving (snd kx)) c -> conserving (DB g BNone c)
| cons_sd g c : Forall (fun kx => conserving (snd kx)) c -> conserving (DB g BSplitDict c).

Fixpoint tsum_list (l : list (key * tree Z)) : Z :=
  match l with [] => 0 | (_, x) :: r => tsum x + tsum_list r end.

Lemma tsum_Nd l : tsum (Nd l) = tsum_list l.
Proof.
  cbn [tsum]. induction l as [|[k x] r IH]; cbn [tsum_list]; [reflexivity|].
  rewrite IH. reflexivity.
Qed.

Lemma tsum_list_app a b : tsum_list (a ++ b) = tsum_list a + tsum_list b.
Proof.
  induction a as [|[k x] r IH]; cbn [tsum_list app]; [reflexivity|]. rewrite IH. lia.
Qed.

Lemma split_z_sum z b a1 a2 : split_z z b = (a1, a2) -> a1 + a2 = z.
Proof.
  unfold split_z. pose proof (Z_div_mod_eq_full z 2) as H.
  destruct b; intros [= <- <-]; lia.
Qed.

Theorem conserving_none n : conserving n -> forall ch ch',
  divide_tree true n ch = (None, ch') -> tsum (dvalue n) = 0.
Proof.
  intros Hc ch ch'. inversion Hc as [v dflt|g c Hf|g c Hf]; subst.
  - cbn [divide_tree]. destruct (split_z v _). discriminate.
  - rewrite divide_tree_DB. destruct c as [|kx r].
    + intros _. rewrite dvalue_DB. reflexivity.
    + cbn [by_div]. destruct (div_children true (kx :: r) ch) as [[l1 l2] ch1]. discriminate.
  - rewrite branch_split_dict_shares. discriminate.
Qed.

Lemma div_children_total c :
  Forall (fun kx => conserving (snd kx) /\
                    forall ch a b ch', divide_tree true (snd kx) ch = (Some (a, b), ch') ->
                                       tsum a + tsum b = tsum (dvalue (snd kx))) c ->
  forall ch l1 l2 ch', div_children true c ch = (l1, l2, ch') ->
  tsum_list l1 + tsum_list l2 = tsum_list (cvalues c).
Proof.
  induction c as [|[k x] r IH]; intros Hf ch l1 l2 ch'.
  - cbn. intros [= <- <- _]. reflexivity.
  - inversion Hf as [|? ? [Hc Hx] Hr]; subst. cbn [snd] in Hc, Hx.
    cbn [div_children cvalues map fst snd tsum_list].
    destruct (divide_tree true x ch) as [dv ch1] eqn:E.
    destruct (div_children true r ch1) as [[r1 r2] ch2] eqn:E2.
    specialize (IH Hr _ _ _ _ E2). fold (cvalues r).
    destruct dv as [[a b]|].
    + intros [= <- <- _]. cbn [tsum_list]. specialize (Hx _ _ _ _ E). lia.
    + intros [= <- <- _]. pose proof (conserving_none x Hc _ _ E). lia.
Qed.

Theorem conserving_total n : conserving n -> forall ch a b ch',
  divide_tree true n ch = (Some (a, b), ch') -> tsum a + tsum b = tsum (dvalue n).
Proof.
  induction n as [v dflt d|g d c IH] using dnode_ind'; intros Hc ch a b ch'.
  - inversion Hc; subst. cbn [divide_tree dvalue tsum].
    destruct (split_z v _) as [a1 a2] eqn:E. intros [= <- <- _]. cbn [tsum].
    eapply split_z_sum; eauto.
  - assert (Hf : Forall (fun kx => conserving (snd kx)) c) by (inversion Hc; assumption).
    assert (Hall : Forall (fun kx => conserving (snd kx) /\
                    forall ch a b ch', divide_tree true (snd kx) ch = (Some (a, b), ch') ->
                                       tsum a + tsum b = tsum (dvalue (snd kx))) c).
    { rewrite Forall_forall in *. intros kx Hin. split; [auto|]. intros. eapply IH; eauto. }
    rewrite dvalue_DB, tsum_Nd.
    inversion Hc; subst.
    + rewrite divide_tree_DB. destruct c as [|kx r]; [discriminate|].
      cbn [by_div].
      destruct (div_children true (kx :: r) ch) as [[l1 l2] ch1] eqn:E.
      intros [= <- <- _]. rewrite !tsum_Nd. eapply div_children_total; eauto.
    + rewrite branch_split_dict_shares. intros [= <- <- _]. rewrite !tsum_Nd.
      pose proof (firstn_skipn (half_len (cvalues c)) (cvalues c)) as Hfs.
      apply (f_equal tsum_list) in Hfs. rewrite tsum_list_app in Hfs. lia.
Qed.

(* ---------- 3. no divider: recursion ---------- *)
Lemma divide_leaf_some bf v dflt d ch : exists a b ch', divide_tree bf (DL v dflt d) ch = (Some (a, b), ch').
Proof.
  destruct d; cbn [divide_tree]; try (do 3 eexists; reflexivity).
  destruct (split_z v _). do 3 eexists; reflexivity.
Qed.

Lemma div_children_leaf_keys bf c k v dflt d :
  In (k, DL v dflt d) c -> forall ch l1 l2 ch',
  div_children bf c ch = (l1, l2, ch') -> In k (map fst l1) /\ In k (map fst l2).
Proof.
  induction c as [|[k0 x] r IH]; [intros []|].
  intros Hin ch l1 l2 ch'. cbn [div_children].
  destruct (divide_tree bf x ch) as [dv ch1] eqn:E.
  destruct (div_children bf r ch1) as [[r1 r2] ch2] eqn:E2.
  destruct Hin as [Heq|Hin].
  - injection Heq as -> ->.
    destruct (divide_leaf_some bf v dflt d ch) as (a & b & ch3 & Hl). rewrite Hl in E.
    injection E as <- <-. intros [= <- <- _]. cbn. auto.
  - specialize (IH Hin _ _ _ _ E2). destruct dv as [[a b]|]; intros [= <- <- _]; cbn; tauto.
Qed.

Theorem no_divider_recurses g c ch k v dflt d :
  c <> [] -> In (k, DL v dflt d) c ->
  exists l1 l2 ch', divide_tree true (DB g BNone c) ch = (Some (Nd l1, Nd l2), ch') /\
                    In k (map fst l1) /\ In k (map fst l2).
Proof.
  intros Hne Hin. rewrite divide_tree_DB. destruct c as [|kx r]; [congruence|].
  cbn [by_div].
  destruct (div_children true (kx :: r) ch) as [[l1 l2] ch1] eqn:E.
  exists l1, l2, ch1. split; [reflexivity|].
  eapply div_children_leaf_keys; eauto.
Qed.

(* ---------- 4. rebuild ---------- *)
Inductive wf_dnode : dnode -> Prop :=
| wfd_leaf v dflt d : wf_dnode (DL v dflt d)
| wfd_branch g d c : NoDup (map fst c) -> Forall (fun kx => wf_dnode (snd kx)) c -> wf_dnode (DB g d c).

Fixpoint rebuild_children (glob : bool) (sub : key -> option (tree Z)) (c : list (key * dnode)) : list (key * dnode) :=
  match c with
  | [] => []
  | (k, x) :: r =>
    if glob then match sub k with
                 | Some tv => (k, rebuild x (Some tv)) :: rebuild_children glob sub r
                 | None => rebuild_children glob sub r
                 end
    else (k, rebuild x (sub k)) :: rebuild_children glob sub r
  end.

Definition sub_of (t : option (tree Z)) (k : key) : option (tree Z) :=
  match t with Some (Nd l) => alookup k l | _ => None end.

Lemma rebuild_DB glob d c t : rebuild (DB glob d c) t = DB glob d (rebuild_children glob (sub_of t) c).
Proof.
  cbn [rebuild]. f_equal.
  induction c as [|[k x] r IH]; cbn [rebuild_children]; [reflexivity|].
  rewrite IH. reflexivity.
Qed.

Lemma rebuild_children_whole glob l c :
  NoDup (map fst l) ->
  (forall k x, In (k, x) c -> In (k, dvalue x) l) ->
  Forall (fun kx => dvalue (rebuild (snd kx) (Some (dvalue (snd kx)))) = dvalue (snd kx)) c ->
  cvalues (rebuild_children glob (fun k => alookup k l) c) = cvalues c.
Proof.
  intros Hnd. induction c as [|[k x] r IH]; intros Hin Hf; [reflexivity|].
  inversion Hf as [|? ? Hx Hr]; subst. cbn [snd] in Hx.
  assert (Hl : alookup k l = Some (dvalue x)).
  { apply In_alookup; [exact Hnd|]. apply Hin. now left. }
  assert (IH' : cvalues (rebuild_children glob (fun k => alookup k l) r) = cvalues r).
  { apply IH; [|exact Hr]. intros. apply Hin. now right. }
  cbn [rebuild_children]. rewrite Hl.
  destruct glob; cbn [cvalues map fst snd]; fold (cvalues r);
    fold (cvalues (rebuild_children true (fun k => alookup k l) r));
    fold (cvalues (rebuild_children false (fun k => alookup k l) r)); rewrite Hx, IH'; reflexivity.
Qed.

Theorem rebuild_whole_value n : wf_dnode n -> dvalue (rebuild n (Some (dvalue n))) = dvalue n.
Proof.
  induction n as [v dflt d|g d c IH] using dnode_ind'; intros Hwf.
  - reflexivity.
  - inversion Hwf as [|? ? ? Hnd Hf]; subst.
    rewrite rebuild_DB, !dvalue_DB. f_equal.
    cbn [sub_of].
    apply rebuild_children_whole.
    + rewrite cvalues_keys. exact Hnd.
    + intros k x Hin. unfold cvalues. apply (in_map (fun kx => (fst kx, dvalue (snd kx))) _ _ Hin).
    + rewrite Forall_forall in *. intros kx Hin. apply IH; auto.
Qed.

Theorem rebuild_fixed_keys d c t :
  match rebuild (DB false d c) t with DB _ _ c' => map fst c' = map fst c | _ => False end.
Proof.
  rewrite rebuild_DB.
  induction c as [|[k x] r IH]; cbn [rebuild_children map fst]; [reflexivity|].
  f_equal. exact IH.
Qed.

Lemma rebuild_children_glob_keys l c k :
  In k (map fst (rebuild_children true (fun k => alookup k l) c)) -> In k (map fst l) /\ In k (map fst c).
Proof.
  induction c as [|[k0 x] r IH]; cbn [rebuild_children map fst]; [intros []|].
  destruct (alookup k0 l) as [tv|] eqn:E.
  - cbn [map fst In]. intros [<-|Hin].
    + split; [|now left]. apply alookup_In in E.
      change k0 with (fst (k0, tv)). now apply in_map.
    + destruct (IH Hin). split; [assumption|now right].
  - intros Hin. destruct (IH Hin). split; [assumption|now right].
Qed.

Theorem rebuild_glob_keys d c l k :
  match rebuild (DB true d c) (Some (Nd l)) with
  | DB _ _ c' => In k (map fst c') -> In k (map fst l) /\ In k (map fst c)
  | _ => False end.
Proof.
  rewrite rebuild_DB. cbn [sub_of]. apply rebuild_children_glob_keys.
Qed.

Theorem rebuild_leaf_default v dflt d : dvalue (rebuild (DL v dflt d) None) = Lf dflt.
Proof. reflexivity. Qed.
Theorem rebuild_leaf_share v dflt d z : dvalue (rebuild (DL v dflt d) (Some (Lf z))) = Lf z.
Proof. reflexivity. Qed.

(* ---------- 5. children-first reordering ---------- *)
Definition sd_example : dnode :=
  DB false BNone [(1%N, DB true BSplitDict [(21%N, DL 1 0 LSet); (22%N, DL 2 0 LSet); (23%N, DL 3 0 LSet); (24%N, DL 4 0 LSet)])].

Theorem children_first_refuted :
  fst (divide_tree false sd_example []) <> fst (divide_tree true sd_example []) /\
  fst (divide_tree false sd_example []) = Some (dvalue sd_example, dvalue sd_example).
Proof.
  split.
  - vm_compute. discriminate.
  - vm_compute. reflexivity.
Qed.

Example branch_first_example :
  fst (divide_tree true sd_example []) =
  Some (Nd [(1%N, Nd [(23%N, Lf 3); (24%N, Lf 4)])], Nd [(1%N, Nd [(21%N, Lf 1); (22%N, Lf 2)])]).
Proof. vm_compute. reflexivity. Qed.

Print Assumptions dvalue_DB.
Print Assumptions branch_set_copies.
Print Assumptions branch_set_value_config.
Print Assumptions branch_split_dict_shares.
Print Assumptions branch_split_dict_partitions.
Print Assumptions branch_split_dict_disjoint.
Print Assumptions conserving_total.
Print Assumptions conserving_none.
Print Assumptions no_divider_recurses.
Print Assumptions rebuild_whole_value.
Print Assumptions rebuild_fixed_keys.
Print Assumptions rebuild_glob_keys.
Print Assumptions rebuild_leaf_default.
Print Assumptions rebuild_leaf_share.
Print Assumptions children_first_refuted.
Print Assumptions branch_first_example.
