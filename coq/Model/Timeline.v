(* Model of vivarium/processes/timeline.py: TimelineProcess.initialize_timeline and
   next_update (the repaired code), plus the pinned-tree variants kept for the
   *_refuted_pinned witnesses.  Times are integer ticks; a variable is an interned path;
   values are Z. *)
From Coq Require Import List NArith ZArith Bool.
From Viv Require Import Base.Assoc.
Import ListNotations.
Open Scope Z_scope.

Definition var := key.
Definition asg := alist Z.                 (* change_dict: variable -> value *)
Definition event := (Z * asg)%type.        (* (time, change_dict) *)

(* dict.update(u): every key of u assigned in order *)
Definition dict_update (d u : asg) : asg :=
  fold_left (fun acc kv => aset (fst kv) (snd kv) acc) u d.

(* sorted(timeline, key=time): stable; modelled as stable insertion sort *)
Fixpoint ins (e : event) (l : list event) : list event :=
  match l with
  | [] => [e]
  | x :: r => if fst e <? fst x then e :: x :: r else x :: ins e r
  end.

Definition ssort (l : list event) : list event := fold_left (fun acc e => ins e acc) l [].

(* for time, change_dict in sorted(...):
       if timeline and timeline[-1][0] == time: timeline[-1][1].update(change_dict)
       else: timeline.append((time, dict(change_dict)))
   (the accumulator is kept reversed) *)
Definition merge_step (acc : list event) (e : event) : list event :=
  match acc with
  | (t, d) :: r => if t =? fst e then (t, dict_update d (snd e)) :: r
                   else (fst e, dict_update [] (snd e)) :: acc
  | [] => [(fst e, dict_update [] (snd e))]
  end.

Definition merge_sorted (l : list event) : list event := rev (fold_left merge_step l []).

Definition init_timeline (evs : list event) : list event := merge_sorted (ssort evs).

(* next_update: while timeline and time >= timeline[0][0]: pop the head, merge its
   assignments into the update (later events win).  Returns the assignments of this
   tick and the remaining timeline. *)
Fixpoint fire (c : Z) (acc : asg) (tl : list event) : asg * list event :=
  match tl with
  | (t, d) :: r => if t <=? c then fire c (dict_update acc d) r else (acc, tl)
  | [] => (acc, [])
  end.

Definition tick (c : Z) (tl : list event) : asg * list event := fire c [] tl.

(* a run of the timeline process: clocks c0, c1, ... of its successive invocations;
   result: per tick, the fired assignments *)
Fixpoint run_ticks (cs : list Z) (tl : list event) : list asg * list event :=
  match cs with
  | [] => ([], tl)
  | c :: cs' => let '(a, tl') := tick c tl in
                let '(as', tl'') := run_ticks cs' tl' in (a :: as', tl'')
  end.

(* events fired at a tick, as events (for the exactly-once statements) *)
Fixpoint due (c : Z) (tl : list event) : list event * list event :=
  match tl with
  | (t, d) :: r => if t <=? c then let '(f, rest) := due c r in ((t, d) :: f, rest) else ([], tl)
  | [] => ([], [])
  end.

Fixpoint run_due (cs : list Z) (tl : list event) : list (list event) * list event :=
  match cs with
  | [] => ([], tl)
  | c :: cs' => let '(f, tl') := due c tl in
                let '(fs, tl'') := run_due cs' tl' in (f :: fs, tl'')
  end.

(* ------------------------------------------------------------------------------------ *)
(* Pinned tree (before the repair): hand-written insertion "sort" and pop-while-iterating *)

(* inner `for event_index, event in enumerate(timeline)` with the new event `e`;
   `pre` = timeline[:event_index] reversed, `suf` = timeline[event_index:] *)
Fixpoint ins_pinned (e : event) (pre : list event) (suf : list event) : list event :=
  match suf with
  | [] => rev pre                                  (* loop fell off the end: event dropped *)
  | (t, d) :: r =>
    if fst e =? t then rev pre ++ (t, dict_update d (snd e)) :: r        (* merge *)
    else match r with
         | [] => rev pre ++ [(t, d); e]            (* last index: append *)
         | (t2, d2) :: r2 =>
           if fst e <? t then ins_pinned e ((t, d) :: pre) r             (* "next" *)
           else if fst e <? t2
                then rev pre ++ (t, d) :: e :: r2  (* timeline[:i+1] + [new] + timeline[i+2:] *)
                else ins_pinned e ((t, d) :: pre) r
         end
  end.

Definition init_pinned (evs : list event) : list event :=
  fold_left (fun tl e => match tl with [] => [e] | _ => ins_pinned e [] tl end) evs [].

(* `for (t, cd) in self.timeline: if time >= t: ...; self.timeline.pop(0)`:
   a list iterator by index over a list that loses its head on every hit *)
Fixpoint fire_pinned (fuel : nat) (c : Z) (i : nat) (acc : asg) (l : list event) : asg * list event :=
  match fuel with
  | O => (acc, l)
  | S f =>
    match nth_error l i with
    | None => (acc, l)
    | Some (t, d) =>
      if t <=? c then fire_pinned f c (S i) (dict_update acc d) (List.tl l)
      else fire_pinned f c (S i) acc l
    end
  end.

Definition tick_pinned (c : Z) (tl : list event) : asg * list event :=
  fire_pinned (S (length tl)) c 0%nat [] tl.
