(* Model of vivarium/core/serialize.py: serialize_value (orjson + the fallback function's
   dispatch over registered serializers), deserialize_value (SequenceDeserializer,
   DictDeserializer, UnitsSerializer with its regex ("!units[", anything, "]") under fullmatch and the
   'nan' special case).  Numbers are opaque (orjson's number image is the identity on the
   harness's values); a quantity or unit leaf is represented by its printed form str(q):
   what pint prints and parses is a premise tested by the harness, not modelled. *)
From Coq Require Import List NArith ZArith Bool String Ascii.
Import ListNotations.
Open Scope string_scope.

Inductive num := NInt (z : Z) | NFloat (id : N).      (* finite floats, interned by bit pattern *)

Inductive dkey := KStr (s : string) | KInt (z : Z) | KNpStr (s : string).   (* dict keys *)

(* supported Python values *)
Inductive pval :=
| PNone | PBool (b : bool) | PNum (n : num) | PStr (s : string)
| PList (l : list pval) | PTuple (l : list pval) | PSet (l : list pval)
| PDict (d : list (dkey * pval))
| PNpScalar (n : num) | PNpArr (l : list pval)
| PQty (printed : string)            (* a pint Quantity, by str(q) *)
| PUnit (printed : string)           (* a pint Unit, by str(u) *)
| PProc (printed : string)           (* a Process: str(dict(parameters, _name=name)) *)
| PFun (printed : string)
| PNanFloat                          (* plain float nan / inf: orjson emits null *)
| PUnsupported.                      (* an object no serializer is registered for *)

(* plain JSON data *)
Inductive jval :=
| JNull | JBool (b : bool) | JNum (n : num) | JStr (s : string)
| JList (l : list jval) | JObj (d : list (string * jval)).

Inductive serr := TypeErrorKey | TypeErrorNoSerializer.
Inductive sres (A : Type) := SOk (a : A) | SErr (e : serr).
Arguments SOk {A} a.
Arguments SErr {A} e.

Definition marker (body : string) : string := "!units[" ++ body ++ "]".

Fixpoint ser (v : pval) : sres jval :=
  match v with
  | PNone => SOk JNull
  | PBool b => SOk (JBool b)
  | PNum n => SOk (JNum n)
  | PStr s => SOk (JStr s)
  | PNanFloat => SOk JNull
  | PList l | PTuple l | PSet l | PNpArr l =>
    (fix go (l : list pval) : sres jval :=
       match l with
       | [] => SOk (JList [])
       | x :: r => match ser x, go r with
                   | SOk j, SOk (JList js) => SOk (JList (j :: js))
                   | SErr e, _ => SErr e
                   | _, SErr e => SErr e
                   | _, _ => SErr TypeErrorNoSerializer
                   end
       end) l
  | PDict d =>
    (fix go (d : list (dkey * pval)) : sres jval :=
       match d with
       | [] => SOk (JObj [])
       | (KStr k, x) :: r => match ser x, go r with
                             | SOk j, SOk (JObj js) => SOk (JObj ((k, j) :: js))
                             | SErr e, _ => SErr e
                             | _, SErr e => SErr e
                             | _, _ => SErr TypeErrorNoSerializer
                             end
       | (_, _) :: _ => SErr TypeErrorKey        (* non-string or numpy-string key *)
       end) d
  | PNpScalar n => SOk (JNum n)
  | PQty p => SOk (JStr (marker p))
  | PUnit p => SOk (JStr (marker p))
  | PProc p => SOk (JStr ("!ProcessSerializer[" ++ p ++ "]"))
  | PFun p => SOk (JStr ("!FunctionSerializer[" ++ p ++ "]"))
  | PUnsupported => SErr TypeErrorNoSerializer
  end.

(* plain data as a Python value *)
Fixpoint embed (j : jval) : pval :=
  match j with
  | JNull => PNone
  | JBool b => PBool b
  | JNum n => PNum n
  | JStr s => PStr s
  | JList l => PList (map embed l)
  | JObj d => PDict ((fix go (d : list (string * jval)) : list (dkey * pval) :=
                        match d with [] => [] | (k, x) :: r => (KStr k, embed x) :: go r end) d)
  end.

(* ---- the marker regex under fullmatch: the dot is any character but newline ---- *)
Definition nl : ascii := Ascii.ascii_of_nat 10.

Fixpoint no_newline (s : string) : bool :=
  match s with
  | EmptyString => true
  | String c r => negb (Ascii.eqb c nl) && no_newline r
  end.

(* s = body ++ "]" ? *)
Fixpoint strip_last_bracket (s : string) : option string :=
  match s with
  | EmptyString => None
  | String c EmptyString => if Ascii.eqb c "]"%char then Some EmptyString else None
  | String c r => match strip_last_bracket r with Some b => Some (String c b) | None => None end
  end.

Fixpoint strip_prefix (p s : string) : option string :=
  match p with
  | EmptyString => Some s
  | String c p' => match s with
                   | String d s' => if Ascii.eqb c d then strip_prefix p' s' else None
                   | EmptyString => None
                   end
  end.

Definition match_marker (s : string) : option string :=
  match strip_prefix "!units[" s with
  | Some rest => match strip_last_bracket rest with
                 | Some body => if no_newline body then Some body else None
                 | None => None
                 end
  | None => None
  end.

(* what deserialize_value yields; quantities by the text handed to pint *)
Inductive dval :=
| DNone | DBool (b : bool) | DNum (n : num) | DStr (s : string)
| DList (l : list dval) | DDict (d : list (string * dval))
| DUnits (text : string)             (* units(text) *)
| DNanUnits (unit_text : string).    (* math.nan * units(unit_text) *)

Fixpoint lstrip (s : string) : string :=
  match s with
  | String c r => if Ascii.eqb c " "%char then lstrip r else s
  | EmptyString => EmptyString
  end.

(* `data == 'nan' or data.startswith('nan ')`: the printed form of a nan quantity; a unit whose name merely
   starts with "nan" (nanometer) is an ordinary unit text.  The pinned tree tested startswith('nan'). *)
Definition parse_units (body : string) : dval :=
  if String.eqb body "nan" then DNanUnits "" else
  match strip_prefix "nan " body with
  | Some rest => DNanUnits (lstrip rest)       (* .strip(): trailing blanks are ignored by pint anyway *)
  | None => DUnits body
  end.
Definition parse_units_pinned (body : string) : dval :=
  match strip_prefix "nan" body with
  | Some rest => DNanUnits (lstrip rest)
  | None => DUnits body
  end.

Fixpoint deser (j : jval) : dval :=
  match j with
  | JNull => DNone
  | JBool b => DBool b
  | JNum n => DNum n
  | JStr s => match match_marker s with Some body => parse_units body | None => DStr s end
  | JList l => DList (map deser l)
  | JObj d => DDict ((fix go (d : list (string * jval)) : list (string * dval) :=
                        match d with [] => [] | (k, x) :: r => (k, deser x) :: go r end) d)
  end.

(* the value a round trip is expected to give: containers become lists, numpy scalars Python numbers,
   quantities are parsed back from their printed form *)
Fixpoint normalise (v : pval) : dval :=
  match v with
  | PNone | PNanFloat => DNone
  | PBool b => DBool b
  | PNum n | PNpScalar n => DNum n
  | PStr s => DStr s
  | PList l | PTuple l | PSet l | PNpArr l => DList (map normalise l)
  | PDict d => DDict ((fix go (d : list (dkey * pval)) : list (string * dval) :=
                         match d with
                         | [] => []
                         | (KStr k, x) :: r => (k, normalise x) :: go r
                         | (KInt _, x) :: r | (KNpStr _, x) :: r => go r
                         end) d)
  | PQty p | PUnit p => parse_units p
  | PProc p => DStr ("!ProcessSerializer[" ++ p ++ "]")
  | PFun p => DStr ("!FunctionSerializer[" ++ p ++ "]")
  | PUnsupported => DNone
  end.

(* no plain string in the value already looks like a serialized quantity, and every printed quantity
   is on one line *)
Fixpoint clean (v : pval) : bool :=
  match v with
  | PStr s => match match_marker s with Some _ => false | None => true end
  | PList l | PTuple l | PSet l | PNpArr l => forallb clean l
  | PDict d => forallb (fun kx => clean (snd kx)) d
  | PQty p | PUnit p => no_newline p
  | PProc p => match match_marker ("!ProcessSerializer[" ++ p ++ "]") with Some _ => false | None => true end
  | PFun p => match match_marker ("!FunctionSerializer[" ++ p ++ "]") with Some _ => false | None => true end
  | _ => true
  end.
