(* Model of the command protocol of vivarium/core/process.py: Process.pre_send_command /
   send_command / get_command_result, ParallelProcess.end and __del__, as seen by the engine
   (vivarium/core/engine.py _invoke_process, Defer.get, Engine.end, Store._delete_path ->
   recursive_end_process).  The OS side (worker exit, reaping, pipe liveness, pickling) is not
   modelled: `alive` is the flag "the worker has not been told to stop". *)
From Coq Require Import List Bool.
Import ListNotations.

(* stash: end() found a command pending, took its result out of the pipe and keeps it for whoever still asks *)
Record pp := { pending : bool; ended : bool; alive : bool; stash : bool }.

Definition fresh : pp := {| pending := false; ended := false; alive := true; stash := false |}.

Inductive pcmd :=
| CSend        (* send_command('next_update' | 'calculate_timestep' | ...) *)
| CGet         (* get_command_result() *)
| CEnd         (* ParallelProcess.end() (also run by __del__ and when its node is deleted) *)
| CQuery       (* the engine reads process.schema (Store.build_topology_views) or asks is_step() (re-registration)
                  while the structure of the hierarchy changes *)
| CMoved.      (* the node of the process is detached and attached elsewhere by Store.move *)

Inductive perr := StillPending | NothingPending | Ended.

Definition pstep (s : pp) (c : pcmd) : pp + perr :=
  match c with
  | CSend => if pending s then inr StillPending
             else if ended s then inr Ended             (* the pipe is closed *)
             else inl {| pending := true; ended := ended s; alive := alive s; stash := stash s |}
  | CGet => if stash s then inl {| pending := pending s; ended := ended s; alive := alive s; stash := false |}
            else if pending s then inl {| pending := false; ended := ended s; alive := alive s; stash := stash s |}
            else inr NothingPending
  | CEnd => if ended s then inl s                        (* only end once *)
            else (* a result nobody collected is taken out of the pipe and kept, then 'end' is sent *)
              inl {| pending := false; ended := true; alive := false; stash := pending s |}
  | CQuery => inl s                                      (* answered on the parent side: no command *)
  | CMoved => inl s                                      (* only detached: the worker is left alone *)
  end.

(* the pinned code: schema / is_step were commands to the worker (run_command = send + get), and Store.move
   removed the source with _delete_path, which ends every parallel process below it *)
Definition pstep_pinned (s : pp) (c : pcmd) : pp + perr :=
  let pend := if ended s then inl s
              else if pending s then inr StillPending      (* send_command('end') ran the pre-check *)
              else inl {| pending := false; ended := true; alive := false; stash := false |} in
  match c with
  | CQuery => if pending s then inr StillPending else if ended s then inr Ended else inl s
  | CEnd | CMoved => pend
  | CGet => if pending s then inl {| pending := false; ended := ended s; alive := alive s; stash := stash s |}
            else inr NothingPending
  | CSend => pstep s CSend
  end.

Fixpoint prun_pinned (s : pp) (cs : list pcmd) : pp + perr :=
  match cs with
  | [] => inl s
  | c :: r => match pstep_pinned s c with inl s' => prun_pinned s' r | inr e => inr e end
  end.

Definition quiet (c : pcmd) : bool := match c with CQuery | CMoved => true | _ => false end.

Fixpoint prun (s : pp) (cs : list pcmd) : pp + perr :=
  match cs with
  | [] => inl s
  | c :: r => match pstep s c with inl s' => prun s' r | inr e => inr e end
  end.

(* what the engine does with one process over its life: any number of (send, get) rounds
   -- every invocation is matched by exactly one collection (C01) -- then end, any number of times *)
Definition engine_trace (rounds ends : nat) : list pcmd :=
  concat (repeat [CSend; CGet] rounds) ++ repeat CEnd ends.
