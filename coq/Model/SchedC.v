(* Concrete instance of Model/Sched.v used by the correspondence check of the scheduler
   family: scripted processes over an accumulator store.  Each process p increments a shared
   counter by 1 and its own `elapsed` accumulator by the timestep it was handed. *)
From Coq Require Import List NArith ZArith Bool.
From Viv Require Import Model.Sched.
Import ListNotations.
Open Scope Z_scope.

Inductive tsm :=
| TsConst (z : Z)
| TsState (l : list Z)      (* l[shared mod len]: a function of the viewed state *)
| TsScript (l : list Z).    (* l[#polls mod len]: answers consumed per poll (adaptive) *)

Inductive cm :=
| CTrue | CFalse
| CState (l : list bool)    (* l[shared mod len] *)
| CScript (l : list bool).  (* l[#condition calls mod len] *)

Record pspec := { p_ts : tsm; p_cond : cm }.

Record cst := { shared : Z; priv : list (pid * Z) }.
Definition cupd := (Z * Z)%type.                       (* (shared increment, elapsed increment) *)
Definition cw := list (pid * (nat * nat)).             (* per process: #polls, #condition calls *)

Fixpoint zlook {A} (l : list (pid * A)) (p : pid) : option A :=
  match l with [] => None | (q, a) :: r => if N.eqb q p then Some a else zlook r p end.

Fixpoint zset {A} (l : list (pid * A)) (p : pid) (a : A) : list (pid * A) :=
  match l with
  | [] => [(p, a)]
  | (q, b) :: r => if N.eqb q p then (q, a) :: r else (q, b) :: zset r p a
  end.

Definition cyc {A} (l : list A) (n : nat) (d : A) : A :=
  match l with [] => d | _ => nth (n mod length l)%nat l d end.

Section Inst.
Variable specs : list (pid * pspec).

Definition spec_of (p : pid) : pspec :=
  match zlook specs p with Some s => s | None => {| p_ts := TsConst 1; p_cond := CTrue |} end.

Definition counts (w : cw) (p : pid) : nat * nat :=
  match zlook w p with Some c => c | None => (O, O) end.

Definition cpoll (w : cw) (p : pid) (s : cst) : Z * cw :=
  let '(np, nc) := counts w p in
  let ts := match p_ts (spec_of p) with
            | TsConst z => z
            | TsState l => cyc l (Z.to_nat (shared s)) 1
            | TsScript l => cyc l np 1
            end in
  (ts, zset w p (S np, nc)).

Definition ccond (w : cw) (p : pid) (ts : Z) (s : cst) : bool * cw :=
  let '(np, nc) := counts w p in
  let c := match p_cond (spec_of p) with
           | CTrue => true
           | CFalse => false
           | CState l => cyc l (Z.to_nat (shared s)) true
           | CScript l => cyc l nc true
           end in
  (c, zset w p (np, S nc)).

Definition cnext (w : cw) (p : pid) (ts : Z) (s : cst) : cupd * cw := ((1, ts), w).

Definition ccommit (s : cst) (ps : list pid) (us : list (pid * cupd)) : cst * list pid :=
  (fold_left (fun acc pu =>
                let '(p, (a, b)) := pu in
                {| shared := shared acc + a;
                   priv := zset (priv acc) p (match zlook (priv acc) p with Some x => x | None => 0 end + b) |})
             us s, ps).

Definition cst0 (ps : list pid) : cst := {| shared := 0; priv := map (fun p => (p, 0)) ps |}.

(* canonical, comparable events *)
Inductive cev :=
| CInvoke (p : pid) (ts now start shared own : Z)
| CApply (p : pid) (fin now : Z)
| CEmit (now shared : Z) (privs : list (pid * Z))
| CAfter (now : Z) (fronts : list (pid * (Z * bool))).   (* after a call: time, real update pending *)

Definition own_of (s : cst) (p : pid) : Z := match zlook (priv s) p with Some x => x | None => 0 end.

Definition canon_event (e : event cst) : list cev :=
  match e with
  | EInvoke _ p start fin ts req now v => [CInvoke p ts now start (shared v) (own_of v p)]
  | EQuiet _ _ _ => []
  | EApply _ p fin now => [CApply p fin now]
  | EEmit _ now s => [CEmit now (shared s) (priv s)]
  | EDrop _ _ _ _ => []
  end.

Definition after_of (s : st cst cupd cw) : cev :=
  CAfter (gt _ _ _ s)
         (map (fun pe => (fst pe, (ft (snd pe), match fu (snd pe) with Some _ => true | None => false end)))
              (frt _ _ _ s)).

(* run the calls one by one; after each, the events it logged (oldest first) and the After record.
   None = out of fuel (the implementation would hang) *)
Fixpoint trace_calls (vr : variant) (ee : option Z) (calls : list (Z * bool)) (s : st cst cupd cw)
  : option (list (list cev) * bool) :=
  match calls with
  | [] => Some ([], true)
  | (i, f) :: r =>
    let s0 := {| gt := gt _ _ _ s; procs := procs _ _ _ s; frt := frt _ _ _ s; sto := sto _ _ _ s;
                 wld := wld _ _ _ s; log := [] |} in
    let fuel := (Z.to_nat (4 * Z.abs i) + 60)%nat in
    match run_for cst cupd cw cpoll ccond cnext ccommit vr ee fuel i f s0 with
    | (None, _) => None
    | (Some s', ok) =>
      match trace_calls vr ee r s' with
      | None => None
      | Some (rest, ok') =>
        Some ((concat (map canon_event (rev (log _ _ _ s'))) ++ [after_of s']) :: rest, ok && ok')
      end
    end
  end.

Definition start_state (t0 : Z) (ps : list pid) : st cst cupd cw :=
  init cst cupd cw t0 ps (cst0 ps) [].

End Inst.
