(* Model of the scheduler of vivarium/core/engine.py: Engine.run_for, update,
   _send_updates (as the abstract `commit`), _remove_deleted_processes, _check_complete,
   and the emit bookkeeping of run_for.  The repaired code is `vfixed`; the pinned tree is
   `vpinned` (three independent switches, one per repair).

   Time is an integer number of ticks.  User code (calculate_timestep, update_condition,
   next_update) and the application of a batch (apply updates in order, rebuild views, run the
   step phase; may add or delete processes) are Section variables: every theorem is
   universally quantified over them.  Definitions only; proofs in Proofs/Sched_proofs.v. *)
From Coq Require Import List NArith ZArith Bool.
Import ListNotations.
Open Scope Z_scope.

Definition pid := N.

Record variant := {
  v_fix_ts : bool;      (* F1: a forced, truncated interval is handed its real length *)
  v_fix_quiet : bool;   (* F2: the no-event branch jumps to end_time and advances quiet fronts *)
  v_fix_emit : bool     (* F10: one row per batch when emit_step > 1 *)
}.
Definition vfixed := {| v_fix_ts := true; v_fix_quiet := true; v_fix_emit := true |}.
Definition vpinned := {| v_fix_ts := false; v_fix_quiet := false; v_fix_emit := false |}.

Section Sched.
Variables (Sg U W : Type).
Variable poll : W -> pid -> Sg -> Z * W.             (* calculate_timestep(states) *)
Variable cond : W -> pid -> Z -> Sg -> bool * W.     (* update_condition(timestep, states) *)
Variable next : W -> pid -> Z -> Sg -> U * W.        (* next_update(timestep, states) *)
Variable commit : Sg -> list pid -> list (pid * U) -> Sg * list pid.
Variable vr : variant.
Variable emit_every : option Z.                      (* None: emit_step == 1 (every batch) *)

(* front[path] = {'time': ft, 'update': ...}: fu = a real deferred update in flight,
   fq = the (EmptyDefer(), store) marker of a quiet process *)
Record fe := { ft : Z; fu : option U; fq : bool }.
Definition front := list (pid * fe).

Fixpoint flook (f : front) (p : pid) : option fe :=
  match f with [] => None | (q, e) :: r => if N.eqb q p then Some e else flook r p end.

Fixpoint fset (f : front) (p : pid) (e : fe) : front :=
  match f with
  | [] => [(p, e)]
  | (q, e0) :: r => if N.eqb q p then (q, e) :: r else (q, e0) :: fset r p e
  end.

Inductive event :=
| EInvoke (p : pid) (start fin ts req now : Z) (view : Sg)   (* next_update(ts, view) called *)
| EQuiet (p : pid) (now : Z)                                  (* condition false *)
| EApply (p : pid) (fin now : Z)                              (* its update applied at `now` *)
| EEmit (now : Z) (s : Sg)                                    (* history row *)
| EDrop (p : pid) (fin now : Z).   (* ghost: in-flight update of a deleted process dropped *)

Record st := {
  gt : Z; procs : list pid; frt : front; sto : Sg; wld : W;
  log : list event            (* newest first *)
}.

Definition omin (a : option Z) (b : Z) : option Z :=
  match a with None => Some b | Some x => Some (Z.min x b) end.

(* accumulator of the `for path, process in self.process_paths.items()` loop *)
Record pl := { pf : front; pw : W; pfull : option Z; pquiet : list pid;
               plog : list event; pok : bool }.

Definition poll_one (now endt : Z) (force : bool) (s : Sg) (a : pl) (p : pid) : pl :=
  let e := match flook (pf a) p with
           | Some e => e
           | None => {| ft := now; fu := None; fq := false |}
           end in
  let f0 := match flook (pf a) p with Some _ => pf a | None => fset (pf a) p e end in
  if ft e <=? now then
    let '(req, w1) := poll (pw a) p s in
    let fut := if force then Z.min (ft e + req) endt else ft e + req in
    if fut <=? endt then
      let ts := if v_fix_ts vr && force && (endt <? ft e + req) then endt - ft e else req in
      let '(c, w2) := cond w1 p ts s in
      if c then
        let '(u, w3) := next w2 p ts s in
        {| pf := fset f0 p {| ft := fut; fu := Some u; fq := false |};
           pw := w3; pfull := omin (pfull a) (fut - now); pquiet := pquiet a;
           plog := EInvoke p (ft e) fut ts req now s :: plog a;
           pok := pok a && ((now <? fut) || (force && (fut =? endt))) |}
      else
        {| pf := fset f0 p {| ft := ft e; fu := None; fq := true |};
           pw := w2; pfull := pfull a; pquiet := pquiet a ++ [p];
           plog := EQuiet p now :: plog a; pok := pok a |}
    else
      {| pf := f0; pw := w1; pfull := omin (pfull a) (fut - now); pquiet := pquiet a;
         plog := plog a; pok := pok a && (now <? fut) |}
  else
    {| pf := f0; pw := pw a; pfull := omin (pfull a) (ft e - now); pquiet := pquiet a;
       plog := plog a; pok := pok a |}.

Definition mem (p : pid) (l : list pid) : bool := existsb (N.eqb p) l.

(* _remove_deleted_processes *)
Definition keep_live (ps : list pid) (f : front) : front :=
  filter (fun pe => mem (fst pe) ps) f.

(* ghost events for the in-flight updates that _remove_deleted_processes discards *)
Definition drop_events (now : Z) (ps : list pid) (f : front) : list event :=
  flat_map (fun pe => if mem (fst pe) ps then []
                      else match fu (snd pe) with
                           | Some _ => [EDrop (fst pe) (ft (snd pe)) now]
                           | None => []
                           end) f.

(* self.front[quiet]['time'] = self.global_time *)
Definition advance_quiet (now : Z) (clear : bool) (q : list pid) (f : front) : front :=
  map (fun pe => if mem (fst pe) q
                 then (fst pe, {| ft := now; fu := fu (snd pe);
                                  fq := if clear then false else fq (snd pe) |})
                 else pe) f.

(* updates behind the global time, in front order; cleared once collected *)
Fixpoint collect (now : Z) (f : front) : front * list (pid * U) * list event :=
  match f with
  | [] => ([], [], [])
  | (p, e) :: r =>
    let '(r', us, ev) := collect now r in
    if ft e <=? now then
      match fu e with
      | Some u => ((p, {| ft := ft e; fu := None; fq := false |}) :: r',
                   (p, u) :: us, EApply p (ft e) now :: ev)
      | None => ((p, {| ft := ft e; fu := None; fq := false |}) :: r', us, ev)
      end
    else ((p, e) :: r', us, ev)
  end.

(* pinned no-event branch: next_event = min(end_time, min over ALL front times) *)
Definition next_event_pinned (endt : Z) (f : front) : Z :=
  fold_left (fun acc pe => if ft (snd pe) <? acc then ft (snd pe) else acc) f endt.

(* repaired no-event branch: the nearest front time strictly between now and end_time *)
Definition next_event_fixed (now endt : Z) (f : front) : Z :=
  fold_left (fun acc pe => if (now <? ft (snd pe)) && (ft (snd pe) <? acc) then ft (snd pe) else acc) f endt.

(* emit after a batch at `now`; returns the rows to add (newest first) and the new emit_time *)
Fixpoint bump (fuel : nat) (k now et : Z) : Z :=
  match fuel with
  | O => et
  | S n => if et <=? now then bump n k now (et + k) else et
  end.

Definition rows_pinned (fuel : nat) (k now et : Z) (s : Sg) : list event :=
  (fix go (fuel : nat) (et : Z) : list event :=
     match fuel with
     | O => []
     | S n => if et <=? now then EEmit now s :: go n (et + k) else []
     end) fuel et.

Definition emit_after (now et : Z) (s : Sg) : list event * Z :=
  match emit_every with
  | None => ([EEmit now s], et)
  | Some k =>
    if et <=? now then
      let fuel := S (Z.to_nat (now - et)) in
      ((if v_fix_emit vr then [EEmit now s] else rows_pinned fuel k now et s), bump fuel k now et)
    else ([], et)
  end.

(* one pass of `while self.global_time < end_time or force_complete`;
   returns the new state, the new force flag, the new emit_time and the `ok` flag *)
Definition iter (endt : Z) (force : bool) (et : Z) (s : st) : st * bool * Z * bool :=
  let f0 := keep_live (procs s) (frt s) in
  let a := fold_left (poll_one (gt s) endt force (sto s)) (procs s)
             {| pf := f0; pw := wld s; pfull := None; pquiet := [];
                plog := rev (drop_events (gt s) (procs s) (frt s)) ++ log s; pok := true |} in
  let '(s', et') :=
    match pfull a with
    | None =>
      if v_fix_quiet vr then
        let ne := next_event_fixed (gt s) endt (pf a) in
        ({| gt := ne; procs := procs s; frt := advance_quiet ne true (pquiet a) (pf a);
            sto := sto s; wld := pw a; log := plog a |}, et)
      else
        ({| gt := next_event_pinned endt (pf a); procs := procs s; frt := pf a;
            sto := sto s; wld := pw a; log := plog a |}, et)
    | Some d =>
      if gt s + d <=? endt then
        let now := gt s + d in
        let f1 := advance_quiet now false (pquiet a) (pf a) in
        let '(f2, us, ev) := collect now f1 in
        let '(sto', procs') := commit (sto s) (procs s) us in
        let '(rows, et') := emit_after now et sto' in
        ({| gt := now; procs := procs'; frt := f2; sto := sto'; wld := pw a;
            log := rows ++ rev ev ++ plog a |}, et')
      else
        ({| gt := endt; procs := procs s; frt := pf a; sto := sto s; wld := pw a;
            log := plog a |}, et)
    end in
  let force' := if force && (gt s' =? endt) then false else force in
  (s', force', et', pok a).

(* the loop; (None, ok) = out of fuel, with the conjunction of the ok flags seen so far *)
Fixpoint run (fuel : nat) (endt : Z) (force : bool) (et : Z) (s : st) : option st * bool :=
  if (gt s <? endt) || force then
    match fuel with
    | O => (None, true)
    | S n => let '(s', force', et', ok) := iter endt force et s in
             let '(r, ok') := run n endt force' et' s' in (r, ok && ok')
    end
  else (Some s, true).

(* Engine.run_for(interval, force_complete) *)
Definition run_for (fuel : nat) (interval : Z) (force : bool) (s : st) : option st * bool :=
  let endt := gt s + interval in
  let et := gt s + match emit_every with Some k => k | None => 1 end in
  run fuel endt force et s.

(* _check_complete *)
Definition complete (s : st) : bool :=
  forallb (fun pe => (ft (snd pe) =? gt s) && match fu (snd pe) with None => true | Some _ => false end
                     && negb (fq (snd pe))) (frt s).

(* a sequence of run_for calls *)
Fixpoint run_calls (fuel : nat) (calls : list (Z * bool)) (s : st) : option st * bool :=
  match calls with
  | [] => (Some s, true)
  | (i, f) :: r =>
    match run_for fuel i f s with
    | (Some s', ok) => let '(r', ok') := run_calls fuel r s' in (r', ok && ok')
    | (None, ok) => (None, ok)
    end
  end.

(* engine construction: fronts for every process at the initial time, first history row *)
Definition init (t0 : Z) (ps : list pid) (s0 : Sg) (w0 : W) : st :=
  {| gt := t0; procs := ps;
     frt := map (fun p => (p, {| ft := t0; fu := None; fq := false |})) ps;
     sto := s0; wld := w0; log := [EEmit t0 s0] |}.

End Sched.

Arguments ft {U} _.
Arguments fu {U} _.
Arguments fq {U} _.
