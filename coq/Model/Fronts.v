(* Engine.front across structural updates (vivarium/core/engine.py: Engine.apply_update, _add_process_path,
   _delete_path).  Engine.front is keyed by PATH; Model/Sched.v identifies processes by pid.  This file models what
   Engine.apply_update does to the path-keyed table so that the two can be related: the schedule entry of a process
   object (the time it has been simulated to, its update in flight) follows the OBJECT.

     moved = {}
     registered_at = {id(process): path for path, process in self.process_paths.items()}      (the last path wins)
     for path, process in process_updates:                      (what the store still holds, see held_reports)
         old = registered_at.get(id(process))
         if old is not None and old in self.front and any(starts_with(old, d) for d in deletions):
                                          (repair d76c21b dropped the test `old != path`: a process moved away and back
                                           by one update keeps its entry; the version with the test is take_moved_neq)
             moved[path] = self.front.pop(old)
     for d in deletions: for path in process_paths under d: self.front.pop(path, None)            (_delete_path)
     for path, process in process_updates (non-steps):                                    (_add_process_path)
         if self.process_paths.get(path) is not process: self.front.pop(path, None)
         self.process_paths[path] = process
     for path, entry in moved.items(): if path in self.process_paths: self.front[path] = entry

   T is the type of entries (time and update in flight); nothing is assumed about it. *)
From Coq Require Import List NArith ZArith Bool.
From Viv Require Import Base.Assoc Base.Tree Model.Paths Model.Steps Model.Struct.
Import ListNotations.

Section Fronts.
Variable T : Type.

Definition fronts := list (list key * T).

Definition flookup (fr : fronts) (p : list key) : option T :=
  match find (fun x => kpath_eqb (fst x) p) fr with Some (_, e) => Some e | None => None end.
Definition fpop (fr : fronts) (p : list key) : fronts := filter (fun x => negb (kpath_eqb (fst x) p)) fr.
Definition fput (fr : fronts) (p : list key) (e : T) : fronts := pset fr p e.

(* the path an object is registered at: {id(process): path ...} - the last entry wins *)
Definition obj_path (procs : list (list key * N)) (o : N) : option (list key) :=
  match find (fun x => N.eqb (snd x) o) (rev procs) with Some (p, _) => Some p | None => None end.
Definition table_obj (procs : list (list key * N)) (p : list key) : option N :=
  match find (fun x => kpath_eqb (fst x) p) procs with Some (_, o) => Some o | None => None end.

(* 1. the entries of moved processes are taken out *)
Definition take_moved (procs : list (list key * N)) (dels : list (list key))
           (acc : fronts * fronts) (pp : list key * pinfo) : fronts * fronts :=
  let '(fr, moved) := acc in
  match obj_path procs (pi_obj (snd pp)) with
  | Some old =>
    if existsb (fun d => starts_with old d) dels then
      match flookup fr old with
      | Some e => (fpop fr old, fput moved (fst pp) e)
      | None => acc
      end
    else acc
  | None => acc
  end.

(* before repair d76c21b: only a process whose new path differs from its old one counted as moved *)
Definition take_moved_neq (procs : list (list key * N)) (dels : list (list key))
           (acc : fronts * fronts) (pp : list key * pinfo) : fronts * fronts :=
  let '(fr, moved) := acc in
  match obj_path procs (pi_obj (snd pp)) with
  | Some old =>
    if negb (kpath_eqb old (fst pp)) && existsb (fun d => starts_with old d) dels then
      match flookup fr old with
      | Some e => (fpop fr old, fput moved (fst pp) e)
      | None => acc
      end
    else acc
  | None => acc
  end.

(* 2. _delete_path: the entries of the table paths under a deletion go *)
Definition drop_deleted (procs : list (list key * N)) (dels : list (list key)) (fr : fronts) : fronts :=
  filter (fun x => negb (existsb (fun d => starts_with (fst x) d) dels
                         && match table_obj procs (fst x) with Some _ => true | None => false end)) fr.

(* 3. _add_process_path: a different object at the path starts without an entry *)
Definition register_front (acc : fronts * list (list key * N)) (pp : list key * pinfo)
  : fronts * list (list key * N) :=
  let '(fr, procs) := acc in
  if pi_step (snd pp) then acc
  else
    let fr' := match table_obj procs (fst pp) with
               | Some o => if N.eqb o (pi_obj (snd pp)) then fr else fpop fr (fst pp)
               | None => fpop fr (fst pp)
               end in
    (fr', pset procs (fst pp) (pi_obj (snd pp))).

(* 4. moved entries are put back under the new paths *)
Definition restore_moved (procs' : list (list key * N)) (fr moved : fronts) : fronts :=
  fold_left (fun f x => match table_obj procs' (fst x) with
                        | Some _ => fput f (fst x) (snd x)
                        | None => f
                        end) moved fr.

(* rp: the reports the engine registers (after held_reports); b: the book before the update *)
Definition front_apply (b : book) (fr : fronts) (rp : reports) : fronts :=
  let nonsteps := filter (fun pp => negb (pi_step (snd pp))) (r_process rp) in
  let '(fr1, moved) := fold_left (take_moved (b_procs b) (r_deletions rp)) (r_process rp) (fr, []) in
  let fr2 := drop_deleted (b_procs b) (r_deletions rp) fr1 in
  let procs2 := fold_left (fun ps d => pdrop ps d) (r_deletions rp) (b_procs b) in
  let '(fr3, procs3) := fold_left register_front nonsteps (fr2, procs2) in
  restore_moved procs3 fr3 moved.

(* front_apply with take_moved_neq: the code between repairs e8c83f9 and d76c21b *)
Definition front_apply_neq (b : book) (fr : fronts) (rp : reports) : fronts :=
  let nonsteps := filter (fun pp => negb (pi_step (snd pp))) (r_process rp) in
  let '(fr1, moved) := fold_left (take_moved_neq (b_procs b) (r_deletions rp)) (r_process rp) (fr, []) in
  let fr2 := drop_deleted (b_procs b) (r_deletions rp) fr1 in
  let procs2 := fold_left (fun ps d => pdrop ps d) (r_deletions rp) (b_procs b) in
  let '(fr3, procs3) := fold_left register_front nonsteps (fr2, procs2) in
  restore_moved procs3 fr3 moved.

(* the pinned code: no entry is carried over; a re-registered path kept whatever entry it had (F28 removed the
   entries under deletions, F52 the entry of a replaced object); a moved process started afresh *)
Definition front_apply_pinned (b : book) (fr : fronts) (rp : reports) : fronts :=
  drop_deleted (b_procs b) (r_deletions rp) fr.

(* the entry of a process OBJECT: what Model/Sched.v calls the front of a pid *)
Definition entry_of (procs : list (list key * N)) (fr : fronts) (o : N) : option T :=
  match obj_path procs o with Some p => flookup fr p | None => None end.

End Fronts.
