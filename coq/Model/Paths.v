(* Model of vivarium/library/topology.py (normalize_path, get_in, delete_in, assoc_path,
   update_in, paths_to_dict, dict_to_paths), vivarium/library/dict_utils.py (deep_merge),
   vivarium/core/store.py (hierarchy_depth; Store.get_path / path_to / path_for /
   _establish_path on plain stores) and vivarium/core/process.py (assoc_in).
   Definitions only; proofs live in Proofs/Paths_proofs.v. *)
From Coq Require Import List NArith ZArith Bool.
From Viv Require Import Base.Assoc Base.Tree.
Import ListNotations.

(* ---------- path segments and lexical normalisation ---------- *)

Inductive seg := Up | Dn (k : key).

Definition seg_eqb (a b : seg) : bool :=
  match a, b with
  | Up, Up => true
  | Dn k, Dn k' => N.eqb k k'
  | _, _ => false
  end.

(* normalize_path: `progress` is kept reversed (a stack).
     for step in path:
         if step == '..' and len(progress) > 0 and progress[-1] != '..': progress = progress[:-1]
         else: progress.append(step)                                     *)
Fixpoint norm_go (stack : list seg) (path : list seg) : list seg :=
  match path with
  | [] => stack
  | Up :: r => match stack with
               | [] => norm_go [Up] r
               | Up :: _ => norm_go (Up :: stack) r      (* a kept leading '..' is not cancelled by another one *)
               | Dn _ :: s' => norm_go s' r
               end
  | Dn k :: r => norm_go (Dn k :: stack) r
  end.

Definition normalize (path : list seg) : list seg := rev (norm_go [] path).

(* the pinned code: a '..' cancelled whatever was last kept, another '..' included *)
Fixpoint norm_go_pinned (stack : list seg) (path : list seg) : list seg :=
  match path with
  | [] => stack
  | Up :: r => match stack with
               | [] => norm_go_pinned [Up] r
               | _ :: s' => norm_go_pinned s' r
               end
  | Dn k :: r => norm_go_pinned (Dn k :: stack) r
  end.
Definition normalize_pinned (path : list seg) : list seg := rev (norm_go_pinned [] path).

Definition dn (p : list key) : list seg := map Dn p.

Section Dicts.
Context {A : Type}.
Notation tree := (tree A).

(* ---------- dict_utils.deep_merge ---------- *)
(* for k, v in merge.items():
       if k in dct and isinstance(dct[k], dict) and isinstance(v, Mapping): deep_merge(dct[k], v)
       else: dct[k] = v                                                                        *)
Fixpoint deep_merge (d m : tree) : tree :=
  match m with
  | Lf a => Lf a                       (* not reached from well-typed callers *)
  | Nd mc =>
    match d with
    | Lf a => Nd mc                    (* idem *)
    | Nd dc =>
      Nd ((fix go (mc : list (key * tree)) (dc : list (key * tree)) : list (key * tree) :=
             match mc with
             | [] => dc
             | (k, v) :: r =>
               go r (match alookup k dc, v with
                     | Some (Nd dk), Nd _ => aset k (deep_merge (Nd dk) v) dc
                     | _, _ => aset k v dc
                     end)
             end) mc dc)
    end
  end.

(* ---------- topology.get_in ---------- *)
(* Ok None = the default was returned *)
Fixpoint get_in (d : tree) (path : list key) : res (option tree) :=
  match path with
  | [] => Ok (Some d)
  | h :: r =>
    match d with
    | Lf _ => Err ETypeThroughLeaf
    | Nd c => match alookup h c with
              | Some s => get_in s r
              | None => Ok None
              end
    end
  end.

(* ---------- topology.delete_in (mutates d; returns the mutated d) ---------- *)
Fixpoint delete_in (d : tree) (path : list key) : res tree :=
  match path with
  | [] => Ok d
  | [h] =>
    match d with
    | Lf _ => Err ETypeThroughLeaf
    | Nd c => Ok (Nd (aremove h c))
    end
  | h :: r =>
    match d with
    | Lf _ => Err ETypeThroughLeaf
    | Nd c => match alookup h c with
              | Some s => rbind (delete_in s r) (fun s' => Ok (Nd (aset h s' c)))
              | None => Ok d
              end
    end
  end.

(* ---------- topology.assoc_path (mutates and returns d) ---------- *)
Fixpoint assoc_path (d : tree) (path : list key) (value : tree) : res tree :=
  match path with
  | [] => match value, d with
          | Nd _, Nd _ => Ok (deep_merge d value)
          | Nd _, Lf _ => Err ETypeThroughLeaf
          | Lf _, _ => Ok d
          end
  | [h] =>
    match d with
    | Lf _ => Err ETypeThroughLeaf
    | Nd c => Ok (Nd (aset h value c))
    end
  | h :: r =>
    match d with
    | Lf _ => Err ETypeThroughLeaf
    | Nd c =>
      let s := match alookup h c with Some s => s | None => Nd [] end in
      rbind (assoc_path s r value) (fun s' => Ok (Nd (aset h s' c)))
    end
  end.

(* ---------- topology.update_in ---------- *)
(* returns a shallow-copied spine; the argument is left alone (update_in_arg) *)
Fixpoint update_in (d : tree) (path : list key) (f : tree -> tree) : res tree :=
  match path with
  | [] => Ok (f d)
  | h :: r =>
    match d with
    | Lf _ => Err ETypeThroughLeaf
    | Nd c =>
      let s := match alookup h c with Some s => s | None => Nd [] end in
      rbind (update_in s r f) (fun s' => Ok (Nd (aset h s' c)))
    end
  end.

(* the argument after the call: unchanged (an error when the call raises) *)
Definition update_in_arg (d : tree) (path : list key) : res tree :=
  rbind (update_in d path (fun x => x)) (fun _ => Ok d).

(* pinned: every level began with d.setdefault(head, {}) on the caller's dictionary *)
Fixpoint update_in_arg_pinned (d : tree) (path : list key) : res tree :=
  match path with
  | [] => Ok d
  | h :: r =>
    match d with
    | Lf _ => Err ETypeThroughLeaf
    | Nd c =>
      let s := match alookup h c with Some s => s | None => Nd [] end in
      rbind (update_in_arg_pinned s r) (fun s' => Ok (Nd (aset h s' c)))
    end
  end.

(* ---------- topology.paths_to_dict / dict_to_paths, store.hierarchy_depth ---------- *)
Definition paths_to_dict (pl : list (list key * tree)) : res tree :=
  fold_left (fun acc pv => rbind acc (fun d => assoc_path d (fst pv) (snd pv))) pl (Ok (Nd [])).

(* leaves in dict order; `root` is the prefix tuple *)
Fixpoint dict_to_paths (root : list key) (d : tree) : list (list key * A) :=
  match d with
  | Lf a => [(root, a)]
  | Nd c =>
    (fix go (l : list (key * tree)) : list (list key * A) :=
       match l with
       | [] => []
       | (k, v) :: r => dict_to_paths (root ++ [k]) v ++ go r
       end) c
  end.

(* hierarchy_depth(hierarchy) builds {path: leaf}; as an ordered list of pairs it is
   dict_to_paths from the empty root, provided the top is a dict *)
Definition hierarchy_depth (d : tree) : list (list key * A) :=
  match d with
  | Lf _ => []        (* not reached: the argument is always a dict *)
  | Nd _ => dict_to_paths [] d
  end.

(* ---------- process.assoc_in (pure) ---------- *)
(* dict(d, **{path[0]: assoc_in(d.get(path[0], {}), path[1:], value)}) *)
Fixpoint assoc_in (d : tree) (path : list key) (value : tree) : res tree :=
  match path with
  | [] => Ok value
  | h :: r =>
    match d with
    | Lf _ => Err ETypeThroughLeaf
    | Nd c =>
      let s := match alookup h c with Some s => s | None => Nd [] end in
      rbind (assoc_in s r value) (fun s' => Ok (Nd (aset h s' c)))
    end
  end.

(* ---------- Store navigation on plain (non-process) nodes ---------- *)
(* A store node is addressed by its absolute key path in the tree of the root.  *)

Definition node_at (t : tree) (a : list key) : option tree :=
  match get_in t a with Ok (Some s) => Some s | _ => None end.

(* Store.get_path(path) starting from the node at absolute path `a`:
     '..' -> self.outer (None at the root -> "not a valid path"),
     key  -> self.inner.get(key) (missing -> "not a valid path")            *)
Fixpoint walk (t : tree) (a : list key) (r : list seg) : res (list key) :=
  match r with
  | [] => Ok a
  | Up :: r' => match a with
                | [] => Err EInvalidPath
                | _ => walk t (removelast a) r'
                end
  | Dn k :: r' =>
    match node_at t (a ++ [k]) with
    | Some _ => walk t (a ++ [k]) r'
    | None => Err EInvalidPath
    end
  end.

(* Store.path_to: strip the common prefix, climb the rest of self, descend the rest of to *)
Fixpoint strip_common (a b : list key) : list key * list key :=
  match a, b with
  | x :: a', y :: b' => if N.eqb x y then strip_common a' b' else (a, b)
  | _, _ => (a, b)
  end.

Definition path_to (a b : list key) : list seg :=
  let '(ra, rb) := strip_common a b in
  map (fun _ => Up) ra ++ dn rb.

(* Store._establish_path(path, {}) from the node at `a`: creates missing branch nodes;
   '..' above the root raises.  Returns the new tree and the absolute path reached.
   (A leaf met on the way is turned into / treated as a branch by Store; here a value
   leaf under a further key is an error the harness never produces.)              *)
Fixpoint establish (t : tree) (a : list key) (r : list seg) : res (tree * list key) :=
  match r with
  | [] => Ok (t, a)
  | Up :: r' => match a with
                | [] => Err ENoOuter
                | _ => establish t (removelast a) r'
                end
  | Dn k :: r' =>
    match node_at t (a ++ [k]) with
    | Some _ => establish t (a ++ [k]) r'
    | None =>
      match assoc_path t (a ++ [k]) (Nd []) with
      | Ok t' => establish t' (a ++ [k]) r'
      | Err e => Err e
      end
    end
  end.

End Dicts.

(* ---------- Store.path_for by identity search (key_for_value uses `==`, which for
   Store objects is identity): nodes carry a uid ---------- *)
Inductive utree := UNd (uid : N) (c : list (key * utree)).

Definition uuid (t : utree) : N := match t with UNd u _ => u end.
Definition uchildren (t : utree) : list (key * utree) := match t with UNd _ c => c end.

Fixpoint unode_at (t : utree) (p : list key) : option utree :=
  match p with
  | [] => Some t
  | h :: r => match alookup h (uchildren t) with
              | Some s => unode_at s r
              | None => None
              end
  end.

(* key_for_value(outer.inner, self): first key whose value is (identical to) self *)
Fixpoint key_for_value (c : list (key * utree)) (u : N) : option key :=
  match c with
  | [] => None
  | (k, v) :: r => if N.eqb (uuid v) u then Some k else key_for_value r u
  end.

(* path_for of the node reached by path p (walking outer pointers = dropping the last
   key): the keys found by key_for_value at every level *)
Fixpoint path_for (t : utree) (p : list key) : option (list key) :=
  match p with
  | [] => Some []
  | h :: r =>
    match alookup h (uchildren t) with
    | None => None
    | Some s =>
      match key_for_value (uchildren t) (uuid s), path_for s r with
      | Some k, Some rest => Some (k :: rest)
      | _, _ => None
      end
    end
  end.

Fixpoint uids (t : utree) : list N :=
  match t with
  | UNd u c => u :: (fix go (l : list (key * utree)) : list N :=
                       match l with [] => [] | (_, v) :: r => uids v ++ go r end) c
  end.
