(* Model of the divider functions of vivarium/core/registry.py (divide_set, divide_set_value,
   divide_split [repaired: state // 2], divide_binomial, divide_zero, divide_split_dict,
   divide_null).  Random choices are arguments: which side gets the remainder of an odd split,
   the binomial draw.  The recursion over a subtree is Model/Struct.v divide_value. *)
From Coq Require Import List NArith ZArith Bool.
From Viv Require Import Base.Assoc Base.Tree Model.Struct.
Import ListNotations.
Open Scope Z_scope.

Inductive dval := DInt (z : Z) | DDict (d : list (key * Z)) | DNone.

Definition divide_set (v : dval) : dval * dval := (v, v).
Definition divide_set_value (config : dval) (v : dval) : dval * dval := (config, config).
Definition divide_zero (v : dval) : dval * dval := (DInt 0, DInt 0).
Definition divide_split (v : Z) (first_gets_rem : bool) : Z * Z := split_z v first_gets_rem.
Definition divide_split_pinned (v : Z) (first_gets_rem : bool) : Z * Z := split_z_pinned v first_gets_rem.
(* counts_1 = binomial draw c; counts_2 = state - counts_1 *)
Definition divide_binomial (n c : Z) : Z * Z := (c, n - c).
(* d1 = items[len//2:], d2 = items[:len//2] *)
Definition divide_split_dict (d : list (key * Z)) : list (key * Z) * list (key * Z) :=
  (skipn (Nat.div (length d) 2) d, firstn (Nat.div (length d) 2) d).
