(* Model of the content of a history row: Store.emit_data (emit flags, custom serializers, None
   values, empty branches), Store.set_emit_value(s) and the branch-level `_emit` /
   store_schema handling of Store._apply_config (vivarium/core/store.py). *)
From Coq Require Import List NArith ZArith Bool.
From Viv Require Import Base.Assoc Base.Tree.
Import ListNotations.
Open Scope Z_scope.

(* a variable: value (None = unset), emit flag, whether a custom serializer is attached
   (the harness registers one that adds 1000) *)
Inductive enode :=
| ELeaf (v : option Z) (emit : bool) (ser : bool)
(* a variable declared with `_units`: it holds the quantity `mag` in a unit of size `vscale` (in base units)
   and is declared in the unit of size `dscale`; a row carries its magnitude in the declared unit *)
| EQty (mag vscale dscale : Z) (emit : bool)
| EDir (c : list (key * enode)).

(* value.to(declared units).magnitude *)
Definition to_units (mag vscale dscale : Z) : Z := mag * vscale / dscale.

Definition serialize (ser : bool) (z : Z) : Z := if ser then z + 1000 else z.

(* Store.emit_data: None when nothing is to be emitted at this node *)
Fixpoint emit_data (n : enode) : option (tree Z) :=
  match n with
  | ELeaf v e s => if e then option_map (fun z => Lf (serialize s z)) v else None
  | EQty m vs ds e => if e then Some (Lf (to_units m vs ds)) else None
  | EDir [] => None                        (* a node without inner and without emit *)
  | EDir c =>
    Some (Nd ((fix go (c : list (key * enode)) : list (key * tree Z) :=
                 match c with
                 | [] => []
                 | (k, x) :: r => match emit_data x with
                                  | Some d => (k, d) :: go r
                                  | None => go r
                                  end
                 end) c))
  end.

(* Store.set_emit_value(emit=b) on a node: every leaf below *)
Fixpoint set_emit (b : bool) (n : enode) : enode :=
  match n with
  | ELeaf v _ s => ELeaf v b s
  | EQty m vs ds _ => EQty m vs ds b
  | EDir c => EDir ((fix go (c : list (key * enode)) : list (key * enode) :=
                       match c with [] => [] | (k, x) :: r => (k, set_emit b x) :: go r end) c)
  end.

(* set_emit_value(path, emit) *)
Fixpoint set_emit_at (b : bool) (n : enode) (p : list key) : enode :=
  match p with
  | [] => set_emit b n
  | k :: r => match n with
              | EDir c => match alookup k c with
                          | Some x => EDir (aset k (set_emit_at b x r) c)
                          | None => n
                          end
              | _ => n
              end
  end.

(* store_schema / a branch-level `_emit` in a config: nested dicts whose nodes may carry `_emit` *)
Inductive ecfg := ECfg (emit : option bool) (c : list (key * ecfg)).

Fixpoint apply_ecfg (n : enode) (cf : ecfg) {struct cf} : enode :=
  match cf with
  | ECfg e c =>
    match n with
    | ELeaf v old s => ELeaf v (match e with Some b => b | None => old end) s
    | EQty m vs ds old => EQty m vs ds (match e with Some b => b | None => old end)
    | EDir nc =>
      let nc1 := match e with
                 | Some b => match set_emit b (EDir nc) with EDir x => x | _ => nc end
                 | None => nc
                 end in
      EDir ((fix go (c : list (key * ecfg)) (nc : list (key * enode)) : list (key * enode) :=
               match c with
               | [] => nc
               | (k, sub) :: r =>
                 match alookup k nc with
                 | Some x => go r (aset k (apply_ecfg x sub) nc)
                 | None => go r nc           (* would create a new node: not generated *)
                 end
               end) c nc1)
    end
  end.

(* all leaves with their paths *)
Fixpoint eleaves (n : enode) (pre : list key) : list (list key * (option Z * bool * bool)) :=
  match n with
  | ELeaf v e s => [(pre, (v, e, s))]
  | EQty m vs ds e => [(pre, (Some (to_units m vs ds), e, false))]
  | EDir c => (fix go (c : list (key * enode)) : list (list key * (option Z * bool * bool)) :=
                 match c with [] => [] | (k, x) :: r => eleaves x (pre ++ [k]) ++ go r end) c
  end.
