(* Model of the wiring of ports to stores: vivarium/core/store.py (_topology_ports,
   _establish_path, outer_path, _apply_config leaf/branch sections, schema_topology =
   the read view, generate / set_value / apply_defaults) and
   vivarium/library/topology.py inverse_topology (the write path), with
   dict_utils.deep_merge_multi_update.  Three functions are modelled separately, each
   following its own Python code: ports_build, view, invert. *)
From Coq Require Import List NArith ZArith Bool.
From Viv Require Import Base.Assoc Base.Tree Model.Paths.
Import ListNotations.

(* ---------- schemas and topologies ---------- *)
Inductive pkey := PK (k : key) | PStar.

Definition pkey_eqb (a b : pkey) : bool :=
  match a, b with PK x, PK y => N.eqb x y | PStar, PStar => true | _, _ => false end.

(* declaration of a variable: _default, _value, _units tag, _serializer tag *)
Record vdecl := { dd : option Z; dv : option Z; du : option N; ds : option N }.

Inductive schema :=
| SVar (d : vdecl)                                   (* a dict carrying schema keys *)
| SAll                                               (* '**' *)
| SNode (out : bool) (c : list (pkey * schema)).     (* ports / sub-ports; out: '_output': True *)

Inductive topo :=
| TPath (p : list seg)
| TDict (path : option (list seg)) (c : list (pkey * topo)).   (* optional '_path' *)

Fixpoint plook {A} (k : pkey) (l : list (pkey * A)) : option A :=
  match l with [] => None | (k', v) :: r => if pkey_eqb k' k then Some v else plook k r end.

(* ---------- the store tree ---------- *)
(* leaf = declared variable: current value (None = unset), default, units, serializer *)
Record lf := { l_val : option Z; l_def : option Z; l_units : option N; l_ser : option N }.
Notation store := (tree lf).

Definition sub_at (t : store) (a : list key) : option store := node_at t a.

(* replace the subtree at an existing or new absolute path *)
Definition set_at (t : store) (a : list key) (s : store) : res store :=
  match a with
  | [] => Ok s
  | _ => assoc_path t a s
  end.

(* ---------- Store._apply_config ---------- *)
Definition merge_opt_strict {A} (eqb : A -> A -> bool) (cur new : option A) : res (option A) :=
  match cur, new with
  | Some a, Some b => if eqb a b then Ok (Some b) else Err EConflict
  | _, Some b => Ok (Some b)
  | c, None => Ok c
  end.

(* leaf section: _default: the new one wins silently; _value, _units, _serializer: a
   different value is an error *)
Definition merge_leaf (cur : lf) (d : vdecl) : res lf :=
  rbind (merge_opt_strict N.eqb (l_units cur) (du d)) (fun u =>
  rbind (merge_opt_strict N.eqb (l_ser cur) (ds d)) (fun s =>
  rbind (merge_opt_strict Z.eqb (l_val cur) (dv d)) (fun v =>
  Ok {| l_val := v; l_def := match dd d with Some x => Some x | None => l_def cur end;
        l_units := u; l_ser := s |}))).

Definition empty_leaf : lf := {| l_val := None; l_def := None; l_units := None; l_ser := None |}.

(* apply a (sub)schema as a config to the node `cur` (None: a fresh Store({})) *)
Fixpoint apply_config (cur : option store) (sch : schema) : res store :=
  match sch with
  | SAll => Ok (match cur with Some s => s | None => Nd [] end)
  | SVar d =>
    match cur with
    | Some (Nd (_ :: _)) => Err EOther              (* leaf values assigned to a branch *)
    | Some (Lf l) => rbind (merge_leaf l d) (fun l' => Ok (Lf l'))
    | _ => rbind (merge_leaf empty_leaf d) (fun l' => Ok (Lf l'))
    end
  | SNode _ c =>
    let base : res (list (key * store)) :=
      match cur with
      | Some (Nd cc) => Ok cc
      | Some (Lf l) => match c, l_val l with
                       | [], _ => Ok []             (* an empty config leaves a leaf alone: see below *)
                       | _, Some _ => Err EOther    (* inner created for a leaf that holds a value *)
                       | _, None => Ok []
                       end
      | None => Ok []
      end in
    match cur, c with
    | Some (Lf l), [] => Ok (Lf l)
    | _, _ =>
      rbind base (fun cc =>
        (fix go (c : list (pkey * schema)) (cc : list (key * store)) : res store :=
           match c with
           | [] => Ok (Nd cc)
           | (PStar, _) :: r => go r cc                       (* stored as the node's subschema *)
           | (PK k, sub) :: r =>
             match apply_config (alookup k cc) sub with
             | Ok s' => go r (aset k s' cc)
             | Err e => Err e
             end
           end) c cc)
    end
  end.

(* Store._establish_path(path, config): walk / create, then apply the config there *)
Definition establish_cfg (t : store) (a : list key) (p : list seg) (sch : schema)
  : res (store * list key) :=
  rbind (establish t a p) (fun tb =>
    let '(t', b) := tb in
    rbind (apply_config (sub_at t' b) sch) (fun s' =>
    rbind (set_at t' b s') (fun t'' => Ok (t'', b)))).

(* ---------- Store._topology_ports: ports_build ---------- *)
(* `a`: absolute path of the node the ports are relative to (the process's parent) *)
Fixpoint ports_build (t : store) (a : list key) (sch : schema) (tp : list (pkey * topo))
         {struct sch} : res store :=
  match sch with
  | SNode _ c =>
    (fix go (c : list (pkey * schema)) (t : store) : res store :=
       match c with
       | [] => Ok t
       | (pk, sub) :: r =>
         let step : res store :=
           match pk, plook pk tp with
           | PStar, Some (TDict p' c') =>
               (* outer_path, then the children get the sub-schema when they appear *)
               rbind (establish t a (match p' with Some q => q | None => [] end)) (fun tb => Ok (fst tb))
           | PStar, Some (TPath p) => rbind (establish t a p) (fun tb => Ok (fst tb))
           | PStar, None => rbind (establish t a [Dn 0%N]) (fun tb => Ok (fst tb))   (* the key '*' itself: not used *)
           | PK k, Some (TDict p' c') =>
               rbind (establish t a (match p' with Some q => q | None => [] end)) (fun tb =>
                 ports_build (fst tb) (snd tb) sub c')
           | PK k, Some (TPath p) => rbind (establish_cfg t a p sub) (fun tb => Ok (fst tb))
           | PK k, None => rbind (establish_cfg t a [Dn k] sub) (fun tb => Ok (fst tb))
           end in
         match step with Ok t' => go r t' | Err e => Err e end
       end) c t
  | SVar d => Err EOther        (* a leaf schema at port level: the harness never produces it *)
  | SAll => Ok t
  end.

(* ---------- Store.schema_topology: the read view ---------- *)
Inductive vtree := VRef (a : list key) | VNode (c : list (key * vtree)).

Definition is_leaf_at (t : store) (a : list key) : bool :=
  match sub_at t a with Some (Lf _) => true | _ => false end.

Definition child_keys (t : store) (a : list key) : list key :=
  match sub_at t a with Some (Nd c) => akeys c | _ => [] end.

Fixpoint view (t : store) (a : list key) (sch : schema) (tp : list (pkey * topo)) {struct sch}
  : res vtree :=
  if is_leaf_at t a then Ok (VRef a) else
  match sch with
  | SAll => Ok (VRef a)
  | SVar _ => Err EInvalidPath
  | SNode true _ => Ok (VNode [])
  | SNode false c =>
    (fix go (c : list (pkey * schema)) (acc : list (key * vtree)) : res vtree :=
       match c with
       | [] => Ok (VNode acc)
       | (pk, sub) :: r =>
         let step : res (list (key * vtree)) :=
           match pk with
           | PStar =>
             let nt : res (list key * list (pkey * topo)) :=
               match plook PStar tp with
               | Some (TDict p' c') => rbind (walk t a (match p' with Some q => q | None => [] end)) (fun b => Ok (b, c'))
               | Some (TPath p) => rbind (walk t a p) (fun b => Ok (b, []))
               | None => Ok (a, [])
               end in
             rbind nt (fun bc =>
               fold_left (fun acc' ch =>
                            rbind acc' (fun l =>
                              rbind (view t (fst bc ++ [ch]) sub (snd bc)) (fun v => Ok (aset ch v l))))
                         (child_keys t (fst bc)) (Ok acc))
           | PK k =>
             match plook pk tp with
             | Some (TDict p' c') =>
                 rbind (walk t a (match p' with Some q => q | None => [] end)) (fun b =>
                 rbind (view t b sub c') (fun v => Ok (aset k v acc)))
             | Some (TPath p) =>
                 rbind (walk t a p) (fun b => rbind (view t b sub []) (fun v => Ok (aset k v acc)))
             | None =>
                 rbind (walk t a [Dn k]) (fun b => rbind (view t b sub []) (fun v => Ok (aset k v acc)))
             end
           end in
         match step with Ok acc' => go r acc' | Err e => Err e end
       end) c []
  end.

(* view_values: the states dict handed to the process *)
Inductive sval := SV (v : option Z) | SD (c : list (key * sval)).

Fixpoint store_value (s : store) : sval :=
  match s with
  | Lf l => SV (l_val l)
  | Nd c => SD ((fix go (c : list (key * store)) : list (key * sval) :=
                   match c with [] => [] | (k, x) :: r => (k, store_value x) :: go r end) c)
  end.

Fixpoint view_values (t : store) (v : vtree) : sval :=
  match v with
  | VRef a => match sub_at t a with Some s => store_value s | None => SV None end
  | VNode c => SD ((fix go (c : list (key * vtree)) : list (key * sval) :=
                      match c with [] => [] | (k, x) :: r => (k, view_values t x) :: go r end) c)
  end.

(* ---------- topology.inverse_topology: the write path ---------- *)
(* updates: nested dicts with values; {'_multi_update': [...]} where two ports collide *)
Inductive utree := UV (z : Z) | UM (l : list utree) | UD (c : list (key * utree)).

(* dict_utils.deep_merge_multi_update(dct, merge) when multi = true,
   dict_utils.deep_merge(dct, merge) when multi = false *)
Fixpoint dmmu (multi : bool) (fuel : nat) (d m : list (key * utree)) : list (key * utree) :=
  match fuel with
  | O => d
  | S f =>
    fold_left (fun acc kv =>
                 let '(k, v) := kv in
                 match alookup k acc, v with
                 | Some (UD dc), UD mc => aset k (UD (dmmu multi f dc mc)) acc
                 | Some (UM l), _ => if multi then aset k (UM (l ++ [v])) acc else aset k v acc
                 | Some cur, _ => if multi then aset k (UM [cur; v]) acc else aset k v acc
                 | None, _ => aset k v acc
                 end) m d
  end.

Fixpoint usize (u : utree) : nat :=
  match u with
  | UV _ => 1
  | UM l => S (fold_left (fun n x => n + usize x)%nat l 0%nat)
  | UD c => S ((fix go (c : list (key * utree)) : nat := match c with [] => 0 | (_, x) :: r => usize x + go r end%nat) c)
  end.

(* update_in(inverse, inner, f) on update trees *)
Fixpoint uupdate_in (d : list (key * utree)) (p : list key) (f : utree -> res utree) : res (list (key * utree)) :=
  match p with
  | [] => match f (UD d) with Ok (UD d') => Ok d' | Ok _ => Err EOther | Err e => Err e end
  | [h] =>
    let cur := match alookup h d with Some s => s | None => UD [] end in
    rbind (f cur) (fun s' => Ok (aset h s' d))
  | h :: r =>
    match (match alookup h d with Some s => s | None => UD [] end) with
    | UD dc => rbind (uupdate_in dc r f) (fun dc' => Ok (aset h (UD dc') d))
    | _ => Err ETypeThroughLeaf
    end
  end.

(* a normalised absolute path must not keep a leading '..' *)
Fixpoint abs_keys (p : list seg) : res (list key) :=
  match p with
  | [] => Ok []
  | Dn k :: r => rbind (abs_keys r) (fun l => Ok (k :: l))
  | Up :: _ => Err ENoOuter
  end.

(* mode: 0 = pinned scalar overwrite + multi-update dict merge (the pinned `key in update` case);
         1 = repaired: scalars merged as multi-updates too;
         2 = the '*' tuple-path case: deep_merge for dicts, overwrite for scalars *)
Definition place_mode (mode : nat) (inverse : list (key * utree)) (inner : list key) (value : utree)
  : res (list (key * utree)) :=
  match value with
  | UD vc =>
      uupdate_in inverse inner (fun cur =>
        match cur with
        | UD cc => Ok (UD (dmmu (negb (Nat.eqb mode 2)) (usize (UD cc) + usize value) cc vc))
        | _ => Err EOther
        end)
  | _ =>
    match inner with
    | [] => Ok inverse                 (* assoc_path(inverse, (), scalar) is a no-op *)
    | _ =>
      if Nat.eqb mode 1 then
        uupdate_in inverse (removelast inner) (fun cur =>
          match cur with
          | UD cc => Ok (UD (dmmu true 2 cc [(last inner 0%N, value)]))
          | _ => Err EOther
          end)
      else uupdate_in inverse inner (fun _ => Ok value)
    end
  end.

Definition place (fixed : bool) := place_mode (if fixed then 1%nat else 0%nat).

Definition has_star (c : list (pkey * topo)) : bool :=
  match plook PStar c with Some _ => true | None => false end.

(* inverse_topology for one topology entry `path` and the matching part `value` of the update.
   skip_path: the dict's own '_path' has already been consumed (the '*' case) *)
Fixpoint inv_topo (fixed skip_path : bool) (outer : list seg) (value : utree) (path : topo)
         (inverse : list (key * utree)) {struct path} : res (list (key * utree)) :=
  match path with
  | TPath p => rbind (abs_keys (normalize (outer ++ p))) (fun inner => place fixed inverse inner value)
  | TDict p' c' =>
    match value with
    | UD cu =>
      let p'' := if skip_path then None else p' in
      let inner := match p'' with Some q => normalize (outer ++ q) | None => outer end in
      let listed : res (list (key * utree)) :=
        (fix go (c : list (pkey * topo)) (inv : list (key * utree)) : res (list (key * utree)) :=
           match c with
           | [] => Ok inv
           | (PK k, sub) :: r =>
             match alookup k cu with
             | Some v => match inv_topo fixed false inner v sub inv with
                         | Ok inv' => go r inv'
                         | Err e => Err e
                         end
             | None => go r inv
             end
           | (PStar, sub) :: r =>
             let stepped : res (list (key * utree)) :=
               match sub with
               | TPath p =>
                 fold_left (fun acc kv =>
                              rbind acc (fun inv0 =>
                                rbind (abs_keys (normalize (inner ++ p ++ [Dn (fst kv)]))) (fun tgt =>
                                  place_mode (if fixed then 1%nat else 2%nat) inv0 tgt (snd kv)))) cu (Ok inv)
               | TDict q'' _ =>
                 let inner2 := match q'' with Some q => normalize (inner ++ q) | None => inner end in
                 fold_left (fun acc kv =>
                              rbind acc (fun inv0 => inv_topo fixed true (inner2 ++ [Dn (fst kv)]) (snd kv) sub inv0))
                           cu (Ok inv)
               end in
             match stepped with Ok inv' => go r inv' | Err e => Err e end
           end) c' inverse in
      (* with '_path' and no '*': sub-keys of the update that the dict does not list map to themselves *)
      match p'', has_star c' with
      | Some _, false =>
        rbind listed (fun inv =>
          fold_left (fun acc kv =>
                       rbind acc (fun inv0 =>
                         match plook (PK (fst kv)) c' with
                         | Some _ => Ok inv0
                         | None => rbind (abs_keys (normalize (inner ++ [Dn (fst kv)]))) (fun tgt =>
                                     place fixed inv0 tgt (snd kv))
                         end)) cu (Ok inv))
      | _, _ => listed
      end
    | _ => Err EOther
    end
  end.

(* inverse_topology(path[:-1], update, topology) for a process whose parent is at `outer` *)
Definition invert (fixed : bool) (outer : list key) (upd : list (key * utree)) (tp : list (pkey * topo))
  : res (list (key * utree)) :=
  inv_topo fixed false (dn outer) (UD upd) (TDict None tp) [].

(* ---------- generate: several processes, glob sub-schemas, initial state, defaults ---------- *)

(* glob nodes: absolute path, sub-schema, sub-topology (Store.subschema / Store.subtopology) *)
Definition globs := list (list key * (schema * list (pkey * topo))).

Definition path_eqb (p q : list key) : bool :=
  (fix go p q := match p, q with
                 | [], [] => true
                 | x :: p', y :: q' => N.eqb x y && go p' q'
                 | _, _ => false
                 end) p q.

Fixpoint glook (g : globs) (a : list key) : option (schema * list (pkey * topo)) :=
  match g with [] => None | (b, x) :: r => if path_eqb a b then Some x else glook r a end.

(* merging two sub-schema configs declared for one glob node: keys of the later one are added,
   a key declared twice keeps the later declaration (declarations of one variable agree in
   the harness; their defaults are merged when the config is applied) *)
Definition schema_merge (a b : schema) : schema :=
  match a, b with
  | SNode o ca, SNode o' cb =>
    SNode (o || o')
          (fold_left (fun acc kb =>
                        match plook (fst kb) acc with
                        | Some _ => map (fun kv => if pkey_eqb (fst kv) (fst kb) then kb else kv) acc
                        | None => acc ++ [kb]
                        end) cb ca)
  | _, _ => b
  end.

Definition gset (g : globs) (a : list key) (sub : schema) (st : list (pkey * topo)) : globs :=
  match glook g a with
  | Some (s0, t0) => map (fun bx => if path_eqb (fst bx) a then (a, (schema_merge s0 sub, t0 ++ st)) else bx) g
  | None => g ++ [(a, (sub, st))]
  end.

(* the glob declarations a process contributes: (node, sub-schema, sub-topology) *)
Fixpoint glob_decls (t : store) (a : list key) (sch : schema) (tp : list (pkey * topo)) {struct sch}
  : res (list (list key * (schema * list (pkey * topo)))) :=
  match sch with
  | SNode _ c =>
    (fix go (c : list (pkey * schema)) : res (list (list key * (schema * list (pkey * topo)))) :=
       match c with
       | [] => Ok []
       | (pk, sub) :: r =>
         let here : res (list (list key * (schema * list (pkey * topo)))) :=
           match pk, plook pk tp with
           | PStar, Some (TDict p' c') =>
               rbind (walk t a (match p' with Some q => q | None => [] end)) (fun b => Ok [(b, (sub, c'))])
           | PStar, Some (TPath p) => rbind (walk t a p) (fun b => Ok [(b, (sub, []))])
           | PStar, None => Ok [(a, (sub, []))]       (* a '*' key inside a config: this node's sub-schema *)
           | PK k, Some (TDict p' c') =>
               rbind (walk t a (match p' with Some q => q | None => [] end)) (fun b => glob_decls t b sub c')
           | PK k, Some (TPath p) =>
               (* a glob nested below a plain path: the sub-schema sits under the established node *)
               rbind (walk t a p) (fun b => glob_decls t b sub [])
           | PK k, None => rbind (walk t a [Dn k]) (fun b => glob_decls t b sub [])
           end in
         rbind here (fun l1 => rbind (go r) (fun l2 => Ok (l1 ++ l2)))
       end) c
  | _ => Ok []
  end.

Record proc := { pr_parent : list key; pr_schema : schema; pr_topo : list (pkey * topo) }.

(* apply a glob's sub-schema (through its sub-topology) to every current child *)
Definition apply_subschema (t : store) (g : list key * (schema * list (pkey * topo))) : res store :=
  fold_left (fun acc ch => rbind acc (fun t' => ports_build t' (fst g ++ [ch]) (fst (snd g)) (snd (snd g))))
            (child_keys t (fst g)) (Ok t).

(* Store.set_value(initial_state): only existing nodes are set, except that a glob node creates
   missing children from its sub-schema (as a plain config, without the sub-topology) *)
Fixpoint set_value (fuel : nat) (g : globs) (a : list key) (cur : option store) (v : tree Z) : res (option store) :=
  match fuel with
  | O => Err EFuel
  | S f =>
    match cur with
    | None => Ok None
    | Some (Lf l) =>
      match v with
      | Lf z => Ok (Some (Lf {| l_val := Some z; l_def := l_def l; l_units := l_units l; l_ser := l_ser l |}))
      | Nd _ => Err EOther      (* a dict as the value of a variable: outside the model *)
      end
    | Some (Nd cc) =>
      match v with
      | Lf _ => match cc, glook g a with
                | [], None => Ok cur      (* an empty non-glob node is `self.value = value`: not a declared variable *)
                | _, _ => Err EOther      (* "trying to set branch ... to value" *)
                end
      | Nd vc =>
        match cc, glook g a with
        | [], None => Ok cur
        | _, gl =>
          rbind
            (fold_left (fun acc kv =>
                          rbind acc (fun cc' =>
                            let '(k, sub) := kv in
                            let existing : res (option store) :=
                              match alookup k cc', gl with
                              | Some s, _ => Ok (Some s)
                              | None, Some (ssch, _) => rbind (apply_config None ssch) (fun s => Ok (Some s))
                              | None, None => Ok None
                              end in
                            rbind existing (fun ex =>
                              rbind (set_value f g (a ++ [k]) ex sub) (fun r =>
                                match r with Some s' => Ok (aset k s' cc') | None => Ok cc' end))))
                       vc (Ok cc))
            (fun cc' => Ok (Some (Nd cc')))
        end
      end
    end
  end.

Fixpoint apply_defaults (s : store) : store :=
  match s with
  | Lf l => Lf {| l_val := match l_val l with Some v => Some v | None => l_def l end;
                  l_def := l_def l; l_units := l_units l; l_ser := l_ser l |}
  | Nd c => Nd ((fix go (c : list (key * store)) : list (key * store) :=
                   match c with [] => [] | (k, x) :: r => (k, apply_defaults x) :: go r end) c)
  end.

Fixpoint tsize (v : tree Z) : nat :=
  match v with
  | Lf _ => 1
  | Nd c => S ((fix go (c : list (key * tree Z)) : nat := match c with [] => 0 | (_, x) :: r => tsize x + go r end%nat) c)
  end.

(* Store.generate for a list of processes (their nodes are not represented) *)
Definition generate (ps : list proc) (init : tree Z) : res (store * globs) :=
  rbind (fold_left (fun acc p =>
                      rbind acc (fun tg =>
                        let '(t, g) := tg in
                        rbind (establish t [] (dn (pr_parent p))) (fun tb =>
                        rbind (ports_build (fst tb) (pr_parent p) (pr_schema p) (pr_topo p)) (fun t' =>
                        rbind (glob_decls t' (pr_parent p) (pr_schema p) (pr_topo p)) (fun gd =>
                          let g' := fold_left (fun gg d => gset gg (fst d) (fst (snd d)) (snd (snd d))) gd g in
                          (* node._apply_subschema(); node.apply_defaults() for the globs just declared *)
                          rbind (fold_left (fun acc' d => rbind acc' (fun t'' =>
                                              match glook g' (fst d) with
                                              | Some x => apply_subschema t'' (fst d, x)
                                              | None => Ok t''
                                              end)) gd (Ok t')) (fun t'' => Ok (t'', g')))))))
                   ps (Ok (Nd [], [])))
        (fun tg =>
           let '(t, g) := tg in
           rbind (fold_left (fun acc gl => rbind acc (fun t' => apply_subschema t' gl)) g (Ok t)) (fun t1 =>
           rbind (set_value (S (tsize init)) g [] (Some t1) init) (fun r =>
             match r with
             | Some t2 => Ok (apply_defaults t2, g)
             | None => Err EOther
             end))).
