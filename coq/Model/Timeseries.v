(* Model of vivarium/core/emitter.py (timeseries_from_data, path_timeseries_from_data,
   path_timeseries_from_embedded_timeseries, RAMEmitter.get_data(query)) and
   vivarium/library/dict_utils.py (value_in_embedded_dict, make_path_dict). *)
From Coq Require Import List NArith ZArith Bool.
From Viv Require Import Base.Assoc Base.Tree Model.Paths.
Import ListNotations.

(* emitted leaf values: ints, bools, interned strings (0 = the empty string), lists of ints,
   None, and quantities (integer magnitude, interned unit string) *)
Inductive lv :=
| LZ (z : Z) | LB (b : bool) | LS (s : N) | LL (l : list Z) | LNone | LQ (m : Z) (u : N).

Definition lv_eqb (a b : lv) : bool :=
  match a, b with
  | LZ x, LZ y => Z.eqb x y
  | LB x, LB y => Bool.eqb x y
  | LS x, LS y => N.eqb x y
  | LL x, LL y => (fix go (p q : list Z) := match p, q with
                                            | [], [] => true
                                            | a :: p', b :: q' => Z.eqb a b && go p' q'
                                            | _, _ => false
                                            end) x y
  | LNone, LNone => true
  | LQ m u, LQ m' u' => Z.eqb m m' && N.eqb u u'
  | _, _ => false
  end.

(* Python truthiness of a leaf (the pinned get_data(query) filtered on it) *)
Definition truthy (v : lv) : bool :=
  match v with
  | LZ z => negb (Z.eqb z 0)
  | LB b => b
  | LS s => negb (N.eqb s 0)
  | LL l => match l with [] => false | _ => true end
  | LNone => false
  | LQ _ _ => true
  end.

(* the tuple key (key, unit_string) under which quantity columns are stored; the harness
   renders such keys with the same injection (interned ids stay below 50) *)
Definition unit_key (k : key) (u : N) : key := (1000 + 50 * k + u)%N.

Notation row := (tree lv).
Notation ets := (tree (list lv)).       (* embedded timeseries: leaves are columns *)

(* dict_utils.value_in_embedded_dict(data, timeseries) with time_index=None *)
Fixpoint vied (d : row) (ts : ets) : res ets :=
  match d with
  | Lf _ => Err EOther
  | Nd dc =>
    match ts with
    | Lf _ => Err EOther
    | Nd tc =>
      (fix go (dc : list (key * row)) (tc : list (key * ets)) : res ets :=
         match dc with
         | [] => Ok (Nd tc)
         | (k, v) :: r =>
           match v with
           | Nd _ =>
             let cur := match alookup k tc with Some s => s | None => Nd [] end in
             match vied v cur with
             | Ok s' => go r (aset k s' tc)
             | Err e => Err e
             end
           | Lf x =>
             let k' := match x with LQ _ u => unit_key k u | _ => k end in
             let y := match x with LQ m _ => LZ m | _ => x end in
             match alookup k' tc with
             | None => go r (aset k' (Lf [y]) tc)
             | Some (Lf col) => go r (aset k' (Lf (col ++ [y])) tc)
             | Some (Nd _) => Err EOther
             end
           end
         end) dc tc
    end
  end.

(* emitter.timeseries_from_data: (time vector, embedded timeseries without the 'time' key) *)
Definition timeseries_from_data (data : list (Z * row)) : res (list Z * ets) :=
  match fold_left (fun acc tr => rbind acc (fun ts => vied (snd tr) ts)) data (Ok (Nd [])) with
  | Ok ts => Ok (map fst data, ts)
  | Err e => Err e
  end.

(* dict_utils.make_path_dict: {path: column} in dict order *)
Definition make_path_dict (e : ets) : list (list key * list lv) := dict_to_paths [] e.

Definition path_timeseries_from_data (data : list (Z * row)) : res (list Z * list (list key * list lv)) :=
  rbind (timeseries_from_data data) (fun te => Ok (fst te, make_path_dict (snd te))).

(* RAMEmitter.get_data(query) for one saved row (repaired: presence test) *)
Definition query_pairs (r : row) (q : list (list key)) : res (list (list key * row)) :=
  fold_right (fun p acc =>
                rbind acc (fun l =>
                  match get_in r p with
                  | Ok (Some v) => Ok ((p, v) :: l)
                  | Ok None => Ok l
                  | Err e => Err e
                  end)) (Ok []) q.

Definition query_row (r : row) (q : list (list key)) : res row :=
  rbind (query_pairs r q) paths_to_dict.

Definition get_data_query (data : list (Z * row)) (q : list (list key)) : list (Z * res row) :=
  map (fun tr => (fst tr, query_row (snd tr) q)) data.

(* pinned tree: `if datum:` *)
Definition row_truthy (v : row) : bool :=
  match v with Lf x => truthy x | Nd c => match c with [] => false | _ => true end end.

Definition query_pairs_pinned (r : row) (q : list (list key)) : res (list (list key * row)) :=
  fold_right (fun p acc =>
                rbind acc (fun l =>
                  match get_in r p with
                  | Ok (Some v) => if row_truthy v then Ok ((p, v) :: l) else Ok l
                  | Ok None => Ok l
                  | Err e => Err e
                  end)) (Ok []) q.

Definition query_row_pinned (r : row) (q : list (list key)) : res row :=
  rbind (query_pairs_pinned r q) paths_to_dict.
