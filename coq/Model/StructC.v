(* The concrete "compartment kit" used by the correspondence check of the structure family:
   a compartment holds a counting process `cnt` (variable s.n, divider split), optionally a
   legacy deriver `drv` (s.d), optionally two flow steps `fst` (s.f) and `fst2` (s.g, depends
   on fst).  Colonies are glob nodes whose sub-schema declares s.n. *)
From Coq Require Import List NArith ZArith Bool.
From Viv Require Import Base.Assoc Base.Tree Model.Paths Model.Steps Model.Struct.
Import ListNotations.

(* interned names: 0 's', 1 'n', 2 'd', 3 'f', 4 'g', 5 'cnt', 6 'drv', 7 'fst', 8 'fst2' *)
Definition kS := 0%N. Definition kN := 1%N. Definition kD := 2%N. Definition kF := 3%N.
Definition kG := 4%N. Definition kCnt := 5%N. Definition kDrv := 6%N. Definition kFst := 7%N.
Definition kFst2 := 8%N.

(* sub-schema instance of a colony: {'s': {'n': default 0, divider split}} *)
Definition mk_child (u : N) : cnode * N :=
  (CDir u false [(kS, CDir (u + 1) false [(kN, CVar (u + 2) 0 DSplit)])], (u + 3)%N).

(* kind: bit 0 = deriver, bit 1 = the two flow steps, bit 2 = inert (no process at all: 'processes': {}),
   bit 3 = without the counting process (a compartment that holds only steps) *)
Definition has_drv (kind : N) : bool := N.testbit kind 0.
Definition has_flow (kind : N) : bool := N.testbit kind 1.
Definition is_inert (kind : N) : bool := N.testbit kind 2.
Definition no_cnt (kind : N) : bool := N.testbit kind 3.       (* bit 3: no counting process (steps only) *)

Definition build (kind : N) (u : N) : cnode * N :=
  if is_inert kind then
    (* a compartment listed with empty processes / steps / topology: the colony's sub-schema instance only *)
    (CDir u false [(kS, CDir (u + 1) false [(kN, CVar (u + 2) 0 DSplit)])], (u + 3)%N)
  else
  let vars := [(kN, CVar (u + 2) 0 DSplit)]
              ++ (if has_drv kind then [(kD, CVar (u + 3) 0 DSet)] else [])
              ++ (if has_flow kind then [(kF, CVar (u + 4) 0 DSet); (kG, CVar (u + 5) 0 DSet)] else []) in
  let nodes := (if no_cnt kind then []
                else [(kCnt, CProc (u + 6) {| pi_step := false; pi_in_steps := false; pi_flow := None; pi_obj := (u + 7)%N |})])
               ++ [(kS, CDir (u + 1) false vars)]
               ++ (if has_drv kind
                   then [(kDrv, CProc (u + 8) {| pi_step := true; pi_in_steps := false; pi_flow := None; pi_obj := (u + 9)%N |})] else [])
               ++ (if has_flow kind
                   then [(kFst, CProc (u + 10) {| pi_step := true; pi_in_steps := true; pi_flow := Some []; pi_obj := (u + 11)%N |});
                         (kFst2, CProc (u + 12) {| pi_step := true; pi_in_steps := true; pi_flow := Some [[Dn kFst]]; pi_obj := (u + 13)%N |})]
                   else []) in
  (CDir u false nodes, (u + 14)%N).

(* a daughter that inherits: deepcopy of the mother's get_processes() -- which excludes every Step --
   generated with the mother's topology: only `cnt` and the variable it declares *)
Definition copy_procs (m : cnode) (u : N) : cnode * N :=
  match alookup kCnt (cchildren m) with
  | Some (CProc _ _) =>
    (CDir u false [(kCnt, CProc (u + 3) {| pi_step := false; pi_in_steps := false; pi_flow := None; pi_obj := (u + 4)%N |});
                   (kS, CDir (u + 1) false [(kN, CVar (u + 2) 0 DSplit)])], (u + 5)%N)
  | _ => mk_child u          (* a mother without processes: only the colony's sub-schema instance *)
  end.

Definition kapply_ops := apply_ops mk_child N build copy_procs.
Definition kbook_apply := book_apply.
Definition kengine_apply := engine_apply.
Definition kbook_apply_pinned := book_apply_pinned.
