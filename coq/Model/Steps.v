(* Model of the step machinery of vivarium/core/engine.py: _StepGraph (add, add_sequential,
   remove, _validate, get_execution_layers), Engine._add_step_path,
   Engine._validate_steps_and_flow and Engine.run_steps.  networkx is replaced by explicit
   node and edge lists; topological generations by peeling zero-in-degree nodes. *)
From Coq Require Import List NArith ZArith Bool.
From Viv Require Import Base.Assoc Base.Tree Model.Paths.
Import ListNotations.

Definition node := list seg.          (* a hierarchy path; normalised paths contain no Up *)

Definition seg_ltb (a b : seg) : bool :=
  match a, b with
  | Up, Up => false
  | Up, Dn _ => true                   (* '..' sorts before every name the harness uses *)
  | Dn _, Up => false
  | Dn x, Dn y => N.ltb x y
  end.

(* tuple comparison: element-wise, then by length *)
Fixpoint node_ltb (a b : node) : bool :=
  match a, b with
  | [], [] => false
  | [], _ :: _ => true
  | _ :: _, [] => false
  | x :: a', y :: b' => seg_ltb x y || (seg_eqb x y && node_ltb a' b')
  end.

Fixpoint node_eqb (a b : node) : bool :=
  match a, b with
  | [], [] => true
  | x :: a', y :: b' => seg_eqb x y && node_eqb a' b'
  | _, _ => false
  end.

Definition nmem (n : node) (l : list node) : bool := existsb (node_eqb n) l.

Record sgraph := {
  seq : list node;                    (* _sequential_steps, in arrival order *)
  gnodes : list node;                 (* graph nodes, in insertion order *)
  gedges : list (node * node)         (* (dependency, step) *)
}.

Definition empty_graph : sgraph := {| seq := []; gnodes := []; gedges := [] |}.

(* nodes of `rem` with no incoming edge from a node of `rem` *)
Definition zero_in (rem : list node) (edges : list (node * node)) : list node :=
  filter (fun n => negb (existsb (fun e => node_eqb (snd e) n && nmem (fst e) rem) edges)) rem.

(* topological generations; None when a cycle blocks the peeling *)
Fixpoint gens (fuel : nat) (rem : list node) (edges : list (node * node)) : option (list (list node)) :=
  match rem with
  | [] => Some []
  | _ =>
    match fuel with
    | O => None
    | S f =>
      let z := zero_in rem edges in
      match z with
      | [] => None
      | _ => match gens f (filter (fun n => negb (nmem n z)) rem) edges with
             | Some r => Some (z :: r)
             | None => None
             end
      end
    end
  end.

Definition generations (g : sgraph) : option (list (list node)) :=
  gens (length (gnodes g)) (gnodes g) (gedges g).

(* sorted(layer) *)
Fixpoint nins (n : node) (l : list node) : list node :=
  match l with
  | [] => [n]
  | x :: r => if node_ltb n x then n :: x :: r else x :: nins n r
  end.
Definition nsort (l : list node) : list node := fold_left (fun acc n => nins n acc) l [].

(* _validate: DAG, and no step both sequential and in the graph *)
Definition validate (g : sgraph) : res sgraph :=
  match generations g with
  | None => Err ECycle
  | Some _ => if existsb (fun n => nmem n (seq g)) (gnodes g) then Err EOverlap else Ok g
  end.

Definition add_node (n : node) (l : list node) : list node := if nmem n l then l else l ++ [n].
Definition add_edge (e : node * node) (l : list (node * node)) : list (node * node) :=
  if existsb (fun x => node_eqb (fst x) (fst e) && node_eqb (snd x) (snd e)) l then l else l ++ [e].

(* _StepGraph.add: add_node(path); add_edge(dependency, path) creates missing dependency nodes *)
Definition graph_add (g : sgraph) (path : node) (deps : list node) : res sgraph :=
  let ns := fold_left (fun acc d => add_node path (add_node d acc)) deps (add_node path (gnodes g)) in
  let es := fold_left (fun acc d => add_edge (d, path) acc) deps (gedges g) in
  validate {| seq := seq g; gnodes := ns; gedges := es |}.

Definition graph_add_sequential (g : sgraph) (path : node) : res sgraph :=
  validate {| seq := seq g ++ [path]; gnodes := gnodes g; gedges := gedges g |}.

(* Engine._add_step_path: dependencies are relative to the step's parent *)
Definition add_step_path (g : sgraph) (path : node) (deps : option (list (list seg))) : res sgraph :=
  match deps with
  | None => graph_add_sequential g path
  | Some ds => graph_add g path (map (fun d => normalize (path ++ [Up] ++ d)) ds)
  end.

(* descendants of n (fuel-bounded reachability along edges) *)
Fixpoint reach (fuel : nat) (edges : list (node * node)) (frontier seen : list node) : list node :=
  match fuel with
  | O => seen
  | S f =>
    let nxt := flat_map (fun n => map snd (filter (fun e => node_eqb (fst e) n) edges)) frontier in
    let fresh := filter (fun n => negb (nmem n seen)) nxt in
    match fresh with
    | [] => seen
    | _ => reach f edges fresh (fold_left (fun acc n => add_node n acc) fresh seen)
    end
  end.

Fixpoint remove_first (n : node) (l : list node) : list node :=
  match l with [] => [] | x :: r => if node_eqb x n then r else x :: remove_first n r end.

(* _StepGraph.remove *)
Definition graph_remove (g : sgraph) (path : node) : sgraph :=
  if nmem path (seq g) then {| seq := remove_first path (seq g); gnodes := gnodes g; gedges := gedges g |}
  else
    let dead := reach (length (gnodes g)) (gedges g) [path] [path] in
    {| seq := seq g;
       gnodes := filter (fun n => negb (nmem n dead)) (gnodes g);
       gedges := filter (fun e => negb (nmem (fst e) dead) && negb (nmem (snd e) dead)) (gedges g) |}.

(* get_execution_layers *)
Definition layers (g : sgraph) : list (list node) :=
  map (fun n => [n]) (seq g) ++
  match generations g with Some gs => map nsort gs | None => [] end.

(* Engine._validate_steps_and_flow: every dependency names an existing step.
   flow entries: (step path, relative dependencies); dependencies are taken relative to the
   step's parent WITHOUT normalisation here (as in the code: path + dependency) *)
Definition validate_flow (step_paths : list node) (flow : list (node * list (list seg))) : res unit :=
  if forallb (fun sf => forallb (fun d => nmem (removelast (fst sf) ++ d) step_paths) (snd sf)) flow
  then Ok tt else Err EUnknownDep.

(* ---------- run_steps ---------- *)
Section Phase.
Variables (Sg U : Type).
Variable step_fn : node -> Sg -> U.                              (* next_update(0, view of s) *)
Variable apply1 : Sg -> list node -> node -> U -> Sg * list node. (* apply one step update; may add/delete steps *)

Inductive sev := ERun (n : node) (s : Sg).

Fixpoint run_layers (ls : list (list node)) (s : Sg) (live : list node) (log : list sev)
  : Sg * list node * list sev :=
  match ls with
  | [] => (s, live, log)
  | l :: rest =>
    let running := filter (fun n => nmem n live) l in
    let us := map (fun n => (n, step_fn n s)) running in
    let '(s', live') := fold_left (fun acc nu => apply1 (fst acc) (snd acc) (fst nu) (snd nu)) us (s, live) in
    run_layers rest s' live' (log ++ map (fun n => ERun n s) running)
  end.

(* one step phase: layers are computed once, when the phase begins *)
Definition run_phase (g : sgraph) (s : Sg) (live : list node) : Sg * list node * list sev :=
  run_layers (layers g) s live [].

End Phase.
