(* Emit flags of two variables x, y of one branch under the ways a flag can be set
   (vivarium/core/store.py Store._apply_config, _apply_emit, set_emit_value, _pin_emit; vivarium/core/engine.py
   Engine.__init__ with store_schema):
   - a SCHEMA that arrives (the port schema of a process that enters later, a sub-schema re-applied) names a leaf
     (`{'x': {'_emit': b}}`) or the branch (`{'_emit': b}`): it sets the flag unless the flag is pinned;
   - an EXPLICIT request - Store.set_emit_value on a leaf or on the branch, Engine(store_schema=...) naming a leaf or
     the branch - sets the flag and pins it; a later explicit request replaces an earlier one.
   C12: "flags set through store_schema or a branch-level _emit act on the whole branch"; the rows contain exactly the
   flagged variables (Model/Emit.v), so a flag that flips without anybody asking changes the rows in mid-history. *)
From Coq Require Import List Bool.
Import ListNotations.

Record leaf := { emit : bool; pinned : bool }.

Inductive target := TX | TY | TBranch.

Inductive fop :=
| Schema (t : target) (b : bool)          (* Store._apply_config of a schema that arrives later *)
| SetEmit (t : target) (b : bool)         (* Store.set_emit_value *)
| StoreSchema (t : target) (b : bool).    (* Engine(store=..., store_schema=...) *)

Definition by_schema (l : leaf) (b : bool) : leaf :=
  if pinned l then l else {| emit := b; pinned := false |}.
Definition by_request (l : leaf) (b : bool) : leaf := {| emit := b; pinned := l.(pinned) || true |}.

Definition on (t : target) (f : leaf -> leaf) (s : leaf * leaf) : leaf * leaf :=
  match t with
  | TX => (f (fst s), snd s)
  | TY => (fst s, f (snd s))
  | TBranch => (f (fst s), f (snd s))
  end.

Definition fstep (s : leaf * leaf) (o : fop) : leaf * leaf :=
  match o with
  | Schema t b => on t (fun l => by_schema l b) s
  | SetEmit t b | StoreSchema t b => on t (fun l => by_request l b) s
  end.

Definition frun (s : leaf * leaf) (ops : list fop) : leaf * leaf := fold_left fstep ops s.

(* the pinned code (before repair 94bce2c): nothing was pinned, every schema that arrived set the flag *)
Definition fstep_pinned_code (s : leaf * leaf) (o : fop) : leaf * leaf :=
  match o with
  | Schema t b | SetEmit t b | StoreSchema t b => on t (fun l => {| emit := b; pinned := false |}) s
  end.
Definition frun_pinned_code (s : leaf * leaf) (ops : list fop) : leaf * leaf := fold_left fstep_pinned_code ops s.

(* does the operation concern the variable? *)
Definition touches (t : target) (x : bool) : bool :=
  match t with TX => x | TY => negb x | TBranch => true end.
Definition is_request (o : fop) : bool := match o with Schema _ _ => false | _ => true end.
Definition op_target (o : fop) : target := match o with Schema t _ | SetEmit t _ | StoreSchema t _ => t end.
Definition op_value (o : fop) : bool := match o with Schema _ b | SetEmit _ b | StoreSchema _ b => b end.
Definition pick (x : bool) (s : leaf * leaf) : leaf := if x then fst s else snd s.
