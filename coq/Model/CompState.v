(* Model of Composite.initial_state() / default_state() (vivarium/core/composer.py: _get_composite_state,
   _get_composite_state_recur): every process supplies its own state in port terms; it is brought to absolute
   store terms by inverse_topology(parent path, own state, topology, multi_updates=False) - the same walk as
   Model/Wire.v inv_topo, but every placement is deep_merge (dicts) / overwrite (scalars) - and the results are
   deep-merged in the order the processes are visited; the composite's explicit state is merged last.
   Definitions only; proofs in Proofs/CompState_proofs.v. *)
From Coq Require Import List NArith ZArith Bool.
From Viv Require Import Base.Assoc Base.Tree Model.Paths Model.Wire.
Import ListNotations.

(* inverse_topology with multi_updates=False *)
Fixpoint inv_topo_nm (skip_path : bool) (outer : list seg) (value : utree) (path : topo)
         (inverse : list (key * utree)) {struct path} : res (list (key * utree)) :=
  match path with
  | TPath p => rbind (abs_keys (normalize (outer ++ p))) (fun inner => place_mode 2 inverse inner value)
  | TDict p' c' =>
    match value with
    | UD cu =>
      let p'' := if skip_path then None else p' in
      let inner := match p'' with Some q => normalize (outer ++ q) | None => outer end in
      let listed : res (list (key * utree)) :=
        (fix go (c : list (pkey * topo)) (inv : list (key * utree)) : res (list (key * utree)) :=
           match c with
           | [] => Ok inv
           | (PK k, sub) :: r =>
             match alookup k cu with
             | Some v => match inv_topo_nm false inner v sub inv with
                         | Ok inv' => go r inv'
                         | Err e => Err e
                         end
             | None => go r inv
             end
           | (PStar, sub) :: r =>
             let stepped : res (list (key * utree)) :=
               match sub with
               | TPath p =>
                 fold_left (fun acc kv =>
                              rbind acc (fun inv0 =>
                                rbind (abs_keys (normalize (inner ++ p ++ [Dn (fst kv)]))) (fun tgt =>
                                  place_mode 2 inv0 tgt (snd kv)))) cu (Ok inv)
               | TDict q'' _ =>
                 let inner2 := match q'' with Some q => normalize (inner ++ q) | None => inner end in
                 fold_left (fun acc kv =>
                              rbind acc (fun inv0 => inv_topo_nm true (inner2 ++ [Dn (fst kv)]) (snd kv) sub inv0))
                           cu (Ok inv)
               end in
             match stepped with Ok inv' => go r inv' | Err e => Err e end
           end) c' inverse in
      match p'', has_star c' with
      | Some _, false =>
        rbind listed (fun inv =>
          fold_left (fun acc kv =>
                       rbind acc (fun inv0 =>
                         match plook (PK (fst kv)) c' with
                         | Some _ => Ok inv0
                         | None => rbind (abs_keys (normalize (inner ++ [Dn (fst kv)]))) (fun tgt =>
                                     place_mode 2 inv0 tgt (snd kv))
                         end)) cu (Ok inv))
      | _, _ => listed
      end
    | _ => Err EOther
    end
  end.

Definition invert_nm (outer : list key) (own : list (key * utree)) (tp : list (pkey * topo))
  : res (list (key * utree)) :=
  inv_topo_nm false (dn outer) (UD own) (TDict None tp) [].

(* deep_merge(dct, merge_dct): nested dicts merged, everything else replaced by the later value *)
Definition deep_merge_u (a b : list (key * utree)) : list (key * utree) :=
  dmmu false (usize (UD a) + usize (UD b)) a b.

(* one process: where it sits, what it supplies (port terms), its topology *)
Record cproc := { cp_parent : list key; cp_own : list (key * utree); cp_topo : list (pkey * topo) }.

(* processes in the order _get_composite_state_recur visits them; `state`: the composite's explicit state
   (merged with the config's initial_state by the caller) *)
Definition composite_state (ps : list cproc) (state : list (key * utree)) : res (list (key * utree)) :=
  rbind (fold_left (fun acc p =>
                      rbind acc (fun st =>
                        rbind (invert_nm (cp_parent p) (cp_own p) (cp_topo p)) (fun sub =>
                          Ok (deep_merge_u st sub))))
                   ps (Ok []))
        (fun st => Ok (deep_merge_u st state)).
