(* Model of vivarium/core/registry.py updater functions (update_accumulate, update_set,
   update_null, update_merge [repaired], update_nonnegative_accumulate, update_dictionary),
   Store._get_updater and the value part of Store.apply_update (leaf branch,
   _multi_update, per-update _updater/_value, units normalisation, recursion through
   branches).  Structural keys (_add, _delete, ...) are Model/Struct.v's business. *)
From Coq Require Import List NArith ZArith Bool.
From Viv Require Import Base.Assoc Base.Tree Model.Paths.
Import ListNotations.
Open Scope Z_scope.

(* ---------- values ---------- *)
(* quantities: integer magnitude m in a unit that is `scale` base units (mg=1, g=1000, ...) *)
Inductive uval :=
| UZ (z : Z)
| UList (l : list Z)            (* Python list: + is concatenation *)
| UArr (l : list Z)             (* numpy integer array: + is element-wise *)
| UDict (d : tree Z)            (* nested dict with int leaves *)
| UQty (m : Z) (scale : Z)
| UNone.

Inductive updname := Accumulate | Set_ | Null | Merge | NonnegAccumulate | DictValue
                   | UserSub | UserMax.     (* two user-supplied functions used by the harness *)

(* ---------- updater functions ---------- *)

Fixpoint zip_add (a b : list Z) : option (list Z) :=
  match a, b with
  | [], [] => Some []
  | x :: a', y :: b' => match zip_add a' b' with Some r => Some ((x + y) :: r) | None => None end
  | _, _ => None
  end.

(* current + new *)
Definition py_add (v u : uval) : res uval :=
  match v, u with
  | UZ a, UZ b => Ok (UZ (a + b))
  | UList a, UList b => Ok (UList (a ++ b))
  | UArr a, UArr b => match zip_add a b with Some r => Ok (UArr r) | None => Err EOther end
  | UArr a, UZ b => Ok (UArr (map (fun x => x + b) a))
  | UZ a, UArr b => Ok (UArr (map (fun x => a + x) b))
  | UQty m s, UQty m' s' =>
      (* pint: result in the units of the left operand; exact when s divides s' *)
      if (0 <? s) && (Z.eqb (s' mod s) 0) then Ok (UQty (m + m' * (s' / s)) s) else Err EOther
  | _, _ => Err EOther
  end.

(* update_merge (repaired): update = current.copy(); for k, new in new_value.items():
     v = update.get(k); both dicts -> deep_merge(deepcopy(v), new) else new *)
Definition merge_dict (cur new : list (key * tree Z)) : list (key * tree Z) :=
  fold_left (fun acc kn =>
               match alookup (fst kn) acc, snd kn with
               | Some (Nd vc), Nd nc => aset (fst kn) (deep_merge (Nd vc) (Nd nc)) acc
               | _, n => aset (fst kn) n acc
               end) new cur.

(* update_merge on the pinned tree: iterates the *current* keys *)
Definition merge_dict_pinned (cur new : list (key * tree Z)) (none : tree Z) : list (key * tree Z) :=
  map (fun kv => match alookup (fst kv) new with
                 | Some (Nd nc) => (fst kv, match snd kv with
                                            | Nd vc => deep_merge (Nd vc) (Nd nc)
                                            | Lf _ => Nd nc    (* deep_merge(int, dict) would raise; unused *)
                                            end)
                 | Some n => (fst kv, n)
                 | None => (fst kv, none)
                 end) cur.

(* update_dictionary: operations in the update's key order *)
Inductive dvop :=
| DAdd (l : list (key * tree Z))       (* "_add": [{"key": k, "state": s}, ...] *)
| DDel (l : list key)                  (* "_delete": [k, ...] *)
| DKey (k : key) (v : list (key * tree Z)).   (* k: {...} -> result[k].update(v) *)

Definition dv_step (acc : res (list (key * tree Z))) (op : dvop) : res (list (key * tree Z)) :=
  rbind acc (fun d =>
    match op with
    | DAdd l => Ok (fold_left (fun a kv => aset (fst kv) (snd kv) a) l d)
    | DDel l => fold_left (fun a k => rbind a (fun a' =>
                             match alookup k a' with Some _ => Ok (aremove k a') | None => Err EKeyError end))
                          l (Ok d)
    | DKey k v =>
      match alookup k d with
      | Some (Nd c) => Ok (aset k (Nd (fold_left (fun a kv => aset (fst kv) (snd kv) a) v c)) d)
      | Some (Lf _) => Err EOther
      | None => Err EOther           (* "Invalid dict_value_updater key" *)
      end
    end).

(* the update of a dict_value variable, as a dict: special keys and plain keys, in order *)
Inductive dvupd := DV (ops : list dvop).

Definition apply_updater (f : updname) (v u : uval) : res uval :=
  match f with
  | Accumulate => py_add v u
  | Set_ => Ok u
  | Null => Ok v
  | Merge => match v, u with
             | UDict (Nd c), UDict (Nd n) => Ok (UDict (Nd (merge_dict c n)))
             | _, _ => Err EOther
             end
  | NonnegAccumulate =>
      match py_add v u with
      | Ok (UZ s) => Ok (UZ (if 0 <=? s then s else 0))
      | Ok (UArr l) => Ok (UArr (map (fun x => if x <? 0 then 0 else x) l))
      | Ok (UQty m s) => Ok (UQty (if 0 <=? m then m else 0) s)
      | Ok _ => Err EOther
      | Err e => Err e
      end
  | DictValue => Err EOther          (* handled by apply_dict_value: its update is not a uval *)
  | UserSub => match v, u with UZ a, UZ b => Ok (UZ (a - b)) | _, _ => Err EOther end
  | UserMax => match v, u with UZ a, UZ b => Ok (UZ (Z.max a b)) | _, _ => Err EOther end
  end.

Definition apply_dict_value (v : uval) (u : dvupd) : res uval :=
  match v, u with
  | UDict (Nd c), DV ops =>
      match fold_left dv_step ops (Ok c) with Ok c' => Ok (UDict (Nd c')) | Err e => Err e end
  | _, _ => Err EOther
  end.

(* ---------- store nodes and updates ---------- *)

Record decl := { d_updater : updname; d_units : option Z; d_default : uval }.

Inductive snode :=
| SLeaf (d : decl) (v : uval)
| SBranch (c : list (key * snode)).

(* an update as Store.apply_update sees it *)
Inductive upd :=
| UVal (u : uval)                                   (* a plain value for a leaf *)
| UDv (u : dvupd)                                   (* a dict_value-style dict for a leaf *)
| UWith (f : option updname) (x : option uval)      (* {'_updater': f, '_value': x} / {'_value': x} *)
| UMulti (l : list upd)                             (* {'_multi_update': [...]} *)
| UBranch (c : list (key * upd)).                   (* a dict addressed to a branch *)

(* units normalisation after a leaf update: value.to(self.units) *)
Definition to_units (units : option Z) (v : uval) : res uval :=
  match units, v with
  | None, _ => Ok v
  | Some du, UQty m s =>
      if (0 <? du) && (Z.eqb (s mod du) 0) then Ok (UQty (m * (s / du)) du) else Err EOther
  | Some _, _ => Err EOther            (* int.to(...) raises *)
  end.

(* leaf branch of Store.apply_update *)
Definition apply_leaf (d : decl) (v : uval) (u : upd) : res uval :=
  let run f x := rbind (apply_updater f v x) (to_units (d_units d)) in
  match u with
  | UVal x => match d_updater d with
              | DictValue => Err EOther
              | f => run f x
              end
  | UDv dv => match d_updater d with
              | DictValue => rbind (apply_dict_value v dv) (to_units (d_units d))
              | _ => Err EOther
              end
  | UWith (Some f) x => run f (match x with Some x' => x' | None => d_default d end)
  | UWith None (Some x) =>
      (* a dict carrying '_value' but no '_updater' is handed to the updater as it is:
         only meaningful for `set`; the harness does not produce it *)
      Err EOther
  | UWith None None => Err EOther
  | UMulti _ | UBranch _ => Err EOther   (* handled by apply_update *)
  end.

Fixpoint apply_update (s : snode) (u : upd) {struct u} : res snode :=
  match u with
  | UMulti l =>
      (fix go (l : list upd) (s : snode) : res snode :=
         match l with
         | [] => Ok s
         | x :: r => match apply_update s x with Ok s' => go r s' | Err e => Err e end
         end) l s
  | UBranch c =>
      match s with
      | SBranch sc =>
          (fix go (c : list (key * upd)) (sc : list (key * snode)) : res snode :=
             match c with
             | [] => Ok (SBranch sc)
             | (k, x) :: r =>
               match alookup k sc with
               | Some child => match apply_update child x with
                               | Ok child' => go r (aset k child' sc)
                               | Err e => Err e
                               end
               | None => go r sc           (* keys that are not children are ignored *)
               end
             end) c sc
      | SLeaf _ _ => Err EOther           (* the harness renders leaf updates as UVal/UDv/UWith *)
      end
  | _ =>
      match s with
      | SLeaf d v => match apply_leaf d v u with Ok v' => Ok (SLeaf d v') | Err e => Err e end
      | SBranch _ => Err EOther
      end
  end.

(* a batch of updates (Engine._send_updates applies them one after the other) *)
Definition apply_batch (s : snode) (us : list upd) : res snode :=
  fold_left (fun acc u => rbind acc (fun s' => apply_update s' u)) us (Ok s).

(* ---------- reading ---------- *)
Fixpoint snode_at (s : snode) (p : list key) : option snode :=
  match p with
  | [] => Some s
  | k :: r => match s with
              | SBranch c => match alookup k c with Some ch => snode_at ch r | None => None end
              | SLeaf _ _ => None
              end
  end.

Definition value_at (s : snode) (p : list key) : option uval :=
  match snode_at s p with Some (SLeaf _ v) => Some v | _ => None end.

Definition decl_at (s : snode) (p : list key) : option decl :=
  match snode_at s p with Some (SLeaf d _) => Some d | _ => None end.

(* the leaf-level updates u carries for leaf path p, in application order *)
Fixpoint updates_at (u : upd) (p : list key) {struct u} : list upd :=
  match u with
  | UMulti l => (fix go (l : list upd) : list upd :=
                   match l with [] => [] | x :: r => updates_at x p ++ go r end) l
  | UBranch c =>
      match p with
      | [] => []
      | k :: p' =>
        (fix find (c : list (key * upd)) : list upd :=
           match c with
           | [] => []
           | (k', x) :: r => if N.eqb k' k then updates_at x p' else find r
           end) c
      end
  | _ => match p with [] => [u] | _ => [] end
  end.
