(* Model of vivarium/core/composer.py: Composer.generate / Process.generate (embedding at a path
   with assoc_in), Composite.merge (union under a path; later entries win), and the contents of
   the five components of a Composite as nested dicts.  Leaves are interned objects: a Process
   instance, a port-path tuple, a dependency list, a state value. *)
From Coq Require Import List NArith ZArith Bool.
From Viv Require Import Base.Assoc Base.Tree Model.Paths.
Import ListNotations.

Notation dtree := (tree N).

Record comp := { c_processes : dtree; c_topology : dtree; c_steps : dtree; c_flow : dtree; c_state : dtree }.

Definition empty_comp : comp :=
  {| c_processes := Nd []; c_topology := Nd []; c_steps := Nd []; c_flow := Nd []; c_state := Nd [] |}.

(* Composer.generate(path=p): every component is assoc_in({}, p, component) *)
Definition embed1 (p : list key) (t : dtree) : res dtree := assoc_in (Nd []) p t.

Definition embed (p : list key) (c : comp) : res comp :=
  rbind (embed1 p (c_processes c)) (fun a =>
  rbind (embed1 p (c_topology c)) (fun b =>
  rbind (embed1 p (c_steps c)) (fun s =>
  rbind (embed1 p (c_flow c)) (fun f =>
  Ok {| c_processes := a; c_topology := b; c_steps := s; c_flow := f; c_state := Nd [] |})))).

(* Composite.merge, one component:
     merge_x = {}; merge_x.update(other[x]); deep_merge(merge_x, loose[x]);
     merge_x = assoc_in({}, path, merge_x); deep_merge(self.x, merge_x)        *)
Definition merge1 (self other loose : dtree) (path : list key) : res dtree :=
  rbind (embed1 path (deep_merge other loose)) (fun m => Ok (deep_merge self m)).

Definition merge (self other loose : comp) (path : list key) : res comp :=
  rbind (merge1 (c_processes self) (c_processes other) (c_processes loose) path) (fun a =>
  rbind (merge1 (c_topology self) (c_topology other) (c_topology loose) path) (fun b =>
  rbind (merge1 (c_steps self) (c_steps other) (c_steps loose) path) (fun s =>
  rbind (merge1 (c_flow self) (c_flow other) (c_flow loose) path) (fun f =>
  rbind (merge1 (c_state self) (c_state other) (c_state loose) path) (fun st =>
  Ok {| c_processes := a; c_topology := b; c_steps := s; c_flow := f; c_state := st |}))))).

(* a sequence of merges into an initially given composite *)
Definition merge_all (self : comp) (ms : list (comp * comp * list key)) : res comp :=
  fold_left (fun acc m => rbind acc (fun s => merge s (fst (fst m)) (snd (fst m)) (snd m))) ms (Ok self).

(* MetaComposer: overlapping top-level keys are rejected *)
Definition overlaps (a b : dtree) : bool :=
  existsb (fun k => amem k (children b)) (akeys (children a)).
