(* Model of the view cache of the engine (vivarium/core/engine.py: Engine._send_updates, Engine.run_steps,
   Engine.apply_update's view_expire flag; vivarium/core/store.py: Store.build_topology_views).

   Every process node caches a `topology_view`: a structure of REFERENCES to the store nodes its ports are
   wired to.  An invocation (Engine._process_state) reads the values through that cache.  The cache is rebuilt
   only when an applied update reports `view_expire`.  What the cache depends on is abstracted as `refs s`
   (the node structure of the store `s`); `app s u` is Engine.apply_update: the new store and the flag.

   Definitions only; proofs in Proofs/Views_proofs.v. *)
From Coq Require Import List Bool Arith.
Import ListNotations.

Record vvariant := {
  v_or_flags : bool;        (* view_expire = view_expire or view_expire_update (false: the last update decides) *)
  v_per_layer : bool        (* run_steps rebuilds after every layer (false: once, after all layers) *)
}.
Definition vcur := {| v_or_flags := true; v_per_layer := true |}.

Section Views.
Variables (S U R : Type).
Variable refs : S -> R.
Variable app : S -> U -> S * bool.
Variable vr : vvariant.

(* engine state as far as views go: the store and the reference structure the caches were built from *)
Record vst := { vs : S; vcache : R }.

(* what is observable: an invocation with the cache it reads and the structure of the store at that moment;
   an application with the flag it returned; a rebuild *)
Inductive vev :=
| VInvoke (cache now : R)
| VApply (expire : bool)
| VBuild.

(* the `for update in updates: view_expire = view_expire or self.apply_update(...)` loop *)
Fixpoint apply_all (us : list U) (s : S) (flag : bool) : S * bool * list vev :=
  match us with
  | [] => (s, flag, [])
  | u :: r =>
    let '(s1, e) := app s u in
    let '(s2, f2, ev) := apply_all r s1 (if v_or_flags vr then flag || e else e) in
    (s2, f2, VApply e :: ev)
  end.

Definition rebuild_if (flag : bool) (s : S) (cache : R) : R * list vev :=
  if flag then (refs s, [VBuild]) else (cache, []).

(* apply a batch, then rebuild if any update said so *)
Definition apply_batch (us : list U) (st : vst) : vst * list vev :=
  let '(s', flag, ev) := apply_all us (vs st) false in
  let '(c', ev2) := rebuild_if flag s' (vcache st) in
  ({| vs := s'; vcache := c' |}, ev ++ ev2).

(* one layer of run_steps: every step of the layer computes its update from the cached view and the current
   values (nothing is applied in between), then the updates are applied in order *)
Definition step_fn := R -> S -> U.

Definition run_layer (steps : list step_fn) (st : vst) : vst * bool * list vev :=
  let us := map (fun f => f (vcache st) (vs st)) steps in
  let inv := map (fun _ => VInvoke (vcache st) (refs (vs st))) steps in
  let '(s', flag, ev) := apply_all us (vs st) false in
  if v_per_layer vr then
    let '(c', ev2) := rebuild_if flag s' (vcache st) in
    ({| vs := s'; vcache := c' |}, false, inv ++ ev ++ ev2)
  else
    ({| vs := s'; vcache := vcache st |}, flag, inv ++ ev).

Fixpoint run_layers (layers : list (list step_fn)) (st : vst) (pending : bool) : vst * bool * list vev :=
  match layers with
  | [] => (st, pending, [])
  | l :: r =>
    let '(st1, f1, ev1) := run_layer l st in
    let '(st2, f2, ev2) := run_layers r st1 (pending || f1) in
    (st2, f2, ev1 ++ ev2)
  end.

Definition run_steps (layers : list (list step_fn)) (st : vst) : vst * list vev :=
  let '(st1, pending, ev) := run_layers layers st false in
  if v_per_layer vr then (st1, ev)
  else let '(c', ev2) := rebuild_if pending (vs st1) (vcache st1) in
       ({| vs := vs st1; vcache := c' |}, ev ++ ev2).

(* Engine._send_updates *)
Definition send_updates (us : list U) (layers : list (list step_fn)) (st : vst) : vst * list vev :=
  let '(st1, ev1) := apply_batch us st in
  let '(st2, ev2) := run_steps layers st1 in
  (st2, ev1 ++ ev2).

(* the processes polled in one pass of run_for read their caches; nothing is applied meanwhile *)
Definition poll_pass (procs : list step_fn) (st : vst) : list U * list vev :=
  (map (fun f => f (vcache st) (vs st)) procs,
   map (fun _ => VInvoke (vcache st) (refs (vs st))) procs).

(* a run: passes of polling, each followed by the application of the due updates and the step phase *)
Fixpoint run_passes (passes : list (list step_fn * list (list step_fn))) (st : vst) : vst * list vev :=
  match passes with
  | [] => (st, [])
  | (procs, layers) :: r =>
    let '(us, ev0) := poll_pass procs st in
    let '(st1, ev1) := send_updates us layers st in
    let '(st2, ev2) := run_passes r st1 in
    (st2, ev0 ++ ev1 ++ ev2)
  end.

End Views.

Arguments VInvoke {R} _ _.
Arguments VApply {R} _.
Arguments VBuild {R}.

(* events with the view contents erased: what an instrumented run of the real engine shows *)
Inductive sev := SInvoke | SApply (expire : bool) | SBuild.
Definition erase {R} (e : vev R) : sev :=
  match e with VInvoke _ _ => SInvoke | VApply b => SApply b | VBuild => SBuild end.
