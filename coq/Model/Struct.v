(* Model of the structural part of vivarium/core/store.py (Store.apply_update branch section and
   its operation order; add, move/add_node, insert, divide/divide_value, delete/_delete_path,
   set_value, get_processes/get_steps/get_topology/get_flow) and of the engine bookkeeping in
   vivarium/core/engine.py (Engine.apply_update, _delete_path, _add_process_path,
   _add_step_path) on a hierarchy whose nodes carry identities (uids). *)
From Coq Require Import List NArith ZArith Bool.
From Viv Require Import Base.Assoc Base.Tree Model.Paths Model.Steps.
Import ListNotations.

(* ---------- the hierarchy ---------- *)
Inductive divk := DSet | DSplit | DZero | DNoDivide.

(* a process / step node: is it a Step, its _flow (None: deriver or plain process), the identity of
   the Process object it holds *)
(* pi_in_steps: handed to generate in the `steps` dict (a Step listed in the `processes` dict is the
   deprecated way of declaring a deriver) *)
Record pinfo := { pi_step : bool; pi_in_steps : bool; pi_flow : option (list (list seg)); pi_obj : N }.

Inductive cnode :=
| CVar (uid : N) (v : Z) (d : divk)
| CProc (uid : N) (pi : pinfo)
| CDir (uid : N) (glob : bool) (c : list (key * cnode)).   (* glob: the node has a sub-schema *)

Definition cuid (n : cnode) : N := match n with CVar u _ _ | CProc u _ | CDir u _ _ => u end.
Definition cchildren (n : cnode) : list (key * cnode) := match n with CDir _ _ c => c | _ => [] end.

Fixpoint cget (t : cnode) (p : list key) : option cnode :=
  match p with
  | [] => Some t
  | k :: r => match t with
              | CDir _ _ c => match alookup k c with Some ch => cget ch r | None => None end
              | _ => None
              end
  end.

(* replace / insert the child at path p (parents must exist) *)
Fixpoint cset (t : cnode) (p : list key) (n : cnode) : res cnode :=
  match p with
  | [] => Ok n
  | k :: r =>
    match t with
    | CDir u g c =>
      match r with
      | [] => Ok (CDir u g (aset k n c))
      | _ => match alookup k c with
             | Some ch => rbind (cset ch r n) (fun ch' => Ok (CDir u g (aset k ch' c)))
             | None => Err EInvalidPath
             end
      end
    | _ => Err EInvalidPath
    end
  end.

Fixpoint cdel (t : cnode) (p : list key) : res cnode :=
  match p with
  | [] => Err EOther
  | [k] => match t with CDir u g c => Ok (CDir u g (aremove k c)) | _ => Err EInvalidPath end
  | k :: r =>
    match t with
    | CDir u g c => match alookup k c with
                    | Some ch => rbind (cdel ch r) (fun ch' => Ok (CDir u g (aset k ch' c)))
                    | None => Ok t
                    end
    | _ => Err EInvalidPath
    end
  end.

(* Store._establish_path(path, {}): walk down `p`, creating the missing directory nodes (fresh uids) *)
Fixpoint cestablish (t : cnode) (p : list key) (uid : N) : res (cnode * N) :=
  match p with
  | [] => Ok (t, uid)
  | k :: r =>
    match t with
    | CDir u g c =>
      match alookup k c with
      | Some ch => rbind (cestablish ch r uid) (fun x => Ok (CDir u g (aset k (fst x) c), snd x))
      | None => rbind (cestablish (CDir uid false []) r (N.succ uid))
                      (fun x => Ok (CDir u g (aset k (fst x) c), snd x))
      end
    | _ => Err EInvalidPath
    end
  end.

(* every (relative path, node) of the subtree, parents first, children in dict order (Store.depth) *)
Fixpoint cdepth (t : cnode) (pre : list key) : list (list key * cnode) :=
  (pre, t) ::
  match t with
  | CDir _ _ c => (fix go (c : list (key * cnode)) : list (list key * cnode) :=
                     match c with [] => [] | (k, ch) :: r => cdepth ch (pre ++ [k]) ++ go r end) c
  | _ => []
  end.

Definition proc_nodes (t : cnode) (pre : list key) : list (list key * pinfo) :=
  flat_map (fun pn => match snd pn with CProc _ pi => [(fst pn, pi)] | _ => [] end) (cdepth t pre).

(* ---------- Store.set_value ---------- *)
(* `mk_child`: the node a glob creates for an unknown key (its sub-schema instance) *)
Section WithKit.
Variable mk_child : N -> cnode * N.                 (* next uid -> (fresh sub-schema instance, next uid) *)
Variable D : Type.                                  (* description of a composite to generate *)
Variable build : D -> N -> cnode * N.               (* Store.generate at a fresh key: the subtree *)
Variable copy_procs : cnode -> N -> cnode * N.      (* a daughter inheriting the mother's processes (no steps) *)

Fixpoint set_value (fuel : nat) (n : cnode) (v : tree Z) (uid : N) : res (cnode * N) :=
  match fuel with
  | O => Err EFuel
  | S f =>
    match n, v with
    | CVar u _ d, Lf z => Ok (CVar u z d, uid)
    | CVar _ _ _, Nd _ => Err EOther
    | CProc _ _, _ => Ok (n, uid)                       (* self.value = value on a process node: not generated *)
    | CDir u g c, Nd vc =>
      rbind (fold_left (fun acc kv =>
                          rbind acc (fun cu =>
                            let '(c', uid') := cu in
                            match alookup (fst kv) c' with
                            | Some ch => rbind (set_value f ch (snd kv) uid') (fun r => Ok (aset (fst kv) (fst r) c', snd r))
                            | None =>
                              if g then
                                let '(ch, uid'') := mk_child uid' in
                                rbind (set_value f ch (snd kv) uid'') (fun r => Ok (aset (fst kv) (fst r) c', snd r))
                              else Ok (c', uid')
                            end)) vc (Ok (c, uid)))
            (fun cu => Ok (CDir u g (fst cu), snd cu))
    | CDir _ _ _, Lf _ => Err EOther
    end
  end.

Fixpoint tdepth (v : tree Z) : nat :=
  match v with
  | Lf _ => 1
  | Nd c => S ((fix go (c : list (key * tree Z)) : nat := match c with [] => 0 | (_, x) :: r => Nat.max (tdepth x) (go r) end) c)
  end.

(* ---------- Store.divide_value ---------- *)
(* `choices`: which side gets the remainder of each odd split, consumed in traversal order *)
Definition split_z (z : Z) (first_gets_rem : bool) : Z * Z :=
  let h := Z.div z 2 in let r := Z.modulo z 2 in
  if first_gets_rem then ((h + r)%Z, h) else (h, (h + r)%Z).

(* pinned: half = int(state / 2) (truncation toward zero of a float quotient) *)
Definition split_z_pinned (z : Z) (first_gets_rem : bool) : Z * Z :=
  let h := Z.quot z 2 in let r := Z.modulo z 2 in
  if first_gets_rem then ((h + r)%Z, h) else (h, (h + r)%Z).

Fixpoint divide_value (n : cnode) (choices : list bool) : option (tree Z * tree Z) * list bool :=
  match n with
  | CVar _ v DSet => (Some (Lf v, Lf v), choices)
  | CVar _ v DSplit =>
      let b := match choices with x :: _ => x | [] => true end in
      let '(a1, a2) := split_z v b in (Some (Lf a1, Lf a2), tl choices)
  | CVar _ v DZero => (Some (Lf 0%Z, Lf 0%Z), choices)
  | CVar _ v DNoDivide => (None, choices)             (* assert_no_divide raises: not generated *)
  | CProc _ _ => (None, choices)                      (* null divider: skipped *)
  | CDir _ _ c =>
    let '(l1, l2, ch) :=
      (fix go (c : list (key * cnode)) (choices : list bool) : list (key * tree Z) * list (key * tree Z) * list bool :=
         match c with
         | [] => ([], [], choices)
         | (k, x) :: r =>
           let '(dv, ch') := divide_value x choices in
           let '(r1, r2, ch'') := go r ch' in
           match dv with
           | Some (a, b) => ((k, a) :: r1, (k, b) :: r2, ch'')
           | None => (r1, r2, ch'')
           end
         end) c choices in
    (Some (Nd l1, Nd l2), ch)
  end.

(* ---------- reports ---------- *)
Record reports := {
  r_topology : list (list key);                      (* paths whose topology entry is (re)published *)
  r_process : list (list key * pinfo);
  r_step : list (list key * pinfo);
  r_flow : list (list key * option (list (list seg)));
  r_deletions : list (list key);
  r_expire : bool
}.
Definition no_reports : reports :=
  {| r_topology := []; r_process := []; r_step := []; r_flow := []; r_deletions := []; r_expire := false |}.
Definition rapp (a b : reports) : reports :=
  {| r_topology := r_topology a ++ r_topology b; r_process := r_process a ++ r_process b;
     r_step := r_step a ++ r_step b; r_flow := r_flow a ++ r_flow b;
     r_deletions := r_deletions a ++ r_deletions b; r_expire := r_expire a || r_expire b |}.

(* what Store.insert / divide report for a freshly generated subtree rooted at `root` *)
(* by_dict = true: Store.insert splits by the dict the object was listed in;
   false: Store.divide merges both dicts and splits by is_step() *)
Definition reports_generated (by_dict : bool) (sub : cnode) (root : list key) : reports :=
  let ps := proc_nodes sub root in
  let as_step pp := if by_dict then pi_in_steps (snd pp) else pi_step (snd pp) in
  {| r_topology := map fst ps;
     r_process := filter (fun pp => negb (as_step pp)) ps;
     r_step := filter as_step ps;
     r_flow := flat_map (fun pp => match pi_flow (snd pp) with Some f => [(fst pp, Some f)] | None => [] end) ps;
     r_deletions := []; r_expire := true |}.

(* ---------- structural operations on the directory node `here` ---------- *)
Inductive sop :=
| OpAdd (k : key) (state : tree Z)
| OpMove (source : key) (target : list key)          (* target: absolute path of the node the port leads to *)
| OpMoveP (source : list key) (target : list key)    (* '_move' whose source is a nested path (length >= 2) *)
| OpGenerate (k : key) (d : D) (init : tree Z)
| OpDivide (mother : key) (daughters : list (key * option D * tree Z)) (choices : list bool)
| OpDelete (k : key)
| OpDeletePath (p : list key)                        (* '_delete': [(k,)] -- a path tuple instead of a key *)
| OpUpd (k : key) (v : tree Z).                      (* a plain value update of the child k ("inner keys") *)

(* the mothers of the '_divide' operations of one update *)
Definition mothers (ops : list sop) : list key :=
  flat_map (fun o => match o with OpDivide m _ _ => [m] | _ => [] end) ops.

(* the order of application, given the mothers `ms` divided by the same update *)
Definition op_rank (ms : list key) (o : sop) : nat :=
  match o with
  | OpAdd _ _ => 0 | OpMove _ _ | OpMoveP _ _ => 1 | OpGenerate _ _ _ => 2
  | OpUpd k _ => if existsb (N.eqb k) ms then 3   (* the divided mother's own entry: just before '_divide' *)
                 else 5                           (* after the structural keys, before '_delete' *)
  | OpDivide _ _ _ => 4
  | OpDelete _ | OpDeletePath _ => 6
  end.

(* the pinned order (kept for the record): the entry of a divided mother came after '_divide', where it was
   silently dropped because she was no longer there *)
Definition op_rank_pinned (o : sop) : nat :=
  match o with OpAdd _ _ => 0 | OpMove _ _ | OpMoveP _ _ => 1 | OpGenerate _ _ _ => 2 | OpDivide _ _ _ => 3
             | OpUpd _ _ => 4                (* after the structural keys, before '_delete' *)
             | OpDelete _ | OpDeletePath _ => 5 end.

Record variant := { v_fix_move : bool; v_fix_flow : bool; v_fix_delete_path : bool }.
Definition vfixed := {| v_fix_move := true; v_fix_flow := true; v_fix_delete_path := false |}.
Definition vpinned := {| v_fix_move := false; v_fix_flow := false; v_fix_delete_path := false |}.
Variable vr : variant.

(* Store.apply_update of a plain value update below a child: every listed variable accumulates (the kit's
   variables that are updated this way use the default updater); keys that are not children are skipped *)
Fixpoint cadd (fuel : nat) (n : cnode) (v : tree Z) : res cnode :=
  match fuel with
  | O => Err EFuel
  | S f =>
    match n, v with
    | CVar u z d, Lf dz => Ok (CVar u (z + dz)%Z d)
    | CVar _ _ _, Nd _ => Err EOther
    | CProc _ _, _ => Ok n
    | CDir u g c, Nd vc =>
      rbind (fold_left (fun acc kv =>
                          rbind acc (fun c' =>
                            match alookup (fst kv) c' with
                            | Some ch => rbind (cadd f ch (snd kv)) (fun ch' => Ok (aset (fst kv) ch' c'))
                            | None => Ok c'
                            end)) vc (Ok c))
            (fun c' => Ok (CDir u g c'))
    | CDir _ _ _, Lf _ => Err EOther
    end
  end.

Definition dir_at (t : cnode) (here : list key) : res (N * bool * list (key * cnode)) :=
  match cget t here with
  | Some (CDir u g c) => Ok (u, g, c)
  | _ => Err EInvalidPath
  end.

Definition apply_op (t : cnode) (here : list key) (o : sop) (uid : N) : res (cnode * reports * N) :=
  rbind (dir_at t here) (fun ugc =>
    let '(u, g, c) := ugc in
    match o with
    | OpAdd k state =>
      match alookup k c with
      | Some _ => Err EDuplicate
      | None =>
        let '(ch, uid1) := if g then mk_child uid else (CDir uid false [], N.succ uid) in
        rbind (set_value (S (tdepth state)) ch state uid1) (fun r =>
        rbind (cset t (here ++ [k]) (fst r)) (fun t' =>
          Ok (t', {| r_topology := []; r_process := []; r_step := []; r_flow := [];
                     r_deletions := []; r_expire := true |}, snd r)))
      end
    | OpDelete k =>
      rbind (cdel t (here ++ [k])) (fun t' =>
        Ok (t', {| r_topology := []; r_process := []; r_step := []; r_flow := [];
                   r_deletions := [here ++ [k]]; r_expire := true |}, uid))
    | OpDeletePath p =>
      if v_fix_delete_path vr then
        rbind (cdel t (here ++ p)) (fun t' =>
          Ok (t', {| r_topology := []; r_process := []; r_step := []; r_flow := [];
                     r_deletions := [here ++ p]; r_expire := true |}, uid))
      else
        (* the tuple is wrapped in a tuple: nothing matches, nothing is deleted *)
        Ok (t, {| r_topology := []; r_process := []; r_step := []; r_flow := [];
                  r_deletions := []; r_expire := true |}, uid)
    | OpUpd k v =>
      match alookup k c with
      | None => Ok (t, {| r_topology := []; r_process := []; r_step := []; r_flow := [];
                          r_deletions := []; r_expire := false |}, uid)       (* `if key in self.inner` *)
      | Some ch =>
        rbind (cadd (S (tdepth v)) ch v) (fun ch' =>
        rbind (cset t (here ++ [k]) ch') (fun t' =>
          Ok (t', {| r_topology := []; r_process := []; r_step := []; r_flow := [];
                     r_deletions := []; r_expire := false |}, uid)))
      end
    | OpGenerate k d init =>
      let '(sub, uid1) := build d uid in
      rbind (set_value (S (tdepth init)) sub init uid1) (fun r =>
      rbind (cset t (here ++ [k]) (fst r)) (fun t' =>
        Ok (t', reports_generated true (fst r) (here ++ [k]), snd r)))
    | OpMove source target =>
      match alookup source c with
      | None => Err EInvalidPath
      | Some node =>
        match cget t (target ++ [source]) with
        | Some _ => Err EOther          (* target already holds that key: merged as an update; not generated *)
        | None =>
          rbind (cdel t (here ++ [source])) (fun t1 =>
          rbind (cset t1 (target ++ [source]) node) (fun t2 =>
            let ps := proc_nodes node (target ++ [source]) in
            Ok (t2, {| r_topology := map fst ps;
                       r_process := if v_fix_move vr then filter (fun pp => negb (pi_step (snd pp))) ps else ps;
                       r_step := filter (fun pp => pi_step (snd pp)) ps;
                       r_flow := flat_map (fun pp => if pi_step (snd pp) then [(fst pp, pi_flow (snd pp))] else []) ps;
                       r_deletions := [here ++ [source]]; r_expire := true |}, uid)))
        end
      end
    | OpMoveP source target =>
      (* Store.move with a nested source: add_node establishes the leading part of the source path under the
         target and attaches the node at the same relative path; then the source is deleted *)
      match source with
      | [] => Err EInvalidPath
      | _ :: _ =>
        match cget t (here ++ source), cget t target with
        | None, _ | _, None => Err EInvalidPath      (* get_path raises for a missing source / target node *)
        | Some node, Some _ =>
          match cget t (target ++ source) with
          | Some _ => Err EOther        (* the target already holds that path: merged as an update; not generated *)
          | None =>
            rbind (cestablish t (target ++ removelast source) uid) (fun tu =>
            rbind (cset (fst tu) (target ++ source) node) (fun t1 =>
            rbind (cdel t1 (here ++ source)) (fun t2 =>
              let ps := proc_nodes node (target ++ source) in
              Ok (t2, {| r_topology := map fst ps;
                         r_process := filter (fun pp => negb (pi_step (snd pp))) ps;
                         r_step := filter (fun pp => pi_step (snd pp)) ps;
                         r_flow := flat_map (fun pp => if pi_step (snd pp) then [(fst pp, pi_flow (snd pp))] else []) ps;
                         r_deletions := [here ++ source]; r_expire := true |}, snd tu))))
          end
        end
      end
    | OpDivide mother daughters choices =>
      match alookup mother c with
      | None => Err EKeyError
      | Some m =>
        let dv := fst (divide_value m choices) in
        let states : list (tree Z) :=
          match dv with Some (a, b) => [a; b] | None => [] end in
        rbind
          ((fix go (ds : list (key * option D * tree Z)) (sts : list (tree Z)) (t : cnode) (rp : reports) (uid : N)
              : res (cnode * reports * N) :=
              match ds, sts with
              | (dk, dd, dinit) :: ds', st :: sts' =>
                let '(sub, uid1) := match dd with Some d => build d uid | None => copy_procs m uid end in
                (* merged_initial_state = deep_merge(divided state, explicit initial state) *)
                let merged := deep_merge st dinit in
                rbind (set_value (S (tdepth merged)) sub merged uid1) (fun r =>
                rbind (cset t (here ++ [dk]) (fst r)) (fun t' =>
                  let rg := reports_generated false (fst r) (here ++ [dk]) in
                  (* inheriting daughters: flow and topology entries are the mother's, including those
                     of steps that were not copied *)
                  let rg' := match dd with
                             | Some _ =>
                               (* `if 'flow' in daughter and daughter['flow']` else the mother's flow is copied:
                                  a daughter that brings no flow publishes the mother's (known finding K6) *)
                               match r_flow rg with
                               | _ :: _ => rg
                               | [] =>
                                 let mp := proc_nodes m (here ++ [dk]) in
                                 {| r_topology := r_topology rg; r_process := r_process rg; r_step := r_step rg;
                                    r_flow := flat_map (fun pp => match pi_flow (snd pp) with
                                                                  | Some f => [(fst pp, Some f)] | None => [] end) mp;
                                    r_deletions := []; r_expire := true |}
                               end
                             | None =>
                               let mp := proc_nodes m (here ++ [dk]) in
                               {| r_topology := map fst mp; r_process := r_process rg; r_step := r_step rg;
                                  r_flow := flat_map (fun pp => match pi_flow (snd pp) with
                                                                | Some f => [(fst pp, Some f)] | None => [] end) mp;
                                  r_deletions := []; r_expire := true |}
                             end in
                  go ds' sts' t' (rapp rp rg') (snd r)))
              | _, _ => Ok (t, rp, uid)            (* zip stops at the shorter list *)
              end) daughters states t no_reports uid)
          (fun tru =>
             let '(t', rp, uid') := tru in
             rbind (cdel t' (here ++ [mother])) (fun t'' =>
               Ok (t'', rapp rp {| r_topology := []; r_process := []; r_step := []; r_flow := [];
                                   r_deletions := [here ++ [mother]]; r_expire := true |}, uid')))
      end
    end).

(* one update dict carrying several operations for the node `here`: _add, _move, _generate, _divide,
   (inner keys: handled by the caller), _delete -- whatever the order of the keys in the dict *)
(* the entry of a child that the same update divides is applied just before '_divide', while she is still
   there; the entries of the other children after it *)
Fixpoint insert_op (ms : list key) (o : sop) (l : list sop) : list sop :=
  match l with
  | [] => [o]
  | x :: r => if Nat.ltb (op_rank ms o) (op_rank ms x) then o :: x :: r else x :: insert_op ms o r
  end.
Definition order_ops (ops : list sop) : list sop :=
  let ms := mothers ops in fold_left (fun acc o => insert_op ms o acc) ops [].

Definition apply_ops (t : cnode) (here : list key) (ops : list sop) (uid : N) : res (cnode * reports * N) :=
  fold_left (fun acc o =>
               rbind acc (fun tru =>
                 let '(t', rp, uid') := tru in
                 rbind (apply_op t' here o uid') (fun tru' =>
                   let '(t'', rp', uid'') := tru' in Ok (t'', rapp rp rp', uid''))))
            (order_ops ops) (Ok (t, no_reports, uid)).

(* the pinned order of one update dict (for the record) *)
Fixpoint insert_op_pinned (o : sop) (l : list sop) : list sop :=
  match l with
  | [] => [o]
  | x :: r => if Nat.ltb (op_rank_pinned o) (op_rank_pinned x) then o :: x :: r else x :: insert_op_pinned o r
  end.
Definition order_ops_pinned (ops : list sop) : list sop := fold_left (fun acc o => insert_op_pinned o acc) ops [].

Definition apply_ops_pinned (t : cnode) (here : list key) (ops : list sop) (uid : N) : res (cnode * reports * N) :=
  fold_left (fun acc o =>
               rbind acc (fun tru =>
                 let '(t', rp, uid') := tru in
                 rbind (apply_op t' here o uid') (fun tru' =>
                   let '(t'', rp', uid'') := tru' in Ok (t'', rapp rp rp', uid''))))
            (order_ops_pinned ops) (Ok (t, no_reports, uid)).

(* ---------- engine bookkeeping: Engine.apply_update / _delete_path ---------- *)
Definition starts_with (p pre : list key) : bool :=
  (fix go (p pre : list key) : bool :=
     match pre, p with
     | [], _ => true
     | x :: pre', y :: p' => N.eqb x y && go p' pre'
     | _ :: _, [] => false
     end) p pre.

Definition kpath_eqb (p q : list key) : bool :=
  (fix go p q := match p, q with
                 | [], [] => true
                 | x :: p', y :: q' => N.eqb x y && go p' q'
                 | _, _ => false
                 end) p q.

Record book := {
  b_procs : list (list key * N);        (* process_paths: path -> process object, insertion-ordered *)
  b_steps : list (list key * N);        (* _step_paths *)
  b_graph : sgraph;                     (* _step_graph *)
  pub_processes : list (list key * N);  (* leaves of the published dicts, as (path, object) *)
  pub_steps : list (list key * N);
  pub_topology : list (list key);
  pub_flow : list (list key * list (list seg))
}.

Fixpoint pset {A} (l : list (list key * A)) (p : list key) (a : A) : list (list key * A) :=
  match l with
  | [] => [(p, a)]
  | (q, b) :: r => if kpath_eqb q p then (q, a) :: r else (q, b) :: pset r p a
  end.

Definition pdrop {A} (l : list (list key * A)) (pre : list key) : list (list key * A) :=
  filter (fun qa => negb (starts_with (fst qa) pre)) l.

Definition add_step (b : book) (p : list key) (pi : pinfo) (deps : option (list (list seg))) : res book :=
  rbind (add_step_path (b_graph b) (dn p) deps) (fun g =>
    Ok {| b_procs := b_procs b; b_steps := pset (b_steps b) p (pi_obj pi); b_graph := g;
          pub_processes := pub_processes b; pub_steps := pub_steps b;
          pub_topology := pub_topology b; pub_flow := pub_flow b |}).

Definition flow_lookup (fl : list (list key * option (list (list seg)))) (p : list key)
  : option (list (list seg)) :=
  match find (fun x => kpath_eqb (fst x) p) (rev fl) with      (* dict(flow_updates): the last entry wins *)
  | Some (_, f) => f
  | None => None
  end.

(* ---- Engine.apply_update, the folding of what Store.apply_update reports ----
   (1) when the update deleted anything, only what the store still holds is registered (`held`): a node the same
       update created and removed again is not;
   (2) deletions are folded first: what left its place goes before what the same update put there;
   (3) then topology, flow, processes (steps among them become sequential steps), steps.                       *)
Definition held_proc (t : cnode) (pp : list key * pinfo) : bool :=
  match cget t (fst pp) with
  | Some (CProc _ pi) => N.eqb (pi_obj pi) (pi_obj (snd pp))
  | _ => false
  end.
Definition held_path (t : cnode) (p : list key) : bool :=
  match cget t p with Some _ => true | None => false end.
Definition held_reports (t : cnode) (rp : reports) : reports :=
  match r_deletions rp with
  | [] => rp
  | _ :: _ => {| r_topology := filter (held_path t) (r_topology rp);
                 r_process := filter (held_proc t) (r_process rp);
                 r_step := filter (held_proc t) (r_step rp);
                 r_flow := filter (fun pf => held_path t (fst pf)) (r_flow rp);
                 r_deletions := r_deletions rp; r_expire := r_expire rp |}
  end.

Definition book_delete (b : book) (ds : list (list key)) : book :=
  fold_left (fun bk d =>
                   {| b_procs := pdrop (b_procs bk) d;
                      b_steps := pdrop (b_steps bk) d;
                      b_graph := fold_left (fun g sp => if starts_with (fst sp) d then graph_remove g (dn (fst sp)) else g)
                                           (b_steps bk) (b_graph bk);
                      pub_processes := pdrop (pub_processes bk) d;
                      pub_steps := pdrop (pub_steps bk) d;
                      pub_topology := filter (fun q => negb (starts_with q d)) (pub_topology bk);
                      pub_flow := pdrop (pub_flow bk) d |})
            ds b.

Definition book_register (b : book) (rp : reports) : res book :=
  (* topology, then flow *)
  let b1 := {| b_procs := b_procs b; b_steps := b_steps b; b_graph := b_graph b;
               pub_processes := pub_processes b; pub_steps := pub_steps b;
               pub_topology := fold_left (fun acc p => if existsb (kpath_eqb p) acc then acc else acc ++ [p])
                                         (r_topology rp) (pub_topology b);
               pub_flow := fold_left (fun acc pf => match snd pf with
                                                    | Some f => pset acc (fst pf) f
                                                    | None => acc
                                                    end) (r_flow rp) (pub_flow b) |} in
  (* process updates: assoc into processes; steps found there become sequential steps *)
  rbind (fold_left (fun acc pp =>
                      rbind acc (fun bk =>
                        let bk' := {| b_procs := b_procs bk; b_steps := b_steps bk; b_graph := b_graph bk;
                                      pub_processes := pset (pub_processes bk) (fst pp) (pi_obj (snd pp));
                                      pub_steps := pub_steps bk; pub_topology := pub_topology bk;
                                      pub_flow := pub_flow bk |} in
                        if pi_step (snd pp) then add_step bk' (fst pp) (snd pp) None
                        else Ok {| b_procs := pset (b_procs bk') (fst pp) (pi_obj (snd pp));
                                   b_steps := b_steps bk'; b_graph := b_graph bk';
                                   pub_processes := pub_processes bk'; pub_steps := pub_steps bk';
                                   pub_topology := pub_topology bk'; pub_flow := pub_flow bk' |}))
                   (r_process rp) (Ok b1)) (fun b2 =>
  (* step updates *)
  fold_left (fun acc pp =>
                      rbind acc (fun bk =>
                        let bk' := {| b_procs := b_procs bk; b_steps := b_steps bk; b_graph := b_graph bk;
                                      pub_processes := pub_processes bk;
                                      pub_steps := pset (pub_steps bk) (fst pp) (pi_obj (snd pp));
                                      pub_topology := pub_topology bk; pub_flow := pub_flow bk |} in
                        add_step bk' (fst pp) (snd pp) (flow_lookup (r_flow rp) (fst pp))))
                   (r_step rp) (Ok b2)).

Definition book_apply (b : book) (rp : reports) : res book :=
  book_register (book_delete b (r_deletions rp)) rp.

(* the whole of Engine.apply_update after the store operation: t' is the hierarchy after it *)
Definition engine_apply (b : book) (t' : cnode) (rp : reports) : res book :=
  book_apply b (held_reports t' rp).

(* the pinned order (before fix "deletions first, only what the store still holds"): register everything the
   store reported, then delete; kept for the record (book_apply_pinned_refuted) *)
Definition book_apply_pinned (b : book) (rp : reports) : res book :=
  rbind (book_register b rp) (fun b3 => Ok (book_delete b3 (r_deletions rp))).

End WithKit.
