(* Model of Store.divide_value (vivarium/core/store.py) on a compartment whose schema declares dividers at ANY
   node - on variables and on branches (fixed branches and glob branches) - and of how Store.divide builds
   each daughter from its share: the share is the daughter's initial state, completed by the schema defaults.

     divider = self._get_divider()
     if divider: return divider(self.get_value() [, config])       (a branch-level divider takes precedence)
     if self.inner: recurse into the children, keeping the keys whose division is not None
     return None

   Random choices (which side gets the remainder of an odd split) are arguments, consumed in traversal order.
   Definitions only; proofs in Proofs/DivTree_proofs.v. *)
From Coq Require Import List NArith ZArith Bool.
From Viv Require Import Base.Assoc Base.Tree Model.Struct.
Import ListNotations.
Open Scope Z_scope.

(* dividers of a variable / of a branch; BNone: no divider declared on the branch *)
Inductive lk := LSet | LSplit | LZero | LSetValue (z : Z).
Inductive bk := BNone | BSet | BSplitDict | BSetValue (v : tree Z).

(* a variable (value, declared default, divider) or a branch (is it a glob branch, divider, children in dict order) *)
Inductive dnode :=
| DL (v dflt : Z) (d : lk)
| DB (glob : bool) (d : bk) (c : list (key * dnode)).

(* Store.get_value *)
Fixpoint dvalue (n : dnode) : tree Z :=
  match n with
  | DL v _ _ => Lf v
  | DB _ _ c => Nd ((fix go (c : list (key * dnode)) : list (key * tree Z) :=
                       match c with [] => [] | (k, x) :: r => (k, dvalue x) :: go r end) c)
  end.

Definition half_len {A} (l : list A) : nat := Nat.div (length l) 2.

(* variant: true = the branch-level divider takes precedence (the code); false = children first, a divider is
   consulted on childless nodes only *)
Section Divide.
Variable branch_first : bool.

Fixpoint divide_tree (n : dnode) (choices : list bool) : option (tree Z * tree Z) * list bool :=
  match n with
  | DL v _ LSet => (Some (Lf v, Lf v), choices)
  | DL v _ LSplit =>
      let b := match choices with x :: _ => x | [] => true end in
      let '(a1, a2) := split_z v b in (Some (Lf a1, Lf a2), tl choices)
  | DL v _ LZero => (Some (Lf 0, Lf 0), choices)
  | DL v _ (LSetValue z) => (Some (Lf z, Lf z), choices)
  | DB _ d c =>
    let rec_children :=
      (fix go (c : list (key * dnode)) (choices : list bool) : list (key * tree Z) * list (key * tree Z) * list bool :=
         match c with
         | [] => ([], [], choices)
         | (k, x) :: r =>
           let '(dv, ch') := divide_tree x choices in
           let '(r1, r2, ch'') := go r ch' in
           match dv with
           | Some (a, b) => ((k, a) :: r1, (k, b) :: r2, ch'')
           | None => (r1, r2, ch'')
           end
         end) in
    let by_divider :=
      match d with
      | BNone => None
      | BSet => Some (dvalue n, dvalue n)
      | BSplitDict => let vs := children (dvalue n) in
                      Some (Nd (skipn (half_len vs) vs), Nd (firstn (half_len vs) vs))
      | BSetValue v => Some (v, v)
      end in
    let use_divider := match c with [] => true | _ => branch_first end in
    match (if use_divider then by_divider else None) with
    | Some r => (Some r, choices)
    | None =>
      match c with
      | [] => (None, choices)
      | _ => let '(l1, l2, ch) := rec_children c choices in (Some (Nd l1, Nd l2), ch)
      end
    end
  end.
End Divide.

(* the daughter built from a share: the share is its initial state, the schema defaults complete it.  A fixed
   branch keeps every declared child; a glob branch holds exactly the entries of the share. *)
Fixpoint rebuild (n : dnode) (t : option (tree Z)) : dnode :=
  match n with
  | DL v dflt d => DL (match t with Some (Lf z) => z | _ => dflt end) dflt d
  | DB glob d c =>
    let sub (k : key) : option (tree Z) := match t with Some (Nd l) => alookup k l | _ => None end in
    DB glob d
       ((fix go (c : list (key * dnode)) : list (key * dnode) :=
           match c with
           | [] => []
           | (k, x) :: r =>
             if glob then match sub k with
                          | Some tv => (k, rebuild x (Some tv)) :: go r
                          | None => go r
                          end
             else (k, rebuild x (sub k)) :: go r
           end) c)
  end.

(* Store.divide on a compartment: the two daughters (as nodes, ready to divide again) *)
Definition divide_node (bf : bool) (n : dnode) (choices : list bool) : dnode * dnode :=
  match fst (divide_tree bf n choices) with
  | Some (a, b) => (rebuild n (Some a), rebuild n (Some b))
  | None => (rebuild n None, rebuild n None)
  end.

(* generations of division: at each generation follow daughter `side` *)
Fixpoint divide_gens (bf : bool) (n : dnode) (gens : list (bool * list bool)) : list (tree Z * tree Z) :=
  match gens with
  | [] => []
  | (side, choices) :: r =>
    let '(a, b) := divide_node bf n choices in
    (dvalue a, dvalue b) :: divide_gens bf (if side then b else a) r
  end.

Fixpoint tsum (t : tree Z) : Z :=
  match t with
  | Lf z => z
  | Nd c => (fix go (c : list (key * tree Z)) : Z := match c with [] => 0 | (_, x) :: r => tsum x + go r end) c
  end.
