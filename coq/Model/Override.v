(* Model of schema overrides (vivarium/core/process.py: _override_schemas, Process.merge_overrides,
   Process.get_schema; vivarium/core/composer.py: the `_schema` key of a Composer / Composite config and
   Composite.merge(schema_override=...)).

     def _override_schemas(overrides, processes):
         for key, override in overrides.items():
             process = processes[key]                       (KeyError when the key names nothing)
             if isinstance(process, Process): process.merge_overrides(override)
             elif isinstance(process, dict):  _override_schemas(override, process)

     merge_overrides(o):  deep_merge(self._schema_override, o)
     get_schema():        ports = deepcopy(self.ports_schema()); deep_merge(ports, self.schema_override)

   Schemas and overrides are nested dicts with attribute values at the leaves (tree Z); the processes dict is a
   nested dict whose leaves are process identities (tree N).  Definitions only; proofs in
   Proofs/Override_proofs.v. *)
From Coq Require Import List NArith ZArith Bool.
From Viv Require Import Base.Assoc Base.Tree Model.Paths.
Import ListNotations.

Notation stree := (tree Z).
Notation ptree := (tree N).

(* the (process, override) pairs handed to merge_overrides, in order *)
Fixpoint override_schemas (ov : stree) (procs : ptree) : res (list (N * stree)) :=
  match ov with
  | Lf _ => Err ETypeThroughLeaf                 (* `.items()` of something that is not a dict *)
  | Nd oc =>
    (fix go (oc : list (key * stree)) : res (list (N * stree)) :=
       match oc with
       | [] => Ok []
       | (k, o) :: r =>
         match alookup k (children procs) with
         | None => Err EKeyError
         | Some (Lf pid) => rbind (go r) (fun l => Ok ((pid, o) :: l))
         | Some (Nd sub) =>
           rbind (override_schemas o (Nd sub)) (fun l1 => rbind (go r) (fun l2 => Ok (l1 ++ l2)))
         end
       end) oc
  end.

(* the accumulated _schema_override of one process after the calls *)
Definition override_of (l : list (N * stree)) (pid : N) : stree :=
  fold_left (fun acc po => if N.eqb (fst po) pid then deep_merge acc (snd po) else acc) l (Nd []).

(* Process.get_schema() *)
Definition get_schema (ports : N -> stree) (l : list (N * stree)) (pid : N) : stree :=
  deep_merge (ports pid) (override_of l pid).

(* the leaf / the subtree a path leads to *)
Fixpoint leaf_at (t : ptree) (p : list key) : option N :=
  match p, t with
  | [], Lf pid => Some pid
  | k :: r, Nd c => match alookup k c with Some s => leaf_at s r | None => None end
  | _, _ => None
  end.

Fixpoint sub_at (t : stree) (p : list key) : option stree :=
  match p with
  | [] => Some t
  | k :: r => match t with
              | Nd c => match alookup k c with Some s => sub_at s r | None => None end
              | Lf _ => None
              end
  end.

(* variant for the refutation: the override is merged into the schema object ports_schema() returned, which all
   processes share (no deepcopy): every process sees every override *)
Definition get_schema_shared (ports : stree) (l : list (N * stree)) (pid : N) : stree :=
  deep_merge ports (fold_left (fun acc po => deep_merge acc (snd po)) l (Nd [])).
