"""Glob-topology stream (C06): a glob port whose topology entry is a dictionary with a '*' entry (the
sub-topology of the children), with `_path` placed beside the '*' entry or inside it, at several depths,
driven through a real Engine for 2-4 steps.  At every invocation the value read for <port>/<child>/<var> must be
the value of the node the sub-topology names, the update of that variable (a distinct token per variable, accumulate)
must change exactly that node, nothing else may change, and the topology handed to the engine must stay as it was.

Decided by the oracle only: Model/Wire.v has no '*' entries in topologies (DESIGN.md section 5, C06)."""
import contextlib
import copy
import io

_KIT = None


def kit():
    global _KIT
    if _KIT:
        return _KIT
    from vivarium.core.process import Process

    class Bump(Process):
        defaults = {'vars': ['x'], 'tokens': {}}

        def __init__(self, parameters=None):
            super().__init__(parameters)
            self.seen = []

        def ports_schema(self):
            return {'cells': {'*': {v: {'_default': 0, '_updater': 'accumulate', '_emit': True}
                                    for v in self.parameters['vars']}},
                    'ticks': {'_default': 0, '_updater': 'accumulate'}}

        def next_update(self, ts, states):
            self.seen.append(copy.deepcopy(states))
            tok = self.parameters['tokens']
            return {'cells': {c: {v: tok[c][v] for v in self.parameters['vars']} for c in states['cells']},
                    'ticks': 1}

    class Adder(Process):
        """wired plainly to the pool: adds a new child (with a state for its re-mapped variables) at a given step"""
        defaults = {'at': 1, 'state': {}, 'key': 'n'}

        def __init__(self, parameters=None):
            super().__init__(parameters)
            self.k = 0

        def ports_schema(self):
            return {'pool': {'*': {}}}

        def next_update(self, ts, states):
            self.k += 1
            if self.k == self.parameters['at'] + 1:
                return {'pool': {'_add': [{'key': self.parameters['key'], 'state': self.parameters['state']}]}}
            return {}

    class Cell(Process):
        defaults = {'vars': ['x']}

        def ports_schema(self):
            return {v: {'_default': 0, '_updater': 'accumulate'} for v in self.parameters['vars']}

        def next_update(self, ts, states):
            return {}
    _KIT = dict(Bump=Bump, Cell=Cell, Adder=Adder)
    return _KIT


def gen_case(rng):
    vars_ = rng.choice([['x'], ['x', 'y']])
    vmap = {v: rng.choice([[v], ['inner', v], ['in', 'ner', v]]) for v in vars_}
    pool = rng.choice([['pool'], ['w', 'pool']])
    kids = rng.sample(['a', 'b', 'c'], rng.randint(1, 3))
    return {'kind': 'globtopo', 'vars': vars_, 'vmap': vmap, 'pool': pool, 'kids': kids,
            'form': rng.choice(['inside', 'beside']), 'deep': rng.random() < 0.4,
            'steps': rng.randint(2, 4), 'init': {k: {v: rng.randint(0, 9) for v in vars_} for k in kids},
            # another process adds a child `n` to the pool during the run: it must get the sub-schema THROUGH the
            # sub-topology (its variables at the re-mapped places, the given state applied there)
            'add_at': rng.choice([None, 0, 1]), 'add_state': {v: rng.randint(10, 19) for v in vars_}}


def nest(d, path, value):
    for k in path[:-1]:
        d = d.setdefault(k, {})
    d[path[-1]] = value


def strip(v):
    if isinstance(v, dict):
        return {k: strip(x) for k, x in v.items() if not isinstance(x, tuple)}
    return v


def flat(d, pre=()):
    out = {}
    for k, v in d.items():
        if isinstance(v, dict):
            out.update(flat(v, pre + (k,)))
        else:
            out[pre + (k,)] = v
    return out


def run_impl(c):
    from vivarium.core.engine import Engine
    K = kit()
    tokens, n = {}, 1
    for k in c['kids']:
        tokens[k] = {}
        for v in c['vars']:
            tokens[k][v] = n
            n *= 10
    # the bumping process sits at the root, or one level down (its paths then start with '..')
    up = ['..'] if c['deep'] else []
    pool = up + c['pool']
    sub = {v: tuple(p) for v, p in c['vmap'].items()}
    if c['form'] == 'inside':
        cells_topo = {'*': dict(sub, _path=tuple(pool))}
    elif c['form'] == 'beside':
        cells_topo = {'_path': tuple(pool), '*': dict(sub)}
    else:
        raise ValueError(c['form'])
    abs_pool = [x for x in pool if x != '..']
    processes, topology, init = {}, {}, {}
    bump = K['Bump']({'vars': c['vars'], 'tokens': tokens})
    btopo = {'cells': cells_topo, 'ticks': tuple(up + ['ticks'])}
    if c['deep']:
        processes['sub'] = {'bump': bump}
        topology['sub'] = {'bump': btopo}
    else:
        processes['bump'], topology['bump'] = bump, btopo
    for k in c['kids']:
        nest(processes, abs_pool + [k, 'cell'], K['Cell']({'vars': c['vars']}))
        nest(topology, abs_pool + [k, 'cell'], {v: tuple(p) for v, p in c['vmap'].items()})
        for v in c['vars']:
            nest(init, abs_pool + [k] + c['vmap'][v], c['init'][k][v])
    if c.get('add_at') is not None:
        st = {}
        for v in c['vars']:
            nest(st, c['vmap'][v], c['add_state'][v])
        processes['adder'] = K['Adder']({'at': c['add_at'], 'state': st, 'key': 'n'})
        topology['adder'] = {'pool': tuple(abs_pool)}
        tokens['n'] = {}
        for v in c['vars']:
            tokens['n'][v] = n
            n *= 10
        bump.parameters['tokens'] = tokens
    ref_topology = copy.deepcopy(topology)
    out = {'steps': [], 'tokens': tokens, 'abs_pool': abs_pool}
    try:
      with contextlib.redirect_stdout(io.StringIO()):
        eng = Engine(processes=processes, topology=topology, initial_state=init, display_info=False)
        for step in range(c['steps']):
            before = flat(strip(eng.state.get_value()))
            eng.update(1)
            after = flat(strip(eng.state.get_value()))
            out['steps'].append({'before': {'/'.join(p): v for p, v in before.items()},
                                 'after': {'/'.join(p): v for p, v in after.items()},
                                 'seen': bump.seen[step]['cells'] if step < len(bump.seen) else None,
                                 'topology_kept': eng.topology == ref_topology and topology == ref_topology})
        eng.end()
    except Exception as e:
        out['raised'] = '%s: %s' % (type(e).__name__, str(e)[:200])
    return out


def oracle(c, ob, rng):
    if ob.get('raised'):
        return [('the engine raised after %d step(s): %s' % (len(ob['steps']), ob['raised']), 'engine-raised')]
    pool = ob['abs_pool']
    for i, st in enumerate(ob['steps']):
        b, a = st['before'], st['after']
        if not st['topology_kept']:
            return [('step %d: the topology handed to the engine was modified' % i, 'topology-mutated')]
        kids = list(c['kids'])
        if c.get('add_at') is not None and i > c['add_at']:
            kids.append('n')
        if st['seen'] is None or set(st['seen']) != set(kids):
            return [('step %d: the glob port shows the children %r, the pool holds %r'
                     % (i, sorted(st['seen'] or {}), sorted(kids)), 'glob-children')]
        want = dict(b)
        if c.get('add_at') is not None and i == c['add_at']:
            for v in c['vars']:
                want['/'.join(pool + ['n'] + c['vmap'][v])] = c['add_state'][v]
        for k in kids:
            for v in c['vars']:
                node = '/'.join(pool + [k] + c['vmap'][v])
                if st['seen'][k].get(v) != b.get(node):
                    return [('step %d: cells/%s/%s reads %r but the node %s holds %r'
                             % (i, k, v, st['seen'][k].get(v), node, b.get(node)), 'read-other-node')]
                want[node] = b[node] + ob['tokens'][k][v]
        tk = '/'.join((['ticks']))
        if tk in want:
            want[tk] += 1
        if a != want:
            diff = sorted(p for p in set(a) | set(want) if a.get(p) != want.get(p))
            return [('step %d: after the update the nodes %r hold %r, expected %r (each variable written where it is read)'
                     % (i, diff, [a.get(p) for p in diff], [want.get(p) for p in diff]), 'write-other-node')]
    return []


def nontrivial(c, ob):
    return len(ob['steps']) >= 2


def stat_key(c, ob):
    return 'globtopo/%s' % c['form']
