"""Content of history rows (C12): Store.emit_data with emit flags, a custom serializer, unset
values, store_schema-style configs with branch-level `_emit`, and set_emit_value(s), against
Model/Emit.v."""
import random

from harness import common
from harness.common import cN, cZ, clist, cpair, copt, cbool

IMPORTS = 'From Viv Require Import Base.Assoc Base.Tree Model.Emit Corr.Emitc.'
CHECK_FN = 'check_case'
BAD_TERM = '(MEmit (EDir []) None [] (Some (Nd [])))'
KEYS = ['a', 'b', 'c', 'd', 'e']
UNITS = {'mg': 1, 'g': 1000, 'kg': 10 ** 6}
UNIT_NAMES = {'mg': 'milligram', 'g': 'gram', 'kg': 'kilogram'}

_SER = None
_QSER = None


def qser():
    """a custom serializer for quantity-valued variables: the magnitude in mg, plus 1000"""
    global _QSER
    if _QSER is None:
        from vivarium.core.registry import Serializer, serializer_registry

        class QtyMg(Serializer):
            python_type = type(NotImplemented)

            def serialize(self, data):
                return int(round(data.to('milligram').magnitude)) + 1000
        s = QtyMg()
        serializer_registry.register('verif_qty_mg', s)
        _QSER = s
    return _QSER


def plus1000():
    global _SER
    if _SER is None:
        from vivarium.core.registry import Serializer, serializer_registry

        class Plus1000(Serializer):
            python_type = type(None)

            def serialize(self, data):
                return None if data is None else data + 1000
        s = Plus1000()
        serializer_registry.register('verif_plus1000', s)
        _SER = s
    return _SER


def gen_store(rng, depth):
    out = {}
    for k in rng.sample(KEYS, rng.randint(1, 4)):
        if depth > 1 and rng.random() < 0.4:
            out[k] = gen_store(rng, depth - 1)
        elif rng.random() < 0.08:
            # a quantity-valued variable (the default is a Quantity, no `_units`) with a CUSTOM serializer:
            # [magnitude, unit of the default, emit, declare the default again afterwards]
            vu = rng.choice(list(UNITS))
            out[k] = {'$qser': [rng.choice([0, 1, 2, -3, 7, 12]), vu, rng.random() < 0.7, rng.random() < 0.3]}
        elif rng.random() < 0.2:
            # a variable declared with `_units` whose value is supplied in another unit of the same dimension:
            # [magnitude, unit of the value, declared unit, emit]; the quantity is a whole number of kg, so
            # every conversion between mg, g and kg is exact
            vu, du = rng.choice(list(UNITS)), rng.choice(list(UNITS))
            q = rng.choice([0, 1, 2, -3, 7, 12]) * 10 ** 6          # in mg
            out[k] = {'$qty': [q // UNITS[vu], vu, du, rng.random() < 0.6]}
        else:
            out[k] = {'$leaf': [rng.choice([None, 0, 0, 3, -2, 7]), rng.random() < 0.5, rng.random() < 0.25]}
    return out


def branch_paths(d, pre=()):
    out = [list(pre)]
    for k, v in d.items():
        if '$leaf' in v or '$qty' in v or '$qser' in v:
            out.append(list(pre + (k,)))
        else:
            out.extend(branch_paths(v, pre + (k,)))
    return out


def gen_cfg(rng, d):
    """a store_schema: nested dict mirroring part of the store, some nodes carrying _emit"""
    cfg = {'$emit': rng.choice([None, None, True, False]), 'c': {}}
    for k, v in d.items():
        if rng.random() < 0.5:
            if '$leaf' in v or '$qty' in v or '$qser' in v:
                cfg['c'][k] = {'$emit': rng.choice([True, False]), 'c': {}}
            else:
                cfg['c'][k] = gen_cfg(rng, v)
    return cfg


def _at(d, p):
    for k in p:
        d = d[k]
    return d


def gen_case(rng):
    d = gen_store(rng, rng.randint(1, 4))
    c = {'kind': 'emit', 'store': d, 'cfg': gen_cfg(rng, d) if rng.random() < 0.5 else None, 'sets': []}
    paths = branch_paths(d)
    if rng.random() < 0.3:
        leaves = [p for p in paths if p and '$' in str(list(_at(d, p).keys()))]
        # whole sub-branches of late leaves: every leaf below one randomly chosen branch (or single leaves)
        deep = [p for p in leaves if len(p) >= 2]
        if deep:
            top = rng.choice(deep)[:rng.randint(1, 2)]
            c['grow'] = [p for p in leaves if p[:len(top)] == top] if rng.random() < 0.7 else [rng.choice(deep)]
    for _ in range(rng.choice([0, 0, 1, 2])):
        c['sets'].append([rng.choice(paths), rng.random() < 0.5])
    return c


def py_store_config(d):
    out = {}
    for k, v in d.items():
        if '$leaf' in v:
            val, emit, ser = v['$leaf']
            cfg = {'_default': val, '_value': val, '_emit': emit, '_updater': 'set'}
            if ser:
                plus1000()
                cfg['_serializer'] = 'verif_plus1000'
            out[k] = cfg
        elif '$qty' in v:
            from vivarium.library.units import units
            mag, vu, du, emit = v['$qty']
            out[k] = {'_default': mag * getattr(units, vu), '_units': getattr(units, du), '_emit': emit,
                      '_updater': 'set'}
        elif '$qser' in v:
            from vivarium.library.units import units
            mag, vu, emit, late = v['$qser']
            qser()
            out[k] = {'_default': mag * getattr(units, vu), '_serializer': 'verif_qty_mg', '_emit': emit,
                      '_updater': 'set'}
        else:
            out[k] = py_store_config(v)
    return out


def late_defaults(d):
    """the second declaration of the `late` quantity variables: the same default once more"""
    out = {}
    for k, v in d.items():
        if '$qser' in v:
            if v['$qser'][3]:
                from vivarium.library.units import units
                out[k] = {'_default': v['$qser'][0] * getattr(units, v['$qser'][1])}
        elif '$leaf' not in v and '$qty' not in v:
            sub = late_defaults(v)
            if sub:
                out[k] = sub
    return out


def split_late(d, late, pre=()):
    """(the store without the late leaves, the late leaves alone) - same nesting"""
    early, later = {}, {}
    for k, v in d.items():
        if '$leaf' in v or '$qty' in v or '$qser' in v:
            (later if list(pre + (k,)) in late else early)[k] = v
        else:
            e, l = split_late(v, late, pre + (k,))
            early[k] = e
            if l:
                later[k] = l
    return early, later


def build_store(c):
    from vivarium.core.store import Store
    if c.get('grow'):
        # the variables listed in `grow` appear only after a first row has been written (a structural update adding
        # flagged variables below a branch that had nothing to emit): the row asked for is the one after that
        early, later = split_late(c['store'], c['grow'])
        store = Store(py_store_config(early))
        store.apply_defaults()
        store.emit_data()
        # each late part is declared AT the lowest node that exists already (as an `_add` or a process wired into
        # that node does), not from the root
        def declare(node, cfg):
            for k, sub in cfg.items():
                if k in node.inner and not ('_default' in sub or '_value' in sub):
                    declare(node.inner[k], sub)
                else:
                    node._apply_config({k: sub})
        declare(store, py_store_config(later))
    else:
        store = Store(py_store_config(c['store']))
    late = late_defaults(c['store'])
    if late:
        store._apply_config(late)
    store.apply_defaults()         # as generate_state does: a quantity variable takes its declared default
    if c['cfg'] is not None:
        store._apply_config(py_cfg(c['cfg']))
    for path, b in c['sets']:
        store.set_emit_value(tuple(path) if path else None, b)
    return store


def declared_leaves(d, pre=()):
    """path -> the leaf declaration of the case"""
    out = {}
    for k, v in d.items():
        if '$leaf' in v or '$qty' in v or '$qser' in v:
            out[pre + (k,)] = v
        else:
            out.update(declared_leaves(v, pre + (k,)))
    return out


def parse_row_value(x):
    """a row entry: an int, or the serialized quantity '!units[<magnitude> <unit>]' -> (magnitude, unit)"""
    if isinstance(x, str):
        if not (x.startswith('!units[') and x.endswith(']')):
            raise ValueError('unexpected row entry %r' % (x,))
        m, u = x[len('!units['):-1].split(' ', 1)
        f = float(m)
        if abs(f - round(f)) > 1e-6 * max(1.0, abs(f)):
            raise ValueError('non-integral magnitude in %r' % (x,))
        return int(round(f)), u
    return x, None


def row_units(row, store, pre=()):
    """[(path, unit written in the row, declared unit)] for the quantity entries of a row"""
    out = []
    for k, v in (row or {}).items():
        if isinstance(v, dict):
            out.extend(row_units(v, store.get(k, {}), pre + (k,)))
        elif isinstance(v, str) and '$qty' in store.get(k, {}):
            out.append((pre + (k,), parse_row_value(v)[1], UNIT_NAMES[store[k]['$qty'][2]]))
    return out


def py_cfg(cfg, top=True):
    out = {}
    if cfg['$emit'] is not None:
        out['_emit'] = cfg['$emit']
    for k, sub in cfg['c'].items():
        out[k] = py_cfg(sub, False)
    return out


def run_impl(c):
    return {'row': build_store(c).emit_data()}


def oracle(c, ob, rng):
    """the row holds exactly the flagged, valued variables (serializer applied), read from the real store"""
    store = build_store(c)
    decl = declared_leaves(c["store"])
    want = {}
    for path, node in store.depth():
        if node.inner or not node.leaf:
            continue
        if node.emit and node.value is not None:
            v = decl.get(tuple(path), {})
            if '$qser' in v:                  # what the DECLARED custom serializer gives
                want[tuple(path)] = v['$qser'][0] * UNITS[v['$qser'][1]] + 1000
            elif '$qty' in v:
                q = node.value.to('milligram').magnitude
                want[tuple(path)] = ('mg', int(round(q)))
            else:
                want[tuple(path)] = node.value + 1000 if v['$leaf'][2] else node.value

    def flat(d, pre=()):
        out = {}
        if isinstance(d, dict):
            for k, v in d.items():
                out.update(flat(v, pre + (k,)))
        elif isinstance(d, str):
            m, u = parse_row_value(d)
            scale = {v: UNITS[k] for k, v in UNIT_NAMES.items()}.get(u)
            out[pre] = ('mg', m * scale) if scale else ('?', d)
        else:
            out[pre] = d
        return out
    got = flat(ob['row']) if ob['row'] is not None else {}
    for path, written, declared in row_units(ob['row'], c['store']):
        if written != declared:
            return [('the row gives %r in %s, the variable is declared in %s' % (path, written, declared), 'row-units')]
    if got != want:
        return [('the row holds %r, the flagged valued variables are %r' % (got, want), 'row-content')]
    return []


def r_store(d):
    items = []
    for k, v in d.items():
        if '$leaf' in v:
            val, emit, ser = v['$leaf']
            items.append(cpair(cN(KEYS.index(k)), '(ELeaf %s %s %s)' % (copt(cZ(val) if val is not None else None), cbool(emit), cbool(ser))))
        elif '$qser' in v:
            mag, vu, emit, late = v['$qser']
            items.append(cpair(cN(KEYS.index(k)), '(ELeaf (Some %s) %s true)' % (cZ(mag * UNITS[vu]), cbool(emit))))
        elif '$qty' in v:
            mag, vu, du, emit = v['$qty']
            items.append(cpair(cN(KEYS.index(k)), '(EQty %s %s %s %s)' % (cZ(mag), cZ(UNITS[vu]), cZ(UNITS[du]), cbool(emit))))
        else:
            items.append(cpair(cN(KEYS.index(k)), r_store(v)))
    return '(EDir %s)' % clist(items)


def r_cfg(cfg):
    return '(ECfg %s %s)' % (copt(cbool(cfg['$emit']) if cfg['$emit'] is not None else None),
                             clist([cpair(cN(KEYS.index(k)), r_cfg(v)) for k, v in cfg['c'].items()]))


def r_row(d):
    if isinstance(d, dict):
        return '(Nd %s)' % clist([cpair(cN(KEYS.index(k)), r_row(v)) for k, v in d.items()])
    return '(Lf %s)' % cZ(parse_row_value(d)[0])


def render(c, ob):
    return '(MEmit %s %s %s %s)' % (
        r_store(c['store']), copt(r_cfg(c['cfg']) if c['cfg'] is not None else None),
        clist([cpair(clist([cN(KEYS.index(k)) for k in p]), cbool(b)) for p, b in c['sets']]),
        copt(r_row(ob['row']) if ob['row'] is not None else None))


def nontrivial(c, ob):
    return ob.get('row') not in (None, {})


def stat_key(c, ob):
    return 'emit/cfg=%s/sets=%d' % (c['cfg'] is not None, len(c['sets']))
