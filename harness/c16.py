"""C16 — composites embed, merge and load the same way through every entry point."""
import contextlib
import copy
import io
import random

from harness import common
from harness.common import cN, cZ, clist, cpair

FAMILY = 'comp'
RULE = ('random composers (1-4 processes, 0-2 steps with flow, nested one level) generated at embedding paths of '
        'length 0-3; merge sequences of length 1-5 into a composite: other composites (incl. one template merged '
        'several times, at the same or different paths) and loose processes/topology/steps/flow/state, optionally at '
        'a path; every composite is snapshotted (structure + identity of its nested dicts) before and after every '
        'merge; the three engine entry points (composite / parts / generated store) run the same composite for a few '
        'ticks. Non-trivial: >=2 merges or a non-empty embedding path; distinct by term.'
        ' Composites are built from partial configs (keys they do not have are omitted, as Composer.generate omits '
        'state); a composite built before the merges, one built after them and Composite.defaults must stay empty.')
ASSUMPTIONS = [
    'leaves of the five components are interned objects (Process instances by name, port paths, dependency lists, state values)',
    'the clause "leaves the merged-in composites unchanged, then and later" is about object identity and is decided by the snapshot oracle; the functional model has no aliasing',
]
IMPORTS = 'From Viv Require Import Base.Assoc Base.Tree Model.Paths Model.Composite Model.Override Corr.C16c.'
CHECK_FN = 'check_case'
BAD_TERM = '(OEmbed [] empty_comp {| c_processes := Lf 0%N; c_topology := Nd []; c_steps := Nd []; c_flow := Nd []; c_state := Nd [] |})'

KEYS = ['a', 'b', 'c', 'cell', 'env']
PNAMES = ['p0', 'p1', 'p2', 'p3', 'p4', 'p5']
SNAMES = ['s0', 's1']


def gen_parts(rng, nested_ok=True):
    """a composite description: nested dicts with process names as leaves"""
    procs, topo, steps, flow, state = {}, {}, {}, {}, {}

    def put(d, path, v):
        for k in path[:-1]:
            d = d.setdefault(k, {})
        d[path[-1]] = v
    for pn in rng.sample(PNAMES, rng.randint(1, 4)):
        pre = [rng.choice(['cell', 'env'])] if nested_ok and rng.random() < 0.4 else []
        put(procs, pre + [pn], pn)
        put(topo, pre + [pn], {'s': ['v' + pn]})
        if rng.random() < 0.5:
            put(state, pre + ['v' + pn, 'x'], rng.randint(0, 9))
    for sn in rng.sample(SNAMES, rng.randint(0, 2)):
        put(steps, [sn], sn)
        put(topo, [sn], {'s': ['v' + sn]})
        put(flow, [sn], [] if sn == 's0' or 's0' not in steps else [['s0']])
    return {'processes': procs, 'topology': topo, 'steps': steps, 'flow': flow, 'state': state}


def generate(seed, tier, enlarged=False):
    rng = random.Random(seed * 271 + 16)
    n = 300 if tier == 'quick' else 5000
    if enlarged:
        n *= 3
    cases = [
        # corpus: the pinned witness -- one template merged twice, then the receiver extended under its keys
        {'kind': 'merge', 'self': {'processes': {}, 'topology': {}, 'steps': {}, 'flow': {}, 'state': {}},
         'templates': [{'processes': {'cell': {'p0': 'p0'}}, 'topology': {'cell': {'p0': {'s': ['vp0']}}},
                        'steps': {}, 'flow': {}, 'state': {'cell': {'vp0': {'x': 1}}}}],
         'merges': [{'t': 0, 'loose': None, 'path': []},
                    {'t': None, 'loose': {'processes': {'cell': {'p1': 'p1'}}, 'topology': {'cell': {'p1': {'s': ['vp1']}}},
                                          'steps': {}, 'flow': {}, 'state': {'cell': {'vp0': {'x': 7}}}}, 'path': []}]},
    ]
    for i in range(n):
        r = i % 5
        if r == 0:
            cases.append({'kind': 'embed', 'parts': gen_parts(rng), 'path': [rng.choice(KEYS[:3]) for _ in range(rng.randint(0, 3))]})
        elif r == 4 and i % 2 == 0:
            # schema overrides: a subset of the processes named with a new default / emit flag for their variable,
            # handed over by one of the four routes
            parts = gen_parts(rng)
            names = []

            def collect(d, pre):
                for k, v in d.items():
                    if isinstance(v, dict):
                        collect(v, pre + [k])
                    else:
                        names.append(pre + [k])
            collect(parts['processes'], [])
            collect(parts['steps'], [])
            targets = [pth for pth in names if rng.random() < 0.5] or names[:1]
            cases.append({'kind': 'override', 'parts': parts, 'route': rng.choice(['composer', 'composite', 'merge', 'param']),
                          'targets': [[pth, rng.randint(1, 9) * 11, rng.random() < 0.5] for pth in targets],
                          'shared_schema': rng.random() < 0.6})
            if rng.random() < 0.12 and cases[-1]['route'] != 'param':
                # an override naming a process that does not exist (beside one that does)
                pth = list(rng.choice(targets))
                pth[-1] = 'ghost'
                cases[-1]['targets'].append([pth, 5, True])
        elif r == 4:
            cases.append({'kind': 'entry', 'parts': gen_parts(rng, nested_ok=False), 'ticks': rng.randint(1, 3)})
        else:
            templates = [gen_parts(rng) for _ in range(rng.randint(1, 2))]
            merges = []
            for _ in range(rng.randint(1, 5)):
                t = rng.randrange(len(templates)) if rng.random() < 0.75 else None
                loose = gen_parts(rng) if (t is None or rng.random() < 0.3) else None
                merges.append({'t': t, 'loose': loose, 'path': [rng.choice(KEYS[:3]) for _ in range(rng.choice([0, 0, 1, 2]))]})
            cases.append({'kind': 'merge', 'self': gen_parts(rng) if rng.random() < 0.6 else
                          {'processes': {}, 'topology': {}, 'steps': {}, 'flow': {}, 'state': {}},
                          'templates': templates, 'merges': merges})
    return cases


# ------------------------------------------------------------------ python objects

_CLS = None
_OBJS = {}


def classes():
    global _CLS
    if _CLS is None:
        from vivarium.core.process import Process, Step

        class P(Process):
            defaults = {'var': 'v'}

            def ports_schema(self):
                return {'s': {'x': {'_default': 0, '_emit': True}}}

            def next_update(self, ts, states):
                return {'s': {'x': 1}}

        class S(Step):
            def ports_schema(self):
                return {'s': {'x': {'_default': 0, '_emit': True}}}

            def next_update(self, ts, states):
                return {'s': {'x': 2}}
        _CLS = (P, S)
    return _CLS


def obj(name):
    """one Process object per name (identity is what a composite holds)"""
    P, S = classes()
    if name not in _OBJS:
        _OBJS[name] = (S if name.startswith('s') else P)({'name': name})
    return _OBJS[name]


def realise(d, leaf):
    if isinstance(d, dict):
        return {k: realise(v, leaf) for k, v in d.items()}
    return leaf(d)


def realise_parts(parts):
    return {
        'processes': realise(parts['processes'], obj),
        'steps': realise(parts['steps'], obj),
        'topology': realise_topology(parts['topology']),
        'flow': realise(parts['flow'], lambda l: [tuple(x) for x in l]) if parts['flow'] else {},
        'state': copy.deepcopy(parts['state']),
    }


def realise_topology(t):
    out = {}
    for k, v in t.items():
        if isinstance(v, dict) and set(v.keys()) == {'s'} and isinstance(v['s'], list):
            out[k] = {'s': tuple(v['s'])}
        else:
            out[k] = realise_topology(v)
    return out


def dump_comp(c):
    """the five components as nested dicts with printable leaf tokens"""
    def tok(x):
        from vivarium.core.process import Process
        if isinstance(x, Process):
            return 'proc:' + x.name
        if isinstance(x, tuple):
            return 'path:' + '/'.join(x)
        if isinstance(x, list):
            return 'deps:' + ';'.join('/'.join(d) for d in x)
        return 'val:%r' % (x,)

    def walk(d):
        if isinstance(d, dict):
            return {k: walk(v) for k, v in d.items()}
        return tok(d)
    return {k: walk(c[k]) for k in ('processes', 'topology', 'steps', 'flow', 'state')}


def snapshot(c):
    """structure plus the identity of every nested dict"""
    def ids(d, out):
        if isinstance(d, dict):
            out.append(id(d))
            for v in d.values():
                ids(v, out)
    out = []
    for k in ('processes', 'topology', 'steps', 'flow', 'state'):
        ids(c[k], out)
    return dump_comp(c), out


def run_impl(c):
    from vivarium.core.composer import Composer, Composite
    kind = c['kind']
    if kind == 'embed':
        parts = realise_parts(c['parts'])

        class Comp(Composer):
            def generate_processes(self, config):
                return parts['processes']

            def generate_topology(self, config):
                return parts['topology']

            def generate_steps(self, config):
                return parts['steps']

            def generate_flow(self, config):
                return parts['flow']
        comp = Comp({}).generate(path=tuple(c['path']))
        return {'comp': dump_comp(comp)}
    if kind == 'merge':
        def partial(cfg):
            # a config that simply omits what it does not have (as Composer.generate() omits 'state'):
            # the composite then starts from the class-level defaults
            return {k: v for k, v in cfg.items() if v or k in ('processes', 'topology')}
        witness = Composite(partial({'processes': {}, 'topology': {}}))     # built before anything is merged
        me = Composite(partial(realise_parts(c['self'])))
        templates = [Composite(partial(realise_parts(t))) for t in c['templates']]
        problems = []
        for i, m in enumerate(c['merges']):
            before = [snapshot(t) for t in templates]
            kw = {}
            if m['t'] is not None:
                kw['composite'] = templates[m['t']]
            if m['loose'] is not None:
                lp = realise_parts(m['loose'])
                kw.update(processes=lp['processes'], topology=lp['topology'], steps=lp['steps'],
                          flow=lp['flow'], state=lp['state'])
            me.merge(path=tuple(m['path']), **kw)
            for ti, (t, (bd, bi)) in enumerate(zip(templates, before)):
                ad, ai = snapshot(t)
                if ad != bd:
                    problems.append('merge %d changed the contents of merged-in composite %d' % (i, ti))
            # no nested dict of a merged-in composite may be part of the receiver
            mine = snapshot(me)[1]
            for ti, t in enumerate(templates):
                shared = set(snapshot(t)[1]) & set(mine)
                if shared:
                    problems.append('after merge %d the receiver shares %d nested dict object(s) with composite %d'
                                    % (i, len(shared), ti))
        # composites that took no part must still be empty: one built earlier, one built now, and the class defaults
        later = Composite(partial({'processes': {}, 'topology': {}}))
        for name, x in (('built before the merges', witness), ('built after the merges', later)):
            if any(x[k] for k in ('processes', 'steps', 'flow', 'topology', 'state')):
                problems.append('a composite %s from an empty partial config holds %s'
                                % (name, str({k: x[k] for k in ('processes', 'steps', 'flow', 'topology', 'state') if x[k]})[:300]))
        if any(Composite.defaults[k] for k in Composite.defaults):
            problems.append('Composite.defaults was written to: %r' % (str(Composite.defaults)[:300],))
            for k in Composite.defaults:          # keep the cases of this run independent of each other
                Composite.defaults[k] = {}
        return {'comp': dump_comp(me), 'problems': problems}
    if kind == 'override':
        return run_override(c)
    # entry points
    from vivarium.core.engine import Engine
    parts = realise_parts(c['parts'])
    trajs = []
    with contextlib.redirect_stdout(io.StringIO()):
        for mode in ('composite', 'parts', 'store'):
            _OBJS.clear()
            parts = realise_parts(c['parts'])
            comp = Composite(copy.copy(parts))
            if mode == 'composite':
                eng = Engine(composite=comp, display_info=False)
            elif mode == 'parts':
                eng = Engine(processes=parts['processes'], steps=parts['steps'], flow=parts['flow'],
                             topology=parts['topology'], initial_state=parts['state'], display_info=False)
            else:
                eng = Engine(store=comp.generate_store({'initial_state': parts['state']}), display_info=False)
            eng.update(c['ticks'])
            trajs.append(strip(eng.emitter.get_data()))
        # one Composite used for two engines: the first with an explicit initial state, the second without.  The
        # composite's own state must not change, and the second engine must run as the one built from the parts
        _OBJS.clear()
        parts = realise_parts(c['parts'])
        comp = Composite(copy.copy(parts))
        before = copy.deepcopy(comp['state'])
        over = {'v' + name: {'x': 50 + i} for i, name in enumerate(sorted(parts['processes']))}
        eng = Engine(composite=comp, initial_state=over, display_info=False)
        eng.update(1)
        reuse = {'state_before': before, 'state_after': copy.deepcopy(comp['state'])}
        eng = Engine(composite=comp, display_info=False)
        eng.update(c['ticks'])
        reuse['traj'] = strip(eng.emitter.get_data())
    return {'trajs': trajs, 'reuse': reuse}


SHARED_SCHEMA = {'s': {'x': {'_default': 0, '_emit': True}}}


def run_override(c):
    """schema overrides naming some processes: the store built afterwards"""
    from vivarium.core.composer import Composer, Composite
    from vivarium.core.process import Process, Step
    shared = c['shared_schema']
    pristine = copy.deepcopy(SHARED_SCHEMA)

    class PO(Process):
        def ports_schema(self):
            # (`shared_schema`: the schema is a constant that outlives the call, shared by every instance)
            return SHARED_SCHEMA if shared else copy.deepcopy(pristine)

        def next_update(self, ts, states):
            return {}

    class SO(Step):
        def ports_schema(self):
            return SHARED_SCHEMA if shared else copy.deepcopy(pristine)

        def next_update(self, ts, states):
            return {}
    over = {}
    for pth, dflt, emit in c['targets']:
        d = over
        for k in pth[:-1]:
            d = d.setdefault(k, {})
        d[pth[-1]] = {'s': {'x': {'_default': dflt, '_emit': emit}}}
    flat_over = {tuple(pth): (dflt, emit) for pth, dflt, emit in c['targets']}

    def mk(name, path):
        cls = SO if name.startswith('s') else PO
        params = {'name': name}
        if c['route'] == 'param' and tuple(path) in flat_over:
            dflt, emit = flat_over[tuple(path)]
            params['_schema'] = {'s': {'x': {'_default': dflt, '_emit': emit}}}
        return cls(params)

    def realise_p(d, pre=()):
        return {k: (realise_p(v, pre + (k,)) if isinstance(v, dict) else mk(v, pre + (k,))) for k, v in d.items()}
    parts = c['parts']
    cfg = {'processes': realise_p(parts['processes']), 'steps': realise_p(parts['steps']),
           'topology': realise_topology(parts['topology']),
           'flow': realise(parts['flow'], lambda l: [tuple(x) for x in l]) if parts['flow'] else {},
           'state': copy.deepcopy(parts['state'])}
    try:
        with contextlib.redirect_stdout(io.StringIO()):
            if c['route'] == 'composer':
                class Comp(Composer):
                    def generate_processes(self, config):
                        return cfg['processes']

                    def generate_topology(self, config):
                        return cfg['topology']

                    def generate_steps(self, config):
                        return cfg['steps']

                    def generate_flow(self, config):
                        return cfg['flow']
                comp = Comp({'_schema': copy.deepcopy(over)}).generate()
                store = comp.generate_store({'initial_state': copy.deepcopy(parts['state'])})
            elif c['route'] == 'composite':
                comp = Composite(dict(cfg, _schema=copy.deepcopy(over)))
                store = comp.generate_store()
            elif c['route'] == 'merge':
                comp = Composite({'processes': {}, 'topology': {}})
                comp.merge(processes=cfg['processes'], topology=cfg['topology'], steps=cfg['steps'], flow=cfg['flow'],
                           state=cfg['state'], schema_override=copy.deepcopy(over))
                store = comp.generate_store()
            else:
                comp = Composite(cfg)
                store = comp.generate_store()
        nodes = {}
        for path, node in store.depth():
            if node.leaf and path and path[-1] == 'x':
                nodes['/'.join(path)] = [node.value, bool(node.emit)]
        schemas = []

        def walk_p(d, pre=()):
            for k, v in d.items():
                if isinstance(v, dict):
                    walk_p(v, pre + (k,))
                else:
                    schemas.append([list(pre + (k,)), copy.deepcopy(v.get_schema())])
        walk_p(cfg['processes'])
        walk_p(cfg['steps'])
        out = {'nodes': nodes, 'schema_kept': SHARED_SCHEMA == pristine, 'schemas': schemas}
    except Exception as e:
        out = {'err': '%s: %s' % (type(e).__name__, str(e)[:200])}
    SHARED_SCHEMA.clear()
    SHARED_SCHEMA.update(copy.deepcopy(pristine))
    return out


def oracle_override(c, ob):
    ghost = any(pth[-1] == 'ghost' for pth, _, _ in c['targets'])
    if 'err' in ob:
        if ghost and ob['err'].startswith('KeyError'):
            return []
        return [('schema overrides made construction raise: ' + ob['err'], 'override-raised')]
    if ghost:
        return [('an override naming a process that does not exist was accepted silently', 'override-misdirected')]
    msgs = []
    over = {tuple(pth): (dflt, emit) for pth, dflt, emit in c['targets']}
    parts = c['parts']

    def walk(d, pre=()):
        for k, v in d.items():
            if isinstance(v, dict):
                yield from walk(v, pre + (k,))
            else:
                yield pre + (k,)
    for pth in list(walk(parts['processes'])) + list(walk(parts['steps'])):
        node_path = pth[:-1] + ('v' + pth[-1], 'x')
        given = parts['state']
        for k in node_path:
            given = given.get(k) if isinstance(given, dict) else None
        dflt, emit = over.get(pth, (0, True))
        want = [given if given is not None else dflt, emit]
        got = ob['nodes'].get('/'.join(node_path))
        if got != want:
            msgs.append(('route %s, overrides for %r: the variable of %r is (value, emit) = %r, expected %r'
                         % (c['route'], sorted('/'.join(p) for p in over), '/'.join(pth), got, want),
                         'override-misdirected'))
            break
    if not ob['schema_kept']:
        msgs.append(('an override was written into the dictionary ports_schema() returned (shared by all instances)',
                     'override-misdirected'))
    return msgs


def strip(d):
    if isinstance(d, dict):
        return {str(k): strip(v) for k, v in d.items()}
    return d


# ------------------------------------------------------------------ oracle

def ref_deep_merge(a, b):
    out = dict(a)
    for k, v in b.items():
        if k in out and isinstance(out[k], dict) and isinstance(v, dict):
            out[k] = ref_deep_merge(out[k], v)
        else:
            out[k] = v
    return out


def ref_embed(path, d):
    for k in reversed(path):
        d = {k: d}
    return d


def tokens(parts):
    def tok(comp, x):
        if comp in ('processes', 'steps'):
            return 'proc:' + x
        if comp == 'flow':
            return 'deps:' + ';'.join('/'.join(d) for d in x)
        return 'val:%r' % (x,)

    def walk(comp, d):
        if isinstance(d, dict):
            if comp == 'topology' and set(d.keys()) == {'s'} and isinstance(d['s'], list):
                return {'s': 'path:' + '/'.join(d['s'])}
            return {k: walk(comp, v) for k, v in d.items()}
        return tok(comp, d)
    return {k: walk(k, parts[k]) for k in ('processes', 'topology', 'steps', 'flow', 'state')}


def oracle(c, ob, rng):
    msgs = []
    kind = c['kind']
    if kind == 'embed':
        want = {k: ref_embed(c['path'], v) for k, v in tokens(c['parts']).items()}
        want['state'] = {}
        got = dict(ob['comp'])
        if {k: got[k] for k in want} != want:
            msgs.append(('generate(path=%r) does not place the components under the path' % (c['path'],), 'embed-misplaced'))
    elif kind == 'merge':
        for p in ob['problems'][:2]:
            msgs.append((p, 'merged-in-composite-mutated' if 'changed the contents' in p else 'merge-aliases'))
        me = tokens(c['self'])
        empty = {k: {} for k in me}
        for m in c['merges']:
            other = tokens(c['templates'][m['t']]) if m['t'] is not None else empty
            loose = tokens(m['loose']) if m['loose'] is not None else empty
            for k in me:
                me[k] = ref_deep_merge(me[k], ref_embed(m['path'], ref_deep_merge(other[k], loose[k])))
        if ob['comp'] != me:
            msgs.append(('the merged composite is not the union of its parts (later entries winning)', 'merge-not-union'))
    elif kind == 'override':
        msgs.extend(oracle_override(c, ob))
    else:
        a, b, s = ob['trajs']
        if a != b or a != s:
            msgs.append(('the three engine entry points give different trajectories', 'entry-points-differ'))
        r = ob.get('reuse')
        if r and r['state_before'] != r['state_after']:
            msgs.append(('building an Engine from a Composite with an explicit initial_state changed the composite\'s '
                         'own state: %r -> %r' % (r['state_before'], r['state_after']), 'composite-state-mutated'))
        if r and r['traj'] != b:
            msgs.append(('a second engine built from the same Composite does not run as the engine built from its '
                         'parts', 'entry-points-differ'))
    return msgs[:2]


# ------------------------------------------------------------------ rendering

class R:
    def __init__(self):
        self.keys = common.Names(KEYS + PNAMES + SNAMES + ['s', 'x', '_default', '_emit', 'ghost'])
        self.leaves = common.Names()

    def key(self, k):
        return cN(self.keys.get(k))

    def tree(self, d):
        if isinstance(d, dict):
            return '(Nd %s)' % clist([cpair(self.key(k), self.tree(v)) for k, v in d.items()])
        return '(Lf %s)' % cN(self.leaves.get(d))

    def comp(self, c):
        return '{| c_processes := %s; c_topology := %s; c_steps := %s; c_flow := %s; c_state := %s |}' % tuple(
            self.tree(c[k]) for k in ('processes', 'topology', 'steps', 'flow', 'state'))

    def path(self, p):
        return clist([self.key(k) for k in p])


def render_override(c, ob, r):
    """(OOverride processes-and-steps overrides declared-schema observed-get_schema-per-process)"""
    from harness.common import cZ, copt
    parts = c['parts']
    pids = {}

    def ptree(d, pre=()):
        items = []
        for k, v in d.items():
            if isinstance(v, dict):
                items.append(cpair(r.key(k), ptree(v, pre + (k,))))
            else:
                pids[pre + (k,)] = len(pids) + 1
                items.append(cpair(r.key(k), '(Lf %s)' % cN(pids[pre + (k,)])))
        return '(Nd %s)' % clist(items)
    # processes_and_steps = deep_merge_check(copy(processes), steps)
    both = ref_deep_merge(copy.deepcopy(parts['processes']), copy.deepcopy(parts['steps']))
    pt = ptree(both)

    def stree(d):
        if isinstance(d, dict):
            return '(Nd %s)' % clist([cpair(r.key(k), stree(v)) for k, v in d.items()])
        return '(Lf %s)' % cZ(int(d))
    over = {}
    for pth, dflt, emit in c['targets']:
        d = over
        for k in pth[:-1]:
            d = d.setdefault(k, {})
        d[pth[-1]] = {'s': {'x': {'_default': dflt, '_emit': emit}}}
    if 'err' in ob:
        obs = 'None'
    else:
        obs = '(Some %s)' % clist([cpair(cN(pids[tuple(pth)]), stree(sch)) for pth, sch in ob['schemas']])
    return '(OOverride %s %s %s %s)' % (pt, stree(over), stree({'s': {'x': {'_default': 0, '_emit': True}}}), obs)


def render(c, ob):
    r = R()
    if c['kind'] == 'embed':
        t = tokens(c['parts'])
        t['state'] = {}
        return '(OEmbed %s %s %s)' % (r.path(c['path']), r.comp(t), r.comp(ob['comp']))
    if c['kind'] == 'merge':
        empty = {k: {} for k in ('processes', 'topology', 'steps', 'flow', 'state')}
        ms = []
        for m in c['merges']:
            other = tokens(c['templates'][m['t']]) if m['t'] is not None else empty
            loose = tokens(m['loose']) if m['loose'] is not None else empty
            ms.append('(%s, %s, %s)' % (r.comp(other), r.comp(loose), r.path(m['path'])))
        return '(OMerge %s %s %s)' % (r.comp(tokens(c['self'])), clist(ms), r.comp(ob['comp']))
    if c['kind'] == 'override':
        if 'err' in ob and not ob['err'].startswith('KeyError'):
            return None
        return render_override(c, ob, r)
    return '(OEmbed [] empty_comp empty_comp)'


def nontrivial(c, ob):
    return (c['kind'] == 'merge' and len(c['merges']) >= 2) or (c['kind'] == 'embed' and c['path']) or c['kind'] in ('entry', 'override')


def stat_key(c, ob):
    return c['kind']


def run(cases, tier='quick', seed=0):
    return common.generic_run(__import__('harness.c16', fromlist=['x']), cases, seed, shard=100)


def model_output(case, ob):
    return common.coq_eval('C16', IMPORTS, 'model_out %s' % render(case, ob))[:4000]
